(* C38 — proofs about the MatchNode trie: Add / Remove implement a finite map from
   concatenated expressions to permissions (for every history), and Match over the
   trie returns the rule-level results of the rules it holds. *)
From Coq Require Import NArith ZArith PeanoNat List Bool Lia.
From Dolt Require Import Base.Str C38.Model C38.Spec C38.Corr C38.Proofs.
Import ListNotations.
Local Open Scope Z_scope.

(* ------------------------------------------------------------------ *)
(* induction over nodes (nested through the child list)                *)
Section NodeInd.
  Variable P : node -> Prop.
  Hypothesis H : forall so ch d, Forall (fun kc => P (snd kc)) ch -> P (Node so ch d).
  Fixpoint node_ind' (n : node) : P n :=
    match n with
    | Node so ch d =>
      H so ch d ((fix go (l : list (Z * node)) : Forall (fun kc => P (snd kc)) l :=
                    match l with
                    | [] => Forall_nil _
                    | kc :: l' => Forall_cons kc (node_ind' (snd kc)) (go l')
                    end) ch)
    end.
End NodeInd.

(* ------------------------------------------------------------------ *)
(* what a trie holds: the data stored for an exact path                *)
Fixpoint strip (so toks : list Z) : option (list Z) :=
  match so, toks with
  | [], _ => Some toks
  | x :: so', y :: toks' => if x =? y then strip so' toks' else None
  | _ :: _, [] => None
  end.

Fixpoint tlookup (n : node) (toks : list Z) {struct n} : option N :=
  match n with
  | Node so ch d =>
    match strip so toks with
    | None => None
    | Some [] => d
    | Some (x :: rest) =>
      (fix go (l : list (Z * node)) : option N :=
         match l with
         | [] => None
         | (k, c) :: l' => if k =? x then tlookup c (x :: rest) else go l'
         end) ch
    end
  end.

Lemma tlookup_unfold so ch d toks :
  tlookup (Node so ch d) toks =
  match strip so toks with
  | None => None
  | Some [] => d
  | Some (x :: rest) => match find_child x ch with Some c => tlookup c (x :: rest) | None => None end
  end.
Proof.
  cbn [tlookup]. destruct (strip so toks) as [[|x rest]|]; try reflexivity.
  induction ch as [|[k c] l IH]; [reflexivity|]. cbn [find_child]. destruct (k =? x); [reflexivity | exact IH].
Qed.

Lemma strip_app_same p a b : strip (p ++ a) (p ++ b) = strip a b.
Proof. induction p as [|x p IH]; [reflexivity|]. cbn [app strip]. rewrite Z.eqb_refl. exact IH. Qed.

Lemma strip_self a r : strip a (a ++ r) = Some r.
Proof. rewrite <- (app_nil_r a) at 1. rewrite strip_app_same. reflexivity. Qed.

Lemma strip_some so t r : strip so t = Some r -> t = so ++ r.
Proof.
  revert t. induction so as [|x so IH]; intros t Hs; cbn [strip] in Hs.
  - inversion Hs; reflexivity.
  - destruct t as [|y t]; [discriminate|]. destruct (x =? y) eqn:E; [|discriminate].
    apply Z.eqb_eq in E. subst y. cbn [app]. f_equal. apply IH. exact Hs.
Qed.

Lemma strip_app_none p a t : strip p t = None -> strip (p ++ a) t = None.
Proof.
  revert t. induction p as [|x p IH]; intros t Hs; [discriminate|].
  cbn [app strip] in *. destruct t as [|y t]; [reflexivity|]. destruct (x =? y); [apply IH; exact Hs | reflexivity].
Qed.

Lemma tlookup_prefix pre ra ch d u : tlookup (Node (pre ++ ra) ch d) (pre ++ u) = tlookup (Node ra ch d) u.
Proof. rewrite !tlookup_unfold, strip_app_same. reflexivity. Qed.

Lemma tlookup_noprefix pre ra ch d t : strip pre t = None -> tlookup (Node (pre ++ ra) ch d) t = None.
Proof. intros Hs. rewrite tlookup_unfold, (strip_app_none _ _ _ Hs). reflexivity. Qed.

Lemma tlookup_prefix0 pre ch d u : tlookup (Node pre ch d) (pre ++ u) = tlookup (Node [] ch d) u.
Proof. rewrite <- (app_nil_r pre) at 1. apply tlookup_prefix. Qed.

Lemma tlookup_noprefix0 pre ch d t : strip pre t = None -> tlookup (Node pre ch d) t = None.
Proof. intros Hs. rewrite <- (app_nil_r pre). apply tlookup_noprefix. exact Hs. Qed.

Lemma tlookup_nil_so ch d u :
  tlookup (Node [] ch d) u = match u with [] => d | x :: rest => match find_child x ch with Some c => tlookup c u | None => None end end.
Proof. rewrite tlookup_unfold. cbn [strip]. destruct u; reflexivity. Qed.

Lemma tlookup_cons_so y rm ch d u :
  tlookup (Node (y :: rm) ch d) u = match u with [] => None | z :: u' => if y =? z then tlookup (Node rm ch d) u' else None end.
Proof.
  rewrite tlookup_unfold. destruct u as [|z u']; [reflexivity|]. cbn [strip].
  destruct (y =? z); [rewrite tlookup_unfold; reflexivity | reflexivity].
Qed.

Lemma tlookup_leaf so dat u : tlookup (Node so [] (Some dat)) u = if list_eq_dec Z.eq_dec u so then Some dat else None.
Proof.
  rewrite tlookup_unfold. destruct (strip so u) as [[|x rest]|] eqn:Hs.
  - apply strip_some in Hs. rewrite app_nil_r in Hs. subst u. destruct (list_eq_dec Z.eq_dec so so); [reflexivity | contradiction].
  - apply strip_some in Hs. destruct (list_eq_dec Z.eq_dec u so) as [E|]; [|reflexivity].
    rewrite E in Hs. rewrite <- (app_nil_r so) in Hs at 1. apply app_inv_head in Hs. discriminate.
  - destruct (list_eq_dec Z.eq_dec u so) as [E|]; [|reflexivity]. rewrite E in Hs.
    rewrite <- (app_nil_r so) in Hs at 2. rewrite strip_self in Hs. discriminate.
Qed.

(* split_common *)
Lemma split_common_spec a b pre ra rb :
  split_common a b = (pre, ra, rb) ->
  a = pre ++ ra /\ b = pre ++ rb /\
  match ra, rb with y :: _, x :: _ => y <> x | _, _ => True end.
Proof.
  revert b pre ra rb. induction a as [|x a IH]; intros b pre ra rb Hs; cbn [split_common] in Hs.
  - inversion Hs; subst. repeat split.
  - destruct b as [|y b].
    + inversion Hs; subst. repeat split.
    + destruct (x =? y) eqn:E.
      * destruct (split_common a b) as [[p ra'] rb'] eqn:Es. inversion Hs; subst.
        apply Z.eqb_eq in E. subst y. destruct (IH _ _ _ _ Es) as [-> [-> Hd]]. repeat split. exact Hd.
      * inversion Hs; subst. apply Z.eqb_neq in E. repeat split. exact E.
Qed.

(* children by key *)
Lemma find_child_app k l l' : find_child k (l ++ l') = match find_child k l with Some c => Some c | None => find_child k l' end.
Proof. induction l as [|[k' c] l IH]; [reflexivity|]. cbn [app find_child]. destruct (k' =? k); [reflexivity | exact IH]. Qed.

Lemma upd_first_spec x f l :
  match upd_first x f l with
  | Some l' => exists c, find_child x l = Some c /\ map fst l' = map fst l /\
               (forall z, find_child z l' = if z =? x then Some (f c) else find_child z l) /\
               (forall P : Z * node -> Prop, Forall P l -> P (x, f c) -> Forall P l')
  | None => find_child x l = None
  end.
Proof.
  induction l as [|[k c] l IH]; [reflexivity|]. cbn [upd_first find_child].
  destruct (k =? x) eqn:E.
  - exists c. apply Z.eqb_eq in E. subst k. split; [reflexivity|]. split; [reflexivity|]. split.
    + intros z. cbn [find_child]. rewrite (Z.eqb_sym x z). destruct (z =? x); reflexivity.
    + intros P HP Hx. inversion HP; subst. constructor; assumption.
  - destruct (upd_first x f l) as [l'|].
    + destruct IH as [c0 [Hf [Hk [Hz HP]]]]. exists c0. split; [exact Hf|]. split; [cbn [map]; rewrite Hk; reflexivity|]. split.
      * intros z. cbn [find_child]. destruct (k =? z) eqn:Ez.
        -- apply Z.eqb_eq in Ez. subst z. rewrite E. reflexivity.
        -- apply Hz.
      * intros P HPl Hx. inversion HPl; subst. constructor; [assumption | apply HP; assumption].
    + exact IH.
Qed.

(* ------------------------------------------------------------------ *)
(* Add is a map update, for every node and expression                  *)
Theorem add_node_lookup n : forall toks dat t',
  tlookup (add_node n toks dat) t' = if list_eq_dec Z.eq_dec t' toks then Some dat else tlookup n t'.
Proof.
  induction n as [so ch d IH] using node_ind'. intros toks dat t'.
  cbn [add_node]. destruct (split_common so toks) as [[pre ra] rb] eqn:Es.
  destruct (split_common_spec _ _ _ _ _ Es) as [-> [-> Hd]].
  destruct (strip pre t') as [u|] eqn:Hu.
  2:{ (* t' does not even share the prefix *)
    assert (Hne : t' <> pre ++ rb) by (intros ->; rewrite strip_self in Hu; discriminate).
    destruct (list_eq_dec Z.eq_dec t' (pre ++ rb)); [contradiction|].
    rewrite (tlookup_noprefix pre ra ch d t' Hu).
    destruct ra as [|y rm], rb as [|x r].
    - apply tlookup_noprefix. exact Hu.
    - destruct (upd_first x _ ch); apply tlookup_noprefix; exact Hu.
    - apply tlookup_noprefix0. exact Hu.
    - apply tlookup_noprefix0. exact Hu. }
  apply strip_some in Hu. subst t'.
  assert (Hdec : forall A (a b : A), (if list_eq_dec Z.eq_dec (pre ++ u) (pre ++ rb) then a else b) = if list_eq_dec Z.eq_dec u rb then a else b).
  { intros A a b. destruct (list_eq_dec Z.eq_dec (pre ++ u) (pre ++ rb)) as [E|E], (list_eq_dec Z.eq_dec u rb) as [E'|E']; try reflexivity.
    - apply app_inv_head in E. contradiction.
    - subst u. contradiction. }
  rewrite Hdec. rewrite (tlookup_prefix pre ra ch d u).
  destruct ra as [|y rm], rb as [|x r].
  - (* exact end: data set *)
    rewrite tlookup_prefix, !tlookup_nil_so.
    destruct u; destruct (list_eq_dec Z.eq_dec _ []); try discriminate; try reflexivity. contradiction.
  - (* descend / new child *)
    pose proof (upd_first_spec x (fun c => add_node c (x :: r) dat) ch) as Hup.
    destruct (upd_first x _ ch) as [ch'|].
    + destruct Hup as [c [Hf [_ [Hz _]]]]. rewrite tlookup_prefix, !tlookup_nil_so.
      destruct u as [|z u'].
      * destruct (list_eq_dec Z.eq_dec [] (x :: r)); [discriminate | reflexivity].
      * rewrite Hz. destruct (z =? x) eqn:Ez.
        -- apply Z.eqb_eq in Ez. subst z. rewrite Hf.
           rewrite Forall_forall in IH.
           assert (Hin : In (x, c) ch \/ True) by (right; exact I).
           assert (IHc : forall toks dat t', tlookup (add_node c toks dat) t' = if list_eq_dec Z.eq_dec t' toks then Some dat else tlookup c t').
           { clear - IH Hf. induction ch as [|[k c0] l IHl]; [discriminate|]. cbn [find_child] in Hf.
             destruct (k =? x).
             - inversion Hf; subst. apply (IH (k, c)). left; reflexivity.
             - apply IHl; [|exact Hf]. intros kc Hkc. apply IH. right; exact Hkc. }
           apply IHc.
        -- destruct (list_eq_dec Z.eq_dec (z :: u') (x :: r)) as [E|]; [|reflexivity].
           inversion E; subst. rewrite Z.eqb_refl in Ez. discriminate.
    + rewrite tlookup_prefix, !tlookup_nil_so.
      destruct u as [|z u'].
      * destruct (list_eq_dec Z.eq_dec [] (x :: r)); [discriminate | reflexivity].
      * rewrite find_child_app. destruct (find_child z ch) as [c|] eqn:Ef.
        -- destruct (list_eq_dec Z.eq_dec (z :: u') (x :: r)) as [E|]; [|reflexivity].
           inversion E; subst. congruence.
        -- cbn [find_child]. destruct (x =? z) eqn:Ez.
           ++ rewrite tlookup_leaf. reflexivity.
           ++ destruct (list_eq_dec Z.eq_dec (z :: u') (x :: r)) as [E|]; [|reflexivity].
              inversion E; subst. rewrite Z.eqb_refl in Ez. discriminate.
  - (* the new expression ends inside the run: split, data on the upper part *)
    rewrite tlookup_prefix0, tlookup_nil_so.
    destruct u as [|z u'].
    + destruct (list_eq_dec Z.eq_dec [] []); [|contradiction]. reflexivity.
    + destruct (list_eq_dec Z.eq_dec (z :: u') []); [discriminate|].
      cbn [find_child]. rewrite (tlookup_cons_so y rm ch d (z :: u')).
      destruct (y =? z) eqn:E; [|reflexivity].
      rewrite (tlookup_cons_so y rm ch d (z :: u')), E. reflexivity.
  - (* divergence inside the run: split in two children *)
    rewrite tlookup_prefix0, tlookup_nil_so.
    destruct u as [|z u'].
    + destruct (list_eq_dec Z.eq_dec [] (x :: r)); [discriminate|]. rewrite tlookup_cons_so. reflexivity.
    + cbn [find_child]. rewrite (tlookup_cons_so y rm ch d (z :: u')).
      destruct (y =? z) eqn:E.
      * apply Z.eqb_eq in E. subst z. rewrite (tlookup_cons_so y rm ch d (y :: u')), Z.eqb_refl.
        destruct (list_eq_dec Z.eq_dec (y :: u') (x :: r)) as [E'|]; [|reflexivity]. inversion E'; subst. contradiction.
      * destruct (x =? z) eqn:E2.
        -- rewrite tlookup_leaf. reflexivity.
        -- destruct (list_eq_dec Z.eq_dec (z :: u') (x :: r)) as [E'|]; [|reflexivity].
           inversion E'; subst. rewrite Z.eqb_refl in E2. discriminate.
Qed.

(* ------------------------------------------------------------------ *)
(* well-formed tries: one child per key, and a child's run starts with its key *)
Fixpoint wf (n : node) : Prop :=
  match n with
  | Node so ch d =>
    NoDup (map fst ch) /\
    (fix all (l : list (Z * node)) : Prop :=
       match l with
       | [] => True
       | (k, c) :: l' => ((exists r, n_so c = k :: r) /\ wf c) /\ all l'
       end) ch
  end.

Definition child_ok (kc : Z * node) : Prop := (exists r, n_so (snd kc) = fst kc :: r) /\ wf (snd kc).

Lemma wf_unfold so ch d : wf (Node so ch d) <-> NoDup (map fst ch) /\ Forall child_ok ch.
Proof.
  cbn [wf]. split; intros [Hn Ha]; split; try exact Hn.
  - induction ch as [|[k c] l IH]; [constructor|]. destruct Ha as [Hc Hl]. constructor; [exact Hc|].
    apply IH; [inversion Hn; assumption | exact Hl].
  - induction ch as [|[k c] l IH]; [exact I|]. inversion Ha as [|? ? Hc Hl]; subst. split; [exact Hc|].
    apply IH; [inversion Hn; assumption | exact Hl].
Qed.

Lemma wf_root0 : wf root0.
Proof. apply wf_unfold. split; constructor. Qed.

Lemma find_child_In k l c : find_child k l = Some c -> In (k, c) l.
Proof.
  induction l as [|[k' c'] l IH]; [discriminate|]. cbn [find_child]. destruct (k' =? k) eqn:E.
  - intros H. inversion H; subst. apply Z.eqb_eq in E. subst. left; reflexivity.
  - intros H. right. apply IH. exact H.
Qed.

Lemma find_child_notin k l : ~ In k (map fst l) -> find_child k l = None.
Proof.
  induction l as [|[k' c'] l IH]; [reflexivity|]. cbn [map fst find_child]. intros Hn.
  destruct (k' =? k) eqn:E.
  - apply Z.eqb_eq in E. subst. exfalso. apply Hn. left; reflexivity.
  - apply IH. intros H. apply Hn. right; exact H.
Qed.

Lemma tlookup_nochildren so d u : tlookup (Node so [] d) u = if list_eq_dec Z.eq_dec u so then d else None.
Proof.
  rewrite tlookup_unfold. destruct (strip so u) as [[|x rest]|] eqn:Hs.
  - apply strip_some in Hs. rewrite app_nil_r in Hs. subst u. destruct (list_eq_dec Z.eq_dec so so); [reflexivity | contradiction].
  - apply strip_some in Hs. destruct (list_eq_dec Z.eq_dec u so) as [E|]; [|reflexivity].
    rewrite E in Hs. rewrite <- (app_nil_r so) in Hs at 1. apply app_inv_head in Hs. discriminate.
  - destruct (list_eq_dec Z.eq_dec u so) as [E|]; [|reflexivity]. rewrite E in Hs.
    rewrite <- (app_nil_r so) in Hs at 2. rewrite strip_self in Hs. discriminate.
Qed.

Lemma rem_first_spec x f l :
  NoDup (map fst l) ->
  match rem_first x f l with
  | None => find_child x l = None
  | Some (l', fl) =>
    exists c, find_child x l = Some c /\ fl = snd (f c) /\
      incl (map fst l') (map fst l) /\
      (forall P : Z * node -> Prop, Forall P l -> P (x, fst (f c)) -> Forall P l') /\
      (fl = RDelete -> NoDup (map fst l') /\ (forall z, find_child z l' = if z =? x then None else find_child z l)
                       /\ forall P : Z * node -> Prop, Forall P l -> Forall P l') /\
      (fl <> RDelete -> map fst l' = map fst l /\ forall z, find_child z l' = if z =? x then Some (fst (f c)) else find_child z l)
  end.
Proof.
  induction l as [|[k c] l IH]; intros Hnd; [reflexivity|].
  cbn [map fst] in Hnd. inversion Hnd as [|? ? Hk Hnd']; subst.
  cbn [rem_first find_child]. destruct (k =? x) eqn:E.
  - apply Z.eqb_eq in E. subst k. exists c. split; [reflexivity|]. split; [reflexivity|].
    split; [|split; [|split]].
    + destruct (snd (f c)); cbn [map fst]; try apply incl_refl. apply incl_tl. apply incl_refl.
    + intros P HP Hx. inversion HP; subst. destruct (snd (f c)); try (constructor; assumption). assumption.
    + intros Hfl. rewrite Hfl. split; [exact Hnd'|]. split.
      * intros z. cbn [find_child].
        rewrite (Z.eqb_sym x z). destruct (z =? x) eqn:Ez; [|reflexivity].
        apply Z.eqb_eq in Ez. subst z. apply find_child_notin. exact Hk.
      * intros P HP. inversion HP; assumption.
    + intros Hfl. assert (El : (match snd (f c) with RDelete => l | _ => (x, fst (f c)) :: l end) = (x, fst (f c)) :: l)
        by (destruct (snd (f c)); try reflexivity; contradiction).
      rewrite El. split; [reflexivity|]. intros z. cbn [find_child]. rewrite (Z.eqb_sym x z). destruct (z =? x); reflexivity.
  - specialize (IH Hnd'). destruct (rem_first x f l) as [[l'' fl]|]; [|exact IH].
    destruct IH as [c0 [Hf [Hfl [Hincl [HP [Hdel Hkeep]]]]]].
    exists c0. split; [exact Hf|]. split; [exact Hfl|]. split; [|split; [|split]].
    + cbn [map fst]. intros a [Ha|Ha]; [left; exact Ha | right; apply Hincl; exact Ha].
    + intros P HPl Hx. inversion HPl; subst. constructor; [assumption|]. apply HP; assumption.
    + intros Hd. destruct (Hdel Hd) as [Hn' [Hz HPd]]. split; [|split].
      * cbn [map fst]. constructor; [|exact Hn']. intros Hin. apply Hk. apply Hincl. exact Hin.
      * intros z. cbn [find_child]. destruct (k =? z) eqn:Ez.
        -- apply Z.eqb_eq in Ez. subst z. rewrite E. reflexivity.
        -- apply Hz.
      * intros P HPl. inversion HPl; subst. constructor; [assumption | apply HPd; assumption].
    + intros Hd. destruct (Hkeep Hd) as [Hm Hz]. split; [cbn [map fst]; rewrite Hm; reflexivity|].
      intros z. cbn [find_child]. destruct (k =? z) eqn:Ez.
      * apply Z.eqb_eq in Ez. subst z. rewrite E. reflexivity.
      * apply Hz.
Qed.

Lemma merge_lookup so k cr cch cd t' :
  tlookup (Node (so ++ k :: cr) cch cd) t' = tlookup (Node so [(k, Node (k :: cr) cch cd)] None) t'.
Proof.
  destruct (strip so t') as [u|] eqn:Hu.
  2:{ rewrite (tlookup_noprefix so _ cch cd t' Hu), (tlookup_noprefix0 so _ None t' Hu). reflexivity. }
  apply strip_some in Hu. subst t'. rewrite tlookup_prefix, tlookup_prefix0, tlookup_nil_so.
  destruct u as [|z u']; [apply tlookup_cons_so|]. cbn [find_child].
  rewrite tlookup_cons_so. destruct (k =? z) eqn:E; [|reflexivity]. rewrite tlookup_cons_so, E. reflexivity.
Qed.

Definition rem_ok (n : node) (toks : list Z) : Prop :=
  let n' := fst (rem_node n toks) in
  let fl := snd (rem_node n toks) in
  (forall t', tlookup n' t' = if list_eq_dec Z.eq_dec t' toks then None else tlookup n t')
  /\ (fl = RNotFound -> n' = n)
  /\ (fl = RDelete -> forall t', t' <> toks -> tlookup n t' = None)
  /\ (fl <> RDelete -> wf n' /\ forall k r, n_so n = k :: r -> exists r', n_so n' = k :: r').

Ltac ok4 :=
  split; [ | split; [ try (intros _; reflexivity); try (let Hx := fresh in intros Hx; discriminate Hx)
                    | split; [ try (let Hx := fresh in intros Hx; discriminate Hx)
                             | first [ solve [let Hc := fresh in intros Hc; exfalso; apply Hc; reflexivity] | intros _; split ] ] ] ].

Lemma if_eq_app {A} pre u rb (a b : A) :
  (if list_eq_dec Z.eq_dec (pre ++ u) (pre ++ rb) then a else b) = if list_eq_dec Z.eq_dec u rb then a else b.
Proof.
  destruct (list_eq_dec Z.eq_dec (pre ++ u) (pre ++ rb)) as [E|E], (list_eq_dec Z.eq_dec u rb) as [E'|E']; try reflexivity.
  - apply app_inv_head in E. contradiction.
  - subst u. contradiction.
Qed.

Lemma if_eq_app0 {A} pre u (a b : A) :
  (if list_eq_dec Z.eq_dec (pre ++ u) pre then a else b) = if list_eq_dec Z.eq_dec u [] then a else b.
Proof.
  destruct (list_eq_dec Z.eq_dec (pre ++ u) pre) as [E|E], (list_eq_dec Z.eq_dec u []) as [E'|E']; try reflexivity.
  - rewrite <- (app_nil_r pre) in E at 2. apply app_inv_head in E. contradiction.
  - subst u. rewrite app_nil_r in E. contradiction.
Qed.

Lemma head_app (k : Z) r so cso : so = k :: r -> exists r', so ++ cso = k :: r'.
Proof. intros ->. exists (r ++ cso). reflexivity. Qed.

(* Remove is a map deletion on well-formed tries, and keeps them well-formed *)
Theorem rem_node_ok n : wf n -> forall toks, rem_ok n toks.
Proof.
  induction n as [so ch d IH] using node_ind'. intros Hwf toks.
  apply wf_unfold in Hwf. destruct Hwf as [Hnd Hch].
  unfold rem_ok. cbn [rem_node].
  destruct (split_common so toks) as [[pre ra] rb] eqn:Es.
  destruct (split_common_spec _ _ _ _ _ Es) as [Hso [Htoks Hd]].
  destruct ra as [|y rm].
  2:{ (* the expression ends inside the run or diverges: nothing removed *)
    assert (Hnone : tlookup (Node so ch d) toks = None).
    { rewrite Hso, Htoks, tlookup_prefix, tlookup_cons_so. destruct rb as [|x r]; [reflexivity|].
      destruct (y =? x) eqn:E; [apply Z.eqb_eq in E; contradiction | reflexivity]. }
    destruct rb as [|x r]; cbn [fst snd]; (ok4;
       [ intros t'; destruct (list_eq_dec Z.eq_dec t' toks) as [->|]; [exact Hnone | reflexivity]
       | apply wf_unfold; split; assumption
       | intros k r0 Hk; exists r0; exact Hk ]). }
  rewrite app_nil_r in Hso. subst pre.
  destruct rb as [|x r].
  - (* exact end *)
    rewrite app_nil_r in Htoks. subst toks.
    destruct ch as [|[k1 [cso cch cd]] [|kc2 ch2]].
    + cbn [fst snd]. ok4.
      * intros t'. rewrite !tlookup_nochildren. destruct (list_eq_dec Z.eq_dec t' so); reflexivity.
      * intros _ t' Hne. rewrite tlookup_nochildren. destruct (list_eq_dec Z.eq_dec t' so); [contradiction | reflexivity].
    + cbn [fst snd]. inversion Hch as [|? ? [[cr Hcr] Hwc] _]; subst. cbn [snd fst n_so] in Hcr, Hwc. subst cso.
      ok4.
      * intros t'. destruct (strip so t') as [u|] eqn:Hu.
        2:{ rewrite (tlookup_noprefix so (k1 :: cr) cch cd t' Hu), (tlookup_noprefix0 so _ d t' Hu).
            destruct (list_eq_dec Z.eq_dec t' so); reflexivity. }
        apply strip_some in Hu. subst t'. rewrite tlookup_prefix, tlookup_prefix0, tlookup_nil_so.
        rewrite if_eq_app0.
        destruct u as [|z u'].
        -- rewrite tlookup_cons_so. destruct (list_eq_dec Z.eq_dec [] []); [reflexivity | contradiction].
        -- destruct (list_eq_dec Z.eq_dec (z :: u') []); [discriminate|]. cbn [find_child].
           rewrite tlookup_cons_so. destruct (k1 =? z) eqn:E; [|reflexivity].
           rewrite tlookup_cons_so, E. reflexivity.
      * apply wf_unfold. apply wf_unfold in Hwc. exact Hwc.
      * intros k r Hk. cbn [n_so] in *. apply head_app with (r := r). exact Hk.
    + cbn [fst snd]. ok4.
      * intros t'. destruct (strip so t') as [u|] eqn:Hu.
        2:{ rewrite !(tlookup_noprefix0 so _ _ t' Hu). destruct (list_eq_dec Z.eq_dec t' so); reflexivity. }
        apply strip_some in Hu. subst t'. rewrite !tlookup_prefix0, !tlookup_nil_so.
        rewrite if_eq_app0.
        destruct u; destruct (list_eq_dec Z.eq_dec _ []); try discriminate; try reflexivity. contradiction.
      * apply wf_unfold. split; assumption.
      * intros k r Hk. exists r. exact Hk.
  - (* descend *)
    subst toks.
    pose proof (rem_first_spec x (fun c => rem_node c (x :: r)) ch Hnd) as Hrf.
    destruct (rem_first x (fun c => rem_node c (x :: r)) ch) as [[ch' fl]|].
    2:{ cbn [fst snd]. ok4.
        - intros t'. destruct (list_eq_dec Z.eq_dec t' (so ++ x :: r)) as [->|]; [|reflexivity].
          rewrite tlookup_prefix0, tlookup_nil_so, Hrf. reflexivity.
        - apply wf_unfold. split; assumption.
        - intros k r0 Hk. exists r0. exact Hk. }
    destruct Hrf as [c [Hf [Hfl [Hincl [HP [Hdel Hkeep]]]]]].
    pose proof (find_child_In _ _ _ Hf) as Hin.
    rewrite Forall_forall in IH. specialize (IH (x, c) Hin). cbn [snd] in IH.
    pose proof (proj1 (Forall_forall _ _) Hch (x, c) Hin) as [[cr Hcr] Hwc]. cbn [fst snd] in Hcr, Hwc.
    specialize (IH Hwc (x :: r)). unfold rem_ok in IH. rewrite <- Hfl in IH.
    destruct IH as [IHl [IHnf [IHdel IHwf]]].
    destruct fl.
    + (* not found below *)
      cbn [fst snd]. ok4.
      * intros t'. destruct (list_eq_dec Z.eq_dec t' (so ++ x :: r)) as [->|]; [|reflexivity].
        rewrite tlookup_prefix0, tlookup_nil_so, Hf. rewrite <- (IHnf eq_refl). rewrite IHl.
        destruct (list_eq_dec Z.eq_dec (x :: r) (x :: r)); [reflexivity | contradiction].
      * apply wf_unfold. split; assumption.
      * intros k r0 Hk. exists r0. exact Hk.
    + (* removed below, child kept *)
      destruct (Hkeep ltac:(discriminate)) as [Hkeys Hz].
      cbn [fst snd]. ok4.
      * intros t'. destruct (strip so t') as [u|] eqn:Hu.
        2:{ rewrite !(tlookup_noprefix0 so _ _ t' Hu). destruct (list_eq_dec Z.eq_dec t' (so ++ x :: r)); reflexivity. }
        apply strip_some in Hu. subst t'. rewrite !tlookup_prefix0, !tlookup_nil_so, if_eq_app.
        destruct u as [|z u'].
        -- destruct (list_eq_dec Z.eq_dec [] (x :: r)); [discriminate | reflexivity].
        -- rewrite Hz. destruct (z =? x) eqn:Ez.
           ++ apply Z.eqb_eq in Ez. subst z. rewrite Hf. apply IHl.
           ++ destruct (list_eq_dec Z.eq_dec (z :: u') (x :: r)) as [E|]; [|reflexivity].
              inversion E; subst. rewrite Z.eqb_refl in Ez. discriminate.
      * apply wf_unfold. split; [rewrite Hkeys; exact Hnd|].
        apply HP; [exact Hch|]. destruct (IHwf ltac:(discriminate)) as [Hw' Hh]. split; cbn [fst snd]; [|exact Hw'].
        apply (Hh x cr). exact Hcr.
      * intros k r0 Hk. exists r0. exact Hk.
    + (* the child became an empty leaf: dropped; possibly absorb the last remaining child *)
      destruct (Hdel eq_refl) as [Hnd' [Hz HPd]].
      pose proof (HPd _ Hch) as Hch'.
      specialize (IHdel eq_refl).
      assert (Hlk : forall t', tlookup (Node so ch' d) t'
                               = if list_eq_dec Z.eq_dec t' (so ++ x :: r) then None else tlookup (Node so ch d) t').
      { intros t'. destruct (strip so t') as [u|] eqn:Hu.
        2:{ rewrite !(tlookup_noprefix0 so _ _ t' Hu). destruct (list_eq_dec Z.eq_dec t' (so ++ x :: r)); reflexivity. }
        apply strip_some in Hu. subst t'. rewrite !tlookup_prefix0, !tlookup_nil_so, if_eq_app.
        destruct u as [|z u'].
        - destruct (list_eq_dec Z.eq_dec [] (x :: r)); [discriminate | reflexivity].
        - rewrite Hz. destruct (z =? x) eqn:Ez.
          + apply Z.eqb_eq in Ez. subst z. rewrite Hf.
            destruct (list_eq_dec Z.eq_dec (x :: u') (x :: r)) as [E|E]; [reflexivity|]. symmetry. apply IHdel. exact E.
          + destruct (list_eq_dec Z.eq_dec (z :: u') (x :: r)) as [E|]; [|reflexivity].
            inversion E; subst. rewrite Z.eqb_refl in Ez. discriminate. }
      assert (Hwf' : wf (Node so ch' d)) by (apply wf_unfold; split; assumption).
      assert (Hhead : forall k r0, so = k :: r0 -> exists r', so = k :: r') by (intros k r0 Hk; exists r0; exact Hk).
      destruct ch' as [|[k2 [cso cch cd]] [|kc3 ch3]]; [ | destruct d as [dd|] | ]; cbn [fst snd].
      * ok4; [exact Hlk | exact Hwf' | exact Hhead].
      * ok4; [exact Hlk | exact Hwf' | exact Hhead].
      * inversion Hch' as [|? ? [[cr2 Hcr2] Hwc2] _]; subst. cbn [fst snd n_so] in Hcr2, Hwc2. subst cso.
        ok4.
        -- intros t'. rewrite merge_lookup. apply Hlk.
        -- apply wf_unfold. apply wf_unfold in Hwc2. exact Hwc2.
        -- intros k r0 Hk. cbn [n_so] in *. apply head_app with (r := r0). exact Hk.
      * ok4; [exact Hlk | exact Hwf' | exact Hhead].
Qed.

(* ------------------------------------------------------------------ *)
(* Add keeps tries well-formed                                          *)
Lemma find_child_none_notin k l : find_child k l = None -> ~ In k (map fst l).
Proof.
  induction l as [|[k' c'] l IH]; [intros _ []|]. cbn [find_child map fst]. destruct (k' =? k) eqn:E; [discriminate|].
  intros H [Hk|Hk]; [subst; rewrite Z.eqb_refl in E; discriminate | apply (IH H Hk)].
Qed.

Lemma NoDup_app_one (k : Z) l : NoDup l -> ~ In k l -> NoDup (l ++ [k]).
Proof.
  induction l as [|a l IH]; intros Hn Hk; cbn [app]; [constructor; [intros []|constructor]|].
  inversion Hn; subst. constructor.
  - intros Hin. apply in_app_or in Hin as [Hin|[Hin|[]]]; [contradiction | subst; apply Hk; left; reflexivity].
  - apply IH; [assumption | intros Hin; apply Hk; right; exact Hin].
Qed.

Theorem add_node_wf n : wf n -> forall toks dat,
  wf (add_node n toks dat)
  /\ forall k r r2, n_so n = k :: r -> toks = k :: r2 -> exists r', n_so (add_node n toks dat) = k :: r'.
Proof.
  induction n as [so ch d IH] using node_ind'. intros Hwf toks dat.
  apply wf_unfold in Hwf. destruct Hwf as [Hnd Hch].
  cbn [add_node]. destruct (split_common so toks) as [[pre ra] rb] eqn:Es.
  destruct (split_common_spec _ _ _ _ _ Es) as [Hso [Htoks Hd]].
  destruct ra as [|y rm], rb as [|x r].
  - split; [apply wf_unfold; split; assumption | intros k r r2 Hk _; exists r; exact Hk].
  - pose proof (upd_first_spec x (fun c => add_node c (x :: r) dat) ch) as Hup.
    destruct (upd_first x _ ch) as [ch'|].
    + destruct Hup as [c [Hf [Hkeys [_ HP]]]]. split; [|intros k r0 r2 Hk _; exists r0; exact Hk].
      apply wf_unfold. split; [rewrite Hkeys; exact Hnd|]. apply HP; [exact Hch|].
      pose proof (find_child_In _ _ _ Hf) as Hin.
      rewrite Forall_forall in IH, Hch. destruct (Hch _ Hin) as [[cr Hcr] Hwc]. cbn [fst snd] in Hcr, Hwc.
      destruct (IH _ Hin Hwc (x :: r) dat) as [Hw Hh]. split; cbn [fst snd]; [|exact Hw].
      apply (Hh x cr r); [exact Hcr | reflexivity].
    + split; [|intros k r0 r2 Hk _; exists r0; exact Hk]. apply wf_unfold. split.
      * rewrite map_app. cbn [map fst]. apply NoDup_app_one; [exact Hnd | apply find_child_none_notin; exact Hup].
      * apply Forall_app. split; [exact Hch|]. constructor; [|constructor]. split; cbn [fst snd n_so].
        -- exists r. reflexivity.
        -- apply wf_unfold. split; constructor.
  - split.
    + apply wf_unfold. split; [cbn [map fst]; constructor; [intros []|constructor]|].
      constructor; [|constructor]. split; cbn [fst snd n_so]; [exists rm; reflexivity | apply wf_unfold; split; assumption].
    + intros k r r2 Hk Ht. cbn [n_so] in *. rewrite app_nil_r in Htoks. subst pre. exists r2. exact Ht.
  - split.
    + apply wf_unfold. split.
      * cbn [map fst]. constructor; [intros [E|[]]; apply Hd; symmetry; exact E|]. constructor; [intros []|constructor].
      * constructor; [|constructor; [|constructor]]; split; cbn [fst snd n_so].
        -- exists rm; reflexivity.
        -- apply wf_unfold; split; assumption.
        -- exists r; reflexivity.
        -- apply wf_unfold; split; constructor.
    + intros k r0 r2 Hk Ht. cbn [n_so] in *. destruct pre as [|p0 pre'].
      * cbn [app] in Hso, Htoks. rewrite Hso in Hk. rewrite Htoks in Ht. inversion Hk; inversion Ht; subst. contradiction.
      * cbn [app] in Hso. rewrite Hso in Hk. inversion Hk; subst. exists pre'. reflexivity.
Qed.

(* ------------------------------------------------------------------ *)
(* every history: the trie holds exactly what the history denotes       *)
Definition top := (bool * list Z * N)%type.     (* insert?, concatenated expression, permissions *)

Definition tr_step (tr : node) (op : top) : node :=
  let '(ins, toks, p) := op in if ins then add_node tr toks p else rem_root tr toks.
Definition tr_apply (ops : list top) (tr : node) : node := fold_left tr_step ops tr.

(* last write wins *)
Definition hist_step (t' : list Z) (acc : option N) (op : top) : option N :=
  let '(ins, toks, p) := op in
  if list_eq_dec Z.eq_dec t' toks then (if ins then Some p else None) else acc.
Definition hist_from (ops : list top) (init : option N) (t' : list Z) : option N := fold_left (hist_step t') ops init.

Lemma rem_root_ok tr toks : wf tr ->
  wf (rem_root tr toks) /\ forall t', tlookup (rem_root tr toks) t' = if list_eq_dec Z.eq_dec t' toks then None else tlookup tr t'.
Proof.
  intros Hwf. destruct (rem_node_ok tr Hwf toks) as [Hl [_ [Hdel Hw]]]. unfold rem_root.
  destruct (rem_node tr toks) as [n' fl]. cbn [fst snd] in *. destruct fl.
  - split; [apply Hw; discriminate | exact Hl].
  - split; [apply Hw; discriminate | exact Hl].
  - split; [exact wf_root0|]. intros t'. specialize (Hdel eq_refl t').
    assert (H0 : tlookup root0 t' = None).
    { unfold root0. rewrite tlookup_nochildren. destruct (list_eq_dec Z.eq_dec t' [t_mark]); reflexivity. }
    rewrite H0. destruct (list_eq_dec Z.eq_dec t' toks) as [E|E]; [reflexivity | symmetry; apply Hdel; exact E].
Qed.

Theorem trie_denotes_history ops : forall tr, wf tr ->
  wf (tr_apply ops tr) /\ forall t', tlookup (tr_apply ops tr) t' = hist_from ops (tlookup tr t') t'.
Proof.
  induction ops as [|[[ins toks] p] ops IH]; intros tr Hwf; [split; [exact Hwf | reflexivity]|].
  unfold tr_apply, hist_from. cbn [fold_left]. fold (tr_apply ops (tr_step tr (ins, toks, p))).
  assert (Hs : wf (tr_step tr (ins, toks, p)) /\ forall t', tlookup (tr_step tr (ins, toks, p)) t' = hist_step t' (tlookup tr t') (ins, toks, p)).
  { unfold tr_step, hist_step. destruct ins.
    - split; [apply add_node_wf; exact Hwf | intros t'; apply add_node_lookup].
    - apply rem_root_ok. exact Hwf. }
  destruct Hs as [Hw Hl]. destruct (IH _ Hw) as [Hw' Hl']. split; [exact Hw'|].
  intros t'. rewrite Hl'. unfold hist_from. rewrite Hl. reflexivity.
Qed.

(* Corollary: insertion / deletion order independence at the trie level — two histories
   that denote the same rule set leave tries that hold the same rules *)
Corollary trie_order_independent ops1 ops2 :
  (forall t', hist_from ops1 None t' = hist_from ops2 None t') ->
  forall t', tlookup (tr_apply ops1 root0) t' = tlookup (tr_apply ops2 root0) t'.
Proof.
  intros H t'. destruct (trie_denotes_history ops1 root0 wf_root0) as [_ H1].
  destruct (trie_denotes_history ops2 root0 wf_root0) as [_ H2].
  rewrite H1, H2. assert (E : tlookup root0 t' = None).
  { unfold root0. rewrite tlookup_nochildren. destruct (list_eq_dec Z.eq_dec t' [t_mark]); reflexivity. }
  rewrite E. apply H.
Qed.

(* ------------------------------------------------------------------ *)
(* Match over the trie simulates the rule-level matcher                 *)

Lemma tlookup_cons_inv t r ch d rem p :
  tlookup (Node (t :: r) ch d) rem = Some p -> exists rem0, rem = t :: rem0 /\ tlookup (Node r ch d) rem0 = Some p.
Proof.
  rewrite tlookup_cons_so. destruct rem as [|z rem0]; [discriminate|]. destruct (t =? z) eqn:E; [|discriminate].
  apply Z.eqb_eq in E. subst z. intros H. exists rem0. split; [reflexivity | exact H].
Qed.

Lemma tlookup_cons_same t r ch d rem0 : tlookup (Node (t :: r) ch d) (t :: rem0) = tlookup (Node r ch d) rem0.
Proof. rewrite tlookup_cons_so, Z.eqb_refl. reflexivity. Qed.

Lemma child_of ch k c : Forall child_ok ch -> find_child k ch = Some c ->
  exists cr cch cd, c = Node (k :: cr) cch cd /\ Forall child_ok cch.
Proof.
  intros Hch Hf. apply find_child_In in Hf. rewrite Forall_forall in Hch. destruct (Hch _ Hf) as [[cr Hcr] Hw].
  cbn [fst snd] in *. destruct c as [cso cch cd]. cbn [n_so] in Hcr. subst cso.
  exists cr, cch, cd. split; [reflexivity|]. apply wf_unfold in Hw. apply Hw.
Qed.

Lemma pmatch_sound so ch d n x st' rem' p :
  Forall child_ok ch -> In st' (pmatch (Node so ch d, n) x) -> tlookup (fst st') rem' = Some p ->
  exists rem, tlookup (Node so ch d) rem = Some p /\ In (rem', snd st') (tstep (rem, n) x).
Proof.
  intros Hch Hin Hl. destruct so as [|t r]; [destruct Hin|]. unfold pmatch in Hin.
  destruct (t =? t_one) eqn:E1.
  - destruct (x <? t_one) eqn:Ex; [destruct Hin|]. destruct Hin as [<-|[]]. cbn [fst snd] in *.
    exists (t :: rem'). split; [rewrite tlookup_cons_same; exact Hl|]. unfold tstep. rewrite E1, Ex. left; reflexivity.
  - destruct (t =? t_any) eqn:E2.
    + apply in_app_or in Hin as [Hin|Hin].
      * destruct r as [|y r'].
        -- destruct (find_child x ch) as [c|] eqn:Ef; [|destruct Hin].
           destruct (child_of _ _ _ Hch Ef) as [cr [cch [cd [-> _]]]]. destruct Hin as [<-|[]]. cbn [fst snd tl] in *.
           exists (t :: x :: rem'). split.
           ++ rewrite tlookup_cons_same, tlookup_nil_so, Ef, tlookup_cons_same. exact Hl.
           ++ unfold tstep. rewrite E1, E2, Z.eqb_refl. apply in_or_app. left. left. reflexivity.
        -- destruct (y =? x) eqn:Ey; [|destruct Hin]. destruct Hin as [<-|[]]. cbn [fst snd] in *.
           apply Z.eqb_eq in Ey. subst y. exists (t :: x :: rem'). split.
           ++ rewrite !tlookup_cons_same. exact Hl.
           ++ unfold tstep. rewrite E1, E2, Z.eqb_refl. apply in_or_app. left. left. reflexivity.
      * destruct (x =? t_mark) eqn:Em; [destruct Hin|]. destruct Hin as [<-|[]]. cbn [fst snd] in *.
        destruct (tlookup_cons_inv _ _ _ _ _ _ Hl) as [rem0 [-> _]].
        exists (t :: rem0). split; [exact Hl|]. unfold tstep. rewrite E1, E2, Em. apply in_or_app. right. left. reflexivity.
    + destruct (x =? t) eqn:Ex; [|destruct Hin]. destruct Hin as [<-|[]]. cbn [fst snd] in *.
      exists (t :: rem'). split; [rewrite tlookup_cons_same; exact Hl|]. unfold tstep. rewrite E1, E2, Ex. left; reflexivity.
Qed.

Lemma pmatch_complete t r ch d n x rem p rem' n' :
  Forall child_ok ch -> tlookup (Node (t :: r) ch d) rem = Some p -> In (rem', n') (tstep (rem, n) x) ->
  exists st', In st' (pmatch (Node (t :: r) ch d, n) x) /\ snd st' = n' /\ tlookup (fst st') rem' = Some p.
Proof.
  intros Hch Hl Hin. destruct (tlookup_cons_inv _ _ _ _ _ _ Hl) as [rem0 [-> Hl0]].
  unfold tstep in Hin. unfold pmatch.
  destruct (t =? t_one) eqn:E1.
  - destruct (x <? t_one); [destruct Hin|]. destruct Hin as [E|[]]. inversion E; subst.
    eexists. split; [left; reflexivity|]. split; [reflexivity | exact Hl0].
  - destruct (t =? t_any) eqn:E2.
    + apply in_app_or in Hin as [Hin|Hin].
      * destruct rem0 as [|y0 r0]; [destruct Hin|]. destruct (y0 =? x) eqn:Ey; [|destruct Hin].
        destruct Hin as [E|[]]. inversion E; subst. apply Z.eqb_eq in Ey. subst y0.
        destruct r as [|y r'].
        -- rewrite tlookup_nil_so in Hl0. destruct (find_child x ch) as [c|] eqn:Ef; [|discriminate].
           destruct (child_of _ _ _ Hch Ef) as [cr [cch [cd [-> _]]]]. rewrite tlookup_cons_same in Hl0.
           eexists. split; [apply in_or_app; left; left; reflexivity|]. split; [reflexivity | exact Hl0].
        -- destruct (tlookup_cons_inv _ _ _ _ _ _ Hl0) as [rem1 [E' Hl1]]. inversion E'; subst.
           rewrite Z.eqb_refl. eexists. split; [apply in_or_app; left; left; reflexivity|]. split; [reflexivity | exact Hl1].
      * destruct (x =? t_mark); [destruct Hin|]. destruct Hin as [E|[]]. inversion E; subst.
        eexists. split; [apply in_or_app; right; left; reflexivity|]. split; [reflexivity | exact Hl].
    + destruct (x =? t); [|destruct Hin]. destruct Hin as [E|[]]. inversion E; subst.
      eexists. split; [left; reflexivity|]. split; [reflexivity | exact Hl0].
Qed.

Definition swf (st : node * N) : Prop := Forall child_ok (n_ch (fst st)).

Lemma pmatch_swf so ch d n x st' : Forall child_ok ch -> In st' (pmatch (Node so ch d, n) x) -> swf st'.
Proof.
  intros Hch Hin. destruct so as [|t r]; [destruct Hin|]. unfold pmatch in Hin.
  destruct (t =? t_one).
  - destruct (x <? t_one); [destruct Hin|]. destruct Hin as [<-|[]]. exact Hch.
  - destruct (t =? t_any).
    + apply in_app_or in Hin as [Hin|Hin].
      * destruct r as [|y r'].
        -- destruct (find_child x ch) as [c|] eqn:Ef; [|destruct Hin].
           destruct (child_of _ _ _ Hch Ef) as [cr [cch [cd [-> Hc]]]]. destruct Hin as [<-|[]]. exact Hc.
        -- destruct (y =? x); [|destruct Hin]. destruct Hin as [<-|[]]. exact Hch.
      * destruct (x =? t_mark); [destruct Hin|]. destruct Hin as [<-|[]]. exact Hch.
    + destruct (x =? t); [|destruct Hin]. destruct Hin as [<-|[]]. exact Hch.
Qed.

(* the three children a used-up node tries *)
Lemma nstep_nil_in ch d n x st' :
  In st' (nstep (Node [] ch d, n) x) <->
  exists k c, (k = t_one \/ k = t_any \/ k = x) /\ find_child k ch = Some c /\ In st' (pmatch (c, n) x).
Proof.
  unfold nstep. split.
  - intros Hin. apply in_app_or in Hin as [Hin|Hin]; [|apply in_app_or in Hin as [Hin|Hin]].
    + destruct (find_child t_one ch) as [c|] eqn:Ef; [|destruct Hin]. exists t_one, c. auto.
    + destruct (find_child t_any ch) as [c|] eqn:Ef; [|destruct Hin]. exists t_any, c. auto.
    + destruct (find_child x ch) as [c|] eqn:Ef; [|destruct Hin]. exists x, c. auto.
  - intros [k [c [[->|[->| ->]] [Hf Hin]]]]; rewrite ?Hf.
    + apply in_or_app. left. exact Hin.
    + apply in_or_app. right. apply in_or_app. left. exact Hin.
    + apply in_or_app. right. apply in_or_app. right. exact Hin.
Qed.

Lemma nstep_sound st x st' rem' p :
  swf st -> In st' (nstep st x) -> tlookup (fst st') rem' = Some p ->
  exists rem, tlookup (fst st) rem = Some p /\ In (rem', snd st') (tstep (rem, snd st) x).
Proof.
  destruct st as [[so ch d] n]. unfold swf. cbn [fst snd n_ch]. intros Hch Hin Hl.
  destruct so as [|t r].
  - apply nstep_nil_in in Hin. destruct Hin as [k [c [_ [Hf Hin]]]].
    destruct (child_of _ _ _ Hch Hf) as [cr [cch [cd [-> Hc]]]].
    destruct (pmatch_sound _ _ _ _ _ _ _ _ Hc Hin Hl) as [rem [Hr Hs]].
    exists rem. split; [|exact Hs]. destruct (tlookup_cons_inv _ _ _ _ _ _ Hr) as [rem0 [-> _]].
    rewrite tlookup_nil_so, Hf. exact Hr.
  - apply (pmatch_sound (t :: r) ch d n x st' rem' p Hch Hin Hl).
Qed.

Lemma nstep_complete st x rem p rem' n' :
  swf st -> tlookup (fst st) rem = Some p -> In (rem', n') (tstep (rem, snd st) x) ->
  exists st', In st' (nstep st x) /\ snd st' = n' /\ tlookup (fst st') rem' = Some p.
Proof.
  destruct st as [[so ch d] n]. unfold swf. cbn [fst snd n_ch]. intros Hch Hl Hin.
  destruct so as [|t r].
  - destruct rem as [|z rem2]; [destruct Hin|]. rewrite tlookup_nil_so in Hl.
    destruct (find_child z ch) as [c|] eqn:Ef; [|discriminate].
    destruct (child_of _ _ _ Hch Ef) as [cr [cch [cd [-> Hc]]]].
    destruct (pmatch_complete _ _ _ _ _ _ _ _ _ _ Hc Hl Hin) as [st' [Hs [Hn Hl']]].
    exists st'. split; [|split; assumption]. apply nstep_nil_in. exists z, (Node (z :: cr) cch cd).
    split; [|split; assumption].
    unfold tstep in Hin. destruct (z =? t_one) eqn:E1; [left; apply Z.eqb_eq; exact E1|].
    destruct (z =? t_any) eqn:E2; [right; left; apply Z.eqb_eq; exact E2|].
    destruct (x =? z) eqn:E3; [|destruct Hin]. right; right. apply Z.eqb_eq in E3. symmetry. exact E3.
  - apply (pmatch_complete t r ch d n x rem p rem' n' Hch Hl Hin).
Qed.

Lemma nstep_swf st x st' : swf st -> In st' (nstep st x) -> swf st'.
Proof.
  destruct st as [[so ch d] n]. unfold swf at 1. cbn [fst n_ch]. intros Hch Hin. destruct so as [|t r].
  - apply nstep_nil_in in Hin. destruct Hin as [k [c [_ [Hf Hin]]]].
    destruct (child_of _ _ _ Hch Hf) as [cr [cch [cd [-> Hc]]]]. apply (pmatch_swf _ _ _ _ _ _ Hc Hin).
  - apply (pmatch_swf _ _ _ _ _ _ Hch Hin).
Qed.

Lemma trun_app l1 l2 inp : trun (l1 ++ l2) inp = trun l1 inp ++ trun l2 inp.
Proof.
  revert l1 l2. induction inp as [|x inp IH]; intros l1 l2; [reflexivity|].
  unfold trun in *. cbn [fold_left]. rewrite flat_map_app. apply IH.
Qed.

Lemma trun_in l inp s : In s (trun l inp) <-> exists a, In a l /\ In s (trun [a] inp).
Proof.
  induction l as [|a l IH].
  - split; [|intros [a [[] _]]]. assert (E : trun [] inp = []).
    { induction inp as [|x inp IHi]; [reflexivity|]. exact IHi. } rewrite E. intros [].
  - change (a :: l) with ([a] ++ l). rewrite trun_app, in_app_iff, IH. split.
    + intros [H|[b [Hb H]]]; [exists a; split; [left; reflexivity | exact H] | exists b; split; [right; exact Hb | exact H]].
    + intros [b [[<-|Hb] H]]; [left; exact H | right; exists b; split; assumption].
Qed.

Lemma trun_cons a x inp : trun [a] (x :: inp) = trun (tstep a x) inp.
Proof. unfold trun. cbn [fold_left flat_map]. rewrite app_nil_r. reflexivity. Qed.

Lemma nrun_cons sts x inp : nrun sts (x :: inp) = nrun (flat_map (fun st => nstep st x) sts) inp.
Proof. reflexivity. Qed.

Lemma nrun_sound inp : forall sts st' rem' p,
  (forall st, In st sts -> swf st) -> In st' (nrun sts inp) -> tlookup (fst st') rem' = Some p ->
  exists st rem, In st sts /\ tlookup (fst st) rem = Some p /\ In (rem', snd st') (trun [(rem, snd st)] inp).
Proof.
  induction inp as [|x inp IH]; intros sts st' rem' p Hw Hin Hl.
  - exists st', rem'. split; [exact Hin|]. split; [exact Hl | left; destruct st'; reflexivity].
  - rewrite nrun_cons in Hin.
    assert (Hw1 : forall st, In st (flat_map (fun st => nstep st x) sts) -> swf st).
    { intros st Hs. apply in_flat_map in Hs as [s0 [Hs0 Hs1]]. apply (nstep_swf _ _ _ (Hw _ Hs0) Hs1). }
    destruct (IH _ st' rem' p Hw1 Hin Hl) as [st1 [rem1 [Hin1 [Hl1 Hr1]]]].
    apply in_flat_map in Hin1 as [st [Hst Hstep]].
    destruct (nstep_sound _ _ _ _ _ (Hw _ Hst) Hstep Hl1) as [rem [Hr Hs]].
    exists st, rem. split; [exact Hst|]. split; [exact Hr|]. rewrite trun_cons. apply trun_in.
    exists (rem1, snd st1). split; assumption.
Qed.

Lemma nrun_complete inp : forall sts st rem p rem' n',
  (forall st, In st sts -> swf st) -> In st sts -> tlookup (fst st) rem = Some p ->
  In (rem', n') (trun [(rem, snd st)] inp) ->
  exists st', In st' (nrun sts inp) /\ snd st' = n' /\ tlookup (fst st') rem' = Some p.
Proof.
  induction inp as [|x inp IH]; intros sts st rem p rem' n' Hw Hst Hl Hin.
  - destruct Hin as [E|[]]. inversion E; subst. exists st. split; [exact Hst|]. split; [reflexivity | exact Hl].
  - rewrite trun_cons in Hin. apply trun_in in Hin as [[rem1 n1] [Hs1 Hr1]].
    destruct (nstep_complete _ _ _ _ _ _ (Hw _ Hst) Hl Hs1) as [st1 [Hin1 [Hn1 Hl1]]].
    rewrite nrun_cons. apply (IH _ st1 rem1 p rem' n').
    + intros s Hs. apply in_flat_map in Hs as [s0 [Hs0 Hs']]. apply (nstep_swf _ _ _ (Hw _ Hs0) Hs').
    + apply in_flat_map. exists st. split; assumption.
    + exact Hl1.
    + rewrite Hn1. exact Hr1.
Qed.

Lemma tresults_in L sts : In L (tresults sts) <-> In ([], L) sts \/ exists n, L = (n + 1)%N /\ In ([t_any], n) sts.
Proof.
  unfold tresults. rewrite in_flat_map. split.
  - intros [[rem n] [Hin HL]]. cbn [fst snd] in HL. destruct rem as [|t [|t2 r]].
    + destruct HL as [<-|[]]. left. exact Hin.
    + destruct (t =? t_any) eqn:E; [|destruct HL]. destruct HL as [<-|[]]. apply Z.eqb_eq in E. subst t.
      right. exists n. split; [reflexivity | exact Hin].
    + destruct HL.
  - intros [Hin|[n [-> Hin]]].
    + exists ([], L). split; [exact Hin | left; reflexivity].
    + exists ([t_any], n). split; [exact Hin | left; reflexivity].
Qed.

Lemma wf_swf_root tr : wf tr -> forall st, In st [(tr, 0%N)] -> swf st.
Proof. intros Hw st [<-|[]]. unfold swf. destruct tr as [so ch d]. apply wf_unfold in Hw. apply Hw. Qed.

(* Every result of Match over the trie is the result of a rule the trie holds ... *)
Theorem trie_match_sound tr inp p L :
  wf tr -> In (p, L) (trie_match tr inp) ->
  exists toks, tlookup tr toks = Some p /\ In L (tresults (trun [(toks, 0%N)] inp)).
Proof.
  intros Hw Hin. unfold trie_match, nresults in Hin. apply in_flat_map in Hin as [[[so ch d] n] [Hst HL]].
  destruct d as [p'|]; [|destruct HL].
  assert (Hcase : (so = [] /\ (p, L) = (p', n)) \/ (so = [t_any] /\ (p, L) = (p', (n + 1)%N))).
  { destruct so as [|t [|t2 r]].
    - destruct HL as [<-|[]]. left; split; reflexivity.
    - destruct (t =? t_any) eqn:E; [|destruct HL]. destruct HL as [<-|[]]. apply Z.eqb_eq in E. subst t. right; split; reflexivity.
    - destruct HL. }
  assert (Hl : tlookup (fst (Node so ch (Some p'), n)) so = Some p').
  { cbn [fst]. rewrite tlookup_unfold. rewrite <- (app_nil_r so) at 2. rewrite strip_self. reflexivity. }
  destruct (nrun_sound inp _ _ _ _ (wf_swf_root tr Hw) Hst Hl) as [st [rem [[<-|[]] [Hr Hs]]]].
  cbn [fst snd] in *. exists rem.
  destruct Hcase as [[-> E]|[-> E]]; inversion E; subst; (split; [exact Hr|]); apply tresults_in.
  - left. exact Hs.
  - right. exists n. split; [reflexivity | exact Hs].
Qed.

(* ... and every rule the trie holds whose expression is used up exactly by the request is
   found, with its length.  (A rule that matches with a trailing "%" left over is found only
   if that "%" is stored inside a node's run — see trie_trailing_any_refuted.) *)
Theorem trie_match_complete_exact tr inp toks p L :
  wf tr -> tlookup tr toks = Some p -> In ([], L) (trun [(toks, 0%N)] inp) -> In (p, L) (trie_match tr inp).
Proof.
  intros Hw Hl Hin.
  destruct (nrun_complete inp [(tr, 0%N)] (tr, 0%N) toks p [] L (wf_swf_root tr Hw) (or_introl eq_refl) Hl Hin)
    as [[[so ch d] n] [Hst [Hn Hl']]].
  cbn [fst snd] in *. subst n. rewrite tlookup_unfold in Hl'.
  destruct so as [|t r]; [|cbn [strip] in Hl'; discriminate]. cbn [strip] in Hl'. subst d.
  unfold trie_match, nresults. apply in_flat_map. exists (Node [] ch (Some p), L). split; [exact Hst | left; reflexivity].
Qed.

(* trie_eq_rules, for EVERY history of Add / Remove:
   FULL statement (false of the code as it is, see trie_trailing_any_refuted):
     In (p, L) (trie_match (tr_apply ops root0) inp) <->
     exists toks, hist_from ops None toks = Some p /\ In L (tresults (trun [(toks, 0)] inp)).
   Proved: the direction -> in full, and <- for every match that uses the expression up. *)
Theorem trie_eq_rules_partial ops inp p L :
  (In (p, L) (trie_match (tr_apply ops root0) inp) ->
   exists toks, hist_from ops None toks = Some p /\ In L (tresults (trun [(toks, 0%N)] inp)))
  /\ (forall toks, hist_from ops None toks = Some p -> In ([], L) (trun [(toks, 0%N)] inp) ->
      In (p, L) (trie_match (tr_apply ops root0) inp)).
Proof.
  destruct (trie_denotes_history ops root0 wf_root0) as [Hw Hl].
  assert (E0 : forall t', tlookup root0 t' = None).
  { intros t'. unfold root0. rewrite tlookup_nochildren. destruct (list_eq_dec Z.eq_dec t' [t_mark]); reflexivity. }
  split.
  - intros Hin. destruct (trie_match_sound _ _ _ _ Hw Hin) as [toks [Ht Hr]]. exists toks. split; [|exact Hr].
    rewrite Hl, E0 in Ht. exact Ht.
  - intros toks Hh Hin. apply (trie_match_complete_exact _ _ toks); [exact Hw | rewrite Hl, E0; exact Hh | exact Hin].
Qed.

(* Refuted: rules "...5" (permissions 4) and "...5%" (permissions 1); the request "...5".
   The second rule matches with its "%" empty, length 3 — the trie does not report it,
   because that "%" starts a child of the used-up node and the final loop only looks at a
   state's own data.  Reproduced on the implementation (hosts h / h%, request host h). *)
Theorem trie_trailing_any_refuted :
  exists ops inp toks p L,
    hist_from ops None toks = Some p /\ In L (tresults (trun [(toks, 0%N)] inp))
    /\ ~ In (p, L) (trie_match (tr_apply ops root0) inp).
Proof.
  exists [(true, [t_mark; 5], 4%N); (true, [t_mark; 5; t_any], 1%N)], [t_mark; 5], [t_mark; 5; t_any], 1%N, 3%N.
  split; [reflexivity|]. split; [vm_compute; left; reflexivity|].
  vm_compute. intros [H|[]]. discriminate H.
Qed.

(* ------------------------------------------------------------------ *)
(* the decision only depends on the SET of results                      *)
Local Open Scope N_scope.

Lemma top_len_ub rs p n : In (p, n) rs -> n <= top_len rs.
Proof.
  induction rs as [|[p' n'] rs IH]; [intros []|]. cbn [top_len fold_right snd]. fold (top_len rs).
  intros [E|H]; [inversion E; subst; lia | specialize (IH H); lia].
Qed.

Lemma top_len_lub rs m : (forall p n, In (p, n) rs -> n <= m) -> top_len rs <= m.
Proof.
  induction rs as [|[p' n'] rs IH]; intros H; [cbn; lia|]. cbn [top_len fold_right snd]. fold (top_len rs).
  assert (n' <= m) by (apply (H p'); left; reflexivity).
  assert (top_len rs <= m) by (apply IH; intros p n Hin; apply (H p); right; exact Hin). lia.
Qed.

Lemma top_len_ext rs rs' : (forall x, In x rs <-> In x rs') -> top_len rs = top_len rs'.
Proof.
  intros H. apply N.le_antisymm; apply top_len_lub; intros p n Hin; apply (top_len_ub _ p); apply H; exact Hin.
Qed.

Lemma perms_at_bits L rs i :
  N.testbit (perms_at L rs) i = existsb (fun r => (snd r =? L) && N.testbit (fst r) i) rs.
Proof.
  induction rs as [|[p n] rs IH]; [reflexivity|]. cbn [perms_at fold_right existsb fst snd]. fold (perms_at L rs).
  destruct (n =? L); cbn [andb orb]; [rewrite N.lor_spec, IH; reflexivity | exact IH].
Qed.

Lemma perms_at_ext L rs rs' : (forall x, In x rs <-> In x rs') -> perms_at L rs = perms_at L rs'.
Proof.
  intros H. apply N.bits_inj. intros i. rewrite !perms_at_bits.
  destruct (existsb _ rs) eqn:E1, (existsb _ rs') eqn:E2; try reflexivity.
  - apply existsb_exists in E1 as [x [Hx Hb]]. assert (E : existsb (fun r => (snd r =? L) && N.testbit (fst r) i) rs' = true)
      by (apply existsb_exists; exists x; split; [apply H; exact Hx | exact Hb]). congruence.
  - apply existsb_exists in E2 as [x [Hx Hb]]. assert (E : existsb (fun r => (snd r =? L) && N.testbit (fst r) i) rs = true)
      by (apply existsb_exists; exists x; split; [apply H; exact Hx | exact Hb]). congruence.
Qed.

Lemma empty_ext {A} (rs rs' : list A) : (forall x, In x rs <-> In x rs') -> Nat.eqb (length rs) 0 = Nat.eqb (length rs') 0.
Proof.
  intros H. destruct rs as [|a rs], rs' as [|b rs']; try reflexivity.
  - exfalso. apply (proj2 (H b)). left; reflexivity.
  - exfalso. apply (proj1 (H a)). left; reflexivity.
Qed.

Definition decision (rs : list (N * N)) : bool * N :=
  (negb (Nat.eqb (length rs) 0), expand_perms (fst (longest_loop rs))).

Lemma decision_ext rs rs' : (forall x, In x rs <-> In x rs') -> decision rs = decision rs'.
Proof.
  intros H. unfold decision. rewrite !longest_loop_spec. cbn [fst].
  rewrite (empty_ext _ _ H), (top_len_ext _ _ H), (perms_at_ext _ _ _ H). reflexivity.
Qed.

(* the rule-level results of a rule set given as (concatenated expression, permissions) pairs *)
Definition flat_results (rs : list (list Z * N)) (inp : list Z) : list (N * N) :=
  flat_map (fun tp => map (fun n => (snd tp, n)) (tresults (trun [(fst tp, 0)] inp))) rs.

(* Access.Match through the trie, after ANY history, decides exactly as the rule-level
   matcher on the rule set the history denotes — hence independently of the order of the
   inserts and deletes — whenever no rule matches the request with a trailing "%" left
   over (the class of trie_trailing_any_refuted; PARTIAL for that reason). *)
Theorem trie_decision_eq_rules_partial t ops q (rs : list (list Z * N)) :
  (forall toks p, In (toks, p) rs <-> hist_from ops None toks = Some p) ->
  (forall toks p n, In (toks, p) rs -> ~ In ([t_any], n) (trun [(toks, 0)] (req_toks t q))) ->
  trie_access_match t (tr_apply ops root0) q = decision (flat_results rs (req_toks t q)).
Proof.
  intros Hrs Hno. unfold trie_access_match. fold (decision (trie_match (tr_apply ops root0) (req_toks t q))).
  apply decision_ext. intros [p L]. destruct (trie_eq_rules_partial ops (req_toks t q) p L) as [Hs Hc]. split.
  - intros Hin. destruct (Hs Hin) as [toks [Hh Hr]]. unfold flat_results. apply in_flat_map.
    exists (toks, p). split; [apply Hrs; exact Hh|]. cbn [fst snd]. apply in_map_iff. exists L. split; [reflexivity | exact Hr].
  - intros Hin. unfold flat_results in Hin. apply in_flat_map in Hin as [[toks p'] [Hin Hm]]. cbn [fst snd] in Hm.
    apply in_map_iff in Hm as [L' [E HL]]. inversion E; subst.
    apply tresults_in in HL as [HL|[n [-> HL]]].
    + apply (Hc toks); [apply Hrs; exact Hin | exact HL].
    + exfalso. apply (Hno toks p n Hin HL).
Qed.

Corollary trie_decision_order_independent_partial t ops1 ops2 q (rs : list (list Z * N)) :
  (forall toks p, In (toks, p) rs <-> hist_from ops1 None toks = Some p) ->
  (forall toks, hist_from ops1 None toks = hist_from ops2 None toks) ->
  (forall toks p n, In (toks, p) rs -> ~ In ([t_any], n) (trun [(toks, 0)] (req_toks t q))) ->
  trie_access_match t (tr_apply ops1 root0) q = trie_access_match t (tr_apply ops2 root0) q.
Proof.
  intros H1 H12 Hno. rewrite (trie_decision_eq_rules_partial t ops1 q rs H1 Hno).
  rewrite (trie_decision_eq_rules_partial t ops2 q rs); [reflexivity | | exact Hno].
  intros toks p. rewrite <- H12. apply H1.
Qed.
Local Open Scope Z_scope.
