(* C38 — correspondence: model observation, comparison with the implementation's
   observation, and the executable statement of the property (oracle). *)
From Coq Require Import NArith ZArith List Bool.
From Dolt Require Import Base.Str C38.Model C38.Spec.
Import ListNotations.
Local Open Scope Z_scope.

Inductive input :=
| IFold (t : ctab) (coll : N) (s : str)                        (* FoldExpression + ParseExpression *)
| IM1 (t : ctab) (coll : N) (p s : str)                        (* Match over a one-expression collection *)
| IAcc (t : ctab) (ops : list (bool * rule)%type) (qs : list req)   (* Access.Insert / Delete history, then Access.Match *)
| INs (t : ctab) (ops : list (bool * rule)%type) (qs : list req).   (* namespace table history, then CanCreate *)

Inductive obs :=
| OFold (f : str) (toks : list Z)
| OM1 (f : str) (m : bool)
| OAcc (res : list (bool * N)%type) (rows : list rule)
| ONs (can : list bool) (rows : list rule)
| OBad.

Definition case := (input * obs)%type.

Definition so_of (t : ctab) (coll : N) : N -> Z := if (coll =? 0)%N then so_ci t else so_bin t.
Definition phantom_of (t : ctab) (coll : N) : Z := if (coll =? 0)%N then phantom_ci t else phantom_bin t.

Definition model_obs (i : input) : obs :=
  match i with
  | IFold t coll s => OFold (fold s) (parse (so_of t coll) false (fold s))
  | IM1 t coll p s => OM1 (fold p) (match1 (phantom_of t coll) (parse (so_of t coll) false (fold p)) (map (so_of t coll) s))
  | IAcc t ops qs =>
    (* decisions through the trie (MatchNode.Add / Remove / Match); the reported rows are Access.rows *)
    OAcc (map (trie_access_match t (trie_apply t ops root0)) qs) (apply_ops t ops [])
  | INs t ops qs => let rules := ns_apply_ops t ops [] in ONs (map (can_create t rules) qs) rules
  end.

Fixpoint list_eqb {A} (eq : A -> A -> bool) (a b : list A) : bool :=
  match a, b with
  | [], [] => true
  | x :: a', y :: b' => eq x y && list_eqb eq a' b'
  | _, _ => false
  end.

Definition rule_eqb (a b : rule) : bool := key_eqb a b && (r_perm a =? r_perm b)%N.
Definition rules_eqb (a b : list rule) : bool :=
  Nat.eqb (length a) (length b) && forallb (fun x => existsb (rule_eqb x) b) a && forallb (fun x => existsb (rule_eqb x) a) b.
Definition res_eqb (a b : bool * N) : bool := Bool.eqb (fst a) (fst b) && (snd a =? snd b)%N.

Definition obs_eqb (a b : obs) : bool :=
  match a, b with
  | OFold f k, OFold f' k' => beq_bytes f f' && list_eqb Z.eqb k k'
  | OM1 f m, OM1 f' m' => beq_bytes f f' && Bool.eqb m m'
  | OAcc r rows, OAcc r' rows' => list_eqb res_eqb r r' && rules_eqb rows rows'
  | ONs c rows, ONs c' rows' => list_eqb Bool.eqb c c' && rules_eqb rows rows'
  | _, _ => false
  end.

(* the rule set a history denotes: an operation counts iff no later operation has the
   same (normalised) key; it contributes its rule iff it is an insert *)
Fixpoint current_rules_by (same : rule -> rule -> bool) (t : ctab) (ops : list (bool * rule)%type) : list rule :=
  match ops with
  | [] => []
  | op :: rest =>
    let r := norm_rule t (snd op) in
    (if existsb (fun o => same r (norm_rule t (snd o))) rest then [] else if fst op then [r] else [])
    ++ current_rules_by same t rest
  end.
(* access rules are identified by their parsed expressions *)
Definition current_rules (t : ctab) := current_rules_by (tkey_eqb t) t.

(* namespace inserts of an existing key are rejected: the first insert since the last
   delete stays; keys only (no permissions) *)
Definition ns_current_rules (t : ctab) (ops : list (bool * rule)%type) : list rule :=
  map (fun r => mk_rule (r_d r) (r_b r) (r_u r) (r_h r) 0) (current_rules_by key_eqb t ops).

Definition fresh_so : Z := 999999999.
Definition probe_alpha (p : list Z) : list Z :=
  firstn 2 (nodup Z.eq_dec (filter (fun x => 0 <=? x) p)) ++ [fresh_so].

(* The property on what the implementation returned. *)
Definition oracle (i : input) (o : obs) : bool :=
  match i, o with
  | IFold t coll s, OFold f toks =>
    (* folding preserves what the expression matches (checked on every string of length <= 3
       over the expression's alphabet) and leaves no "%%" / "%_" *)
    let orig := parse (so_of t coll) false s in
    list_eqb Z.eqb toks (parse (so_of t coll) false f)
    && normal toks
    && forallb (fun x => Bool.eqb (like toks x) (like orig x)) (probes (probe_alpha orig))
  | IM1 t coll p s, OM1 f m =>
    Bool.eqb m (like_str (so_of t coll) p s)                   (* the matcher is LIKE *)
  | IAcc t ops qs, OAcc res rows =>
    rules_eqb rows (current_rules t ops)                       (* the table is the set the history denotes *)
    && list_eqb res_eqb res (map (spec_access t (current_rules t ops)) qs)   (* longest matching rules, united *)
  | INs t ops qs, ONs can rows =>
    rules_eqb (map (fun r => mk_rule (r_d r) (r_b r) (r_u r) (r_h r) 0) rows) (ns_current_rules t ops)
    && list_eqb Bool.eqb can (map (spec_can_create t (ns_current_rules t ops)) qs)
  | _, _ => false
  end.

Definition check_case (c : case) : N :=
  ((if obs_eqb (model_obs (fst c)) (snd c) then 0 else 1)
   + (if oracle (fst c) (snd c) then 0 else 2))%N.
