(* C38 — executable model of branch-control pattern folding, parsing, the two
   matchers (MatchExpression.Matches / Match over a collection; MatchNode.Match
   over the concatenated columns) and the Access / Namespace decisions.
   Strings are lists of code points; sort orders are Z (int32 in the code);
   collations and strings.ToLower are parameters fed from the implementation.
   The access table is modelled at rule level (one token list per rule: the trie
   without prefix sharing).  No proofs in this file. *)
From Coq Require Import NArith ZArith List Bool.
From Dolt Require Import Base.Str.
Import ListNotations.
Local Open Scope Z_scope.

Definition str := list N.
Definition c_bs : N := 92.     (* \ *)
Definition c_pct : N := 37.    (* % *)
Definition c_us : N := 95.     (* _ *)

(* expr_parser.go: singleMatch, anyMatch, columnMarker *)
Definition t_one : Z := -1.
Definition t_any : Z := -2.
Definition t_mark : Z := -3.

(* ---- FoldExpression: one pass of the loop body, as a three-state scanner ---- *)
Inductive fstate := FN | FSkip | FCons.     (* normal, skipNext, considerNext *)

Fixpoint fold_pass (st : fstate) (s : str) : str :=
  match s with
  | [] => match st with FCons => [c_pct] | _ => [] end
  | r :: s' =>
    match st with
    | FSkip => r :: fold_pass FN s'
    | FCons =>
      if (r =? c_bs)%N then c_pct :: r :: fold_pass FSkip s'
      else if (r =? c_us)%N then r :: c_pct :: fold_pass FN s'
      else if (r =? c_pct)%N then r :: fold_pass FN s'
      else c_pct :: r :: fold_pass FN s'
    | FN =>
      if (r =? c_bs)%N then r :: fold_pass FSkip s'
      else if (r =? c_pct)%N then fold_pass FCons s'
      else r :: fold_pass FN s'
    end
  end.

(* "for true { ...; if str == newStr { break } }" with explicit fuel *)
Fixpoint fold_iter (fuel : nat) (s : str) : str :=
  match fuel with
  | O => s
  | S k => let s' := fold_pass FN s in if beq_bytes s' s then s else fold_iter k s'
  end.
Definition fold (s : str) : str := fold_iter (2 * length s + 2) s.

(* ---- ParseExpression / MatchNode.parseExpression (one column) ---- *)
Fixpoint parse (so : N -> Z) (esc : bool) (s : str) : list Z :=
  match s with
  | [] => []
  | r :: s' =>
    if esc then so r :: parse so false s'
    else if (r =? c_bs)%N then parse so true s'
    else if (r =? c_pct)%N then t_any :: parse so false s'
    else if (r =? c_us)%N then t_one :: parse so false s'
    else so r :: parse so false s'
  end.

(* ---- MatchExpression.Matches / IsAtEnd / Match (one expression) ---- *)
Definition step1 (p : list Z) (x : Z) : list (list Z) :=
  match p with
  | [] => []
  | t :: r =>
    if t =? t_one then (if x <? t_one then [] else [r])
    else if t =? t_any then
      p :: match r with y :: r' => if y =? x then [r'] else [] | [] => [] end
    else if x =? t then [r] else []
  end.

Definition is_at_end (p : list Z) : bool :=
  match p with
  | [] => true
  | [t] => t =? t_any
  | _ => false
  end.

Definition run1 (sts : list (list Z)) (s : list Z) : list (list Z) :=
  fold_left (fun sts x => flat_map (fun p => step1 p x) sts) s sts.

Definition nfa_accepts (p s : list Z) : bool := existsb is_at_end (run1 [p] s).

(* Match(collection, str, collation): utf8.DecodeRuneInString("") yields U+FFFD with
   size 0, and that rune is processed like a first character: the empty string is
   matched as if it were the one-rune string U+FFFD ([phantom] is its sort order) *)
Definition match1 (phantom : Z) (p s : list Z) : bool :=
  nfa_accepts p (match s with [] => [phantom] | _ => s end).

(* ---- MatchNode.Match / processMatch on one rule's concatenated tokens ---- *)
Definition tstep (st : list Z * N) (x : Z) : list (list Z * N)%type :=
  let '(p, n) := st in
  match p with
  | [] => []
  | t :: r =>
    if t =? t_one then (if x <? t_one then [] else [(r, n + 1)%N])
    else if t =? t_any then
      (match r with y :: r' => if y =? x then [(r', n + 2)%N] else [] | [] => [] end)
      ++ (if x =? t_mark then [] else [(p, n)])
    else if x =? t then [(r, n + 1)%N] else []
  end.

Definition trun (sts : list (list Z * N)%type) (s : list Z) : list (list Z * N)%type :=
  fold_left (fun sts x => flat_map (fun st => tstep st x) sts) s sts.

Definition tresults (sts : list (list Z * N)%type) : list N :=
  flat_map (fun st => match fst st with
                      | [] => [snd st]
                      | [t] => if t =? t_any then [(snd st + 1)%N] else []
                      | _ => []
                      end) sts.

(* ---- collation / lower-casing tables reported by the harness ---- *)
Record cinfo := { ci_so : Z; ci_bin : Z; ci_lower : N }.
Definition ctab := list (N * cinfo)%type.
Fixpoint tab_get (t : ctab) (c : N) : cinfo :=
  match t with
  | [] => {| ci_so := Z.of_N c + 1000000; ci_bin := Z.of_N c + 1000000; ci_lower := c |}
  | (k, v) :: t' => if (k =? c)%N then v else tab_get t' c
  end.
Definition so_ci (t : ctab) (c : N) : Z := ci_so (tab_get t c).
Definition so_bin (t : ctab) (c : N) : Z := ci_bin (tab_get t c).
Definition lower (t : ctab) (s : str) : str := map (fun c => ci_lower (tab_get t c)) s.
Definition phantom_ci (t : ctab) : Z := so_ci t 65533.
Definition phantom_bin (t : ctab) : Z := so_bin t 65533.

(* ---- rules ---- *)
Record rule := mk_rule { r_d : str; r_b : str; r_u : str; r_h : str; r_perm : N }.

Definition key_eqb (a b : rule) : bool :=
  beq_bytes (r_d a) (r_d b) && beq_bytes (r_b a) (r_b b) && beq_bytes (r_u a) (r_u b) && beq_bytes (r_h a) (r_h b).

(* Access.Insert / Delete and the namespace table's Insert / Delete: fold every column,
   lower-case database, branch and host *)
Definition norm_rule (t : ctab) (r : rule) : rule :=
  mk_rule (lower t (fold (r_d r))) (lower t (fold (r_b r))) (fold (r_u r)) (lower t (fold (r_h r))) (r_perm r).

(* sortFuncs = [ai_ci, ai_ci, bin, ai_ci]; a column marker precedes every column *)
Definition concat_toks (t : ctab) (d b u h : str) : list Z :=
  t_mark :: parse (so_ci t) false d ++ t_mark :: parse (so_ci t) false b
  ++ t_mark :: parse (so_bin t) false u ++ t_mark :: parse (so_ci t) false h.

Definition rule_toks (t : ctab) (r : rule) : list Z := concat_toks t (r_d r) (r_b r) (r_u r) (r_h r).

Record req := mk_req { q_d : str; q_b : str; q_u : str; q_h : str }.

(* MatchNode.Match parses the request strings with the same parseExpression as the
   rules: "_", "%" and "\" of a database / branch / user / host NAME become wildcard
   tokens / an escape in the input *)
Definition req_toks (t : ctab) (q : req) : list Z := concat_toks t (q_d q) (q_b q) (q_u q) (q_h q).

(* all (permissions, length) results of the rules for a request *)
Definition match_results (t : ctab) (rules : list rule) (q : req) : list (N * N)%type :=
  flat_map (fun r => map (fun n => (r_perm r, n)) (tresults (trun [(rule_toks t r, 0%N)] (req_toks t q)))) rules.

(* Access.MatchIgnoringRow (rowToIgnore = -1) *)
Definition expand_perms (p : N) : N :=
  if N.testbit p 0 then N.lor p 14
  else if N.testbit p 1 then N.lor p 12
  else if N.testbit p 2 then N.lor p 8
  else p.

Definition longest_loop (results : list (N * N)%type) : N * N :=
  fold_left (fun acc res =>
               let '(perms, len) := acc in let '(p, n) := res in
               if (len <? n)%N then (p, n) else if (n =? len)%N then (N.lor perms p, len) else acc)
            results (0%N, 0%N).

Definition access_match (t : ctab) (rules : list rule) (q : req) : bool * N :=
  let rs := match_results t rules q in
  (negb (Nat.eqb (length rs) 0), expand_perms (fst (longest_loop rs))).

(* The access table is keyed by the PARSED expressions (the path in the trie): two
   spellings with the same tokens — "m\ain" and "main", or "é%" and "e%" under ai_ci —
   are one destination node. *)
Fixpoint toks_eqb (a b : list Z) : bool :=
  match a, b with
  | [], [] => true
  | x :: a', y :: b' => (x =? y) && toks_eqb a' b'
  | _, _ => false
  end.
Definition tkey_eqb (t : ctab) (a b : rule) : bool := toks_eqb (rule_toks t a) (rule_toks t b).

Definition tbl_insert (t : ctab) (rules : list rule) (r : rule) : list rule :=
  let r' := norm_rule t r in
  if existsb (tkey_eqb t r') rules
  then map (fun x => if tkey_eqb t r' x then r' else x) rules      (* MatchNode.Add on an existing destination: data replaced *)
  else rules ++ [r'].
Definition tbl_delete (t : ctab) (rules : list rule) (r : rule) : list rule :=
  filter (fun x => negb (tkey_eqb t (norm_rule t r) x)) rules.
(* the namespace table compares the stored strings (Namespace.GetIndex) *)
Definition ns_delete (t : ctab) (rules : list rule) (r : rule) : list rule :=
  filter (fun x => negb (key_eqb (norm_rule t r) x)) rules.

Definition apply_ops (t : ctab) (ops : list (bool * rule)%type) (rules : list rule) : list rule :=
  fold_left (fun (rs : list rule) (op : bool * rule) => if fst op then tbl_insert t rs (snd op) else tbl_delete t rs (snd op)) ops rules.

(* namespace table: a duplicate key is rejected *)
Definition ns_insert (t : ctab) (rules : list rule) (r : rule) : list rule :=
  let r' := norm_rule t r in
  if existsb (key_eqb r') rules then rules else rules ++ [r'].
Definition ns_apply_ops (t : ctab) (ops : list (bool * rule)%type) (rules : list rule) : list rule :=
  fold_left (fun (rs : list rule) (op : bool * rule) => if fst op then ns_insert t rs (snd op) else ns_delete t rs (snd op)) ops rules.

(* len(matchedValue.Branch): bytes of the UTF-8 encoding *)
Definition utf8_len (s : str) : N :=
  fold_right (fun (c : N) (acc : N) =>
                ((if (c <? 128)%N then 1 else if (c <? 2048)%N then 2 else if (c <? 65536)%N then 3 else 4) + acc)%N) 0%N s.

(* Namespace.CanCreate *)
Definition can_create (t : ctab) (rules : list rule) (q : req) : bool :=
  let m_ci (p s : str) := match1 (phantom_ci t) (parse (so_ci t) false p) (map (so_ci t) s) in
  let m_bin (p s : str) := match1 (phantom_bin t) (parse (so_bin t) false p) (map (so_bin t) s) in
  let dbm := filter (fun r => m_ci (r_d r) (q_d q)) rules in
  match dbm with
  | [] => true
  | _ =>
    let brm := filter (fun r => m_ci (r_b r) (q_b q)) dbm in
    match brm with
    | [] => true
    | _ =>
      let longest := fold_right (fun r acc => N.max (utf8_len (r_b r)) acc) 0%N brm in
      let top := filter (fun r => (longest <=? utf8_len (r_b r))%N) brm in
      let um := filter (fun r => m_bin (r_u r) (q_u q)) top in
      let hm := filter (fun r => m_ci (r_h r) (q_h q)) um in
      negb (Nat.eqb (length hm) 0)
    end
  end.

(* ==== expr_parser_node.go: the MatchNode trie =================================
   A node holds a run of sort orders, its children keyed by the first sort order of
   the child's run (a Go map: at most one child per key; looked up by key), and the
   data of the rule that ends exactly at the end of the run (nil if none). *)
Inductive node := Node (so : list Z) (ch : list (Z * node)) (d : option N).
Definition n_so (n : node) : list Z := match n with Node so _ _ => so end.
Definition n_ch (n : node) : list (Z * node) := match n with Node _ ch _ => ch end.
Definition n_d (n : node) : option N := match n with Node _ _ d => d end.

(* Access.reinit *)
Definition root0 : node := Node [t_mark] [] None.

(* longest common prefix, and what is left of either list *)
Fixpoint split_common (a b : list Z) : list Z * list Z * list Z :=
  match a, b with
  | x :: a', y :: b' =>
    if x =? y then let '(p, ra, rb) := split_common a' b' in (x :: p, ra, rb) else ([], a, b)
  | _, _ => ([], a, b)
  end.

Fixpoint find_child (k : Z) (ch : list (Z * node)) : option node :=
  match ch with
  | [] => None
  | (k', c) :: l => if k' =? k then Some c else find_child k l
  end.

(* replace the first child with key [x] by [f] of it (None: no such child) *)
Section UpdFirst.
  Variable x : Z.
  Variable f : node -> node.
  Fixpoint upd_first (l : list (Z * node)) : option (list (Z * node)) :=
    match l with
    | [] => None
    | (k, c) :: l' =>
      if k =? x then Some ((k, f c) :: l')
      else match upd_first l' with Some l'' => Some ((k, c) :: l'') | None => None end
    end.
End UpdFirst.

(* MatchNode.Add: walk the common prefix inside a node; at its end either set the data
   (exact end), descend into / create the child for the next sort order, or split the
   node (the new expression ends inside the run, or diverges inside it). *)
Fixpoint add_node (n : node) (toks : list Z) (dat : N) {struct n} : node :=
  match n with
  | Node so ch d =>
    match split_common so toks with
    | (_, [], []) => Node so ch (Some dat)
    | (_, [], x :: r) =>
      match upd_first x (fun c => add_node c (x :: r) dat) ch with
      | Some ch' => Node so ch' d
      | None => Node so (ch ++ [(x, Node (x :: r) [] (Some dat))]) d
      end
    | (pre, y :: rm, []) => Node pre [(y, Node (y :: rm) ch d)] (Some dat)
    | (pre, y :: rm, x :: r) => Node pre [(y, Node (y :: rm) ch d); (x, Node (x :: r) [] (Some dat))] None
    end
  end.

(* MatchNode.Remove.  The flag tells the caller (the parent in the walk) what happened:
   nothing found, done, or "this node is now an empty leaf: delete it from your map"
   (after which the parent, if it is left with one child and no data, absorbs that child). *)
Inductive rflag := RNotFound | RDone | RDelete.

(* apply [f] to the first child with key [x]; drop that child if [f] answers RDelete *)
Section RemFirst.
  Variable x : Z.
  Variable f : node -> node * rflag.
  Fixpoint rem_first (l : list (Z * node)) : option (list (Z * node) * rflag) :=
    match l with
    | [] => None
    | (k, c) :: l' =>
      if k =? x then
        Some (match snd (f c) with RDelete => l' | _ => (k, fst (f c)) :: l' end, snd (f c))
      else match rem_first l' with Some (l'', fl) => Some ((k, c) :: l'', fl) | None => None end
    end.
End RemFirst.

Fixpoint rem_node (n : node) (toks : list Z) {struct n} : node * rflag :=
  match n with
  | Node so ch d =>
    match split_common so toks with
    | (_, [], []) =>
      match ch with
      | [] => (Node so [] None, RDelete)
      | [(_, Node cso cch cd)] => (Node (so ++ cso) cch cd, RDone)
      | _ => (Node so ch None, RDone)
      end
    | (_, [], x :: r) =>
      match rem_first x (fun c => rem_node c (x :: r)) ch with
      | None => (n, RNotFound)
      | Some (_, RNotFound) => (n, RNotFound)
      | Some (ch', RDone) => (Node so ch' d, RDone)
      | Some (ch', RDelete) =>
        match ch', d with
        | [(_, Node cso cch cd)], None => (Node (so ++ cso) cch cd, RDone)
        | _, _ => (Node so ch' d, RDone)
        end
      end
    | _ => (n, RNotFound)
    end
  end.

(* at the root there is no parent: an emptied root is reset to the lone column marker *)
Definition rem_root (n : node) (toks : list Z) : node :=
  match rem_node n toks with
  | (_, RDelete) => root0
  | (n', _) => n'
  end.

(* processMatch *)
Definition pmatch (st : node * N) (x : Z) : list (node * N) :=
  match st with
  | (Node so ch d, n) =>
    match so with
    | [] => []                                  (* index out of range in Go; not reachable: children's runs are non-empty *)
    | t :: r =>
      if t =? t_one then (if x <? t_one then [] else [(Node r ch d, n + 1)%N])
      else if t =? t_any then
        (match r with
         | y :: r' => if y =? x then [(Node r' ch d, n + 2)%N] else []
         | [] => match find_child x ch with
                 | Some (Node cso cch cd) => [(Node (tl cso) cch cd, n + 2)%N]
                 | None => []
                 end
         end) ++ (if x =? t_mark then [] else [st])
      else if x =? t then [(Node r ch d, n + 1)%N] else []
    end
  end.

(* one input sort order applied to one state of MatchNode.Match *)
Definition nstep (st : node * N) (x : Z) : list (node * N) :=
  match st with
  | (Node so ch d, n) =>
    match so with
    | [] =>
      (match find_child t_one ch with Some c => pmatch (c, n) x | None => [] end)
      ++ (match find_child t_any ch with Some c => pmatch (c, n) x | None => [] end)
      ++ (match find_child x ch with Some c => pmatch (c, n) x | None => [] end)
    | _ :: _ => pmatch st x
    end
  end.

Definition nrun (sts : list (node * N)) (inp : list Z) : list (node * N) :=
  fold_left (fun sts x => flat_map (fun st => nstep st x) sts) inp sts.

(* the final loop: only a state's OWN data is reported, when its run is used up or is a
   lone "%"; a "%" that starts a CHILD of a used-up node is not looked at *)
Definition nresults (sts : list (node * N)) : list (N * N)%type :=
  flat_map (fun st => match st with
                      | (Node so ch (Some p), n) =>
                        match so with
                        | [] => [(p, n)]
                        | [t] => if t =? t_any then [(p, (n + 1)%N)] else []
                        | _ => []
                        end
                      | _ => []
                      end) sts.

Definition trie_match (root : node) (inp : list Z) : list (N * N)%type := nresults (nrun [(root, 0%N)] inp).

(* Access.Insert / Delete on the trie, and Access.Match through it *)
Definition trie_apply (t : ctab) (ops : list (bool * rule)%type) (root : node) : node :=
  fold_left (fun (tr : node) (op : bool * rule) =>
               let r := norm_rule t (snd op) in
               if fst op then add_node tr (rule_toks t r) (r_perm r) else rem_root tr (rule_toks t r)) ops root.

Definition trie_access_match (t : ctab) (root : node) (q : req) : bool * N :=
  let rs := trie_match root (req_toks t q) in
  (negb (Nat.eqb (length rs) 0), expand_perms (fst (longest_loop rs))).
