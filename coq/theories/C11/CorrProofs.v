(* C11 — the oracle holds on the model: on every static-map case whose tree is
   well-formed and holds the generator's contents, what the model returns is
   accepted by the executable statement of the property (Corr.oracle). *)
From Coq Require Import NArith List Bool Lia.
From Dolt Require Import Prolly.Tree Prolly.Cursor C11.Model C11.Spec C11.Corr C11.Proofs.
Import ListNotations.
Local Open Scope N_scope.

Lemma list_eqb_refl {A} (eq : A -> A -> bool) (l : list A) :
  (forall x, eq x x = true) -> list_eqb eq l l = true.
Proof. intros H. induction l as [|x l IH]; [reflexivity|]. cbn [list_eqb]. rewrite H, IH. reflexivity. Qed.

Lemma opt_eqb_refl {A} (eq : A -> A -> bool) (o : option A) :
  (forall x, eq x x = true) -> opt_eqb eq o o = true.
Proof. intros H. destruct o; [apply H|reflexivity]. Qed.

Lemma kv_eqb_refl x : kv_eqb x x = true.
Proof. unfold kv_eqb. rewrite !N.eqb_refl. reflexivity. Qed.

Lemma kvl_eqb_refl l : kvl_eqb l l = true.
Proof. apply list_eqb_refl, kv_eqb_refl. Qed.

Lemma okvl_eqb_refl o : okvl_eqb o o = true.
Proof. apply opt_eqb_refl, kvl_eqb_refl. Qed.

Lemma bool_eqb_refl b : Bool.eqb b b = true.
Proof. destruct b; reflexivity. Qed.

Lemma sreads_eqb_refl s : sreads_eqb s s = true.
Proof.
  unfold sreads_eqb.
  rewrite !(list_eqb_refl (opt_eqb N.eqb)) by (intros; apply opt_eqb_refl, N.eqb_refl).
  rewrite !(list_eqb_refl Bool.eqb) by apply bool_eqb_refl.
  rewrite !(list_eqb_refl (opt_eqb kv_eqb)) by (intros; apply opt_eqb_refl, kv_eqb_refl).
  rewrite !kvl_eqb_refl.
  rewrite !(list_eqb_refl okvl_eqb) by apply okvl_eqb_refl.
  rewrite !(list_eqb_refl N.eqb) by apply N.eqb_refl.
  rewrite N.eqb_refl, (opt_eqb_refl N.eqb) by apply N.eqb_refl. reflexivity.
Qed.

Lemma wf_rootb_complete t : wf_root t -> wf_rootb t = true.
Proof.
  intros [->|[Hs Hk]]; [reflexivity|].
  assert (H : wfb t = true) by (unfold wfb; rewrite Hs, (ksortedb_complete _ Hk); reflexivity).
  destruct t as [[|p l]|cs]; [cbn in Hs; discriminate | exact H | exact H].
Qed.

(* the static reads of the model are the dictionary reads *)
Lemma static_reads_dict w pr t :
  w <> 0 -> wf_root t ->
  (forall r, In r (p_rng pr) -> start_past_end_open_stop (fst r) (snd r) t = false) ->
  static_reads w pr t = dict_sreads w pr (flatten t).
Proof.
  intros Hw Hwf Hr. unfold static_reads, dict_sreads.
  pose proof (div_pre_monotone w Hw) as Hp.
  f_equal.
  - apply map_ext. intros q. apply get_spec, Hwf.
  - apply map_ext. intros q. apply has_spec, Hwf.
  - apply map_ext. intros a. apply (get_prefix_spec _ a t Hp Hwf).
  - apply map_ext. intros a. apply (has_prefix_spec _ a t Hp Hwf).
  - apply iter_all_spec, Hwf.
  - apply iter_all_reverse_spec.
  - apply map_ext_in. intros r Hin. apply iter_key_range_spec; [exact Hwf | apply Hr, Hin].
  - apply map_ext. intros r. apply key_range_cardinality_spec, Hwf.
  - apply map_ext. intros r. apply iter_ordinal_range_spec, Hwf.
  - apply map_ext. intros r. apply iter_ordinal_range_spec, Hwf.
  - apply map_ext. intros q. apply ordinal_for_key_spec, Hwf.
  - apply count_spec, Hwf.
  - apply last_key_spec, Hwf.
Qed.

(* oracle (model_obs i) = true, for every static case *)
Theorem static_oracle_holds i :
  i_ops i = [] -> i_w i <> 0 -> wf_root (i_tree i) -> flatten (i_tree i) = i_init i ->
  (forall r, In r (p_rng (i_probes i)) -> start_past_end_open_stop (fst r) (snd r) (i_tree i) = false) ->
  oracle i (model_obs i) = true.
Proof.
  intros Hops Hw Hwf Hinit Hr. unfold oracle, model_obs. rewrite Hops. cbn [map run_ops o_bad o_s o_reads negb andb].
  rewrite (wf_rootb_complete _ Hwf), Hinit, kvl_eqb_refl. cbn [andb oracle_ops].
  rewrite (static_reads_dict _ _ _ Hw Hwf Hr), Hinit, sreads_eqb_refl. reflexivity.
Qed.
