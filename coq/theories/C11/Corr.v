(* C11 — correspondence: the model is run on the tree shape dumped from the
   real prolly map; the oracle is the sorted-dictionary semantics evaluated on
   what the implementation returned. Depends on Model/Spec only. *)
From Coq Require Import NArith List Bool.
From Dolt Require Import Prolly.Tree Prolly.Cursor C11.Model C11.Spec.
Import ListNotations.
Local Open Scope N_scope.

(* ---- generic equality helpers ------------------------------------------- *)
Fixpoint list_eqb {A} (eq : A -> A -> bool) (a b : list A) : bool :=
  match a, b with
  | [], [] => true
  | x :: a', y :: b' => eq x y && list_eqb eq a' b'
  | _, _ => false
  end.
Definition opt_eqb {A} (eq : A -> A -> bool) (a b : option A) : bool :=
  match a, b with
  | None, None => true
  | Some x, Some y => eq x y
  | _, _ => false
  end.
Definition kv_eqb (a b : kv) : bool := (fst a =? fst b) && (snd a =? snd b).
Definition kvl_eqb := list_eqb kv_eqb.
Definition okvl_eqb := opt_eqb kvl_eqb.

(* ---- case --------------------------------------------------------------- *)
Record probes := {
  p_keys : list key;
  p_pre : list N;
  p_rng : list (option key * option key);
  p_ord : list (N * N)
}.

Record sreads := {
  s_get : list (option val); s_has : list bool;
  s_getp : list (option kv); s_hasp : list bool;
  s_all : list kv; s_rev : list kv;
  s_rng : list (option (list kv)); s_card : list N;
  s_ordrng : list (option (list kv)); s_fetch : list (option (list kv));
  s_ord : list N; s_count : N; s_last : option key
}.

Record mreads := {
  r_get : list (option val); r_has : list bool;
  r_getp : list (option kv); r_hasp : list bool;
  r_all : list kv; r_rng : list (list kv); r_krng : list (option (list kv));
  r_map : node;            (* impl: dumped shape of Map(); model: Leaf contents *)
  r_edits : bool
}.

Inductive op := OPut (k : key) (v : val) | ODel (k : key) | OCp | ORv | OFl (deep : bool) | ORd.

Record input := {
  i_w : N;                                (* key = a * w + b; prefix = a *)
  i_init : list kv;                       (* the generator's sorted contents *)
  i_tree : node;                          (* shape of the real tree built from i_init *)
  i_probes : probes;
  i_maxp : nat;
  i_ops : list (op * option node)         (* op, and the real flushed tree after it when it changed *)
}.

Record obs := {
  o_s : sreads;
  o_changed : list bool;                  (* per op: did the flushed tree change *)
  o_pend : list N;                        (* per op: Edits.Count() after it *)
  o_stash : list bool;                    (* per op: stash != nil after it *)
  o_reads : list mreads;
  o_bad : bool                            (* the implementation reported a number outside [0, 2^64):
                                             a negative / wrapped ordinal, cardinality, count ... *)
}.

Definition case := (input * obs)%type.

(* ---- model run ------------------------------------------------------------ *)
Definition pre_of (w : N) : key -> N := fun k => k / w.

Definition static_reads (w : N) (pr : probes) (t : node) : sreads :=
  {| s_get := map (fun q => get q t) (p_keys pr);
     s_has := map (fun q => has q t) (p_keys pr);
     s_getp := map (fun a => get_prefix (pre_of w) a t) (p_pre pr);
     s_hasp := map (fun a => has_prefix (pre_of w) a t) (p_pre pr);
     s_all := iter_all t; s_rev := iter_all_reverse t;
     s_rng := map (fun r => iter_key_range (fst r) (snd r) t) (p_rng pr);
     s_card := map (fun r => key_range_cardinality (fst r) (snd r) t) (p_rng pr);
     s_ordrng := map (fun r => iter_ordinal_range (fst r) (snd r) t) (p_ord pr);
     s_fetch := map (fun r => iter_ordinal_range (fst r) (snd r) t) (p_ord pr);
     s_ord := map (fun q => ordinal_for_key q t) (p_keys pr);
     s_count := count_of t; s_last := last_key t |}.

(* the rebuild function: the real tree the implementation produced for these
   contents, if it reported one; otherwise a single leaf *)
Definition rb_table (shapes : list node) (l : list kv) : node :=
  match find (fun s => kvl_eqb (flatten s) l) shapes with
  | Some s => s
  | None => Leaf l
  end.

Definition shapes_of (i : input) : list node :=
  i_tree i :: flat_map (fun x => match snd x with Some s => [s] | None => [] end) (i_ops i).

Definition mut_reads (rb : list kv -> node) (w : N) (pr : probes) (m : mmap) : mreads :=
  {| r_get := map (fun q => m_get q m) (p_keys pr);
     r_has := map (fun q => m_has q m) (p_keys pr);
     r_getp := map (fun a => m_get_prefix (pre_of w) a m) (p_pre pr);
     r_hasp := map (fun a => m_has_prefix (pre_of w) a m) (p_pre pr);
     r_all := m_iter_all m;
     r_rng := map (fun r => m_iter_range (fst r) (snd r) m) (p_rng pr);
     r_krng := map (fun r => m_iter_key_range (fst r) (snd r) m) (p_rng pr);
     r_map := Leaf (applied (m_static m) (m_edits m));
     r_edits := m_has_edits m |}.

Definition m_step (rb : list kv -> node) (m : mmap) (o : op) : mmap :=
  match o with
  | OPut k v => put rb k v m
  | ODel k => delete k m
  | OCp => checkpoint m
  | ORv => revert m
  | OFl deep => flush rb deep m
  | ORd => m
  end.

Fixpoint run_ops (rb : list kv -> node) (w : N) (pr : probes) (m : mmap) (ops : list op)
  : list bool * list N * list bool * list mreads :=
  match ops with
  | [] => ([], [], [], [])
  | o :: ops' =>
    let m' := m_step rb m o in
    let '(ch, pe, st, rs) := run_ops rb w pr m' ops' in
    (negb (kvl_eqb (flatten (m_static m)) (flatten (m_static m'))) :: ch,
     N.of_nat (e_count (m_edits m')) :: pe,
     (match m_stash m' with Some _ => true | None => false end) :: st,
     match o with ORd => mut_reads rb w pr m' :: rs | _ => rs end)
  end.

Definition model_obs (i : input) : obs :=
  let rb := rb_table (shapes_of i) in
  let '(ch, pe, st, rs) := run_ops rb (i_w i) (i_probes i) (mutate (i_tree i) (i_maxp i)) (map fst (i_ops i)) in
  {| o_s := static_reads (i_w i) (i_probes i) (i_tree i);
     o_changed := ch; o_pend := pe; o_stash := st; o_reads := rs; o_bad := false |}.

(* ---- comparison ----------------------------------------------------------- *)
Definition sreads_eqb (a b : sreads) : bool :=
  list_eqb (opt_eqb N.eqb) (s_get a) (s_get b) && list_eqb Bool.eqb (s_has a) (s_has b)
  && list_eqb (opt_eqb kv_eqb) (s_getp a) (s_getp b) && list_eqb Bool.eqb (s_hasp a) (s_hasp b)
  && kvl_eqb (s_all a) (s_all b) && kvl_eqb (s_rev a) (s_rev b)
  && list_eqb okvl_eqb (s_rng a) (s_rng b) && list_eqb N.eqb (s_card a) (s_card b)
  && list_eqb okvl_eqb (s_ordrng a) (s_ordrng b) && list_eqb okvl_eqb (s_fetch a) (s_fetch b)
  && list_eqb N.eqb (s_ord a) (s_ord b) && (s_count a =? s_count b)
  && opt_eqb N.eqb (s_last a) (s_last b).

(* the materialised map is compared by contents; its shape is the implementation's choice *)
Definition mreads_eqb (a b : mreads) : bool :=
  list_eqb (opt_eqb N.eqb) (r_get a) (r_get b) && list_eqb Bool.eqb (r_has a) (r_has b)
  && list_eqb (opt_eqb kv_eqb) (r_getp a) (r_getp b) && list_eqb Bool.eqb (r_hasp a) (r_hasp b)
  && kvl_eqb (r_all a) (r_all b)
  && list_eqb kvl_eqb (r_rng a) (r_rng b) && list_eqb okvl_eqb (r_krng a) (r_krng b)
  && kvl_eqb (flatten (r_map a)) (flatten (r_map b))
  && Bool.eqb (r_edits a) (r_edits b).

Definition obs_eqb (a b : obs) : bool :=
  sreads_eqb (o_s a) (o_s b)
  && list_eqb Bool.eqb (o_changed a) (o_changed b)
  && list_eqb N.eqb (o_pend a) (o_pend b)
  && list_eqb Bool.eqb (o_stash a) (o_stash b)
  && list_eqb mreads_eqb (o_reads a) (o_reads b)
  && Bool.eqb (o_bad a) (o_bad b).

(* ---- the property as an executable predicate on implementation output ----- *)

(* every read of the static map is the dictionary read *)
Definition dict_sreads (w : N) (pr : probes) (d : dict) : sreads :=
  {| s_get := map (fun q => d_get q d) (p_keys pr);
     s_has := map (fun q => d_has q d) (p_keys pr);
     s_getp := map (fun a => d_get_prefix (pre_of w) a d) (p_pre pr);
     s_hasp := map (fun a => d_has_prefix (pre_of w) a d) (p_pre pr);
     s_all := d; s_rev := rev d;
     s_rng := map (fun r => Some (d_range (fst r) (snd r) d)) (p_rng pr);
     s_card := map (fun r => d_cardinality (fst r) (snd r) d) (p_rng pr);
     s_ordrng := map (fun r => d_ordinal_range (fst r) (snd r) d) (p_ord pr);
     s_fetch := map (fun r => d_ordinal_range (fst r) (snd r) d) (p_ord pr);
     s_ord := map (fun q => d_ordinal q d) (p_keys pr);
     s_count := d_count d; s_last := d_last d |}.

Definition aop_of (o : op) : option aop :=
  match o with
  | OPut k v => Some (APut k v) | ODel k => Some (ADel k)
  | OCp => Some ACheckpoint | ORv => Some ARevert | OFl _ => Some AFlush | ORd => None
  end.

(* the mutable-map reads a dictionary holding `d` gives; bit list says which
   API families are checked: get/has, prefix, iter_all+iter_range, key range, map *)
Definition dict_mreads_ok (w : N) (pr : probes) (d : dict) (r : mreads) : bool :=
  list_eqb (opt_eqb N.eqb) (r_get r) (map (fun q => d_get q d) (p_keys pr))
  && list_eqb Bool.eqb (r_has r) (map (fun q => d_has q d) (p_keys pr))
  && list_eqb (opt_eqb kv_eqb) (r_getp r) (map (fun a => d_get_prefix (pre_of w) a d) (p_pre pr))
  && list_eqb Bool.eqb (r_hasp r) (map (fun a => d_has_prefix (pre_of w) a d) (p_pre pr))
  && kvl_eqb (r_all r) d
  && list_eqb kvl_eqb (r_rng r) (map (fun x => d_range (fst x) (snd x) d) (p_rng pr))
  && list_eqb okvl_eqb (r_krng r) (map (fun x => Some (d_range (fst x) (snd x) d)) (p_rng pr))
  && wf_rootb (r_map r) && kvl_eqb (flatten (r_map r)) d.

Fixpoint oracle_ops (w : N) (pr : probes) (s : astate) (ops : list op) (rs : list mreads) : bool :=
  match ops with
  | [] => match rs with [] => true | _ => false end
  | o :: ops' =>
    match aop_of o with
    | Some a => oracle_ops w pr (a_step s a) ops' rs
    | None =>
      match rs with
      | r :: rs' => dict_mreads_ok w pr (fst s) r && oracle_ops w pr s ops' rs'
      | [] => false
      end
    end
  end.

Definition oracle (i : input) (o : obs) : bool :=
  (* every number the implementation reported is a number *)
  negb (o_bad o) &&
  (* the real tree is a well-formed tree holding the given contents *)
  wf_rootb (i_tree i) && kvl_eqb (flatten (i_tree i)) (i_init i)
  && sreads_eqb (o_s o) (dict_sreads (i_w i) (i_probes i) (i_init i))
  && oracle_ops (i_w i) (i_probes i) (i_init i, i_init i) (map fst (i_ops i)) (o_reads o).

Definition check_case (c : case) : N :=
  (if obs_eqb (model_obs (fst c)) (snd c) then 0 else 1)
  + (if oracle (fst c) (snd c) then 0 else 2).
