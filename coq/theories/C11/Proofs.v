(* C11 — proofs: every read API of the static map equals the dictionary
   function of `flatten t`, for every well-formed tree (any depth, any
   fan-out); refutation witnesses for the places where the faithful model
   deviates from the dictionary; partial refinement of the mutable map. *)
From Coq Require Import NArith PeanoNat List Bool Lia Sorting.Sorted.
From Dolt Require Import Prolly.Tree Prolly.Cursor C11.Model C11.Spec.
Import ListNotations.
Local Open Scope N_scope.

(* ---- sorted association lists ------------------------------------------- *)

Lemma le_q_mono q : mono (le_q q).
Proof. unfold mono, le_q. intros a b Hab H. apply N.leb_le in H. apply N.leb_le. lia. Qed.

Definition pre_monotone (pre : key -> N) : Prop := forall x y, x <= y -> pre x <= pre y.

Lemma pre_q_mono pre a : pre_monotone pre -> mono (fun k => a <=? pre k).
Proof. unfold mono. intros Hp x y Hxy H. apply N.leb_le in H. apply N.leb_le. specialize (Hp x y Hxy). lia. Qed.

Lemma const_true_mono : mono (fun _ => true).
Proof. intros a b _ H; exact H. Qed.
Lemma const_false_mono : mono (fun _ => false).
Proof. intros a b _ H; exact H. Qed.

Lemma kfalse_cons p k v l : kfalse p ((k, v) :: l) = (if p k then 0 else 1) + kfalse p l.
Proof. unfold kfalse, nfalse, keys. cbn [map fst filter]. destruct (p k); cbn [negb length]; lia. Qed.

Lemma ksorted_tail a l : ksorted (a :: l) -> ksorted l /\ Forall (N.lt a) l.
Proof. intros H. inversion H; subst. split; assumption. Qed.

(* the item at the search position is the first item satisfying the predicate *)
Lemma nth_first_true p l :
  mono p -> ksorted (keys l) ->
  nth_error l (N.to_nat (kfalse p l)) = find (fun e => p (fst e)) l.
Proof.
  intros Hm. induction l as [|[k v] l IH]; intros Hs; [reflexivity|].
  cbn [keys map fst] in Hs. apply ksorted_tail in Hs as [Hs Hf].
  rewrite kfalse_cons. cbn [find fst]. destruct (p k) eqn:Ek.
  - assert (E : kfalse p l = 0).
    { unfold kfalse. apply nfalse_all_true. rewrite Forall_forall in *. intros x Hx.
      apply (Hm k x); [specialize (Hf x Hx); lia | exact Ek]. }
    rewrite E. reflexivity.
  - replace (N.to_nat (1 + kfalse p l)) with (S (N.to_nat (kfalse p l))) by lia.
    cbn [nth_error]. apply IH, Hs.
Qed.

Lemma d_get_none_above q l : Forall (N.lt q) (keys l) -> d_get q l = None.
Proof.
  induction l as [|[k v] l IH]; intros H; [reflexivity|].
  cbn [keys map fst] in H. inversion H as [|? ? Hk Hl]; subst. cbn [d_get].
  destruct (k =? q) eqn:E; [apply N.eqb_eq in E; lia|]. apply IH, Hl.
Qed.

Lemma find_le_get q l :
  ksorted (keys l) ->
  match find (fun e => le_q q (fst e)) l with
  | Some (k, v) => if k =? q then Some v else None
  | None => None
  end = d_get q l.
Proof.
  induction l as [|[k v] l IH]; intros Hs; [reflexivity|].
  cbn [keys map fst] in Hs. apply ksorted_tail in Hs as [Hs Hf].
  cbn [find fst d_get]. unfold le_q at 1. destruct (q <=? k) eqn:E.
  - destruct (k =? q) eqn:E2; [reflexivity|].
    apply N.leb_le in E. apply N.eqb_neq in E2. symmetry. apply d_get_none_above.
    rewrite Forall_forall in *. intros x Hx. specialize (Hf x Hx). lia.
  - apply N.leb_gt in E. destruct (k =? q) eqn:E2; [apply N.eqb_eq in E2; lia|]. apply IH, Hs.
Qed.

Lemma find_prefix pre a l :
  pre_monotone pre -> ksorted (keys l) ->
  match find (fun e => a <=? pre (fst e)) l with
  | Some (k, v) => if pre k =? a then Some (k, v) else None
  | None => None
  end = d_get_prefix pre a l.
Proof.
  intros Hp. unfold d_get_prefix. induction l as [|[k v] l IH]; intros Hs; [reflexivity|].
  cbn [keys map fst] in Hs. apply ksorted_tail in Hs as [Hs Hf].
  cbn [find fst]. destruct (a <=? pre k) eqn:E.
  - destruct (pre k =? a) eqn:E2; [reflexivity|].
    apply N.leb_le in E. apply N.eqb_neq in E2. symmetry.
    (* every later key has a larger-or-equal prefix, so none equals a *)
    assert (Hall : forall x, In x l -> (pre (fst x) =? a) = false).
    { intros [k' v'] Hx. cbn [fst]. apply N.eqb_neq.
      assert (In k' (keys l)) by (apply in_map_iff; exists (k', v'); split; [reflexivity|exact Hx]).
      rewrite Forall_forall in Hf. specialize (Hf k' H). specialize (Hp k k' ltac:(lia)). lia. }
    clear -Hall. induction l as [|x l IHl]; [reflexivity|].
    cbn [find]. rewrite (Hall x (or_introl eq_refl)). apply IHl. intros y Hy. apply Hall. right; exact Hy.
  - apply N.leb_gt in E. destruct (pre k =? a) eqn:E2; [apply N.eqb_eq in E2; lia|]. apply IH, Hs.
Qed.

(* ---- point lookups -------------------------------------------------------- *)

Theorem get_spec q t : wf_root t -> get q t = d_get q (flatten t).
Proof.
  intros [->|Hwf]; [reflexivity|]. unfold get.
  rewrite (lookup_at_spec _ _ (le_q_mono q) Hwf).
  rewrite (nth_first_true _ _ (le_q_mono q) (proj2 Hwf)).
  apply find_le_get, Hwf.
Qed.

Theorem has_spec q t : wf_root t -> has q t = d_has q (flatten t).
Proof.
  intros Hwf. unfold d_has. rewrite <- (get_spec q t Hwf). unfold has, get.
  destruct (lookup_at (le_q q) t) as [[k v]|]; [|reflexivity]. destruct (k =? q); reflexivity.
Qed.

Theorem get_prefix_spec pre a t :
  pre_monotone pre -> wf_root t -> get_prefix pre a t = d_get_prefix pre a (flatten t).
Proof.
  intros Hp [->|Hwf]; [reflexivity|]. unfold get_prefix.
  rewrite (lookup_at_spec _ _ (pre_q_mono pre a Hp) Hwf).
  rewrite (nth_first_true _ _ (pre_q_mono pre a Hp) (proj2 Hwf)).
  apply find_prefix; [exact Hp | apply Hwf].
Qed.

Theorem has_prefix_spec pre a t :
  pre_monotone pre -> wf_root t -> has_prefix pre a t = d_has_prefix pre a (flatten t).
Proof.
  intros Hp Hwf. pose proof (get_prefix_spec pre a t Hp Hwf) as H.
  unfold has_prefix, get_prefix in *. unfold d_has_prefix. unfold d_get_prefix in H.
  destruct (lookup_at (fun k => a <=? pre k) t) as [[k v]|].
  - destruct (pre k =? a) eqn:E.
    + symmetry. apply existsb_exists. symmetry in H. apply find_some in H. exists (k, v). exact H.
    + symmetry. apply not_true_is_false. intros Hex. apply existsb_exists in Hex as (x & Hx & Hpx).
      symmetry in H. rewrite (find_none _ _ H x Hx) in Hpx. discriminate.
  - symmetry. apply not_true_is_false. intros Hex. apply existsb_exists in Hex as (x & Hx & Hpx).
    symmetry in H. rewrite (find_none _ _ H x Hx) in Hpx. discriminate.
Qed.

(* ---- whole-map reads -------------------------------------------------------- *)

Lemma cached_count_root t : wf_root t -> cached_count t = N.of_nat (length (flatten t)).
Proof. intros [->|Hwf]; [reflexivity|]. apply cached_count_spec, Hwf. Qed.

Theorem count_spec t : wf_root t -> count_of t = d_count (flatten t).
Proof. apply cached_count_root. Qed.

Lemma slice_root t a b : wf_root t -> a <= b ->
  slice t a b = firstn (N.to_nat (b - a)) (skipn (N.to_nat a) (flatten t)).
Proof. intros [->|Hwf] Hab; [reflexivity | apply slice_spec; [apply Hwf | exact Hab]]. Qed.

Theorem iter_all_spec t : wf_root t -> iter_all t = flatten t.
Proof.
  intros Hwf. unfold iter_all. rewrite slice_root by (try assumption; lia).
  rewrite (cached_count_root t Hwf). cbn [skipn N.to_nat]. 
  replace (N.to_nat (N.of_nat (length (flatten t)) - 0)) with (length (flatten t)) by lia.
  apply firstn_all.
Qed.

Theorem iter_all_reverse_spec t : iter_all_reverse t = rev (flatten t).
Proof. apply rev_flatten_spec. Qed.

Theorem last_key_spec t : wf_root t -> last_key t = d_last (flatten t).
Proof.
  intros [->|Hwf]; [reflexivity|]. unfold last_key, d_last.
  pose proof (shape_nonempty t (proj1 Hwf)) as Hne.
  assert (Hlen : node_len t =? 0 = false).
  { apply N.eqb_neq. destruct t as [kvs|cs]; cbn [node_len].
    - cbn in Hne. destruct kvs; [contradiction|cbn; lia].
    - destruct Hwf as [Hs _]. destruct cs; [cbn in Hs; discriminate | cbn [length]; lia]. }
  rewrite Hlen. rewrite (node_last_key_spec t (proj1 Hwf)). unfold tree_last_key, keys.
  destruct (flatten t); [contradiction|reflexivity].
Qed.

(* ---- ordinals and key ranges ------------------------------------------------ *)

Lemma kfalse_le_q q l : kfalse (le_q q) l = d_ordinal q l.
Proof.
  unfold kfalse, nfalse, d_ordinal, keys. f_equal.
  induction l as [|[k v] l IH]; [reflexivity|]. cbn [map fst filter].
  unfold le_q at 1. rewrite N.leb_antisym, negb_involutive.
  destruct (k <? q); cbn [length]; rewrite IH; reflexivity.
Qed.

Theorem ordinal_for_key_spec q t : wf_root t -> ordinal_for_key q t = d_ordinal q (flatten t).
Proof.
  intros [->|Hwf]; [reflexivity|]. unfold ordinal_for_key.
  rewrite (ordinal_of_spec _ _ (le_q_mono q) Hwf). apply kfalse_le_q.
Qed.

(* kv-level partition of a sorted list by a monotone predicate *)
Lemma kv_partition p l :
  mono p -> ksorted (keys l) ->
  l = firstn (N.to_nat (kfalse p l)) l ++ skipn (N.to_nat (kfalse p l)) l
  /\ Forall (fun e => p (fst e) = false) (firstn (N.to_nat (kfalse p l)) l)
  /\ Forall (fun e => p (fst e) = true) (skipn (N.to_nat (kfalse p l)) l).
Proof.
  intros Hm. induction l as [|[k v] l IH]; intros Hs.
  - repeat split; constructor.
  - cbn [keys map fst] in Hs. apply ksorted_tail in Hs as [Hs Hf].
    split; [symmetry; apply firstn_skipn|].
    rewrite kfalse_cons. destruct (p k) eqn:Ek.
    + assert (E : kfalse p l = 0).
      { unfold kfalse. apply nfalse_all_true. rewrite Forall_forall in *. intros x Hx.
        apply (Hm k x); [specialize (Hf x Hx); lia | exact Ek]. }
      rewrite E. cbn [N.to_nat firstn skipn N.add]. split; [constructor|].
      constructor; [exact Ek|]. destruct (IH Hs) as (_ & _ & H3). rewrite E in H3. exact H3.
    + replace (N.to_nat (1 + kfalse p l)) with (S (N.to_nat (kfalse p l))) by lia.
      cbn [firstn skipn]. destruct (IH Hs) as (_ & H2 & H3). split; [constructor; assumption | exact H3].
Qed.

Lemma filter_all_false {A} (f : A -> bool) l : Forall (fun x => f x = false) l -> filter f l = [].
Proof. induction 1 as [|x l Hx _ IH]; [reflexivity|]. cbn [filter]. rewrite Hx. exact IH. Qed.

Lemma filter_all_true {A} (f : A -> bool) l : Forall (fun x => f x = true) l -> filter f l = l.
Proof. induction 1 as [|x l Hx _ IH]; [reflexivity|]. cbn [filter]. rewrite Hx. f_equal. exact IH. Qed.

Lemma kfalse_len p l : kfalse p l <= N.of_nat (length l).
Proof. unfold kfalse. pose proof (nfalse_le p (keys l)). unfold keys in *. rewrite map_length in H. exact H. Qed.

Lemma in_firstn {A} n (l : list A) x : In x (firstn n l) -> In x l.
Proof. revert l. induction n as [|n IH]; intros [|a l] H; cbn [firstn] in H; try destruct H as []; [left; assumption | right; apply IH; assumption]. Qed.

Lemma in_skipn {A} n (l : list A) x : In x (skipn n l) -> In x l.
Proof. revert l. induction n as [|n IH]; intros [|a l] H; cbn [skipn] in H; try assumption. right. apply IH, H. Qed.

Lemma firstn_skipn_sw {A} m n (l : list A) : firstn m (skipn n l) = skipn n (firstn (n + m) l).
Proof.
  revert l. induction n as [|n IH]; intros l; [reflexivity|].
  destruct l as [|a l]; [cbn; apply firstn_nil|]. cbn [skipn Nat.add firstn]. apply IH.
Qed.

Lemma skipn_skipn' {A} x y (l : list A) : skipn x (skipn y l) = skipn (x + y) l.
Proof.
  revert l. induction y as [|y IH]; intros l; [rewrite Nat.add_0_r; reflexivity|].
  destruct l as [|a l]; [rewrite !skipn_nil; reflexivity|].
  rewrite Nat.add_succ_r. cbn [skipn]. apply IH.
Qed.

Lemma firstn_le_in {A} (b a : nat) (l : list A) x : (b <= a)%nat -> In x (firstn b l) -> In x (firstn a l).
Proof.
  intros Hba H. rewrite <- (Nat.min_l b a Hba) in H. rewrite <- firstn_firstn in H. apply in_firstn in H. exact H.
Qed.

(* the window between two search positions is the filter by the two predicates *)
Lemma window_filter plo phi l :
  mono plo -> mono phi -> ksorted (keys l) ->
  let a := kfalse plo l in let b := kfalse phi l in
  (if b <=? a then [] else firstn (N.to_nat (b - a)) (skipn (N.to_nat a) l))
  = filter (fun e => plo (fst e) && negb (phi (fst e))) l.
Proof.
  intros Hlo Hhi Hs a b.
  destruct (kv_partition plo l Hlo Hs) as (Ea & Fa & Ta).
  destruct (kv_partition phi l Hhi Hs) as (Eb & Fb & Tb).
  fold a in Ea, Fa, Ta. fold b in Eb, Fb, Tb.
  pose proof (kfalse_len plo l) as La. pose proof (kfalse_len phi l) as Lb. fold a in La. fold b in Lb.
  destruct (b <=? a) eqn:Eba.
  - apply N.leb_le in Eba. symmetry. rewrite Eb at 1. rewrite filter_app.
    rewrite (filter_all_false _ (skipn (N.to_nat b) l)).
    + rewrite app_nil_r. apply filter_all_false.
      (* firstn b l is a prefix of firstn a l, where plo is false *)
      rewrite Forall_forall in *. intros x Hx.
      assert (In x (firstn (N.to_nat a) l)) by (apply (firstn_le_in (N.to_nat b)); [lia | exact Hx]).
      rewrite (Fa x H). reflexivity.
    + rewrite Forall_forall in *. intros x Hx. rewrite (Tb x Hx). apply andb_false_r.
  - apply N.leb_gt in Eba. symmetry. rewrite Ea at 1. rewrite filter_app.
    rewrite (filter_all_false _ (firstn (N.to_nat a) l)).
    + cbn [app].
      (* inside skipn a l: plo true; phi false exactly on the first b-a *)
      set (r := skipn (N.to_nat a) l) in *.
      rewrite <- (firstn_skipn (N.to_nat (b - a)) r) at 1. rewrite filter_app.
      rewrite (filter_all_true _ (firstn (N.to_nat (b - a)) r)).
      * rewrite (filter_all_false _ (skipn (N.to_nat (b - a)) r)); [apply app_nil_r|].
        unfold r. rewrite skipn_skipn'. replace (N.to_nat (b - a) + N.to_nat a)%nat with (N.to_nat b) by lia.
        rewrite Forall_forall in *. intros x Hx. rewrite (Tb x Hx). apply andb_false_r.
      * rewrite Forall_forall in *. intros x Hx.
        assert (In x r) by (apply in_firstn in Hx; exact Hx).
        rewrite (Ta x H). cbn [andb].
        assert (In x (firstn (N.to_nat b) l)).
        { unfold r in Hx. rewrite firstn_skipn_sw in Hx. apply in_skipn in Hx.
          replace (N.to_nat a + N.to_nat (b - a))%nat with (N.to_nat b) in Hx by lia. exact Hx. }
        rewrite (Fb x H0). reflexivity.
    + rewrite Forall_forall in *. intros x Hx. rewrite (Fa x Hx). reflexivity.
Qed.

Definition plo (lo : option key) : key -> bool := match lo with None => fun _ => true | Some q => le_q q end.
Definition phi (hi : option key) : key -> bool := match hi with None => fun _ => false | Some q => le_q q end.

Lemma plo_mono lo : mono (plo lo).
Proof. destruct lo; [apply le_q_mono | apply const_true_mono]. Qed.
Lemma phi_mono hi : mono (phi hi).
Proof. destruct hi; [apply le_q_mono | apply const_false_mono]. Qed.

Lemma lo_ord_spec lo t : wf_root t -> lo_ord lo t = kfalse (plo lo) (flatten t).
Proof.
  intros Hwf. destruct lo as [q|]; cbn [lo_ord plo].
  - destruct Hwf as [->|Hwf]; [reflexivity|]. apply (ordinal_of_spec _ _ (le_q_mono q) Hwf).
  - symmetry. unfold kfalse. apply nfalse_all_true. rewrite Forall_forall. reflexivity.
Qed.

Lemma hi_ord_spec hi t : wf_root t -> hi_ord hi t = kfalse (phi hi) (flatten t).
Proof.
  intros Hwf. destruct hi as [q|]; cbn [hi_ord phi].
  - destruct Hwf as [->|Hwf]; [reflexivity|]. apply (ordinal_of_spec _ _ (le_q_mono q) Hwf).
  - rewrite (cached_count_root t Hwf). symmetry. unfold kfalse.
    rewrite nfalse_all_false by (rewrite Forall_forall; reflexivity).
    unfold keys. rewrite map_length. reflexivity.
Qed.

Lemma range_pred lo hi k : plo lo k && negb (phi hi k) = d_in_range lo hi k.
Proof.
  unfold d_in_range. destruct lo as [l|], hi as [h|]; cbn [plo phi]; unfold le_q;
    rewrite ?N.leb_antisym, ?negb_involutive; reflexivity.
Qed.

Lemma wf_root_sorted t : wf_root t -> ksorted (keys (flatten t)).
Proof. intros [->|Hwf]; [constructor | apply Hwf]. Qed.

Theorem iter_window_spec lo hi t : wf_root t -> iter_window lo hi t = d_range lo hi (flatten t).
Proof.
  intros Hwf. unfold iter_window, d_range.
  rewrite (lo_ord_spec lo t Hwf), (hi_ord_spec hi t Hwf).
  pose proof (window_filter (plo lo) (phi hi) (flatten t) (plo_mono lo) (phi_mono hi) (wf_root_sorted t Hwf)) as H.
  cbn zeta in H.
  rewrite (filter_ext _ (fun e => d_in_range lo hi (fst e))) in H by (intros e; apply range_pred).
  rewrite <- H. destruct (kfalse (phi hi) (flatten t) <=? kfalse (plo lo) (flatten t)) eqn:E; [reflexivity|].
  apply N.leb_gt in E. apply slice_root; [exact Hwf | lia].
Qed.

(* IterKeyRange is the dictionary range, except in the one configuration in which
   the implementation indexes past the end of a leaf (see
   iter_key_range_open_stop_refuted) *)
Theorem iter_key_range_spec lo hi t :
  wf_root t -> start_past_end_open_stop lo hi t = false ->
  iter_key_range lo hi t = Some (d_range lo hi (flatten t)).
Proof.
  intros Hwf Hok. unfold iter_key_range. rewrite Hok.
  f_equal. apply (iter_window_spec lo hi t Hwf).
Qed.

Theorem key_range_cardinality_spec lo hi t :
  wf_root t -> key_range_cardinality lo hi t = d_cardinality lo hi (flatten t).
Proof.
  intros Hwf. unfold d_cardinality. rewrite <- (iter_window_spec lo hi t Hwf).
  unfold key_range_cardinality, iter_window.
  pose proof (hi_ord_spec hi t Hwf) as Hb. pose proof (kfalse_len (phi hi) (flatten t)) as Hl.
  set (a := lo_ord lo t) in *. set (b := hi_ord hi t) in *. rewrite <- Hb in Hl.
  destruct (b <=? a) eqn:E.
  - apply N.leb_le in E. cbn [length]. destruct (b <? a) eqn:E2; [reflexivity|]. apply N.ltb_ge in E2. lia.
  - apply N.leb_gt in E. destruct (b <? a) eqn:E2; [apply N.ltb_lt in E2; lia|].
    rewrite slice_root by (try assumption; lia). rewrite firstn_length, skipn_length. lia.
Qed.

Theorem iter_ordinal_range_spec a b t :
  wf_root t -> iter_ordinal_range a b t = d_ordinal_range a b (flatten t).
Proof.
  intros Hwf. unfold iter_ordinal_range, d_ordinal_range, d_count.
  rewrite (cached_count_root t Hwf).
  destruct (b =? a) eqn:E1; [reflexivity|]. apply N.eqb_neq in E1.
  destruct (b <? a) eqn:E2.
  - apply N.ltb_lt in E2. replace (a <=? b) with false by (symmetry; apply N.leb_gt; lia). reflexivity.
  - apply N.ltb_ge in E2. replace (a <=? b) with true by (symmetry; apply N.leb_le; lia). cbn [andb].
    rewrite N.ltb_antisym. destruct (b <=? N.of_nat (length (flatten t))) eqn:E3; cbn [negb]; [|reflexivity].
    f_equal. apply slice_root; [exact Hwf | lia].
Qed.

(* the prefix projection used by the correspondence is monotone *)
Lemma div_pre_monotone w : w <> 0 -> pre_monotone (fun k => k / w).
Proof. intros Hw x y Hxy. apply N.div_le_mono; assumption. Qed.

(* ---- refutation witnesses (each reproduces on the real code) -------------- *)

(* a two-level tree on which IterKeyRange(start above every key, open stop) runs off a leaf *)
Definition t_two : node := Inner [(2, 2, Leaf [(1, 10); (2, 20)]); (5, 1, Leaf [(5, 50)])].

Theorem iter_key_range_open_stop_refuted :
  exists t lo, wf t /\ iter_key_range (Some lo) None t <> Some (d_range (Some lo) None (flatten t)).
Proof. exists t_two, 9. split; [apply wfb_sound; vm_compute; reflexivity | vm_compute; discriminate]. Qed.

(* mutable map: run a list of operations from Map.Mutate *)
Inductive mop := MPut (k : key) (v : val) | MDel (k : key) | MCheckpoint | MRevert | MFlush (deep : bool).

Definition mop_step (rb : list kv -> node) (m : mmap) (o : mop) : mmap :=
  match o with
  | MPut k v => put rb k v m
  | MDel k => delete k m
  | MCheckpoint => checkpoint m
  | MRevert => revert m
  | MFlush deep => flush rb deep m
  end.

Definition mop_abs (o : mop) : aop :=
  match o with
  | MPut k v => APut k v | MDel k => ADel k | MCheckpoint => ACheckpoint
  | MRevert => ARevert | MFlush _ => AFlush
  end.

Definition run_m (rb : list kv -> node) (t : node) (maxp : nat) (ops : list mop) : mmap :=
  fold_left (mop_step rb) ops (mutate t maxp).

Definition dict_after (t : node) (ops : list mop) : dict := fst (a_run (flatten t) (map mop_abs ops)).

(* a rebuild function is acceptable when it returns a map root with the given contents *)
Definition rb_ok (rb : list kv -> node) : Prop :=
  forall l, ksorted (keys l) -> wf_root (rb l) /\ flatten (rb l) = l.

(* The full statement, false of the faithful model and of the code:

     mutable_refines : forall rb t maxp ops, rb_ok rb -> wf_root t ->
       let m := run_m rb t maxp ops in let d := dict_after t ops in
       (forall q, m_get q m = d_get q d) /\ (forall q, m_has q m = d_has q d)
       /\ (forall pre a, pre_monotone pre -> m_get_prefix pre a m = d_get_prefix pre a d
                                          /\ m_has_prefix pre a m = d_has_prefix pre a d)
       /\ m_iter_all m = d /\ (forall lo hi, m_iter_range lo hi m = d_range lo hi d)
       /\ (forall lo hi, m_iter_key_range lo hi m = Some (d_range lo hi d))
       /\ flatten (materialize rb m) = d.                                          *)

Definition rb_leaf (l : list kv) : node := Leaf l.

Theorem iter_key_range_refuted :
  exists t ops, wf_root t /\
    m_iter_key_range None None (run_m rb_leaf t 1000 ops) <> Some (d_range None None (dict_after t ops)).
Proof.
  exists (Leaf [(16, 1); (32, 2); (48, 3)]), [MPut 20 9; MDel 32].
  split; [right; apply wfb_sound; vm_compute; reflexivity | vm_compute; discriminate].
Qed.

Theorem get_prefix_refuted :
  exists t ops a, wf_root t /\
    m_has_prefix (fun k => k / 16) a (run_m rb_leaf t 1000 ops) <> d_has_prefix (fun k => k / 16) a (dict_after t ops).
Proof.
  exists (Leaf [(16, 1); (21, 2)]), [MDel 16], 1.
  split; [right; apply wfb_sound; vm_compute; reflexivity | vm_compute; discriminate].
Qed.

Theorem revert_empty_checkpoint_refuted :
  exists t maxp ops, wf_root t /\ m_iter_all (run_m rb_leaf t maxp ops) <> dict_after t ops.
Proof.
  exists (Leaf [(16, 1)]), 2%nat, [MCheckpoint; MPut 1 1; MPut 2 2; MPut 3 3; MRevert].
  split; [right; apply wfb_sound; vm_compute; reflexivity | vm_compute; discriminate].
Qed.

Theorem second_revert_refuted :
  exists t maxp ops, wf_root t /\ m_iter_all (run_m rb_leaf t maxp ops) <> dict_after t ops.
Proof.
  exists (Leaf [(16, 1)]), 2%nat,
    [MPut 1 1; MCheckpoint; MPut 2 2; MPut 3 3; MPut 4 4; MRevert; MPut 5 5; MRevert].
  split; [right; apply wfb_sound; vm_compute; reflexivity | vm_compute; discriminate].
Qed.

(* the hypotheses of the static theorems are satisfiable: a three-level tree *)
Definition t_three : node :=
  Inner [(5, 3, Inner [(2, 2, Leaf [(1, 10); (2, 20)]); (5, 1, Leaf [(5, 50)])]);
         (9, 2, Inner [(9, 2, Leaf [(7, 70); (9, 90)])])].
Example t_three_wf : wf t_three.
Proof. apply wfb_sound. vm_compute. reflexivity. Qed.
Example t_three_get : get 7 t_three = Some 70 /\ iter_key_range (Some 2) (Some 9) t_three = Some [(2, 20); (5, 50); (7, 70)].
Proof. vm_compute. split; reflexivity. Qed.

(* ---- mutable map: partial refinement ----------------------------------------- *)
(* Proved: for every sequence of Put / Delete / Checkpoint that stays below the
   flush threshold, point reads (Get, Has) of the mutable map are the reads of the
   dictionary obtained by applying the operations to flatten t.
   Missing w.r.t. mutable_refines: flushes (needs merge_iter = fold of d_put/d_del),
   iteration reads, and Revert under the hypotheses that exclude the two refuted
   revert scenarios. *)

Lemma e_view_put k v el : e_view (e_put k v el) = e_insert k v (e_view el).
Proof. unfold e_view, e_put. cbn [e_log]. rewrite fold_left_app. reflexivity. Qed.

Lemma e_get_insert q k v m : e_get q (e_insert k v m) = if k =? q then Some v else e_get q m.
Proof.
  induction m as [|[k' v'] m IH]; cbn [e_insert e_get]; [reflexivity|].
  destruct (k <? k') eqn:E1; cbn [e_get]; [reflexivity|].
  destruct (k =? k') eqn:E2; cbn [e_get].
  - apply N.eqb_eq in E2. subst k'. destruct (k =? q); reflexivity.
  - rewrite IH. destruct (k' =? q) eqn:E3; [|reflexivity].
    apply N.eqb_eq in E3. subst q. rewrite E2. reflexivity.
Qed.

Lemma d_get_put q k v d : d_get q (d_put k v d) = if k =? q then Some v else d_get q d.
Proof.
  induction d as [|[k' v'] d IH]; cbn [d_put d_get]; [reflexivity|].
  destruct (k <? k') eqn:E1; cbn [d_get]; [reflexivity|].
  destruct (k =? k') eqn:E2; cbn [d_get].
  - apply N.eqb_eq in E2. subst k'. destruct (k =? q); reflexivity.
  - rewrite IH. destruct (k' =? q) eqn:E3; [|reflexivity].
    apply N.eqb_eq in E3. subst q. rewrite E2. reflexivity.
Qed.

Lemma d_get_del q k d : ksorted (keys d) -> d_get q (d_del k d) = if k =? q then None else d_get q d.
Proof.
  induction d as [|[k' v'] d IH]; intros Hs; cbn [d_del d_get]; [destruct (k =? q); reflexivity|].
  cbn [keys map fst] in Hs. apply ksorted_tail in Hs as [Hs Hf].
  destruct (k =? k') eqn:E2.
  - apply N.eqb_eq in E2. subst k'. destruct (k =? q) eqn:E3; [|reflexivity].
    apply N.eqb_eq in E3. subst q. apply d_get_none_above, Hf.
  - cbn [d_get]. rewrite (IH Hs). destruct (k' =? q) eqn:E3; [|reflexivity].
    apply N.eqb_eq in E3. subst q. rewrite E2. reflexivity.
Qed.

Lemma d_put_lb x k v d : x < k -> Forall (N.lt x) (keys d) -> Forall (N.lt x) (keys (d_put k v d)).
Proof.
  intros Hx. induction d as [|[k' v'] d IH]; intros H; cbn [d_put].
  - constructor; [exact Hx|constructor].
  - cbn [keys map fst] in H. inversion H as [|? ? Hk Hd]; subst.
    destruct (k <? k'); [constructor; [exact Hx|exact H]|].
    destruct (k =? k'); [constructor; [exact Hx|exact Hd]|].
    constructor; [exact Hk|apply IH, Hd].
Qed.

Lemma d_put_sorted k v d : ksorted (keys d) -> ksorted (keys (d_put k v d)).
Proof.
  induction d as [|[k' v'] d IH]; intros Hs; cbn [d_put].
  - constructor; constructor.
  - cbn [keys map fst] in Hs. pose proof Hs as Hs0. apply ksorted_tail in Hs as [Hs Hf].
    destruct (k <? k') eqn:E1.
    + apply N.ltb_lt in E1. constructor; [exact Hs0|].
      constructor; [exact E1|]. rewrite Forall_forall in *. intros x Hx. specialize (Hf x Hx). cbn [fst]. lia.
    + destruct (k =? k') eqn:E2.
      * apply N.eqb_eq in E2. subst k'. constructor; assumption.
      * apply N.ltb_ge in E1. apply N.eqb_neq in E2. constructor; [apply IH, Hs|].
        apply d_put_lb; [cbn [fst]; lia|exact Hf].
Qed.

Lemma d_del_lb x k d : Forall (N.lt x) (keys d) -> Forall (N.lt x) (keys (d_del k d)).
Proof.
  induction d as [|[k' v'] d IH]; intros H; cbn [d_del]; [exact H|].
  cbn [keys map fst] in H. inversion H as [|? ? Hk Hd]; subst.
  destruct (k =? k'); [exact Hd|]. constructor; [exact Hk|apply IH, Hd].
Qed.

Lemma d_del_sorted k d : ksorted (keys d) -> ksorted (keys (d_del k d)).
Proof.
  induction d as [|[k' v'] d IH]; intros Hs; cbn [d_del]; [exact Hs|].
  cbn [keys map fst] in Hs. apply ksorted_tail in Hs as [Hs Hf].
  destruct (k =? k'); [exact Hs|]. constructor; [apply IH, Hs|apply d_del_lb, Hf].
Qed.

Lemma e_insert_len k v m : (length (e_insert k v m) <= S (length m))%nat.
Proof.
  induction m as [|[k' v'] m IH]; cbn [e_insert length]; [lia|].
  destruct (k <? k'); cbn [length]; [lia|]. destruct (k =? k'); cbn [length]; lia.
Qed.

Lemma e_count_le el : (e_count el <= length (e_log el))%nat.
Proof.
  unfold e_count, e_view. destruct el as [log cp]. cbn [e_log].
  assert (H : forall l acc, (length (fold_left (fun m e => e_insert (fst e) (snd e) m) l acc) <= length acc + length l)%nat).
  { induction l as [|e l IH]; intros acc; cbn [fold_left length]; [lia|].
    specialize (IH (e_insert (fst e) (snd e) acc)). pose proof (e_insert_len (fst e) (snd e) acc). lia. }
  exact (H log []).
Qed.

Lemma m_has_get q m :
  wf_root (m_static m) -> m_has q m = match m_get q m with Some _ => true | None => false end.
Proof.
  intros Hwf. unfold m_has, m_get. destruct (e_get q (e_view (m_edits m))) as [[v|]|]; try reflexivity.
  rewrite (has_spec q _ Hwf). unfold d_has. rewrite (get_spec q _ Hwf). reflexivity.
Qed.

(* operations covered by the partial theorem *)
Definition pdc (o : mop) : bool :=
  match o with MPut _ _ | MDel _ | MCheckpoint => true | _ => false end.

Section Partial.
  Variable rb : list kv -> node.
  Variable t : node.
  Variable maxp : nat.
  Hypothesis Hwf : wf_root t.

  Definition inv (m : mmap) (d : dict) (n : nat) : Prop :=
    m_maxp m = maxp /\ m_static m = t /\ (length (e_log (m_edits m)) <= n)%nat
    /\ ksorted (keys d) /\ forall q, m_get q m = d_get q d.

  Lemma inv_step m d chk n o :
    inv m d n -> pdc o = true -> (S n <= maxp)%nat ->
    inv (mop_step rb m o) (fst (a_step (d, chk) (mop_abs o))) (S n).
  Proof.
    intros (Hmax & Hst & Hlen & Hs & Hget) Ho Hn. destruct o as [k v|k| | |deep]; try discriminate; cbn [mop_step mop_abs a_step fst].
    - (* put: below the threshold, no flush *)
      unfold put. cbn [m_edits m_maxp].
      assert (Hc : Nat.ltb (m_maxp m) (e_count (e_put k (Some v) (m_edits m))) = false).
      { apply Nat.ltb_ge. pose proof (e_count_le (e_put k (Some v) (m_edits m))) as Hc.
        unfold e_put in Hc at 2. cbn [e_log] in Hc. rewrite app_length in Hc. cbn [length] in Hc. lia. }
      rewrite Hc. unfold inv. cbn [m_maxp m_static m_edits e_put e_log].
      repeat split; try assumption.
      all: try (rewrite app_length; cbn [length]; lia).
      all: try (apply d_put_sorted, Hs).
      intros q. unfold m_get. cbn [m_edits m_static]. 
        change {| e_log := e_log (m_edits m) ++ [(k, Some v)]; e_cp := e_cp (m_edits m) |} with (e_put k (Some v) (m_edits m)).
        rewrite e_view_put, e_get_insert, d_get_put. destruct (k =? q); [reflexivity|]. apply Hget.
    - unfold delete, inv. cbn [m_maxp m_static m_edits e_put e_log].
      repeat split; try assumption.
      all: try (rewrite app_length; cbn [length]; lia).
      all: try (apply d_del_sorted, Hs).
      intros q. unfold m_get. cbn [m_edits m_static].
        change {| e_log := e_log (m_edits m) ++ [(k, None)]; e_cp := e_cp (m_edits m) |} with (e_put k None (m_edits m)).
        rewrite e_view_put, e_get_insert, (d_get_del q k d Hs). destruct (k =? q); [reflexivity|]. apply Hget.
    - unfold checkpoint, inv. cbn [m_maxp m_static m_edits e_checkpoint e_log].
      repeat split; try assumption; try lia.
  Qed.

  Lemma inv_run ops : forall m d chk n,
    inv m d n -> forallb pdc ops = true -> (n + length ops <= maxp)%nat ->
    exists n', inv (fold_left (mop_step rb) ops m) (fst (fold_left a_step (map mop_abs ops) (d, chk))) n'.
  Proof.
    induction ops as [|o ops IH]; intros m d chk n Hinv Hops Hn; cbn [fold_left map].
    - exists n. exact Hinv.
    - cbn [forallb] in Hops. apply andb_true_iff in Hops as [Ho Hops]. cbn [length] in Hn.
      pose proof (inv_step m d chk n o Hinv Ho ltac:(lia)) as Hi.
      destruct (a_step (d, chk) (mop_abs o)) as [d' chk'] eqn:Ea. cbn [fst] in Hi.
      apply (IH _ d' chk' (S n) Hi Hops). lia.
  Qed.

  Theorem mutable_get_refines_partial ops :
    forallb pdc ops = true -> (length ops <= maxp)%nat ->
    forall q, m_get q (run_m rb t maxp ops) = d_get q (dict_after t ops)
              /\ m_has q (run_m rb t maxp ops) = d_has q (dict_after t ops).
  Proof.
    intros Hops Hlen q.
    assert (Hinv0 : inv (mutate t maxp) (flatten t) 0).
    { unfold inv, mutate. cbn [m_maxp m_static m_edits e_empty e_log length].
      repeat split; try reflexivity; try lia; try (apply wf_root_sorted, Hwf).
      intros q'. unfold m_get. cbn [m_edits m_static e_view e_log e_empty fold_left e_get]. apply get_spec, Hwf. }
    destruct (inv_run ops _ _ (flatten t) 0%nat Hinv0 Hops ltac:(lia)) as (n' & _ & Hst & _ & _ & Hget).
    unfold run_m, dict_after, a_run in *. split; [apply Hget|].
    unfold d_has. rewrite <- Hget. apply m_has_get. rewrite Hst. exact Hwf.
  Qed.
End Partial.

(* ======================================================================== *)
(* mutable map: the full refinement                                          *)
(* ======================================================================== *)

Definition esorted (m : list edit) : Prop := ksorted (map fst m).

Lemma merge_iter_cons pk pv d mk mv m :
  merge_iter ((pk, pv) :: d) ((mk, mv) :: m) =
  if pk <? mk then (pk, pv) :: merge_iter d ((mk, mv) :: m)
  else if mk <? pk then emit mk mv ++ merge_iter ((pk, pv) :: d) m
  else emit mk mv ++ merge_iter d m.
Proof. reflexivity. Qed.

Lemma merge_iter_nil_r d : merge_iter d [] = d.
Proof. destruct d as [|[k v] d]; reflexivity. Qed.

Lemma e_get_none_above q m : Forall (N.lt q) (map fst m) -> e_get q m = None.
Proof.
  induction m as [|[k v] m IH]; intros H; [reflexivity|].
  cbn [map fst] in H. inversion H as [|? ? Hk Hm]; subst. cbn [e_get].
  destruct (k =? q) eqn:E; [apply N.eqb_eq in E; lia|]. apply IH, Hm.
Qed.

Lemma Forall_lt_trans x y l : x <= y -> Forall (N.lt y) l -> Forall (N.lt x) l.
Proof. intros Hxy H. rewrite Forall_forall in *. intros z Hz. specialize (H z Hz). lia. Qed.

Lemma d_get_emit q k v X : d_get q (emit k v ++ X) = match v with Some x => if k =? q then Some x else d_get q X | None => d_get q X end.
Proof. destruct v; reflexivity. Qed.

(* point lookups in the merged view: the pending edit wins, a tombstone hides the key *)
Lemma merge_get q : forall d m,
  ksorted (keys d) -> esorted m ->
  d_get q (merge_iter d m) = match e_get q m with Some v => v | None => d_get q d end.
Proof.
  induction d as [|[pk pv] d IHd].
  - intros m _. cbn [merge_iter d_get]. induction m as [|[k v] m IHm]; intros Hm; [reflexivity|].
    unfold esorted in Hm. cbn [map fst] in Hm. apply ksorted_tail in Hm as [Hm Hf].
    cbn [flat_map fst snd e_get]. rewrite d_get_emit. specialize (IHm Hm).
    destruct (k =? q) eqn:E.
    + apply N.eqb_eq in E. subst q. destruct v; [reflexivity|].
      etransitivity; [exact IHm|]. rewrite (e_get_none_above k m Hf). reflexivity.
    + destruct v; exact IHm.
  - intros m Hd. cbn [keys map fst] in Hd. pose proof Hd as Hd0. apply ksorted_tail in Hd as [Hd Hfd].
    induction m as [|[mk mv] m IHm]; intros Hm.
    + rewrite merge_iter_nil_r. reflexivity.
    + unfold esorted in Hm. cbn [map fst] in Hm. pose proof Hm as Hm0. apply ksorted_tail in Hm as [Hm Hfm].
      rewrite merge_iter_cons. destruct (pk <? mk) eqn:E1.
      * apply N.ltb_lt in E1. cbn [d_get e_get].
        destruct (pk =? q) eqn:E.
        -- apply N.eqb_eq in E. subst q.
           replace (mk =? pk) with false by (symmetry; apply N.eqb_neq; lia).
           rewrite (e_get_none_above pk m) by (apply (Forall_lt_trans pk mk); [lia|exact Hfm]). reflexivity.
        -- etransitivity; [exact (IHd ((mk, mv) :: m) Hd Hm0)|]. reflexivity.
      * apply N.ltb_ge in E1. destruct (mk <? pk) eqn:E2.
        -- apply N.ltb_lt in E2. rewrite d_get_emit. specialize (IHm Hm). cbn [e_get].
           destruct (mk =? q) eqn:E.
           ++ apply N.eqb_eq in E. subst q. destruct mv; [reflexivity|].
              etransitivity; [exact IHm|]. rewrite (e_get_none_above mk m Hfm).
              apply d_get_none_above. cbn [keys map fst]. constructor; [exact E2|].
              apply (Forall_lt_trans mk pk); [lia|exact Hfd].
           ++ destruct mv; exact IHm.
        -- apply N.ltb_ge in E2. assert (mk = pk) by lia. subst mk.
           rewrite d_get_emit. cbn [e_get d_get].
           destruct (pk =? q) eqn:E.
           ++ apply N.eqb_eq in E. subst q. destruct mv; [reflexivity|].
              etransitivity; [exact (IHd m Hd Hm)|].
              rewrite (e_get_none_above pk m Hfm). apply d_get_none_above, Hfd.
           ++ destruct mv; exact (IHd m Hd Hm).
Qed.

Lemma keys_emit_lb x k v : x < k -> Forall (N.lt x) (keys (emit k v)).
Proof. intros H. destruct v; cbn; [constructor; [exact H|constructor] | constructor]. Qed.

Lemma merge_lb x : forall d m,
  Forall (N.lt x) (keys d) -> Forall (N.lt x) (map fst m) -> Forall (N.lt x) (keys (merge_iter d m)).
Proof.
  induction d as [|[pk pv] d IHd].
  - intros m _ Hm. cbn [merge_iter]. induction m as [|[k v] m IHm]; [constructor|].
    cbn [map fst] in Hm. inversion Hm as [|? ? Hk Hm']; subst. cbn [flat_map fst snd].
    rewrite keys_app. apply Forall_app. split; [apply keys_emit_lb, Hk | apply IHm, Hm'].
  - intros m Hd. cbn [keys map fst] in Hd. inversion Hd as [|? ? Hpk Hd']; subst.
    induction m as [|[mk mv] m IHm]; intros Hm.
    + rewrite merge_iter_nil_r. exact Hd.
    + cbn [map fst] in Hm. inversion Hm as [|? ? Hmk Hm']; subst.
      rewrite merge_iter_cons. destruct (pk <? mk).
      * cbn [keys map fst]. constructor; [exact Hpk|]. apply (IHd ((mk, mv) :: m) Hd' Hm).
      * destruct (mk <? pk).
        -- rewrite keys_app. apply Forall_app. split; [apply keys_emit_lb, Hmk | apply IHm, Hm'].
        -- rewrite keys_app. apply Forall_app. split; [apply keys_emit_lb, Hmk | apply (IHd m Hd' Hm')].
Qed.

Lemma ksorted_cons_lb a l : Forall (N.lt a) l -> ksorted l -> ksorted (a :: l).
Proof. intros. constructor; assumption. Qed.

Lemma ksorted_emit_app k v X : Forall (N.lt k) (keys X) -> ksorted (keys X) -> ksorted (keys (emit k v ++ X)).
Proof. intros Hf Hs. destruct v; cbn [emit app]; [cbn [keys map fst]; constructor; assumption | exact Hs]. Qed.

Lemma merge_sorted : forall d m, ksorted (keys d) -> esorted m -> ksorted (keys (merge_iter d m)).
Proof.
  induction d as [|[pk pv] d IHd].
  - intros m _. cbn [merge_iter]. induction m as [|[k v] m IHm]; intros Hm; [constructor|].
    unfold esorted in Hm. cbn [map fst] in Hm. apply ksorted_tail in Hm as [Hm Hf].
    cbn [flat_map fst snd]. apply ksorted_emit_app; [|apply IHm, Hm].
    apply (merge_lb k [] m); [constructor|exact Hf].
  - intros m Hd. cbn [keys map fst] in Hd. pose proof Hd as Hd0. apply ksorted_tail in Hd as [Hd Hfd].
    induction m as [|[mk mv] m IHm]; intros Hm.
    + rewrite merge_iter_nil_r. exact Hd0.
    + unfold esorted in Hm. cbn [map fst] in Hm. pose proof Hm as Hm0. apply ksorted_tail in Hm as [Hm Hfm].
      rewrite merge_iter_cons. destruct (pk <? mk) eqn:E1.
      * apply N.ltb_lt in E1. cbn [keys map fst]. constructor; [apply (IHd ((mk, mv) :: m) Hd Hm0)|].
        apply merge_lb; [exact Hfd|]. cbn [map fst]. constructor; [exact E1|].
        apply (Forall_lt_trans pk mk); [lia|exact Hfm].
      * apply N.ltb_ge in E1. destruct (mk <? pk) eqn:E2.
        -- apply N.ltb_lt in E2. apply ksorted_emit_app; [|apply IHm, Hm].
           apply merge_lb; [|exact Hfm]. cbn [keys map fst]. constructor; [exact E2|].
           apply (Forall_lt_trans mk pk); [lia|exact Hfd].
        -- apply N.ltb_ge in E2. assert (mk = pk) by lia. subst mk.
           apply ksorted_emit_app; [|apply (IHd m Hd Hm)]. apply merge_lb; assumption.
Qed.

(* two sorted dictionaries with the same lookups are equal *)
Lemma sorted_ext : forall a b : dict,
  ksorted (keys a) -> ksorted (keys b) -> (forall q, d_get q a = d_get q b) -> a = b.
Proof.
  induction a as [|[ka va] a IH]; intros b Ha Hb H.
  - destruct b as [|[kb vb] b]; [reflexivity|]. specialize (H kb). cbn [d_get] in H. rewrite N.eqb_refl in H. discriminate.
  - cbn [keys map fst] in Ha. apply ksorted_tail in Ha as [Ha Hfa].
    destruct b as [|[kb vb] b].
    + specialize (H ka). cbn [d_get] in H. rewrite N.eqb_refl in H. discriminate.
    + cbn [keys map fst] in Hb. apply ksorted_tail in Hb as [Hb Hfb].
      assert (Hk : ka = kb).
      { destruct (N.lt_trichotomy ka kb) as [Hlt|[Heq|Hgt]]; [|exact Heq|].
        - pose proof (H ka) as H1. cbn [d_get] in H1. rewrite N.eqb_refl in H1.
          replace (kb =? ka) with false in H1 by (symmetry; apply N.eqb_neq; lia).
          rewrite d_get_none_above in H1 by (apply (Forall_lt_trans ka kb); [lia|exact Hfb]). discriminate.
        - pose proof (H kb) as H1. cbn [d_get] in H1. rewrite N.eqb_refl in H1.
          replace (ka =? kb) with false in H1 by (symmetry; apply N.eqb_neq; lia).
          rewrite d_get_none_above in H1 by (apply (Forall_lt_trans kb ka); [lia|exact Hfa]). discriminate. }
      subst kb. pose proof (H ka) as H1. cbn [d_get] in H1. rewrite N.eqb_refl in H1. injection H1 as ->.
      f_equal. apply IH; try assumption. intros q. specialize (H q). cbn [d_get] in H.
      destruct (ka =? q) eqn:E; [|exact H]. apply N.eqb_eq in E. subst q.
      rewrite !d_get_none_above by assumption. reflexivity.
Qed.

Lemma e_insert_lb x k v m : x < k -> Forall (N.lt x) (map fst m) -> Forall (N.lt x) (map fst (e_insert k v m)).
Proof.
  intros Hx. induction m as [|[k' v'] m IH]; intros H; cbn [e_insert].
  - constructor; [exact Hx|constructor].
  - cbn [map fst] in H. inversion H as [|? ? Hk Hm]; subst.
    destruct (k <? k'); [constructor; [exact Hx|exact H]|].
    destruct (k =? k'); [constructor; [exact Hx|exact Hm]|].
    cbn [map fst]. constructor; [exact Hk|apply IH, Hm].
Qed.

Lemma e_insert_sorted k v m : esorted m -> esorted (e_insert k v m).
Proof.
  unfold esorted. induction m as [|[k' v'] m IH]; intros Hs; cbn [e_insert].
  - constructor; constructor.
  - cbn [map fst] in Hs. pose proof Hs as Hs0. apply ksorted_tail in Hs as [Hs Hf].
    destruct (k <? k') eqn:E1.
    + apply N.ltb_lt in E1. cbn [map fst]. constructor; [exact Hs0|].
      constructor; [exact E1|]. apply (Forall_lt_trans k k'); [lia|exact Hf].
    + destruct (k =? k') eqn:E2.
      * apply N.eqb_eq in E2. subst k'. cbn [map fst]. constructor; assumption.
      * apply N.ltb_ge in E1. apply N.eqb_neq in E2. cbn [map fst]. constructor; [apply IH, Hs|].
        apply e_insert_lb; [lia|exact Hf].
Qed.

Lemma e_view_sorted el : esorted (e_view el).
Proof.
  unfold e_view. destruct el as [log cp]. cbn [e_log].
  assert (H : forall l acc, esorted acc -> esorted (fold_left (fun m e => e_insert (fst e) (snd e) m) l acc)).
  { induction l as [|e l IH]; intros acc Ha; [exact Ha|]. cbn [fold_left]. apply IH, e_insert_sorted, Ha. }
  apply H. constructor.
Qed.

(* the contents after ApplyMutations, as a function of the edit log *)
Lemma applied_sorted s el : wf_root s -> ksorted (keys (applied s el)).
Proof. intros Hs. apply merge_sorted; [apply wf_root_sorted, Hs | apply e_view_sorted]. Qed.

Lemma applied_get q s el : wf_root s ->
  d_get q (applied s el) = match e_get q (e_view el) with Some v => v | None => d_get q (flatten s) end.
Proof. intros Hs. apply merge_get; [apply wf_root_sorted, Hs | apply e_view_sorted]. Qed.

Lemma applied_put s el k v : wf_root s -> applied s (e_put k (Some v) el) = d_put k v (applied s el).
Proof.
  intros Hs. apply sorted_ext; [apply applied_sorted, Hs | apply d_put_sorted, applied_sorted, Hs|].
  intros q. rewrite applied_get, e_view_put, e_get_insert, d_get_put, applied_get by exact Hs.
  destruct (k =? q); reflexivity.
Qed.

Lemma applied_del s el k : wf_root s -> applied s (e_put k None el) = d_del k (applied s el).
Proof.
  intros Hs. apply sorted_ext; [apply applied_sorted, Hs | apply d_del_sorted, applied_sorted, Hs|].
  intros q. rewrite applied_get, e_view_put, e_get_insert by exact Hs.
  rewrite (d_get_del q k _ (applied_sorted s el Hs)), applied_get by exact Hs.
  destruct (k =? q); reflexivity.
Qed.

Lemma applied_empty s : applied s e_empty = flatten s.
Proof. unfold applied. cbn. apply merge_iter_nil_r. Qed.

(* ---- generic facts about filters on key-indexed lists ------------------------ *)

Lemma filter_keys_lb {B} x (f : key * B -> bool) (l : list (key * B)) :
  Forall (N.lt x) (map fst l) -> Forall (N.lt x) (map fst (filter f l)).
Proof.
  induction l as [|e l IH]; intros H; [constructor|]. cbn [map] in H. inversion H as [|? ? He Hl]; subst.
  cbn [filter]. destruct (f e); [cbn [map]; constructor; [exact He|apply IH, Hl] | apply IH, Hl].
Qed.

Lemma filter_ksorted {B} (f : key * B -> bool) (l : list (key * B)) :
  ksorted (map fst l) -> ksorted (map fst (filter f l)).
Proof.
  induction l as [|e l IH]; intros H; [constructor|]. cbn [map] in H. apply ksorted_tail in H as [Hs Hf].
  cbn [filter]. destruct (f e); [cbn [map]; constructor; [apply IH, Hs | apply filter_keys_lb, Hf] | apply IH, Hs].
Qed.

Lemma d_get_filter (P : key -> bool) q (l : dict) :
  d_get q (filter (fun e => P (fst e)) l) = if P q then d_get q l else None.
Proof.
  induction l as [|[k v] l IH]; [destruct (P q); reflexivity|].
  cbn [filter fst]. destruct (P k) eqn:Ek; cbn [d_get].
  - destruct (k =? q) eqn:E; [apply N.eqb_eq in E; subst q; rewrite Ek; reflexivity | exact IH].
  - rewrite IH. destruct (k =? q) eqn:E; [apply N.eqb_eq in E; subst q; rewrite Ek; reflexivity | reflexivity].
Qed.

Lemma e_get_filter (P : key -> bool) q (l : list edit) :
  e_get q (filter (fun e => P (fst e)) l) = if P q then e_get q l else None.
Proof.
  induction l as [|[k v] l IH]; [destruct (P q); reflexivity|].
  cbn [filter fst]. destruct (P k) eqn:Ek; cbn [e_get].
  - destruct (k =? q) eqn:E; [apply N.eqb_eq in E; subst q; rewrite Ek; reflexivity | exact IH].
  - rewrite IH. destruct (k =? q) eqn:E; [apply N.eqb_eq in E; subst q; rewrite Ek; reflexivity | reflexivity].
Qed.

Lemma find_emit_skip (P : key -> bool) k v X :
  P k = false -> find (fun e : kv => P (fst e)) (emit k v ++ X) = find (fun e => P (fst e)) X.
Proof. intros H. destruct v; cbn [emit app find fst]; [rewrite H|]; reflexivity. Qed.

(* a key predicate that no pending edit satisfies is answered from the flushed tree *)
Lemma merge_find (P : key -> bool) : forall d m,
  Forall (fun e : edit => P (fst e) = false) m ->
  find (fun e => P (fst e)) (merge_iter d m) = find (fun e => P (fst e)) d.
Proof.
  induction d as [|[pk pv] d IHd].
  - intros m Hm. cbn [merge_iter find]. induction Hm as [|[k v] m Hk _ IH]; [reflexivity|].
    cbn [flat_map fst snd]. cbn [fst] in Hk. rewrite (find_emit_skip P k v _ Hk). exact IH.
  - intros m Hm. induction Hm as [|[mk mv] m Hk Hm IHm].
    + rewrite merge_iter_nil_r. reflexivity.
    + cbn [fst] in Hk. rewrite merge_iter_cons. destruct (pk <? mk) eqn:E1.
      * cbn [find fst]. destruct (P pk); [reflexivity|]. apply (IHd ((mk, mv) :: m)). constructor; assumption.
      * destruct (mk <? pk) eqn:E2.
        -- rewrite (find_emit_skip P mk mv _ Hk). exact IHm.
        -- rewrite (find_emit_skip P mk mv _ Hk). cbn [find fst].
           assert (mk = pk).
           { destruct (N.lt_trichotomy pk mk) as [H|[H|H]]; [|symmetry; exact H|].
             - apply N.ltb_lt in H. congruence.
             - apply N.ltb_lt in H. congruence. }
           subst mk. rewrite Hk. apply (IHd m Hm).
Qed.

(* ---- the side condition on histories ------------------------------------------- *)

(* does this operation flush the buffer? (Put: the automatic flush above maxPending) *)
Definition op_flushes (m : mmap) (o : mop) : bool :=
  match o with
  | MPut k v => Nat.ltb (m_maxp m) (e_count (e_put k (Some v) (m_edits m)))
  | MFlush _ => true
  | _ => false
  end.

(* Histories on which the code is right: no Revert is governed by a checkpoint
   (creating the mutable map counts as one) that a flush has crossed.  `dirty` =
   some flush happened since the last Checkpoint.  Decidable: it is computed by
   running the model.  The two refuted Revert scenarios (checkpoint on an empty
   buffer + flush + Revert; Revert, writes, Revert after a stashed checkpoint)
   are exactly of the excluded kind: both revert across a flush. *)
Fixpoint hist_ok (rb : list kv -> node) (m : mmap) (dirty : bool) (ops : list mop) : bool :=
  match ops with
  | [] => true
  | o :: ops' =>
    let m' := mop_step rb m o in
    match o with
    | MRevert => negb dirty && hist_ok rb m' dirty ops'
    | MCheckpoint => hist_ok rb m' false ops'
    | _ => hist_ok rb m' (dirty || op_flushes m o) ops'
    end
  end.

Lemma applied_log_eq s a b : e_log a = e_log b -> applied s a = applied s b.
Proof. intros H. unfold applied, e_view. rewrite H. reflexivity. Qed.

Section Refines.
  Variable rb : list kv -> node.
  Hypothesis Hrb : rb_ok rb.

  (* the refinement relation *)
  Definition rinv (m : mmap) (s : astate) (dirty : bool) : Prop :=
    wf_root (m_static m)
    /\ fst s = applied (m_static m) (m_edits m)
    /\ (e_cp (m_edits m) <= length (e_log (m_edits m)))%nat
    /\ (dirty = false -> m_stash m = None /\ snd s = applied (m_static m) (e_revert (m_edits m))).

  Lemma rb_applied s el : wf_root s -> wf_root (rb (applied s el)) /\ flatten (rb (applied s el)) = applied s el.
  Proof. intros Hs. apply Hrb, applied_sorted, Hs. Qed.

  Lemma flush_rinv deep m s dirty : rinv m s dirty -> rinv (flush rb deep m) s true.
  Proof.
    intros (Hwf & Hcur & Hcp & _). destruct (rb_applied (m_static m) (m_edits m) Hwf) as (Hw' & Hf').
    unfold rinv, flush. cbn [m_static m_edits e_empty e_cp e_log length].
    split; [exact Hw'|]. split; [|split; [lia|discriminate]].
    rewrite Hcur. unfold applied at 2. rewrite Hf'. cbn [e_view e_log fold_left]. symmetry. apply merge_iter_nil_r.
  Qed.

  Lemma firstn_app_le {A} n (l x : list A) : (n <= length l)%nat -> firstn n (l ++ x) = firstn n l.
  Proof. intros H. rewrite firstn_app. replace (n - length l)%nat with O by lia. cbn [firstn]. apply app_nil_r. Qed.

  Lemma step_rinv m s dirty o :
    rinv m s dirty -> (match o with MRevert => dirty = false | _ => True end) ->
    rinv (mop_step rb m o) (a_step s (mop_abs o))
         (match o with MRevert => dirty | MCheckpoint => false | _ => dirty || op_flushes m o end).
  Proof.
    intros Hinv Hok. pose proof Hinv as (Hwf & Hcur & Hcp & Hchk). destruct s as [cur chk]. cbn [fst snd] in *.
    destruct o as [k v|k| | |deep]; cbn [mop_step mop_abs a_step fst snd op_flushes].
    - (* Put *)
      unfold put. cbn [m_maxp m_edits].
      set (m1 := {| m_static := m_static m; m_edits := e_put k (Some v) (m_edits m);
                    m_stash := m_stash m; m_maxp := m_maxp m |}).
      assert (H1 : rinv m1 (d_put k v cur, chk) dirty).
      { unfold rinv, m1. cbn [m_static m_edits m_stash fst snd e_put e_cp e_log].
        split; [exact Hwf|]. split; [|split].
        - rewrite Hcur. symmetry. apply (applied_put _ _ _ _ Hwf).
        - rewrite app_length. lia.
        - intros Hd. destruct (Hchk Hd) as (Hst & Hc). split; [exact Hst|]. rewrite Hc.
          apply applied_log_eq. cbn [e_revert e_log e_cp]. symmetry. apply firstn_app_le, Hcp. }
      destruct (Nat.ltb (m_maxp m) (e_count (e_put k (Some v) (m_edits m)))) eqn:Ef.
      + rewrite orb_true_r. apply (flush_rinv false m1 _ dirty H1).
      + rewrite orb_false_r. exact H1.
    - (* Delete *)
      rewrite orb_false_r. unfold rinv, delete. cbn [m_static m_edits m_stash fst snd e_put e_cp e_log].
      split; [exact Hwf|]. split; [|split].
      + rewrite Hcur. symmetry. apply (applied_del _ _ _ Hwf).
      + rewrite app_length. lia.
      + intros Hd. destruct (Hchk Hd) as (Hst & Hc). split; [exact Hst|]. rewrite Hc.
        apply applied_log_eq. cbn [e_revert e_log e_cp]. symmetry. apply firstn_app_le, Hcp.
    - (* Checkpoint *)
      unfold rinv, checkpoint. cbn [m_static m_edits m_stash fst snd e_checkpoint e_cp e_log].
      split; [exact Hwf|]. split; [|split].
      + rewrite Hcur. apply applied_log_eq. reflexivity.
      + lia.
      + intros _. split; [reflexivity|]. rewrite Hcur. apply applied_log_eq.
        cbn [e_revert e_log e_cp]. symmetry. apply firstn_all.
    - (* Revert: only with no flush since the checkpoint *)
      destruct (Hchk Hok) as (Hst & Hc). unfold revert. rewrite Hst.
      unfold rinv. cbn [m_static m_edits m_stash fst snd e_revert e_cp e_log].
      split; [exact Hwf|]. split; [exact Hc|]. split.
      + rewrite firstn_length. lia.
      + intros _. split; [reflexivity|]. rewrite Hc. apply applied_log_eq.
        cbn [e_revert e_log e_cp]. rewrite firstn_firstn. rewrite Nat.min_id. reflexivity.
    - (* explicit flush *)
      rewrite orb_true_r. apply (flush_rinv deep m _ dirty Hinv).
  Qed.

  Lemma run_rinv ops : forall m s dirty,
    rinv m s dirty -> hist_ok rb m dirty ops = true ->
    exists dirty', rinv (fold_left (mop_step rb) ops m) (fold_left a_step (map mop_abs ops) s) dirty'.
  Proof.
    induction ops as [|o ops IH]; intros m s dirty Hinv Hok; [exists dirty; exact Hinv|].
    cbn [fold_left map]. cbn [hist_ok] in Hok.
    destruct o as [k v|k| | |deep].
    - apply (IH _ _ _ (step_rinv m s dirty (MPut k v) Hinv I) Hok).
    - apply (IH _ _ _ (step_rinv m s dirty (MDel k) Hinv I) Hok).
    - apply (IH _ _ _ (step_rinv m s dirty MCheckpoint Hinv I) Hok).
    - apply andb_true_iff in Hok as [Hd Hok]. apply negb_true_iff in Hd.
      apply (IH _ _ _ (step_rinv m s dirty MRevert Hinv Hd) Hok).
    - apply (IH _ _ _ (step_rinv m s dirty (MFlush deep) Hinv I) Hok).
  Qed.

  (* ---- reads under the invariant ----------------------------------------------- *)

  Lemma rinv_get m s dirty q : rinv m s dirty -> m_get q m = d_get q (fst s).
  Proof.
    intros (Hwf & Hcur & _). rewrite Hcur, (applied_get q _ _ Hwf). unfold m_get.
    destruct (e_get q (e_view (m_edits m))); [reflexivity|]. apply get_spec, Hwf.
  Qed.

  Lemma in_range_same lo hi k : in_range lo hi k = d_in_range lo hi k.
  Proof. reflexivity. Qed.

  Lemma rinv_iter_range m s dirty lo hi : rinv m s dirty -> m_iter_range lo hi m = d_range lo hi (fst s).
  Proof.
    intros (Hwf & Hcur & _). unfold m_iter_range. rewrite (iter_window_spec lo hi _ Hwf). rewrite Hcur.
    pose proof (wf_root_sorted _ Hwf) as Hs. pose proof (e_view_sorted (m_edits m)) as He.
    apply sorted_ext.
    - apply merge_sorted; [apply filter_ksorted, Hs | apply filter_ksorted, He].
    - apply filter_ksorted, applied_sorted, Hwf.
    - intros q. rewrite merge_get by (first [apply filter_ksorted, Hs | apply filter_ksorted, He]).
      unfold d_range. rewrite (e_get_filter (in_range lo hi)), !(d_get_filter (d_in_range lo hi)).
      rewrite (applied_get q _ _ Hwf). rewrite in_range_same. destruct (d_in_range lo hi q); [|reflexivity].
      reflexivity.
  Qed.

  Lemma rinv_iter_all m s dirty : rinv m s dirty -> m_iter_all m = fst s.
  Proof.
    intros H. unfold m_iter_all. rewrite (rinv_iter_range m s dirty None None H).
    unfold d_range. apply filter_all_true. rewrite Forall_forall. reflexivity.
  Qed.

  Definition no_pending_with (P : key -> bool) (m : mmap) : Prop :=
    Forall (fun e : edit => P (fst e) = false) (e_view (m_edits m)).

  Lemma seek_prefix_miss pre a l :
    Forall (fun e : edit => (pre (fst e) =? a) = false) l ->
    match e_seek_prefix pre a l with Some (k, _) => (pre k =? a) = false | None => True end.
  Proof.
    induction 1 as [|[k v] l Hk _ IH]; [exact I|]. cbn [e_seek_prefix]. cbn [fst] in Hk.
    destruct (pre k <? a); [exact IH | exact Hk].
  Qed.

  Lemma rinv_get_prefix m s dirty pre a :
    rinv m s dirty -> pre_monotone pre -> no_pending_with (fun k => pre k =? a) m ->
    m_get_prefix pre a m = d_get_prefix pre a (fst s) /\ m_has_prefix pre a m = d_has_prefix pre a (fst s).
  Proof.
    intros (Hwf & Hcur & _) Hp Hno. unfold no_pending_with in Hno.
    pose proof (seek_prefix_miss pre a _ Hno) as Hmiss.
    assert (Hfind : d_get_prefix pre a (fst s) = d_get_prefix pre a (flatten (m_static m))).
    { rewrite Hcur. unfold d_get_prefix, applied. apply (merge_find (fun k => pre k =? a) _ _ Hno). }
    split.
    - unfold m_get_prefix. rewrite Hfind, <- (get_prefix_spec pre a _ Hp Hwf).
      destruct (e_seek_prefix pre a (e_view (m_edits m))) as [[k v]|]; [rewrite Hmiss|]; reflexivity.
    - assert (Hex : forall l : dict, d_has_prefix pre a l = match d_get_prefix pre a l with Some _ => true | None => false end).
      { intros l. unfold d_has_prefix, d_get_prefix. induction l as [|e l IHl]; [reflexivity|].
        cbn [existsb find]. destruct (pre (fst e) =? a); [reflexivity|exact IHl]. }
      unfold m_has_prefix. rewrite Hex, Hfind, <- Hex, <- (has_prefix_spec pre a _ Hp Hwf).
      destruct (e_seek_prefix pre a (e_view (m_edits m))) as [[k v]|]; [rewrite Hmiss|]; reflexivity.
  Qed.

  Lemma rinv_iter_key_range m s dirty lo hi :
    rinv m s dirty -> e_view (m_edits m) = [] -> start_past_end_open_stop lo hi (m_static m) = false ->
    m_iter_key_range lo hi m = Some (d_range lo hi (fst s)).
  Proof.
    intros (Hwf & Hcur & _) He Hok. unfold m_iter_key_range. rewrite (iter_key_range_spec lo hi _ Hwf Hok).
    rewrite Hcur. unfold applied. rewrite He, merge_iter_nil_r. reflexivity.
  Qed.

  (* THE REFINEMENT: for every operation sequence satisfying the (decidable) side
     condition, every read of the mutable map is the read of the dictionary
     obtained by applying the operations to flatten t. The hypotheses on the
     prefix reads and on IterKeyRange are exactly the negations of the refuted
     configurations (a pending edit with that prefix; any pending edit). *)
  Theorem mutable_refines t maxp ops :
    wf_root t -> hist_ok rb (mutate t maxp) false ops = true ->
    let m := run_m rb t maxp ops in
    let d := dict_after t ops in
    (forall q, m_get q m = d_get q d /\ m_has q m = d_has q d)
    /\ m_iter_all m = d
    /\ (forall lo hi, m_iter_range lo hi m = d_range lo hi d)
    /\ (wf_root (materialize rb m) /\ flatten (materialize rb m) = d)
    /\ (forall pre a, pre_monotone pre -> no_pending_with (fun k => pre k =? a) m ->
          m_get_prefix pre a m = d_get_prefix pre a d /\ m_has_prefix pre a m = d_has_prefix pre a d)
    /\ (forall lo hi, e_view (m_edits m) = [] -> start_past_end_open_stop lo hi (m_static m) = false ->
          m_iter_key_range lo hi m = Some (d_range lo hi d)).
  Proof.
    intros Hwf Hok m d.
    assert (H0 : rinv (mutate t maxp) (flatten t, flatten t) false).
    { unfold rinv, mutate. cbn [m_static m_edits m_stash fst snd e_empty e_cp e_log length].
      split; [exact Hwf|]. split; [symmetry; apply applied_empty|]. split; [lia|].
      intros _. split; [reflexivity|]. symmetry. apply applied_empty. }
    destruct (run_rinv ops _ _ _ H0 Hok) as (dirty' & Hinv).
    fold (run_m rb t maxp ops) in Hinv. fold m in Hinv.
    change (fold_left a_step (map mop_abs ops) (flatten t, flatten t)) with (a_run (flatten t) (map mop_abs ops)) in Hinv.
    assert (Hd : d = fst (a_run (flatten t) (map mop_abs ops))) by reflexivity.
    rewrite Hd. split; [|split; [|split; [|split; [|split]]]].
    - intros q. split; [apply (rinv_get _ _ _ q Hinv)|].
      pose proof Hinv as (Hw & _). rewrite (m_has_get q m Hw), (rinv_get _ _ _ q Hinv). reflexivity.
    - apply (rinv_iter_all _ _ _ Hinv).
    - intros lo hi. apply (rinv_iter_range _ _ _ lo hi Hinv).
    - destruct Hinv as (Hw & Hcur & _). unfold materialize. rewrite Hcur. apply (rb_applied _ _ Hw).
    - intros pre a Hp Hno. apply (rinv_get_prefix _ _ _ pre a Hinv Hp Hno).
    - intros lo hi He Hs. apply (rinv_iter_key_range _ _ _ lo hi Hinv He Hs).
  Qed.
End Refines.

(* the side condition is satisfiable, also with flushes, checkpoints and reverts *)
Example hist_ok_example :
  hist_ok rb_leaf (mutate (Leaf [(16, 1)]) 2) false
          [MPut 1 1; MPut 2 2; MPut 3 3; MCheckpoint; MDel 2; MPut 9 9; MRevert; MFlush true; MCheckpoint; MPut 4 4; MRevert] = true.
Proof. vm_compute. reflexivity. Qed.

(* ... and excludes the two refuted Revert histories *)
Example hist_ok_excludes :
  hist_ok rb_leaf (mutate (Leaf [(16, 1)]) 2) false [MCheckpoint; MPut 1 1; MPut 2 2; MPut 3 3; MRevert] = false
  /\ hist_ok rb_leaf (mutate (Leaf [(16, 1)]) 2) false
       [MPut 1 1; MCheckpoint; MPut 2 2; MPut 3 3; MPut 4 4; MRevert; MPut 5 5; MRevert] = false.
Proof. vm_compute. split; reflexivity. Qed.

Lemma rb_leaf_ok : rb_ok rb_leaf.
Proof.
  intros l Hs. split; [|reflexivity]. destruct l as [|e l]; [left; reflexivity|].
  right. split; [reflexivity|exact Hs].
Qed.
