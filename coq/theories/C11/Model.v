(* C11 — model of the prolly map read API (go/store/prolly/tree/map.go,
   tuple_map.go) and of the mutable map (tuple_mutable_map.go,
   tree/mutable_map.go, skip/list.go, tuple_range_iter.go) on the shared tree
   model.  No proofs in this file. *)
From Coq Require Import NArith List Bool.
From Dolt Require Import Prolly.Tree Prolly.Cursor.
Import ListNotations.
Local Open Scope N_scope.

(* ---------------------------------------------------------------------- *)
(* StaticMap                                                                *)
(* ---------------------------------------------------------------------- *)

(* "query <= k": order.Compare(query, k) <= 0, the predicate of searchForKey *)
Definition le_q (q : key) : key -> bool := fun k => q <=? k.

(* StaticMap.Get: newLeafCursorAtKey; if Valid and Compare(query, key) == 0 *)
Definition get (q : key) (t : node) : option val :=
  match lookup_at (le_q q) t with
  | Some (k, v) => if k =? q then Some v else None
  | None => None
  end.

(* StaticMap.Has *)
Definition has (q : key) (t : node) : bool :=
  match lookup_at (le_q q) t with
  | Some (k, _) => k =? q
  | None => false
  end.

(* StaticMap.GetPrefix with prefixOrder: `pre k` is the projection of a key on
   the prefix columns; prefixOrder.Compare(query, k) = compare query (pre k) *)
Definition get_prefix (pre : key -> N) (a : N) (t : node) : option kv :=
  match lookup_at (fun k => a <=? pre k) t with
  | Some (k, v) => if pre k =? a then Some (k, v) else None
  | None => None
  end.

(* StaticMap.HasPrefix *)
Definition has_prefix (pre : key -> N) (a : N) (t : node) : bool :=
  match lookup_at (fun k => a <=? pre k) t with
  | Some (k, _) => pre k =? a
  | None => false
  end.

(* StaticMap.Count: Root.TreeCount() *)
Definition count_of (t : node) : N := cached_count t.

(* StaticMap.LastKey: if Root.Count() > 0 then getLastKey(Root) *)
Definition last_key (t : node) : option key :=
  if node_len t =? 0 then None else Some (node_last_key t).

(* StaticMap.IterAll: cursor at start .. cursor past end *)
Definition iter_all (t : node) : list kv := slice t 0 (cached_count t).

(* StaticMap.IterAllReverse *)
Definition iter_all_reverse (t : node) : list kv := rev_flatten t.

(* getKeyRangeCursors + getOrdinalOfCursor: empty bound = start / past end *)
Definition lo_ord (lo : option key) (t : node) : N :=
  match lo with None => 0 | Some q => ordinal_of (le_q q) t end.
Definition hi_ord (hi : option key) (t : node) : N :=
  match hi with None => cached_count t | Some q => ordinal_of (le_q q) t end.

(* The two kinds of end cursor disagree in trees with internal nodes:
   newCursorAtKey(q) for q above every key stops at (last child, ..., leaf idx =
   count), newCursorPastEnd has idx = count at *every* level, and compareCursors
   looks at the root level first: (count-1) - count < 0, so the start cursor is
   "before" the stop cursor although it is not Valid, and OrderedTreeIter.Next
   reads leaf item [count]. *)
Definition start_past_end_open_stop (lo hi : option key) (t : node) : bool :=
  match lo, hi, t with
  | Some q, None, Inner _ => cached_count t <=? ordinal_of (le_q q) t
  | _, _, _ => false
  end.

(* StaticMap.IterKeyRange [start, stop): empty when stopF(lo) already holds.
   None = the iterator indexes a leaf out of bounds (a panic in practice). *)
Definition iter_key_range (lo hi : option key) (t : node) : option (list kv) :=
  let a := lo_ord lo t in let b := hi_ord hi t in
  if start_past_end_open_stop lo hi t then None
  else Some (if b <=? a then [] else slice t a b).

(* the same window reached through search-function cursors on both ends
   (OrderedTreeIterFromCursors: treeIterFromRange), which are of one kind *)
Definition iter_window (lo hi : option key) (t : node) : list kv :=
  let a := lo_ord lo t in let b := hi_ord hi t in
  if b <=? a then [] else slice t a b.

(* StaticMap.GetKeyRangeCardinality: 0 when startOrd > endOrd *)
Definition key_range_cardinality (lo hi : option key) (t : node) : N :=
  let a := lo_ord lo t in let b := hi_ord hi t in
  if b <? a then 0 else b - a.

(* StaticMap.GetOrdinalForKey *)
Definition ordinal_for_key (q : key) (t : node) : N := ordinal_of (le_q q) t.

(* StaticMap.IterOrdinalRange / FetchOrdinalRange: None = the returned error
   (stop < start, or stop > count) *)
Definition iter_ordinal_range (a b : N) (t : node) : option (list kv) :=
  if b =? a then Some []
  else if b <? a then None
  else if cached_count t <? b then None
  else Some (slice t a b).

(* ---------------------------------------------------------------------- *)
(* skip.List: an append-only node array plus a checkpoint index             *)
(* ---------------------------------------------------------------------- *)

Definition edit := (key * option val)%type.     (* None = tombstone (Delete) *)

(* e_log: nodes[1:] in insertion order (an overwrite appends a node too);
   e_cp : checkpoint - 1 *)
Record elist := { e_log : list edit; e_cp : nat }.
Definition e_empty : elist := {| e_log := []; e_cp := 0 |}.

(* the linked order of the list: sorted by key, last write wins *)
Fixpoint e_insert (k : key) (v : option val) (m : list edit) : list edit :=
  match m with
  | [] => [(k, v)]
  | (k', v') :: m' =>
    if k <? k' then (k, v) :: m
    else if k =? k' then (k, v) :: m'
    else (k', v') :: e_insert k v m'
  end.

Definition e_view (el : elist) : list edit :=
  fold_left (fun m e => e_insert (fst e) (snd e) m) (e_log el) [].

Definition e_count (el : elist) : nat := length (e_view el).                     (* List.Count *)
Definition e_put (k : key) (v : option val) (el : elist) : elist :=             (* List.Put *)
  {| e_log := e_log el ++ [(k, v)]; e_cp := e_cp el |}.
Definition e_checkpoint (el : elist) : elist :=                                 (* List.Checkpoint *)
  {| e_log := e_log el; e_cp := length (e_log el) |}.
Definition e_has_checkpoint (el : elist) : bool := negb (Nat.eqb (e_cp el) 0).  (* checkpoint > 1 *)
Definition e_revert (el : elist) : elist :=                                     (* List.Revert *)
  {| e_log := firstn (e_cp el) (e_log el); e_cp := e_cp el |}.

Fixpoint e_get (q : key) (m : list edit) : option (option val) :=               (* List.Get *)
  match m with
  | [] => None
  | (k, v) :: m' => if k =? q then Some v else e_get q m'
  end.

(* ---------------------------------------------------------------------- *)
(* mutableMapIter.Next: merge of the tree iterator and the edit iterator,    *)
(* the edit wins on equal keys, tombstones are skipped                        *)
(* ---------------------------------------------------------------------- *)

Definition emit (k : key) (v : option val) : list kv :=
  match v with Some x => [(k, x)] | None => [] end.

Fixpoint merge_iter (ts : list kv) (ms : list edit) : list kv :=
  match ts with
  | [] => flat_map (fun e => emit (fst e) (snd e)) ms
  | (pk, pv) :: ts' =>
    (fix inner (ms : list edit) : list kv :=
       match ms with
       | [] => ts
       | (mk, mv) :: ms' =>
         if pk <? mk then (pk, pv) :: merge_iter ts' ms
         else if mk <? pk then emit mk mv ++ inner ms'
         else emit mk mv ++ merge_iter ts' ms'
       end) ms
  end.

(* ---------------------------------------------------------------------- *)
(* GenericMutableMap                                                         *)
(* ---------------------------------------------------------------------- *)

(* The stash holds a tree.MutableMap value. After `mut.tuples = *mut.stash`
   (Revert) the stash and the live map share one *skip.List: SAlias. *)
Inductive stash_edits := SOwn (el : elist) | SAlias.

Record mmap := {
  m_static : node;
  m_edits : elist;
  m_stash : option (node * stash_edits);
  m_maxp : nat
}.

Section WithRebuild.
  (* tree.ApplyMutations / the chunker: some tree holding exactly the given
     sorted contents. Incidental (C12 is about it); fed from the implementation
     in the correspondence. *)
  Variable rb : list kv -> node.

  Definition mutate (t : node) (maxp : nat) : mmap :=                  (* Map.Mutate + WithMaxPending *)
    {| m_static := t; m_edits := e_empty; m_stash := None; m_maxp := maxp |}.

  (* contents after ApplyMutations(static, edits) *)
  Definition applied (t : node) (el : elist) : list kv := merge_iter (flatten t) (e_view el).

  (* flushPending(deep) *)
  Definition flush (deep : bool) (m : mmap) : mmap :=
    let stash' :=
      if e_has_checkpoint (m_edits m) then
        let cp := e_revert (m_edits m) in
        if deep then Some (rb (applied (m_static m) cp), SOwn e_empty)
        else Some (m_static m, SOwn cp)
      else m_stash m in
    {| m_static := rb (applied (m_static m) (m_edits m));
       m_edits := e_empty; m_stash := stash'; m_maxp := m_maxp m |}.

  Definition put (k : key) (v : val) (m : mmap) : mmap :=
    let m' := {| m_static := m_static m; m_edits := e_put k (Some v) (m_edits m);
                 m_stash := m_stash m; m_maxp := m_maxp m |} in
    if Nat.ltb (m_maxp m) (e_count (m_edits m')) then flush false m' else m'.

  Definition delete (k : key) (m : mmap) : mmap :=
    {| m_static := m_static m; m_edits := e_put k None (m_edits m);
       m_stash := m_stash m; m_maxp := m_maxp m |}.

  Definition checkpoint (m : mmap) : mmap :=
    {| m_static := m_static m; m_edits := e_checkpoint (m_edits m);
       m_stash := None; m_maxp := m_maxp m |}.

  Definition revert (m : mmap) : mmap :=
    match m_stash m with
    | Some (s, SOwn el) =>
      {| m_static := s; m_edits := el; m_stash := Some (s, SAlias); m_maxp := m_maxp m |}
    | Some (s, SAlias) =>
      {| m_static := s; m_edits := m_edits m; m_stash := m_stash m; m_maxp := m_maxp m |}
    | None =>
      {| m_static := m_static m; m_edits := e_revert (m_edits m);
         m_stash := None; m_maxp := m_maxp m |}
    end.

  (* GenericMutableMap.Map *)
  Definition materialize (m : mmap) : node := rb (applied (m_static m) (m_edits m)).
End WithRebuild.

(* tree.MutableMap.Get *)
Definition m_get (q : key) (m : mmap) : option val :=
  match e_get q (e_view (m_edits m)) with
  | Some v => v
  | None => get q (m_static m)
  end.

(* tree.MutableMap.Has *)
Definition m_has (q : key) (m : mmap) : bool :=
  match e_get q (e_view (m_edits m)) with
  | Some (Some _) => true
  | Some None => false
  | None => has q (m_static m)
  end.

(* GetIterFromSeekFn(advance while prefixOrder.Compare(k, key) < 0) *)
Fixpoint e_seek_prefix (pre : key -> N) (a : N) (m : list edit) : option edit :=
  match m with
  | [] => None
  | (k, v) :: m' => if pre k <? a then e_seek_prefix pre a m' else Some (k, v)
  end.

(* tree.MutableMap.GetPrefix *)
Definition m_get_prefix (pre : key -> N) (a : N) (m : mmap) : option kv :=
  match e_seek_prefix pre a (e_view (m_edits m)) with
  | Some (k, v) =>
    if pre k =? a then match v with Some x => Some (k, x) | None => None end
    else get_prefix pre a (m_static m)
  | None => get_prefix pre a (m_static m)
  end.

(* tree.MutableMap.HasPrefix *)
Definition m_has_prefix (pre : key -> N) (a : N) (m : mmap) : bool :=
  match e_seek_prefix pre a (e_view (m_edits m)) with
  | Some (k, v) =>
    if pre k =? a then match v with Some _ => true | None => false end
    else has_prefix pre a (m_static m)
  | None => has_prefix pre a (m_static m)
  end.

Definition in_range (lo hi : option key) (k : key) : bool :=
  match lo with None => true | Some l => l <=? k end
  && match hi with None => true | Some h => k <? h end.

(* GenericMutableMap.IterRange for a range lo <= k < hi: treeIterFromRange
   (start/stop search cursors) merged with memIterFromRange *)
Definition m_iter_range (lo hi : option key) (m : mmap) : list kv :=
  merge_iter (iter_window lo hi (m_static m))
             (filter (fun e => in_range lo hi (fst e)) (e_view (m_edits m))).

(* GenericMutableMap.IterAll: IterRange with no bounds *)
Definition m_iter_all (m : mmap) : list kv := m_iter_range None None m.

(* GenericMutableMap.IterKeyRange: `return mut.tuples.Static.IterKeyRange(...)` —
   as written, only the flushed tree is consulted *)
Definition m_iter_key_range (lo hi : option key) (m : mmap) : option (list kv) :=
  iter_key_range lo hi (m_static m).

(* GenericMutableMap.HasEdits *)
Definition m_has_edits (m : mmap) : bool := negb (Nat.eqb (e_count (m_edits m)) 0).
