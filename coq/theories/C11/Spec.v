(* C11 — the sorted dictionary a prolly map must behave like: an association
   list sorted by key, and the abstract (current, checkpoint) state machine of
   the mutable map.  Independent of trees, cursors and edit buffers. *)
From Coq Require Import NArith List Bool.
From Dolt Require Import Prolly.Tree.
Import ListNotations.
Local Open Scope N_scope.

Definition dict := list kv.

Fixpoint d_get (q : key) (d : dict) : option val :=
  match d with
  | [] => None
  | (k, v) :: d' => if k =? q then Some v else d_get q d'
  end.

Definition d_has (q : key) (d : dict) : bool :=
  match d_get q d with Some _ => true | None => false end.

(* first entry whose key has the given prefix *)
Definition d_get_prefix (pre : key -> N) (a : N) (d : dict) : option kv :=
  find (fun e => pre (fst e) =? a) d.

Definition d_has_prefix (pre : key -> N) (a : N) (d : dict) : bool :=
  existsb (fun e => pre (fst e) =? a) d.

Definition d_in_range (lo hi : option key) (k : key) : bool :=
  match lo with None => true | Some l => l <=? k end
  && match hi with None => true | Some h => k <? h end.

(* entries with lo <= key < hi, ascending; empty bound = unbounded *)
Definition d_range (lo hi : option key) (d : dict) : dict :=
  filter (fun e => d_in_range lo hi (fst e)) d.

Definition d_cardinality (lo hi : option key) (d : dict) : N :=
  N.of_nat (length (d_range lo hi d)).

(* number of keys smaller than q *)
Definition d_ordinal (q : key) (d : dict) : N :=
  N.of_nat (length (filter (fun e => fst e <? q) d)).

Definition d_count (d : dict) : N := N.of_nat (length d).

Definition d_last (d : dict) : option key :=
  match d with [] => None | _ => Some (last (map fst d) 0) end.

(* entries at positions a .. b-1: empty for a = b; an error (None) for b < a
   or b > count *)
Definition d_ordinal_range (a b : N) (d : dict) : option dict :=
  if b =? a then Some []
  else if (a <=? b) && (b <=? d_count d)
  then Some (firstn (N.to_nat (b - a)) (skipn (N.to_nat a) d))
  else None.

Fixpoint d_put (k : key) (v : val) (d : dict) : dict :=
  match d with
  | [] => [(k, v)]
  | (k', v') :: d' =>
    if k <? k' then (k, v) :: d
    else if k =? k' then (k, v) :: d'
    else (k', v') :: d_put k v d'
  end.

Fixpoint d_del (k : key) (d : dict) : dict :=
  match d with
  | [] => []
  | (k', v') :: d' => if k =? k' then d' else (k', v') :: d_del k d'
  end.

(* the abstract mutable map: current contents and the checkpoint.  Creating
   the mutable map counts as the first checkpoint. Flushing is invisible. *)
Inductive aop := APut (k : key) (v : val) | ADel (k : key) | ACheckpoint | ARevert | AFlush.

Definition astate := (dict * dict)%type.      (* current, checkpoint *)

Definition a_step (s : astate) (o : aop) : astate :=
  match o with
  | APut k v => (d_put k v (fst s), snd s)
  | ADel k => (d_del k (fst s), snd s)
  | ACheckpoint => (fst s, fst s)
  | ARevert => (snd s, snd s)
  | AFlush => s
  end.

Definition a_run (d : dict) (ops : list aop) : astate := fold_left a_step ops (d, d).
