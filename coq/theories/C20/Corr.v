(* C20 — correspondence: API-granularity histories over several datas.Database
   handles (each with its own chunk-store view), sequential (deterministic, with
   stale views/handles forcing the retry path) or concurrent (goroutines released
   by a barrier; the oracle looks for a linearization). *)
From Coq Require Import NArith List Bool.
From Dolt Require Import Base.Str C20.Model C20.Spec.
Import ListNotations.
Local Open Scope N_scope.

Inductive action := ARebase (c : cid) | AOp (c : cid) (o : op).

Record input := {
  i_world : world;
  i_m0 : refs;
  i_conc : bool;               (* true: the AOp actions (one per client) ran concurrently *)
  i_acts : list action
}.

Record obs := {
  o_results : list result;     (* one per AOp, in the order of i_acts *)
  o_final : refs               (* datasets of the case read back from a fresh view *)
}.

Definition case := (input * obs)%type.

(* ---- model run at API granularity: every call runs to completion ---- *)
Definition progs_of (acts : list action) (c : cid) : list op :=
  flat_map (fun a => match a with AOp c' o => if c' =? c then [o] else [] | _ => [] end) acts.

Definition call_steps (c : cid) : list (cid * label) :=
  [(c, SBegin); (c, SAttempt); (c, SCas); (c, SAttempt); (c, SCas); (c, SAttempt); (c, SCas)].

Definition last_res (l : list (op * result)) : result := snd (last l (OSetHead 0 0, ROther)).

Fixpoint run_acts (w : world) (acts : list action) (cfg : config) : config * list result :=
  match acts with
  | [] => (cfg, [])
  | ARebase c :: t => run_acts w t (step w cfg (c, SRebase))
  | AOp c o :: t =>
    let cfg' := run w (call_steps c) cfg in
    let '(cf, rs) := run_acts w t cfg' in
    (cf, last_res (c_done (g_clients cfg' c)) :: rs)
  end.

Definition model_obs (i : input) : obs :=
  let '(cfg, rs) := run_acts (i_world i) (i_acts i) (init (i_m0 i) (progs_of (i_acts i))) in
  {| o_results := rs; o_final := g_refs cfg |}.

Fixpoint results_eqb (a b : list result) : bool :=
  match a, b with
  | [], [] => true
  | x :: a', y :: b' => result_eqb x y && results_eqb a' b'
  | _, _ => false
  end.

Definition obs_eqb (a b : obs) : bool :=
  results_eqb (o_results a) (o_results b) && refs_eqb (o_final a) (o_final b).

(* ---- the property on what the implementation returned ---- *)
Definition op_name (o : op) : name :=
  match o with
  | OCommit r _ _ _ | OFastForward r _ _ | OSetHead r _ | ODelete r _ | OTag r _ => r
  | OUpdateWS wn _ _ => wn
  | OCommitWS r _ _ _ _ _ _ => r
  end.

(* a result without effect is the atomic operation's answer in one of the given states *)
Definition answered_in (w : world) (states : list refs) (o : op) (r : result) : bool :=
  existsb (fun m' => let g := guard w m' o in negb (result_eqb g ROk) && result_eqb (report o g) r) states.

(* sequential history: the linearization is the call order; a call either takes effect on
   the current state with its condition true there, or has no effect and is answered by a
   state the root had (stale views), or is a delete that saw the head move. *)
Fixpoint oracle_seq (w : world) (acts : list action) (res : list result) (m : refs) (hist : list refs)
         (final : refs) : bool :=
  match acts with
  | [] => match res with [] => refs_eqb m final | _ => false end
  | ARebase _ :: t => oracle_seq w t res m hist final
  | AOp c o :: t =>
    match res with
    | [] => false
    | r :: res' =>
      if result_eqb r ROk && result_eqb (guard w m o) ROk
      then oracle_seq w t res' (effect m o) (m :: hist) final
      else if answered_in w (m :: hist) o r
              || (is_delete o && result_eqb r RMergeNeeded
                  && existsb (fun a => negb (get a (op_name o) =? get m (op_name o))) hist)
           then oracle_seq w t res' m hist final
           else false
    end
  end.

(* concurrent batch: some order of the calls explains all results and the final state *)
Fixpoint ops_of (acts : list action) : list op :=
  match acts with
  | [] => []
  | AOp _ o :: t => o :: ops_of t
  | _ :: t => ops_of t
  end.

Definition moved_by_other (ops : list (op * result)) (idx : N) (k : name) : bool :=
  existsb (fun p => negb (fst p =? idx) && result_eqb (snd (snd p)) ROk && touches (fst (snd p)) k)
          (combine (map N.of_nat (seq 0 (length ops))) ops).

Fixpoint lin_check (w : world) (ops : list (op * result)) (order : list N) (m : refs) (final : refs) : bool :=
  match order with
  | [] => refs_eqb m final
  | idx :: t =>
    let '(o, r) := nth (N.to_nat idx) ops (OSetHead 0 0, ROther) in
    let g := guard w m o in
    if result_eqb r ROk && result_eqb g ROk then lin_check w ops t (effect m o) final
    else if (negb (result_eqb g ROk) && result_eqb (report o g) r)
            || (is_delete o && result_eqb r RMergeNeeded && moved_by_other ops idx (op_name o))
         then lin_check w ops t m final
         else false
  end.

Definition oracle_conc (w : world) (acts : list action) (res : list result) (m0 final : refs) : bool :=
  let ops := combine (ops_of acts) res in
  Nat.eqb (length (ops_of acts)) (length res)
  && existsb (fun order => lin_check w ops order m0 final)
             (perms (map N.of_nat (seq 0 (length ops)))).

Definition oracle (i : input) (o : obs) : bool :=
  if i_conc i then oracle_conc (i_world i) (i_acts i) (o_results o) (i_m0 i) (o_final o)
  else oracle_seq (i_world i) (i_acts i) (o_results o) (i_m0 i) [] (o_final o).

(* sequential cases: the model must reproduce the implementation exactly; concurrent cases:
   the implementation's outcome must be one of the atomic spec's outcomes. *)
Definition agrees (i : input) (o : obs) : bool :=
  if i_conc i then oracle i o else obs_eqb (model_obs i) o.

Definition check_case (c : case) : N :=
  (if agrees (fst c) (snd c) then 0 else 1)
  + (if oracle (fst c) (snd c) then 0 else 2).
