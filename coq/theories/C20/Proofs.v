(* C20 — proofs: for every schedule the optimistic loop refines the atomic spec. *)
From Coq Require Import NArith List Bool Lia.
From Dolt Require Import Base.Str C20.Model C20.Spec.
Import ListNotations.
Local Open Scope N_scope.

(* ------------------------------------------------------------------ *)
(* 1. the dataset map                                                  *)
Lemma get_set_same m k v : get (set m k v) k = v.
Proof.
  induction m as [|[k' v'] t IH]; cbn [set get].
  - rewrite N.eqb_refl. reflexivity.
  - destruct (k =? k') eqn:E1.
    + cbn [get]. rewrite N.eqb_refl. reflexivity.
    + destruct (k <? k') eqn:E2; cbn [get].
      * rewrite N.eqb_refl. reflexivity.
      * rewrite E1. exact IH.
Qed.

Lemma get_set_other m k v k2 : k2 <> k -> get (set m k v) k2 = get m k2.
Proof.
  intros Hne. apply N.eqb_neq in Hne.
  induction m as [|[k' v'] t IH]; cbn [set get].
  - rewrite Hne. reflexivity.
  - destruct (k =? k') eqn:E1.
    + apply N.eqb_eq in E1. subst k'. cbn [get]. rewrite Hne. reflexivity.
    + destruct (k <? k') eqn:E2; cbn [get].
      * rewrite Hne. reflexivity.
      * destruct (k2 =? k'); [reflexivity | exact IH].
Qed.

Lemma get_del_other m k k2 : k2 <> k -> get (del m k) k2 = get m k2.
Proof.
  intros Hne. unfold del.
  induction m as [|[k' v'] t IH]; cbn [filter get fst]; [reflexivity|].
  destruct (k' =? k) eqn:E1; cbn [negb get].
  - apply N.eqb_eq in E1. subst k'. apply N.eqb_neq in Hne. rewrite Hne. exact IH.
  - destruct (k2 =? k'); [reflexivity | exact IH].
Qed.

Lemma refs_eqb_eq a b : refs_eqb a b = true -> a = b.
Proof.
  revert b. induction a as [|[k v] a IH]; intros [|[k' v'] b] H; cbn [refs_eqb] in H;
    try discriminate; try reflexivity.
  apply andb_true_iff in H as [H1 H3]. apply andb_true_iff in H1 as [H1 H2].
  apply N.eqb_eq in H1. apply N.eqb_eq in H2. apply IH in H3. congruence.
Qed.

Lemma refs_eqb_refl a : refs_eqb a a = true.
Proof.
  induction a as [|[k v] a IH]; cbn [refs_eqb]; [reflexivity|].
  rewrite !N.eqb_refl, IH. reflexivity.
Qed.

(* an operation changes only the datasets it names *)
Lemma effect_frame m o k : touches o k = false -> get (effect m o) k = get m k.
Proof.
  destruct o; cbn [touches effect]; intros H.
  - apply N.eqb_neq in H. apply get_set_other; exact H.
  - apply N.eqb_neq in H. apply get_set_other; exact H.
  - apply N.eqb_neq in H. apply get_set_other; exact H.
  - apply orb_false_iff in H as [H1 H2]. apply N.eqb_neq in H1.
    destruct (ws =? 0) eqn:E.
    + apply get_del_other; exact H1.
    + cbn [negb andb] in H2. apply N.eqb_neq in H2.
      rewrite get_del_other by exact H2. apply get_del_other; exact H1.
  - apply N.eqb_neq in H. apply get_set_other; exact H.
  - apply orb_false_iff in H as [H1 H2]. apply N.eqb_neq in H1. apply N.eqb_neq in H2.
    rewrite get_set_other by exact H2. apply get_set_other; exact H1.
  - apply N.eqb_neq in H. apply get_set_other; exact H.
Qed.

Lemma apply_op_frame w m o k : touches o k = false -> get (fst (apply_op w m o)) k = get m k.
Proof.
  intros H. unfold apply_op. destruct (guard w m o); cbn [fst]; try reflexivity.
  apply effect_frame; exact H.
Qed.

(* ------------------------------------------------------------------ *)
(* 2. one evaluation of the edit closure against the atomic condition  *)
Ltac dif H := match type of H with (if ?b then _ else _) = _ => destruct b eqn:? end.
Ltac dmatch H := match type of H with (match ?x with _ => _ end) = _ => destruct x eqn:? end.

Lemma delete_check_not_merge w m ws c : delete_check w m ws c <> RMergeNeeded.
Proof.
  unfold delete_check, ws_check. destruct (ws_of w (get m ws)) as [a b].
  repeat match goal with |- context [if ?b then _ else _] => destruct b end; discriminate.
Qed.
Lemma precheck_false_guard w m o : precheck w o = false -> guard w m o = RMergeNeeded.
Proof.
  destruct o; cbn [precheck guard]; intros H; try discriminate; rewrite H; reflexivity.
Qed.

Lemma report_merge o : report o RMergeNeeded = RMergeNeeded.
Proof. destruct o; reflexivity. Qed.

Lemma attempt_edit w f m o m' f' :
  precheck w o = true -> attempt w f m o = (Edit m', f') ->
  guard w m o = ROk /\ m' = effect m o.
Proof.
  intros Hpre H. destruct o; cbn [precheck] in Hpre; cbn [attempt] in H; cbn [guard effect].
  - (* commit *)
    rewrite Hpre. cbn [negb].
    destruct (get m r =? exp) eqn:E1; cbn [negb] in H; [|discriminate].
    apply N.eqb_eq in E1. subst exp.
    destruct (negb (get m r =? 0) && (get m r =? new)) eqn:E2; [discriminate|].
    inversion H; subst. split; reflexivity.
  - (* fast-forward *)
    rewrite Hpre. cbn [negb].
    destruct (get m r =? exp) eqn:E1; cbn [negb] in H; [|discriminate].
    apply N.eqb_eq in E1. subst exp.
    destruct (negb (get m r =? 0) && (get m r =? new)) eqn:E2; [discriminate|].
    inversion H; subst. split; reflexivity.
  - inversion H; subst. split; reflexivity.
  - (* delete *)
    dif H; [discriminate|]. dmatch H; try discriminate.
    inversion H; subst. split; reflexivity.
  - destruct (get m wn =? prev) eqn:E1; cbn [negb] in H; [|discriminate].
    inversion H; subst. split; reflexivity.
  - rewrite Hpre. cbn [negb].
    destruct (get m wn =? prevws) eqn:E1; cbn [negb] in H; [|discriminate].
    destruct (get m r =? exp) eqn:E2; cbn [negb] in H; [|discriminate].
    inversion H; subst. split; reflexivity.
  - destruct (get m t =? 0) eqn:E1; cbn [negb] in H; [|discriminate].
    inversion H; subst. split; reflexivity.
Qed.

Lemma attempt_fail w f m o res f' :
  precheck w o = true -> attempt w f m o = (Fail res, f') ->
  (guard w m o = res /\ res <> ROk) \/ (is_delete o = true /\ res = RMergeNeeded).
Proof.
  intros Hpre H. destruct o; cbn [precheck] in Hpre; cbn [attempt] in H; cbn [guard is_delete].
  - left. rewrite Hpre. cbn [negb].
    destruct (get m r =? exp) eqn:E1; cbn [negb] in H.
    + apply N.eqb_eq in E1. subst exp.
      destruct (negb (get m r =? 0) && (get m r =? new)) eqn:E2; [|discriminate].
      inversion H; subst. split; [reflexivity | discriminate].
    + inversion H; subst. split; [reflexivity | discriminate].
  - left. rewrite Hpre. cbn [negb].
    destruct (get m r =? exp) eqn:E1; cbn [negb] in H.
    + apply N.eqb_eq in E1. subst exp.
      destruct (negb (get m r =? 0) && (get m r =? new)) eqn:E2; [|discriminate].
      inversion H; subst. split; [reflexivity | discriminate].
    + inversion H; subst. split; [reflexivity | discriminate].
  - discriminate.
  - dif H.
    + inversion H; subst. right. split; reflexivity.
    + dmatch H; try discriminate;
        inversion H; subst; left; (split; [reflexivity | discriminate]).
  - left. destruct (get m wn =? prev) eqn:E1; cbn [negb] in H; [discriminate|].
    inversion H; subst. split; [reflexivity | discriminate].
  - left. rewrite Hpre. cbn [negb].
    destruct (get m wn =? prevws) eqn:E1; cbn [negb] in H.
    + destruct (get m r =? exp) eqn:E2; cbn [negb] in H; [discriminate|].
      inversion H; subst. split; [reflexivity | discriminate].
    + inversion H; subst. split; [reflexivity | discriminate].
  - left. destruct (get m t =? 0) eqn:E1; cbn [negb] in H; [discriminate|].
    inversion H; subst. split; [reflexivity | discriminate].
Qed.

Lemma attempt_delete_first0 w m r ws f' : attempt w 0 m (ODelete r ws) <> (Fail RMergeNeeded, f').
Proof.
  cbn [attempt]. intros H.
  destruct (get m r =? 0) eqn:E0.
  - apply N.eqb_eq in E0. rewrite E0 in H. cbn [negb andb N.eqb] in H.
    dmatch H; try discriminate. inversion H. eapply delete_check_not_merge; eauto.
  - cbn [negb andb N.eqb] in H. rewrite N.eqb_refl in H. cbn [negb] in H.
    dmatch H; try discriminate. inversion H. eapply delete_check_not_merge; eauto.
Qed.

(* the atomic operation is the loop's closure evaluated once with no captured state *)
Lemma apply_op_is_attempt w m o :
  precheck w o = true ->
  apply_op w m o = match fst (attempt w 0 m o) with
                   | Edit m' => (m', ROk)
                   | Fail res => (m, report o res)
                   end.
Proof.
  intros Hpre. destruct (attempt w 0 m o) as [[res|m'] f'] eqn:E; cbn [fst].
  - destruct (attempt_fail _ _ _ _ _ _ Hpre E) as [[Hg Hne]|[Hd Hres]].
    + unfold apply_op. rewrite Hg. destruct res; try reflexivity. contradiction.
    + exfalso. destruct o; try discriminate. subst res.
      apply (attempt_delete_first0 w m r ws f'). exact E.
  - destruct (attempt_edit _ _ _ _ _ _ Hpre E) as [Hg He].
    unfold apply_op. rewrite Hg. subst m'. reflexivity.
Qed.

(* ------------------------------------------------------------------ *)
(* 3. replay / order lemmas                                            *)
Lemma replay_app w m0 l1 l2 : replay w m0 (l1 ++ l2) = replay w (replay w m0 l1) l2.
Proof. unfold replay. apply fold_left_app. Qed.

Lemma replay_snoc w m0 l c o : replay w m0 (l ++ [(c, o)]) = fst (apply_op w (replay w m0 l) o).
Proof. rewrite replay_app. reflexivity. Qed.

Lemma replay_cons w m0 c o l : replay w m0 ((c, o) :: l) = replay w (fst (apply_op w m0 o)) l.
Proof. reflexivity. Qed.

Lemma snoc_split {A} (l : list A) (e : A) l1 x l2 :
  l ++ [e] = l1 ++ x :: l2 ->
  (l2 = [] /\ l1 = l /\ x = e) \/ (exists l2', l2 = l2' ++ [e] /\ l = l1 ++ x :: l2').
Proof.
  intros H. destruct l2 as [|y l2] using rev_ind.
  - left. apply app_inj_tail in H as [H1 H2]. auto.
  - right. exists l2. clear IHl2.
    replace (l1 ++ x :: l2 ++ [y]) with ((l1 ++ x :: l2) ++ [y]) in H
      by (rewrite <- app_assoc; reflexivity).
    apply app_inj_tail in H as [H1 H2]. subst. auto.
Qed.

Lemma all_ok_nil w m0 : all_ok w m0 [].
Proof. intros l1 c o l2 H. destruct l1; discriminate. Qed.

Lemma all_ok_snoc w m0 l c o :
  all_ok w m0 l -> guard w (replay w m0 l) o = ROk -> all_ok w m0 (l ++ [(c, o)]).
Proof.
  intros Hok Hg l1 c' o' l2 H.
  apply snoc_split in H as [[H2 [H1 Hx]] | [l2' [H2 H1]]].
  - subst. inversion Hx; subst. exact Hg.
  - subst. eapply Hok. reflexivity.
Qed.

Lemma replay_frame w l m k :
  (forall c o, In (c, o) l -> touches o k = false) -> get (replay w m l) k = get m k.
Proof.
  revert m. induction l as [|[c o] l IH]; intros m H; [reflexivity|].
  rewrite replay_cons, IH.
  - apply apply_op_frame. apply (H c). left. reflexivity.
  - intros c' o' Hin. apply (H c'). right. exact Hin.
Qed.

(* ------------------------------------------------------------------ *)
(* 4. the invariant of the small-step machine                          *)
Section Lin.
  Variable w : world.
  Variable m0 : refs.

  Definition past (log : list (cid * op)) (m : refs) : Prop :=
    exists l1 l2, log = l1 ++ l2 /\ m = replay w m0 l1.

  Definition client_ok (log : list (cid * op)) (c : cid) (cl : client) : Prop :=
    past log (c_view cl)
    /\ (forall o res, In (o, res) (c_done cl) -> consistent w m0 log c o res)
    /\ match c_pc cl with
       | PIdle => True
       | PTry => forall o rest, c_todo cl = o :: rest -> precheck w o = true
       | PCas seen new =>
         forall o rest, c_todo cl = o :: rest ->
           precheck w o = true /\ guard w seen o = ROk /\ new = effect seen o
       end.

  Definition Inv (cfg : config) : Prop :=
    g_refs cfg = replay w m0 (g_log cfg)
    /\ all_ok w m0 (g_log cfg)
    /\ forall c, client_ok (g_log cfg) c (g_clients cfg c).

  Lemma past_snoc log e m : past log m -> past (log ++ [e]) m.
  Proof.
    intros [l1 [l2 [H1 H2]]]. exists l1, (l2 ++ [e]). subst. rewrite app_assoc. auto.
  Qed.

  Lemma past_now log : past log (replay w m0 log).
  Proof. exists log, []. rewrite app_nil_r. auto. Qed.

  Lemma consistent_snoc log e c o res :
    consistent w m0 log c o res -> consistent w m0 (log ++ [e]) c o res.
  Proof.
    intros [[Hr [l1 [l2 H]]] | [[l1 [l2 [g [H [Hg [Hne Hr]]]]]] | Hd]].
    - left. split; [exact Hr|]. exists l1, (l2 ++ [e]). subst. rewrite <- app_assoc. reflexivity.
    - right. left. exists l1, (l2 ++ [e]), g. subst log. rewrite app_assoc. auto.
    - right. right. exact Hd.
  Qed.

  Lemma client_ok_snoc log e c cl : client_ok log c cl -> client_ok (log ++ [e]) c cl.
  Proof.
    intros [Hv [Hd Hpc]]. split; [|split].
    - apply past_snoc; exact Hv.
    - intros o res Hin. apply consistent_snoc. apply Hd; exact Hin.
    - exact Hpc.
  Qed.

  Lemma init_inv progs : Inv (init m0 progs).
  Proof.
    split; [reflexivity | split; [apply all_ok_nil|]].
    intros c. cbn. split; [|split].
    - exists [], []. auto.
    - intros o res [].
    - exact I.
  Qed.

  Lemma upd_same f c v : upd f c v c = v.
  Proof. unfold upd. rewrite N.eqb_refl. reflexivity. Qed.

  Lemma upd_other f c v c' : c' <> c -> upd f c v c' = f c'.
  Proof. intros H. unfold upd. apply N.eqb_neq in H. rewrite H. reflexivity. Qed.

  (* updating one client with the log unchanged *)
  Lemma inv_upd cfg c cl' :
    Inv cfg -> client_ok (g_log cfg) c cl' ->
    Inv {| g_refs := g_refs cfg; g_log := g_log cfg; g_clients := upd (g_clients cfg) c cl' |}.
  Proof.
    intros [H1 [H2 H3]] Hc. split; [exact H1 | split; [exact H2|]].
    intros c'. cbn [g_clients g_log]. destruct (N.eq_dec c' c) as [->|Hne].
    - rewrite upd_same. exact Hc.
    - rewrite upd_other by exact Hne. apply H3.
  Qed.

  Lemma step_inv cfg e : Inv cfg -> Inv (step w cfg e).
  Proof.
    intros HI. destruct e as [c lbl]. unfold step.
    pose proof HI as [Hrefs [Hok Hcl]].
    pose proof (Hcl c) as [Hview [Hdone Hpc]].
    destruct lbl.
    - (* SBegin *)
      destruct (c_todo (g_clients cfg c)) as [|o rest] eqn:Htodo; [exact HI|].
      destruct (c_pc (g_clients cfg c)) eqn:Epc; try exact HI.
      apply inv_upd; [exact HI|].
      destruct (precheck w o) eqn:Hpre.
      + split; [exact Hview | split; [exact Hdone|]]. cbn [c_pc c_todo].
        intros o' rest' Heq. try rewrite Htodo in Heq. inversion Heq; subst. exact Hpre.
      + unfold finish. split; [exact Hview | split; [|exact I]]. cbn [c_done].
        intros o' res' Hin. apply in_app_or in Hin as [Hin | [Heq | []]].
        * apply Hdone; exact Hin.
        * inversion Heq; subst. right. left.
          exists [], (g_log cfg), RMergeNeeded. split; [reflexivity|].
          split; [apply precheck_false_guard; exact Hpre|].
          split; [discriminate | symmetry; apply report_merge].
    - (* SAttempt *)
      destruct (c_todo (g_clients cfg c)) as [|o rest] eqn:Htodo; [exact HI|].
      destruct (c_pc (g_clients cfg c)) eqn:Epc; try exact HI.
      apply inv_upd; [exact HI|].
      pose proof (Hpc o rest eq_refl) as Hpre.
      destruct (attempt w (c_first (g_clients cfg c)) (c_view (g_clients cfg c)) o) as [[res|m'] f'] eqn:Eatt.
      + unfold finish. split; [exact Hview | split; [|exact I]]. cbn [c_done].
        intros o' res' Hin. apply in_app_or in Hin as [Hin | [Heq | []]].
        * apply Hdone; exact Hin.
        * inversion Heq; subst.
          destruct (attempt_fail _ _ _ _ _ _ Hpre Eatt) as [[Hg Hne] | [Hd Hr]].
          -- destruct Hview as [l1 [l2 [Hl Hv]]]. right. left.
             exists l1, l2, res. rewrite <- Hv. auto.
          -- right. right. subst res. rewrite report_merge. auto.
      + destruct (attempt_edit _ _ _ _ _ _ Hpre Eatt) as [Hg He].
        split; [exact Hview | split; [exact Hdone|]]. cbn [c_pc c_todo].
        intros o' rest' Heq. try rewrite Htodo in Heq. inversion Heq; subst. auto.
    - (* SCas *)
      destruct (c_todo (g_clients cfg c)) as [|o rest] eqn:Htodo; [exact HI|].
      destruct (c_pc (g_clients cfg c)) as [| |seen new] eqn:Epc; try exact HI.
      destruct (Hpc o rest eq_refl) as [Hpre [Hg He]].
      destruct (refs_eqb seen (g_refs cfg)) eqn:Ecas.
      + apply refs_eqb_eq in Ecas. subst seen.
        assert (Hnew : new = replay w m0 (g_log cfg ++ [(c, o)])).
        { rewrite replay_snoc, <- Hrefs. unfold apply_op. rewrite Hg. exact He. }
        split; [exact Hnew | split].
        * cbn [g_log]. apply all_ok_snoc; [exact Hok|]. rewrite <- Hrefs. exact Hg.
        * intros c'. cbn [g_clients g_log]. destruct (N.eq_dec c' c) as [->|Hne].
          -- rewrite upd_same. unfold finish. split; [|split; [|exact I]].
             ++ cbn [c_view]. rewrite Hnew. apply past_now.
             ++ cbn [c_done]. intros o' res' Hin. apply in_app_or in Hin as [Hin | [Heq | []]].
                ** apply consistent_snoc. apply Hdone; exact Hin.
                ** inversion Heq; subst. left. split; [reflexivity|].
                   exists (g_log cfg), []. reflexivity.
          -- rewrite upd_other by exact Hne. apply client_ok_snoc. apply Hcl.
      + apply inv_upd; [exact HI|].
        split; [|split; [exact Hdone|]].
        * cbn [c_view]. rewrite Hrefs. apply past_now.
        * cbn [c_pc c_todo]. intros o' rest' Heq. try rewrite Htodo in Heq. inversion Heq; subst. exact Hpre.
    - (* SRebase *)
      destruct (c_pc (g_clients cfg c)) eqn:Epc; try exact HI.
      + apply inv_upd; [exact HI|]. split; [|split; [exact Hdone | exact I]].
        cbn [c_view]. rewrite Hrefs. apply past_now.
      + apply inv_upd; [exact HI|]. split; [|split; [exact Hdone | exact Hpc]].
        cbn [c_view]. rewrite Hrefs. apply past_now.
  Qed.

  Lemma run_inv sched cfg : Inv cfg -> Inv (run w sched cfg).
  Proof.
    revert cfg. induction sched as [|e sched IH]; intros cfg H; [exact H|].
    cbn [run fold_left]. apply IH. apply step_inv. exact H.
  Qed.
End Lin.

(* ------------------------------------------------------------------ *)
(* 5. headline theorems                                                *)

(* For every schedule: the persisted refs are the one-at-a-time application of the
   successful operations in the order of their successful CAS; each of them had its
   condition true in the state it was applied to; every returned result is consistent
   with that order. *)
Theorem update_linearizable :
  forall (w : world) (m0 : refs) (progs : cid -> list op) (sched : list (cid * label)),
    let cfg := run w sched (init m0 progs) in
    let order := g_log cfg in
    g_refs cfg = fold_left (fun m co => fst (apply_op w m (snd co))) order m0
    /\ all_ok w m0 order
    /\ forall c o res, In (o, res) (c_done (g_clients cfg c)) -> consistent w m0 order c o res.
Proof.
  intros w m0 progs sched cfg order.
  destruct (run_inv w m0 sched _ (init_inv w m0 progs)) as [H1 [H2 H3]].
  split; [exact H1 | split; [exact H2|]].
  intros c o res Hin. destruct (H3 c) as [_ [Hd _]]. apply Hd. exact Hin.
Qed.

(* A value written by a successful update is replaced only by a later successful
   operation of the order that names the same dataset. *)
Theorem no_lost_update :
  forall (w : world) (m0 : refs) (progs : cid -> list op) (sched : list (cid * label)),
    let cfg := run w sched (init m0 progs) in
    forall l1 c o l2 k,
      g_log cfg = l1 ++ (c, o) :: l2 ->
      get (g_refs cfg) k <> get (replay w m0 (l1 ++ [(c, o)])) k ->
      exists c' o', In (c', o') l2 /\ touches o' k = true.
Proof.
  intros w m0 progs sched cfg l1 c o l2 k Hlog Hne.
  destruct (run_inv w m0 sched _ (init_inv w m0 progs)) as [H1 _].
  fold cfg in H1. rewrite H1, Hlog in Hne.
  replace (l1 ++ (c, o) :: l2) with ((l1 ++ [(c, o)]) ++ l2) in Hne
    by (rewrite <- app_assoc; reflexivity).
  rewrite replay_app in Hne.
  destruct (existsb (fun co => touches (snd co) k) l2) eqn:E.
  - apply existsb_exists in E as [[c' o'] [Hin Ht]]. exists c', o'. auto.
  - exfalso. apply Hne. apply replay_frame. intros c' o' Hin.
    destruct (touches o' k) eqn:Et; [|reflexivity].
    assert (existsb (fun co => touches (snd co) k) l2 = true) as Hc
      by (apply existsb_exists; exists (c', o'); auto).
    congruence.
Qed.

Lemma mem_In a l : mem a l = true -> In a l.
Proof.
  unfold mem. intros H. apply existsb_exists in H as [x [Hin Hx]].
  apply N.eqb_eq in Hx. subst. exact Hin.
Qed.

Lemma reach_sound w fuel a b : reach fuel w a b = true -> anc w a b.
Proof.
  revert b. induction fuel as [|f IH]; intros b H; cbn [reach] in H.
  - rewrite orb_false_r in H. apply N.eqb_eq in H. subst. apply anc_refl.
  - apply orb_true_iff in H as [H|H].
    + apply N.eqb_eq in H. subst. apply anc_refl.
    + apply existsb_exists in H as [p [Hin Hp]]. eapply anc_step; [exact Hin|]. apply IH. exact Hp.
Qed.

Lemma guard_cond w m o : guard w m o = ROk -> cond_holds w m o.
Proof.
  destruct o; cbn [guard cond_holds]; intros H.
  - destruct (force || (exp =? 0) || mem exp (parents_of w new)) eqn:E1; cbn [negb] in H; [|discriminate].
    destruct (get m r =? exp) eqn:E2; cbn [negb] in H; [|discriminate].
    apply N.eqb_eq in E2. split; [exact E2|].
    apply orb_true_iff in E1 as [E1|E1]; [apply orb_true_iff in E1 as [E1|E1]|].
    + left. exact E1.
    + right. left. apply N.eqb_eq. exact E1.
    + right. right. apply mem_In. exact E1.
  - destruct ((exp =? 0) || reach (world_fuel w) w exp new) eqn:E1; cbn [negb] in H; [|discriminate].
    destruct (get m r =? exp) eqn:E2; cbn [negb] in H; [|discriminate].
    apply N.eqb_eq in E2. split; [exact E2|].
    apply orb_true_iff in E1 as [E1|E1].
    + left. apply N.eqb_eq. exact E1.
    + right. eapply reach_sound. exact E1.
  - exact I.
  - unfold delete_check in H.
    destruct (ws =? 0) eqn:E1; [left; apply N.eqb_eq; exact E1|].
    destruct (get m ws =? 0) eqn:E2; [right; left; apply N.eqb_eq; exact E2|].
    cbn [negb andb] in H. right. right. exact H.
  - destruct (get m wn =? prev) eqn:E; [apply N.eqb_eq; exact E | discriminate].
  - destruct (force || (exp =? 0) || mem exp (parents_of w new)) eqn:E1; cbn [negb] in H; [|discriminate].
    destruct (get m wn =? prevws) eqn:E2; cbn [negb] in H; [|discriminate].
    destruct (get m r =? exp) eqn:E3; cbn [negb] in H; [|discriminate].
    apply N.eqb_eq in E2. apply N.eqb_eq in E3. split; [exact E2 | split; [exact E3|]].
    apply orb_true_iff in E1 as [E1|E1]; [apply orb_true_iff in E1 as [E1|E1]|].
    + left. exact E1.
    + right. left. apply N.eqb_eq. exact E1.
    + right. right. apply mem_In. exact E1.
  - destruct (get m t =? 0) eqn:E; [apply N.eqb_eq; exact E | discriminate].
Qed.

(* A conditional operation succeeds only if its condition held in the state it was applied to. *)
Theorem cond_update_respects_check :
  forall (w : world) (m0 : refs) (progs : cid -> list op) (sched : list (cid * label)),
    let cfg := run w sched (init m0 progs) in
    forall l1 c o l2,
      g_log cfg = l1 ++ (c, o) :: l2 ->
      cond_holds w (replay w m0 l1) o
      /\ replay w m0 (l1 ++ [(c, o)]) = effect (replay w m0 l1) o.
Proof.
  intros w m0 progs sched cfg l1 c o l2 Hlog.
  destruct (run_inv w m0 sched _ (init_inv w m0 progs)) as [_ [H2 _]].
  fold cfg in H2. pose proof (H2 _ _ _ _ Hlog) as Hg.
  split; [apply guard_cond; exact Hg|].
  rewrite replay_snoc. unfold apply_op. rewrite Hg. reflexivity.
Qed.

(* Ordinary commits and fast-forwards move a branch only to a descendant of the head it
   had in the state they were applied to. *)
Theorem ordinary_moves_forward :
  forall (w : world) (m0 : refs) (progs : cid -> list op) (sched : list (cid * label)),
    let cfg := run w sched (init m0 progs) in
    forall l1 c o l2 r new,
      g_log cfg = l1 ++ (c, o) :: l2 ->
      ordinary o = Some (r, new) ->
      let before := get (replay w m0 l1) r in
      (before <> 0 -> anc w before new)
      /\ get (replay w m0 (l1 ++ [(c, o)])) r = new.
Proof.
  intros w m0 progs sched cfg l1 c o l2 r new Hlog Hord before.
  destruct (cond_update_respects_check w m0 progs sched l1 c o l2 Hlog) as [Hc He].
  rewrite He. subst before.
  destruct o; cbn [ordinary] in Hord; try discriminate.
  - destruct force; [discriminate|]. inversion Hord; subst.
    cbn [cond_holds] in Hc. destruct Hc as [Hh Hp]. cbn [effect].
    split; [|apply get_set_same].
    intros Hnz. rewrite Hh in *. destruct Hp as [Hp|[Hp|Hp]]; [discriminate | contradiction |].
    eapply anc_step; [exact Hp | apply anc_refl].
  - inversion Hord; subst. cbn [cond_holds] in Hc. destruct Hc as [Hh Hp]. cbn [effect].
    split; [|apply get_set_same].
    intros Hnz. rewrite Hh in *. destruct Hp as [Hp|Hp]; [contradiction | exact Hp].
  - destruct force; [discriminate|]. destruct (r0 =? wn) eqn:E; [discriminate|].
    inversion Hord; subst. apply N.eqb_neq in E.
    cbn [cond_holds] in Hc. destruct Hc as [_ [Hh Hp]]. cbn [effect].
    split; [|rewrite get_set_other by exact E; apply get_set_same].
    intros Hnz. rewrite Hh in *. destruct Hp as [Hp|[Hp|Hp]]; [discriminate | contradiction |].
    eapply anc_step; [exact Hp | apply anc_refl].
Qed.

(* Forcing operations are unconditional writes. *)
Theorem forced_are_writes :
  forall w m r new, apply_op w m (OSetHead r new) = (set m r new, ROk).
Proof. reflexivity. Qed.

(* With the NBS flavour of the CAS (a loser whose intended manifest contents equal the
   winner's is told it won) the statement is FALSE: two identical conditional updates from
   the same state both succeed, the second one against a state in which its condition is
   false.  Full statement that does not hold for [step_lockhash]:
     forall sched, all_ok w m0 (g_log (fold_left (step_lockhash w) sched (init m0 progs))).
   The final dataset map is still the one-at-a-time result of the first update alone (nothing
   is lost); what fails is "a conditional update succeeds only if its condition held". *)
Theorem cond_update_respects_check_nbs_lockhash_refuted :
  exists (w : world) (m0 : refs) (progs : cid -> list op) (sched : list (cid * label)),
    ~ all_ok w m0 (g_log (fold_left (step_lockhash w) sched (init m0 progs))).
Proof.
  exists {| w_parents := []; w_root := []; w_ws := [] |}, [(10, 1)],
         (fun c => if (c <? 2) then [OUpdateWS 21 0 104] else []),
         [(0, SBegin); (1, SBegin); (0, SAttempt); (1, SAttempt); (0, SCas); (1, SCas)].
  intros H.
  match type of H with
  | all_ok _ _ ?l =>
    assert (E : l = [(0, OUpdateWS 21 0 104); (1, OUpdateWS 21 0 104)]) by (vm_compute; reflexivity);
    rewrite E in H
  end.
  specialize (H [(0, OUpdateWS 21 0 104)] 1 (OUpdateWS 21 0 104) [] eq_refl).
  vm_compute in H. discriminate.
Qed.

(* ------------------------------------------------------------------ *)
(* 6. non-vacuity: two clients race on one branch; the loser retries against the
      fresh map and is refused; a third client with a stale view updates another
      dataset through the retry path. *)
Definition ex_world : world :=
  {| w_parents := [(1, []); (2, [1]); (3, [1]); (4, [2])]; w_root := []; w_ws := [] |}.
Definition ex_progs (c : cid) : list op :=
  if c =? 0 then [OCommit 10 1 2 false]
  else if c =? 1 then [OCommit 10 1 3 false]
  else if c =? 2 then [OSetHead 11 3] else [].
Definition ex_sched : list (cid * label) :=
  [(0, SBegin); (1, SBegin); (2, SBegin); (0, SAttempt); (1, SAttempt); (2, SAttempt);
   (0, SCas); (1, SCas); (2, SCas); (1, SAttempt); (2, SAttempt); (2, SCas)].

Example ex_run :
  let cfg := run ex_world ex_sched (init [(10, 1)] ex_progs) in
  g_refs cfg = [(10, 2); (11, 3)]
  /\ g_log cfg = [(0, OCommit 10 1 2 false); (2, OSetHead 11 3)]
  /\ c_done (g_clients cfg 1) = [(OCommit 10 1 3 false, RMergeNeeded)].
Proof. vm_compute. repeat split. Qed.

(* ------------------------------------------------------------------ *)
(* 7. The executable statement of the property (Corr.oracle) holds on the model's own
      observations of every sequential API-granularity history.                          *)
From Dolt Require Import C20.Corr.

(* the part of a step that concerns the stepping client, as a function of (root, log, client) *)
Definition cstep (w : world) (c : cid) (t : refs * list (cid * op) * client) (lbl : label)
  : refs * list (cid * op) * client :=
  let '(g, l, cl) := t in
  match lbl with
  | SRebase =>
    match c_pc cl with
    | PCas _ _ => t
    | _ => (g, l, {| c_todo := c_todo cl; c_pc := c_pc cl; c_first := c_first cl; c_view := g; c_done := c_done cl |})
    end
  | _ =>
    match c_todo cl with
    | [] => t
    | o :: rest =>
      match lbl, c_pc cl with
      | SBegin, PIdle =>
        (g, l, if precheck w o
               then {| c_todo := c_todo cl; c_pc := PTry; c_first := 0; c_view := c_view cl; c_done := c_done cl |}
               else finish cl o rest (c_view cl) RMergeNeeded)
      | SAttempt, PTry =>
        (g, l, match attempt w (c_first cl) (c_view cl) o with
               | (Fail res, _) => finish cl o rest (c_view cl) (report o res)
               | (Edit m', f) => {| c_todo := c_todo cl; c_pc := PCas (c_view cl) m'; c_first := f;
                                     c_view := c_view cl; c_done := c_done cl |}
               end)
      | SCas, PCas seen new =>
        if refs_eqb seen g
        then (new, l ++ [(c, o)], finish cl o rest new ROk)
        else (g, l, {| c_todo := c_todo cl; c_pc := PTry; c_first := c_first cl; c_view := g; c_done := c_done cl |})
      | _, _ => t
      end
    end
  end.

Definition proj (cfg : config) (c : cid) := (g_refs cfg, g_log cfg, g_clients cfg c).

Lemma step_char w cfg c lbl :
  proj (step w cfg (c, lbl)) c = cstep w c (proj cfg c) lbl
  /\ forall c', c' <> c -> g_clients (step w cfg (c, lbl)) c' = g_clients cfg c'.
Proof.
  unfold proj, cstep, step.
  destruct lbl; destruct (c_todo (g_clients cfg c)) as [|o rest]; destruct (c_pc (g_clients cfg c)) as [| |seen new];
    cbn [g_refs g_log g_clients]; rewrite ?upd_same; try (split; [reflexivity | intros c' Hc; try rewrite upd_other by exact Hc; reflexivity]).
  destruct (refs_eqb seen (g_refs cfg)); cbn [g_refs g_log g_clients]; rewrite ?upd_same;
    (split; [reflexivity | intros c' Hc; rewrite upd_other by exact Hc; reflexivity]).
Qed.

Lemma run_char w c lbls : forall cfg,
  proj (run w (map (fun l => (c, l)) lbls) cfg) c = fold_left (cstep w c) lbls (proj cfg c)
  /\ forall c', c' <> c -> g_clients (run w (map (fun l => (c, l)) lbls) cfg) c' = g_clients cfg c'.
Proof.
  induction lbls as [|l lbls IH]; intros cfg; [split; reflexivity|].
  cbn [map run fold_left]. destruct (step_char w cfg c l) as [H1 H2].
  destruct (IH (step w cfg (c, l))) as [I1 I2]. unfold run in *. split.
  - rewrite I1, H1. reflexivity.
  - intros c' Hc. rewrite I2 by exact Hc. apply H2. exact Hc.
Qed.

(* one API call run to completion by an idle client, as a function *)
Definition call_fn (w : world) (g v : refs) (o : op) : result * refs * refs * bool :=
  if negb (precheck w o) then (RMergeNeeded, g, v, false)
  else match attempt w 0 v o with
       | (Fail res, _) => (report o res, g, v, false)
       | (Edit m1, f1) =>
         if refs_eqb v g then (ROk, m1, m1, true)
         else match attempt w f1 g o with
              | (Fail res, _) => (report o res, g, g, false)
              | (Edit m2, _) => (ROk, m2, m2, true)
              end
       end.

Definition call_labels : list label := [SBegin; SAttempt; SCas; SAttempt; SCas; SAttempt; SCas].

Lemma idle_noop w c g l cl lbl :
  c_pc cl = PIdle -> lbl = SAttempt \/ lbl = SCas -> cstep w c (g, l, cl) lbl = (g, l, cl).
Proof.
  intros Hp [->| ->]; cbn [cstep]; destruct (c_todo cl); rewrite ?Hp; reflexivity.
Qed.

Definition mkc (t : list op) (p : pc) (f : addr) (v : refs) (d : list (op * result)) : client :=
  {| c_todo := t; c_pc := p; c_first := f; c_view := v; c_done := d |}.

Lemma cstep_begin w c g l o rest f v d :
  cstep w c (g, l, mkc (o :: rest) PIdle f v d) SBegin
  = (g, l, if precheck w o then mkc (o :: rest) PTry 0 v d else mkc rest PIdle 0 v (d ++ [(o, RMergeNeeded)])).
Proof. reflexivity. Qed.

Lemma cstep_attempt w c g l o rest f v d :
  cstep w c (g, l, mkc (o :: rest) PTry f v d) SAttempt
  = (g, l, match attempt w f v o with
           | (Fail res, _) => mkc rest PIdle 0 v (d ++ [(o, report o res)])
           | (Edit m', f') => mkc (o :: rest) (PCas v m') f' v d
           end).
Proof. reflexivity. Qed.

Lemma cstep_cas w c g l o rest f v d seen new :
  cstep w c (g, l, mkc (o :: rest) (PCas seen new) f v d) SCas
  = if refs_eqb seen g then (new, l ++ [(c, o)], mkc rest PIdle 0 new (d ++ [(o, ROk)]))
    else (g, l, mkc (o :: rest) PTry f g d).
Proof. reflexivity. Qed.

Definition stage (w : world) (c : cid) (t : refs * list (cid * op) * client) :=
  cstep w c (cstep w c t SAttempt) SCas.

Lemma stage_idle w c g l t f v d : stage w c (g, l, mkc t PIdle f v d) = (g, l, mkc t PIdle f v d).
Proof. unfold stage. rewrite !idle_noop by auto. reflexivity. Qed.

Lemma call_char w c g l o rest f v d :
  fold_left (cstep w c) call_labels (g, l, mkc (o :: rest) PIdle f v d)
  = let '(r, g', v', changed) := call_fn w g v o in
    (g', (if changed then l ++ [(c, o)] else l), mkc rest PIdle 0 v' (d ++ [(o, r)])).
Proof.
  unfold call_fn.
  change (fold_left (cstep w c) call_labels (g, l, mkc (o :: rest) PIdle f v d))
    with (stage w c (stage w c (stage w c (cstep w c (g, l, mkc (o :: rest) PIdle f v d) SBegin)))).
  rewrite cstep_begin.
  destruct (precheck w o) eqn:Hpre; cbn [negb].
  2:{ rewrite !stage_idle. reflexivity. }
  unfold stage at 3. rewrite cstep_attempt.
  destruct (attempt w 0 v o) as [[res|m1] f1] eqn:A1.
  { rewrite idle_noop by auto. rewrite !stage_idle. reflexivity. }
  rewrite cstep_cas.
  destruct (refs_eqb v g) eqn:E1.
  { rewrite !stage_idle. reflexivity. }
  unfold stage at 2. rewrite cstep_attempt.
  destruct (attempt w f1 g o) as [[res|m2] f2] eqn:A2.
  { rewrite idle_noop by auto. rewrite stage_idle. reflexivity. }
  rewrite cstep_cas, refs_eqb_refl. rewrite stage_idle. reflexivity.
Qed.

Lemma result_eqb_eq a b : result_eqb a b = true <-> a = b.
Proof. destruct a, b; cbn; split; intros H; try reflexivity; try discriminate. Qed.

Lemma result_eqb_neq a b : a <> b -> result_eqb a b = false.
Proof. intros H. destruct (result_eqb a b) eqn:E; [apply result_eqb_eq in E; contradiction | reflexivity]. Qed.

(* a reported success without effect (fast-forward to the head already there) is never a
   success with effect in another state *)
Lemma reported_ok_never_applies w v o g0 :
  guard w v o = g0 -> g0 <> ROk -> report o g0 = ROk -> forall m, guard w m o <> ROk.
Proof.
  intros Hg Hne Hr m. destruct o; try (destruct g0; cbn in Hr; congruence).
  cbn [guard] in *.
  destruct ((exp =? 0) || reach (world_fuel w) w exp new); cbn [negb] in *; [|subst g0; discriminate].
  destruct (negb (exp =? 0) && (exp =? new)) eqn:E.
  - destruct (get m r =? exp); cbn [negb]; discriminate.
  - destruct (get v r =? exp); cbn [negb] in Hg; subst g0; cbn in Hr; try discriminate. contradiction.
Qed.

Lemma answered_in_intro w states v o g0 :
  In v states -> guard w v o = g0 -> g0 <> ROk -> answered_in w states o (report o g0) = true.
Proof.
  intros Hin Hg Hne. unfold answered_in. apply existsb_exists. exists v. split; [exact Hin|].
  cbn zeta. rewrite Hg. rewrite (result_eqb_neq g0 ROk Hne). cbn [negb andb].
  apply result_eqb_eq. reflexivity.
Qed.

Lemma delete_retry_merge w v g r ws m1 f1 f2 :
  attempt w 0 v (ODelete r ws) = (Edit m1, f1) ->
  attempt w f1 g (ODelete r ws) = (Fail RMergeNeeded, f2) ->
  get v r <> get g r.
Proof.
  cbn [attempt]. intros A1 A2.
  assert (Hf1 : f1 = get v r).
  { destruct (get v r =? 0) eqn:E0.
    - apply N.eqb_eq in E0. rewrite E0 in A1. cbn [negb andb N.eqb] in A1.
      dmatch A1; try discriminate. inversion A1. symmetry. exact E0.
    - cbn [negb andb N.eqb] in A1. rewrite N.eqb_refl in A1. cbn [negb] in A1.
      dmatch A1; try discriminate. inversion A1. reflexivity. }
  subst f1. intros Heq. rewrite Heq in A2.
  match type of A2 with context [if ?b then get g r else get g r] => destruct b end;
    rewrite N.eqb_refl in A2; cbn [negb] in A2;
    dmatch A2; try discriminate; inversion A2; eapply delete_check_not_merge; eauto.
Qed.

Definition seq_explained (w : world) (g : refs) (hist : list refs) (o : op) (r : result) : bool :=
  answered_in w (g :: hist) o r
  || (is_delete o && result_eqb r RMergeNeeded
      && existsb (fun a => negb (get a (op_name o) =? get g (op_name o))) hist).

Lemma call_fn_cases w g v o hist :
  In v (g :: hist) ->
  let '(r, g', v', ch) := call_fn w g v o in
  (result_eqb r ROk && result_eqb (guard w g o) ROk = true /\ g' = effect g o /\ v' = g')
  \/ (result_eqb r ROk && result_eqb (guard w g o) ROk = false /\ g' = g /\ In v' (g :: hist)
      /\ seq_explained w g hist o r = true).
Proof.
  intros Hv. unfold call_fn.
  assert (Hnoeff : forall st g0, In st (g :: hist) -> guard w st o = g0 -> g0 <> ROk ->
            result_eqb (report o g0) ROk && result_eqb (guard w g o) ROk = false
            /\ seq_explained w g hist o (report o g0) = true).
  { intros st g0 Hin Hg Hne. split.
    - destruct (result_eqb (report o g0) ROk) eqn:E; [|reflexivity].
      apply result_eqb_eq in E. cbn [andb]. apply result_eqb_neq.
      eapply reported_ok_never_applies; eauto.
    - unfold seq_explained. rewrite (answered_in_intro w (g :: hist) st o g0 Hin Hg Hne). reflexivity. }
  destruct (precheck w o) eqn:Hpre; cbn [negb].
  2:{ right. pose proof (precheck_false_guard w g o Hpre) as Hg.
      destruct (Hnoeff g RMergeNeeded (or_introl eq_refl) Hg ltac:(discriminate)) as [H1 H2].
      rewrite report_merge in H1, H2. split; [exact H1 | split; [reflexivity | split; [exact Hv | exact H2]]]. }
  destruct (attempt w 0 v o) as [[res|m1] f1] eqn:A1.
  { right. destruct (attempt_fail _ _ _ _ _ _ Hpre A1) as [[Hg Hne]|[Hd Hr]].
    - destruct (Hnoeff v res Hv Hg Hne) as [H1 H2]. split; [exact H1 | split; [reflexivity | split; [exact Hv | exact H2]]].
    - exfalso. destruct o; try discriminate. subst res. eapply attempt_delete_first0; eauto. }
  destruct (refs_eqb v g) eqn:E1.
  { left. apply refs_eqb_eq in E1. subst v.
    destruct (attempt_edit _ _ _ _ _ _ Hpre A1) as [Hg He]. rewrite Hg. cbn. auto. }
  destruct (attempt w f1 g o) as [[res|m2] f2] eqn:A2.
  - right. destruct (attempt_fail _ _ _ _ _ _ Hpre A2) as [[Hg Hne]|[Hd Hr]].
    + destruct (Hnoeff g res (or_introl eq_refl) Hg Hne) as [H1 H2].
      split; [exact H1 | split; [reflexivity | split; [left; reflexivity | exact H2]]].
    + destruct o; try discriminate. subst res. cbn [report].
      split; [reflexivity | split; [reflexivity | split; [left; reflexivity|]]].
      unfold seq_explained. cbn [is_delete op_name result_eqb andb].
      assert (Hne : get v r <> get g r) by (eapply delete_retry_merge; eauto).
      assert (Hin : In v hist).
      { destruct Hv as [Hv|Hv]; [|exact Hv]. subst v. rewrite refs_eqb_refl in E1. discriminate. }
      apply orb_true_iff. right. apply existsb_exists. exists v. split; [exact Hin|].
      apply negb_true_iff. apply N.eqb_neq. exact Hne.
  - left. destruct (attempt_edit _ _ _ _ _ _ Hpre A2) as [Hg He]. rewrite Hg. cbn. auto.
Qed.

Definition J (acts : list action) (cfg : config) (m : refs) (hist : list refs) : Prop :=
  g_refs cfg = m
  /\ forall c, c_pc (g_clients cfg c) = PIdle
               /\ c_todo (g_clients cfg c) = progs_of acts c
               /\ In (c_view (g_clients cfg c)) (m :: hist).

Lemma progs_of_op c o t c' :
  progs_of (AOp c o :: t) c' = (if c =? c' then [o] else []) ++ progs_of t c'.
Proof. reflexivity. Qed.

Lemma last_res_snoc d o r : last_res (d ++ [(o, r)]) = r.
Proof. unfold last_res. rewrite last_last. reflexivity. Qed.

Lemma run_call_char w c cfg :
  proj (run w (call_steps c) cfg) c = fold_left (cstep w c) call_labels (proj cfg c)
  /\ forall c', c' <> c -> g_clients (run w (call_steps c) cfg) c' = g_clients cfg c'.
Proof. exact (run_char w c call_labels cfg). Qed.

(* the same facts, packaged for other properties (C21): what one call does to the root *)
Local Strategy opaque [step run].
Lemma call_summary w c o t cfg m hist :
  J (AOp c o :: t) cfg m hist ->
  forall cfg' r, cfg' = run w (call_steps c) cfg -> r = last_res (c_done (g_clients cfg' c)) ->
  (result_eqb r ROk && result_eqb (guard w m o) ROk = true
   /\ g_refs cfg' = effect m o /\ J t cfg' (effect m o) (m :: hist))
  \/ (result_eqb r ROk && result_eqb (guard w m o) ROk = false
      /\ g_refs cfg' = m /\ seq_explained w m hist o r = true /\ J t cfg' m hist).
Proof.
  intros [Hm Hc] cfg' r0 Hcfg' Hr0.
  destruct (Hc c) as [Hp [Ht Hv]].
  destruct (g_clients cfg c) as [td p f v d] eqn:Ecl. cbn [c_pc c_todo c_view] in Hp, Ht, Hv. subst p.
  rewrite progs_of_op, N.eqb_refl in Ht. cbn [app] in Ht. subst td.
  destruct (run_call_char w c cfg) as [H1 H2]. rewrite <- Hcfg' in H1, H2.
  unfold proj in H1. rewrite Ecl, Hm in H1.
  change {| c_todo := o :: progs_of t c; c_pc := PIdle; c_first := f; c_view := v; c_done := d |}
    with (mkc (o :: progs_of t c) PIdle f v d) in H1.
  rewrite call_char in H1.
  pose proof (call_fn_cases w m v o hist Hv) as Hcases.
  destruct (call_fn w m v o) as [[[r g'] v'] ch] eqn:CF.
  pose proof (f_equal (fun t => fst (fst t)) H1) as G. pose proof (f_equal snd H1) as C.
  cbn [fst snd] in G, C. clear H1. rewrite C in Hr0. unfold mkc in Hr0. cbn [c_done] in Hr0.
  rewrite last_res_snoc in Hr0. subst r0.
  assert (Hothers : forall c', c' <> c ->
            c_pc (g_clients cfg' c') = PIdle /\ c_todo (g_clients cfg' c') = progs_of t c'
            /\ In (c_view (g_clients cfg' c')) (m :: hist)).
  { intros c' Hne. rewrite H2 by exact Hne. destruct (Hc c') as [Q1 [Q2 Q3]].
    rewrite progs_of_op in Q2. assert (E : (c =? c') = false) by (apply N.eqb_neq; congruence).
    rewrite E in Q2. auto. }
  clear Hcfg'.
  destruct Hcases as [[Ht1 [Hg' Hv']] | [Ht1 [Hg' [Hv' Hex]]]].
  - left. split; [exact Ht1 | split; [rewrite G; exact Hg'|]]. split; [rewrite G; exact Hg'|].
    intros c'. destruct (N.eq_dec c' c) as [->|Hne].
    + rewrite C. cbn [c_pc c_todo c_view]. subst v' g'.
      split; [reflexivity | split; [reflexivity | left; reflexivity]].
    + destruct (Hothers c' Hne) as [Q1 [Q2 Q3]]. split; [exact Q1 | split; [exact Q2 | right; exact Q3]].
  - right. split; [exact Ht1 | split; [rewrite G; exact Hg' | split; [exact Hex|]]].
    split; [rewrite G; exact Hg'|].
    intros c'. destruct (N.eq_dec c' c) as [->|Hne].
    + rewrite C. cbn [c_pc c_todo c_view]. split; [reflexivity | split; [reflexivity | exact Hv']].
    + apply Hothers. exact Hne.
Qed.

Lemma rebase_summary w c t cfg m hist :
  J (ARebase c :: t) cfg m hist ->
  g_refs (step w cfg (c, SRebase)) = m /\ J t (step w cfg (c, SRebase)) m hist.
Proof.
  intros [Hm Hc].
  destruct (step_char w cfg c SRebase) as [H1 H2]. unfold proj in H1.
  destruct (Hc c) as [Hp [Ht Hv]].
  cbn [cstep] in H1. rewrite Hp in H1.
  pose proof (f_equal (fun t => fst (fst t)) H1) as G. pose proof (f_equal snd H1) as C.
  cbn [fst snd] in G, C. split; [rewrite G; exact Hm|]. split; [rewrite G; exact Hm|].
  intros c'. destruct (N.eq_dec c' c) as [->|Hne].
  - rewrite C. cbn [c_pc c_todo c_view]. rewrite ?Hp, ?Ht, ?Hm. split; [reflexivity | split; [reflexivity | left; reflexivity]].
  - rewrite H2 by exact Hne. apply Hc.
Qed.

Lemma init_J m0 acts : J acts (init m0 (progs_of acts)) m0 [].
Proof. split; [reflexivity|]. intros c. cbn. split; [reflexivity | split; [reflexivity | left; reflexivity]]. Qed.

(* a success reported by an operation other than fast-forward always took effect *)
Lemma seq_explained_not_ok w m hist o :
  (forall g, report o g = g) -> seq_explained w m hist o ROk = false.
Proof.
  intros Hrep. unfold seq_explained. cbn [result_eqb]. rewrite andb_false_r. cbn [andb]. rewrite orb_false_r.
  unfold answered_in. destruct (existsb _ (m :: hist)) eqn:E; [|reflexivity].
  apply existsb_exists in E as [st [_ E]]. cbn zeta in E. rewrite Hrep in E.
  destruct (guard w st o); cbn in E; discriminate.
Qed.

Lemma oracle_seq_model w : forall acts cfg m hist,
  J acts cfg m hist ->
  oracle_seq w acts (snd (run_acts w acts cfg)) m hist (g_refs (fst (run_acts w acts cfg))) = true.
Proof.
  induction acts as [|a t IH]; intros cfg m hist HJ.
  - destruct HJ as [Hm _]. cbn. rewrite Hm. apply refs_eqb_refl.
  - destruct a as [c|c o].
    + cbn [run_acts oracle_seq]. apply IH. apply (rebase_summary w c t cfg m hist HJ).
    + cbn [run_acts].
      remember (run w (call_steps c) cfg) as cfg' eqn:Hcfg'.
      destruct (run_acts w t cfg') as [cf rs] eqn:R. cbn [fst snd oracle_seq].
      specialize (IH cfg'). rewrite R in IH. cbn [fst snd] in IH.
      destruct (call_summary w c o t cfg m hist HJ cfg' _ Hcfg' eq_refl) as [[T [G J']]|[T [G [E J']]]]; rewrite T.
      * apply IH. exact J'.
      * unfold seq_explained in E. rewrite E. apply IH. exact J'.
Qed.

(* Excluded class: none for sequential histories (the registered finding
   nbs-manifest-lock:identical-concurrent-update-both-succeed needs two concurrent calls).
   Concurrent batches have no single model observation: their check IS the oracle. *)
Theorem oracle_model_obs :
  forall i : input, i_conc i = false -> oracle i (model_obs i) = true.
Proof.
  intros i Hc. unfold oracle, model_obs. rewrite Hc.
  pose proof (oracle_seq_model (i_world i) (i_acts i) (init (i_m0 i) (progs_of (i_acts i))) (i_m0 i) []) as H.
  destruct (run_acts (i_world i) (i_acts i) (init (i_m0 i) (progs_of (i_acts i)))) as [cfg rs].
  cbn [o_results o_final]. apply H. split; [reflexivity|].
  intros c. cbn. split; [reflexivity | split; [reflexivity | left; reflexivity]].
Qed.

