(* C20 — the atomic (one-at-a-time) specification of ref updates: each operation
   is a guarded assignment on the dataset map; a history is linearizable when its
   effects and results are those of applying the successful operations one at a
   time.  Written independently of the optimistic loop.  No proofs here. *)
From Coq Require Import NArith List Bool.
From Dolt Require Import Base.Str C20.Model.
Import ListNotations.
Local Open Scope N_scope.

(* [anc w a b]: commit a is b or an ancestor of b (b is a descendant of a). *)
Inductive anc (w : world) : addr -> addr -> Prop :=
| anc_refl a : anc w a a
| anc_step a b p : In p (parents_of w b) -> anc w a p -> anc w a b.

(* Which datasets an operation names. *)
Definition touches (o : op) (k : name) : bool :=
  match o with
  | OCommit r _ _ _ | OFastForward r _ _ | OSetHead r _ | OTag r _ => k =? r
  | ODelete r ws => (k =? r) || (negb (ws =? 0) && (k =? ws))
  | OUpdateWS wn _ _ => k =? wn
  | OCommitWS r wn _ _ _ _ _ => (k =? r) || (k =? wn)
  end.

(* The condition of each operation, evaluated on the state it is applied to.
   ROk = the update takes effect; anything else = it fails with that error and
   changes nothing.
     commit        : head = expected, and (unless forced) expected is a parent of the new commit
     fast-forward  : head = expected, and expected is an ancestor of the new head
     set-head      : none (forcing operation)
     delete        : working set (if a path is given and it exists) is clean w.r.t. the head
     ws update     : working set = expected previous value
     commit+ws     : working set = expected previous value, head = expected, parent rule
     tag           : name not taken *)
Definition guard (w : world) (m : refs) (o : op) : result :=
  match o with
  | OCommit r exp new force =>
    if negb (force || (exp =? 0) || mem exp (parents_of w new)) then RMergeNeeded
    else if negb (get m r =? exp) then RMergeNeeded
    else if negb (exp =? 0) && (exp =? new) then RAlready
    else ROk
  | OFastForward r exp new =>
    if negb ((exp =? 0) || reach (world_fuel w) w exp new) then RMergeNeeded
    else if negb (get m r =? exp) then RMergeNeeded
    else if negb (exp =? 0) && (exp =? new) then RAlready
    else ROk
  | OSetHead _ _ => ROk
  | ODelete r ws => delete_check w m ws (get m r)
  | OUpdateWS wn prev _ => if get m wn =? prev then ROk else RLockFailed
  | OCommitWS r wn exp prevws new _ force =>
    if negb (force || (exp =? 0) || mem exp (parents_of w new)) then RMergeNeeded
    else if negb (get m wn =? prevws) then RLockFailed
    else if negb (get m r =? exp) then RMergeNeeded
    else ROk
  | OTag t _ => if get m t =? 0 then ROk else RExists
  end.

Definition effect (m : refs) (o : op) : refs :=
  match o with
  | OCommit r _ new _ | OFastForward r _ new | OSetHead r new | OTag r new => set m r new
  | ODelete r ws => if ws =? 0 then del m r else del (del m r) ws
  | OUpdateWS wn _ new => set m wn new
  | OCommitWS r wn _ _ new newws _ => set (set m r new) wn newws
  end.

Definition apply_op (w : world) (m : refs) (o : op) : refs * result :=
  match guard w m o with
  | ROk => (effect m o, ROk)
  | res => (m, report o res)
  end.

(* State after applying a list of (client, operation) one at a time. *)
Definition replay (w : world) (m0 : refs) (order : list (cid * op)) : refs :=
  fold_left (fun m co => fst (apply_op w m (snd co))) order m0.

(* Every operation of the order had its condition true in the state it was applied to. *)
Definition all_ok (w : world) (m0 : refs) (order : list (cid * op)) : Prop :=
  forall l1 c o l2, order = l1 ++ (c, o) :: l2 -> guard w (replay w m0 l1) o = ROk.

(* A returned result is consistent with the order when
   - it is a success that took effect: the operation is in the order (and by [all_ok]
     its condition held there), or
   - it had no effect and is the answer of the atomic operation in a state the
     store root actually had (a prefix of the order; possibly a stale one when the
     client's view was not rebased), or
   - it is a delete aborted with "merge needed" (doDelete gives up when it sees the
     head move between two of its own attempts). *)
Definition is_delete (o : op) : bool := match o with ODelete _ _ => true | _ => false end.

Definition consistent (w : world) (m0 : refs) (order : list (cid * op)) (c : cid) (o : op) (res : result) : Prop :=
  (res = ROk /\ exists l1 l2, order = l1 ++ (c, o) :: l2)
  \/ (exists l1 l2 g, order = l1 ++ l2 /\ guard w (replay w m0 l1) o = g /\ g <> ROk /\ res = report o g)
  \/ (is_delete o = true /\ res = RMergeNeeded).

(* The condition of a conditional update, as a proposition about the state it is applied to. *)
Definition cond_holds (w : world) (m : refs) (o : op) : Prop :=
  match o with
  | OCommit r exp new force =>
    get m r = exp /\ (force = true \/ exp = 0 \/ In exp (parents_of w new))
  | OFastForward r exp new => get m r = exp /\ (exp = 0 \/ anc w exp new)
  | OSetHead _ _ => True
  | ODelete r ws => ws = 0 \/ get m ws = 0 \/ ws_check w (get m ws) (get m r) = ROk
  | OUpdateWS wn prev _ => get m wn = prev
  | OCommitWS r wn exp prevws new _ force =>
    get m wn = prevws /\ get m r = exp /\ (force = true \/ exp = 0 \/ In exp (parents_of w new))
  | OTag t _ => get m t = 0
  end.

(* Ordinary (non-forcing) head moves: the dataset and the new head. *)
Definition ordinary (o : op) : option (name * addr) :=
  match o with
  | OCommit r _ new false => Some (r, new)
  | OFastForward r _ new => Some (r, new)
  | OCommitWS r wn _ _ new _ false => if r =? wn then None else Some (r, new)
  | _ => None
  end.

(* ---- boolean forms used by the correspondence oracle ---- *)
Fixpoint perms_fuel (fuel : nat) (l : list N) : list (list N) :=
  match fuel with
  | O => [[]]
  | S f =>
    match l with
    | [] => [[]]
    | _ => flat_map (fun x => map (cons x) (perms_fuel f (filter (fun y => negb (y =? x)) l))) l
    end
  end.
Definition perms (l : list N) : list (list N) := perms_fuel (length l) l.
