(* C20 — ref updates through datas.Database.  Executable small-step model of
     go/store/datas/database_common.go   database.update (optimistic loop), tryCommitChunks,
                                         doCommit, doFastForward, doSetHead, doDelete,
                                         doUpdateWorkingSet, CommitWithWorkingSet, doTag,
                                         BuildNewCommit (parent rule)
     go/store/chunks/memory_store.go     MemoryStoreView.Root / Commit / Rebase (cached root per view)
     go/store/nbs/store.go               NomsBlockStore.Root / Commit (upstream.root cached per handle)
   The store root is the dataset map (root hash = address of the map chunk; the
   compare-and-swap of root hashes is modelled as comparison of the maps, i.e. the
   address function is taken to be injective on dataset maps).  Commits and working
   sets are immutable content-addressed objects: the [world] is the (arbitrary) set of
   all of them that exist in a history.  No proofs here. *)
From Coq Require Import NArith List Bool.
From Dolt Require Import Base.Str.
Import ListNotations.
Local Open Scope N_scope.

Definition name := N.                 (* dataset id; 0 stands for "" (no working-set path) *)
Definition addr := N.                 (* 0 = hash.Hash{} : absent *)
Definition cid := N.                  (* client = one datas.Database handle over its own chunk-store view *)
Definition refs := list (name * addr).

(* prolly.AddressMap Get / Editor.Update / Editor.Delete *)
Fixpoint get (m : refs) (k : name) : addr :=
  match m with
  | [] => 0
  | (k', v) :: t => if k =? k' then v else get t k
  end.

Fixpoint set (m : refs) (k : name) (v : addr) : refs :=
  match m with
  | [] => [(k, v)]
  | (k', v') :: t =>
    if k =? k' then (k, v) :: t
    else if k <? k' then (k, v) :: m
    else (k', v') :: set t k v
  end.

Definition del (m : refs) (k : name) : refs := filter (fun e => negb (fst e =? k)) m.

Fixpoint refs_eqb (a b : refs) : bool :=
  match a, b with
  | [], [] => true
  | (k, v) :: a', (k', v') :: b' => (k =? k') && (v =? v') && refs_eqb a' b'
  | _, _ => false
  end.

(* ---- immutable objects ---- *)
Record world := {
  w_parents : list (addr * list addr);      (* commit -> parent commits *)
  w_root : list (addr * addr);              (* commit -> root value address (GetCommitRootHash) *)
  w_ws : list (addr * (addr * addr))        (* working set -> (working root, staged root) *)
}.

Fixpoint parents_in (l : list (addr * list addr)) (a : addr) : list addr :=
  match l with
  | [] => []
  | (k, ps) :: t => if a =? k then ps else parents_in t a
  end.
Definition parents_of (w : world) (a : addr) : list addr := parents_in (w_parents w) a.

Fixpoint lookup_root (l : list (addr * addr)) (a : addr) : addr :=
  match l with [] => 0 | (k, v) :: t => if a =? k then v else lookup_root t a end.
Definition root_of (w : world) (a : addr) : addr := lookup_root (w_root w) a.

Fixpoint lookup_ws (l : list (addr * (addr * addr))) (a : addr) : addr * addr :=
  match l with [] => (0, 0) | (k, v) :: t => if a =? k then v else lookup_ws t a end.
Definition ws_of (w : world) (a : addr) : addr * addr := lookup_ws (w_ws w) a.

Definition mem (a : addr) (l : list addr) : bool := existsb (N.eqb a) l.

(* FindCommonAncestor(curr, new) = curr, i.e. [a] is [b] or an ancestor of [b].
   [fuel] bounds the depth of the walk (the real walk is bounded by commit height). *)
Fixpoint reach (fuel : nat) (w : world) (a b : addr) : bool :=
  (a =? b) ||
  match fuel with
  | O => false
  | S f => existsb (reach f w a) (parents_of w b)
  end.
Definition world_fuel (w : world) : nat := S (length (w_parents w)).


(* ---- operations (arguments as the datas API receives them) ---- *)
Inductive op :=
| OCommit (r : name) (exp new : addr) (force : bool)
    (* Commit / WriteCommit with a Dataset handle whose head is [exp]; [force] = CommitOptions.Force or an amend *)
| OFastForward (r : name) (exp new : addr)          (* FastForward, wsPath = "" *)
| OSetHead (r : name) (new : addr)                  (* SetHead, wsPath = "", no preconditions *)
| ODelete (r : name) (ws : name)                    (* Delete; ws = 0: no working-set check *)
| OUpdateWS (wn : name) (prev new : addr)           (* UpdateWorkingSet *)
| OCommitWS (r wn : name) (exp prevws new newws : addr) (force : bool)   (* CommitWithWorkingSet *)
| OTag (t : name) (new : addr).                     (* Tag *)

(* ROther: any other error (doDelete's working-set check reading a head that is gone) *)
Inductive result := ROk | RMergeNeeded | RAlready | RLockFailed | RDirty | RExists | ROther.

Definition result_eqb (a b : result) : bool :=
  match a, b with
  | ROk, ROk | RMergeNeeded, RMergeNeeded | RAlready, RAlready
  | RLockFailed, RLockFailed | RDirty, RDirty | RExists, RExists | ROther, ROther => true
  | _, _ => false
  end.

(* doDelete's working-set check: staged = working, then the head commit is read
   (GetCommitRootHash fails when the head is gone), then staged = root of the head. *)
Definition ws_check (w : world) (wsaddr head : addr) : result :=
  let '(working, staged) := ws_of w wsaddr in
  if negb (staged =? working) then RDirty
  else if head =? 0 then ROther
  else if negb (staged =? root_of w head) then RDirty
  else ROk.

Definition delete_check (w : world) (m : refs) (ws : name) (curr : addr) : result :=
  if negb (ws =? 0) && negb (get m ws =? 0) then ws_check w (get m ws) curr else ROk.

(* Client-side check made once, before the update loop, against the handle's head:
   BuildNewCommit (the head must be among the parents of an ordinary commit) and
   doFastForward (FindCommonAncestor of handle head and new head is the handle head). *)
Definition precheck (w : world) (o : op) : bool :=
  match o with
  | OCommit _ exp new force => force || (exp =? 0) || mem exp (parents_of w new)
  | OCommitWS _ _ exp _ new _ force => force || (exp =? 0) || mem exp (parents_of w new)
  | OFastForward _ exp new => (exp =? 0) || reach (world_fuel w) w exp new
  | _ => true
  end.

(* One evaluation of the editFB closure on the dataset map [m] that was loaded.
   [first] is doDelete's captured firstHash (it survives retries). *)
Inductive outcome := Fail (res : result) | Edit (m : refs).

Definition attempt (w : world) (first : addr) (m : refs) (o : op) : outcome * addr :=
  match o with
  | OCommit r exp new _ =>                                   (* doCommit *)
    let curr := get m r in
    if negb (curr =? exp) then (Fail RMergeNeeded, first)
    else if negb (curr =? 0) && (curr =? new) then (Fail RAlready, first)
    else (Edit (set m r new), first)
  | OFastForward r exp new =>                                (* doFastForward, closure *)
    let curr := get m r in
    if negb (curr =? exp) then (Fail RMergeNeeded, first)
    else if negb (curr =? 0) && (curr =? new) then (Fail RAlready, first)
    else (Edit (set m r new), first)
  | OSetHead r new => (Edit (set m r new), first)            (* doSetHead, closure *)
  | ODelete r ws =>                                          (* doDelete *)
    let curr := get m r in
    let first' := if negb (curr =? 0) && (first =? 0) then curr else first in
    if negb (curr =? first') then (Fail RMergeNeeded, first')
    else match delete_check w m ws curr with
         | ROk => (Edit (if ws =? 0 then del m r else del (del m r) ws), first')
         | res => (Fail res, first')
         end
  | OUpdateWS wn prev new =>                                 (* doUpdateWorkingSet *)
    if negb (get m wn =? prev) then (Fail RLockFailed, first)
    else (Edit (set m wn new), first)
  | OCommitWS r wn exp prevws new newws _ =>                 (* CommitWithWorkingSet, closure *)
    if negb (get m wn =? prevws) then (Fail RLockFailed, first)
    else if negb (get m r =? exp) then (Fail RMergeNeeded, first)
    else (Edit (set (set m r new) wn newws), first)
  | OTag t new =>                                            (* doTag *)
    if negb (get m t =? 0) then (Fail RExists, first)
    else (Edit (set m t new), first)
  end.

(* What the API call returns for an editFB error: doFastForward maps ErrAlreadyCommitted to nil. *)
Definition report (o : op) (res : result) : result :=
  match o, res with
  | OFastForward _ _ _, RAlready => ROk
  | _, _ => res
  end.

(* ---- clients and the global configuration ---- *)
Inductive pc :=
| PIdle                         (* next call not started *)
| PTry                          (* inside database.update, about to read Root() and run editFB *)
| PCas (seen new : refs).       (* new root chunk written, about to call Commit(new, seen) *)

Record client := {
  c_todo : list op;             (* calls this client will make, in order *)
  c_pc : pc;
  c_first : addr;               (* doDelete's firstHash for the call in progress *)
  c_view : refs;                (* root cached by this client's chunk-store view (Root()) *)
  c_done : list (op * result)   (* finished calls with what they returned *)
}.

Record config := {
  g_refs : refs;                         (* the persisted store root *)
  g_clients : cid -> client;
  g_log : list (cid * op)                (* ghost: successful root CASes, in order *)
}.

Inductive label := SBegin | SAttempt | SCas | SRebase.

Definition upd (f : cid -> client) (c : cid) (v : client) : cid -> client :=
  fun x => if x =? c then v else f x.

Definition finish (cl : client) (o : op) (rest : list op) (view : refs) (res : result) : client :=
  {| c_todo := rest; c_pc := PIdle; c_first := 0; c_view := view; c_done := c_done cl ++ [(o, res)] |}.

Definition step (w : world) (cfg : config) (e : cid * label) : config :=
  let '(c, lbl) := e in
  let cl := g_clients cfg c in
  match lbl with
  | SRebase =>                                               (* Rebase(): refresh the cached root *)
    match c_pc cl with
    | PCas _ _ => cfg
    | _ => {| g_refs := g_refs cfg; g_log := g_log cfg;
              g_clients := upd (g_clients cfg) c
                {| c_todo := c_todo cl; c_pc := c_pc cl; c_first := c_first cl;
                   c_view := g_refs cfg; c_done := c_done cl |} |}
    end
  | _ =>
    match c_todo cl with
    | [] => cfg
    | o :: rest =>
      match lbl, c_pc cl with
      | SBegin, PIdle =>
        {| g_refs := g_refs cfg; g_log := g_log cfg;
           g_clients := upd (g_clients cfg) c
             (if precheck w o
              then {| c_todo := c_todo cl; c_pc := PTry; c_first := 0; c_view := c_view cl; c_done := c_done cl |}
              else finish cl o rest (c_view cl) RMergeNeeded) |}
      | SAttempt, PTry =>
        {| g_refs := g_refs cfg; g_log := g_log cfg;
           g_clients := upd (g_clients cfg) c
             (match attempt w (c_first cl) (c_view cl) o with
              | (Fail res, _) => finish cl o rest (c_view cl) (report o res)
              | (Edit m', f) => {| c_todo := c_todo cl; c_pc := PCas (c_view cl) m'; c_first := f;
                                    c_view := c_view cl; c_done := c_done cl |}
              end) |}
      | SCas, PCas seen new =>
        if refs_eqb seen (g_refs cfg)
        then {| g_refs := new; g_log := g_log cfg ++ [(c, o)];
                g_clients := upd (g_clients cfg) c (finish cl o rest new ROk) |}
        else {| g_refs := g_refs cfg; g_log := g_log cfg;
                g_clients := upd (g_clients cfg) c
                  {| c_todo := c_todo cl; c_pc := PTry; c_first := c_first cl;
                     c_view := g_refs cfg; c_done := c_done cl |} |}
      | _, _ => cfg
      end
    end
  end.

Definition run (w : world) (sched : list (cid * label)) (cfg : config) : config :=
  fold_left (step w) sched cfg.

Definition init (m0 : refs) (progs : cid -> list op) : config :=
  {| g_refs := m0; g_log := [];
     g_clients := fun c => {| c_todo := progs c; c_pc := PIdle; c_first := 0; c_view := m0; c_done := [] |} |}.

(* ---- the NBS flavour of the root compare-and-swap ----
   NomsBlockStore.updateManifest decides whether its manifest update won by comparing the
   lock hash of the contents it tried to write with the lock of the manifest it got back
   (store.go:1711 "if newContents.lock != upstream.lock"); the lock is a hash of (root,
   table specs) only (manifest.go generateLockHash).  A writer that lost the race to a
   writer publishing byte-identical contents (same new root, same table files) therefore
   takes the other's update for its own.  [step_lockhash] adds exactly that case. *)
Definition step_lockhash (w : world) (cfg : config) (e : cid * label) : config :=
  let '(c, lbl) := e in
  let cl := g_clients cfg c in
  match lbl, c_todo cl, c_pc cl with
  | SCas, o :: rest, PCas seen new =>
    if negb (refs_eqb seen (g_refs cfg)) && refs_eqb new (g_refs cfg)
    then {| g_refs := new; g_log := g_log cfg ++ [(c, o)];
            g_clients := upd (g_clients cfg) c (finish cl o rest new ROk) |}
    else step w cfg e
  | _, _, _ => step w cfg e
  end.
