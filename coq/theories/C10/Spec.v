(* C10 — the property, stated independently of the readers' algorithms.

   "Opening or reading a database whose files contain arbitrary corrupted bytes either
    returns an error or returns correct data; it never crashes the process and never
    returns a chunk whose content does not match its address."

   no crash   : no reader ever answers Panic                         ([panic_free])
   no misread : what a lookup of address h hands out is the checksummed record the index
                designates for h                                     ([designated], [record_at])
   The guards under which the table reader is panic free today are [index_guards]; they are
   exactly what a validating parseTableIndex would have to reject. *)
From Coq Require Import NArith List Bool.
From Dolt Require Import Base.Str C10.Model.
Import ListNotations.
Local Open Scope N_scope.

Definition would_panic {A} (r : res A) : Prop := r = Panic.
Definition panic_free {A} (r : res A) : Prop := r <> Panic.
Definition panic_freeb {A} (r : res A) : bool := match r with Panic => false | _ => true end.

(* length of record [ord] as getIndexEntry computes it (uint32 of the difference of consecutive offsets) *)
Definition entry_len (t : tindex) (ord : N) : N :=
  let prev := if ord =? 0 then 0 else nth (N.to_nat (ord - 1)) (ti_offsets t) 0 in
  let o := nth (N.to_nat ord) (ti_offsets t) 0 in
  ((o + 18446744073709551616 - prev) mod 18446744073709551616) mod 4294967296.

Fixpoint below (k : nat) : list N :=
  match k with O => [] | S k' => below k' ++ [N.of_nat k'] end.

(* the consistency conditions the Go parser does NOT check *)
Definition ordinals_ok (t : tindex) : bool :=
  forallb (fun idx => ord_at t idx <? ti_count t) (below (N.to_nat (ti_count t))).
Definition lengths_ok (t : tindex) : bool :=
  forallb (fun ord => (4 <=? entry_len t ord) && (entry_len t ord <=? iter_buf_size)) (below (N.to_nat (ti_count t))).
Definition index_guards (t : tindex) : bool := ordinals_ok t && lengths_ok t.

(* tuple [idx] of the index names address [h] *)
Definition designated (t : tindex) (h : bytes) (idx : N) : Prop :=
  idx < ti_count t /\ prefix_at t idx = addr_prefix h /\
  suffix_at t (ord_at t idx) = Ok (addr_suffix h).

(* [comp] followed by its big-endian checksum is what the file holds at [off, off+len) *)
Definition record_at (crc : bytes -> N) (file : bytes) (off len : N) (comp : bytes) : Prop :=
  off + len <= blen file /\ 4 <= len /\
  comp = sub (sub file off len) 0 (len - 4) /\
  be (sub (sub file off len) (len - 4) 4) = crc comp.
