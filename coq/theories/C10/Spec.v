(* C10 — the property, stated independently of the readers' algorithms.

   "Opening or reading a database whose files contain arbitrary corrupted bytes either
    returns an error or returns correct data; it never crashes the process and never
    returns a chunk whose content does not match its address."

   no crash   : no reader ever answers Panic                         ([panic_free])
   no misread : what a lookup of address h hands out is the checksummed record the index
                designates for h                                     ([designated], [record_at])
   (The consistency conditions the readers need — every reached ordinal < count, every handed-out
   record at least as long as its checksum — are now checked by the Go code itself and are part of
   the model, so panic freedom is stated without side conditions.) *)
From Coq Require Import NArith List Bool.
From Dolt Require Import Base.Str C10.Model.
Import ListNotations.
Local Open Scope N_scope.

Definition would_panic {A} (r : res A) : Prop := r = Panic.
Definition panic_free {A} (r : res A) : Prop := r <> Panic.
Definition panic_freeb {A} (r : res A) : bool := match r with Panic => false | _ => true end.

(* tuple [idx] of the index names address [h] *)
Definition designated (t : tindex) (h : bytes) (idx : N) : Prop :=
  idx < ti_count t /\ prefix_at t idx = addr_prefix h /\
  suffix_at t (ord_at t idx) = Ok (addr_suffix h).

(* [comp] followed by its big-endian checksum is what the file holds at [off, off+len) *)
Definition record_at (crc : bytes -> N) (file : bytes) (off len : N) (comp : bytes) : Prop :=
  off + len <= blen file /\ 4 <= len /\
  comp = sub (sub file off len) 0 (len - 4) /\
  be (sub (sub file off len) (len - 4) 4) = crc comp.
