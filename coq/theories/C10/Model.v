(* C10 — validating-parser models of dolt's storage readers.  No proofs here.

   Every function returns [Ok v | Err | Panic]:
     Err   = the Go code returns an error,
     Panic = the Go code performs a slice / index operation out of range
             (or calls a panicking helper) — the process would crash.
   The model follows the code AFTER the repairs of F3 and of the journal / manifest findings
   (guards in entrySuffixMatches, indexEntry, lookup, NewCompressedChunk, iterateAllChunks,
   readJournalRecord, parseV4/V5Manifest).  The Panic branches that remain are the ones the
   theorems prove unreachable (offset_at beyond count, validateJournalRecord's underflow) and
   hash_at, which is still unguarded.
   Only the bounds and consistency checks the Go code performs are modelled;
   where the Go code slices without a guard the model computes the same bound
   Go's runtime checks (including *capacity* semantics of s[lo:hi] on a
   sub-slice) and answers Panic when it fails.

   Sizes: counts, offsets, lengths are N; Go's uint32/uint64 wrap-around is
   modelled where it is reachable (uint32(ordOff - prevOff)).  The only
   32-bit wrap that is not modelled is chunks1*offsetSize in parseTableIndex
   (needs a footer count >= 2^29, i.e. a file > 15 GB to pass the size check). *)
From Coq Require Import NArith List Bool.
From Dolt Require Import Base.Str.
Import ListNotations.
Local Open Scope N_scope.

Inductive res (A : Type) := Ok (a : A) | Err | Panic.
Arguments Ok {A} a.
Arguments Err {A}.
Arguments Panic {A}.

Definition bind {A B} (x : res A) (f : A -> res B) : res B :=
  match x with Ok a => f a | Err => Err | Panic => Panic end.

Definition blen (b : bytes) : N := N.of_nat (length b).
(* b[off : off+n] once the caller has established off+n <= len b *)
Definition sub (b : bytes) (off n : N) : bytes := firstn (N.to_nat n) (skipn (N.to_nat off) b).
(* binary.BigEndian.UintNN *)
Definition be (b : bytes) : N := fold_left (fun a x => a * 256 + x) b 0.
Fixpoint enc_be (k : nat) (v : N) : bytes :=
  match k with O => [] | S k' => ((v / 256 ^ N.of_nat k') mod 256) :: enc_be k' v end.

(* ---- crc32c (hash/crc32 Castagnoli, crc32.Update(0, table, b)) -------------- *)
Definition crc_bit (c : N) : N :=
  if N.testbit c 0 then N.lxor (N.shiftr c 1) 2197175160 (* 0x82F63B78 *) else N.shiftr c 1.
Definition crc_step (c b : N) : N :=
  crc_bit (crc_bit (crc_bit (crc_bit (crc_bit (crc_bit (crc_bit (crc_bit (N.lxor c b)))))))).
Definition crc32c (l : bytes) : N := N.lxor (fold_left crc_step l 4294967295) 4294967295.

(* =====================================================================
   1. table file footer + index   (go/store/nbs/table_index.go, table_reader.go,
      file_table_reader.go)
   ===================================================================== *)

Definition magic : bytes := [255; 181; 216; 194; 36; 99; 238; 80].

(* onHeapTableIndex after newOnHeapTableIndex:
   ti_buf     = indexBuff as it is after the in-place lengths -> offsets rewrite:
                tuples ++ offsets2 (8*(c/2) bytes) ++ [last length if c odd] ++ suffixes ++ footer
   ti_offsets = the c cumulative offsets (offsets1 ++ offsets2 as numbers) *)
Record tindex := { ti_count : N; ti_total : N; ti_buf : bytes; ti_offsets : list N }.

Fixpoint cumul (acc : N) (ls : list N) : list N :=
  match ls with [] => [] | l :: r => (acc + l) :: cumul (acc + l) r end.

Fixpoint chunks_of (k : nat) (sz : N) (b : bytes) : list bytes :=
  match k with O => [] | S k' => sub b 0 sz :: chunks_of k' sz (skipn (N.to_nat sz) b) end.

(* ReadTableFooter on the last 20 bytes of [buff]  (table_index.go:85) *)
Definition read_footer (buff : bytes) : res (N * N) :=
  let n := blen buff in
  if n <? 20 then Err                                  (* Seek(-20, End): negative position *)
  else let f := sub buff (n - 20) 20 in
       if beq_bytes (sub f 12 8) magic then Ok (be (sub f 0 4), be (sub f 4 8))
       else Err.                                       (* ErrInvalidTableFile / ErrUnsupportedTableFileFormat *)

(* parseTableIndex + newOnHeapTableIndex  (table_index.go:119, :228) *)
Definition parse_table_index (buff : bytes) : res tindex :=
  bind (read_footer buff) (fun '(c, total) =>
    if negb (blen buff =? 28 * c + 20) then Err        (* ErrWrongBufferSize *)
    else
      let cn := N.to_nat c in
      let lens := map be (chunks_of cn 4 (sub buff (12 * c) (4 * c))) in
      let offs := cumul 0 lens in
      let c1 := c - c / 2 in
      let offs2 := skipn (N.to_nat c1) offs in
      let lenreg := concat (map (enc_be 8) offs2)
                    ++ (if N.odd c then sub buff (16 * c - 4) 4 else []) in
      Ok {| ti_count := c; ti_total := total;
            ti_buf := sub buff 0 (12 * c) ++ lenreg ++ sub buff (16 * c) (12 * c + 20);
            ti_offsets := offs |}).

(* nomsFileTableReader (file_table_reader.go:120): read the last indexSize(cnt)+footerSize
   bytes of the file, parse, compare the footer count with the manifest's count *)
Definition open_table (file : bytes) (cnt : N) : res tindex :=
  let sz := blen file in
  let isz := 28 * cnt + 20 in
  if sz <? isz then Err                                (* ReadAt at a negative offset *)
  else bind (parse_table_index (sub file (sz - isz) isz)) (fun t =>
         if ti_count t =? cnt then Ok t else Err).     (* "unexpected chunk count" *)

(* prefixAt / ordinalAt: idx < count at every call site, always in bounds *)
Definition prefix_at (t : tindex) (idx : N) : N := be (sub (ti_buf t) (12 * idx) 8).
Definition ord_at (t : tindex) (idx : N) : N := be (sub (ti_buf t) (12 * idx + 8) 4).

(* ti.suffixes[o : o+12] with o = 12*ord, behind the guard entrySuffixMatches and indexEntry
   now carry (table_index.go:286, :296): ord >= count => ErrInvalidTableFile.  With ord < count
   the slice is within len(suffixes) = 12*c. *)
Definition suffix_at (t : tindex) (ord : N) : res bytes :=
  let c := ti_count t in
  if ord <? c then Ok (sub (ti_buf t) (16 * c + 12 * ord) 12) else Err.

(* hashAt (table_index.go:448) itself has no guard: the same slice, checked by Go only against the
   capacity of suffixes (12*c suffix bytes + 20 footer bytes).  Its only caller, ResolveShortHash,
   now checks ordinalAt(i) < count first (see [resolve] below). *)
Definition hash_at (t : tindex) (idx : N) : res bytes :=
  let c := ti_count t in
  let ord := ord_at t idx in
  if 12 * ord + 12 <=? 12 * c + 20 then Ok (sub (ti_buf t) (12 * idx) 8 ++ sub (ti_buf t) (16 * c + 12 * ord) 12) else Panic.

(* offsetAt (table_index.go:391).  For ord < count the bytes read (offsets1, or the first
   8*(c/2) bytes of offsets2, which OffsetsReader filled with offsets c1..c-1) hold the cumulative
   offset of [ord]; the slice is in bounds: 8*(ord-c1)+8 <= 8*(c/2) <= 4*c = len(offsets2).
   For ord >= count Go would re-slice offsets2 beyond its length but within its capacity (the rest
   of indexBuff) and decode whatever is there, or panic past the capacity: kept in the model, and
   proved unreachable now that every caller checks ord < count first. *)
Definition offset_at (t : tindex) (ord : N) : res N :=
  let c := ti_count t in
  let c1 := c - c / 2 in
  if ord <? c then Ok (nth (N.to_nat ord) (ti_offsets t) 0)
  else let off := 8 * (ord - c1) in
       (* ti.offsets2[off : off+8]; cap(offsets2) = len(indexBuff) - 12*c *)
       if off + 8 <=? blen (ti_buf t) - 12 * c then Ok (be (sub (ti_buf t) (12 * c + off) 8)) else Panic.

(* getIndexEntry (table_index.go:315): (offset, length) with length = uint32(ordOff - prevOff) *)
Definition get_index_entry (t : tindex) (ord : N) : res (N * N) :=
  bind (if ord =? 0 then Ok 0 else offset_at t (ord - 1)) (fun prev =>
  bind (offset_at t ord) (fun o =>
    Ok (prev, ((o + 18446744073709551616 - prev) mod 18446744073709551616) mod 4294967296))).

(* findPrefix (table_index.go:351): binary search, mirrored step by step *)
Fixpoint find_prefix_loop (fuel : nat) (t : tindex) (p i j : N) : N :=
  match fuel with
  | O => i
  | S f => if i <? j then
             let h := i + (j - i) / 2 in
             if prefix_at t h <? p then find_prefix_loop f t p (h + 1) j
             else find_prefix_loop f t p i h
           else i
  end.
Definition find_prefix (t : tindex) (p : N) : N :=
  find_prefix_loop (S (N.to_nat (ti_count t))) t p 0 (ti_count t).

Definition addr_prefix (h : bytes) : N := be (sub h 0 8).
Definition addr_suffix (h : bytes) : bytes := sub h 8 12.

(* the scan shared by lookupOrdinal (table_index.go:333) and findOffsets (table_reader.go:611):
   walk idx upward while the prefix matches, compare suffixes; result = matching tuple index *)
Fixpoint match_loop (fuel : nat) (t : tindex) (h : bytes) (idx : N) : res (option N) :=
  match fuel with
  | O => Ok None
  | S f =>
    if (idx <? ti_count t) && (prefix_at t idx =? addr_prefix h) then
      bind (suffix_at t (ord_at t idx)) (fun s =>
        if beq_bytes s (addr_suffix h) then Ok (Some idx) else match_loop f t h (idx + 1))
    else Ok None
  end.

(* lookup (table_index.go:330): None = absent; an entry shorter than the checksum is
   ErrInvalidTableFile (:339) *)
Definition lookup (t : tindex) (h : bytes) : res (option (N * N)) :=
  bind (match_loop (N.to_nat (ti_count t)) t h (find_prefix t (addr_prefix h))) (fun m =>
    match m with
    | None => Ok None
    | Some idx =>
      let ord := ord_at t idx in
      if ord =? ti_count t then Ok None
      else bind (get_index_entry t ord) (fun e => if snd e <? 4 then Err else Ok (Some e))
    end).

(* indexEntry(idx, nil) (table_index.go:294): ordinal guard, getIndexEntry, length guard *)
Definition index_entry_nil (t : tindex) (idx : N) : res (N * N) :=
  let ord := ord_at t idx in
  if ti_count t <=? ord then Err
  else bind (get_index_entry t ord) (fun e => if snd e <? 4 then Err else Ok e).

(* tableReader.has (table_reader.go:279) *)
Definition has (t : tindex) (h : bytes) : res bool :=
  bind (lookup t h) (fun e => Ok (match e with Some _ => true | None => false end)).

(* ---- ResolveShortHash (table_index.go:564, after commit a794b79) ---------------------- *)

(* base32 in dolt's alphabet 0-9a-v: character -> 5-bit digit *)
Definition is_b32 (b : N) : bool := ((48 <=? b) && (b <=? 57)) || ((97 <=? b) && (b <=? 118)).
Definition b32_val (c : N) : N := if c <=? 57 then c - 48 else c - 87.
Definition valid_short (s : bytes) : bool := (blen s <=? 32) && forallb is_b32 s.
Definition digits_val (ds : list N) : N := fold_left (fun a d => a * 32 + d) ds 0.
Fixpoint enc_digits (k : nat) (v : N) : list N :=
  match k with O => [] | S k' => ((v / 32 ^ N.of_nat k') mod 32) :: enc_digits k' v end.
(* padStringAndDecode: "0" pads on the right, any other pad character on the LEFT (as written) *)
Definition pad_lo (ds : list N) : N := digits_val (ds ++ repeat 0 (32 - length ds)) / 2 ^ 96.
Definition pad_hi (ds : list N) : N := digits_val (repeat 31 (32 - length ds) ++ ds) / 2 ^ 96.

(* prefixIdxLBound is the same loop as findPrefix *)
(* prefixIdxUBound (table_index.go:485) *)
Fixpoint ubound_loop (fuel : nat) (t : tindex) (p l r : N) : N :=
  match fuel with
  | O => l
  | S f => if l <? r then
             let m := l + (r - l + 1) / 2 in
             if ti_count t <=? m then r
             else if prefix_at t m <=? p then ubound_loop f t p m r else ubound_loop f t p l (m - 1)
           else l
  end.

(* for pIdxU < ti.count && sPrefix == ti.prefixAt(pIdxU) *)
Fixpoint eq_scan (fuel : nat) (t : tindex) (p u : N) : N :=
  match fuel with
  | O => u
  | S f => if (u <? ti_count t) && (prefix_at t u =? p) then eq_scan f t p (u + 1) else u
  end.

Fixpoint resolve_loop (fuel : nat) (t : tindex) (ds : list N) (i u : N) (acc : list bytes) : res (list bytes) :=
  match fuel with
  | O => Ok (rev acc)
  | S f =>
    if i <? u then
      if ti_count t <=? ord_at t i then Err                         (* ErrInvalidTableFile (:609) *)
      else bind (hash_at t i) (fun h =>
             resolve_loop f t ds (i + 1) u
               (if beq_bytes (firstn (length ds) (enc_digits 32 (be h))) ds then h :: acc else acc))
    else Ok (rev acc)
  end.

(* Panic for a [short] that is not at most 32 base32 characters: hash.Parse in padStringAndDecode
   (a caller-side precondition, not file content) *)
Definition resolve (t : tindex) (short : bytes) : res (list bytes) :=
  if negb (valid_short short) then Panic
  else
    let ds := map b32_val short in
    let c := ti_count t in
    if 13 <=? blen short then
      let p := pad_lo ds in
      let l := find_prefix t p in
      if l =? c then Err                                             (* "can't find prefix" *)
      else resolve_loop (N.to_nat c) t ds l (eq_scan (N.to_nat c) t p (l + 1)) []
    else
      resolve_loop (N.to_nat c) t ds (find_prefix t (pad_lo ds))
                   (ubound_loop (S (N.to_nat c)) t (pad_hi ds) 0 c) [].

Section WithCrc.
Variable crc : bytes -> N.

(* NewCompressedChunk (table_reader.go:68): a buffer shorter than the checksum is an error (:69) *)
Definition new_compressed_chunk (buff : bytes) : res bytes :=
  let n := blen buff in
  if n <? 4 then Err
  else let comp := sub buff 0 (n - 4) in
       if be (sub buff (n - 4) 4) =? crc comp then Ok comp else Err.   (* "checksum error" *)

(* tableReader.get (table_reader.go:289): None = absent; Ok (Some comp) = the snappy bytes handed
   to ToChunk (decompression is outside the model) *)
Definition get (file : bytes) (t : tindex) (h : bytes) : res (option bytes) :=
  bind (lookup t h) (fun e =>
    match e with
    | None => Ok None
    | Some (off, len) =>
      (* ReadAt(buff[len], off): error unless the file holds len bytes at off (an empty read succeeds) *)
      if (0 <? len) && ((blen file <? off + len) || (9223372036854775808 <=? off)) then Err
      else bind (new_compressed_chunk (sub file off len)) (fun comp =>
             if blen comp =? 0 then Err                (* "failed to get data" *)
             else Ok (Some comp))
    end).

(* ---- getMany: findOffsets (table_reader.go:571) ------------------------------ *)

(* binary search over tr.prefixes continuing from filterIdx *)
Fixpoint filter_loop (fuel : nat) (t : tindex) (p i j : N) : N :=
  match fuel with
  | O => i
  | S f => if i <? j then
             let h := i + (j - i) / 2 in
             if prefix_at t h <? p then filter_loop f t p (h + 1) j else filter_loop f t p i h
           else i
  end.

(* reqs sorted by prefix; returns the (offset,length) records found *)
Fixpoint find_offsets (t : tindex) (reqs : list bytes) (fi : N) (acc : list (N * N)) : res (list (N * N)) :=
  match reqs with
  | [] => Ok (rev acc)
  | h :: rest =>
    let c := ti_count t in
    let fi' := filter_loop (S (N.to_nat c)) t (addr_prefix h) fi c in
    if c <=? fi' then Ok (rev acc)                                  (* last prefix visited: break *)
    else if negb (addr_prefix h =? prefix_at t fi') then find_offsets t rest fi' acc
    else bind (match_loop (N.to_nat c) t h fi') (fun m =>
           match m with
           | None => find_offsets t rest fi' acc
           | Some idx => bind (index_entry_nil t idx) (fun e => find_offsets t rest fi' (e :: acc))
           end)
  end.

Fixpoint insert_by {A} (key : A -> N) (x : A) (l : list A) : list A :=
  match l with
  | [] => [x]
  | y :: r => if key x <? key y then x :: l else y :: insert_by key x r
  end.
(* stable insertion sort: what sort.Sort / sort.Slice do for n <= 12 *)
Definition sort_by {A} (key : A -> N) (l : list A) : list A := fold_left (fun acc x => insert_by key x acc) l [].

Inductive gm := GMCrash | GMNoCrash.

(* getMany: a panic in the lookup phase crashes the caller.  The records found have length >= 4
   and lie at cumulative (hence ordered, disjoint) offsets, so every batch buffer covers its
   members and NewCompressedChunk gets at least the checksum: the reader goroutines cannot panic. *)
Definition get_many (t : tindex) (reqs : list bytes) : gm :=
  match find_offsets t (sort_by addr_prefix reqs) 0 [] with
  | Panic => GMCrash
  | _ => GMNoCrash
  end.

(* ---- iterateAllChunks (table_reader.go:819) ----------------------------------- *)

(* indexEntry(idx, &h) (table_index.go:294): ordinal guard, suffix slice, getIndexEntry, length guard *)
Definition index_entry (t : tindex) (idx : N) : res (N * N * bytes) :=
  let ord := ord_at t idx in
  bind (suffix_at t ord) (fun s =>
  bind (get_index_entry t ord) (fun e =>
    if snd e <? 4 then Err else Ok (fst e, snd e, sub (ti_buf t) (12 * idx) 8 ++ s))).

Fixpoint collect (t : tindex) (k : nat) (idx : N) : res (list (N * N * bytes)) :=
  match k with
  | O => Ok []
  | S k' => bind (index_entry t idx) (fun e => bind (collect t k' (idx + 1)) (fun r => Ok (e :: r)))
  end.

(* sequential read of the records in offset order from position 0 of the file, bounded by
   last.offset+last.length; the scratch buffer grows to the record (:867) and a short read is an
   error (:871).  Returns (address from the index, compressed bytes) of what is delivered. *)
Fixpoint iter_loop (file : bytes) (limit : N) (recs : list (N * N * bytes)) (pos : N)
         (acc : list (bytes * bytes)) : res (list (bytes * bytes)) :=
  match recs with
  | [] => Ok (rev acc)
  | (_, len, h) :: rest =>
    let avail := N.min limit (blen file) - pos in
    if avail <? len then Err                                        (* io.ReadFull: (unexpected) EOF *)
    else bind (new_compressed_chunk (sub file pos len)) (fun comp =>
           iter_loop file limit rest (pos + len) ((h, comp) :: acc))
  end.

Definition iterate (file : bytes) (t : tindex) : res (list (bytes * bytes)) :=
  if ti_count t =? 0 then Ok []
  else bind (collect t (N.to_nat (ti_count t)) 0) (fun recs =>
    let sorted := sort_by (fun e => fst (fst e)) recs in
    let last := List.last sorted (0, 0, []) in
    let total := fst (fst last) + snd (fst last) in
    let limit := if 9223372036854775808 <=? total then 0 else total in
    iter_loop file limit sorted 0 []).

(* =====================================================================
   1b. archive files   (go/store/nbs/archive_reader.go, archive_chunk_source.go)
   ===================================================================== *)

Definition u64 : N := 18446744073709551616.
Definition i63 : N := 9223372036854775808.
Definition sub64 (a b : N) : N := (a + u64 - b mod u64) mod u64.        (* uint64 a - b *)
Definition archive_sig : bytes := [68; 79; 76; 84; 65; 82; 67].         (* "DOLTARC" *)

Record afooter := { af_ver : N; af_isz : N; af_nspans : N; af_chunks : N; af_meta : N; af_fsz : N }.

(* loadFooter + buildArchiveFooter (archive_reader.go:419, :429) *)
Definition load_footer (file : bytes) : res afooter :=
  let n := blen file in
  if n <? 220 then Err                                 (* ReadAt at a negative offset *)
  else let buf := sub file (n - 220) 220 in
       let ver := nth 212 buf 0 in
       if negb (beq_bytes (sub buf 213 7) archive_sig) then Err       (* ErrInvalidFileSignature *)
       else if 3 <? ver then Err                                        (* ErrInvalidFormatVersion; 0 passes *)
       else
         let isz := if ver <? 3 then be (sub buf 4 4) else be (sub buf 0 8) in
         let ns := be (sub buf 8 4) in let c := be (sub buf 12 4) in let meta := be (sub buf 16 4) in
         (* e8df418: the index size must match the counts and the three trailing sections must fit in the file *)
         if negb (isz =? 8 * ns + 28 * c) || (n <? (if ver <? 3 then 216 else 220) + meta + isz) then Err   (* ErrInvalidChunkRange *)
         else Ok {| af_ver := ver; af_isz := isz; af_nspans := ns; af_chunks := c; af_meta := meta; af_fsz := n |}.

Definition af_footer_size (f : afooter) : N := if af_ver f <? 3 then 216 else 220.
(* totalIndexSpan().offset, uint64 arithmetic (archive_reader.go:89) *)
Definition af_index_off (f : afooter) : N := sub64 (sub64 (sub64 (af_fsz f) (af_footer_size f)) (af_meta f)) (af_isz f).
Definition af_data_len (f : afooter) : N := af_index_off f.              (* dataSpan().length: same expression *)

(* io.NewSectionReader(reader, int64(off), int64(len)) read in full *)
Definition read_section (file : bytes) (off len : N) : res bytes :=
  if len =? 0 then Ok []
  else if i63 <=? off then Err                          (* negative offset *)
  else if blen file <? off + len then Err               (* EOF / unexpected EOF *)
  else Ok (sub file off len).

Record aindex := { ax_f : afooter; ax_spans : list N (* spanIndex, with the leading 0 *); ax_prefixes : list N;
                   ax_refs : list (N * N); ax_suffixes : bytes }.

Fixpoint pairs (l : list N) : list (N * N) :=
  match l with a :: b :: r => (a, b) :: pairs r | _ => [] end.

(* newInMemoryArchiveIndexReader (archive_reader.go:248): four sections read at offsets derived from
   the (now validated) footer.  The count-sized allocations are bounded by the index size, which is
   bounded by the file size: they are no longer a way to kill the process and are not modelled. *)
Definition open_archive (file : bytes) : res aindex :=
  bind (load_footer file) (fun f =>
    let ns := af_nspans f in let c := af_chunks f in
    let o1 := af_index_off f in
    let o2 := (o1 + 8 * ns) mod u64 in
    let o3 := (o2 + 8 * c) mod u64 in
    let o4 := (o3 + 8 * c) mod u64 in
    bind (read_section file o1 (8 * ns)) (fun sp =>
    bind (read_section file o2 (8 * c)) (fun pf =>
    bind (read_section file o3 (8 * c)) (fun rf =>
    bind (read_section file o4 (12 * c)) (fun sf =>
      Ok {| ax_f := f; ax_spans := 0 :: map be (chunks_of (N.to_nat ns) 8 sp);
            ax_prefixes := map be (chunks_of (N.to_nat c) 8 pf);
            ax_refs := pairs (map be (chunks_of (N.to_nat (2 * c)) 4 rf));
            ax_suffixes := sf |}))))).

(* prollyBinSearch (archive_reader.go:917): interpolation search, mirrored step by step, incl. the
   two ways bits.Div64 panics (y = 0, y <= hi) and the index expression int(dU64)+lft *)
Inductive sres := SIdx (i : N) | SPanic | SHang.

Fixpoint psearch_loop (fuel : nat) (sl : list N) (target items lft rht lo hi : N) : sres :=
  match fuel with
  | O => SHang
  | S f =>
    if lft <? rht then
      let vr := sub64 hi lo in
      let ir := rht - lft - 1 in
      let prod := sub64 target lo * ir in
      if (vr =? 0) || (vr <=? prod / u64) then SPanic                 (* bits.Div64: divide error / overflow *)
      else let q := prod / vr in
           if i63 <=? q then SPanic                                     (* negative index *)
           else let idx := q + lft in
                if items <=? idx then SPanic                            (* slice[idx] *)
                else if nth (N.to_nat idx) sl 0 <? target then
                       let lft' := idx + 1 in
                       if lft' <? items then
                         let lo' := nth (N.to_nat lft') sl 0 in
                         if target <=? lo' then SIdx lft' else psearch_loop f sl target items lft' rht lo' hi
                       else psearch_loop f sl target items lft' rht lo hi
                     else psearch_loop f sl target items lft idx lo (nth (N.to_nat idx) sl 0)
    else SIdx lft
  end.

Definition psearch (sl : list N) (target : N) : sres :=
  let items := N.of_nat (length sl) in
  if items =? 0 then SIdx 0
  else let lo := nth 0 sl 0 in let hi := nth (N.to_nat (items - 1)) sl 0 in
       if hi <? target then SIdx items
       else if target <=? lo then SIdx 0
       else psearch_loop (S (length sl)) sl target items 0 items lo hi.

Definition ax_suffix (a : aindex) (idx : N) : bytes := sub (ax_suffixes a) (12 * idx) 12.

Fixpoint afind_loop (fuel : nat) (a : aindex) (h : bytes) (idx : N) : option N :=
  match fuel with
  | O => None
  | S f => if (idx <? af_chunks (ax_f a)) && (nth (N.to_nat idx) (ax_prefixes a) 0 =? addr_prefix h) then
             if beq_bytes (ax_suffix a idx) (addr_suffix h) then Some idx else afind_loop f a h (idx + 1)
           else None
  end.

(* findIndex (archive_reader.go:474) *)
Definition afind (a : aindex) (h : bytes) : res (option N) :=
  match psearch (ax_prefixes a) (addr_prefix h) with
  | SPanic | SHang => Panic
  | SIdx pm => if af_chunks (ax_f a) <=? pm then Ok None
               else Ok (afind_loop (N.to_nat (af_chunks (ax_f a))) a h pm)
  end.

Definition ahas (a : aindex) (h : bytes) : res bool :=
  bind (afind a h) (fun m => Ok (match m with Some _ => true | None => false end)).

(* getSpanIndex (archive_reader.go:331): out-of-range indexes read as 0 *)
Definition span_index (a : aindex) (i : N) : N :=
  if N.of_nat (length (ax_spans a)) <=? i then 0 else nth (N.to_nat i) (ax_spans a) 0.

(* checkedByteSpan (archive_reader.go:689, e8df418): ids 1..byteSpanCount; every span non-empty,
   ascending and inside the data section; None = ErrInvalidChunkRange *)
Definition checked_span (a : aindex) (id : N) : option (N * N) :=
  if (id =? 0) || (af_nspans (ax_f a) <? id) then None
  else let st := span_index a (id - 1) in let en := span_index a id in
       if (en <=? st) || (af_data_len (ax_f a) <? en) then None else Some (st, en - st).

Inductive gres := GAbsent | GOk (comp : bytes) | GErr | GPanic | GAny.

(* readByteSpan (archive_reader.go:565) on a checked span: make([]byte, length) with
   0 < length <= data section <= file size, then ReadAtWithStats (whose Sample(len) asserts len > 0).
   The EOF branch is kept although a checked span lies inside the file. *)
Definition read_span (file : bytes) (sp : N * N) : gres :=
  let '(off, len) := sp in
  if len =? 0 then GPanic                                               (* Sample(0): d.PanicIfTrue(v == 0) *)
  else if (i63 <=? off) || (blen file <? off + len) then GErr
  else GOk (sub file off len).

(* archiveReader.get (archive_reader.go:496): index lookup, chunk ref, dictionary span, data span.
   zstd (dictionary creation and decompression) is opaque: GAny once a dictionary span was read. *)
Definition aget (file : bytes) (a : aindex) (h : bytes) : gres :=
  match afind a h with
  | Panic => GPanic
  | Err => GErr
  | Ok None => GAbsent
  | Ok (Some idx) =>
    let '(dict, data) := nth (N.to_nat idx) (ax_refs a) (0, 0) in
    if negb (dict =? 0) then
      match checked_span a dict with
      | None => GErr                                                    (* ErrInvalidDictionaryRange *)
      | Some sp => match read_span file sp with
                   | GOk _ => GAny
                   | r => r
                   end
      end
    else
      match checked_span a data with
      | None => GErr                                                    (* ErrInvalidChunkRange *)
      | Some sp =>
      match read_span file sp with
      | GOk buf =>
        if af_ver (ax_f a) <? 2 then GErr                               (* "dictionary is nil" *)
        else match new_compressed_chunk buf with
             | Ok comp => GOk comp
             | _ => GErr
             end
      | r => r
      end
      end
  end.

(* archiveChunkSource.resolve (archive_chunk_source.go:260, after 002bc81): index lookup of every
   request, then checkedByteSpan on its data id and (when non-zero) its dictionary id; the first
   invalid reference is an error.  planReads / fetchBatch therefore only see spans that are
   non-empty, ascending and inside the data section: their buffers (sized by groupSpans' furthest
   end) cover every member and no read is empty — the reader goroutines cannot panic. *)
Fixpoint aresolve (a : aindex) (reqs : list bytes) (acc : list (N * N)) : res (list (N * N)) :=
  match reqs with
  | [] => Ok (rev acc)
  | h :: rest =>
    bind (afind a h) (fun m =>
      match m with
      | None => aresolve a rest acc
      | Some idx =>
        let '(dict, data) := nth (N.to_nat idx) (ax_refs a) (0, 0) in
        match checked_span a data with
        | None => Err                                                  (* ErrInvalidChunkRange *)
        | Some sp =>
          if negb (dict =? 0) then
            match checked_span a dict with
            | None => Err                                              (* ErrInvalidDictionaryRange *)
            | Some _ => aresolve a rest (sp :: acc)
            end
          else aresolve a rest (sp :: acc)
        end
      end)
  end.

(* archiveChunkSource.getMany *)
Definition aget_many (a : aindex) (reqs : list bytes) : gm :=
  match aresolve a (sort_by addr_prefix reqs) [] with
  | Panic => GMCrash
  | _ => GMNoCrash
  end.

(* archiveReader.iterate (archive_reader.go:692).  IAny: a dictionary span (zstd) or an allocation
   the model abstains on was reached. *)
Inductive ires := IOk (l : list (bytes * bytes)) | IErr | IPanic | IAny.

Definition last_ref_with (refs : list (N * N)) (sel : N * N -> N) (id : N) : option N :=
  fold_left (fun acc e => if sel (snd e) =? id then Some (fst e) else acc)
            (combine (map N.of_nat (seq 0 (length refs))) refs) None.

Fixpoint aiter_loop (fuel : nat) (file : bytes) (a : aindex) (limit counter pos : N)
         (acc : list (bytes * bytes)) : ires :=
  match fuel with
  | O => IOk (rev acc)
  | S f =>
    if af_nspans (ax_f a) <? counter then IOk (rev acc)
    else
      match checked_span a counter with
      | None => IErr                                                    (* ErrInvalidChunkRange *)
      | Some (_, len) =>
        (* 0 < len <= data section: the scratch buffer grows to at most twice the file size *)
        let avail := N.min limit (blen file) - pos in
        if avail <? len then IErr                                       (* "error reading archive file" *)
        else
          let refs := firstn (N.to_nat (af_chunks (ax_f a))) (ax_refs a) in
          let is_dict := existsb (fun e => negb (fst e =? 0) && (fst e =? counter)) refs in
          if is_dict then IAny                                          (* NewDecompBundle: zstd *)
          else match last_ref_with refs snd counter with
               | None => IErr                                           (* span referenced by no chunk: ErrInvalidChunkRange *)
               | Some cid =>
                 let '(dict, _) := nth (N.to_nat cid) (ax_refs a) (0, 0) in
                 if negb (dict =? 0) then IErr                          (* dictionary not loaded: ErrInvalidDictionaryRange *)
                 else if af_ver (ax_f a) <? 2 then IErr
                 else match new_compressed_chunk (sub file pos len) with
                      | Ok comp =>
                        aiter_loop f file a limit (counter + 1) (pos + len)
                          ((enc_be 8 (nth (N.to_nat cid) (ax_prefixes a) 0) ++ ax_suffix a cid, comp) :: acc)
                      | _ => IErr
                      end
               end
      end
  end.

Definition aiterate (file : bytes) (a : aindex) : ires :=
  let dl := af_data_len (ax_f a) in
  let limit := if i63 <=? dl then i63 - 1 else dl in
  aiter_loop (S (N.to_nat (af_nspans (ax_f a)))) file a limit 1 0 [].

(* =====================================================================
   2. journal records   (go/store/nbs/journal_record.go)
   ===================================================================== *)

(* validateJournalRecord (journal_record.go:234) *)
Definition validate_journal_record (buf : bytes) : res unit :=
  let n := blen buf in
  if n <? 8 then Err
  else let off := be (sub buf 0 4) in
       if n <? off then Err
       else if off <? 4 then Panic                    (* off -= 4 underflows (uint32); buf[:off] out of range *)
       else if crc (sub buf 0 (off - 4)) =? be (sub buf (off - 4) 4) then Ok tt else Err.

Record jrec := { j_kind : N; j_addr : bytes; j_payload : option bytes }.

(* readJournalRecord (journal_record.go:199) on the bytes after the length field *)
Fixpoint read_fields (fuel : nat) (buf : bytes) (r : jrec) : res jrec :=
  match fuel with
  | O => Ok r
  | S f =>
    if blen buf <=? 4 then (if blen buf <? 4 then Err else Ok r)   (* "truncated before checksum" (:239) *)
    else match buf with
         | [] => Ok r
         | tag :: b =>
           if tag =? 1 then                            (* kind: guarded (:207); len b >= 4 here anyway *)
             if blen b <? 1 then Err else
             read_fields f (skipn 1 b) {| j_kind := nth 0 b 0; j_addr := j_addr r; j_payload := j_payload r |}
           else if tag =? 2 then                       (* addr: guarded (:215) *)
             if blen b <? 20 then Err
             else read_fields f (skipn 20 b) {| j_kind := j_kind r; j_addr := sub b 0 20; j_payload := j_payload r |}
           else if tag =? 4 then                       (* timestamp: guarded (:221) *)
             if blen b <? 8 then Err else read_fields f (skipn 8 b) r
           else if tag =? 3 then                       (* payload: everything but the checksum *)
             let sz := blen b - 4 in
             read_fields f (skipn (N.to_nat sz) b)
               {| j_kind := j_kind r; j_addr := j_addr r; j_payload := Some (sub b 0 sz) |}
           else Err                                    (* unknown record field tag *)
         end
  end.

Definition read_journal_record (buf : bytes) : res jrec :=
  read_fields (length buf) (skipn 4 buf) {| j_kind := 0; j_addr := repeat 0 20; j_payload := None |}.

Definition journal_buff_size : N := 5242880.
Definition root_hash_record_size : N := 40.

Inductive stop := StopEnd | StopRecovered | StopErr.

(* processJournalRecordsReader (journal_record.go:323): accepted records (offset, record), stop offset, why *)
Fixpoint scan_loop (fuel : nat) (data : bytes) (off : N) (acc : list (N * jrec)) : res (list (N * jrec) * N * stop) :=
  match fuel with
  | O => Ok (rev acc, off, StopEnd)
  | S f =>
    let rest := blen data - off in
    if rest <? 4 then Ok (rev acc, off, StopEnd)
    else let l := be (sub data off 4) in
         if l =? 0 then Ok (rev acc, off, StopRecovered)
         else if journal_buff_size <? l then Ok (rev acc, off, StopRecovered)
         else if rest <? l then Ok (rev acc, off, StopRecovered)
         else let buf := sub data off l in
              match validate_journal_record buf with
              | Panic => Panic
              | Err => Ok (rev acc, off, StopRecovered)
              | Ok _ =>
                match read_journal_record buf with
                | Panic => Panic
                | Err => Ok (rev acc, off, StopErr)
                | Ok r => scan_loop f data (off + l) ((off, r) :: acc)
                end
              end
  end.

(* possibleDataLossCheck (journal_record.go:498) for inputs shorter than the 10 MiB scan buffer:
   byte-wise resynchronisation over the remainder *)
Fixpoint loss_loop (fuel : nat) (buf : bytes) (idx : N) (first_root : bool) : res (option bool) :=
  match fuel with
  | O => Ok (Some false)
  | S f =>
    if blen buf <? idx + root_hash_record_size then Ok (Some false)
    else let sz := be (sub buf idx 4) in
         if (0 <? sz) && (sz <=? journal_buff_size) && (sz <=? blen buf - idx) then
           let cand := sub buf idx sz in
           match validate_journal_record cand with
           | Panic => Panic
           | Err => loss_loop f buf (idx + 1) first_root
           | Ok _ =>
             match read_journal_record cand with
             | Panic => Panic
             | Err => Ok None                          (* (false, err): reported as a warning *)
             | Ok r => if first_root then Ok (Some true)
                       else loss_loop f buf (idx + sz) (j_kind r =? 1)
             end
           end
         else loss_loop f buf (idx + 1) first_root
  end.

Inductive jclass := JOk | JDataLoss | JErr.

(* processJournalRecords (journal_record.go:427) over an in-memory reader *)
Definition scan_journal (data : bytes) : res (list (N * jrec) * N * jclass) :=
  bind (scan_loop (S (length data)) data 0 []) (fun '(recs, off, why) =>
    match why with
    | StopErr => Ok (recs, 0, JErr)
    | StopEnd => Ok (recs, off, JOk)
    | StopRecovered =>
      bind (loss_loop (S (length data)) (skipn (N.to_nat off) data) 0 false) (fun d =>
        match d with
        | Some true => Ok (recs, off, JDataLoss)
        | _ => Ok (recs, off, JOk)
        end)
    end).

End WithCrc.

(* =====================================================================
   3. manifest   (go/store/nbs/file_manifest.go, manifest.go, hash/hash.go)
   ===================================================================== *)

Definition colon : N := 58.

(* hash.MaybeParse: ^[0-9a-v]{32}$ *)
Definition valid_hash_str (s : bytes) : bool := (blen s =? 32) && forallb is_b32 s.

(* strconv.ParseUint(s, 10, 32) *)
Definition parse_uint32 (s : bytes) : option N :=
  match s with
  | [] => None
  | _ => if forallb is_digit s then
           let v := fold_left (fun a d => N.min 4294967296 (a * 10 + (d - 48))) s 0 in
           if v <? 4294967296 then Some v else None
         else None
  end.

Record manifest := { m_vers : N; m_nbf : bytes; m_lock : bytes; m_root : bytes; m_gcgen : bytes;
                     m_specs : list (bytes * N) }.

(* parseSpecs (manifest.go:273) over name/count string pairs *)
Fixpoint parse_specs (l : list bytes) : option (list (bytes * N)) :=
  match l with
  | name :: cnt :: rest =>
    if valid_hash_str name then
      match parse_uint32 cnt with
      | Some c => match parse_specs rest with Some r => Some ((name, c) :: r) | None => None end
      | None => None
      end
    else None
  | _ => Some []
  end.

(* the version field: up to 8 bytes before ':' (parseManifest, file_manifest.go:364) *)
Fixpoint read_version (fuel : nat) (s : bytes) (acc : bytes) : option (bytes * bytes) :=
  match fuel with
  | O => None                                          (* chars >= 8: ErrCorruptManifest *)
  | S f => match s with
           | [] => None                                (* Read returns EOF *)
           | c :: r => if c =? colon then Some (rev acc, r) else read_version f r (c :: acc)
           end
  end.

(* parseManifest + parseV5Manifest / parseV4Manifest (file_manifest.go:369, :326, :421):
   every hash field goes through hash.MaybeParse; nothing panics *)
Definition parse_manifest (s : bytes) : res manifest :=
  match read_version 8 s [] with
  | None => Err
  | Some (vers, rest) =>
    let fields := split_on colon rest in
    let n := N.of_nat (length fields) in
    if beq_bytes vers [53] then                        (* "5" *)
      if (n <? 4) || N.odd n then Err                  (* ErrCorruptManifest *)
      else match parse_specs (skipn 4 fields) with
           | None => Err
           | Some specs =>
             if negb (valid_hash_str (nth 1 fields [])) then Err
             else if negb (valid_hash_str (nth 3 fields [])) then Err
             else if negb (valid_hash_str (nth 2 fields [])) then Err   (* "Could not parse root hash" *)
             else Ok {| m_vers := 5; m_nbf := nth 0 fields []; m_lock := nth 1 fields [];
                        m_root := nth 2 fields []; m_gcgen := nth 3 fields []; m_specs := specs |}
           end
    else if beq_bytes vers [52] then                   (* "4" *)
      if (n <? 3) || N.even n then Err
      else match parse_specs (skipn 3 fields) with
           | None => Err
           | Some specs =>
             if negb (valid_hash_str (nth 1 fields [])) then Err
             else if negb (valid_hash_str (nth 2 fields [])) then Err
             else Ok {| m_vers := 4; m_nbf := nth 0 fields []; m_lock := nth 1 fields [];
                        m_root := nth 2 fields []; m_gcgen := []; m_specs := specs |}
           end
    else Err                                           (* unknown manifest version *)
  end.
