(* C10 — correspondence: model observation, comparison with the implementation's
   observation, and the executable statement of the property (oracle). *)
From Coq Require Import NArith List Bool.
From Dolt Require Import Base.Str C10.Model C10.Spec.
Import ListNotations.
Local Open Scope N_scope.

Inductive input :=
| ITable (file : bytes) (cnt : N) (addrs : list bytes)
| IJournal (data : bytes)
| IManifest (data : bytes)
| IResolve (file : bytes) (cnt : N) (shorts : list bytes)
| IArchive (file : bytes) (addrs : list bytes)
| IStore (opened : N).     (* a real database directory with one corrupted file: oracle only; [opened] echoes o_open *)

(* codes
   o_open  : 0 ok | 1 err | 2 panic / worker crash
   has     : 0 absent | 1 present | 2 panic | 3 err
   get     : 0 absent | 1 ok, content hashes to the address | 2 ok, content does NOT hash to the address
             | 3 err | 4 panic | 5 err from snappy after the checksum passed | 6 (model only) no prediction
   o_iter  : 0 ok | 1 delivered a chunk that does not hash to its address | 2 err | 3 panic | 4 not run / any
   o_gm    : 0 ok | 1 delivered a wrong chunk | 2 err | 3 crash | 4 not run / any
   o_class : 0 ok | 1 err | 2 panic | 3 data loss error        (journal scan, manifest parse)
   IResolve: o_recs holds one (0, code, concatenated 20-byte hashes, number of hashes) per short
             prefix, code 0 ok | 1 err | 2 panic *)
Record obs := {
  o_open : N; o_res : list (N * N); o_iter : N; o_itern : N; o_gm : N;
  o_class : N; o_recs : list (N * N * bytes * N); o_off : N;
  o_man : option (N * bytes * bytes * bytes * bytes * list (bytes * N));
  o_extra : list N   (* oracle-only operations the model makes no prediction for (hasMany, extract, tolerant
                        iteration, every store-level call): 0 ok | 1 wrong content | 2 err | 3 panic *)
}.

Definition case := (input * obs)%type.

Definition empty_obs : obs :=
  {| o_open := 0; o_res := []; o_iter := 4; o_itern := 0; o_gm := 4; o_class := 0; o_recs := []; o_off := 0; o_man := None; o_extra := [] |}.

Definition has_code (r : res bool) : N :=
  match r with Ok false => 0 | Ok true => 1 | Panic => 2 | Err => 3 end.
Definition get_code (r : res (option bytes)) : N :=
  match r with Ok None => 0 | Ok (Some _) => 1 | Err => 3 | Panic => 4 end.

Definition table_obs (file : bytes) (cnt : N) (addrs : list bytes) : obs :=
  match open_table file cnt with
  | Err => {| o_open := 1; o_res := []; o_iter := 4; o_itern := 0; o_gm := 4; o_class := 0; o_recs := []; o_off := 0; o_man := None; o_extra := [] |}
  | Panic => {| o_open := 2; o_res := []; o_iter := 4; o_itern := 0; o_gm := 4; o_class := 0; o_recs := []; o_off := 0; o_man := None; o_extra := [] |}
  | Ok t =>
    let it := match iterate crc32c file t with
              | Ok l => (0, N.of_nat (length l)) | Err => (2, 0) | Panic => (3, 0) end in
    {| o_open := 0;
       o_res := map (fun h => (has_code (has t h), get_code (get crc32c file t h))) addrs;
       o_iter := fst it; o_itern := snd it;
       o_gm := match get_many t addrs with GMCrash => 3 | GMNoCrash => 0 end;
       o_class := 0; o_recs := []; o_off := 0; o_man := None; o_extra := [] |}
  end.

Definition journal_obs (data : bytes) : obs :=
  match scan_journal crc32c data with
  | Panic => {| o_open := 0; o_res := []; o_iter := 4; o_itern := 0; o_gm := 4; o_class := 2; o_recs := []; o_off := 0; o_man := None; o_extra := [] |}
  | Err => {| o_open := 0; o_res := []; o_iter := 4; o_itern := 0; o_gm := 4; o_class := 1; o_recs := []; o_off := 0; o_man := None; o_extra := [] |}
  | Ok (recs, off, cl) =>
    {| o_open := 0; o_res := []; o_iter := 4; o_itern := 0; o_gm := 4;
       o_class := match cl with JOk => 0 | JErr => 1 | JDataLoss => 3 end;
       o_recs := map (fun e => (fst e, j_kind (snd e), j_addr (snd e),
                                match j_payload (snd e) with Some p => blen p | None => 0 end)) recs;
       o_off := off; o_man := None; o_extra := [] |}
  end.

Definition manifest_obs (data : bytes) : obs :=
  match parse_manifest data with
  | Panic => {| o_open := 0; o_res := []; o_iter := 4; o_itern := 0; o_gm := 4; o_class := 2; o_recs := []; o_off := 0; o_man := None; o_extra := [] |}
  | Err => {| o_open := 0; o_res := []; o_iter := 4; o_itern := 0; o_gm := 4; o_class := 1; o_recs := []; o_off := 0; o_man := None; o_extra := [] |}
  | Ok m => {| o_open := 0; o_res := []; o_iter := 4; o_itern := 0; o_gm := 4; o_class := 0; o_recs := []; o_off := 0;
               o_man := Some (m_vers m, m_nbf m, m_lock m, m_root m, m_gcgen m, m_specs m); o_extra := [] |}
  end.

Definition resolve_obs (file : bytes) (cnt : N) (shorts : list bytes) : obs :=
  match open_table file cnt with
  | Err => {| o_open := 1; o_res := []; o_iter := 4; o_itern := 0; o_gm := 4; o_class := 0; o_recs := []; o_off := 0; o_man := None; o_extra := [] |}
  | Panic => {| o_open := 2; o_res := []; o_iter := 4; o_itern := 0; o_gm := 4; o_class := 0; o_recs := []; o_off := 0; o_man := None; o_extra := [] |}
  | Ok t =>
    {| o_open := 0; o_res := []; o_iter := 4; o_itern := 0; o_gm := 4; o_class := 0;
       o_recs := map (fun s => match resolve t s with
                               | Ok hs => (0, 0, concat hs, N.of_nat (length hs))
                               | Err => (0, 1, [], 0)
                               | Panic => (0, 2, [], 0) end) shorts;
       o_off := 0; o_man := None; o_extra := [] |}
  end.

Definition gres_code (g : gres) : N :=
  match g with GAbsent => 0 | GOk _ => 1 | GErr => 3 | GPanic => 4 | GAny => 6 end.

Definition archive_obs (file : bytes) (addrs : list bytes) : obs :=
  match open_archive file with
  | Err => {| o_open := 1; o_res := []; o_iter := 4; o_itern := 0; o_gm := 4; o_class := 0; o_recs := []; o_off := 0; o_man := None; o_extra := [] |}
  | Panic => {| o_open := 2; o_res := []; o_iter := 4; o_itern := 0; o_gm := 4; o_class := 0; o_recs := []; o_off := 0; o_man := None; o_extra := [] |}
  | Ok a =>
    let it := match aiterate crc32c file a with
              | IOk l => (0, N.of_nat (length l)) | IErr => (2, 0) | IPanic => (3, 0) | IAny => (4, 0) end in
    {| o_open := 0;
       o_res := map (fun h => (has_code (ahas a h), gres_code (aget crc32c file a h))) addrs;
       o_iter := fst it; o_itern := snd it;
       o_gm := match aget_many a addrs with GMCrash => 3 | GMNoCrash => 0 end;
       o_class := 0; o_recs := []; o_off := 0; o_man := None; o_extra := [] |}
  end.

Definition model_obs (i : input) : obs :=
  match i with
  | ITable f c a => table_obs f c a
  | IJournal d => journal_obs d
  | IManifest d => manifest_obs d
  | IResolve f c ss => resolve_obs f c ss
  | IArchive f a => archive_obs f a
  | IStore op => {| o_open := op; o_res := []; o_iter := 4; o_itern := 0; o_gm := 4; o_class := 0; o_recs := []; o_off := 0; o_man := None; o_extra := [] |}
  end.

(* comparison: [m] is the model's observation, [o] the implementation's *)
Definition get_eqb (m o : N) : bool :=
  if m =? 6 then true
  else if m =? 1 then (o =? 1) || (o =? 2) || (o =? 5) else if m =? 3 then (o =? 3) || (o =? 5) else m =? o.
Fixpoint res_eqb (m o : list (N * N)) : bool :=
  match m, o with
  | [], [] => true
  | (h1, g1) :: m', (h2, g2) :: o' => (h1 =? h2) && get_eqb g1 g2 && res_eqb m' o'
  | _, _ => false
  end.
Definition iter_eqb (mi mn oi on : N) : bool :=
  if mi =? 4 then true
  else if mi =? 0 then ((oi =? 0) || (oi =? 1)) && (mn =? on)
  else mi =? oi.
Definition gm_eqb (m o : N) : bool :=
  if (m =? 4) || (o =? 4) then true else if m =? 0 then (o =? 0) || (o =? 1) || (o =? 2) else m =? o.
Fixpoint recs_eqb (m o : list (N * N * bytes * N)) : bool :=
  match m, o with
  | [], [] => true
  | (a1, k1, h1, p1) :: m', (a2, k2, h2, p2) :: o' =>
    (a1 =? a2) && (k1 =? k2) && beq_bytes h1 h2 && (p1 =? p2) && recs_eqb m' o'
  | _, _ => false
  end.
Fixpoint specs_eqb (m o : list (bytes * N)) : bool :=
  match m, o with
  | [], [] => true
  | (n1, c1) :: m', (n2, c2) :: o' => beq_bytes n1 n2 && (c1 =? c2) && specs_eqb m' o'
  | _, _ => false
  end.
Definition man_eqb (m o : option (N * bytes * bytes * bytes * bytes * list (bytes * N))) : bool :=
  match m, o with
  | None, None => true
  | Some (v1, n1, l1, r1, g1, s1), Some (v2, n2, l2, r2, g2, s2) =>
    (v1 =? v2) && beq_bytes n1 n2 && beq_bytes l1 l2 && beq_bytes r1 r2 && beq_bytes g1 g2 && specs_eqb s1 s2
  | _, _ => false
  end.

Definition obs_eqb (m o : obs) : bool :=
  (o_open m =? o_open o) && res_eqb (o_res m) (o_res o)
  && iter_eqb (o_iter m) (o_itern m) (o_iter o) (o_itern o)
  && gm_eqb (o_gm m) (o_gm o)
  && (o_class m =? o_class o)
  && (if o_class m =? 2 then true else recs_eqb (o_recs m) (o_recs o) && (o_off m =? o_off o))
  && man_eqb (o_man m) (o_man o).

(* The property on what the implementation returned: nothing panicked / crashed, and every
   chunk handed out (get, getMany, iteration) hashes to its address (the harness computes
   that boolean with the real hash.Of). *)
Definition oracle (i : input) (o : obs) : bool :=
  negb (o_open o =? 2)
  && forallb (fun r => negb (fst r =? 2) && negb (snd r =? 2) && negb (snd r =? 4)) (o_res o)
  && negb (o_iter o =? 1) && negb (o_iter o =? 3)
  && negb (o_gm o =? 1) && negb (o_gm o =? 3)
  && negb (o_class o =? 2)
  && forallb (fun c => negb (c =? 1) && negb (c =? 3)) (o_extra o)
  && match i with
     | IResolve _ _ _ => forallb (fun r => negb (snd (fst (fst r)) =? 2)) (o_recs o)
     | _ => true
     end.

(* caller-side precondition of ResolveShortHash (not file content): at most 32 base32 characters *)
Definition input_wf (i : input) : bool :=
  match i with
  | IResolve _ _ ss => forallb valid_short ss
  | IArchive _ _ => false      (* stated separately (no_panic_archive_open / _get / _iterate): the search needs 8-byte value bounds *)
  | IStore op => negb (op =? 2)   (* no model behind store-level cases: the input only echoes how the open ended *)
  | _ => true
  end.

Definition check_case (c : case) : N :=
  (if obs_eqb (model_obs (fst c)) (snd c) then 0 else 1)
  + (if oracle (fst c) (snd c) then 0 else 2).
