(* C10 — proofs about the reader models (the code after the repairs of the table-index, journal
   record and manifest findings): panic freedom for EVERY byte string, what a successful lookup
   returns, regression examples for the repaired witnesses, and the two refutations that remain
   (no content-hash check on reads). *)
From Coq Require Import NArith Arith List Bool Lia ZifyN ZifyNat ZifyBool.
From Dolt Require Import Base.Str Gen.C10Consts C10.Model C10.Spec C10.Corr.
Import ListNotations.
Local Open Scope N_scope.

(* ---- the hand-written constants are the ones in the Go source today ------------------- *)
Lemma consts_pinned :
  footer_size = 20 /\ prefix_tuple_size = 12 /\ length_size = 4 /\ offset_size = 8 /\ checksum_size = 4
  /\ magic_number = magic /\ (forall c, index_size c + footer_size = 28 * c + 20)
  /\ (forall c, lengths_offset c = 12 * c) /\ (forall c, suffixes_offset c = 16 * c)
  /\ journal_rec_len_sz = 4 /\ journal_rec_checksum_sz = 4 /\ journal_rec_addr_sz = 20 /\ journal_rec_timestamp_sz = 8
  /\ journal_rec_kind_sz = 1
  /\ kind_journal_rec_tag = 1 /\ addr_journal_rec_tag = 2 /\ payload_journal_rec_tag = 3 /\ timestamp_journal_rec_tag = 4
  /\ root_hash_journal_rec_kind = 1 /\ manifest_prefix_len = 5
  /\ root_hash_record_size_go = root_hash_record_size.
Proof.
  repeat split; try reflexivity; intro c; unfold index_size, footer_size, lengths_offset, suffixes_offset; lia.
Qed.

(* ---- generic list / byte facts ---------------------------------------------------------- *)
Lemma blen_sub b off n : off + n <= blen b -> blen (sub b off n) = n.
Proof.
  unfold blen, sub. intro H. rewrite firstn_length, skipn_length. lia.
Qed.

Lemma sub_sub_prefix b off n k : k <= n -> sub (sub b off n) 0 k = sub b off k.
Proof.
  unfold sub. intro H. change (N.to_nat 0) with 0%nat. cbn [skipn].
  rewrite firstn_firstn. f_equal. lia.
Qed.

(* =====================================================================
   table files
   ===================================================================== *)

Lemma read_footer_np buff : read_footer buff <> Panic.
Proof.
  unfold read_footer. destruct (blen buff <? 20); [discriminate|].
  destruct (beq_bytes _ _); discriminate.
Qed.

Lemma parse_table_index_np buff : parse_table_index buff <> Panic.
Proof.
  unfold parse_table_index. destruct (read_footer buff) as [[c tot]| |] eqn:E; cbn [bind].
  - destruct (negb _); discriminate.
  - discriminate.
  - exfalso. exact (read_footer_np _ E).
Qed.

(* opening a table file never panics, whatever the bytes and whatever count the manifest claims *)
Theorem no_panic_open_table : forall file cnt, open_table file cnt <> Panic.
Proof.
  intros file cnt. unfold open_table.
  destruct (blen file <? 28 * cnt + 20); [discriminate|].
  destruct (parse_table_index _) as [t| |] eqn:E; cbn [bind].
  - destruct (ti_count t =? cnt); discriminate.
  - discriminate.
  - exfalso. exact (parse_table_index_np _ E).
Qed.

Section Table.
Variable crc : bytes -> N.
Variable t : tindex.

Lemma offset_at_ok ord : ord < ti_count t -> offset_at t ord = Ok (nth (N.to_nat ord) (ti_offsets t) 0).
Proof.
  intro H. unfold offset_at. destruct (ord <? ti_count t) eqn:E; [reflexivity | lia].
Qed.

(* getIndexEntry is only ever reached with ord < count, where it cannot panic *)
Lemma get_index_entry_ok ord : ord < ti_count t -> exists e, get_index_entry t ord = Ok e.
Proof.
  intro H. unfold get_index_entry.
  destruct (ord =? 0) eqn:E0; cbn [bind].
  - rewrite (offset_at_ok _ H). cbn [bind]. eexists; reflexivity.
  - assert (H1 : ord - 1 < ti_count t) by lia.
    rewrite (offset_at_ok _ H1). cbn [bind]. rewrite (offset_at_ok _ H). cbn [bind]. eexists; reflexivity.
Qed.

Lemma suffix_at_inv ord : match suffix_at t ord with Panic => False | Ok _ => ord < ti_count t | Err => True end.
Proof.
  unfold suffix_at. destruct (ord <? ti_count t) eqn:E; [lia | exact I].
Qed.

Lemma match_loop_np fuel h idx :
  match match_loop fuel t h idx with
  | Panic => False
  | Ok (Some i) => ord_at t i < ti_count t
  | _ => True
  end.
Proof.
  revert idx. induction fuel as [|f IH]; intro idx; cbn [match_loop]; [exact I|].
  destruct ((idx <? ti_count t) && (prefix_at t idx =? addr_prefix h)); [|exact I].
  pose proof (suffix_at_inv (ord_at t idx)) as Hs.
  destruct (suffix_at t (ord_at t idx)) as [s| |]; cbn [bind]; [| exact I | contradiction].
  destruct (beq_bytes s (addr_suffix h)); [exact Hs | apply IH].
Qed.

Lemma lookup_np h : lookup t h <> Panic.
Proof.
  unfold lookup.
  pose proof (match_loop_np (N.to_nat (ti_count t)) h (find_prefix t (addr_prefix h))) as M.
  destruct (match_loop _ t h _) as [[i|]| |]; cbn [bind]; try discriminate; [|contradiction].
  destruct (ord_at t i =? ti_count t); [discriminate|].
  destruct (get_index_entry_ok _ M) as [e Hg]. rewrite Hg. cbn [bind].
  destruct (snd e <? 4); discriminate.
Qed.

Lemma has_np h : has t h <> Panic.
Proof.
  unfold has. pose proof (lookup_np h) as L.
  destruct (lookup t h) as [[e|]| |]; cbn [bind]; try discriminate. contradiction.
Qed.

Lemma ncc_np buff : new_compressed_chunk crc buff <> Panic.
Proof.
  unfold new_compressed_chunk. destruct (blen buff <? 4); [discriminate|].
  destruct (_ =? _); discriminate.
Qed.

Lemma get_np file h : get crc file t h <> Panic.
Proof.
  unfold get. pose proof (lookup_np h) as L.
  destruct (lookup t h) as [[[off len]|]| |]; cbn [bind]; try discriminate; [|contradiction].
  destruct ((0 <? len) && _); [discriminate|].
  pose proof (ncc_np (sub file off len)) as Hn.
  destruct (new_compressed_chunk crc (sub file off len)) as [comp| |]; cbn [bind].
  - destruct (blen comp =? 0); discriminate.
  - discriminate.
  - contradiction.
Qed.

Lemma index_entry_nil_np idx : index_entry_nil t idx <> Panic.
Proof.
  unfold index_entry_nil. destruct (ti_count t <=? ord_at t idx) eqn:E; [discriminate|].
  destruct (get_index_entry_ok (ord_at t idx)) as [e Hg]; [lia|]. rewrite Hg. cbn [bind].
  destruct (snd e <? 4); discriminate.
Qed.

Lemma find_offsets_np reqs : forall fi acc, find_offsets t reqs fi acc <> Panic.
Proof.
  induction reqs as [|h rest IH]; intros fi acc; cbn [find_offsets]; [discriminate|].
  destruct (ti_count t <=? _); [discriminate|].
  destruct (negb _); [apply IH|].
  match goal with |- context [match_loop ?f t h ?i] => pose proof (match_loop_np f h i) as M; destruct (match_loop f t h i) as [[i'|]| |] end;
    cbn [bind]; try discriminate; [| apply IH | contradiction].
  pose proof (index_entry_nil_np i') as Hn.
  destruct (index_entry_nil t i') as [e| |]; cbn [bind]; [apply IH | discriminate | contradiction].
Qed.

Lemma get_many_np reqs : get_many t reqs <> GMCrash.
Proof.
  unfold get_many. pose proof (find_offsets_np (sort_by addr_prefix reqs) 0 []) as F.
  destruct (find_offsets t _ 0 []) as [recs| |]; try discriminate. contradiction.
Qed.

Lemma index_entry_np idx : index_entry t idx <> Panic.
Proof.
  unfold index_entry. pose proof (suffix_at_inv (ord_at t idx)) as Hs.
  destruct (suffix_at t (ord_at t idx)) as [s| |]; cbn [bind]; [| discriminate | contradiction].
  destruct (get_index_entry_ok _ Hs) as [e Hg]. rewrite Hg. cbn [bind].
  destruct (snd e <? 4); discriminate.
Qed.

Lemma collect_np k : forall idx, collect t k idx <> Panic.
Proof.
  induction k as [|k IH]; intro idx; cbn [collect]; [discriminate|].
  pose proof (index_entry_np idx) as He.
  destruct (index_entry t idx) as [e| |]; cbn [bind]; [| discriminate | contradiction].
  specialize (IH (idx + 1)).
  destruct (collect t k (idx + 1)) as [r| |]; cbn [bind]; [discriminate | discriminate | contradiction].
Qed.

Lemma iter_loop_np file limit recs : forall pos acc, iter_loop crc file limit recs pos acc <> Panic.
Proof.
  induction recs as [|[[off len] h] rest IH]; intros pos acc; cbn [iter_loop]; [discriminate|].
  destruct (_ <? len); [discriminate|].
  pose proof (ncc_np (sub file pos len)) as Hn.
  destruct (new_compressed_chunk crc (sub file pos len)) as [comp| |]; cbn [bind]; [apply IH | discriminate | contradiction].
Qed.

Lemma iterate_np file : iterate crc file t <> Panic.
Proof.
  unfold iterate. destruct (ti_count t =? 0); [discriminate|].
  pose proof (collect_np (N.to_nat (ti_count t)) 0) as Hc.
  destruct (collect t _ 0) as [recs| |]; cbn [bind]; [| discriminate | contradiction].
  apply iter_loop_np.
Qed.

Lemma hash_at_ok i : ord_at t i < ti_count t -> exists h, hash_at t i = Ok h.
Proof.
  intro H. unfold hash_at.
  destruct (12 * ord_at t i + 12 <=? 12 * ti_count t + 20) eqn:E; [eexists; reflexivity | lia].
Qed.

Lemma resolve_loop_np fuel ds : forall i u acc, resolve_loop fuel t ds i u acc <> Panic.
Proof.
  induction fuel as [|f IH]; intros i u acc; cbn [resolve_loop]; [discriminate|].
  destruct (i <? u); [|discriminate].
  destruct (ti_count t <=? ord_at t i) eqn:E; [discriminate|].
  destruct (hash_at_ok i) as [h Hh]; [lia|]. rewrite Hh. cbn [bind]. apply IH.
Qed.

Lemma resolve_np short : valid_short short = true -> resolve t short <> Panic.
Proof.
  intro V. unfold resolve. rewrite V. cbn [negb].
  destruct (13 <=? blen short).
  - destruct (_ =? ti_count t); [discriminate | apply resolve_loop_np].
  - apply resolve_loop_np.
Qed.

End Table.

(* For EVERY index the parser can produce (indeed for every [tindex]), every file content, every
   address: no read path panics.  The ordinal and length guards are now in the code (and so in the
   model); nothing is assumed. *)
Theorem no_panic_table :
  forall crc file t,
    (forall h, has t h <> Panic) /\ (forall h, get crc file t h <> Panic)
    /\ (forall hs, get_many t hs <> GMCrash) /\ iterate crc file t <> Panic
    /\ (forall short, valid_short short = true -> resolve t short <> Panic).
Proof.
  intros crc file t. repeat split.
  - intro h. apply has_np.
  - intro h. apply get_np.
  - intro hs. apply get_many_np.
  - apply iterate_np.
  - intros short V. first [exact (resolve_np t short V) | exact (resolve_np crc t short V)].
Qed.

(* ---- what a successful lookup hands out -------------------------------------------------- *)

Lemma match_loop_sound t fuel h : forall idx i, match_loop fuel t h idx = Ok (Some i) -> designated t h i.
Proof.
  induction fuel as [|f IH]; intros idx i; cbn [match_loop]; [discriminate|].
  destruct ((idx <? ti_count t) && (prefix_at t idx =? addr_prefix h)) eqn:E; [|discriminate].
  apply andb_true_iff in E as [E1 E2].
  destruct (suffix_at t (ord_at t idx)) as [s| |] eqn:Hs; cbn [bind]; try discriminate.
  destruct (beq_bytes s (addr_suffix h)) eqn:Hb.
  - intro H. injection H as <-. apply beq_bytes_spec in Hb. subst s.
    split; [lia | split; [lia | exact Hs]].
  - apply IH.
Qed.

(* For EVERY file: if get answers bytes for address h, then the index holds a tuple whose prefix
   and (ordinal-indexed) suffix spell h, and the bytes are exactly the payload of the record that
   tuple's ordinal designates, present in the file, with a matching checksum.  (Whether that
   payload is the chunk originally stored for h is what a checksum cannot tell: see
   no_misread_refuted.) *)
Theorem no_misread_get :
  forall crc file t h comp, get crc file t h = Ok (Some comp) ->
    exists idx off len, designated t h idx /\ ord_at t idx < ti_count t
      /\ get_index_entry t (ord_at t idx) = Ok (off, len) /\ record_at crc file off len comp.
Proof.
  intros crc file t h comp. unfold get, lookup.
  destruct (match_loop _ t h _) as [[i|]| |] eqn:M; cbn [bind]; try discriminate.
  pose proof (match_loop_np t (N.to_nat (ti_count t)) h (find_prefix t (addr_prefix h))) as Mo. rewrite M in Mo.
  apply match_loop_sound in M.
  destruct (ord_at t i =? ti_count t) eqn:Ec; cbn [bind]; [discriminate|].
  destruct (get_index_entry t (ord_at t i)) as [[off len]| |] eqn:G; cbn [bind]; try discriminate.
  cbn [snd]. destruct (len <? 4) eqn:El; cbn [bind]; [discriminate|].
  destruct ((0 <? len) && ((blen file <? off + len) || (9223372036854775808 <=? off))) eqn:E; [discriminate|].
  unfold new_compressed_chunk.
  destruct (blen (sub file off len) <? 4) eqn:E4; cbn [bind]; [discriminate|].
  destruct (be _ =? crc _) eqn:Ecrc; cbn [bind]; [|discriminate].
  destruct (blen _ =? 0); [discriminate|].
  intro H. injection H as <-.
  assert (Hl : 4 <= len) by lia.
  assert (Hb : off + len <= blen file).
  { apply andb_false_iff in E as [E | E]; [lia|]. apply orb_false_iff in E as [E1 E2]. lia. }
  rewrite (blen_sub _ _ _ Hb) in *.
  apply N.eqb_eq in Ecrc.
  exists i, off, len. split; [exact M|]. split; [exact Mo|]. split; [exact G|].
  unfold record_at. split; [exact Hb|]. split; [exact Hl|]. split; [reflexivity | exact Ecrc].
Qed.

(* ---- regression examples: the witnesses that used to panic (F3) are errors now ---------- *)

Definition set_at (b : bytes) (pos : nat) (v : bytes) : bytes := firstn pos b ++ v ++ skipn (pos + length v) b.

(* a 3-chunk table file written by the real tableWriter (chunks 0102030405, 09..0a, 0707) *)
Definition w_file : bytes :=
  [5; 16; 1; 2; 3; 4; 5; 160; 242; 74; 212; 9; 32; 9; 9; 9; 9; 9; 9; 9; 9; 10; 207; 120; 115; 172; 2; 4; 7; 7; 199; 121; 97; 242;
   72; 177; 213; 107; 118; 145; 55; 230; 0; 0; 0; 1; 80; 84; 11; 196; 174; 49; 135; 95; 0; 0; 0; 0; 222; 237; 235; 151; 180; 80; 10; 188; 0; 0; 0; 2;
   0; 0; 0; 11; 0; 0; 0; 15; 0; 0; 0; 8;
   206; 179; 130; 148; 52; 197; 94; 60; 43; 102; 221; 215; 119; 241; 122; 144; 45; 147; 43; 243; 238; 241; 206; 39; 98; 213; 39; 210; 25; 98; 28; 170; 111; 18; 16; 147;
   0; 0; 0; 3; 0; 0; 0; 0; 0; 0; 0; 16; 255; 181; 216; 194; 36; 99; 238; 80].
Definition w_addr0 : bytes := [80; 84; 11; 196; 174; 49; 135; 95; 206; 179; 130; 148; 52; 197; 94; 60; 43; 102; 221; 215].

Definition w_len_lt4 : bytes := set_at w_file 70 [0; 0; 0; 2].            (* length[0] := 2 *)
Definition w_ord_gt : bytes := set_at w_file 54 [0; 0; 0; 9].             (* ordinal of tuple 1 (address w_addr0) := 9 *)
Definition w_len_big : bytes := set_at w_file 70 [0; 80; 0; 2].           (* length[0] := 5242882 > 4 MiB *)


Example w_file_reads_back :
  exists t, open_table w_file 3 = Ok t
            /\ get crc32c w_file t w_addr0 = Ok (Some [5; 16; 1; 2; 3; 4; 5]).
Proof. eexists. split; [vm_compute; reflexivity | vm_compute; reflexivity]. Qed.

(* length entry < checksumSize: was a slice panic in NewCompressedChunk, now ErrInvalidTableFile *)
Example regression_length_lt_checksum :
  exists t, open_table w_len_lt4 3 = Ok t /\ get crc32c w_len_lt4 t w_addr0 = Err
            /\ iterate crc32c w_len_lt4 t = Err /\ get_many t [w_addr0] = GMNoCrash.
Proof. eexists. split; [vm_compute; reflexivity|]. split; [vm_compute; reflexivity|]. split; vm_compute; reflexivity. Qed.

(* ordinal > count: was a slice panic in entrySuffixMatches / indexEntry, now ErrInvalidTableFile *)
Example regression_ordinal_ge_count :
  exists t, open_table w_ord_gt 3 = Ok t /\ has t w_addr0 = Err /\ get crc32c w_ord_gt t w_addr0 = Err
            /\ iterate crc32c w_ord_gt t = Err /\ get_many t [w_addr0] = GMNoCrash.
Proof. eexists. split; [vm_compute; reflexivity|]. split; [vm_compute; reflexivity|]. split; [vm_compute; reflexivity|]. split; vm_compute; reflexivity. Qed.

(* length entry > 4 MiB: was a slice panic on the iteration's scratch buffer, now a read error *)
Example regression_length_gt_iter_buffer :
  exists t, open_table w_len_big 3 = Ok t /\ iterate crc32c w_len_big t = Err.
Proof. eexists. split; [vm_compute; reflexivity | vm_compute; reflexivity]. Qed.

(* ResolveShortHash: an ordinal > count used to reach hashAt's unguarded slice (panic); a >= 13
   character prefix matching the LAST index tuple used to run the equal-prefix scan past count on
   a VALID file.  After a794b79 the first is ErrInvalidTableFile and the second resolves. *)
Definition b32_chr (d : N) : N := if d <? 10 then d + 48 else d + 87.
Definition w_last_hash : bytes := [222; 237; 235; 151; 180; 80; 10; 188; 98; 213; 39; 210; 25; 98; 28; 170; 111; 18; 16; 147].

Example regression_resolve_short_hash :
  (exists t, open_table w_ord_gt 3 = Ok t /\ hash_at t 1 = Panic /\ resolve t [49] = Err /\ resolve t [118] = Ok [])
  /\ (exists t, open_table w_file 3 = Ok t
       /\ resolve t (map b32_chr (firstn 13 (enc_digits 32 (be w_last_hash)))) = Ok [w_last_hash]
       /\ resolve t (map b32_chr (firstn 3 (enc_digits 32 (be w_last_hash)))) = Ok [w_last_hash]
       /\ resolve t [118; 118] = Ok []).
Proof.
  split; eexists.
  - split; [vm_compute; reflexivity|]. split; [vm_compute; reflexivity|]. split; vm_compute; reflexivity.
  - split; [vm_compute; reflexivity|]. split; [vm_compute; reflexivity|]. split; vm_compute; reflexivity.
Qed.

(* two 6-byte chunks of equal compressed length; in s_file' the two records are exchanged *)
Definition s_file : bytes :=
  [6; 20; 1; 2; 3; 4; 5; 6; 30; 145; 114; 255; 6; 20; 6; 5; 4; 3; 2; 1; 243; 249; 241; 27; 23; 141; 118; 124; 54; 66; 68; 237; 0; 0; 0; 0;
   156; 79; 94; 163; 53; 203; 126; 178; 0; 0; 0; 1; 0; 0; 0; 12; 0; 0; 0; 12; 224; 84; 235; 179; 204; 74; 240; 172; 43; 48; 122; 134;
   63; 24; 216; 217; 7; 244; 69; 204; 37; 19; 122; 229; 0; 0; 0; 2; 0; 0; 0; 0; 0; 0; 0; 12; 255; 181; 216; 194; 36; 99; 238; 80].
Definition s_file' : bytes := sub s_file 12 12 ++ sub s_file 0 12 ++ skipn 24 s_file.
Definition s_h1 : bytes := [23; 141; 118; 124; 54; 66; 68; 237; 224; 84; 235; 179; 204; 74; 240; 172; 43; 48; 122; 134].
Definition s_h2 : bytes := [156; 79; 94; 163; 53; 203; 126; 178; 63; 24; 216; 217; 7; 244; 69; 204; 37; 19; 122; 229].

(* "a lookup returns the record stored for h" is FALSE for arbitrary corruption: exchanging two
   equal-length records leaves every checksum valid; both files answer without error, with the two
   addresses' contents exchanged — in one of the two files each address gets the other's bytes. *)
Theorem no_misread_refuted :
  exists f f' cnt t t' h1 h2 c1 c2, c1 <> c2
    /\ open_table f cnt = Ok t /\ open_table f' cnt = Ok t'
    /\ get crc32c f t h1 = Ok (Some c1) /\ get crc32c f t h2 = Ok (Some c2)
    /\ get crc32c f' t' h1 = Ok (Some c2) /\ get crc32c f' t' h2 = Ok (Some c1).
Proof.
  exists s_file, s_file', 2. eexists. eexists. exists s_h1, s_h2, [6; 20; 1; 2; 3; 4; 5; 6], [6; 20; 6; 5; 4; 3; 2; 1].
  split; [discriminate|]. split; [vm_compute; reflexivity|]. split; [vm_compute; reflexivity|].
  split; [vm_compute; reflexivity|]. split; [vm_compute; reflexivity|]. split; [vm_compute; reflexivity | vm_compute; reflexivity].
Qed.


(* one flipped byte in a suffix of the index (the index has no checksum): the iteration delivers
   the same three payloads, one of them under a different address than before — an address its
   content does not hash to *)
Definition w_suffix_flip : bytes := set_at w_file 117 [146].

Theorem iterate_mislabel_refuted :
  exists f f' cnt t t' l l',
    open_table f cnt = Ok t /\ open_table f' cnt = Ok t'
    /\ iterate crc32c f t = Ok l /\ iterate crc32c f' t' = Ok l'
    /\ map snd l = map snd l' /\ map fst l <> map fst l'.
Proof.
  exists w_file, w_suffix_flip, 3. eexists. eexists. eexists. eexists.
  split; [vm_compute; reflexivity|]. split; [vm_compute; reflexivity|].
  split; [vm_compute; reflexivity|]. split; [vm_compute; reflexivity|].
  split; [vm_compute; reflexivity | vm_compute; discriminate].
Qed.

(* =====================================================================
   archive files
   ===================================================================== *)

Lemma sub64_small a b : b <= a -> a < u64 -> sub64 a b = a - b.
Proof.
  intros H1 H2. unfold sub64. rewrite (N.mod_small b u64) by lia.
  replace (a + u64 - b) with (a - b + 1 * u64) by lia.
  rewrite N.mod_add by (unfold u64; lia). apply N.mod_small. lia.
Qed.

Lemma nth_bound (sl : list N) (B : N) i : 0 < B -> Forall (fun x => x < B) sl -> nth i sl 0 < B.
Proof.
  intros HB H. revert i. induction H as [|x r Hx Hr IH]; intros [|i]; cbn [nth]; auto.
Qed.

(* prollyBinSearch is total on EVERY slice, sorted or not: the invariant lo < target <= hi keeps the
   interpolated index inside [lft, rht-1], so bits.Div64 never overflows or divides by zero, no
   index leaves the slice and the interval shrinks at every step. *)
Lemma psearch_loop_total sl target items :
  items = N.of_nat (length sl) -> items < 4294967296 -> target < u64 -> Forall (fun x => x < u64) sl ->
  forall fuel lft rht lo hi,
    lft <= rht -> rht <= items -> lo < target -> target <= hi -> hi < u64 ->
    (N.to_nat (rht - lft) < fuel)%nat ->
    exists i, psearch_loop fuel sl target items lft rht lo hi = SIdx i.
Proof.
  intros Hit Hsm Ht Hall. induction fuel as [|f IH]; intros lft rht lo hi Hlr Hri Hlo Hhi Hhu Hf; [lia|].
  cbn [psearch_loop]. destruct (lft <? rht) eqn:E; [|eexists; reflexivity].
  assert (Hvr : sub64 hi lo = hi - lo) by (apply sub64_small; lia).
  assert (Hst : sub64 target lo = target - lo) by (apply sub64_small; lia).
  rewrite Hvr, Hst.
  set (vr := hi - lo). set (ir := rht - lft - 1). set (st := target - lo).
  assert (Hvr0 : 0 < vr) by (unfold vr; lia).
  assert (Hsv : st <= vr) by (unfold st, vr; lia).
  assert (Hir : ir < u64) by (unfold ir, u64; lia).
  assert (Hp1 : st * ir <= vr * ir) by (apply N.mul_le_mono_r; exact Hsv).
  assert (Hhi' : st * ir / u64 < vr).
  { apply N.div_lt_upper_bound; [unfold u64; lia|]. nia. }
  assert (Hq : st * ir / vr <= ir).
  { apply N.div_le_upper_bound; [lia|]. nia. }
  assert (Hird : ir = rht - lft - 1) by reflexivity.
  set (q64 := st * ir / u64) in *. set (q := st * ir / vr) in *.
  clearbody q64 q ir vr st.
  destruct ((vr =? 0) || (vr <=? q64)) eqn:E1; [lia|].
  destruct (i63 <=? q) eqn:E2; [unfold i63 in *; lia|].
  set (idx := q + lft).
  assert (Hidx : lft <= idx /\ idx < rht) by (unfold idx; lia).
  destruct (items <=? idx) eqn:E3; [lia|].
  destruct (nth (N.to_nat idx) sl 0 <? target) eqn:E4.
  - destruct (idx + 1 <? items) eqn:E5.
    + destruct (target <=? nth (N.to_nat (idx + 1)) sl 0) eqn:E6; [eexists; reflexivity|].
      apply IH; try lia.
    + apply IH; try lia.
  - apply IH; try lia.
    apply nth_bound; [unfold u64; lia | exact Hall].
Qed.

Theorem psearch_total : forall sl target,
  N.of_nat (length sl) < 4294967296 -> target < u64 -> Forall (fun x => x < u64) sl ->
  exists i, psearch sl target = SIdx i.
Proof.
  intros sl target Hsm Ht Hall. unfold psearch.
  destruct (N.of_nat (length sl) =? 0) eqn:E0; [eexists; reflexivity|].
  destruct (nth (N.to_nat (N.of_nat (length sl) - 1)) sl 0 <? target) eqn:E1; [eexists; reflexivity|].
  destruct (target <=? nth 0 sl 0) eqn:E2; [eexists; reflexivity|].
  apply psearch_loop_total; try lia; try assumption; try reflexivity.
  apply nth_bound; [unfold u64; lia | exact Hall].
Qed.

(* has / findIndex never panic on any archive index (values are 8-byte and 4-byte fields) *)
Theorem no_panic_archive_has : forall a h,
  N.of_nat (length (ax_prefixes a)) < 4294967296 -> addr_prefix h < u64 -> Forall (fun x => x < u64) (ax_prefixes a) ->
  ahas a h <> Panic.
Proof.
  intros a h H1 H2 H3. unfold ahas, afind.
  destruct (psearch_total _ _ H1 H2 H3) as [i Hi]. rewrite Hi.
  destruct (af_chunks (ax_f a) <=? i); cbn [bind]; discriminate.
Qed.

Lemma read_section_np file off len : read_section file off len <> Panic.
Proof.
  unfold read_section. destruct (len =? 0); [discriminate|].
  destruct (i63 <=? off); [discriminate|]. destruct (blen file <? off + len); discriminate.
Qed.

(* opening an archive never panics, whatever the bytes (e8df418: the footer's counts are tied to
   the index size and to the file size before anything is sized from them) *)
Theorem no_panic_archive_open : forall file, open_archive file <> Panic.
Proof.
  intros file. unfold open_archive.
  destruct (load_footer file) as [f| |] eqn:Ef; cbn [bind]; try discriminate.
  - repeat match goal with
    | |- context [bind (read_section ?a ?b ?c) _] =>
      let R := fresh "R" in destruct (read_section a b c) eqn:R; cbn [bind];
      [ | discriminate | exfalso; exact (read_section_np _ _ _ R)]
    end.
    discriminate.
  - unfold load_footer in Ef. destruct (blen file <? 220) in Ef; [discriminate|].
    destruct (negb (beq_bytes _ _)) in Ef; [discriminate|]. destruct (3 <? _) in Ef; [discriminate|].
    destruct (_ || _) in Ef; discriminate.
Qed.

Lemma read_span_checked file a id sp : checked_span a id = Some sp -> read_span file sp <> GPanic.
Proof.
  unfold checked_span. destruct ((id =? 0) || _); [discriminate|].
  destruct ((span_index a id <=? span_index a (id - 1)) || _) eqn:E; [discriminate|].
  intro H. injection H as <-. unfold read_span.
  apply orb_false_iff in E as [E1 E2].
  destruct (span_index a id - span_index a (id - 1) =? 0) eqn:E0; [lia|].
  destruct (_ || _); discriminate.
Qed.

(* get never panics: a dereferenced span is checked first, so the read is never empty *)
Theorem no_panic_archive_get : forall crc file a h,
  N.of_nat (length (ax_prefixes a)) < 4294967296 -> addr_prefix h < u64 -> Forall (fun x => x < u64) (ax_prefixes a) ->
  aget crc file a h <> GPanic.
Proof.
  intros crc file a h H1 H2 H3. unfold aget.
  pose proof (no_panic_archive_has a h H1 H2 H3) as Hh. unfold ahas in Hh.
  destruct (afind a h) as [[idx|]| |]; try discriminate; [|exfalso; apply Hh; reflexivity].
  destruct (nth (N.to_nat idx) (ax_refs a) (0, 0)) as [dict data].
  destruct (negb (dict =? 0)).
  - destruct (checked_span a dict) as [sp|] eqn:C; [|discriminate].
    pose proof (read_span_checked file _ _ _ C) as R. destruct (read_span file sp); try discriminate. contradiction.
  - destruct (checked_span a data) as [sp|] eqn:C; [|discriminate].
    pose proof (read_span_checked file _ _ _ C) as R. destruct (read_span file sp) as [|buf| | |]; try discriminate; [|contradiction].
    destruct (af_ver (ax_f a) <? 2); [discriminate|]. destruct (new_compressed_chunk crc buf); discriminate.
Qed.

Lemma aresolve_np a : N.of_nat (length (ax_prefixes a)) < 4294967296 -> Forall (fun x => x < u64) (ax_prefixes a) ->
  forall reqs, Forall (fun h => addr_prefix h < u64) reqs -> forall acc, aresolve a reqs acc <> Panic.
Proof.
  intros H1 H3 reqs Hr. induction Hr as [|h rest Hh Hrest IH]; intro acc; cbn [aresolve]; [discriminate|].
  pose proof (no_panic_archive_has a h H1 Hh H3) as Hp. unfold ahas in Hp.
  destruct (afind a h) as [[idx|]| |]; cbn [bind]; [ | apply IH | discriminate | exfalso; apply Hp; reflexivity].
  destruct (nth (N.to_nat idx) (ax_refs a) (0, 0)) as [dict data].
  destruct (checked_span a data); [|discriminate].
  destruct (negb (dict =? 0)); [|apply IH].
  destruct (checked_span a dict); [apply IH | discriminate].
Qed.

Lemma Forall_sort_by {A} (P : A -> Prop) key l : Forall P l -> Forall P (sort_by key l).
Proof.
  unfold sort_by. intro H.
  assert (I : forall x l', P x -> Forall P l' -> Forall P (insert_by key x l')).
  { intros x l' Hx Hl. induction Hl as [|y r Hy Hr IHl]; cbn [insert_by].
    - constructor; [exact Hx | constructor].
    - destruct (key x <? key y); constructor; try assumption. constructor; assumption. }
  assert (G : forall acc, Forall P acc -> Forall P (fold_left (fun acc x => insert_by key x acc) l acc)).
  { induction H as [|x r Hx Hr IHf]; intros acc Ha; cbn [fold_left]; [exact Ha|]. apply IHf. apply I; assumption. }
  apply G. constructor.
Qed.

(* getMany never crashes the process: every reference is validated in resolve (002bc81) *)
Theorem no_panic_archive_get_many : forall a reqs,
  N.of_nat (length (ax_prefixes a)) < 4294967296 -> Forall (fun x => x < u64) (ax_prefixes a) ->
  Forall (fun h => addr_prefix h < u64) reqs ->
  aget_many a reqs <> GMCrash.
Proof.
  intros a reqs H1 H3 Hr. unfold aget_many.
  pose proof (aresolve_np a H1 H3 _ (Forall_sort_by _ addr_prefix _ Hr) []) as R.
  destruct (aresolve a _ []); try discriminate. contradiction.
Qed.

Lemma aiter_loop_np crc fuel file a limit : forall counter pos acc, aiter_loop crc fuel file a limit counter pos acc <> IPanic.
Proof.
  induction fuel as [|f IH]; intros counter pos acc; cbn [aiter_loop]; [discriminate|].
  destruct (af_nspans (ax_f a) <? counter); [discriminate|].
  destruct (checked_span a counter) as [[st len]|]; [|discriminate].
  destruct (_ <? len); [discriminate|].
  destruct (existsb _ _); [discriminate|].
  destruct (last_ref_with _ snd counter) as [cid|]; [|discriminate].
  destruct (nth (N.to_nat cid) (ax_refs a) (0, 0)) as [dict d2].
  destruct (negb (dict =? 0)); [discriminate|]. destruct (af_ver (ax_f a) <? 2); [discriminate|].
  destruct (new_compressed_chunk crc _); [apply IH | discriminate | discriminate].
Qed.

(* the iteration never panics on any index and any file *)
Theorem no_panic_archive_iterate : forall crc file a, aiterate crc file a <> IPanic.
Proof. intros. unfold aiterate. apply aiter_loop_np. Qed.

(* a 3-chunk archive written by the real ArchiveStreamWriter (snappy records; format version 3) *)
Definition a_body : bytes :=
  [6; 20; 1; 2; 3; 4; 5; 6; 30; 145; 114; 255; 6; 20; 6; 5; 4; 3; 2; 1; 243; 249; 241; 27; 2; 4; 7; 7; 199; 121; 97; 242;
   0; 0; 0; 0; 0; 0; 0; 12; 0; 0; 0; 0; 0; 0; 0; 24; 0; 0; 0; 0; 0; 0; 0; 32;
   23; 141; 118; 124; 54; 66; 68; 237; 156; 79; 94; 163; 53; 203; 126; 178; 222; 237; 235; 151; 180; 80; 10; 188;
   0; 0; 0; 0; 0; 0; 0; 1; 0; 0; 0; 0; 0; 0; 0; 2; 0; 0; 0; 0; 0; 0; 0; 3;
   224; 84; 235; 179; 204; 74; 240; 172; 43; 48; 122; 134; 63; 24; 216; 217; 7; 244; 69; 204; 37; 19; 122; 229; 98; 213; 39; 210; 25; 98; 28; 170; 111; 18; 16; 147;
   123; 34; 100; 111; 108; 116; 95; 118; 101; 114; 115; 105; 111; 110; 34; 58; 34; 50; 46; 51; 46; 49; 34; 125].
Definition a_file : bytes :=
  a_body ++ [0; 0; 0; 0; 0; 0; 0; 108; 0; 0; 0; 3; 0; 0; 0; 3; 0; 0; 0; 24] ++ repeat 0 192 ++ [3] ++ archive_sig.
Definition a_h1 : bytes := [23; 141; 118; 124; 54; 66; 68; 237; 224; 84; 235; 179; 204; 74; 240; 172; 43; 48; 122; 134].
Definition a_h2 : bytes := [156; 79; 94; 163; 53; 203; 126; 178; 63; 24; 216; 217; 7; 244; 69; 204; 37; 19; 122; 229].

Definition a_ref_oob : bytes := set_at a_file 84 [0; 0; 0; 9].                   (* data id of chunk 0 := 9 (3 spans) *)
Definition a_span_dec : bytes := set_at a_file 32 [0; 0; 0; 0; 0; 0; 1; 0].       (* span offsets 256, 24, 32 *)
Definition a_ref_swap : bytes := set_at (set_at a_file 84 [0; 0; 0; 2]) 92 [0; 0; 0; 1].
Definition a_suffix_flip : bytes := set_at a_file 139 [146].

Example a_file_reads_back :
  exists a, open_archive a_file = Ok a /\ ahas a a_h1 = Ok true
            /\ aget crc32c a_file a a_h1 = GOk [6; 20; 1; 2; 3; 4; 5; 6]
            /\ (exists l, aiterate crc32c a_file a = IOk l /\ length l = 3%nat).
Proof.
  eexists. split; [vm_compute; reflexivity|]. split; [vm_compute; reflexivity|]. split; [vm_compute; reflexivity|].
  eexists. split; vm_compute; reflexivity.
Qed.

(* regression: the witnesses of the repaired archive findings are errors now *)
Example regression_archive_chunk_ref :
  exists a, open_archive a_ref_oob = Ok a /\ aget crc32c a_ref_oob a a_h1 = GErr /\ aiterate crc32c a_ref_oob a = IErr
            /\ aresolve a [a_h1] [] = Err /\ aget_many a [a_h1; a_h2] = GMNoCrash.
Proof. eexists. split; [vm_compute; reflexivity|]. split; [vm_compute; reflexivity|]. split; [vm_compute; reflexivity|]. split; vm_compute; reflexivity. Qed.

Example regression_archive_span_length :
  exists a, open_archive a_span_dec = Ok a /\ aget crc32c a_span_dec a a_h2 = GErr /\ aiterate crc32c a_span_dec a = IErr.
Proof. eexists. split; [vm_compute; reflexivity|]. split; vm_compute; reflexivity. Qed.

Example regression_archive_footer_counts :
  open_archive (set_at a_file 172 [255; 255; 255; 255]) = Err        (* byteSpanCount := 2^32-1 *)
  /\ open_archive (set_at a_file 176 [0; 0; 0; 2]) = Err             (* chunkCount := 2 *)
  /\ (exists a, open_archive (set_at a_file 376 [2]) = Ok a                 (* version 2: 216-byte footer, every section read *)
                 /\ aiterate crc32c (set_at a_file 376 [2]) a = IErr).       (* 4 bytes off: spans fail their checks *)
Proof. split; [|split]; [vm_compute; reflexivity | vm_compute; reflexivity |]. eexists. split; vm_compute; reflexivity. Qed.

(* two chunk references exchanged in the index: both lookups succeed with each other's record *)
Theorem archive_misread_refuted :
  exists f f' a a' h1 h2 c1 c2, c1 <> c2
    /\ open_archive f = Ok a /\ open_archive f' = Ok a'
    /\ aget crc32c f a h1 = GOk c1 /\ aget crc32c f a h2 = GOk c2
    /\ aget crc32c f' a' h1 = GOk c2 /\ aget crc32c f' a' h2 = GOk c1.
Proof.
  exists a_file, a_ref_swap. eexists. eexists. exists a_h1, a_h2, [6; 20; 1; 2; 3; 4; 5; 6], [6; 20; 6; 5; 4; 3; 2; 1].
  split; [discriminate|]. split; [vm_compute; reflexivity|]. split; [vm_compute; reflexivity|].
  split; [vm_compute; reflexivity|]. split; [vm_compute; reflexivity|]. split; [vm_compute; reflexivity | vm_compute; reflexivity].
Qed.

Theorem archive_iterate_mislabel_refuted :
  exists f f' a a' l l',
    open_archive f = Ok a /\ open_archive f' = Ok a'
    /\ aiterate crc32c f a = IOk l /\ aiterate crc32c f' a' = IOk l'
    /\ map snd l = map snd l' /\ map fst l <> map fst l'.
Proof.
  exists a_file, a_suffix_flip. eexists. eexists. eexists. eexists.
  split; [vm_compute; reflexivity|]. split; [vm_compute; reflexivity|].
  split; [vm_compute; reflexivity|]. split; [vm_compute; reflexivity|].
  split; [vm_compute; reflexivity | vm_compute; discriminate].
Qed.

(* =====================================================================
   journal records
   ===================================================================== *)

Lemma read_fields_np fuel : forall buf r, read_fields fuel buf r <> Panic.
Proof.
  induction fuel as [|f IH]; intros buf r; cbn [read_fields]; [discriminate|].
  destruct (blen buf <=? 4); [destruct (blen buf <? 4); discriminate|].
  destruct buf as [|tag b]; [discriminate|].
  destruct (tag =? 1); [destruct (blen b <? 1); [discriminate | apply IH]|].
  destruct (tag =? 2); [destruct (blen b <? 20); [discriminate | apply IH]|].
  destruct (tag =? 4); [destruct (blen b <? 8); [discriminate | apply IH]|].
  destruct (tag =? 3); [apply IH | discriminate].
Qed.

(* readJournalRecord never panics, whatever the bytes (every field read is length-checked now) *)
Lemma read_journal_record_np buf : read_journal_record buf <> Panic.
Proof. unfold read_journal_record. apply read_fields_np. Qed.

Section Journal.
Variable crc : bytes -> N.

Lemma validate_np buf : blen buf < 8 \/ blen buf = be (sub buf 0 4) -> validate_journal_record crc buf <> Panic.
Proof.
  intro H. unfold validate_journal_record.
  destruct (blen buf <? 8) eqn:E8; [discriminate|].
  destruct (blen buf <? be (sub buf 0 4)) eqn:E1; [discriminate|].
  destruct (be (sub buf 0 4) <? 4) eqn:E4; [lia|].
  destruct (_ =? _); discriminate.
Qed.

(* the scanner and the data-loss check always hand validateJournalRecord a buffer whose length is
   its own length field: the uint32 underflow in there cannot be reached from a file *)
Lemma validate_sub_np data off l : off + l <= blen data -> l = be (sub data off 4) ->
  validate_journal_record crc (sub data off l) <> Panic.
Proof.
  intros Hb Hl. apply validate_np. rewrite (blen_sub _ _ _ Hb).
  destruct (N.lt_ge_cases l 8) as [H8 | H8]; [left; exact H8 | right].
  rewrite sub_sub_prefix by lia. exact Hl.
Qed.

Lemma scan_loop_np fuel data : forall off acc, scan_loop crc fuel data off acc <> Panic.
Proof.
  induction fuel as [|f IH]; intros off acc; cbn [scan_loop]; [discriminate|].
  destruct (blen data - off <? 4) eqn:E0; [discriminate|].
  destruct (be (sub data off 4) =? 0) eqn:Ez; [discriminate|].
  destruct (journal_buff_size <? be (sub data off 4)); [discriminate|].
  destruct (blen data - off <? be (sub data off 4)) eqn:E1; [discriminate|].
  pose proof (validate_sub_np data off (be (sub data off 4))) as V.
  destruct (validate_journal_record crc _) as [[]| |] eqn:Ev.
  - pose proof (read_journal_record_np (sub data off (be (sub data off 4)))) as R.
    destruct (read_journal_record _); [apply IH | discriminate | contradiction].
  - discriminate.
  - exfalso. apply V; [lia | reflexivity | reflexivity].
Qed.

Lemma loss_loop_np fuel buf : forall idx fr, loss_loop crc fuel buf idx fr <> Panic.
Proof.
  induction fuel as [|f IH]; intros idx fr; cbn [loss_loop]; [discriminate|].
  destruct (blen buf <? idx + root_hash_record_size) eqn:E0; [discriminate|].
  destruct ((0 <? be (sub buf idx 4)) && (be (sub buf idx 4) <=? journal_buff_size) && (be (sub buf idx 4) <=? blen buf - idx)) eqn:E; [|apply IH].
  apply andb_true_iff in E as [E E3]. apply andb_true_iff in E as [E1 E2].
  pose proof (validate_sub_np buf idx (be (sub buf idx 4))) as V.
  unfold root_hash_record_size in E0.
  destruct (validate_journal_record crc _) as [[]| |] eqn:Ev.
  - pose proof (read_journal_record_np (sub buf idx (be (sub buf idx 4)))) as R.
    destruct (read_journal_record _) as [r| |].
    + destruct fr; [discriminate | apply IH].
    + discriminate.
    + contradiction.
  - apply IH.
  - exfalso. apply V; [lia | reflexivity | reflexivity].
Qed.

(* For EVERY byte string and every checksum function: scanning a journal (record scan, then the
   data-loss resynchronisation over the rest) never panics.  No CRC assumption is needed any more. *)
Theorem no_panic_journal_scan : forall data, scan_journal crc data <> Panic.
Proof.
  intro data. unfold scan_journal.
  pose proof (scan_loop_np (S (length data)) data 0 []) as Hs.
  destruct (scan_loop crc _ data 0 []) as [[[recs off] why]| |]; cbn [bind]; try discriminate; [|contradiction].
  destruct why; try discriminate.
  pose proof (loss_loop_np (S (length data)) (skipn (N.to_nat off) data) 0 false) as L.
  destruct (loss_loop crc _ _ 0 false) as [[[]|]| |]; cbn [bind]; try discriminate. contradiction.
Qed.

End Journal.

(* a 10-byte record: length, address tag, one byte, valid CRC32C — used to panic in
   readJournalRecord (buf[journalRecAddrSz:]); now the scan stops with an error *)
Definition j_short_addr : bytes := [0; 0; 0; 10; 2; 1] ++ enc_be 4 (crc32c [0; 0; 0; 10; 2; 1]).
Definition j_short_ts : bytes := [0; 0; 0; 12; 4; 1; 2; 3] ++ enc_be 4 (crc32c [0; 0; 0; 12; 4; 1; 2; 3]).

Example regression_journal_short_field :
  scan_journal crc32c j_short_addr = Ok ([], 0, JErr) /\ scan_journal crc32c j_short_ts = Ok ([], 0, JErr).
Proof. split; vm_compute; reflexivity. Qed.

Example writer_records_read_back :
  (exists r, read_journal_record ([0; 0; 0; 40; 1; 1; 4; 0; 0; 0; 0; 0; 0; 0; 9; 2] ++ repeat 7 20 ++ [1; 2; 3; 4]) = Ok r /\ j_kind r = 1)
  /\ (exists r, read_journal_record ([0; 0; 0; 36; 1; 2; 2] ++ repeat 7 20 ++ [3; 9; 9; 9; 9; 9; 1; 2; 3; 4]) = Ok r /\ j_payload r = Some [9; 9; 9; 9; 9]).
Proof. split; eexists; split; vm_compute; reflexivity. Qed.

(* validateJournalRecord alone still underflows on a length field < 4 (journal_record.go:257);
   every caller passes len(buf) = length field (validate_sub_np), so no file reaches it *)
Theorem journal_validate_latent_underflow : exists buf, validate_journal_record crc32c buf = Panic.
Proof. exists [0; 0; 0; 0; 0; 0; 0; 0]. vm_compute. reflexivity. Qed.

(* =====================================================================
   manifest
   ===================================================================== *)

(* For EVERY byte string the manifest parser returns contents or an error; it never panics *)
Theorem no_panic_manifest : forall s, parse_manifest s <> Panic.
Proof.
  intros s. unfold parse_manifest.
  destruct (read_version 8 s []) as [[vers rest]|]; [|discriminate].
  destruct (beq_bytes vers [53]).
  - destruct (_ || _); [discriminate|].
    destruct (parse_specs _); [|discriminate].
    destruct (negb (valid_hash_str (nth 1 (split_on colon rest) []))); [discriminate|].
    destruct (negb (valid_hash_str (nth 3 (split_on colon rest) []))); [discriminate|].
    destruct (negb (valid_hash_str (nth 2 (split_on colon rest) []))); discriminate.
  - destruct (beq_bytes vers [52]); [|discriminate].
    destruct (_ || _); [discriminate|].
    destruct (parse_specs _); [|discriminate].
    destruct (negb (valid_hash_str (nth 1 (split_on colon rest) []))); [discriminate|].
    destruct (negb (valid_hash_str (nth 2 (split_on colon rest) []))); discriminate.
Qed.

Definition h32 : bytes := repeat 48 32.
Definition m_bad_root : bytes :=
  [53; 58; 95; 95; 68; 79; 76; 84; 95; 95; 58] ++ h32 ++ [58] ++ (repeat 48 31 ++ [90]) ++ [58] ++ h32.

Example manifest_parses : exists m, parse_manifest ([53; 58; 95; 95; 68; 79; 76; 84; 95; 95; 58] ++ h32 ++ [58] ++ h32 ++ [58] ++ h32 ++ [58] ++ h32 ++ [58; 55]) = Ok m
                                    /\ m_specs m = [(h32, 7)].
Proof. eexists. split; [vm_compute; reflexivity | vm_compute; reflexivity]. Qed.

(* one bad character in the root hash: used to panic in hash.Parse, now an error *)
Example regression_manifest_bad_root : parse_manifest m_bad_root = Err.
Proof. vm_compute. reflexivity. Qed.

(* =====================================================================
   the model never violates the no-crash half of the oracle
   ===================================================================== *)

Theorem oracle_model : forall i, input_wf i = true -> oracle i (model_obs i) = true.
Proof.
  intros [file cnt addrs | data | data | file cnt shorts | file addrs | op] Hwf; unfold oracle, model_obs; try discriminate Hwf.
  - unfold table_obs. pose proof (no_panic_open_table file cnt) as Ho.
    destruct (open_table file cnt) as [t| |]; [| reflexivity | contradiction].
    cbn [o_open o_res o_iter o_gm o_class].
    assert (Hr : forallb (fun r : N * N => negb (fst r =? 2) && negb (snd r =? 2) && negb (snd r =? 4))
                   (map (fun h => (has_code (has t h), get_code (get crc32c file t h))) addrs) = true).
    { apply forallb_forall. intros r Hin. apply in_map_iff in Hin as [h [<- _]]. cbn [fst snd].
      pose proof (has_np t h) as H1. pose proof (get_np crc32c t file h) as H2.
      destruct (has t h) as [[]| |]; destruct (get crc32c file t h) as [[?|]| |]; try contradiction; reflexivity. }
    rewrite Hr.
    pose proof (iterate_np crc32c t file) as Hi. pose proof (get_many_np t addrs) as Hg.
    destruct (iterate crc32c file t); [| | contradiction]; destruct (get_many t addrs); try contradiction; reflexivity.
  - unfold journal_obs. pose proof (no_panic_journal_scan crc32c data) as Hj.
    destruct (scan_journal crc32c data) as [[[recs off] cl]| |]; [| reflexivity | contradiction].
    destruct cl; reflexivity.
  - unfold manifest_obs. pose proof (no_panic_manifest data) as Hm.
    destruct (parse_manifest data); [reflexivity | reflexivity | contradiction].
  - unfold resolve_obs. pose proof (no_panic_open_table file cnt) as Ho.
    destruct (open_table file cnt) as [t| |]; [| reflexivity | contradiction].
    cbn [o_open o_res o_iter o_gm o_class o_recs forallb andb negb N.eqb].
    apply forallb_forall. intros r Hin. apply in_map_iff in Hin as [sh [<- Hs]].
    cbn [input_wf] in Hwf. rewrite forallb_forall in Hwf.
    assert (Hr : resolve t sh <> Panic) by (first [exact (resolve_np t sh (Hwf _ Hs)) | exact (resolve_np crc32c t sh (Hwf _ Hs))]).
    destruct (resolve t sh); [reflexivity | reflexivity | contradiction].
  - cbn [input_wf] in Hwf. cbn [o_open o_res o_iter o_gm o_class o_extra forallb]. rewrite Hwf. reflexivity.
Qed.
