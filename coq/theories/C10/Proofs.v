(* C10 — proofs about the reader models: panic freedom (for every byte string) where it
   holds, the exact guards under which it holds where it does not, refutations with concrete
   witnesses (replayed on the real readers by the check), and what a successful lookup returns. *)
From Coq Require Import NArith Arith List Bool Lia ZifyN ZifyNat ZifyBool.
From Dolt Require Import Base.Str Gen.C10Consts C10.Model C10.Spec C10.Corr.
Import ListNotations.
Local Open Scope N_scope.

(* ---- the hand-written constants are the ones in the Go source today ------------------- *)
Lemma consts_pinned :
  footer_size = 20 /\ prefix_tuple_size = 12 /\ length_size = 4 /\ offset_size = 8 /\ checksum_size = 4
  /\ magic_number = magic /\ (forall c, index_size c + footer_size = 28 * c + 20)
  /\ (forall c, lengths_offset c = 12 * c) /\ (forall c, suffixes_offset c = 16 * c)
  /\ journal_rec_len_sz = 4 /\ journal_rec_checksum_sz = 4 /\ journal_rec_addr_sz = 20 /\ journal_rec_timestamp_sz = 8
  /\ kind_journal_rec_tag = 1 /\ addr_journal_rec_tag = 2 /\ payload_journal_rec_tag = 3 /\ timestamp_journal_rec_tag = 4
  /\ root_hash_journal_rec_kind = 1 /\ manifest_prefix_len = 5.
Proof.
  repeat split; try reflexivity; intro c; unfold index_size, footer_size, lengths_offset, suffixes_offset; lia.
Qed.

(* ---- generic list / byte facts ---------------------------------------------------------- *)
Lemma blen_sub b off n : off + n <= blen b -> blen (sub b off n) = n.
Proof.
  unfold blen, sub. intro H. rewrite firstn_length, skipn_length. lia.
Qed.

Lemma sub_sub_prefix b off n k : k <= n -> sub (sub b off n) 0 k = sub b off k.
Proof.
  unfold sub. intro H. change (N.to_nat 0) with 0%nat. cbn [skipn].
  rewrite firstn_firstn. f_equal. lia.
Qed.

Lemma blen_take_pad n l : blen (take_pad n l) = n.
Proof.
  unfold blen, take_pad. rewrite app_length, firstn_length, repeat_length. lia.
Qed.

Lemma in_below k x : In x (below k) <-> (N.to_nat x < k)%nat.
Proof.
  induction k as [|k IH]; cbn [below].
  - split; [intros [] | lia].
  - rewrite in_app_iff, IH. cbn [In]. split.
    + intros [H | [H | []]]; lia.
    + intro H. destruct (Nat.eq_dec (N.to_nat x) k) as [E | E]; [right; left; lia | left; lia].
Qed.

(* =====================================================================
   table files
   ===================================================================== *)

Lemma read_footer_np buff : read_footer buff <> Panic.
Proof.
  unfold read_footer. destruct (blen buff <? 20); [discriminate|].
  destruct (beq_bytes _ _); discriminate.
Qed.

Lemma parse_table_index_np buff : parse_table_index buff <> Panic.
Proof.
  unfold parse_table_index. destruct (read_footer buff) as [[c tot]| |] eqn:E; cbn [bind].
  - destruct (negb _); discriminate.
  - discriminate.
  - exfalso. exact (read_footer_np _ E).
Qed.

(* opening a table file never panics, whatever the bytes and whatever count the manifest claims *)
Theorem no_panic_open_table : forall file cnt, open_table file cnt <> Panic.
Proof.
  intros file cnt. unfold open_table.
  destruct (blen file <? 28 * cnt + 20); [discriminate|].
  destruct (parse_table_index _) as [t| |] eqn:E; cbn [bind].
  - destruct (ti_count t =? cnt); discriminate.
  - discriminate.
  - exfalso. exact (parse_table_index_np _ E).
Qed.

Section Guarded.
Variable crc : bytes -> N.
Variable t : tindex.
Hypothesis Hord : ordinals_ok t = true.
Hypothesis Hlen : lengths_ok t = true.

Lemma ord_lt idx : idx < ti_count t -> ord_at t idx < ti_count t.
Proof.
  intro H. unfold ordinals_ok in Hord. rewrite forallb_forall in Hord.
  specialize (Hord idx). rewrite in_below in Hord. apply N.ltb_lt, Hord. lia.
Qed.

Lemma len_ok ord : ord < ti_count t -> 4 <= entry_len t ord <= iter_buf_size.
Proof.
  intro H. unfold lengths_ok in Hlen. rewrite forallb_forall in Hlen.
  specialize (Hlen ord). rewrite in_below in Hlen.
  assert (Hx : (N.to_nat ord < N.to_nat (ti_count t))%nat) by lia.
  apply Hlen in Hx. apply andb_true_iff in Hx as [H1 H2]. lia.
Qed.

Lemma suffix_at_ok ord : ord < ti_count t -> exists s, suffix_at t ord = Ok s.
Proof.
  intro H. unfold suffix_at.
  destruct (12 * ord + 12 <=? 12 * ti_count t + 20) eqn:E; [eexists; reflexivity | lia].
Qed.

Lemma offset_at_ok ord : ord < ti_count t -> offset_at t ord = Ok (nth (N.to_nat ord) (ti_offsets t) 0).
Proof.
  intro H. unfold offset_at. destruct (ord <? ti_count t) eqn:E; [reflexivity | lia].
Qed.

Lemma get_index_entry_ok ord : ord < ti_count t ->
  exists off, get_index_entry t ord = Ok (off, entry_len t ord).
Proof.
  intro H. unfold get_index_entry, entry_len.
  destruct (ord =? 0) eqn:E0; cbn [bind].
  - rewrite (offset_at_ok _ H). cbn [bind]. eexists; reflexivity.
  - assert (H1 : ord - 1 < ti_count t) by lia.
    rewrite (offset_at_ok _ H1). cbn [bind]. rewrite (offset_at_ok _ H). cbn [bind]. eexists; reflexivity.
Qed.

Lemma match_loop_np fuel h idx :
  match match_loop fuel t h idx with
  | Panic => False
  | Ok (Some i) => i < ti_count t
  | _ => True
  end.
Proof.
  revert idx. induction fuel as [|f IH]; intro idx; cbn [match_loop]; [exact I|].
  destruct ((idx <? ti_count t) && (prefix_at t idx =? addr_prefix h)) eqn:E; [|exact I].
  apply andb_true_iff in E as [E1 E2].
  assert (Hi : idx < ti_count t) by lia.
  destruct (suffix_at_ok _ (ord_lt _ Hi)) as [s Hs]. rewrite Hs. cbn [bind].
  destruct (beq_bytes s (addr_suffix h)); [exact Hi | apply IH].
Qed.

Lemma lookup_np h :
  match lookup t h with
  | Panic => False
  | Ok (Some (_, len)) => 4 <= len <= iter_buf_size
  | _ => True
  end.
Proof.
  unfold lookup.
  pose proof (match_loop_np (N.to_nat (ti_count t)) h (find_prefix t (addr_prefix h))) as M.
  destruct (match_loop _ t h _) as [[i|]| |]; cbn [bind]; try exact I; [|contradiction].
  destruct (ord_at t i =? ti_count t); [exact I|].
  destruct (get_index_entry_ok _ (ord_lt _ M)) as [off Hg]. rewrite Hg. cbn [bind].
  apply len_ok, ord_lt, M.
Qed.

Lemma has_np h : has t h <> Panic.
Proof.
  unfold has. pose proof (lookup_np h) as L.
  destruct (lookup t h) as [[e|]| |]; cbn [bind]; try discriminate. contradiction.
Qed.

Lemma ncc_np buff : 4 <= blen buff -> new_compressed_chunk crc buff <> Panic.
Proof.
  intro H. unfold new_compressed_chunk. destruct (blen buff <? 4) eqn:E; [lia|].
  destruct (_ =? _); discriminate.
Qed.

Lemma get_np file h : get crc file t h <> Panic.
Proof.
  unfold get. pose proof (lookup_np h) as L.
  destruct (lookup t h) as [[[off len]|]| |]; cbn [bind]; try discriminate; [|contradiction].
  destruct ((0 <? len) && ((blen file <? off + len) || (9223372036854775808 <=? off))) eqn:E; [discriminate|].
  assert (Hb : off + len <= blen file).
  { apply andb_false_iff in E as [E | E]; [lia|]. apply orb_false_iff in E as [E1 E2]. lia. }
  pose proof (ncc_np (sub file off len)) as Hn. rewrite (blen_sub _ _ _ Hb) in Hn.
  destruct (new_compressed_chunk crc (sub file off len)) as [comp| |]; cbn [bind].
  - destruct (blen comp =? 0); discriminate.
  - discriminate.
  - exfalso. apply Hn; [lia | reflexivity].
Qed.

Lemma find_offsets_np reqs : forall fi acc, find_offsets t reqs fi acc <> Panic.
Proof.
  induction reqs as [|h rest IH]; intros fi acc; cbn [find_offsets]; [discriminate|].
  destruct (ti_count t <=? _); [discriminate|].
  destruct (negb _); [apply IH|].
  match goal with |- context [match_loop ?f t h ?i] => pose proof (match_loop_np f h i) as M; destruct (match_loop f t h i) as [[i'|]| |] end;
    cbn [bind]; try discriminate; [| apply IH | contradiction].
  destruct (get_index_entry_ok _ (ord_lt _ M)) as [off Hg]. rewrite Hg. cbn [bind]. apply IH.
Qed.

Lemma get_many_np reqs : get_many t reqs <> GMCrash.
Proof.
  unfold get_many. pose proof (find_offsets_np (sort_by addr_prefix reqs) 0 []) as F.
  destruct (find_offsets t _ 0 []) as [recs| |]; try discriminate; [|contradiction].
  destruct (existsb _ recs); discriminate.
Qed.

Definition rec_ok (e : N * N * bytes) : Prop := 4 <= snd (fst e) <= iter_buf_size.

Lemma collect_ok k : forall idx, (N.to_nat idx + k <= N.to_nat (ti_count t))%nat ->
  exists recs, collect t k idx = Ok recs /\ Forall rec_ok recs.
Proof.
  induction k as [|k IH]; intros idx H; cbn [collect].
  - exists []. split; [reflexivity | constructor].
  - assert (Hi : idx < ti_count t) by lia.
    unfold index_entry.
    destruct (suffix_at_ok _ (ord_lt _ Hi)) as [s Hs]. rewrite Hs. cbn [bind].
    destruct (get_index_entry_ok _ (ord_lt _ Hi)) as [off Hg]. rewrite Hg. cbn [bind].
    destruct (IH (idx + 1)) as [r [Hr Fr]]; [lia|]. rewrite Hr. cbn [bind].
    eexists; split; [reflexivity|]. constructor; [|exact Fr].
    unfold rec_ok. cbn [fst snd]. apply len_ok, ord_lt, Hi.
Qed.

Lemma Forall_insert_by {A} (P : A -> Prop) key x l : P x -> Forall P l -> Forall P (insert_by key x l).
Proof.
  intros Hx Hl. induction Hl as [|y r Hy Hr IH]; cbn [insert_by].
  - constructor; [exact Hx | constructor].
  - destruct (key x <? key y); constructor; try assumption. constructor; assumption.
Qed.

Lemma Forall_sort_by {A} (P : A -> Prop) key l : Forall P l -> Forall P (sort_by key l).
Proof.
  unfold sort_by. intro H.
  assert (G : forall acc, Forall P acc -> Forall P (fold_left (fun acc x => insert_by key x acc) l acc)).
  { induction H as [|x r Hx Hr IH]; intros acc Ha; cbn [fold_left]; [exact Ha|].
    apply IH. apply Forall_insert_by; assumption. }
  apply G. constructor.
Qed.

Lemma iter_loop_np file limit recs : Forall rec_ok recs ->
  forall pos buf acc, iter_loop crc file limit recs pos buf acc <> Panic.
Proof.
  induction 1 as [|[[off len] h] rest Hx Hr IH]; intros pos buf acc; cbn [iter_loop]; [discriminate|].
  unfold rec_ok in Hx. cbn [fst snd] in Hx.
  destruct (iter_buf_size <? len) eqn:E; [lia|].
  match goal with |- context [new_compressed_chunk crc ?b] =>
    pose proof (ncc_np b) as Hn; rewrite blen_take_pad in Hn; destruct (new_compressed_chunk crc b) as [comp| |] end; cbn [bind].
  - apply IH.
  - discriminate.
  - exfalso. apply Hn; [lia | reflexivity].
Qed.

Lemma iterate_np file : iterate crc file t <> Panic.
Proof.
  unfold iterate. destruct (ti_count t =? 0); [discriminate|].
  destruct (collect_ok (N.to_nat (ti_count t)) 0) as [recs [Hc Fc]]; [lia|]. rewrite Hc. cbn [bind].
  apply iter_loop_np. apply Forall_sort_by. exact Fc.
Qed.

End Guarded.

(* Under the two consistency conditions parseTableIndex does not check (every ordinal < count,
   every record length within [checksumSize, 4 MiB]) no read path of an opened table panics —
   for every file, every claimed count, every address.  A parseTableIndex that rejects an index
   violating [index_guards] therefore makes the table reader panic free. *)
Theorem no_panic_table_guarded :
  forall crc file cnt t, open_table file cnt = Ok t -> index_guards t = true ->
    (forall h, has t h <> Panic) /\ (forall h, get crc file t h <> Panic)
    /\ (forall hs, get_many t hs <> GMCrash) /\ iterate crc file t <> Panic.
Proof.
  intros crc file cnt t _ G. unfold index_guards in G. apply andb_true_iff in G as [Go Gl].
  repeat split.
  - intro h. apply has_np; assumption.
  - intro h. apply get_np; assumption.
  - intro hs. apply get_many_np; assumption.
  - apply iterate_np; assumption.
Qed.

(* ---- what a successful lookup hands out -------------------------------------------------- *)

Lemma match_loop_sound t fuel h : forall idx i, match_loop fuel t h idx = Ok (Some i) -> designated t h i.
Proof.
  induction fuel as [|f IH]; intros idx i; cbn [match_loop]; [discriminate|].
  destruct ((idx <? ti_count t) && (prefix_at t idx =? addr_prefix h)) eqn:E; [|discriminate].
  apply andb_true_iff in E as [E1 E2].
  destruct (suffix_at t (ord_at t idx)) as [s| |] eqn:Hs; cbn [bind]; try discriminate.
  destruct (beq_bytes s (addr_suffix h)) eqn:Hb.
  - intro H. injection H as <-. apply beq_bytes_spec in Hb. subst s.
    split; [lia | split; [lia | exact Hs]].
  - apply IH.
Qed.

(* For EVERY file: if get answers bytes for address h, then the index holds a tuple whose prefix
   and (ordinal-indexed) suffix spell h, and the bytes are exactly the payload of the record that
   tuple's ordinal designates, present in the file, with a matching checksum.  (Whether that
   payload is the chunk originally stored for h is what a checksum cannot tell: see
   no_misread_refuted.) *)
Theorem no_misread_get :
  forall crc file t h comp, get crc file t h = Ok (Some comp) ->
    exists idx off len, designated t h idx /\ ord_at t idx <> ti_count t
      /\ get_index_entry t (ord_at t idx) = Ok (off, len) /\ record_at crc file off len comp.
Proof.
  intros crc file t h comp. unfold get, lookup.
  destruct (match_loop _ t h _) as [[i|]| |] eqn:M; cbn [bind]; try discriminate.
  apply match_loop_sound in M.
  destruct (ord_at t i =? ti_count t) eqn:Ec; cbn [bind]; [discriminate|].
  destruct (get_index_entry t (ord_at t i)) as [[off len]| |] eqn:G; cbn [bind]; try discriminate.
  destruct ((0 <? len) && ((blen file <? off + len) || (9223372036854775808 <=? off))) eqn:E; [discriminate|].
  unfold new_compressed_chunk.
  destruct (blen (sub file off len) <? 4) eqn:E4; cbn [bind]; [discriminate|].
  destruct (be _ =? crc _) eqn:Ecrc; cbn [bind]; [|discriminate].
  destruct (blen _ =? 0); [discriminate|].
  intro H. injection H as <-.
  assert (Hl : 4 <= len).
  { unfold blen, sub in E4. rewrite firstn_length in E4. lia. }
  assert (Hb : off + len <= blen file).
  { apply andb_false_iff in E as [E | E]; [lia|]. apply orb_false_iff in E as [E1 E2]. lia. }
  rewrite (blen_sub _ _ _ Hb) in *.
  apply N.eqb_eq in Ecrc.
  exists i, off, len. split; [exact M|]. split; [lia|]. split; [exact G|].
  unfold record_at. split; [exact Hb|]. split; [exact Hl|]. split; [reflexivity | exact Ecrc].
Qed.

(* ---- refutations: concrete files on which today's reader panics / misreads ------------- *)

Definition set_at (b : bytes) (pos : nat) (v : bytes) : bytes := firstn pos b ++ v ++ skipn (pos + length v) b.

(* a 3-chunk table file written by the real tableWriter (chunks 0102030405, 09..0a, 0707) *)
Definition w_file : bytes :=
  [5; 16; 1; 2; 3; 4; 5; 160; 242; 74; 212; 9; 32; 9; 9; 9; 9; 9; 9; 9; 9; 10; 207; 120; 115; 172; 2; 4; 7; 7; 199; 121; 97; 242;
   72; 177; 213; 107; 118; 145; 55; 230; 0; 0; 0; 1; 80; 84; 11; 196; 174; 49; 135; 95; 0; 0; 0; 0; 222; 237; 235; 151; 180; 80; 10; 188; 0; 0; 0; 2;
   0; 0; 0; 11; 0; 0; 0; 15; 0; 0; 0; 8;
   206; 179; 130; 148; 52; 197; 94; 60; 43; 102; 221; 215; 119; 241; 122; 144; 45; 147; 43; 243; 238; 241; 206; 39; 98; 213; 39; 210; 25; 98; 28; 170; 111; 18; 16; 147;
   0; 0; 0; 3; 0; 0; 0; 0; 0; 0; 0; 16; 255; 181; 216; 194; 36; 99; 238; 80].
Definition w_addr0 : bytes := [80; 84; 11; 196; 174; 49; 135; 95; 206; 179; 130; 148; 52; 197; 94; 60; 43; 102; 221; 215].

Definition w_len_lt4 : bytes := set_at w_file 70 [0; 0; 0; 2].            (* length[0] := 2 *)
Definition w_ord_gt : bytes := set_at w_file 54 [0; 0; 0; 9].             (* ordinal of tuple 1 (address w_addr0) := 9 *)
Definition w_len_big : bytes := set_at w_file 70 [0; 80; 0; 2].           (* length[0] := 5242882 > 4 MiB *)

Example w_file_reads_back :
  exists t, open_table w_file 3 = Ok t /\ index_guards t = true
            /\ get crc32c w_file t w_addr0 = Ok (Some [5; 16; 1; 2; 3; 4; 5]).
Proof. eexists. split; [vm_compute; reflexivity|]. split; [vm_compute; reflexivity | vm_compute; reflexivity]. Qed.

(* no_panic for the table reader is FALSE today: F3 *)
Theorem no_panic_table_refuted :
  (exists file cnt t h, open_table file cnt = Ok t /\ get crc32c file t h = Panic)
  /\ (exists file cnt t h, open_table file cnt = Ok t /\ has t h = Panic)
  /\ (exists file cnt t, open_table file cnt = Ok t /\ iterate crc32c file t = Panic)
  /\ (exists file cnt t h, open_table file cnt = Ok t /\ get_many t [h] = GMCrash).
Proof.
  split; [|split; [|split]].
  - exists w_len_lt4, 3. eexists. exists w_addr0. split; [vm_compute; reflexivity | vm_compute; reflexivity].
  - exists w_ord_gt, 3. eexists. exists w_addr0. split; [vm_compute; reflexivity | vm_compute; reflexivity].
  - exists w_len_big, 3. eexists. split; [vm_compute; reflexivity | vm_compute; reflexivity].
  - exists w_ord_gt, 3. eexists. exists w_addr0. split; [vm_compute; reflexivity | vm_compute; reflexivity].
Qed.

(* two 6-byte chunks of equal compressed length; in s_file' the two records are exchanged *)
Definition s_file : bytes :=
  [6; 20; 1; 2; 3; 4; 5; 6; 30; 145; 114; 255; 6; 20; 6; 5; 4; 3; 2; 1; 243; 249; 241; 27; 23; 141; 118; 124; 54; 66; 68; 237; 0; 0; 0; 0;
   156; 79; 94; 163; 53; 203; 126; 178; 0; 0; 0; 1; 0; 0; 0; 12; 0; 0; 0; 12; 224; 84; 235; 179; 204; 74; 240; 172; 43; 48; 122; 134;
   63; 24; 216; 217; 7; 244; 69; 204; 37; 19; 122; 229; 0; 0; 0; 2; 0; 0; 0; 0; 0; 0; 0; 12; 255; 181; 216; 194; 36; 99; 238; 80].
Definition s_file' : bytes := sub s_file 12 12 ++ sub s_file 0 12 ++ skipn 24 s_file.
Definition s_h1 : bytes := [23; 141; 118; 124; 54; 66; 68; 237; 224; 84; 235; 179; 204; 74; 240; 172; 43; 48; 122; 134].
Definition s_h2 : bytes := [156; 79; 94; 163; 53; 203; 126; 178; 63; 24; 216; 217; 7; 244; 69; 204; 37; 19; 122; 229].

(* "a lookup returns the record stored for h" is FALSE for arbitrary corruption: exchanging two
   equal-length records leaves every checksum valid; both files answer without error, with the two
   addresses' contents exchanged — in one of the two files each address gets the other's bytes. *)
Theorem no_misread_refuted :
  exists f f' cnt t t' h1 h2 c1 c2, c1 <> c2
    /\ open_table f cnt = Ok t /\ open_table f' cnt = Ok t'
    /\ get crc32c f t h1 = Ok (Some c1) /\ get crc32c f t h2 = Ok (Some c2)
    /\ get crc32c f' t' h1 = Ok (Some c2) /\ get crc32c f' t' h2 = Ok (Some c1).
Proof.
  exists s_file, s_file', 2. eexists. eexists. exists s_h1, s_h2, [6; 20; 1; 2; 3; 4; 5; 6], [6; 20; 6; 5; 4; 3; 2; 1].
  split; [discriminate|]. split; [vm_compute; reflexivity|]. split; [vm_compute; reflexivity|].
  split; [vm_compute; reflexivity|]. split; [vm_compute; reflexivity|]. split; [vm_compute; reflexivity | vm_compute; reflexivity].
Qed.

(* =====================================================================
   journal records
   ===================================================================== *)

Section Journal.
Variable crc : bytes -> N.

Lemma validate_np buf : blen buf < 8 \/ blen buf = be (sub buf 0 4) -> validate_journal_record crc buf <> Panic.
Proof.
  intro H. unfold validate_journal_record.
  destruct (blen buf <? 8) eqn:E8; [discriminate|].
  destruct (blen buf <? be (sub buf 0 4)) eqn:E1; [discriminate|].
  destruct (be (sub buf 0 4) <? 4) eqn:E4; [lia|].
  destruct (_ =? _); discriminate.
Qed.

Lemma validate_sub_np data off l : off + l <= blen data -> l = be (sub data off 4) ->
  validate_journal_record crc (sub data off l) <> Panic.
Proof.
  intros Hb Hl. apply validate_np. rewrite (blen_sub _ _ _ Hb).
  destruct (N.lt_ge_cases l 8) as [H8 | H8]; [left; exact H8 | right].
  rewrite sub_sub_prefix by lia. exact Hl.
Qed.

(* the only way a journal scan can panic: a record whose checksum validates but whose fields
   run past its end.  [fields_wf] says no CRC-valid record is like that — true of every record
   the writer produces; for foreign bytes it is the crc_detects assumption made explicit. *)
Definition fields_wf : Prop :=
  forall buf, validate_journal_record crc buf = Ok tt -> read_journal_record buf <> Panic.

Hypothesis Hwf : fields_wf.

Lemma scan_loop_np fuel data : forall off acc, scan_loop crc fuel data off acc <> Panic.
Proof.
  induction fuel as [|f IH]; intros off acc; cbn [scan_loop]; [discriminate|].
  destruct (blen data - off <? 4) eqn:E0; [discriminate|].
  destruct (be (sub data off 4) =? 0) eqn:Ez; [discriminate|].
  destruct (journal_buff_size <? be (sub data off 4)); [discriminate|].
  destruct (blen data - off <? be (sub data off 4)) eqn:E1; [discriminate|].
  pose proof (validate_sub_np data off (be (sub data off 4))) as V.
  destruct (validate_journal_record crc _) as [[]| |] eqn:Ev.
  - destruct (read_journal_record _) eqn:Er; [apply IH | discriminate | exfalso; exact (Hwf _ Ev Er)].
  - discriminate.
  - exfalso. apply V; [lia | reflexivity | reflexivity].
Qed.

Lemma loss_loop_np fuel buf : forall idx fr, loss_loop crc fuel buf idx fr <> Panic.
Proof.
  induction fuel as [|f IH]; intros idx fr; cbn [loss_loop]; [discriminate|].
  destruct (blen buf <? idx + 40) eqn:E0; [discriminate|].
  destruct ((0 <? be (sub buf idx 4)) && (be (sub buf idx 4) <=? journal_buff_size) && (be (sub buf idx 4) <=? blen buf - idx)) eqn:E; [|apply IH].
  apply andb_true_iff in E as [E E3]. apply andb_true_iff in E as [E1 E2].
  pose proof (validate_sub_np buf idx (be (sub buf idx 4))) as V.
  destruct (validate_journal_record crc _) as [[]| |] eqn:Ev.
  - destruct (read_journal_record _) as [r| |] eqn:Er.
    + destruct fr; [discriminate | apply IH].
    + discriminate.
    + exfalso. exact (Hwf _ Ev Er).
  - apply IH.
  - exfalso. apply V; [lia | reflexivity | reflexivity].
Qed.

Theorem no_panic_journal_scan_wf : forall data, scan_journal crc data <> Panic.
Proof.
  intro data. unfold scan_journal.
  pose proof (scan_loop_np (S (length data)) data 0 []) as Hs.
  destruct (scan_loop crc _ data 0 []) as [[[recs off] why]| |]; cbn [bind]; try discriminate; [|contradiction].
  destruct why; try discriminate.
  pose proof (loss_loop_np (S (length data)) (skipn (N.to_nat off) data) 0 false) as L.
  destruct (loss_loop crc _ _ 0 false) as [[[]|]| |]; cbn [bind]; try discriminate. contradiction.
Qed.

End Journal.

(* records produced by the writer satisfy fields_wf's conclusion: a root record and a chunk record *)
Example writer_records_read_back :
  read_journal_record ([0; 0; 0; 40; 1; 1; 4; 0; 0; 0; 0; 0; 0; 0; 9; 2] ++ repeat 7 20 ++ [1; 2; 3; 4]) <> Panic
  /\ read_journal_record ([0; 0; 0; 36; 1; 2; 2] ++ repeat 7 20 ++ [3; 9; 9; 9; 9; 9; 1; 2; 3; 4]) <> Panic.
Proof. split; vm_compute; discriminate. Qed.

(* a 10-byte record: length, address tag, one byte, valid CRC32C *)
Definition j_short_addr : bytes := [0; 0; 0; 10; 2; 1] ++ enc_be 4 (crc32c [0; 0; 0; 10; 2; 1]).

(* without the assumption the scan DOES panic: journal bytes holding a checksummed record whose
   address field is cut short crash readJournalRecord (buf[journalRecAddrSz:]) at startup *)
Theorem no_panic_journal_refuted : exists data, scan_journal crc32c data = Panic.
Proof. exists j_short_addr. vm_compute. reflexivity. Qed.

(* validateJournalRecord alone underflows on a length field < 4; every caller passes
   len(buf) = length field, so this is latent (not reachable from a file) *)
Theorem journal_validate_latent_underflow : exists buf, validate_journal_record crc32c buf = Panic.
Proof. exists [0; 0; 0; 0; 0; 0; 0; 0]. vm_compute. reflexivity. Qed.

(* =====================================================================
   manifest
   ===================================================================== *)

(* For every byte string: the manifest parser panics only through hash.Parse on the root field,
   i.e. only when the root hash string (3rd field after the version) is not 32 base32 characters *)
Theorem manifest_panic_only_root :
  forall s, parse_manifest s = Panic ->
    exists vers rest, read_version 8 s [] = Some (vers, rest)
      /\ valid_hash_str (nth 2 (split_on colon rest) []) = false.
Proof.
  intros s. unfold parse_manifest.
  destruct (read_version 8 s []) as [[vers rest]|]; [|discriminate].
  intro H. exists vers, rest. split; [reflexivity|]. revert H.
  destruct (beq_bytes vers [53]).
  - destruct (_ || _); [discriminate|].
    destruct (parse_specs _); [|discriminate].
    destruct (negb (valid_hash_str (nth 1 (split_on colon rest) []))); [discriminate|].
    destruct (negb (valid_hash_str (nth 3 (split_on colon rest) []))); [discriminate|].
    destruct (valid_hash_str (nth 2 (split_on colon rest) [])); cbn [negb]; [discriminate | intros _; reflexivity].
  - destruct (beq_bytes vers [52]); [|discriminate].
    destruct (_ || _); [discriminate|].
    destruct (parse_specs _); [|discriminate].
    destruct (negb (valid_hash_str (nth 1 (split_on colon rest) []))); [discriminate|].
    destruct (valid_hash_str (nth 2 (split_on colon rest) [])); cbn [negb]; [discriminate | intros _; reflexivity].
Qed.

Definition h32 : bytes := repeat 48 32.
Definition m_bad_root : bytes :=
  [53; 58; 95; 95; 68; 79; 76; 84; 95; 95; 58] ++ h32 ++ [58] ++ (repeat 48 31 ++ [90]) ++ [58] ++ h32.

Example manifest_parses : exists m, parse_manifest ([53; 58; 95; 95; 68; 79; 76; 84; 95; 95; 58] ++ h32 ++ [58] ++ h32 ++ [58] ++ h32 ++ [58] ++ h32 ++ [58; 55]) = Ok m
                                    /\ m_specs m = [(h32, 7)].
Proof. eexists. split; [vm_compute; reflexivity | vm_compute; reflexivity]. Qed.

(* no_panic for the manifest parser is FALSE today: a manifest whose root hash has one bad character *)
Theorem no_panic_manifest_refuted : exists s, parse_manifest s = Panic.
Proof. exists m_bad_root. vm_compute. reflexivity. Qed.
