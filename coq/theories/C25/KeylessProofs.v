(* C25 — proofs for version-control edits and keyless tables. *)
From Coq Require Import NArith List Bool Lia.
From Dolt Require Import C23.Model C23.Proofs C25.Model C25.Spec C25.Keyless C25.Proofs.
Import ListNotations.
Local Open Scope N_scope.

Section P.
  Variable kf : row -> ikey.

  (* ---------------------------------------------------------------- *)
  (* Row edits of a merge / cherry-pick / revert / conflict resolution / fast-forward, applied to the
     index through the writer with the pre-image the table has (the LEFT row), keep the mirror. *)
  Theorem edits_mirror_preserved eds : forall s,
    Mirror kf s -> Mirror kf (apply_edits kf s eds).
  Proof.
    unfold apply_edits. induction eds as [|ed eds IH]; intros s H; [exact H|].
    cbn [fold_left]. apply IH. apply mirror_preserved. exact H.
  Qed.

  (* every edit deletes exactly the entry of the pre-image and adds the entry of the new row *)
  Theorem edit_uses_left_preimage s k x v k' :
    Mirror kf s ->
    (t_idx (wrun kf (edit_ops (t_rows s) k x) s) v k' = true <->
     exists r, t_rows (wrun kf (edit_ops (t_rows s) k x) s) k' = Some r /\ kf r = v).
  Proof. intros H. apply (mirror_preserved kf (edit_ops (t_rows s) k x) s H). Qed.

  Theorem rebuild_mirrors rows : Mirror kf {| t_rows := rows; t_idx := rebuild kf rows |}.
  Proof. apply mirror_iff. intros v k. reflexivity. Qed.

  (* ---------------------------------------------------------------- *)
  (* keyless tables: the entry of a row value is present iff its cardinality is positive *)
  Definition KMirrorB (s : kstate) : Prop := forall v r, k_idx s v r = krebuild kf (k_card s) v r.
  Definition KMirror (s : kstate) : Prop :=
    forall v r, k_idx s v r = true <-> (0 < k_card s r /\ kf r = v).

  Lemma kmirror_iff s : KMirrorB s <-> KMirror s.
  Proof.
    unfold KMirrorB, KMirror, krebuild. split.
    - intros H v r. rewrite H. rewrite andb_true_iff, N.ltb_lt.
      destruct (ikey_eqb_spec (kf r) v); split; intros [H1 H2]; split; try assumption; try reflexivity; congruence.
    - intros H v r. specialize (H v r).
      destruct (N.ltb_spec 0 (k_card s r)), (ikey_eqb_spec (kf r) v); cbn [andb];
        destruct (k_idx s v r); try reflexivity.
      + exfalso. assert (false = true) by (apply H; split; assumption). discriminate.
      + exfalso. destruct H as [H _]. destruct (H eq_refl). congruence.
      + exfalso. destruct H as [H _]. destruct (H eq_refl). lia.
      + exfalso. destruct H as [H _]. destruct (H eq_refl). lia.
  Qed.

  Lemma ikey_eqb_sym x y : ikey_eqb x y = ikey_eqb y x.
  Proof. destruct (ikey_eqb_spec x y), (ikey_eqb_spec y x); congruence. Qed.

  Lemma one_insert_mirror s r : KMirrorB s -> KMirrorB (one_insert kf s r).
  Proof.
    intros H v r'. unfold one_insert, krebuild, kidx_put, card_set. cbn [k_idx k_card].
    pose proof (H v r') as Hv. unfold krebuild in Hv.
    destruct (row_eqb_spec r' r) as [->|Hne]; rewrite ?andb_true_r, ?andb_false_r; [|exact Hv].
    rewrite (ikey_eqb_sym v (kf r)).
    destruct (ikey_eqb_spec (kf r) v); [|rewrite Hv, !andb_false_r; reflexivity].
    destruct (N.ltb_spec 0 (k_card s r + 1)); [reflexivity | lia].
  Qed.

  Lemma one_delete_mirror s r : KMirrorB s -> KMirrorB (one_delete kf s r).
  Proof.
    intros H. unfold one_delete. destruct (N.eqb_spec (k_card s r) 0) as [|Hc]; [exact H|].
    intros v r'. unfold krebuild, kidx_del, card_set. cbn [k_idx k_card].
    pose proof (H v r') as Hv. unfold krebuild in Hv.
    destruct (N.ltb_spec 1 (k_card s r)) as [Hgt|Hle].
    - destruct (row_eqb_spec r' r) as [->|Hne]; [|exact Hv].
      rewrite Hv. destruct (N.ltb_spec 0 (k_card s r)), (N.ltb_spec 0 (k_card s r - 1)); try reflexivity; lia.
    - destruct (row_eqb_spec r' r) as [->|Hne]; rewrite ?andb_true_r, ?andb_false_r; [|exact Hv].
      rewrite (ikey_eqb_sym v (kf r)).
      destruct (N.ltb_spec 0 (k_card s r - 1)); [lia|]. cbn [andb].
      destruct (ikey_eqb_spec (kf r) v); [reflexivity|]. rewrite Hv, !andb_false_r. reflexivity.
  Qed.

  Lemma iter_mirror f : (forall s, KMirrorB s -> KMirrorB (f s)) -> forall n s, KMirrorB s -> KMirrorB (iter n f s).
  Proof. intros Hf n. induction n as [|n IH]; intros s H; [exact H|]. cbn [iter]. apply IH, Hf, H. Qed.

  Lemma kapply_mirror s o : KMirrorB s -> KMirrorB (snd (kapply kf s o)).
  Proof.
    intros H. destruct o as [r n|r n|r r' n]; unfold kapply.
    - cbn [snd]. apply iter_mirror; [|exact H]. intros s' H'. apply one_insert_mirror, H'.
    - cbn [snd]. apply iter_mirror; [|exact H]. intros s' H'. apply one_delete_mirror, H'.
    - destruct (row_eqb r r'); cbn [snd]; [exact H|].
      apply iter_mirror; [|exact H]. intros s' H'. unfold one_update. apply one_insert_mirror, one_delete_mirror, H'.
  Qed.

  Definition krun (ops : list kop) (s : kstate) : kstate := fold_left (fun s o => snd (kapply kf s o)) ops s.

  (* for every sequence of INSERT / DELETE .. LIMIT / UPDATE .. LIMIT on a keyless table *)
  Theorem keyless_mirror_preserved ops : forall s, KMirror s -> KMirror (krun ops s).
  Proof.
    unfold krun. induction ops as [|o ops IH]; intros s H; [exact H|].
    cbn [fold_left]. apply IH. apply kmirror_iff, kapply_mirror, kmirror_iff, H.
  Qed.

  Theorem keyless_mirror_from_empty ops : KMirror (krun ops (kempty)).
  Proof. apply keyless_mirror_preserved, kmirror_iff. intros v r. reflexivity. Qed.

  (* a partial delete keeps the entry: 2 -> 1 *)
  Theorem keyless_partial_delete_keeps_entry s r :
    KMirror s -> 1 < k_card s r -> k_idx (one_delete kf s r) (kf r) r = true.
  Proof.
    intros H Hc. apply (proj2 (kmirror_iff _) ) in H.
    pose proof (proj1 (kmirror_iff _) (one_delete_mirror s r H) (kf r) r) as [_ Hb].
    apply Hb. split; [|reflexivity]. unfold one_delete.
    destruct (N.eqb_spec (k_card s r) 0); [lia|]. cbn [k_card]. unfold card_set.
    destruct (row_eqb_spec r r); [lia | congruence].
  Qed.
End P.

(* non-vacuity *)
Example ex_keyless :
  let s := krun kf_a [KIns (Some 1, Some 0) 2; KDel (Some 1, Some 0) 1; KUpd (Some 1, Some 0) (Some 2, Some 0) 1; KIns (None, Some 1) 2; KDel (None, Some 1) 1] kempty in
  (k_idx s [Some 1] (Some 1, Some 0), k_idx s [Some 2] (Some 2, Some 0), k_idx s [None] (None, Some 1), k_card s (None, Some 1)) = (false, true, true, 1).
Proof. vm_compute. reflexivity. Qed.
