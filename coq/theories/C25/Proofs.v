(* C25 — proofs: every writer-operation sequence keeps the index equal to the index rebuilt from the rows. *)
From Coq Require Import NArith List Bool Lia.
From Dolt Require Import C23.Model C23.Proofs C25.Model C25.Spec.
Import ListNotations.
Local Open Scope N_scope.

Lemma ikey_eqb_spec (x y : ikey) : reflect (x = y) (ikey_eqb x y).
Proof.
  revert y. induction x as [|a x IH]; intros [|b y]; cbn [ikey_eqb]; try (constructor; congruence).
  destruct (cell_eqb_spec a b); cbn [andb]; [|constructor; congruence].
  destruct (IH y); constructor; congruence.
Qed.

Section P.
  Variable kf : row -> ikey.

  Definition MirrorB (s : tstate) : Prop := forall v k, t_idx s v k = rebuild kf (t_rows s) v k.

  Lemma mirror_iff s : MirrorB s <-> Mirror kf s.
  Proof.
    unfold MirrorB, Mirror, rebuild. split.
    - intros H v k. rewrite H. destruct (t_rows s k) as [r|].
      + destruct (ikey_eqb_spec (kf r) v) as [He|Hne].
        * split; [intros _; exists r; split; [reflexivity | exact He] | reflexivity].
        * split; [discriminate | intros [r' [Hr Hk]]; congruence].
      + split; [discriminate | intros [r [Hr _]]; discriminate].
    - intros H v k. specialize (H v k). destruct (t_rows s k) as [r|].
      + destruct (ikey_eqb_spec (kf r) v) as [He|Hne].
        * apply H. exists r. split; [reflexivity | exact He].
        * destruct (t_idx s v k); [|reflexivity]. destruct H as [H _]. destruct (H eq_refl) as [r' [Hr Hk]]. congruence.
      + destruct (t_idx s v k); [|reflexivity]. destruct H as [H _]. destruct (H eq_refl) as [r' [Hr _]]. discriminate.
  Qed.

  Lemma wapply_mirror s o : MirrorB s -> MirrorB (wapply kf s o).
  Proof.
    intros H. destruct o as [k0 r|k0 r|k0]; unfold wapply;
      destruct (t_rows s k0) as [old|] eqn:Hold; try exact H; intros v k;
      cbn [t_rows t_idx]; unfold rebuild, set, idx_put, idx_del;
      pose proof (H v k) as Hvk; unfold rebuild in Hvk.
    - (* insert *)
      destruct (N.eqb_spec k k0) as [->|Hne]; rewrite ?andb_true_r, ?andb_false_r.
      + rewrite Hold in Hvk. destruct (ikey_eqb_spec v (kf r)) as [->|Hn].
        * destruct (ikey_eqb_spec (kf r) (kf r)); congruence.
        * rewrite Hvk. destruct (ikey_eqb_spec (kf r) v); congruence.
      + exact Hvk.
    - (* update *)
      destruct (ikey_eqb_spec (kf old) (kf r)) as [Heq|Hneq].
      + destruct (N.eqb_spec k k0) as [->|Hne]; [|exact Hvk].
        rewrite Hold in Hvk. rewrite Hvk, Heq. reflexivity.
      + unfold idx_put, idx_del.
        destruct (N.eqb_spec k k0) as [->|Hne]; rewrite ?andb_true_r, ?andb_false_r; [|exact Hvk].
        rewrite Hold in Hvk.
        destruct (ikey_eqb_spec v (kf r)) as [->|Hn].
        * destruct (ikey_eqb_spec (kf r) (kf r)); congruence.
        * destruct (ikey_eqb_spec v (kf old)) as [->|Hn2].
          -- destruct (ikey_eqb_spec (kf r) (kf old)); congruence.
          -- rewrite Hvk. destruct (ikey_eqb_spec (kf old) v), (ikey_eqb_spec (kf r) v); congruence.
    - (* delete *)
      destruct (N.eqb_spec k k0) as [->|Hne]; rewrite ?andb_true_r, ?andb_false_r; [|exact Hvk].
      rewrite Hold in Hvk.
      destruct (ikey_eqb_spec v (kf old)) as [->|Hn]; [reflexivity|].
      rewrite Hvk. destruct (ikey_eqb_spec (kf old) v); congruence.
  Qed.

  Lemma wrun_mirror ops : forall s, MirrorB s -> MirrorB (wrun kf ops s).
  Proof.
    induction ops as [|o ops IH]; intros s H; [exact H|].
    unfold wrun. cbn [fold_left]. apply IH, wapply_mirror, H.
  Qed.

  (* for every operation sequence (DML of any session, edits of any merge), from
     any state whose index mirrors its rows *)
  Theorem mirror_preserved ops s : Mirror kf s -> Mirror kf (wrun kf ops s).
  Proof. intros H. apply mirror_iff, wrun_mirror, mirror_iff, H. Qed.

  Theorem mirror_from_empty ops : Mirror kf (wrun kf ops empty_state).
  Proof.
    apply mirror_preserved, mirror_iff. intros v k. reflexivity.
  Qed.

  (* the incrementally maintained index is the rebuilt index *)
  Theorem incremental_is_rebuild ops v k :
    t_idx (wrun kf ops empty_state) v k = rebuild kf (t_rows (wrun kf ops empty_state)) v k.
  Proof. apply wrun_mirror. intros v' k'. reflexivity. Qed.

  (* exactly one entry per row: two entries for the same primary key have the same index key *)
  Theorem one_entry_per_row ops v1 v2 k :
    t_idx (wrun kf ops empty_state) v1 k = true -> t_idx (wrun kf ops empty_state) v2 k = true -> v1 = v2.
  Proof.
    intros H1 H2. apply (mirror_from_empty ops) in H1, H2.
    destruct H1 as [r1 [Hr1 <-]], H2 as [r2 [Hr2 <-]]. congruence.
  Qed.
End P.

(* non-vacuity: an update of the indexed column moves the entry, an update of another column does not *)
Example ex_idx :
  let s := wrun kf_a [WInsert 1 (Some 1, Some 0); WInsert 2 (Some 1, None); WUpdate 1 (Some 2, Some 0); WUpdate 2 (Some 1, Some 5); WDelete 2] empty_state in
  (t_idx s [Some 1] 1, t_idx s [Some 2] 1, t_idx s [Some 1] 2) = (false, true, false).
Proof. vm_compute. reflexivity. Qed.
