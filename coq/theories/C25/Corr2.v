(* C25 — correspondence for version-control operations and keyless tables. *)
From Coq Require Import NArith List Bool.
From Dolt Require Import C23.Model C23.Corr C25.Model C25.Spec C25.Corr C25.Keyless.
Import ListNotations.
Local Open Scope N_scope.

Definition rows := list (N * cell * cell).

(* ---- version-control operations --------------------------------------------------------- *)
(* The table contents after each operation are the implementation's own (what a merge / cherry-pick /
   revert / resolution does to the ROWS is C29 / C31 / C43's subject): the model is given the scans and
   maintains the indexes through the writer operations, edit by edit, each with the pre-image it has. *)
Record vc_input := { v_U : list N; v_scans : list (N * rows) }.      (* (label, full scan); label 3 = after index rebuild *)
Record vc_obs := { vo_idx : list (list (ikey * N) * list (ikey * N)); vo_uses : bool }.

Definition row_edits (U : list N) (cur : N -> option row) (new : N -> option row) : list (N * option row) :=
  flat_map (fun k => if orow_eqb (cur k) (new k) then [] else [(k, new k)]) U.

Fixpoint vc_run (U : list N) (kf : row -> ikey) (s : tstate) (scans : list (N * rows)) : list (list (ikey * N)) :=
  match scans with
  | [] => []
  | (label, rws) :: rest =>
    let t := table_of rws in
    let s' := if label =? 3 then {| t_rows := t_rows s; t_idx := rebuild kf (t_rows s) |}     (* DROP / CREATE INDEX *)
              else apply_edits kf s (row_edits U (t_rows s) t) in
    lookup_entries U kf (t_idx s') (t_rows s') :: vc_run U kf s' rest
  end.

Definition vc_model (i : vc_input) : vc_obs :=
  {| vo_idx := combine (vc_run (v_U i) kf_a (empty_state) (v_scans i)) (vc_run (v_U i) kf_ba (empty_state) (v_scans i));
     vo_uses := true |}.

Fixpoint idx_list_eqb (x y : list (list (ikey * N) * list (ikey * N))) : bool :=
  match x, y with
  | [], [] => true
  | (a, b) :: x', (a', b') :: y' => entries_eqb a a' && entries_eqb b b' && idx_list_eqb x' y'
  | _, _ => false
  end.
Definition vc_obs_eqb (x y : vc_obs) : bool := idx_list_eqb (vo_idx x) (vo_idx y) && Bool.eqb (vo_uses x) (vo_uses y).

(* after every operation, what is found through each index = the entries derived from the rows of the scan *)
Definition vc_oracle (i : vc_input) (o : vc_obs) : bool :=
  vo_uses o
  && Nat.eqb (length (vo_idx o)) (length (v_scans i))
  && forallb (fun p => let '((_, rws), (ea, eb)) := p in
                       entries_eqb ea (entries_of_rows kf_a (map (fun v => [v]) qvals) rws)
                       && entries_eqb eb (flat_map (fun v => flat_map (fun r => let '(k, a, b) := r in
                                                     if cell_eqb b v then [([b; a], k)] else []) rws) qvals))
             (combine (v_scans i) (vo_idx o)).

(* ---- keyless tables ------------------------------------------------------------------------ *)
Record kl_input := { kl_rows : list row; kl_ops : list kop }.        (* row universe (sorted), statements *)
Record kl_point := { kp_aff : N; kp_scan : list row; kp_bya : list row }.
Record kl_obs := { ko_points : list kl_point; ko_rebuilt : list row; ko_uses : bool }.

Definition kf_ka (r : row) : ikey := [fst r].

Definition kscan (RU : list row) (s : kstate) : list row := flat_map (fun r => rep (N.to_nat (k_card s r)) r) RU.
Definition klookup (RU : list row) (ix : ikey -> row -> bool) (s : kstate) : list row :=
  flat_map (fun v => flat_map (fun r => if cell_eqb (fst r) v && ix [v] r then rep (N.to_nat (k_card s r)) r else []) RU) qvals.

Fixpoint kl_run (RU : list row) (s : kstate) (ops : list kop) : list kl_point * kstate :=
  match ops with
  | [] => ([], s)
  | o :: rest =>
    let '(aff, s') := kapply kf_ka s o in
    let '(ps, s'') := kl_run RU s' rest in
    ({| kp_aff := aff; kp_scan := kscan RU s'; kp_bya := klookup RU (k_idx s') s' |} :: ps, s'')
  end.

Definition kl_model (i : kl_input) : kl_obs :=
  let '(ps, s) := kl_run (kl_rows i) (kempty) (kl_ops i) in
  {| ko_points := ps; ko_rebuilt := klookup (kl_rows i) (krebuild kf_ka (k_card s)) s; ko_uses := true |}.

Fixpoint krows_eqb (x y : list row) : bool :=
  match x, y with
  | [], [] => true
  | r :: x', r' :: y' => row_eqb r r' && krows_eqb x' y'
  | _, _ => false
  end.
Fixpoint kpoints_eqb (x y : list kl_point) : bool :=
  match x, y with
  | [], [] => true
  | p :: x', q :: y' => (kp_aff p =? kp_aff q) && krows_eqb (kp_scan p) (kp_scan q) && krows_eqb (kp_bya p) (kp_bya q) && kpoints_eqb x' y'
  | _, _ => false
  end.
Definition kl_obs_eqb (x y : kl_obs) : bool :=
  kpoints_eqb (ko_points x) (ko_points y) && krows_eqb (ko_rebuilt x) (ko_rebuilt y) && Bool.eqb (ko_uses x) (ko_uses y).

(* rows found through the index (per queried value, with multiplicity) = rows of the scan with that value *)
Definition via_scan (scan : list row) : list row :=
  flat_map (fun v => filter (fun r => cell_eqb (fst r) v) scan) qvals.
Definition kl_oracle (i : kl_input) (o : kl_obs) : bool :=
  ko_uses o
  && forallb (fun p => krows_eqb (kp_bya p) (via_scan (kp_scan p))) (ko_points o)
  && match rev (ko_points o) with
     | p :: _ => krows_eqb (ko_rebuilt o) (via_scan (kp_scan p))
     | [] => true
     end.

(* ---- all kinds of C25 cases ------------------------------------------------------------------ *)
Inductive acase :=
| B1 (c : C25.Corr.case)
| BV (c : vc_input * vc_obs)
| BK (c : kl_input * kl_obs).

Definition check_any (c : acase) : N :=
  match c with
  | B1 c => C25.Corr.check_case c
  | BV (i, o) => (if vc_obs_eqb (vc_model i) o then 0 else 1) + (if vc_oracle i o then 0 else 2)
  | BK (i, o) => (if kl_obs_eqb (kl_model i) o then 0 else 1) + (if kl_oracle i o then 0 else 2)
  end.
