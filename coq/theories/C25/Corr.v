(* C25 — correspondence.  Input = a C23 schedule run on t(pk,a,b) with KEY ia(a), KEY iba(b,a). *)
From Coq Require Import NArith List Bool.
From Dolt Require Import C23.Model C23.Spec C23.Corr C25.Model C25.Spec.
Import ListNotations.
Local Open Scope N_scope.

Definition input := C23.Corr.input.
Record obs := {
  o_errs : list N;
  o_full : list (N * cell * cell);          (* primary scan *)
  o_bya : list (ikey * N);                  (* entries read through ia, per queried value *)
  o_byb : list (ikey * N);                  (* entries read through iba, per queried value of b *)
  o_bya2 : list (ikey * N);                 (* after DROP INDEX + CREATE INDEX *)
  o_byb2 : list (ikey * N);
  o_uses : bool
}.
Definition case := (input * obs)%type.

Definition qvals : list cell := [None; Some 0; Some 1; Some 2; Some 3; Some 4; Some 5; Some 6].

(* entries (key, pk) of an index whose first key column is one of the queried values; pks in key order of U *)
Definition lookup_entries (U : list N) (kf : row -> ikey) (ix : index) (rows : N -> option row) : list (ikey * N) :=
  flat_map (fun v => flat_map (fun k => match rows k with
                                        | Some r => if cell_eqb (hd None (kf r)) v && ix (kf r) k then [(kf r, k)] else []
                                        | None => []
                                        end) U) qvals.

(* The model's index is maintained incrementally: the initial rows are inserted through the writer, and
   every acknowledged commit applies its row edits (fast-forward or merge) through the writer operations. *)
Definition commit_edits (U : list N) (e : cevent) : list (N * option row) :=
  flat_map (fun k => if orow_eqb (get U (e_before e) k) (get U (e_after e) k) then [] else [(k, get U (e_after e) k)]) U.

Definition model_obs (i : input) : obs :=
  let U := i_U i in
  let '(os, log, w) := run U (i_sched i) (world0 (i_init i) (i_autos i)) in
  let fin kf := fold_left (fun s e => apply_edits kf s (commit_edits U e)) log (init_state kf (i_init i)) in
  let sa := fin kf_a in
  let sb := fin kf_ba in
  let ea := lookup_entries U kf_a (t_idx sa) (t_rows sa) in
  let eb := lookup_entries U kf_ba (t_idx sb) (t_rows sb) in
  {| o_errs := map so_err os; o_full := dump U (w_head w);
     o_bya := ea; o_byb := eb;
     o_bya2 := lookup_entries U kf_a (rebuild kf_a (t_rows sa)) (t_rows sa);
     o_byb2 := lookup_entries U kf_ba (rebuild kf_ba (t_rows sb)) (t_rows sb);
     o_uses := true |}.

Fixpoint entries_eqb (x y : list (ikey * N)) : bool :=
  match x, y with
  | [], [] => true
  | (v, k) :: x', (v', k') :: y' => ikey_eqb v v' && (k =? k') && entries_eqb x' y'
  | _, _ => false
  end.
Fixpoint ns_eqb (x y : list N) : bool :=
  match x, y with [], [] => true | a :: x', b :: y' => (a =? b) && ns_eqb x' y' | _, _ => false end.

Definition obs_eqb (x y : obs) : bool :=
  ns_eqb (o_errs x) (o_errs y) && rows_eqb (o_full x) (o_full y)
  && entries_eqb (o_bya x) (o_bya y) && entries_eqb (o_byb x) (o_byb y)
  && entries_eqb (o_bya2 x) (o_bya2 y) && entries_eqb (o_byb2 x) (o_byb2 y) && Bool.eqb (o_uses x) (o_uses y).

(* The property on the implementation's own observations: what is found through
   each stored secondary index (covering queries, per key value) is exactly
   the entries derived from the rows of the primary scan — no stale entry, no
   missing entry — and re-creating the index gives the same entries. *)
Definition oracle (i : input) (o : obs) : bool :=
  o_uses o
  && entries_eqb (o_bya o) (entries_of_rows kf_a (map (fun v => [v]) qvals) (o_full o))
  && entries_eqb (o_bya2 o) (o_bya o)
  && entries_eqb (o_byb2 o) (o_byb o)
  && entries_eqb (o_byb o)
       (flat_map (fun v => flat_map (fun r => let '(k, a, b) := r in if cell_eqb b v then [([b; a], k)] else []) (o_full o)) qvals).

Definition check_case (c : case) : N :=
  (if obs_eqb (model_obs (fst c)) (snd c) then 0 else 1)
  + (if oracle (fst c) (snd c) then 0 else 2).
