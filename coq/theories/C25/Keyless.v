(* C25 — keyless tables: rows are a multiset (row -> cardinality); the secondary index has ONE entry
   per distinct row value (index key ++ row hash), present iff the cardinality is positive.  No proofs here.

   Mirrors go/libraries/doltcore/sqle/writer:
     prolly_table_writer.go  Insert / Update / Delete: every secondary writer first, then the primary
     prolly_index_writer_keyless.go  prollyKeylessSecondaryWriter
        .Insert : Put(key(row) ++ hash(row))
        .Delete : reads the row's cardinality from the PRIMARY (not yet updated); card > 1 => nothing,
                  else Delete(key(row) ++ hash(row))
        .Update : Delete(old); Insert(new)
     prolly_index_writer_keyless.go  prollyKeylessWriter: cardinality +1 / -1, row removed at 0
   A statement with LIMIT n on one exact row value is n single-row writer calls. *)
From Coq Require Import NArith List Bool.
From Dolt Require Import C23.Model C25.Model.
Import ListNotations.
Local Open Scope N_scope.

Record kstate := { k_card : row -> N; k_idx : ikey -> row -> bool }.

Inductive kop :=
| KIns (r : row) (n : N)          (* INSERT n copies of r *)
| KDel (r : row) (n : N)          (* DELETE ... WHERE row = r LIMIT n *)
| KUpd (r r' : row) (n : N).      (* UPDATE ... SET ... WHERE row = r LIMIT n, new value r' *)

Definition kidx_put (ix : ikey -> row -> bool) (v : ikey) (r : row) : ikey -> row -> bool :=
  fun v' r' => if ikey_eqb v' v && row_eqb r' r then true else ix v' r'.
Definition kidx_del (ix : ikey -> row -> bool) (v : ikey) (r : row) : ikey -> row -> bool :=
  fun v' r' => if ikey_eqb v' v && row_eqb r' r then false else ix v' r'.
Definition card_set (c : row -> N) (r : row) (n : N) : row -> N := fun r' => if row_eqb r' r then n else c r'.

Section Index.
  Variable kf : row -> ikey.

  Definition one_insert (s : kstate) (r : row) : kstate :=
    {| k_idx := kidx_put (k_idx s) (kf r) r;                      (* secondary first *)
       k_card := card_set (k_card s) r (k_card s r + 1) |}.

  Definition one_delete (s : kstate) (r : row) : kstate :=
    if k_card s r =? 0 then s                                     (* no such row *)
    else {| k_idx := if 1 <? k_card s r then k_idx s              (* card > 1: the entry stays *)
                     else kidx_del (k_idx s) (kf r) r;
            k_card := card_set (k_card s) r (k_card s r - 1) |}.

  Definition one_update (s : kstate) (r r' : row) : kstate := one_insert (one_delete s r) r'.

  Fixpoint iter (n : nat) (f : kstate -> kstate) (s : kstate) : kstate :=
    match n with O => s | S m => iter m f (f s) end.

  (* returns rows affected and the new state *)
  Definition kapply (s : kstate) (o : kop) : N * kstate :=
    match o with
    | KIns r n => (n, iter (N.to_nat n) (fun s => one_insert s r) s)
    | KDel r n => let m := N.min n (k_card s r) in (m, iter (N.to_nat m) (fun s => one_delete s r) s)
    | KUpd r r' n =>
      if row_eqb r r' then (0, s)                                  (* nothing changes: no writer call *)
      else let m := N.min n (k_card s r) in (m, iter (N.to_nat m) (fun s => one_update s r r') s)
    end.

  Definition kempty : kstate := {| k_card := fun _ => 0; k_idx := fun _ _ => false |}.
  Definition krebuild (c : row -> N) : ikey -> row -> bool :=
    fun v r => (0 <? c r) && ikey_eqb (kf r) v.
End Index.

Fixpoint rep {A} (n : nat) (x : A) : list A := match n with O => [] | S m => x :: rep m x end.
