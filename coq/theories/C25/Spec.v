(* C25 — the property: the stored index holds exactly one entry per row, derived from the row's current values. *)
From Coq Require Import NArith List Bool.
From Dolt Require Import C23.Model C25.Model.
Import ListNotations.
Local Open Scope N_scope.

Definition Mirror (kf : row -> ikey) (s : tstate) : Prop :=
  forall v k, t_idx s v k = true <-> exists r, t_rows s k = Some r /\ kf r = v.

(* executable form over finite listings: entries found through the index for
   the queried key values = entries derived from the rows of the full scan *)
Definition entries_of_rows (kf : row -> ikey) (vals : list ikey) (rows : list (N * cell * cell)) : list (ikey * N) :=
  flat_map (fun v => flat_map (fun r => let '(k, a, b) := r in
                                        if ikey_eqb (kf (a, b)) v then [(kf (a, b), k)] else []) rows) vals.
