(* C25 — Sql/SecIndex: a secondary index maintained incrementally by the table writer.  No proofs here.

   Mirrors go/libraries/doltcore/sqle/writer:
     prolly_table_writer.go  prollyTableWriter.Insert / Update / Delete : fan-out to every secondary
                             writer, then the primary writer
     prolly_index_writer.go  prollySecondaryIndexWriter.Insert : Put(keyFromRow(row) ++ pk)
                             .Delete : Delete(keyFromRow(row) ++ pk)
                             .Update : isNoopUpdate (indexed columns and pk unchanged) => nothing,
                                       else Delete(old entry); Put(new entry)
   and merge/merge_prolly_rows.go secondaryMerger.merge: a merged row edit is
   applied to each secondary index as delete-old-entry / put-new-entry — the
   same writer operations (so a merge, cherry-pick, revert ... is an op sequence).

   The index key is [kf row] (any function of the row: one column, several
   columns, a prefix-truncated column) followed by the primary key; the index
   is the set of such entries, represented by its membership function.
   Abstracted: keyless tables (cardinality-valued entries), partial-index
   predicates, virtual column expressions, schema changes (rebuild). *)
From Coq Require Import NArith List Bool.
From Dolt Require Import C23.Model.
Import ListNotations.
Local Open Scope N_scope.

Definition ikey := list cell.
Fixpoint ikey_eqb (x y : ikey) : bool :=
  match x, y with
  | [], [] => true
  | a :: x', b :: y' => cell_eqb a b && ikey_eqb x' y'
  | _, _ => false
  end.

Definition index := ikey -> N -> bool.          (* entry (key, pk) present? *)
Definition idx_put (ix : index) (v : ikey) (k : N) : index :=
  fun v' k' => if ikey_eqb v' v && (k' =? k) then true else ix v' k'.
Definition idx_del (ix : index) (v : ikey) (k : N) : index :=
  fun v' k' => if ikey_eqb v' v && (k' =? k) then false else ix v' k'.

(* writer-level operations on (primary rows, index) *)
Inductive wop :=
| WInsert (k : N) (r : row)
| WUpdate (k : N) (r : row)     (* new non-key values of row k *)
| WDelete (k : N).

Record tstate := { t_rows : N -> option row; t_idx : index }.

Section Index.
  Variable kf : row -> ikey.

  Definition wapply (s : tstate) (o : wop) : tstate :=
    match o with
    | WInsert k r =>
      match t_rows s k with
      | Some _ => s                                            (* duplicate primary key: rejected *)
      | None => {| t_rows := set (t_rows s) k (Some r); t_idx := idx_put (t_idx s) (kf r) k |}
      end
    | WUpdate k r =>
      match t_rows s k with
      | None => s                                              (* no such row: nothing to update *)
      | Some old =>
        {| t_rows := set (t_rows s) k (Some r);
           t_idx := if ikey_eqb (kf old) (kf r) then t_idx s   (* isNoopUpdate *)
                    else idx_put (idx_del (t_idx s) (kf old) k) (kf r) k |}
      end
    | WDelete k =>
      match t_rows s k with
      | None => s
      | Some old => {| t_rows := set (t_rows s) k None; t_idx := idx_del (t_idx s) (kf old) k |}
      end
    end.

  Definition wrun (ops : list wop) (s : tstate) : tstate := fold_left wapply ops s.

  (* the index rebuilt from the rows (CREATE INDEX / rebuild) *)
  Definition rebuild (rows : N -> option row) : index :=
    fun v k => match rows k with Some r => ikey_eqb (kf r) v | None => false end.

  Definition empty_state : tstate := {| t_rows := fun _ => None; t_idx := fun _ _ => false |}.

  (* a row edit as produced by a merge / fast-forward: key k becomes x *)
  Definition edit_ops (cur : N -> option row) (k : N) (x : option row) : list wop :=
    match cur k, x with
    | None, None => []
    | None, Some r => [WInsert k r]
    | Some _, None => [WDelete k]
    | Some _, Some r => [WUpdate k r]
    end.
End Index.

(* row edits (key k becomes x) applied through the writer, each with the pre-image currently in the table:
   what a fast-forward, a merge, a cherry-pick, a revert or a conflict resolution does to the index *)
Definition apply_edits (kf : row -> ikey) (s : tstate) (eds : list (N * option row)) : tstate :=
  fold_left (fun s ed => wrun kf (edit_ops (t_rows s) (fst ed) (snd ed)) s) eds s.

Definition init_state (kf : row -> ikey) (rows : list (N * cell * cell)) : tstate :=
  wrun kf (map (fun r => let '(k, a, b) := r in WInsert k (a, b)) rows) empty_state.

Definition kf_a (r : row) : ikey := [fst r].            (* KEY ia (a) *)
Definition kf_ba (r : row) : ikey := [snd r; fst r].    (* KEY iba (b, a) *)
