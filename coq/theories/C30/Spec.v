(* C30 — specification: the two paths are indistinguishable on rows, conflicts and statistics. *)
From Coq Require Import NArith List Bool.
From Dolt Require Import C14.Model C14.Spec C30.Model.
Import ListNotations.
Local Open Scope N_scope.

Definition paths_agree (collide : collide_t) (base left right : dict N) : Prop :=
  let ld := diff base left in let rd := diff base right in
  merge_by_patches collide base left right = merge_by_differ collide base left right
  /\ fast_conflicts collide ld rd = slow_conflicts collide ld rd
  /\ stats_fast collide ld rd = stats_slow collide ld rd.

Definition stats_eqb (a b : stats) : bool :=
  let '(a1, a2, a3, a4) := a in let '(b1, b2, b3, b4) := b in
  (a1 =? b1) && (a2 =? b2) && (a3 =? b3) && (a4 =? b4).
