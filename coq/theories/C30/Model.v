(* C30 — The fast tree-level merge agrees with the row-level merge.  Model.

   merge_prolly_rows.go computeProllyTreePatches: when canFastMergeProllyTrees
   holds (keyed table, no unique index, no check, no NOT NULL non-key column, no
   secondary index to merge, no schema migration) the right-vs-base patches are
   sent through tree.SendPatches with valueMerger.TryMerge as collision handler;
   otherwise the ThreeWayDiffer stream is applied row by row.  Both are C14's
   routes with the row merger as the handler.  A row value is (a, b), two
   nullable cells, encoded as one number. *)
From Coq Require Import NArith List Bool.
From Dolt Require Import C14.Model.
Import ListNotations.
Local Open Scope N_scope.

(* the conjunction in merge_prolly_rows.go:260 *)
Definition can_fast_merge (keyless uniq check notnull secidx migration rschema lschema : bool) : bool :=
  negb keyless && negb uniq && negb check && negb notnull && negb secidx && negb migration && negb rschema && negb lschema.

(* cell encoding: 0 = NULL, v+1 otherwise; row = a*1000 + b (cells < 998) *)
Definition enc_cell (c : option N) : N := match c with None => 0 | Some v => v + 1 end.
Definition dec_cell (n : N) : option N := if n =? 0 then None else Some (n - 1).
Definition enc_row (a b : option N) : N := enc_cell a * 1000 + enc_cell b.
Definition dec_row (n : N) : option N * option N := (dec_cell (n / 1000), dec_cell (n mod 1000)).

(* valueMerger.processColumn: same change, or only one side changed the cell; else conflict *)
Definition merge_cell (b l r : option N) : option (option N) :=
  if opt_eqb l r then Some l
  else if opt_eqb l b then Some r
  else if opt_eqb r b then Some l
  else None.

(* valueMerger.TryMerge with identical schemas: cell-wise; a row deleted on one
   side and modified on the other is a conflict *)
Definition merge_row : collide_t := fun b l r =>
  match l, r with
  | Some x, Some y =>
    let '(la, lb) := dec_row x in
    let '(ra, rb) := dec_row y in
    match b with
    | Some z =>
      let '(ba, bb) := dec_row z in
      match merge_cell ba la ra, merge_cell bb lb rb with
      | Some a, Some c => Some (Some (enc_row a c))
      | _, _ => None
      end
    | None =>
      (* both sides added the row: any differing cell is a conflict *)
      if opt_eqb la ra && opt_eqb lb rb then Some (Some x) else None
    end
  | _, _ => None
  end.

(* conflicts recorded by each path: key -> (base, ours, theirs) *)
Definition conf_of (collide : collide_t) (t : option (option N * option N * option N)) :=
  match t with
  | Some (b, l, r) => match collide b l r with None => Some (b, l, r) | Some _ => None end
  | None => None
  end.
Definition fast_conf_f (collide : collide_t) (k : N) (l r : option change) := conf_of collide (send_calls_f k l r).
Definition slow_conf_f (collide : collide_t) (k : N) (l r : option change) := conf_of collide (tw_calls_f k l r).
Definition fast_conflicts collide (ld rd : dict change) := walk (fast_conf_f collide) ld rd.
Definition slow_conflicts collide (ld rd : dict change) := walk (slow_conf_f collide) ld rd.

(* merge statistics: Adds, Deletes, Modifications, DataConflicts.
   Row path (merge_prolly_rows.go:363-435): counted per op of the differ stream.
   Fast path (lines 268-332): only DataConflicts is touched, in the handler. *)
Definition stats := (N * N * N * N)%type.
Definition op_in (l : list N) (op : N) : bool := existsb (N.eqb op) l.
Definition stats_slow (collide : collide_t) (ld rd : dict change) : stats :=
  let ops := three_way collide ld rd in
  (count_ops (op_in [RightAdd]) ops,
   count_ops (op_in [RightDelete; DivergentDeleteResolved]) ops,
   count_ops (op_in [RightModify; DivergentModifyResolved]) ops,
   N.of_nat (length (slow_conflicts collide ld rd))).
Definition stats_fast (collide : collide_t) (ld rd : dict change) : stats :=
  (0, 0, 0, N.of_nat (length (fast_conflicts collide ld rd))).

(* merge_rows.go MaybeShortCircuit, evaluated before either path is chosen (and
   identically for every table): equal sides / untouched right side leave the
   left table; an untouched left side takes the right table wholesale, with
   statistics from calcTableMergeStats (a plain diff left -> right). *)
Fixpoint dict_eqb (a b : dict N) : bool :=
  match a, b with
  | [], [] => true
  | (k, v) :: a', (k', v') :: b' => (k =? k') && (v =? v') && dict_eqb a' b'
  | _, _ => false
  end.

Definition diff_stats (d : dict change) : stats :=
  (N.of_nat (length (filter (fun e => match snd e with (None, _) => true | _ => false end) d)),
   N.of_nat (length (filter (fun e => match snd e with (Some _, None) => true | _ => false end) d)),
   N.of_nat (length (filter (fun e => match snd e with (Some _, Some _) => true | _ => false end) d)),
   0).

Definition short_circuit (base left right : dict N) : option (dict N * stats) :=
  if dict_eqb left right then Some (left, (0, 0, 0, 0))
  else if dict_eqb right base then Some (left, (0, 0, 0, 0))
  else if dict_eqb left base then Some (right, diff_stats (diff left right))
  else None.
