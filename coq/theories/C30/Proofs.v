(* C30 — proofs: C14's theorems instantiated with the row merger. *)
From Coq Require Import NArith List Bool Lia.
From Dolt Require Import C14.Model C14.Spec C14.Corr C14.Proofs C30.Model C30.Spec C30.Corr.
Import ListNotations.
Local Open Scope N_scope.

Lemma merge_row_delete : delete_resolves_to_delete merge_row.
Proof.
  intros b l r v [H|H] E; subst; unfold merge_row in E.
  - discriminate.
  - destruct l; discriminate.
Qed.

(* rows: the fast path's map is the row path's map, for all base/left/right *)
Theorem rows_equal : forall base left right,
  sorted base -> sorted left -> sorted right ->
  merge_by_patches merge_row base left right = merge_by_differ merge_row base left right.
Proof. intros. apply patch_merge_eq_differ; auto using merge_row_delete. Qed.

(* ... and both are the key-wise merge with the row merger *)
Theorem rows_spec : forall base left right,
  sorted base -> sorted left -> sorted right ->
  forall k, lookup k (merge_by_patches merge_row base left right) =
            merge3_key merge_row (lookup k base) (lookup k left) (lookup k right).
Proof. intros. apply patch_merge_spec; assumption. Qed.

(* conflicts: same keys, same (base, ours, theirs), for every handler *)
Theorem conflicts_equal : forall collide base left right,
  sorted base -> sorted left -> sorted right ->
  fast_conflicts collide (diff base left) (diff base right) =
  slow_conflicts collide (diff base left) (diff base right).
Proof.
  intros collide base left right Hb Hl Hr.
  apply sorted_ext; try (apply walk_sorted; apply diff_sorted; assumption).
  intro k. unfold fast_conflicts, slow_conflicts.
  rewrite !walk_lookup by (apply diff_sorted; assumption).
  pose proof (send_calls_spec base left right Hb Hl Hr k) as Hs.
  pose proof (three_way_calls_spec base left right Hb Hl Hr k) as Ht.
  unfold send_calls, tw_calls in Hs, Ht.
  rewrite walk_lookup in Hs, Ht by (apply diff_sorted; assumption).
  unfold pw, fast_conf_f, slow_conf_f in *.
  destruct (lookup k (diff base left)) as [lc|], (lookup k (diff base right)) as [rc|];
    try reflexivity; rewrite Hs, Ht; reflexivity.
Qed.

(* statistics: the conflict counter agrees ... *)
Theorem stats_conflicts_equal : forall collide base left right,
  sorted base -> sorted left -> sorted right ->
  snd (stats_fast collide (diff base left) (diff base right)) =
  snd (stats_slow collide (diff base left) (diff base right)).
Proof.
  intros. unfold stats_fast, stats_slow. cbn [snd]. rewrite conflicts_equal by assumption. reflexivity.
Qed.

(* FULL STATEMENT (the property): forall base left right, sorted ... ->
     stats_fast merge_row ld rd = stats_slow merge_row ld rd.
   It is false for the faithful model: the fast path never counts
   Adds / Deletes / Modifications.  Witness: the right branch adds one row. *)
Theorem stats_equal_refuted :
  exists base left right : dict N,
    sorted base /\ sorted left /\ sorted right /\
    stats_fast merge_row (diff base left) (diff base right) <>
    stats_slow merge_row (diff base left) (diff base right).
Proof.
  exists [], [], [(1, 1001)]. repeat split; try exact Logic.I; try constructor.
  vm_compute. discriminate.
Qed.

(* what does hold: statistics agree exactly when the row path counts nothing *)
Theorem stats_equal_partial : forall collide base left right,
  sorted base -> sorted left -> sorted right ->
  let ld := diff base left in let rd := diff base right in
  fst (stats_slow collide ld rd) = (0, 0, 0) ->
  stats_fast collide ld rd = stats_slow collide ld rd.
Proof.
  intros collide base left right Hb Hl Hr ld rd H.
  pose proof (stats_conflicts_equal collide base left right Hb Hl Hr) as Hc.
  fold ld rd in Hc. destruct (stats_slow collide ld rd) as [[[a d] m] c] eqn:E.
  cbn [fst] in H. injection H as -> -> ->. unfold stats_fast in *. cbn [snd] in Hc. rewrite Hc. reflexivity.
Qed.

(* ------------------------------------------------------------------------- *)
(* The oracle (the executable statement of the property) on the model's own
   observation.  FULL STATEMENT: forall i, sorted ... -> oracle i (model_obs i) = true.
   It is false ([oracle_on_model_refuted]) because of the statistics (known
   finding).  Proved: the rows-and-conflicts part of the oracle holds for every
   input, and the whole oracle holds whenever MaybeShortCircuit applies or the row
   path counts no adds / deletes / modifications. *)
Lemma list_eqb_refl : forall A (e : A -> A -> bool), (forall x, e x x = true) -> forall l, list_eqb e l l = true.
Proof. intros A e He l; induction l as [|x l IH]; cbn [list_eqb]; [reflexivity|]. rewrite He, IH. reflexivity. Qed.

Lemma triple_eqb_refl : forall t, triple_eqb t t = true.
Proof. intros [[b l] r]. cbn [triple_eqb]. rewrite !opt_eqb_refl. reflexivity. Qed.

Lemma entry_eqb_refl : forall A (e : A -> A -> bool), (forall x, e x x = true) -> forall x, entry_eqb e x x = true.
Proof. intros A e He [k v]. unfold entry_eqb. cbn [fst snd]. rewrite N.eqb_refl, He. reflexivity. Qed.

Lemma stats_eqb_refl : forall s, stats_eqb s s = true.
Proof. intros [[[a b] c] d]. cbn [stats_eqb]. rewrite !N.eqb_refl. reflexivity. Qed.

Lemma rows_conf_eqb_of_eq : forall a b,
  t_rows a = t_rows b -> t_conf a = t_conf b -> rows_conf_eqb a b = true.
Proof.
  intros a b Hr Hc. unfold rows_conf_eqb. rewrite Hr, Hc.
  rewrite (list_eqb_refl _ (entry_eqb N.eqb)) by (intro x; apply entry_eqb_refl; apply N.eqb_refl).
  rewrite (list_eqb_refl _ (entry_eqb triple_eqb)) by (intro x; apply entry_eqb_refl; apply triple_eqb_refl).
  reflexivity.
Qed.

Theorem oracle_on_model_partial : forall i,
  sorted (i_base i) -> sorted (i_left i) -> sorted (i_right i) ->
  let o := model_obs i in
  let ld := diff (i_base i) (i_left i) in
  let rd := diff (i_base i) (i_right i) in
  rows_conf_eqb (o_fast o) (o_chk o) = true /\
  rows_conf_eqb (o_fast o) (o_idx o) = true /\
  (short_circuit (i_base i) (i_left i) (i_right i) <> None \/ fst (stats_slow merge_row ld rd) = (0, 0, 0) ->
   oracle i o = true).
Proof.
  intros i Hb Hl Hr o ld rd. subst o. unfold model_obs, oracle.
  destruct (short_circuit (i_base i) (i_left i) (i_right i)) as [[rows st]|] eqn:Es.
  - cbn [o_fast o_chk o_idx]. unfold tobs_eqb.
    rewrite rows_conf_eqb_of_eq by reflexivity. rewrite stats_eqb_refl. repeat split; reflexivity.
  - cbn [o_fast o_chk o_idx].
    assert (Hrc : rows_conf_eqb
      {| t_rows := merge_by_patches merge_row (i_base i) (i_left i) (i_right i);
         t_conf := fast_conflicts merge_row (diff (i_base i) (i_left i)) (diff (i_base i) (i_right i));
         t_stats := stats_fast merge_row (diff (i_base i) (i_left i)) (diff (i_base i) (i_right i)) |}
      {| t_rows := merge_by_differ merge_row (i_base i) (i_left i) (i_right i);
         t_conf := slow_conflicts merge_row (diff (i_base i) (i_left i)) (diff (i_base i) (i_right i));
         t_stats := stats_slow merge_row (diff (i_base i) (i_left i)) (diff (i_base i) (i_right i)) |} = true).
    { apply rows_conf_eqb_of_eq; cbn [t_rows t_conf]; [apply rows_equal|apply conflicts_equal]; assumption. }
    split; [exact Hrc|]. split; [exact Hrc|].
    intros [H|H]; [congruence|].
    unfold tobs_eqb. rewrite Hrc. cbn [t_stats andb].
    rewrite (stats_equal_partial merge_row _ _ _ Hb Hl Hr H), stats_eqb_refl. reflexivity.
Qed.

Theorem oracle_on_model_refuted :
  exists i, sorted (i_base i) /\ sorted (i_left i) /\ sorted (i_right i) /\ oracle i (model_obs i) = false.
Proof.
  exists {| i_base := []; i_left := [(1, 1001)]; i_right := [(2, 1001)] |}.
  repeat split; try exact Logic.I; try constructor. 
Qed.
