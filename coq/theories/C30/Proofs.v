(* C30 — proofs: C14's theorems instantiated with the row merger. *)
From Coq Require Import NArith List Bool Lia.
From Dolt Require Import C14.Model C14.Spec C14.Proofs C30.Model C30.Spec.
Import ListNotations.
Local Open Scope N_scope.

Lemma merge_row_delete : delete_resolves_to_delete merge_row.
Proof.
  intros b l r v [H|H] E; subst; unfold merge_row in E.
  - discriminate.
  - destruct l; discriminate.
Qed.

(* rows: the fast path's map is the row path's map, for all base/left/right *)
Theorem rows_equal : forall base left right,
  sorted base -> sorted left -> sorted right ->
  merge_by_patches merge_row base left right = merge_by_differ merge_row base left right.
Proof. intros. apply patch_merge_eq_differ; auto using merge_row_delete. Qed.

(* ... and both are the key-wise merge with the row merger *)
Theorem rows_spec : forall base left right,
  sorted base -> sorted left -> sorted right ->
  forall k, lookup k (merge_by_patches merge_row base left right) =
            merge3_key merge_row (lookup k base) (lookup k left) (lookup k right).
Proof. intros. apply patch_merge_spec; assumption. Qed.

(* conflicts: same keys, same (base, ours, theirs), for every handler *)
Theorem conflicts_equal : forall collide base left right,
  sorted base -> sorted left -> sorted right ->
  fast_conflicts collide (diff base left) (diff base right) =
  slow_conflicts collide (diff base left) (diff base right).
Proof.
  intros collide base left right Hb Hl Hr.
  apply sorted_ext; try (apply walk_sorted; apply diff_sorted; assumption).
  intro k. unfold fast_conflicts, slow_conflicts.
  rewrite !walk_lookup by (apply diff_sorted; assumption).
  pose proof (send_calls_spec base left right Hb Hl Hr k) as Hs.
  pose proof (three_way_calls_spec base left right Hb Hl Hr k) as Ht.
  unfold send_calls, tw_calls in Hs, Ht.
  rewrite walk_lookup in Hs, Ht by (apply diff_sorted; assumption).
  unfold pw, fast_conf_f, slow_conf_f in *.
  destruct (lookup k (diff base left)) as [lc|], (lookup k (diff base right)) as [rc|];
    try reflexivity; rewrite Hs, Ht; reflexivity.
Qed.

(* statistics: the conflict counter agrees ... *)
Theorem stats_conflicts_equal : forall collide base left right,
  sorted base -> sorted left -> sorted right ->
  snd (stats_fast collide (diff base left) (diff base right)) =
  snd (stats_slow collide (diff base left) (diff base right)).
Proof.
  intros. unfold stats_fast, stats_slow. cbn [snd]. rewrite conflicts_equal by assumption. reflexivity.
Qed.

(* FULL STATEMENT (the property): forall base left right, sorted ... ->
     stats_fast merge_row ld rd = stats_slow merge_row ld rd.
   It is false for the faithful model: the fast path never counts
   Adds / Deletes / Modifications.  Witness: the right branch adds one row. *)
Theorem stats_equal_refuted :
  exists base left right : dict N,
    sorted base /\ sorted left /\ sorted right /\
    stats_fast merge_row (diff base left) (diff base right) <>
    stats_slow merge_row (diff base left) (diff base right).
Proof.
  exists [], [], [(1, 1001)]. repeat split; try exact Logic.I; try constructor.
  vm_compute. discriminate.
Qed.

(* what does hold: statistics agree exactly when the row path counts nothing *)
Theorem stats_equal_partial : forall collide base left right,
  sorted base -> sorted left -> sorted right ->
  let ld := diff base left in let rd := diff base right in
  fst (stats_slow collide ld rd) = (0, 0, 0) ->
  stats_fast collide ld rd = stats_slow collide ld rd.
Proof.
  intros collide base left right Hb Hl Hr ld rd H.
  pose proof (stats_conflicts_equal collide base left right Hb Hl Hr) as Hc.
  fold ld rd in Hc. destruct (stats_slow collide ld rd) as [[[a d] m] c] eqn:E.
  cbn [fst] in H. injection H as -> -> ->. unfold stats_fast in *. cbn [snd] in Hc. rewrite Hc. reflexivity.
Qed.
