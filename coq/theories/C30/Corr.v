(* C30 — correspondence: the three tables of one dolt_merge (t: fast path;
   t_chk, t_idx: row path) against the model, and the property evaluated on what
   the implementation returned. *)
From Coq Require Import NArith List Bool.
From Dolt Require Import C14.Model C14.Spec C14.Corr C30.Model C30.Spec.
Import ListNotations.
Local Open Scope N_scope.

Record input := { i_base : dict N; i_left : dict N; i_right : dict N }.

Record tobs := { t_rows : dict N; t_conf : dict triple; t_stats : stats }.
Record obs := { o_fast : tobs; o_chk : tobs; o_idx : tobs }.
Definition case := (input * obs)%type.

Definition model_obs (i : input) : obs :=
  let ld := diff (i_base i) (i_left i) in
  let rd := diff (i_base i) (i_right i) in
  match short_circuit (i_base i) (i_left i) (i_right i) with
  | Some (rows, st) =>
    let t := {| t_rows := rows; t_conf := []; t_stats := st |} in
    {| o_fast := t; o_chk := t; o_idx := t |}
  | None =>
    let slow := {| t_rows := merge_by_differ merge_row (i_base i) (i_left i) (i_right i);
                   t_conf := slow_conflicts merge_row ld rd;
                   t_stats := stats_slow merge_row ld rd |} in
    {| o_fast := {| t_rows := merge_by_patches merge_row (i_base i) (i_left i) (i_right i);
                    t_conf := fast_conflicts merge_row ld rd;
                    t_stats := stats_fast merge_row ld rd |};
       o_chk := slow; o_idx := slow |}
  end.

Definition rows_conf_eqb (a b : tobs) : bool :=
  list_eqb (entry_eqb N.eqb) (t_rows a) (t_rows b)
  && list_eqb (entry_eqb triple_eqb) (t_conf a) (t_conf b).

Definition tobs_eqb (a b : tobs) : bool :=
  rows_conf_eqb a b && stats_eqb (t_stats a) (t_stats b).

Definition obs_eqb (a b : obs) : bool :=
  tobs_eqb (o_fast a) (o_fast b) && tobs_eqb (o_chk a) (o_chk b) && tobs_eqb (o_idx a) (o_idx b).

(* the property: rows, conflicts and statistics of the fast-path table are those of the row-path tables *)
Definition oracle (_ : input) (o : obs) : bool :=
  tobs_eqb (o_fast o) (o_chk o) && tobs_eqb (o_fast o) (o_idx o).

Definition check_case (c : case) : N :=
  (if obs_eqb (model_obs (fst c)) (snd c) then 0 else 1)
  + (if oracle (fst c) (snd c) then 0 else 2).
