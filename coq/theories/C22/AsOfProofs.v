(* C22 — AS OF reads inside a transaction are functions of the transaction's start roots. *)
From Coq Require Import NArith List Bool Lia.
From Dolt Require Import C23.Model C23.Spec C23.Staged C23.Corr3 C22.AsOf.
Import ListNotations.
Local Open Scope N_scope.

Section P.
  Variable U : list N.

  (* statements that neither start nor end a transaction *)
  Definition keeps_txn (st : stmt3) : bool :=
    match st with
    | SBase SBegin | SBase SCommit | SBase SRollback | SDoltCommit _ => false
    | _ => true
    end.

  Lemma upd_other {A} (f : N -> A) i j v : j <> i -> upd f j v i = f i.
  Proof. intros H. unfold upd. destruct (N.eqb_spec i j); [congruence | reflexivity]. Qed.
  Lemma upd_same {A} (f : N -> A) i v : upd f i v i = v.
  Proof. unfold upd. rewrite N.eqb_refl. reflexivity. Qed.

  Lemma commit3_ss cf k j s S' w ok e w' :
    commit3 cf k j s S' w = (ok, e, w') -> w3_ss w' = upd (w3_ss w) j (s3_end s).
  Proof.
    unfold commit3. destruct (cf k (w3_p w) (t_start s) S' (t_work s)) as [P' ok']. intros H. inversion H; reflexivity.
  Qed.

  (* a step of another session never touches this session: neither its working tables nor the roots it started from *)
  Lemma gstep3_other cf i j st w o ev w' :
    j <> i -> gstep3 U cf j st w = (o, ev, w') -> w3_ss w' i = w3_ss w i.
  Proof.
    intros Hne H. unfold gstep3 in H.
    destruct st as [st| |all|rk]; [destruct st|..];
      repeat match type of H with
             | context [commit3 ?c ?k ?a ?s ?S ?x] =>
               let Hc := fresh "Hc" in
               destruct (commit3 c k a s S x) as [[? ?] ?] eqn:Hc; apply commit3_ss in Hc
             | context [exec_dml ?a ?b ?c] => destruct (exec_dml a b c) as [? ?]
             | context [if ?c then _ else _] => destruct c eqn:?
             end;
      inversion H; subst; clear H; cbn [w3_ss] in *;
      repeat match goal with Hc : w3_ss _ = _ |- _ => rewrite Hc end;
      repeat rewrite (upd_other _ i j _ Hne); reflexivity.
  Qed.

  (* the session's own reads and writes keep the roots it started from *)
  Lemma gstep3_own cf i st w o ev w' :
    t_active (w3_ss w i) = true -> keeps_txn st = true ->
    gstep3 U cf i st w = (o, ev, w') ->
    t_start (w3_ss w' i) = t_start (w3_ss w i) /\ t_active (w3_ss w' i) = true.
  Proof.
    intros Ha Hk H. unfold gstep3, ensure3 in H. rewrite Ha in H.
    destruct st as [st| |all|rk]; [destruct st|..]; try discriminate Hk;
      repeat match type of H with
             | context [exec_dml ?a ?b ?c] => destruct (exec_dml a b c) as [? ?]
             end;
      inversion H; subst; clear H; cbn [w3_ss]; rewrite upd_same; split; reflexivity.
  Qed.

  (* Whatever the other sessions do — SQL commits, DOLT_ADD, DOLT_COMMIT — and whatever the session itself
     reads and writes, inside one transaction the roots it started from stay the same ... *)
  Theorem start_roots_stable sched : forall w i,
    t_active (w3_ss w i) = true ->
    (forall st, In (i, st) sched -> keeps_txn st = true) ->
    t_start (w3_ss (snd (run3 U sched w)) i) = t_start (w3_ss w i)
    /\ t_active (w3_ss (snd (run3 U sched w)) i) = true.
  Proof.
    unfold run3. induction sched as [|[j st] rest IH]; intros w i Ha Hall; [split; [reflexivity | exact Ha]|].
    cbn [grun3]. destruct (gstep3 U (do_commit3 U) j st w) as [[o ev] w1] eqn:Hs.
    specialize (IH w1 i). destruct (grun3 U (do_commit3 U) rest w1) as [[os evs] w2]. cbn [snd] in *.
    destruct (N.eq_dec j i) as [->|Hne].
    - destruct (gstep3_own _ i st w o ev w1 Ha (Hall st (or_introl eq_refl)) Hs) as [H1 H2].
      destruct (IH H2 (fun st' Hin => Hall st' (or_intror Hin))) as [H3 H4]. split; [congruence | exact H4].
    - pose proof (gstep3_other _ i j st w o ev w1 Hne Hs) as Hsame. rewrite Hsame in IH.
      exact (IH Ha (fun st' Hin => Hall st' (or_intror Hin))).
  Qed.

  (* ... so a read AS OF 'HEAD' (or AS OF the branch) returns the HEAD table of the transaction's start,
     before and after any such interleaving: repeated reads are equal *)
  Theorem as_of_head_snapshot_stable sched w i k :
    t_active (w3_ss w i) = true ->
    (forall st, In (i, st) sched -> keeps_txn st = true) ->
    k < 2 ->
    fst (fst (gstep3 U (do_commit3 U) i (SReadAs k) (snd (run3 U sched w))))
    = obs_rows (dump U (r_head (t_start (w3_ss w i)))).
  Proof.
    intros Ha Hall Hk. destruct (start_roots_stable sched w i Ha Hall) as [Hs Hact].
    unfold gstep3, ensure3. rewrite Hact. cbn [fst].
    destruct (N.ltb_spec k 2); [|lia]. rewrite Hs. reflexivity.
  Qed.
End P.

(* non-vacuity: B dolt-commits between two reads AS OF 'HEAD' of A's transaction *)
Example ex_asof :
  let U := [1; 2] in
  let sched := [(0, SReadAs 0); (1, SBase (SInsert 2 (Some 2) (Some 2))); (1, SDoltCommit true); (0, SReadAs 0); (0, SBase SCommit); (0, SReadAs 0)] in
  map (fun x => so_rows (fst x)) (fst (fst (run3 U sched (world3_0 U [(1, Some 0, Some 0)]))))
  = [[(1, Some 0, Some 0)]; []; []; [(1, Some 0, Some 0)]; []; [(1, Some 0, Some 0); (2, Some 2, Some 2)]].
Proof. vm_compute. reflexivity. Qed.
