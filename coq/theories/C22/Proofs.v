(* C22 — proofs over every interleaving of the transaction machine. *)
From Coq Require Import NArith List Bool Lia.
From Dolt Require Import C23.Model C23.Spec C23.Proofs C22.Model C22.Spec.
Import ListNotations.
Local Open Scope N_scope.

Section P.
  Variable U : list N.

  Lemma upd_other {A} (f : N -> A) i j v : j <> i -> upd f j v i = f i.
  Proof. intros H. unfold upd. destruct (N.eqb_spec i j); [congruence | reflexivity]. Qed.

  Lemma upd_same {A} (f : N -> A) i v : upd f i v i = v.
  Proof. unfold upd. rewrite N.eqb_refl. reflexivity. Qed.

  (* ---------------------------------------------------------------- *)
  (* 1. a step of another session never touches this session           *)
  Lemma gstep_other cf i j st w o ev w' :
    j <> i -> gstep U cf j st w = (o, ev, w') -> w_ss w' i = w_ss w i.
  Proof.
    intros Hne. unfold gstep. intros H.
    destruct st;
      repeat match type of H with
             | context [commit_sess ?c ?a ?x] =>
               let Hc := fresh "Hc" in
               destruct (commit_sess c a x) as [[? ?] ?] eqn:Hc; apply commit_sess_spec in Hc;
               destruct Hc as (_ & _ & _ & _ & _ & Hss)
             | context [exec_dml ?a ?b ?c] => destruct (exec_dml a b c) as [? ?]
             | context [if ?c then _ else _] => destruct c eqn:?
             end;
      inversion H; subst; clear H; cbn [w_head w_ss] in *;
      try rewrite Hss; repeat rewrite (upd_other _ i j _ Hne); reflexivity.
  Qed.

  Theorem others_invisible sched : forall w i,
    (forall j st, In (j, st) sched -> j <> i) ->
    w_ss (snd (run U sched w)) i = w_ss w i.
  Proof.
    induction sched as [|[j st] rest IH]; intros w i Hall; [reflexivity|].
    unfold run. cbn [grun]. fold (run U).
    destruct (gstep U (do_commit U) j st w) as [[o ev] w1] eqn:Hs.
    specialize (IH w1 i). destruct (run U rest w1) as [[os evs] w2]. cbn [snd] in *.
    rewrite IH by (intros j' st' Hin; apply (Hall j' st'); right; exact Hin).
    apply (gstep_other (do_commit U) i j st w o ev w1); [|exact Hs].
    apply (Hall j st). left. reflexivity.
  Qed.

  (* ---------------------------------------------------------------- *)
  (* 2. inside a transaction, own statements act on the own table only *)
  Lemma gstep_own_dml cf i st w :
    s_active (w_ss w i) = true -> is_dml st = true ->
    gstep U cf i st w =
      (fst (exec_dml U st (s_work (w_ss w i))), None,
       {| w_head := w_head w;
          w_ss := upd (w_ss w) i (s_with_work (w_ss w i) (snd (exec_dml U st (s_work (w_ss w i))))) |}).
  Proof.
    intros Ha Hd. unfold gstep, ensure_txn.
    destruct st; try discriminate Hd; rewrite Ha; cbn [negb andb];
      match goal with |- context [exec_dml ?a ?b ?c] => destruct (exec_dml a b c) as [? ?] end; reflexivity.
  Qed.

  (* Repeated reads in one transaction: whatever the other sessions do or commit
     in between, the session's results are those of its own statements run alone
     on its table (= snapshot overlaid with its own writes); the snapshot stays. *)
  Theorem snapshot_stable sched : forall w i,
    s_active (w_ss w i) = true ->
    (forall st, In (i, st) sched -> is_dml st = true) ->
    own_obs i sched (fst (fst (run U sched w))) = fst (alone U (own i sched) (s_work (w_ss w i)))
    /\ s_work (w_ss (snd (run U sched w)) i) = snd (alone U (own i sched) (s_work (w_ss w i)))
    /\ s_snap (w_ss (snd (run U sched w)) i) = s_snap (w_ss w i)
    /\ s_active (w_ss (snd (run U sched w)) i) = true.
  Proof.
    induction sched as [|[j st] rest IH]; intros w i Ha Hall.
    - cbn. repeat split; try reflexivity. exact Ha.
    - unfold run. cbn [grun own own_obs]. fold (run U).
      destruct (N.eqb_spec j i) as [->|Hne].
      + rewrite (gstep_own_dml (do_commit U) i st w Ha) by (apply Hall; left; reflexivity).
        set (w1 := {| w_head := w_head w;
                      w_ss := upd (w_ss w) i (s_with_work (w_ss w i) (snd (exec_dml U st (s_work (w_ss w i))))) |}).
        assert (Hs1 : w_ss w1 i = s_with_work (w_ss w i) (snd (exec_dml U st (s_work (w_ss w i)))))
          by (unfold w1; cbn [w_ss]; apply upd_same).
        specialize (IH w1 i). rewrite Hs1 in IH. cbn [s_active s_work s_snap s_with_work] in IH.
        specialize (IH Ha (fun st' Hin => Hall st' (or_intror Hin))).
        destruct (run U rest w1) as [[os evs] w2]. cbn [fst snd own_obs] in *.
        cbn [alone].
        destruct (exec_dml U st (s_work (w_ss w i))) as [o t1]. cbn [fst snd] in *.
        destruct (alone U (own i rest) t1) as [aos t2]. cbn [fst snd] in *.
        destruct IH as (H1 & H2 & H3 & H4). repeat split; congruence.
      + destruct (gstep U (do_commit U) j st w) as [[o ev] w1] eqn:Hs.
        pose proof (gstep_other (do_commit U) i j st w o ev w1 Hne Hs) as Hsame.
        specialize (IH w1 i). rewrite Hsame in IH.
        specialize (IH Ha (fun st' Hin => Hall st' (or_intror Hin))).
        destruct (run U rest w1) as [[os evs] w2]. cbn [fst snd own_obs] in *.
        destruct (N.eqb_spec j i); [congruence|]. exact IH.
  Qed.

  (* ---------------------------------------------------------------- *)
  (* 3. every snapshot is a committed state                            *)
  Definition snaps_in (H : list table) (w : world) : Prop :=
    forall i, s_active (w_ss w i) = true -> In (s_snap (w_ss w i)) H.

  Lemma gstep_snaps cf j st w o ev w' H :
    gstep U cf j st w = (o, ev, w') -> snaps_in H w -> In (w_head w) H ->
    let H' := match ev with Some e => H ++ [e_after e] | None => H end in
    snaps_in H' w' /\ In (w_head w') H'.
  Proof.
    intros Hs Hin Hh.
    pose proof (gstep_event U _ _ _ _ _ _ _ Hs) as Hev.
    assert (Hhead : In (w_head w') (match ev with Some e => H ++ [e_after e] | None => H end)).
    { destruct ev as [e|].
      - destruct Hev as (_ & _ & Hh' & _). rewrite Hh'. apply in_or_app. right. left. reflexivity.
      - rewrite Hev. exact Hh. }
    split; [|exact Hhead].
    intros i Hact. destruct (N.eqb_spec i j) as [->|Hne].
    - (* the stepping session: its snapshot is unchanged or a committed head *)
      assert (Hcases : s_snap (w_ss w' j) = s_snap (w_ss w j) /\ s_active (w_ss w j) = true
                       \/ s_snap (w_ss w' j) = w_head w \/ s_snap (w_ss w' j) = w_head w').
      { clear Hev Hhead Hin Hh. unfold gstep, ensure_txn in Hs.
        destruct (s_active (w_ss w j)) eqn:Hact0; cbn [negb andb] in Hs;
        destruct st;
          repeat match type of Hs with
                 | context [commit_sess ?c ?a ?x] =>
                   let Hc := fresh "Hc" in
                   destruct (commit_sess c a x) as [[? ?] ?] eqn:Hc; apply commit_sess_spec in Hc;
                   destruct Hc as (_ & _ & _ & _ & _ & Hss)
                 | context [exec_dml ?a ?b ?c] => destruct (exec_dml a b c) as [? ?]
                 | context [if ?c then _ else _] => destruct c eqn:?
                 end;
          inversion Hs; subst; clear Hs; cbn [w_head w_ss] in *;
          try (rewrite Hss in Hact); try rewrite Hss; try rewrite !upd_same in *;
          unfold ensure_txn, s_with_work, s_end, s_begin in *;
          repeat match goal with H : s_active _ = _ |- _ => rewrite H in * end;
          cbn [s_active s_snap negb] in *; try discriminate; auto. }
      destruct Hcases as [[He Ha]|[He|He]].
      + rewrite He. destruct ev; [apply in_or_app; left|]; apply Hin; exact Ha.
      + rewrite He. destruct ev; [apply in_or_app; left|]; exact Hh.
      + rewrite He. exact Hhead.
    - rewrite (gstep_other cf i j st w o ev w' (not_eq_sym Hne) Hs) in *.
      destruct ev; [apply in_or_app; left|]; apply Hin; exact Hact.
  Qed.

  Lemma run_snaps sched : forall w H,
    snaps_in H w -> In (w_head w) H ->
    snaps_in (H ++ map e_after (snd (fst (run U sched w)))) (snd (run U sched w)).
  Proof.
    induction sched as [|[j st] rest IH]; intros w H Hin Hh.
    - cbn. rewrite app_nil_r. exact Hin.
    - unfold run. cbn [grun]. fold (run U).
      destruct (gstep U (do_commit U) j st w) as [[o ev] w1] eqn:Hs.
      destruct (gstep_snaps _ _ _ _ _ _ _ H Hs Hin Hh) as [Hin1 Hh1].
      specialize (IH w1 _ Hin1 Hh1).
      destruct (run U rest w1) as [[os evs] w2]. cbn [fst snd] in *.
      destruct ev as [e|]; [|exact IH].
      cbn [map]. rewrite <- app_assoc in IH. exact IH.
  Qed.

  (* Reads never see uncommitted data of others: the table a session reads is its
     own statements applied (snapshot_stable) to a snapshot that is the initial
     committed state or the state installed by an acknowledged commit. *)
  Theorem no_dirty_read sched w i :
    (forall j, s_active (w_ss w j) = false) ->
    s_active (w_ss (snd (run U sched w)) i) = true ->
    In (s_snap (w_ss (snd (run U sched w)) i)) (w_head w :: map e_after (snd (fst (run U sched w)))).
  Proof.
    intros Hnone Hact.
    apply (run_snaps sched w [w_head w]); [|left; reflexivity|exact Hact].
    intros j Hj. rewrite Hnone in Hj. discriminate.
  Qed.

  (* ---------------------------------------------------------------- *)
  (* 4. a transaction started after a commit reads the committed state *)
  Theorem visible_after_commit_and_begin i w o ev w' :
    s_active (w_ss w i) = false ->
    step U i SBegin w = (o, ev, w') ->
    s_snap (w_ss w' i) = w_head w /\ s_work (w_ss w' i) = w_head w /\ s_active (w_ss w' i) = true /\ ev = None.
  Proof.
    intros Ha. unfold step, gstep. rewrite Ha. intros H. inversion H; subst. cbn [w_ss].
    rewrite upd_same. repeat split; reflexivity.
  Qed.

  Theorem implicit_begin_reads_committed i w :
    s_active (w_ss w i) = false -> s_auto (w_ss w i) = false ->
    fst (fst (step U i SSelect w)) = obs_rows (dump U (w_head w)).
  Proof.
    intros Ha Hau. unfold step, gstep, ensure_txn. rewrite Ha, Hau. reflexivity.
  Qed.
End P.

(* non-vacuity: session 0 reads twice around a commit of session 1 *)
Example ex_stable :
  let w := world0 [(1, Some 0, Some 0)] [] in
  let sched := [(0, SSelect); (1, SUpdate 1 0 (Some 2)); (1, SCommit); (0, SSelect); (0, SCommit); (0, SSelect)] in
  map so_rows (own_obs 0 sched (fst (fst (run [1] sched w))))
  = [[(1, Some 0, Some 0)]; [(1, Some 0, Some 0)]; []; [(1, Some 2, Some 0)]].
Proof. vm_compute. reflexivity. Qed.
