(* C22 — the property, declaratively.

   (a) "run alone": what a session reads inside one transaction is what it
       would read executing its own statements, alone, on the table it had
       when the stretch began — no reference to other sessions or to the
       committed state.
   (b) replay spec used by the oracle: a session is (snapshot, list of own
       statements since BEGIN); a read returns the result of replaying the own
       statements on the snapshot; the snapshot is the committed state at
       transaction start; the committed state changes only by acknowledged
       commits (cell-wise overlay of C23). *)
From Coq Require Import NArith List Bool.
From Dolt Require Import C23.Model C23.Spec C22.Model.
Import ListNotations.
Local Open Scope N_scope.

Section Universe.
  Variable U : list N.

  Fixpoint alone (sts : list stmt) (t : table) : list sobs * table :=
    match sts with
    | [] => ([], t)
    | st :: r => let '(o, t1) := exec_dml U st t in
                 let '(os, t2) := alone r t1 in (o :: os, t2)
    end.

  (* replay machine *)
  Record rsess := { r_auto : bool; r_active : bool; r_snap : table; r_own : list stmt (* newest first *) }.
  Record rworld := { r_head : table; r_ss : N -> rsess }.

  Definition view (s : rsess) : table := snd (alone (rev (r_own s)) (r_snap s)).

  Definition r_end (s : rsess) : rsess := {| r_auto := r_auto s; r_active := false; r_snap := r_snap s; r_own := [] |}.
  Definition r_begin (s : rsess) (h : table) : rsess := {| r_auto := r_auto s; r_active := true; r_snap := h; r_own := [] |}.

  (* commit with the outcome the implementation reported *)
  Definition r_commit (ok : bool) (i : N) (w : rworld) : rworld :=
    let s := r_ss w i in
    {| r_head := if ok then overlay_tab U (r_snap s) (r_head w) (view s) else r_head w;
       r_ss := upd (r_ss w) i (r_end s) |}.

  (* one statement; [ok] = the implementation reported no error for it.
     Returns the rows a read must return (None for statements that are not reads). *)
  Definition rstep (ok : bool) (i : N) (st : stmt) (w : rworld) : option (list (N * cell * cell)) * rworld :=
    let s := r_ss w i in
    match st with
    | SCommit => (None, if r_active s then r_commit ok i w else w)
    | SRollback => (None, {| r_head := r_head w; r_ss := upd (r_ss w) i (r_end s) |})
    | SBegin =>
      if r_active s then
        let w' := r_commit ok i w in
        (None, if ok then {| r_head := r_head w'; r_ss := upd (r_ss w') i (r_begin s (r_head w')) |} else w')
      else (None, {| r_head := r_head w; r_ss := upd (r_ss w) i (r_begin s (r_head w)) |})
    | _ =>
      let implicit := negb (r_active s) in
      let s1 := if r_active s then s else r_begin s (r_head w) in
      let s2 := {| r_auto := r_auto s1; r_active := true; r_snap := r_snap s1; r_own := st :: r_own s1 |} in
      let expect := if is_read st then Some (so_rows (fst (exec_dml U st (view s1)))) else None in
      let w1 := {| r_head := r_head w; r_ss := upd (r_ss w) i s2 |} in
      (expect, if implicit && r_auto s then r_commit ok i w1 else w1)
    end.

  Definition rworld0 (rows : list (N * cell * cell)) (autos : list N) : rworld :=
    let h := table_of rows in
    {| r_head := h;
       r_ss := fun i => {| r_auto := existsb (N.eqb i) autos; r_active := false; r_snap := h; r_own := [] |} |}.
End Universe.
