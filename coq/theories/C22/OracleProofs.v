(* C22 — the model satisfies the executable statement of the property: the replay machine
   (Spec.rstep: snapshot + list of own statements) refines the incremental machine (C23.Model.gstep). *)
From Coq Require Import NArith List Bool Lia.
From Dolt Require Import C23.Model C23.Spec C23.Corr C23.Proofs C22.Model C22.Spec C22.Corr.
Import ListNotations.
Local Open Scope N_scope.

Section P.
  Variable U : list N.

  Lemma alone_snoc sts st t :
    snd (alone U (sts ++ [st]) t) = snd (exec_dml U st (snd (alone U sts t))).
  Proof.
    revert t. induction sts as [|x sts IH]; intros t; cbn [app alone snd].
    - destruct (exec_dml U st t) as [o t1]. reflexivity.
    - destruct (exec_dml U x t) as [o t1]. specialize (IH t1).
      destruct (alone U (sts ++ [st]) t1) as [os t2]. destruct (alone U sts t1) as [os' t2']. cbn [snd] in *. exact IH.
  Qed.

  Definition Rs (s : sess) (r : rsess) : Prop :=
    s_auto s = r_auto r /\ s_active s = r_active r /\
    (s_active s = true -> s_snap s = r_snap r /\ s_work s = view U r).

  Definition R (w : world) (rw : rworld) : Prop :=
    w_head w = r_head rw /\ forall i, Rs (w_ss w i) (r_ss rw i).

  Lemma R_upd w rw h i s r :
    (forall j, Rs (w_ss w j) (r_ss rw j)) -> Rs s r ->
    R {| w_head := h; w_ss := upd (w_ss w) i s |} {| r_head := h; r_ss := upd (r_ss rw) i r |}.
  Proof.
    intros Hall Hs. split; [reflexivity|]. intros j. cbn [w_ss r_ss]. unfold upd.
    destruct (j =? i); [exact Hs | apply Hall].
  Qed.

  Lemma Rs_end s r : s_auto s = r_auto r -> Rs (s_end s) (r_end r).
  Proof. intros H. split; [exact H|]. split; [reflexivity|]. cbn. discriminate. Qed.

  Lemma Rs_begin s r h : s_auto s = r_auto r -> Rs (s_begin s h) (r_begin r h).
  Proof. intros H. split; [exact H|]. split; [reflexivity|]. intros _. split; reflexivity. Qed.

  (* a commit of the incremental machine, seen from the replay machine *)
  Lemma commit_sim i w rw cok e w2 :
    R w rw -> s_active (w_ss w i) = true ->
    commit_sess (do_commit U) i w = (cok, e, w2) ->
    R w2 (r_commit U cok i rw).
  Proof.
    intros [Hh Hall] Ha Hc. unfold commit_sess in Hc.
    rewrite (do_commit_eq U) in Hc.
    destruct (Hall i) as (Hau & Hac & Hsw). destruct (Hsw Ha) as [Hsn Hwk].
    destruct (snd (do_commit U (w_head w) (s_snap (w_ss w i)) (s_work (w_ss w i)))) eqn:Hok;
      inversion Hc; subst; clear Hc; unfold r_commit.
    - rewrite <- Hh, <- Hsn, <- Hwk. apply R_upd; [exact Hall | apply Rs_end; exact Hau].
    - rewrite <- Hh. apply R_upd; [exact Hall | apply Rs_end; exact Hau].
  Qed.

  Lemma rows_eqb_refl l : rows_eqb l l = true.
  Proof.
    induction l as [|[[k a] b] l IH]; [reflexivity|]. cbn [rows_eqb].
    assert (Hc : forall c, cell_eqb c c = true) by (intros [x|]; [apply N.eqb_refl | reflexivity]).
    rewrite N.eqb_refl, IH, !Hc. reflexivity.
  Qed.

  (* one step *)
  Lemma rstep_sim i st w rw o ev w' :
    R w rw -> gstep U (do_commit U) i st w = (o, ev, w') ->
    R w' (snd (rstep U (so_err o =? err_none) i st rw)) /\
    match fst (rstep U (so_err o =? err_none) i st rw) with
    | Some rows => (so_err o =? err_none) = true -> so_rows o = rows
    | None => True
    end.
  Proof.
    intros HR Hs. pose proof HR as [Hh Hall].
    destruct (Hall i) as (Hau & Hac & Hsw).
    unfold gstep in Hs. unfold rstep.
    assert (Hdml : is_dml st = true ->
      forall o0 t', exec_dml U st (s_work (ensure_txn (w_ss w i) (w_head w))) = (o0, t') ->
      let s1r := if r_active (r_ss rw i) then r_ss rw i else r_begin (r_ss rw i) (r_head rw) in
      let s2r := {| r_auto := r_auto s1r; r_active := true; r_snap := r_snap s1r; r_own := st :: r_own s1r |} in
      s_work (ensure_txn (w_ss w i) (w_head w)) = view U s1r /\
      Rs (s_with_work (ensure_txn (w_ss w i) (w_head w)) t') s2r).
    { intros _ o0 t' Hx. cbn zeta. unfold ensure_txn in *. rewrite <- Hac.
      destruct (s_active (w_ss w i)) eqn:Ha.
      - destruct (Hsw eq_refl) as [Hsn Hwk]. split; [exact Hwk|].
        split; [exact Hau|]. split; [exact Ha|]. intros _. cbn [s_with_work s_snap s_work r_snap].
        split; [exact Hsn|]. unfold view. cbn [r_own r_snap rev]. rewrite alone_snoc.
        unfold view in Hwk. rewrite <- Hwk, Hx. reflexivity.
      - split; [cbn; rewrite Hh; reflexivity|].
        split; [exact Hau|]. split; [reflexivity|]. intros _. cbn [s_with_work s_begin s_snap s_work r_snap r_begin].
        split; [exact Hh|]. unfold view. cbn [r_own r_snap r_begin rev app alone].
        rewrite <- Hh. cbn [s_begin s_work] in Hx. rewrite Hx. reflexivity. }
    destruct st.
    1: { (* BEGIN *)
      rewrite <- Hac. destruct (s_active (w_ss w i)) eqn:Ha.
      + destruct (commit_sess (do_commit U) i w) as [[cok e] w2] eqn:Hc.
        pose proof (commit_sim i w rw cok e w2 HR Ha Hc) as HR2.
        destruct cok; inversion Hs; subst; clear Hs; cbn [so_err obs_ok obs_err N.eqb err_none err_retry snd fst].
        * split; [|exact I]. destruct HR2 as [Hh2 Hall2]. rewrite Hh2.
          apply R_upd; [exact Hall2 | apply Rs_begin; exact Hau].
        * split; [exact HR2 | exact I].
      + inversion Hs; subst; clear Hs. cbn [snd fst]. split; [|exact I]. rewrite Hh.
        apply R_upd; [exact Hall | apply Rs_begin; exact Hau]. }
    1: { (* COMMIT *)
      rewrite <- Hac. destruct (s_active (w_ss w i)) eqn:Ha.
      + destruct (commit_sess (do_commit U) i w) as [[cok e] w2] eqn:Hc.
        pose proof (commit_sim i w rw cok e w2 HR Ha Hc) as HR2.
        destruct cok; inversion Hs; subst; clear Hs; cbn [so_err obs_ok obs_err N.eqb err_none err_retry snd fst];
          (split; [exact HR2 | exact I]).
      + inversion Hs; subst; clear Hs. cbn [snd fst]. split; [exact HR | exact I]. }
    1: { (* ROLLBACK *)
      inversion Hs; subst; clear Hs. cbn [snd fst]. split; [|exact I]. rewrite Hh.
      apply R_upd; [exact Hall | apply Rs_end; exact Hau]. }
    (* reads and writes *)
    all: destruct (exec_dml U _ (s_work (ensure_txn (w_ss w i) (w_head w)))) as [o0 t'] eqn:Hx;
      destruct (Hdml eq_refl o0 t' eq_refl) as [Hview HRs2]; clear Hdml; cbv zeta in Hs;
      rewrite <- Hac, <- Hau;
      assert (Hact1 : s_active (ensure_txn (w_ss w i) (w_head w)) = true)
        by (unfold ensure_txn; destruct (s_active (w_ss w i)) eqn:Ha; [exact Ha | reflexivity]);
      assert (Hau1 : s_auto (ensure_txn (w_ss w i) (w_head w)) =
                     r_auto (if s_active (w_ss w i) then r_ss rw i else r_begin (r_ss rw i) (r_head rw)))
        by (unfold ensure_txn; destruct (s_active (w_ss w i)); cbn; exact Hau);
      destruct (negb (s_active (w_ss w i)) && s_auto (w_ss w i)) eqn:Himp.
    all: rewrite <- Hac in Hview, HRs2;
      set (s1r := if s_active (w_ss w i) then r_ss rw i else r_begin (r_ss rw i) (r_head rw)) in *;
      match type of HRs2 with Rs _ ?x => set (s2r := x) in * end;
      set (s1 := ensure_txn (w_ss w i) (w_head w)) in *.
    (* plain statement inside a transaction *)
    all: try (inversion Hs; subst o ev w'; clear Hs; cbn [snd fst];
              split; [rewrite Hh; apply R_upd; [exact Hall | exact HRs2]
                     | first [exact I | intros _; rewrite <- Hview, Hx; reflexivity]]).
    (* autocommit *)
    all: destruct (so_err o0 =? err_none) eqn:He.
    all: try (inversion Hs; subst o ev w'; clear Hs; rewrite He; cbn [snd fst];
              split; [unfold r_commit; cbn [r_head r_ss]; split; [exact Hh|];
                      intros j; cbn [w_ss r_ss]; unfold upd; rewrite ?N.eqb_refl; destruct (j =? i);
                      [apply Rs_end; exact Hau1 | apply Hall]
                     | first [exact I | intros Hf; discriminate]]).
    all: match type of Hs with context [commit_sess ?c ?j ?w1] =>
           destruct (commit_sess c j w1) as [[cok e] w2] eqn:Hc;
           assert (HR1 : R w1 {| r_head := r_head rw; r_ss := upd (r_ss rw) i s2r |})
             by (rewrite Hh; apply R_upd; [exact Hall | exact HRs2]);
           assert (Ha1 : s_active (w_ss w1 i) = true)
             by (cbn [w_ss]; unfold upd; rewrite N.eqb_refl; exact Hact1);
           pose proof (commit_sim i w1 _ cok e w2 HR1 Ha1 Hc) as HR2
         end;
         destruct cok; inversion Hs; subst o ev w'; clear Hs;
         cbn [so_err obs_err err_retry err_none N.eqb]; rewrite ?He; cbn [snd fst];
         (split; [exact HR2 | first [exact I | intros _; rewrite <- Hview, Hx; reflexivity | intros Hf; discriminate]]).
  Qed.

  Lemma rrun_run sched : forall w rw os log w',
    R w rw -> run U sched w = (os, log, w') -> rrun U sched os rw true = true.
  Proof.
    induction sched as [|[i st] rest IH]; intros w rw os log w' HR H.
    - cbn in H. inversion H; subst. reflexivity.
    - unfold run in H. cbn [grun] in H. fold (run U) in H.
      destruct (gstep U (do_commit U) i st w) as [[o ev] w1] eqn:Hs.
      destruct (run U rest w1) as [[os1 evs] w2] eqn:Hr. inversion H; subst. clear H.
      cbn [rrun]. destruct (rstep_sim i st w rw o ev w1 HR Hs) as [HR1 Hex].
      destruct (rstep U (so_err o =? err_none) i st rw) as [expect rw1]. cbn [fst snd] in *.
      assert (Hg : match expect with
                   | Some rows => if so_err o =? err_none then rows_eqb (so_rows o) rows else true
                   | None => true
                   end = true).
      { destruct expect as [rows|]; [|reflexivity].
        destruct (so_err o =? err_none); [|reflexivity]. rewrite <- (Hex eq_refl). apply rows_eqb_refl. }
      rewrite Hg. cbn [andb]. exact (IH w1 rw1 os1 evs _ HR1 Hr).
  Qed.

  Lemma R0 init autos : R (world0 init autos) (rworld0 init autos).
  Proof.
    split; [reflexivity|]. intros i. split; [reflexivity|]. split; [reflexivity|]. cbn. discriminate.
  Qed.
End P.

Theorem oracle_accepts_model i : oracle i (model_obs i) = true.
Proof.
  destruct i as [U init autos sched]. unfold oracle, model_obs, C23.Corr.model_obs. cbn [i_U i_init i_autos i_sched].
  destruct (run U sched (world0 init autos)) as [[os log] w'] eqn:Hr. cbn [o_steps].
  exact (rrun_run U sched _ _ os log w' (R0 U init autos) Hr).
Qed.
