(* C22 — the model is the transaction machine of C23 (Sql/Txn): StartTransaction
   snapshots the committed state (session.go:StartTransaction, dbStartPoints),
   statements read and write the session's own working table, other sessions'
   steps never touch it, COMMIT publishes it.  This file only names the parts
   C22 talks about.  No proofs here. *)
From Coq Require Import NArith List Bool.
From Dolt Require Export C23.Model.
Import ListNotations.
Local Open Scope N_scope.

(* statements that neither start nor end a transaction *)
Definition is_dml (st : stmt) : bool :=
  match st with SBegin | SCommit | SRollback => false | _ => true end.

Definition is_read (st : stmt) : bool :=
  match st with SSelect | SSelectKey _ => true | _ => false end.

(* the statements / observations of one session inside a schedule *)
Fixpoint own (i : N) (sched : list (N * stmt)) : list stmt :=
  match sched with
  | [] => []
  | (j, st) :: r => if j =? i then st :: own i r else own i r
  end.

Fixpoint own_obs (i : N) (sched : list (N * stmt)) (os : list sobs) : list sobs :=
  match sched, os with
  | (j, _) :: r, o :: os' => if j =? i then o :: own_obs i r os' else own_obs i r os'
  | _, _ => []
  end.
