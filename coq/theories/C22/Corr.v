(* C22 — correspondence.  Inputs and observations are those of C23 (same harness
   runner); the oracle is the snapshot property on the reads the implementation returned. *)
From Coq Require Import NArith List Bool.
From Dolt Require Import C23.Model C23.Spec C23.Corr C22.Model C22.Spec.
Import ListNotations.
Local Open Scope N_scope.

Definition input := C23.Corr.input.
Definition obs := C23.Corr.obs.
Definition case := (input * obs)%type.

Definition model_obs (i : input) : obs := C23.Corr.model_obs i.
Definition obs_eqb (x y : obs) : bool := C23.Corr.obs_eqb x y.

(* Every read the implementation answered must return the session's snapshot
   (committed state at transaction start) overlaid with the session's own
   statements since then — nothing of what other sessions did or committed
   meanwhile, nothing uncommitted.  Commit outcomes are the implementation's. *)
Fixpoint rrun (U : list N) (sched : list (N * stmt)) (os : list sobs) (w : rworld) (good : bool) : bool :=
  match sched, os with
  | [], [] => good
  | (i, st) :: sched', o :: os' =>
    let ok := so_err o =? err_none in
    let '(expect, w') := rstep U ok i st w in
    let g := match expect with
             | Some rows => if ok then rows_eqb (so_rows o) rows else true
             | None => true
             end in
    rrun U sched' os' w' (good && g)
  | _, _ => false
  end.

Definition oracle (i : input) (o : obs) : bool :=
  rrun (i_U i) (i_sched i) (o_steps o) (rworld0 (i_init i) (i_autos i)) true.

Definition check_case (c : case) : N :=
  (if obs_eqb (model_obs (fst c)) (snd c) then 0 else 1)
  + (if oracle (fst c) (snd c) then 0 else 2).
