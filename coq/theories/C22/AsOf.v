(* C22 — reads of other revisions inside a transaction: SELECT .. AS OF 'HEAD' / AS OF '<branch>' /
   `db/<branch>`.t / AS OF 'STAGED', while other sessions SQL-commit and DOLT_COMMIT.
   The model is the three-root machine of C23 (C23/Staged.v: SReadAs); this file is the correspondence. *)
From Coq Require Import NArith List Bool.
From Dolt Require Import C23.Model C23.Spec C23.Corr C23.Staged C23.Corr3 C22.Model C22.Spec C22.Corr.
Import ListNotations.
Local Open Scope N_scope.

(* The property on the implementation's observations: inside one transaction every read AS OF 'HEAD'
   or AS OF the checked-out branch returns the HEAD table the branch had when the transaction began
   (as an independent reader saw it then) — whatever other sessions commit or dolt-commit meanwhile;
   so repeated such reads in one transaction are equal.  Transaction boundaries are those of the
   statements (BEGIN / COMMIT / ROLLBACK / DOLT_COMMIT end a transaction, any other statement opens one). *)
Fixpoint asof_walk (sched : list (N * stmt3)) (os : list (sobs * rows * rows * rows))
         (head : rows) (start : N -> option rows) : bool :=
  match sched, os with
  | [], [] => true
  | (i, st) :: sched', (o, h, _, _) :: os' =>
    let cur := match start i with Some x => x | None => head end in      (* an implicit BEGIN happens now *)
    let ends := match st with
                | SBase SCommit | SBase SRollback | SDoltCommit _ => true
                | _ => false
                end in
    let ok := match st with
              | SReadAs k => if (k <? 2) && (so_err o =? err_none) then rows_eqb (so_rows o) cur else true
              | _ => true
              end in
    let start' :=
        match st with
        | SBase SBegin =>
          match start i with
          | Some _ => if so_err o =? err_none then upd start i (Some h) else upd start i None   (* commit, then a new transaction on the new state *)
          | None => upd start i (Some head)
          end
        | _ => if ends then upd start i None else upd start i (Some cur)
        end in
    ok && asof_walk sched' os' h start'
  | _, _ => false
  end.

Definition asof_oracle (i : input3) (o : obs3) : bool :=
  asof_walk (j_sched i) (o3_steps o) (dump (j_U i) (freeze (j_U i) (table_of (j_init i)))) (fun _ => None).

Inductive acase := E1 (c : C22.Corr.case) | E3 (c : case3).
Definition check_any (c : acase) : N :=
  match c with
  | E1 c => C22.Corr.check_case c
  | E3 (i, o) => (if obs3_eqb (model_obs3 i) o then 0 else 1) + (if asof_oracle i o then 0 else 2)
  end.
