(* C46 — executable model of dolt_ignore matching, the Ignore / DontIgnore /
   Conflict decision, staging-all and clean.  Strings are lists of Unicode code
   points (Go's regexp works on runes; the generator only produces valid UTF-8).
   No proofs in this file. *)
From Coq Require Import NArith List Bool.
From Dolt Require Import Base.Str.
Import ListNotations.
Local Open Scope N_scope.

Definition str := bytes.            (* code points *)
Definition c_nl : N := 10.
Definition c_pct : N := 37.         (* % *)
Definition c_star : N := 42.        (* * *)
Definition c_q : N := 63.           (* ? *)

(* ---- doltdb/table_name_patterns.go: compilePattern --------------------------
   "^" + QuoteMeta(p) + "$" with  \? -> .   \* -> .*   % -> .*
   Every other rune (including a backslash, which QuoteMeta doubles) stays a
   literal. *)
Inductive tok := TLit (c : N) | TOne | TMany.

Definition tok_of (c : N) : tok :=
  if c =? c_q then TOne else if (c =? c_star) || (c =? c_pct) then TMany else TLit c.

Definition compile (p : str) : list tok := map tok_of p.

(* Go regexp semantics of the compiled expression on a whole string (anchored):
   a backtracking matcher.  [one_ok] is the class a single-rune wildcard accepts,
   [any_ok] the class each rune under ".*" must belong to. *)
Section Rx.
  Variables one_ok any_ok : N -> bool.
  Fixpoint rx (p : list tok) (s : str) {struct p} : bool :=
    match p with
    | [] => match s with [] => true | _ :: _ => false end
    | TLit c :: p' => match s with x :: s' => (x =? c) && rx p' s' | [] => false end
    | TOne :: p' => match s with x :: s' => one_ok x && rx p' s' | [] => false end
    | TMany :: p' =>
      (fix star (s : str) : bool :=
         rx p' s || match s with x :: s' => any_ok x && star s' | [] => false end) s
    end.
End Rx.

(* "." does not match a newline (no (?s) flag) *)
Definition not_nl (x : N) : bool := negb (x =? c_nl).
(* getMoreSpecificPatterns: "\*" -> ".*", "%" -> ".*", and LAST "\?" -> "[^\*%]" (repaired in
   d28426b: expanding the "?" first let the later replacements rewrite the class it had just
   inserted).  A negated class does match a newline. *)
Definition not_wild (x : N) : bool := negb ((x =? c_star) || (x =? c_pct)).

(* MatchTablePattern(pattern, table) *)
Definition match_table_pattern (p n : str) : bool := rx not_nl not_nl (compile p) n.

(* getMoreSpecificPatterns(less).MatchString(a): the pattern text [a] is matched by
   [less] read with "?" -> [^\*%] *)
Definition more_specific_re (less a : str) : bool := rx not_wild not_nl (compile less) a.

(* normalizePattern: "*" -> "%", then "%%" -> "%" to a fix-point (runs collapse) *)
Fixpoint normalize (p : str) : str :=
  match p with
  | [] => []
  | c :: p' =>
    let c' := if c =? c_star then c_pct else c in
    match normalize p' with
    | d :: r => if (c' =? c_pct) && (d =? c_pct) then d :: r else c' :: d :: r
    | [] => [c']
    end
  end.

(* ---- doltdb/ignore.go: isDoltRebaseTable: strings.EqualFold(name, "dolt_rebase")
   (simple Unicode folding: besides ASCII case, U+017F folds to "s") *)
Definition s_dolt_rebase : str := [100;111;108;116;95;114;101;98;97;115;101].
Definition fold_eq (x c : N) : bool :=
  (x =? c) || ((97 <=? c) && (c <=? 122) && (x =? c - 32)) || ((c =? 115) && (x =? 383)).
Fixpoint equal_fold (n t : str) : bool :=
  match n, t with
  | [], [] => true
  | x :: n', c :: t' => fold_eq x c && equal_fold n' t'
  | _, _ => false
  end.
Definition is_rebase (n : str) : bool := equal_fold n s_dolt_rebase.

(* ---- IsTableNameIgnored / resolveConflictingPatterns ----------------------- *)
Definition mem (s : str) (l : list str) : bool := existsb (beq_bytes s) l.
(* keys of a Go map filled from a slice: the distinct strings *)
Definition dedup (l : list str) : list str :=
  fold_right (fun x acc => if mem x acc then acc else x :: acc) [] l.

Definition pat := (str * bool)%type.

Record dres := { d_code : N;            (* 0 Ignore, 1 DontIgnore, 2 IgnorePatternConflict *)
                 d_ct : list str; d_cf : list str }.   (* contents of the conflict error *)
Definition r_ignore := {| d_code := 0; d_ct := []; d_cf := [] |}.
Definition r_dont := {| d_code := 1; d_ct := []; d_cf := [] |}.

(* first pair, in the loop order of the code, with equal normal forms *)
Fixpoint first_eq_pair (T F : list str) : option (str * str) :=
  match T with
  | [] => None
  | t :: T' =>
    match find (fun f => beq_bytes (normalize t) (normalize f)) F with
    | Some f => Some (t, f)
    | None => first_eq_pair T' F
    end
  end.

Definition resolve (T F : list str) : dres :=
  match first_eq_pair T F with
  | Some (t, f) => {| d_code := 2; d_ct := [t]; d_cf := [f] |}
  | None =>
    let tr := dedup (filter (fun t => existsb (fun f => more_specific_re t f) F) T) in   (* trueMatchesToRemove *)
    let fr := dedup (filter (fun f => existsb (fun t => more_specific_re f t) T) F) in   (* falseMatchesToRemove *)
    if Nat.eqb (length tr) (length T) then r_dont
    else if Nat.eqb (length fr) (length F) then r_ignore
    else {| d_code := 2;
            d_ct := filter (fun t => negb (mem t tr)) T;
            (* the code filters the false matches with trueMatchesToRemove too (DESIGN §6 F8) *)
            d_cf := filter (fun f => negb (mem f tr)) F |}
  end.

Definition matching (ps : list pat) (n : str) (ig : bool) : list str :=
  map fst (filter (fun pi => Bool.eqb (snd pi) ig && match_table_pattern (fst pi) n) ps).

Definition is_ignored (ps : list pat) (n : str) : dres :=
  if is_rebase n then r_ignore else
  let T := matching ps n true in
  let F := matching ps n false in
  match T with
  | [] => r_dont
  | _ => match F with [] => r_ignore | _ => resolve T F end
  end.

(* ---- working sets ------------------------------------------------------------
   A root is a list of tables with distinct names; [t_id] is the identity the diff
   uses to recognise a rename (overlapping column tags), [t_ver] the content. *)
Record tbl := mk_tbl { t_name : str; t_id : N; t_ver : N }.
Definition root := list tbl.
Definition roots := (root * root * root)%type.     (* head, staged, working *)

Definition tbl_eqb (a b : tbl) : bool :=
  beq_bytes (t_name a) (t_name b) && (t_id a =? t_id b) && (t_ver a =? t_ver b).
Definition lookup (n : str) (r : root) : option tbl := find (fun t => beq_bytes (t_name t) n) r.
Definition has (n : str) (r : root) : bool := existsb (fun t => beq_bytes (t_name t) n) r.
Definition remove (n : str) (r : root) : root := filter (fun t => negb (beq_bytes (t_name t) n)) r.
Definition put (t : tbl) (r : root) : root := t :: remove (t_name t) r.
Definition names (r : root) : list str := map t_name r.

(* diff.GetTableDeltas / matchTableDeltas: match by name, then the rest by identity *)
Inductive delta := DAdd (t : tbl) | DDrop (f : tbl) | DMod (f t : tbl) | DRen (f t : tbl).

Definition deltas (from to : root) : list delta :=
  flat_map (fun f =>
    match lookup (t_name f) to with
    | Some t => if tbl_eqb f t then [] else [DMod f t]
    | None =>
      match find (fun t => (t_id t =? t_id f) && negb (has (t_name t) from)) to with
      | Some t => [DRen f t]
      | None => [DDrop f]
      end
    end) from
  ++ flat_map (fun t =>
    if has (t_name t) from then []
    else if existsb (fun f => (t_id f =? t_id t) && negb (has (t_name f) to)) from then []
    else [DAdd t]) to.

(* env/actions/table.go MoveTablesBetweenRoots(tbls, src, dest) *)
Definition move_tables (S : list str) (src dest : root) : root :=
  let ds := deltas dest src in
  let dest1 := fold_left (fun d x =>
                 match x with
                 | DDrop f => if mem (t_name f) S then remove (t_name f) d else d
                 | _ => d
                 end) ds dest in
  fold_left (fun d x =>
    match x with
    | DAdd t => if mem (t_name t) S then put t d else d
    | DMod _ t => if mem (t_name t) S then put t d else d
    | DRen f t => if mem (t_name t) S then put t (remove (t_name f) d) else d
    | DDrop _ => d
    end) ds dest1.

(* doltdb.UnionTableNames(staged, working) *)
Definition union_names (s w : root) : list str :=
  names s ++ filter (fun n => negb (has n s)) (names w).

(* error classes: 0 none, 1 dolt_ignore conflict, 2 nothing to commit *)
(* actions.StageAllTables(roots, filterIgnoredTables = true) *)
Definition stage_all (ps : list pat) (r : roots) : N * roots :=
  let '(h, s, w) := r in
  let ns := union_names s w in
  if existsb (fun n => d_code (is_ignored ps n) =? 2) ns then (1, r)
  else (0, (h, move_tables (filter (fun n => d_code (is_ignored ps n) =? 1) ns) w s, w)).

Definition root_eqb (a b : root) : bool :=
  Nat.eqb (length a) (length b)
  && forallb (fun t => match lookup (t_name t) b with Some u => tbl_eqb t u | None => false end) a.

(* dolt_commit('-A'): stage everything, then commit the staged root *)
Definition commit_all (ps : list pat) (r : roots) : N * roots :=
  match stage_all ps r with
  | (0, (h, s', w)) => if root_eqb s' h then (2, r) else (0, (s', s', w))
  | (e, _) => (e, r)
  end.

(* actions.CleanUntracked(roots, tables = [], dryrun, force = false, respectIgnoreRules) *)
Definition clean (ps : list pat) (respect dry : bool) (r : roots) : N * roots :=
  let '(h, s, w) := r in
  let ns := names w in
  if respect && existsb (fun n => d_code (is_ignored ps n) =? 2) ns then (1, r)   (* ExcludeIgnoredTables returns the conflict *)
  else
    let cands := if respect then filter (fun n => negb (d_code (is_ignored ps n) =? 0)) ns else ns in
    let untracked := filter (fun n => negb (has n s)) cands in     (* "headTblNames" are the staged root's tables *)
    if dry then (0, r)
    else (0, (h, s, filter (fun t => negb (mem (t_name t) untracked)) w)).

(* the procedures: 0 dolt_add('-A'), 1 dolt_add('.'), 2 dolt_commit('-A'),
   3 dolt_clean(), 4 dolt_clean('-x'), 5 dolt_clean('--dry-run') *)
Definition run_act (ps : list pat) (act : N) (r : roots) : N * roots :=
  if act <=? 1 then stage_all ps r
  else if act =? 2 then commit_all ps r
  else if act =? 3 then clean ps true false r
  else if act =? 4 then clean ps false false r
  else clean ps true true r.
