(* C46 — proofs. *)
From Coq Require Import NArith PeanoNat List Bool Lia.
From Dolt Require Import Base.Str C46.Model C46.Spec C46.Corr.
Import ListNotations.
Local Open Scope N_scope.

(* ------------------------------------------------------------------ *)
(* 1. the backtracking matcher is the "try every split" reading       *)

Lemma existsb_map {A B} (g : B -> bool) (h : A -> B) l : existsb g (map h l) = existsb (fun a => g (h a)) l.
Proof. induction l as [|a l IH]; cbn [map existsb]; [reflexivity | rewrite IH; reflexivity]. Qed.

Lemma existsb_andb_l {A} (b : bool) (g : A -> bool) l : b && existsb g l = existsb (fun a => b && g a) l.
Proof.
  induction l as [|a l IH]; cbn [existsb].
  - apply andb_false_r.
  - rewrite <- IH. destruct b, (g a), (existsb g l); reflexivity.
Qed.

Lemma existsb_ext_in {A} (f g : A -> bool) l : (forall a, In a l -> f a = g a) -> existsb f l = existsb g l.
Proof.
  induction l as [|a l IH]; intros H; cbn [existsb]; [reflexivity|].
  rewrite (H a (or_introl eq_refl)), IH; [reflexivity | intros b Hb; apply H; right; exact Hb].
Qed.

Lemma star_splits (f : str -> bool) (any : N -> bool) s :
  (fix star (s : str) : bool := f s || match s with x :: s' => any x && star s' | [] => false end) s
  = existsb (fun rs => forallb any (fst rs) && f (snd rs)) (splits s).
Proof.
  induction s as [|x s IH].
  - cbn. destruct (f []); reflexivity.
  - cbn [splits existsb fst snd forallb]. rewrite IH, existsb_map, existsb_andb_l. cbn [andb].
    f_equal. apply existsb_ext_in. intros [r t] _. cbn [fst snd forallb]. rewrite andb_assoc. reflexivity.
Qed.

Theorem rx_eq_glob_b one any p s : rx one any p s = glob_b one any p s.
Proof.
  revert s. induction p as [|t p IH]; intros s; [reflexivity|].
  destruct t as [c| |].
  - cbn [rx glob_b]. destruct s as [|x s]; [reflexivity | rewrite IH; reflexivity].
  - cbn [rx glob_b]. destruct s as [|x s]; [reflexivity | rewrite IH; reflexivity].
  - cbn [rx glob_b]. rewrite (star_splits (rx one any p) any s).
    apply existsb_ext_in. intros rs _. rewrite IH. reflexivity.
Qed.

(* 2. ... and that reading is the declarative relation *)
Lemma splits_spec s r t : In (r, t) (splits s) <-> s = r ++ t.
Proof.
  revert r t. induction s as [|x s IH]; intros r t; cbn [splits].
  - split.
    + intros [H | []]. inversion H; reflexivity.
    + intros H. symmetry in H. apply app_eq_nil in H as [-> ->]. left; reflexivity.
  - split.
    + intros [H | H].
      * inversion H; reflexivity.
      * apply in_map_iff in H as [[r' t'] [E Hin]]. cbn [fst snd] in E. inversion E; subst.
        apply IH in Hin. subst s. reflexivity.
    + intros H. destruct r as [|y r].
      * left. cbn in H. subst t. reflexivity.
      * right. cbn in H. inversion H; subst. apply in_map_iff. exists (r, t). split; [reflexivity|].
        apply IH. reflexivity.
Qed.

Theorem glob_b_iff_glob one any p s : glob_b one any p s = true <-> glob one any p s.
Proof.
  revert s. induction p as [|t p IH]; intros s.
  - cbn [glob_b]. destruct s; split; intros H; try constructor; try discriminate; inversion H.
  - destruct t as [c| |]; cbn [glob_b].
    + destruct s as [|x s]; [split; [discriminate | intros H; inversion H]|].
      rewrite andb_true_iff, N.eqb_eq, IH. split.
      * intros [-> H]. constructor; exact H.
      * intros H. inversion H; subst. split; [reflexivity | assumption].
    + destruct s as [|x s]; [split; [discriminate | intros H; inversion H]|].
      rewrite andb_true_iff, IH. split.
      * intros [Hx H]. constructor; assumption.
      * intros H. inversion H; subst. split; assumption.
    + rewrite existsb_exists. split.
      * intros [[r t] [Hin H]]. cbn [fst snd] in H. apply andb_true_iff in H as [Hr Ht].
        apply splits_spec in Hin. subst s. constructor; [|apply IH; exact Ht].
        apply Forall_forall. rewrite forallb_forall in Hr. exact Hr.
      * intros H. inversion H; subst. exists (r, s0). split; [apply splits_spec; reflexivity|].
        cbn [fst snd]. apply andb_true_iff. split; [|apply IH; assumption].
        apply forallb_forall. apply Forall_forall. assumption.
Qed.

(* MatchTablePattern accepts exactly the names the wildcard rules describe *)
Theorem match_table_pattern_spec p n : match_table_pattern p n = true <-> matches p n.
Proof. unfold match_table_pattern, matches. rewrite rx_eq_glob_b. apply glob_b_iff_glob. Qed.

Theorem match_table_pattern_spec_b p n : match_table_pattern p n = matches_b p n.
Proof. apply rx_eq_glob_b. Qed.

(* ------------------------------------------------------------------ *)
(* 3. the decision                                                     *)

(* the specificity test of the code is the stated one *)
Lemma bool_eq_iff (a b : bool) : (a = true <-> b = true) -> a = b.
Proof. destruct a, b; intros [H1 H2]; try reflexivity; [symmetry; apply H1 | apply H2]; reflexivity. Qed.

Lemma more_specific_re_spec less a : more_specific_re less a = at_least_as_specific_b a less.
Proof. unfold more_specific_re, at_least_as_specific_b. rewrite rx_eq_glob_b. reflexivity. Qed.

Lemma mem_In s l : mem s l = true <-> In s l.
Proof.
  unfold mem. rewrite existsb_exists. split.
  - intros [x [Hin H]]. apply beq_bytes_spec in H. subst. exact Hin.
  - intros H. exists s. split; [exact H | apply beq_bytes_refl].
Qed.

Lemma dedup_NoDup l : NoDup l -> dedup l = l.
Proof.
  induction 1 as [|x l Hx Hnd IH]; [reflexivity|]. cbn [dedup fold_right]. fold (dedup l). rewrite IH.
  destruct (mem x l) eqn:E; [apply mem_In in E; contradiction | reflexivity].
Qed.

Lemma filter_len_le {A} (f : A -> bool) l : (length (filter f l) <= length l)%nat.
Proof. induction l as [|a l IH]; cbn [filter length]; [lia|]. destruct (f a); cbn [length]; lia. Qed.

Lemma filter_length_all {A} (f : A -> bool) l : Nat.eqb (length (filter f l)) (length l) = forallb f l.
Proof.
  induction l as [|a l IH]; [reflexivity|]. cbn [filter forallb]. destruct (f a) eqn:E; cbn [length andb].
  - exact IH.
  - pose proof (filter_len_le f l) as Hle. apply Nat.eqb_neq. lia.
Qed.

Lemma NoDup_filter {A} (f : A -> bool) l : NoDup l -> NoDup (filter f l).
Proof.
  induction 1 as [|x l Hx Hnd IH]; cbn [filter]; [constructor|].
  destruct (f x); [constructor; [rewrite filter_In; tauto | exact IH] | exact IH].
Qed.

Lemma first_eq_pair_none T F :
  first_eq_pair T F = None <-> existsb (fun t => existsb (same_pattern_b t) F) T = false.
Proof.
  induction T as [|t T IH]; cbn [first_eq_pair existsb]; [tauto|].
  destruct (find (fun f => beq_bytes (normalize t) (normalize f)) F) as [f|] eqn:E.
  - apply find_some in E as [Hin Hf]. split; [discriminate|]. intros H. apply orb_false_iff in H as [H _].
    assert (existsb (same_pattern_b t) F = true) as C; [|congruence].
    apply existsb_exists. exists f. split; assumption.
  - assert (existsb (same_pattern_b t) F = false) as ->.
    { destruct (existsb (same_pattern_b t) F) eqn:C; [|reflexivity].
      apply existsb_exists in C as [f [Hin Hf]]. pose proof (find_none _ _ E f Hin) as N. unfold same_pattern_b in Hf. congruence. }
    cbn [orb]. exact IH.
Qed.

Lemma first_eq_pair_some T F t f : first_eq_pair T F = Some (t, f) -> existsb (fun t => existsb (same_pattern_b t) F) T = true.
Proof.
  intros H. destruct (existsb (fun t0 => existsb (same_pattern_b t0) F) T) eqn:E; [reflexivity|].
  apply first_eq_pair_none in E. congruence.
Qed.

Lemma matching_true ps n : matching ps n true = map fst (filter (fun pi => snd pi && matches_b (fst pi) n) ps).
Proof.
  unfold matching. f_equal. apply filter_ext. intros [p b]. cbn [fst snd]. rewrite match_table_pattern_spec_b. destruct b; reflexivity.
Qed.
Lemma matching_false ps n : matching ps n false = map fst (filter (fun pi => negb (snd pi) && matches_b (fst pi) n) ps).
Proof.
  unfold matching. f_equal. apply filter_ext. intros [p b]. cbn [fst snd]. rewrite match_table_pattern_spec_b. destruct b; reflexivity.
Qed.

Lemma existsb_ext_in2 {A} (f g : A -> bool) l : (forall a, In a l -> f a = g a) -> existsb f l = existsb g l.
Proof. apply existsb_ext_in. Qed.

Lemma forallb_ext_in {A} (f g : A -> bool) l : (forall a, In a l -> f a = g a) -> forallb f l = forallb g l.
Proof.
  induction l as [|a l IH]; intros H; cbn [forallb]; [reflexivity|].
  rewrite (H a (or_introl eq_refl)), IH; [reflexivity | intros b Hb; apply H; right; exact Hb].
Qed.

Lemma filter_ext_in' {A} (f g : A -> bool) l : (forall a, In a l -> f a = g a) -> filter f l = filter g l.
Proof. apply filter_ext_in. Qed.

(* The decision: for every pattern set whose matching patterns are distinct within a polarity
   (dolt_ignore's primary key) and every table name, IsTableNameIgnored is the declarative
   rule "most specific wins, same patterns conflict". *)
Theorem decision_is_spec ps n :
  NoDup (matching ps n true) -> NoDup (matching ps n false) ->
  d_code (is_ignored ps n) = spec_decision ps n.
Proof.
  intros NT NF. unfold is_ignored, spec_decision.
  destruct (is_rebase n); [reflexivity|].
  rewrite <- matching_true, <- matching_false.
  set (T := matching ps n true) in *. set (F := matching ps n false) in *.
  destruct T as [|t0 T'] eqn:ET; [reflexivity|]. rewrite <- ET in *.
  assert (Nat.eqb (length T) 0 = false) as -> by (rewrite ET; reflexivity).
  destruct F as [|f0 F'] eqn:EF; [rewrite ET; reflexivity|]. rewrite <- EF in *.
  assert (Nat.eqb (length F) 0 = false) as -> by (rewrite EF; reflexivity).
  rewrite ET at 1. rewrite EF at 1. rewrite <- ET, <- EF.
  unfold resolve.
  destruct (first_eq_pair T F) as [[t f]|] eqn:EP.
  - rewrite (first_eq_pair_some _ _ _ _ EP). reflexivity.
  - apply first_eq_pair_none in EP. rewrite EP.
    rewrite (filter_ext_in' _ (fun t => existsb (fun f => at_least_as_specific_b f t) F) T).
    2:{ intros t Ht. apply existsb_ext_in. intros f Hf. apply more_specific_re_spec. }
    rewrite (filter_ext_in' _ (fun f => existsb (fun t => at_least_as_specific_b t f) T) F).
    2:{ intros f Hf. apply existsb_ext_in. intros t Ht. apply more_specific_re_spec. }
    rewrite !dedup_NoDup by (apply NoDup_filter; assumption).
    rewrite !filter_length_all.
    destruct (forallb _ T); [reflexivity|]. destruct (forallb _ F); reflexivity.
Qed.

Lemma NoDup_matching ps n ig : NoDup (map fst ps) -> NoDup (matching ps n ig).
Proof.
  unfold matching. induction ps as [|[p b] ps IH]; intros H; [constructor|].
  cbn [map fst] in H. inversion H as [|? ? Hp Hd]; subst. cbn [filter].
  destruct (Bool.eqb (snd (p, b)) ig && match_table_pattern (fst (p, b)) n); [|apply IH; exact Hd].
  cbn [map fst]. constructor; [|apply IH; exact Hd].
  intros Hin. apply Hp. apply in_map_iff in Hin as [[q c] [E Hq]]. apply filter_In in Hq as [Hq _].
  cbn [fst] in E. subst q. apply in_map_iff. exists (p, c). split; [reflexivity | exact Hq].
Qed.

(* at the SQL surface the pattern is the primary key of dolt_ignore *)
Corollary decision_is_spec_pk ps n : NoDup (map fst ps) -> d_code (is_ignored ps n) = spec_decision ps n.
Proof. intros H. apply decision_is_spec; apply NoDup_matching; exact H. Qed.

(* Regression (finding repaired in d28426b): the "?" class used to be rewritten to [^.*.*], so
   that "?" covered "%": {"_%": don't ignore, "_?": ignore} answered DontIgnore for "_b", and
   {"%a": ignore, "??": don't ignore} answered Ignore for "ba". *)
Example decision_qmark_regression :
  d_code (is_ignored [([95; 37], false); ([95; 63], true)] [95; 98]) = 0
  /\ spec_decision [([95; 37], false); ([95; 63], true)] [95; 98] = 0
  /\ d_code (is_ignored [([37; 97], true); ([63; 63], false)] [98; 97]) = 2
  /\ spec_decision [([37; 97], true); ([63; 63], false)] [98; 97] = 2.
Proof. vm_compute. repeat split; reflexivity. Qed.

(* with duplicates in one polarity the map-size comparison misfires (API level only:
   dolt_ignore's primary key is the pattern) *)
Example decision_duplicate_quirk :
  d_code (is_ignored [([97; 42], true); ([97; 42], true); ([97; 98], false)] [97; 98]) = 2
  /\ spec_decision [([97; 42], true); ([97; 42], true); ([97; 98], false)] [97; 98] = 1.
Proof. vm_compute. split; reflexivity. Qed.

(* an equal pair reported as a conflict even when a strictly more specific pattern
   would decide (the property text covers both readings; the oracle follows the code) *)
Example same_pattern_shadowed :
  d_code (is_ignored [([97; 42], true); ([97; 37], false); ([97; 98], false)] [97; 98]) = 2
  /\ spec_decision [([97; 42], true); ([97; 37], false); ([97; 98], false)] [97; 98] = 2
  /\ spec_decision [([97; 42], true); ([97; 98], false)] [97; 98] = 1.
Proof. vm_compute. repeat split; reflexivity. Qed.

(* ------------------------------------------------------------------ *)
(* 4. staging everything: the refuted clause                           *)

(* "every other change is staged": a tracked table t (in head and staged) modified
   in the working set, with the pattern "t" ignored: dolt_add -A leaves the
   modification unstaged.  Reproduced on the implementation (known finding). *)
Theorem stage_all_every_other_change_refuted :
  exists ps pre, let '(e, post) := stage_all ps pre in
                 e = 0 /\ stage_ok ps pre e post = false.
Proof.
  exists [([116], true)],
         ([mk_tbl [116] 1 0], [mk_tbl [116] 1 0], [mk_tbl [116] 1 1]).
  vm_compute. split; reflexivity.
Qed.

(* the same through a rename whose new name is ignored *)
Theorem stage_all_rename_refuted :
  exists ps pre, let '(e, post) := stage_all ps pre in
                 e = 0 /\ stage_ok ps pre e post = false.
Proof.
  exists [([98], true)],
         ([mk_tbl [97] 1 0], [mk_tbl [97] 1 0], [mk_tbl [98] 1 0]).
  vm_compute. split; reflexivity.
Qed.

(* non-vacuity: new ignored tables stay out, the rest is staged, on a mixed working set *)
Example stage_all_mixed :
  let ps := [([97; 42], true)] in
  let pre := ([mk_tbl [116] 1 0; mk_tbl [97; 100] 4 0], [mk_tbl [116] 1 0; mk_tbl [97; 100] 4 0],
              [mk_tbl [116] 1 1; mk_tbl [97; 98] 2 0; mk_tbl [99] 3 0]) in
  let '(e, post) := stage_all ps pre in
  e = 0 /\ stage_ok ps pre e post = true
  /\ snd (fst post) = [mk_tbl [99] 3 0; mk_tbl [116] 1 1; mk_tbl [97; 100] 4 0].
Proof. vm_compute. repeat split; reflexivity. Qed.

(* ------------------------------------------------------------------ *)
(* 5. clean removes exactly the untracked, non-ignored tables           *)

Lemma tbl_eqb_refl t : tbl_eqb t t = true.
Proof. unfold tbl_eqb. rewrite beq_bytes_refl, !N.eqb_refl. reflexivity. Qed.

Lemma lookup_self t r : NoDup (names r) -> In t r -> lookup (t_name t) r = Some t.
Proof.
  induction r as [|u r IH]; intros Hnd Hin; [destruct Hin|].
  cbn [names map] in Hnd. inversion Hnd as [|? ? Hnotin Hnd']; subst.
  cbn [lookup find]. destruct Hin as [-> | Hin].
  - rewrite beq_bytes_refl. reflexivity.
  - destruct (beq_bytes (t_name u) (t_name t)) eqn:E.
    + apply beq_bytes_spec in E. exfalso. apply Hnotin. rewrite E. apply in_map. exact Hin.
    + apply IH; assumption.
Qed.

Lemma root_eqb_refl r : NoDup (names r) -> root_eqb r r = true.
Proof.
  intros Hnd. unfold root_eqb. rewrite Nat.eqb_refl. cbn [andb]. apply forallb_forall. intros t Hin.
  rewrite (lookup_self t r Hnd Hin). apply tbl_eqb_refl.
Qed.

Lemma same_root_refl r : NoDup (names r) -> same_root r r = true.
Proof. intros H. unfold same_root. rewrite root_eqb_refl by exact H. reflexivity. Qed.

Lemma names_filter_NoDup (f : tbl -> bool) r : NoDup (names r) -> NoDup (names (filter f r)).
Proof.
  unfold names. induction r as [|t r IH]; cbn [filter map]; intros H; [constructor|].
  inversion H as [|? ? Hn Hd]; subst. destruct (f t); cbn [map]; [constructor|]; auto.
  intros C. apply Hn. apply in_map_iff in C as [u [E Hu]]. apply filter_In in Hu as [Hu _].
  rewrite <- E. apply in_map. exact Hu.
Qed.

Lemma has_In n r : has n r = true <-> In n (names r).
Proof.
  unfold has, names. rewrite existsb_exists, in_map_iff. split.
  - intros [t [Hin E]]. apply beq_bytes_spec in E. exists t. split; assumption.
  - intros [t [E Hin]]. exists t. split; [exact Hin | apply beq_bytes_spec; exact E].
Qed.

Lemma mem_filter_names (g : str -> bool) (w : root) (t : tbl) :
  In t w -> mem (t_name t) (filter g (names w)) = g (t_name t).
Proof.
  intros Hin. destruct (g (t_name t)) eqn:E.
  - apply mem_In. apply filter_In. split; [apply in_map; exact Hin | exact E].
  - destruct (mem (t_name t) (filter g (names w))) eqn:M; [|reflexivity].
    apply mem_In in M. apply filter_In in M as [_ M]. congruence.
Qed.

(* For every pattern set on which the decision procedure agrees with the rule (all of
   them with distinct patterns, see decision_is_spec / clean_is_spec_pk) and every working
   set with distinct table names: dolt_clean / -x / --dry-run do exactly what the
   property states, or report the conflict and change nothing. *)
Theorem clean_is_spec ps h s w x dry :
  NoDup (names h) -> NoDup (names s) -> NoDup (names w) ->
  (forall n, In n (names w) -> d_code (is_ignored ps n) = spec_decision ps n) ->
  clean_ok ps x dry (h, s, w) (fst (clean ps (negb x) dry (h, s, w))) (snd (clean ps (negb x) dry (h, s, w))) = true.
Proof.
  intros Hh Hs Hw Hdec. unfold clean.
  assert (Hconf : existsb (fun n => d_code (is_ignored ps n) =? 2) (names w) = existsb (conflict_b ps) (names w)).
  { apply existsb_ext_in. intros n Hn. unfold conflict_b. rewrite Hdec by exact Hn. reflexivity. }
  assert (Hroots : roots_eqb (h, s, w) (h, s, w) = true).
  { unfold roots_eqb. rewrite !root_eqb_refl by assumption. reflexivity. }
  destruct x; cbn [negb andb].
  - (* -x *)
    destruct dry; cbn [fst snd clean_ok]; rewrite N.eqb_refl, !same_root_refl by assumption; cbn [andb orb]; [reflexivity|].
    rewrite andb_true_r.
    assert (E : filter (fun t => negb (mem (t_name t) (filter (fun n => negb (has n s)) (names w)))) w = clean_expected ps true s w).
    { unfold clean_expected. apply filter_ext_in. intros t Ht. rewrite mem_filter_names by exact Ht. cbn [orb]. rewrite andb_true_r. reflexivity. }
    rewrite E. apply same_root_refl. apply names_filter_NoDup. exact Hw.
  - rewrite Hconf. destruct (existsb (conflict_b ps) (names w)) eqn:EC.
    + cbn [fst snd]. unfold clean_ok. cbn [N.eqb Pos.eqb negb andb]. rewrite Hroots, EC. reflexivity.
    + assert (Hnc : existsb (fun n => conflict_b ps n && negb (has n s)) (names w) = false).
      { destruct (existsb (fun n => conflict_b ps n && negb (has n s)) (names w)) eqn:C; [|reflexivity].
        apply existsb_exists in C as [n [Hn C]]. apply andb_true_iff in C as [C _].
        assert (existsb (conflict_b ps) (names w) = true) by (apply existsb_exists; exists n; split; assumption). congruence. }
      destruct dry; cbn [fst snd clean_ok]; rewrite N.eqb_refl, !same_root_refl by assumption; rewrite Hnc; cbn [andb orb negb]; [reflexivity|].
      rewrite andb_true_r.
      assert (E : filter (fun t => negb (mem (t_name t)
                    (filter (fun n => negb (has n s)) (filter (fun n => negb (d_code (is_ignored ps n) =? 0)) (names w))))) w
                  = clean_expected ps false s w).
      { unfold clean_expected. apply filter_ext_in. intros t Ht.
        assert (Hn : In (t_name t) (names w)) by (apply in_map; exact Ht).
        f_equal. cbn [orb].
        destruct (mem (t_name t) _) eqn:M.
        - apply mem_In in M. apply filter_In in M as [M M1]. apply filter_In in M as [_ M2].
          rewrite M1. unfold ignored_b. rewrite <- Hdec by exact Hn. rewrite M2. reflexivity.
        - destruct (negb (has (t_name t) s)) eqn:E1; [|reflexivity].
          unfold ignored_b. rewrite <- Hdec by exact Hn.
          destruct (negb (d_code (is_ignored ps (t_name t)) =? 0)) eqn:E2; [|reflexivity].
          exfalso. assert (mem (t_name t) (filter (fun n => negb (has n s)) (filter (fun n => negb (d_code (is_ignored ps n) =? 0)) (names w))) = true) as C; [|congruence].
          apply mem_In. apply filter_In. split; [apply filter_In; split; assumption | exact E1]. }
      rewrite E. apply same_root_refl. apply names_filter_NoDup. exact Hw.
Qed.

(* ... hence for every dolt_ignore table (patterns are its primary key) *)
Corollary clean_is_spec_pk ps h s w x dry :
  NoDup (map fst ps) -> NoDup (names h) -> NoDup (names s) -> NoDup (names w) ->
  clean_ok ps x dry (h, s, w) (fst (clean ps (negb x) dry (h, s, w))) (snd (clean ps (negb x) dry (h, s, w))) = true.
Proof. intros Hp Hh Hs Hw. apply clean_is_spec; try assumption. intros n _. apply decision_is_spec_pk. exact Hp. Qed.

(* nothing tracked is ever removed by clean *)
Corollary clean_keeps_tracked ps respect dry h s w t :
  In t w -> has (t_name t) s = true -> In t (snd (snd (clean ps respect dry (h, s, w)))).
Proof.
  intros Hin Hs. unfold clean.
  destruct (respect && existsb _ (names w)); [exact Hin|]. destruct dry; [exact Hin|]. cbn [snd].
  apply filter_In. split; [exact Hin|].
  destruct (mem (t_name t) _) eqn:M; [|reflexivity].
  apply mem_In in M. apply filter_In in M as [_ M]. rewrite Hs in M. discriminate.
Qed.
