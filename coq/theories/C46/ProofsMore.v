(* C46 — further proofs: soundness of the specificity test. *)
From Coq Require Import NArith PeanoNat List Bool Lia.
From Dolt Require Import Base.Str C46.Model C46.Spec C46.Corr C46.Proofs.
Import ListNotations.
Local Open Scope N_scope.

(* ------------------------------------------------------------------ *)
(* more_specific_sound: the syntactic test implies inclusion of what is matched *)

Lemma glob_app_inv one any p1 : forall p2 n, glob one any (p1 ++ p2) n ->
  exists n1 n2, n = n1 ++ n2 /\ glob one any p1 n1 /\ glob one any p2 n2.
Proof.
  induction p1 as [|tk p1 IH]; intros p2 n H.
  - exists [], n. repeat split; [constructor | exact H].
  - cbn [app] in H. inversion H as [|c p s Hg|x p s Hx Hg|r p s Hr Hg]; subst.
    + destruct (IH _ _ Hg) as [n1 [n2 [-> [G1 G2]]]]. exists (c :: n1), n2. repeat split; [constructor; exact G1 | exact G2].
    + destruct (IH _ _ Hg) as [n1 [n2 [-> [G1 G2]]]]. exists (x :: n1), n2. repeat split; [constructor; assumption | exact G2].
    + destruct (IH _ _ Hg) as [n1 [n2 [-> [G1 G2]]]]. exists (r ++ n1), n2. rewrite app_assoc. repeat split; [constructor; assumption | exact G2].
Qed.

Lemma compile_app a b : compile (a ++ b) = compile a ++ compile b.
Proof. apply map_app. Qed.

(* whatever a newline-free pattern text matches is newline-free *)
Lemma glob_not_nl r : forallb not_nl r = true -> forall n, glob not_nl not_nl (compile r) n -> Forall (fun x => not_nl x = true) n.
Proof.
  induction r as [|c r IH]; intros Hr n H.
  - inversion H. constructor.
  - cbn [forallb] in Hr. apply andb_true_iff in Hr as [Hc Hr]. cbn [compile map] in H. fold (compile r) in H.
    unfold tok_of in H. destruct (c =? c_q).
    + inversion H; subst. constructor; [assumption | apply IH; assumption].
    + destruct ((c =? c_star) || (c =? c_pct)).
      * inversion H; subst. apply Forall_app. split; [assumption | apply IH; assumption].
      * inversion H; subst. constructor; [exact Hc | apply IH; assumption].
Qed.

Definition lits_ok (p : list tok) : Prop := Forall (fun tk => match tk with TLit c => tok_of c = TLit c | _ => True end) p.

Lemma compile_lits_ok b : lits_ok (compile b).
Proof.
  unfold lits_ok, compile. induction b as [|c b IH]; [constructor|]. cbn [map]. constructor; [|exact IH].
  unfold tok_of at 1. destruct (c =? c_q) eqn:E1; [exact I|]. destruct ((c =? c_star) || (c =? c_pct)) eqn:E2; [exact I|].
  unfold tok_of. rewrite E1, E2. reflexivity.
Qed.

Lemma specific_sound_toks pb a :
  glob not_run_wildcard not_nl pb a -> lits_ok pb -> forallb not_nl a = true ->
  forall n, glob not_nl not_nl (compile a) n -> glob not_nl not_nl pb n.
Proof.
  intros G. induction G as [|c p s G IH|x p s Hx G IH|r p s Hr G IH]; intros Hl Ha n Hn.
  - exact Hn.
  - inversion Hl as [|? ? Hc Hl']; subst. cbn [forallb] in Ha. apply andb_true_iff in Ha as [_ Ha].
    cbn [compile map] in Hn. fold (compile s) in Hn. rewrite Hc in Hn. inversion Hn; subst. constructor. apply IH; assumption.
  - inversion Hl as [|? ? _ Hl']; subst. cbn [forallb] in Ha. apply andb_true_iff in Ha as [Hxa Ha].
    cbn [compile map] in Hn. fold (compile s) in Hn. unfold tok_of in Hn. destruct (x =? c_q).
    + inversion Hn; subst. constructor; [assumption | apply IH; assumption].
    + unfold not_run_wildcard in Hx. apply negb_true_iff in Hx. rewrite Hx in Hn.
      inversion Hn; subst. constructor; [exact Hxa | apply IH; assumption].
  - inversion Hl as [|? ? _ Hl']; subst. rewrite forallb_app in Ha. apply andb_true_iff in Ha as [Har Has].
    rewrite compile_app in Hn. destruct (glob_app_inv _ _ _ _ _ Hn) as [n1 [n2 [-> [H1 H2]]]].
    constructor; [apply (glob_not_nl r Har n1 H1) | apply IH; assumption].
Qed.

(* For every pair of patterns: if [a] passes the (stated) specificity test against [b] and
   contains no newline, every table name [a] matches is matched by [b].  (With a newline in
   [a] the test can be passed without inclusion: "?" covers it in the test but not in a name.) *)
Theorem more_specific_sound a b :
  at_least_as_specific_b a b = true -> forallb not_nl a = true ->
  forall n, matches a n -> matches b n.
Proof.
  unfold at_least_as_specific_b, matches. rewrite glob_b_iff_glob. intros G Ha n Hn.
  apply (specific_sound_toks (compile b) a G (compile_lits_ok b) Ha n Hn).
Qed.

Example more_specific_newline_quirk :
  at_least_as_specific_b [10] [63] = true /\ matches_b [10] [10] = true /\ matches_b [63] [10] = false.
Proof. vm_compute. repeat split; reflexivity. Qed.
