(* C46 — the property, declaratively: what a pattern matches, which pattern wins,
   what staging-all must stage and what clean must remove.  Independent of the
   regexp / map-counting / delta-walking algorithms of the model.  Boolean forms
   are used as the executable oracle. *)
From Coq Require Import NArith List Bool.
From Dolt Require Import Base.Str C46.Model.
Import ListNotations.
Local Open Scope N_scope.

(* ---- what a pattern matches ------------------------------------------------- *)
(* [glob one any p s]: "?" stands for one character of class [one], "*" / "%" for
   any run of characters of class [any], everything else for itself. *)
Inductive glob (one any : N -> bool) : list tok -> str -> Prop :=
| g_nil : glob one any [] []
| g_lit c p s : glob one any p s -> glob one any (TLit c :: p) (c :: s)
| g_one x p s : one x = true -> glob one any p s -> glob one any (TOne :: p) (x :: s)
| g_many r p s : Forall (fun x => any x = true) r -> glob one any p s -> glob one any (TMany :: p) (r ++ s).

(* the same, executable: try every split for a run *)
Fixpoint splits (s : str) : list (str * str) :=
  ([], s) :: match s with
             | [] => []
             | x :: s' => map (fun ab => (x :: fst ab, snd ab)) (splits s')
             end.

Fixpoint glob_b (one any : N -> bool) (p : list tok) (s : str) : bool :=
  match p with
  | [] => match s with [] => true | _ => false end
  | TLit c :: p' => match s with x :: s' => (x =? c) && glob_b one any p' s' | [] => false end
  | TOne :: p' => match s with x :: s' => one x && glob_b one any p' s' | [] => false end
  | TMany :: p' => existsb (fun rs => forallb any (fst rs) && glob_b one any p' (snd rs)) (splits s)
  end.

(* a table name matches a dolt_ignore pattern; wildcards never stand for a newline *)
Definition matches_b (p n : str) : bool := glob_b not_nl not_nl (compile p) n.
Definition matches (p n : str) : Prop := glob not_nl not_nl (compile p) n.

(* [at_least_as_specific a b]: the text of [a] is an instance of [b], where a "?"
   of [b] may stand for any single character of [a] that is not itself a run
   wildcard *)
Definition not_run_wildcard (x : N) : bool := negb ((x =? c_star) || (x =? c_pct)).
Definition at_least_as_specific_b (a b : str) : bool := glob_b not_run_wildcard not_nl (compile b) a.

(* ---- which pattern wins ------------------------------------------------------
   T / F: the matching patterns that say "ignore" / "do not ignore".
   - no ignoring pattern matches: not ignored; only ignoring ones match: ignored;
   - two matching patterns that are the same up to spelling of runs ("*" vs "%",
     repeated run wildcards) and contradict each other: conflict;
   - otherwise the most specific patterns win: if every ignoring pattern is
     overridden by an at-least-as-specific non-ignoring one the table is not
     ignored, else if every non-ignoring pattern is overridden it is ignored,
     else the contradiction between equally specific patterns is a conflict. *)
Definition same_pattern_b (a b : str) : bool := beq_bytes (normalize a) (normalize b).

Definition spec_decision (ps : list pat) (n : str) : N :=
  if is_rebase n then 0 else
  let T := map fst (filter (fun pi => snd pi && matches_b (fst pi) n) ps) in
  let F := map fst (filter (fun pi => negb (snd pi) && matches_b (fst pi) n) ps) in
  if Nat.eqb (length T) 0 then 1
  else if Nat.eqb (length F) 0 then 0
  else if existsb (fun t => existsb (same_pattern_b t) F) T then 2
  else if forallb (fun t => existsb (fun f => at_least_as_specific_b f t) F) T then 1
  else if forallb (fun f => existsb (fun t => at_least_as_specific_b t f) T) F then 0
  else 2.

Definition ignored_b (ps : list pat) (n : str) : bool := spec_decision ps n =? 0.
Definition conflict_b (ps : list pat) (n : str) : bool := spec_decision ps n =? 2.

(* ---- staging everything -------------------------------------------------------
   A name is a new table when the working root has it, the staged root does not,
   and it is not the new name of a renamed staged table; dropped symmetrically. *)
Definition rename_target (s w : root) (t : tbl) : bool :=
  existsb (fun f => (t_id f =? t_id t) && negb (has (t_name f) w)) s.
Definition rename_source (s w : root) (f : tbl) : bool :=
  existsb (fun t => (t_id t =? t_id f) && negb (has (t_name t) s)) w.

Definition is_new (s w : root) (n : str) : bool :=
  match lookup n w with
  | Some t => negb (has n s) && negb (rename_target s w t)
  | None => false
  end.
Definition is_dropped (s w : root) (n : str) : bool :=
  match lookup n s with
  | Some f => negb (has n w) && negb (rename_source s w f)
  | None => false
  end.

Definition opt_tbl_eqb (a b : option tbl) : bool :=
  match a, b with
  | None, None => true
  | Some x, Some y => tbl_eqb x y
  | _, _ => false
  end.

(* what the staged root must hold for name [n] afterwards: ignored new / dropped
   tables stay as they were, every other change is staged *)
Definition expected_staged (ps : list pat) (s w : root) (n : str) : option tbl :=
  if ignored_b ps n && (is_new s w n || is_dropped s w n) then lookup n s else lookup n w.

Definition all_names (s w : root) : list str := names s ++ names w.

Definition staged_as_stated (ps : list pat) (s w s' : root) : bool :=
  forallb (fun n => opt_tbl_eqb (lookup n s') (expected_staged ps s w n)) (all_names s w)
  && forallb (fun t => mem (t_name t) (all_names s w)) s'.

Definition roots_eqb (a b : roots) : bool :=
  let '(h, s, w) := a in let '(h', s', w') := b in
  root_eqb h h' && root_eqb h' h && root_eqb s s' && root_eqb s' s && root_eqb w w' && root_eqb w' w.

Definition same_root (a b : root) : bool := root_eqb a b && root_eqb b a.

(* dolt_add('-A') / dolt_add('.') *)
Definition stage_ok (ps : list pat) (pre : roots) (err : N) (post : roots) : bool :=
  let '(h, s, w) := pre in let '(h', s', w') := post in
  if err =? 0 then
    same_root h h' && same_root w w' && staged_as_stated ps s w s'
    (* a new or dropped table with contradicting patterns must have been reported *)
    && negb (existsb (fun n => conflict_b ps n && (is_new s w n || is_dropped s w n)) (all_names s w))
  else
    (err =? 1) && roots_eqb pre post && existsb (conflict_b ps) (all_names s w).

(* dolt_commit('-A'): the same staging, then head = staged *)
Definition commit_ok (ps : list pat) (pre : roots) (err : N) (post : roots) : bool :=
  let '(h, s, w) := pre in let '(h', s', w') := post in
  if err =? 0 then
    same_root h' s' && same_root w w' && staged_as_stated ps s w s'
    && negb (existsb (fun n => conflict_b ps n && (is_new s w n || is_dropped s w n)) (all_names s w))
  else if err =? 2 then
    (* nothing to commit: what had to be staged is what head already holds *)
    roots_eqb pre post && staged_as_stated ps s w h
  else (err =? 1) && roots_eqb pre post && existsb (conflict_b ps) (all_names s w).

(* dolt_clean: removes exactly the untracked (not in the staged root) tables that
   are not ignored — all untracked ones with -x —, nothing else; nothing with
   --dry-run *)
Definition clean_expected (ps : list pat) (x : bool) (s w : root) : root :=
  filter (fun t => negb (negb (has (t_name t) s) && (x || negb (ignored_b ps (t_name t))))) w.

Definition clean_ok (ps : list pat) (x dry : bool) (pre : roots) (err : N) (post : roots) : bool :=
  let '(h, s, w) := pre in let '(h', s', w') := post in
  if err =? 0 then
    same_root h h' && same_root s s'
    && (if dry then same_root w w' else same_root w' (clean_expected ps x s w))
    && (x || negb (existsb (fun n => conflict_b ps n && negb (has n s)) (names w)))
  else (err =? 1) && negb x && roots_eqb pre post && existsb (conflict_b ps) (names w).

Definition act_ok (ps : list pat) (act : N) (pre : roots) (err : N) (post : roots) : bool :=
  if act <=? 1 then stage_ok ps pre err post
  else if act =? 2 then commit_ok ps pre err post
  else if act =? 3 then clean_ok ps false false pre err post
  else if act =? 4 then clean_ok ps true false pre err post
  else clean_ok ps false true pre err post.

(* well-formed roots: table names are distinct *)
Definition wf_root (r : root) : Prop := NoDup (names r).
