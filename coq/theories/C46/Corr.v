(* C46 — correspondence: model observation, comparison with the implementation's
   observation, and the executable statement of the property (oracle). *)
From Coq Require Import NArith List Bool.
From Dolt Require Import Base.Str C46.Model C46.Spec.
Import ListNotations.
Local Open Scope N_scope.

Inductive input :=
| IDec (ps : list pat) (n : str)                  (* IsTableNameIgnored / MatchTablePattern *)
| ISql (ps : list pat) (pre : roots) (act : N).   (* a procedure on a working set *)

Inductive obs :=
| ODec (ms : list bool) (code : N) (ct cf : list str)
| OSql (err : N) (post : roots)
| OBad.                                            (* harness error / panic *)

Definition case := (input * obs)%type.

Definition model_obs (i : input) : obs :=
  match i with
  | IDec ps n =>
    let d := is_ignored ps n in
    ODec (map (fun pi => match_table_pattern (fst pi) n) ps) (d_code d) (d_ct d) (d_cf d)
  | ISql ps pre act => let '(e, post) := run_act ps act pre in OSql e post
  end.

Fixpoint list_eqb {A} (eq : A -> A -> bool) (a b : list A) : bool :=
  match a, b with
  | [], [] => true
  | x :: a', y :: b' => eq x y && list_eqb eq a' b'
  | _, _ => false
  end.

Definition obs_eqb (a b : obs) : bool :=
  match a, b with
  | ODec m c t f, ODec m' c' t' f' =>
    list_eqb Bool.eqb m m' && (c =? c') && list_eqb beq_bytes t t' && list_eqb beq_bytes f f'
  | OSql e p, OSql e' p' => (e =? e') && roots_eqb p p'
  | _, _ => false
  end.

(* The property on what the implementation returned. *)
Definition oracle (i : input) (o : obs) : bool :=
  match i, o with
  | IDec ps n, ODec ms code _ _ =>
    list_eqb Bool.eqb ms (map (fun pi => matches_b (fst pi) n) ps)   (* each pattern matches what the wildcard rules say *)
    && (code =? spec_decision ps n)                                  (* most specific wins / conflict *)
  | ISql ps pre act, OSql err post => act_ok ps act pre err post
  | _, _ => false
  end.

Definition check_case (c : case) : N :=
  (if obs_eqb (model_obs (fst c)) (snd c) then 0 else 1)
  + (if oracle (fst c) (snd c) then 0 else 2).
