(* C01 — insertion sorts used for canonical result order: a sorted permutation is unique. *)
From Coq Require Import NArith Arith List Bool Lia Sorting.Permutation Sorting.Sorted.
From Dolt Require Import Base.Str Gen.C01Consts C01.Model C01.Spec.
Import ListNotations.
Local Open Scope N_scope.

Section ISort.
  Variables (A K : Type) (key : A -> K) (ltb : K -> K -> bool).
  Hypothesis ltb_asym : forall a b, ltb a b = true -> ltb b a = false.
  Hypothesis ltb_tri : forall a b, ltb a b = false -> ltb b a = false -> a = b.
  Hypothesis le_trans : forall a b c, ltb b a = false -> ltb c b = false -> ltb c a = false.

  Fixpoint ins (x : A) (l : list A) : list A :=
    match l with [] => [x] | y :: t => if ltb (key y) (key x) then y :: ins x t else x :: l end.
  Definition isort (l : list A) : list A := fold_right ins [] l.
  Definition kle (x y : A) : Prop := ltb (key y) (key x) = false.

  Lemma ins_perm x l : Permutation (ins x l) (x :: l).
  Proof.
    induction l as [|y l IH]; cbn [ins]; [reflexivity|].
    destruct (ltb (key y) (key x)); [|reflexivity]. rewrite IH. apply perm_swap.
  Qed.
  Lemma isort_perm l : Permutation (isort l) l.
  Proof. induction l as [|x l IH]; cbn [isort fold_right]; [reflexivity|]. rewrite ins_perm. constructor. exact IH. Qed.

  Lemma ins_sorted x l : StronglySorted kle l -> StronglySorted kle (ins x l).
  Proof.
    intros S. induction S as [|y l S IH Hy]; cbn [ins].
    - constructor; constructor.
    - destruct (ltb (key y) (key x)) eqn:E.
      + constructor; [exact IH|]. rewrite Forall_forall. intros z Hz.
        apply (Permutation_in _ (ins_perm x l)) in Hz. destruct Hz as [<- | Hz].
        * unfold kle. apply ltb_asym. exact E.
        * rewrite Forall_forall in Hy. apply Hy. exact Hz.
      + constructor; [constructor; assumption|]. constructor; [exact E|].
        rewrite Forall_forall in *. intros z Hz. specialize (Hy z Hz). unfold kle in *.
        exact (le_trans (key x) (key y) (key z) E Hy).
  Qed.
  Lemma isort_sorted l : StronglySorted kle (isort l).
  Proof. induction l as [|x l IH]; cbn [isort fold_right]; [constructor | apply ins_sorted; exact IH]. Qed.

  Lemma sorted_perm_unique : forall l1 l2,
    (forall x y, In x l1 -> In y l1 -> key x = key y -> x = y) ->
    Permutation l1 l2 -> StronglySorted kle l1 -> StronglySorted kle l2 -> l1 = l2.
  Proof.
    induction l1 as [|x t1 IH]; intros l2 U P S1 S2.
    - apply Permutation_nil in P. subst. reflexivity.
    - destruct l2 as [|y t2]; [apply Permutation_sym, Permutation_nil in P; discriminate|].
      inversion S1 as [|? ? S1' H1]; subst. inversion S2 as [|? ? S2' H2]; subst.
      rewrite Forall_forall in H1, H2.
      assert (Exy : x = y).
      { assert (Iy : In y (x :: t1)) by (apply (Permutation_in _ (Permutation_sym P)); left; reflexivity).
        assert (Ix : In x (y :: t2)) by (apply (Permutation_in _ P); left; reflexivity).
        destruct Iy as [E | Iy]; [exact E|]. destruct Ix as [E | Ix]; [symmetry; exact E|].
        apply U; [left; reflexivity | right; exact Iy|].
        apply ltb_tri; [exact (H2 x Ix) | exact (H1 y Iy)]. }
      subst y. f_equal. apply IH; try assumption.
      + intros a b Ha Hb. apply U; right; assumption.
      + exact (Permutation_cons_inv P).
  Qed.

  Lemma isort_perm_eq l1 l2 :
    (forall x y, In x l1 -> In y l1 -> key x = key y -> x = y) ->
    Permutation l1 l2 -> isort l1 = isort l2.
  Proof.
    intros U P. apply sorted_perm_unique; try apply isort_sorted.
    - intros x y Hx Hy. apply U; apply (Permutation_in _ (isort_perm l1)); assumption.
    - rewrite isort_perm, P. symmetry. apply isort_perm.
  Qed.

  (* an already sorted list is a fixed point *)
  Lemma isort_sorted_id l :
    (forall x y, In x l -> In y l -> key x = key y -> x = y) -> StronglySorted kle l -> isort l = l.
  Proof.
    intros U S. apply sorted_perm_unique; [| apply isort_perm | apply isort_sorted | exact S].
    intros x y Hx Hy. apply U; apply (Permutation_in _ (isort_perm l)); assumption.
  Qed.
End ISort.

(* ---- the address order ---- *)
Lemma addr_ltb_iff (a b : addr) :
  addr_ltb a b = true <-> fst a < fst b \/ (fst a = fst b /\ snd a < snd b).
Proof.
  unfold addr_ltb. rewrite orb_true_iff, andb_true_iff, !N.ltb_lt, N.eqb_eq. reflexivity.
Qed.
Lemma addr_ltb_false (a b : addr) :
  addr_ltb a b = false <-> fst b < fst a \/ (fst a = fst b /\ snd b <= snd a).
Proof.
  destruct (addr_ltb a b) eqn:E.
  - apply addr_ltb_iff in E. split; [discriminate | lia].
  - split; [intros _ | reflexivity].
    destruct (N.lt_trichotomy (fst a) (fst b)) as [H | [H | H]].
    + assert (addr_ltb a b = true) by (apply addr_ltb_iff; left; exact H). congruence.
    + right. split; [exact H|]. destruct (N.le_gt_cases (snd b) (snd a)) as [G | G]; [exact G|].
      assert (addr_ltb a b = true) by (apply addr_ltb_iff; right; split; assumption). congruence.
    + left. exact H.
Qed.
Lemma addr_ltb_asym a b : addr_ltb a b = true -> addr_ltb b a = false.
Proof. rewrite addr_ltb_iff, addr_ltb_false. lia. Qed.
Lemma addr_ltb_tri a b : addr_ltb a b = false -> addr_ltb b a = false -> a = b.
Proof. rewrite !addr_ltb_false. destruct a, b; cbn. intros H1 H2. f_equal; lia. Qed.
Lemma addr_le_trans a b c : addr_ltb b a = false -> addr_ltb c b = false -> addr_ltb c a = false.
Proof. rewrite !addr_ltb_false. lia. Qed.

Lemma N_ltb_asym a b : N.ltb a b = true -> N.ltb b a = false.
Proof. rewrite N.ltb_lt, N.ltb_ge. lia. Qed.
Lemma N_ltb_tri a b : N.ltb a b = false -> N.ltb b a = false -> a = b.
Proof. rewrite !N.ltb_ge. lia. Qed.
Lemma N_le_trans a b c : N.ltb b a = false -> N.ltb c b = false -> N.ltb c a = false.
Proof. rewrite !N.ltb_ge. lia. Qed.

(* the model's sorts are instances *)
Lemma insert_chunk_ins x l : insert_chunk x l = ins _ _ (@fst addr bytes) addr_ltb x l.
Proof. induction l as [|y l IH]; cbn; [reflexivity | rewrite IH; reflexivity]. Qed.
Lemma sort_chunks_isort l : sort_chunks l = isort _ _ (@fst addr bytes) addr_ltb l.
Proof. induction l as [|x l IH]; cbn; [reflexivity|]. unfold sort_chunks in IH. rewrite IH, insert_chunk_ins. reflexivity. Qed.
Lemma insert_addr_ins x l : insert_addr x l = ins _ _ (fun a : addr => a) addr_ltb x l.
Proof. induction l as [|y l IH]; cbn; [reflexivity | rewrite IH; reflexivity]. Qed.
Lemma sort_addrs_isort l : sort_addrs l = isort _ _ (fun a : addr => a) addr_ltb l.
Proof. induction l as [|x l IH]; cbn; [reflexivity|]. unfold sort_addrs in IH. rewrite IH, insert_addr_ins. reflexivity. Qed.
Lemma insert_off_ins x l : insert_off x l = ins _ _ (fun o : offrec => fst (snd o)) N.ltb x l.
Proof. induction l as [|y l IH]; cbn; [reflexivity | rewrite IH; reflexivity]. Qed.
Lemma sort_offs_isort l : sort_offs l = isort _ _ (fun o : offrec => fst (snd o)) N.ltb l.
Proof. induction l as [|x l IH]; cbn; [reflexivity|]. unfold sort_offs in IH. rewrite IH, insert_off_ins. reflexivity. Qed.

Lemma sort_addrs_perm_eq l1 l2 : Permutation l1 l2 -> sort_addrs l1 = sort_addrs l2.
Proof.
  intros P. rewrite !sort_addrs_isort.
  apply (isort_perm_eq _ _ _ _ addr_ltb_asym addr_ltb_tri addr_le_trans); [|exact P]. intros x y _ _ E. exact E.
Qed.
Lemma sort_chunks_perm_eq l1 l2 :
  (forall x y, In x l1 -> In y l1 -> fst x = fst y -> x = y) -> Permutation l1 l2 -> sort_chunks l1 = sort_chunks l2.
Proof.
  intros U P. rewrite !sort_chunks_isort.
  apply (isort_perm_eq _ _ _ _ addr_ltb_asym addr_ltb_tri addr_le_trans); assumption.
Qed.
