(* C01 — proofs. *)
From Coq Require Import NArith Arith List Bool Lia Sorting.Permutation Sorting.Sorted.
From Dolt Require Import Base.Str Gen.C01Consts C01.Model C01.Spec C01.Corr.
Import ListNotations.
Local Open Scope N_scope.

(* ------------------------------------------------------------------ *)
(* 0. The regenerated layout functions say what the format comment says. *)
Lemma layout_pinned (n : N) :
  lengths_offset n = n * prefix_tuple_size
  /\ suffixes_offset n = n * prefix_tuple_size + n * length_size
  /\ index_size n = n * prefix_tuple_size + n * length_size + n * hash_suffix_len.
Proof. unfold lengths_offset, suffixes_offset, index_size, prefix_tuple_size, length_size, hash_suffix_len. lia. Qed.

Lemma sizes_pinned :
  prefix_tuple_size = hash_prefix_len + ordinal_size /\ footer_size = uint32_size + uint64_size + magic_number_size
  /\ nlen magic_number = magic_number_size /\ checksum_size = uint32_size /\ length_size = uint32_size
  /\ ordinal_size = uint32_size /\ hash_byte_len = hash_prefix_len + hash_suffix_len.
Proof. vm_compute. repeat split; reflexivity. Qed.

(* ------------------------------------------------------------------ *)
(* 1. The inlined binary search returns the lower bound, from any valid
      starting point (findPrefix starts at 0, hasMany/findOffsets at the
      carried filterIdx). *)
Definition mono (pf : N -> N) (n : N) : Prop := forall i j, i <= j -> j < n -> pf i <= pf j.
Definition is_lb (pf : N -> N) (n target r : N) : Prop :=
  r <= n /\ (forall i, i < r -> pf i < target) /\ (forall i, r <= i -> i < n -> target <= pf i).

Lemma is_lb_unique pf n t r1 r2 : is_lb pf n t r1 -> is_lb pf n t r2 -> r1 = r2.
Proof.
  intros (L1 & A1 & B1) (L2 & A2 & B2).
  destruct (N.lt_trichotomy r1 r2) as [H | [H | H]]; [| exact H |].
  - specialize (A2 r1 H). specialize (B1 r1 (N.le_refl _) ltac:(lia)). lia.
  - specialize (A1 r2 H). specialize (B2 r2 (N.le_refl _) ltac:(lia)). lia.
Qed.

Lemma bsearch_lb pf n target :
  mono pf n ->
  forall fuel idx j,
    idx <= j -> j <= n ->
    (forall i, i < idx -> pf i < target) ->
    (forall i, j <= i -> i < n -> target <= pf i) ->
    (N.to_nat (j - idx) < fuel)%nat ->
    is_lb pf n target (bsearch fuel pf target idx j) /\ idx <= bsearch fuel pf target idx j.
Proof.
  intros M. induction fuel as [|f IH]; intros idx j Hij Hjn Hlo Hhi Hf; [exfalso; lia|].
  cbn [bsearch]. destruct (idx <? j) eqn:E.
  - apply N.ltb_lt in E.
    assert (Hd : (j - idx) / 2 < j - idx) by (apply N.div_lt; lia).
    remember ((j - idx) / 2) as d eqn:Ed. clear Ed.
    set (h := idx + d).
    assert (Hh1 : idx <= h) by (unfold h; lia).
    assert (Hh2 : h < j) by (unfold h; lia).
    destruct (pf h <? target) eqn:C.
    + apply N.ltb_lt in C.
      destruct (IH (h + 1) j) as [L G]; try lia.
      * intros i Hi. assert (i <= h) by lia. pose proof (M i h H ltac:(lia)). lia.
      * exact Hhi.
      * split; [exact L | lia].
    + apply N.ltb_ge in C.
      destruct (IH idx h) as [L G]; try lia.
      * exact Hlo.
      * intros i Hi Hin. pose proof (M h i Hi Hin). lia.
      * split; [exact L | exact G].
  - apply N.ltb_ge in E. assert (idx = j) by lia. subst j.
    split; [|lia]. repeat split; [lia | exact Hlo | exact Hhi].
Qed.

(* ------------------------------------------------------------------ *)
(* 2. Small list facts *)
Lemma nth_firstn_lt {A} (l : list A) (k m : nat) d : (k < m)%nat -> nth k (firstn m l) d = nth k l d.
Proof.
  revert k m. induction l as [|x l IH]; intros k m H.
  - destruct m; destruct k; reflexivity.
  - destruct m; [lia|]. destruct k; [reflexivity|]. cbn. apply IH. lia.
Qed.
Lemma nth_skipn_add {A} (l : list A) (k m : nat) d : nth k (skipn m l) d = nth (m + k) l d.
Proof.
  revert m. induction l as [|x l IH]; intros m.
  - destruct m; destruct k; reflexivity.
  - destruct m; [reflexivity|]. cbn. apply IH.
Qed.

Lemma sum_firstn_S (l : list N) (k : nat) :
  (k < length l)%nat -> sum_N (firstn (S k) l) = sum_N (firstn k l) + nth k l 0.
Proof.
  revert k. induction l as [|x l IH]; intros k H; [cbn in H; lia|].
  cbn [length] in H. destruct k.
  - cbn. lia.
  - rewrite (firstn_cons (S k)), (firstn_cons k). cbn [sum_N nth]. rewrite (IH k) by lia. lia.
Qed.

Lemma nth_cumsum (l : list N) : forall acc k,
  (k < length l)%nat -> nth k (cumsum acc l) 0 = acc + sum_N (firstn (S k) l).
Proof.
  induction l as [|x l IH]; intros acc k H; [cbn in H; lia|].
  cbn [length] in H. destruct k.
  - cbn. lia.
  - cbn [cumsum nth]. rewrite IH by lia. rewrite (firstn_cons (S k)). cbn [sum_N]. lia.
Qed.
Lemma length_cumsum (l : list N) acc : length (cumsum acc l) = length l.
Proof. revert acc. induction l as [|x l IH]; intros acc; cbn; [reflexivity | rewrite IH; reflexivity]. Qed.

(* ------------------------------------------------------------------ *)
(* 3. The tuples of a written index *)
Lemma tuples_from_spec (rs : list rec) : forall i0 p o,
  In (p, o) (tuples_from i0 rs) <->
  exists k, (k < length rs)%nat /\ o = i0 + N.of_nat k /\ p = a_prefix (r_addr (nth k rs dummy_rec)).
Proof.
  induction rs as [|r rs IH]; intros i0 p o; cbn [tuples_from In length].
  - split; [tauto | intros (k & H & _); lia].
  - rewrite IH. split.
    + intros [H | (k & Hk & Ho & Hp)].
      * inversion H; subst. exists O. repeat split; [lia | lia].
      * exists (S k). repeat split; [lia | lia | exact Hp].
    + intros (k & Hk & Ho & Hp). destruct k.
      * left. cbn in Hp. subst. f_equal. lia.
      * right. exists k. repeat split; [lia | lia | exact Hp].
Qed.

Lemma length_tuples_from rs i0 : length (tuples_from i0 rs) = length rs.
Proof. revert i0. induction rs as [|r rs IH]; intros i0; cbn; [reflexivity | rewrite IH; reflexivity]. Qed.

Lemma sorted_nth_mono (l : list tuple) : StronglySorted prefix_le l ->
  forall i j, (i <= j)%nat -> (j < length l)%nat -> fst (nth i l (0, 0)) <= fst (nth j l (0, 0)).
Proof.
  intros S. induction S as [|x l S IH Hx]; intros i j Hij Hj; [cbn in Hj; lia|].
  cbn [length] in Hj. destruct j; [assert (i = 0)%nat by lia; subst; lia|].
  destruct i.
  - cbn [nth]. rewrite Forall_forall in Hx.
    apply (Hx (nth j l (0, 0))). apply nth_In. lia.
  - cbn [nth]. apply IH; lia.
Qed.

Section Written.
  Variables (ts : list tuple) (rs : list rec).
  Hypothesis Hv : valid_tuples ts rs.
  Let ix := build_pindex ts rs.

  Lemma ts_length : length ts = length rs.
  Proof. destruct Hv as [P _]. rewrite (Permutation_length P). apply length_tuples_from. Qed.

  Lemma ts_in p o : In (p, o) ts <->
    exists k, (k < length rs)%nat /\ o = N.of_nat k /\ p = a_prefix (r_addr (nth k rs dummy_rec)).
  Proof.
    destruct Hv as [P _]. split.
    - intros H. apply (Permutation_in _ P) in H. apply tuples_from_spec in H.
      destruct H as (k & ? & ? & ?). exists k. repeat split; [assumption | lia | assumption].
    - intros (k & ? & ? & ?). apply (Permutation_in _ (Permutation_sym P)). apply tuples_from_spec.
      exists k. repeat split; [assumption | lia | assumption].
  Qed.

  Lemma ix_count : pi_count ix = nlen rs. Proof. reflexivity. Qed.
  Lemma ix_tuples : pi_tuples ix = ts. Proof. reflexivity. Qed.
  Lemma ix_suffixes : pi_suffixes ix = map (fun r => a_suffix (r_addr r)) rs. Proof. reflexivity. Qed.

  Lemma suffix_nth (k : nat) : (k < length rs)%nat ->
    nth_N (pi_suffixes ix) (N.of_nat k) 0 = a_suffix (r_addr (nth k rs dummy_rec)).
  Proof.
    intros H. unfold nth_N. rewrite Nat2N.id, ix_suffixes.
    rewrite (nth_indep _ 0 (a_suffix (r_addr dummy_rec))) by (rewrite map_length; exact H).
    apply (map_nth (fun r => a_suffix (r_addr r))).
  Qed.

  Lemma prefix_mono : mono (prefix_at ix) (pi_count ix).
  Proof.
    intros i j Hij Hj. unfold prefix_at, nth_N. rewrite ix_tuples.
    rewrite ix_count in Hj. unfold nlen in Hj. rewrite <- ts_length in Hj.
    apply sorted_nth_mono; [exact (proj2 Hv) | lia | lia].
  Qed.

  (* the run of equal prefixes starting at the lower bound *)
  Lemma scan_suffix_some l sfx h o :
    scan_suffix l sfx h = Some o -> exists p, In (p, o) l /\ p = a_prefix h /\ nth_N sfx o 0 = a_suffix h.
  Proof.
    induction l as [|[p o'] l IH]; cbn [scan_suffix]; [discriminate|].
    destruct (p =? a_prefix h) eqn:E; [|discriminate].
    destruct (nth_N sfx o' 0 =? a_suffix h) eqn:F.
    - intros H; inversion H; subst. apply N.eqb_eq in E, F. exists p. repeat split; [left; reflexivity | exact E | exact F].
    - intros H. destruct (IH H) as (q & I & ? & ?). exists q. repeat split; [right; exact I | assumption | assumption].
  Qed.

  Lemma scan_suffix_none l sfx h :
    StronglySorted prefix_le l -> (forall t, In t l -> a_prefix h <= fst t) ->
    scan_suffix l sfx h = None ->
    forall o, In (a_prefix h, o) l -> nth_N sfx o 0 <> a_suffix h.
  Proof.
    intros S. induction S as [|[p o'] l S IH Hx]; intros Hge H o Hin; [destruct Hin|].
    cbn [scan_suffix] in H. destruct (p =? a_prefix h) eqn:E.
    - destruct (nth_N sfx o' 0 =? a_suffix h) eqn:F; [discriminate|].
      destruct Hin as [Hin | Hin].
      + inversion Hin; subst. apply N.eqb_neq in F. exact F.
      + apply IH; [intros t Ht; apply Hge; right; exact Ht | exact H | exact Hin].
    - apply N.eqb_neq in E. destruct Hin as [Hin | Hin]; [inversion Hin; subst; congruence|].
      rewrite Forall_forall in Hx. specialize (Hx _ Hin). unfold prefix_le in Hx. cbn [fst] in Hx.
      specialize (Hge (p, o') (or_introl eq_refl)). cbn [fst] in Hge. lia.
  Qed.

  Lemma skipn_sorted (l : list tuple) k : StronglySorted prefix_le l -> StronglySorted prefix_le (skipn k l).
  Proof.
    revert k. induction l as [|x l IH]; intros k S; destruct k; cbn; try assumption.
    apply IH. inversion S; assumption.
  Qed.

  Lemma in_skipn_nth {A} (l : list A) k x d : In x (skipn k l) -> exists i, (k <= i < length l)%nat /\ nth i l d = x.
  Proof.
    revert k. induction l as [|y l IH]; intros k H.
    - destruct k; destruct H.
    - destruct k.
      + cbn [skipn] in H. apply (In_nth _ _ d) in H. destruct H as (i & Hi & Hn). exists i. split; [lia | exact Hn].
      + cbn [skipn] in H. destruct (IH _ H) as (i & Hi & Hn). exists (S i). split; [cbn [length]; lia | exact Hn].
  Qed.
  Lemma nth_in_skipn {A} (l : list A) k i d : (k <= i < length l)%nat -> In (nth i l d) (skipn k l).
  Proof.
    revert k i. induction l as [|y l IH]; intros k i H; [cbn in H; lia|].
    destruct k.
    - cbn [skipn]. apply nth_In. lia.
    - destruct i; [lia|]. cbn [skipn nth]. apply IH. cbn [length] in H. lia.
  Qed.

  (* address present in the record list *)
  Definition present (h : addr) : Prop := exists k, (k < length rs)%nat /\ r_addr (nth k rs dummy_rec) = h.

  Lemma addr_eq (a b : addr) : a_prefix a = a_prefix b -> a_suffix a = a_suffix b -> a = b.
  Proof. destruct a, b; cbn; intros; subst; reflexivity. Qed.

  (* the scan started at any position not beyond the lower bound of h's prefix
     finds h iff h is present (this is what lookupOrdinal, hasMany and
     findOffsets all rely on) *)
  Lemma scan_at_spec (h : addr) (start : N) :
    is_lb (prefix_at ix) (pi_count ix) (a_prefix h) start ->
    match scan_at ix start h with
    | Some o => exists k, (k < length rs)%nat /\ o = N.of_nat k /\ r_addr (nth k rs dummy_rec) = h
    | None => ~ present h
    end.
  Proof.
    intros (L & A & B). unfold scan_at. rewrite ix_tuples.
    destruct (scan_suffix (skipn (N.to_nat start) ts) (pi_suffixes ix) h) as [o|] eqn:E.
    - apply scan_suffix_some in E. destruct E as (p & I & Hp & Hs).
      assert (I' : In (p, o) ts).
      { destruct (in_skipn_nth _ _ _ (0, 0) I) as (i & Hi & Hn). rewrite <- Hn. apply nth_In. lia. }
      apply ts_in in I'. destruct I' as (k & Hk & Ho & Hpk). exists k. repeat split; [exact Hk | exact Ho |].
      apply addr_eq; [congruence|]. rewrite <- (suffix_nth k Hk), <- Ho. exact Hs.
    - intros (k & Hk & Hh).
      assert (I : In (a_prefix h, N.of_nat k) ts) by (apply ts_in; exists k; repeat split; [exact Hk | congruence]).
      destruct (In_nth _ _ (0, 0) I) as (i & Hi & Hn).
      (* position i is at or after start *)
      assert (Hge : (N.to_nat start <= i)%nat).
      { destruct (Nat.le_gt_cases (N.to_nat start) i) as [G | G]; [exact G|].
        specialize (A (N.of_nat i) ltac:(lia)). unfold prefix_at, nth_N in A. rewrite Nat2N.id, ix_tuples in A. cbv [tuple] in *. rewrite Hn in A. cbn in A. lia. }
      assert (I2 : In (a_prefix h, N.of_nat k) (skipn (N.to_nat start) ts)).
      { rewrite <- Hn. apply nth_in_skipn. lia. }
      refine (scan_suffix_none _ _ h _ _ E _ I2 _).
      + apply skipn_sorted. exact (proj2 Hv).
      + intros t Ht. destruct (in_skipn_nth _ _ _ (0, 0) Ht) as (i' & Hi' & Hn').
        specialize (B (N.of_nat i') ltac:(lia)). unfold prefix_at, nth_N in B. rewrite Nat2N.id, ix_tuples in B. cbv [tuple] in *. rewrite Hn' in B.
        apply B. rewrite ix_count. unfold nlen. rewrite <- ts_length. cbv [tuple]. lia.
      + rewrite (suffix_nth k Hk). rewrite Hh. reflexivity.
  Qed.

  Lemma find_prefix_from_lb (p from : N) :
    from <= pi_count ix -> (forall i, i < from -> prefix_at ix i < p) ->
    is_lb (prefix_at ix) (pi_count ix) p (find_prefix_from ix p from) /\ from <= find_prefix_from ix p from.
  Proof.
    intros Hf Hlo. unfold find_prefix_from. apply bsearch_lb.
    - exact prefix_mono.
    - exact Hf.
    - lia.
    - exact Hlo.
    - intros i H1 H2. lia.
    - unfold search_fuel. rewrite ix_tuples, ts_length, ix_count. unfold nlen. lia.
  Qed.

  Lemma find_prefix_lb p : is_lb (prefix_at ix) (pi_count ix) p (find_prefix ix p).
  Proof. unfold find_prefix. apply find_prefix_from_lb; [lia | intros i H; lia]. Qed.

  (* offsets *)
  Lemma offset_at_spec (k : nat) : (k < length rs)%nat ->
    offset_at ix (N.of_nat k) = sum_N (map rec_len (firstn (S k) rs)).
  Proof.
    intros Hk. unfold offset_at. rewrite ix_count. cbn [ix build_pindex mk_pindex pi_off1 pi_off2].
    set (c1 := nlen rs - nlen rs / 2).
    set (offs := cumsum 0 (map rec_len rs)).
    assert (Hn : nth k offs 0 = sum_N (map rec_len (firstn (S k) rs))).
    { unfold offs. rewrite nth_cumsum by (rewrite map_length; exact Hk). rewrite <- firstn_map. lia. }
    destruct (N.of_nat k <? c1) eqn:E.
    - apply N.ltb_lt in E. unfold nth_N. rewrite Nat2N.id. rewrite nth_firstn_lt by lia. exact Hn.
    - apply N.ltb_ge in E. unfold nth_N. rewrite nth_skipn_add.
      replace (N.to_nat c1 + N.to_nat (N.of_nat k - c1))%nat with k by lia. exact Hn.
  Qed.

  Lemma index_entry_spec (k : nat) : (k < length rs)%nat ->
    get_index_entry ix (N.of_nat k) = (offset_of rs k, len_of rs k).
  Proof.
    intros Hk. unfold get_index_entry, offset_of, len_of.
    assert (Hprev : (if N.of_nat k =? 0 then 0 else offset_at ix (N.of_nat k - 1)) = sum_N (map rec_len (firstn k rs))).
    { destruct k; [reflexivity|]. replace (N.of_nat (S k) =? 0) with false by (symmetry; apply N.eqb_neq; lia).
      replace (N.of_nat (S k) - 1) with (N.of_nat k) by lia. apply offset_at_spec. lia. }
    rewrite Hprev, (offset_at_spec k Hk). f_equal.
    rewrite <- !firstn_map. rewrite sum_firstn_S by (rewrite map_length; exact Hk).
    rewrite (nth_indep _ 0 (rec_len dummy_rec)) by (rewrite map_length; exact Hk).
    rewrite (map_nth rec_len). lia.
  Qed.
End Written.

(* ------------------------------------------------------------------ *)
(* 4. lookup on a written index *)
Lemma addr_eqb_spec (a b : addr) : addr_eqb a b = true <-> a = b.
Proof.
  unfold addr_eqb. rewrite andb_true_iff, !N.eqb_eq. destruct a, b; cbn. split.
  - intros [-> ->]. reflexivity.
  - intros H. inversion H. split; reflexivity.
Qed.

Lemma index_of_addr_some rs h : forall i, index_of_addr rs h = Some i ->
  (i < length rs)%nat /\ r_addr (nth i rs dummy_rec) = h.
Proof.
  induction rs as [|r rs IH]; intros i H; [discriminate|].
  cbn [index_of_addr] in H. destruct (addr_eqb (r_addr r) h) eqn:E.
  - inversion H; subst. apply addr_eqb_spec in E. split; [cbn; lia | exact E].
  - destruct (index_of_addr rs h) as [j|]; [|discriminate]. inversion H; subst.
    destruct (IH j eq_refl) as [L A]. split; [cbn; lia | exact A].
Qed.
Lemma index_of_addr_none rs h : index_of_addr rs h = None ->
  forall k, (k < length rs)%nat -> r_addr (nth k rs dummy_rec) <> h.
Proof.
  induction rs as [|r rs IH]; intros H k Hk; [cbn in Hk; lia|].
  cbn [index_of_addr] in H. destruct (addr_eqb (r_addr r) h) eqn:E; [discriminate|].
  destruct (index_of_addr rs h) eqn:F; [discriminate|].
  destruct k.
  - cbn. intros C. apply addr_eqb_spec in C. congruence.
  - cbn. apply IH; [reflexivity | cbn in Hk; lia].
Qed.

Lemma in_table_iff rs h : in_table rs h = true <-> exists k, (k < length rs)%nat /\ r_addr (nth k rs dummy_rec) = h.
Proof.
  unfold in_table. destruct (index_of_addr rs h) as [i|] eqn:E.
  - split; [intros _; exists i; apply index_of_addr_some; exact E | reflexivity].
  - split; [discriminate | intros (k & Hk & A); exfalso; exact (index_of_addr_none rs h E k Hk A)].
Qed.

Lemma distinct_index rs h i k : distinct_addrs rs -> index_of_addr rs h = Some i ->
  (k < length rs)%nat -> r_addr (nth k rs dummy_rec) = h -> k = i.
Proof.
  intros D E Hk A. destruct (index_of_addr_some rs h i E) as [Hi B].
  unfold distinct_addrs, addrs_of in D. rewrite (NoDup_nth (map r_addr rs) (r_addr dummy_rec)) in D.
  apply D; rewrite ?map_length; try assumption.
  rewrite !(map_nth r_addr). congruence.
Qed.

(* General form (no distinctness: conjoined tables may hold an address twice):
   lookup returns the (offset, length) of SOME record stored under h, and
   nothing exactly when no record is stored under h. *)
Theorem lookup_any ts rs h :
  valid_tuples ts rs ->
  match lookup (build_pindex ts rs) h with
  | Some e => exists k, (k < length rs)%nat /\ r_addr (nth k rs dummy_rec) = h /\ e = (offset_of rs k, len_of rs k)
  | None => in_table rs h = false
  end.
Proof.
  intros Hv. unfold lookup, lookup_ordinal.
  pose proof (scan_at_spec ts rs Hv h _ (find_prefix_lb ts rs Hv (a_prefix h))) as S.
  destruct (scan_at (build_pindex ts rs) (find_prefix (build_pindex ts rs) (a_prefix h)) h) as [o|].
  - destruct S as (k & Hk & Ho & A). subst o.
    replace (N.of_nat k =? pi_count (build_pindex ts rs)) with false
      by (symmetry; apply N.eqb_neq; cbn; unfold nlen; lia).
    exists k. repeat split; [exact Hk | exact A | apply index_entry_spec; exact Hk].
  - rewrite N.eqb_refl. destruct (in_table rs h) eqn:E; [|reflexivity].
    exfalso. apply S. apply in_table_iff. exact E.
Qed.

(* Headline: equal prefixes are allowed; the index may be any prefix-sorted
   permutation (whatever the unstable sort produced). *)
Theorem lookup_write_index ts rs h :
  valid_tuples ts rs -> distinct_addrs rs ->
  lookup (build_pindex ts rs) h = lookup_spec rs h.
Proof.
  intros Hv D. pose proof (lookup_any ts rs h Hv) as L. unfold lookup_spec.
  destruct (lookup (build_pindex ts rs) h) as [e|].
  - destruct L as (k & Hk & A & ->).
    destruct (index_of_addr rs h) as [i|] eqn:E.
    + rewrite (distinct_index rs h i k D E Hk A). reflexivity.
    + exfalso. exact (index_of_addr_none rs h E k Hk A).
  - unfold in_table in L. destruct (index_of_addr rs h); [discriminate | reflexivity].
Qed.

(* the model's own (stable) sort is one of the valid outcomes *)
Lemma insert_tuple_perm x l : Permutation (insert_tuple x l) (x :: l).
Proof.
  induction l as [|y l IH]; cbn [insert_tuple]; [reflexivity|].
  destruct (fst y <? fst x); [|reflexivity].
  rewrite IH. apply perm_swap.
Qed.
Lemma insert_tuple_sorted x l : StronglySorted prefix_le l -> StronglySorted prefix_le (insert_tuple x l).
Proof.
  intros S. induction S as [|y l S IH Hy]; cbn [insert_tuple].
  - constructor; constructor.
  - destruct (fst y <? fst x) eqn:E.
    + apply N.ltb_lt in E. constructor; [exact IH|].
      rewrite Forall_forall. intros z Hz. apply (Permutation_in _ (insert_tuple_perm x l)) in Hz.
      destruct Hz as [<- | Hz]; [unfold prefix_le; lia | rewrite Forall_forall in Hy; apply Hy; exact Hz].
    + apply N.ltb_ge in E. constructor; [constructor; assumption|].
      constructor; [unfold prefix_le; lia|].
      rewrite Forall_forall in *. intros z Hz. specialize (Hy z Hz). unfold prefix_le in *. lia.
Qed.
Lemma sort_tuples_valid rs : valid_tuples (sort_tuples (tuples_from 0 rs)) rs.
Proof.
  unfold valid_tuples, sort_tuples. generalize (tuples_from 0 rs). intros l. induction l as [|x l [P S]]; cbn [fold_right].
  - split; constructor.
  - split; [rewrite insert_tuple_perm; constructor; exact P | apply insert_tuple_sorted; exact S].
Qed.

(* ------------------------------------------------------------------ *)
(* 5. hasMany / findOffsets: the carried two-pointer search *)
Section HasMany.
  Variables (ts : list tuple) (rs : list rec).
  Hypothesis Hv : valid_tuples ts rs.
  Let ix := build_pindex ts rs.

  Lemma present_prefix h : in_table rs h = true ->
    exists i, i < pi_count ix /\ prefix_at ix i = a_prefix h.
  Proof.
    intros H. apply in_table_iff in H. destruct H as (k & Hk & A).
    assert (I : In (a_prefix h, N.of_nat k) ts) by (apply (ts_in ts rs Hv); exists k; repeat split; [exact Hk | congruence]).
    destruct (In_nth _ _ (0, 0) I) as (i & Hi & Hn). exists (N.of_nat i). split.
    - cbn. unfold nlen. rewrite <- (ts_length ts rs Hv). cbv [tuple] in *. lia.
    - unfold prefix_at, nth_N. rewrite Nat2N.id. cbn [ix build_pindex mk_pindex pi_tuples]. cbv [tuple] in *. rewrite Hn. reflexivity.
  Qed.

  Lemma lb_beyond_absent p start h : is_lb (prefix_at ix) (pi_count ix) p start -> a_prefix h = p ->
    (pi_count ix <= start \/ prefix_at ix start <> p) -> in_table rs h = false.
  Proof.
    intros (L & A & B) Hp C. destruct (in_table rs h) eqn:E; [|reflexivity]. exfalso.
    destruct (present_prefix h E) as (i & Hi & Hpi).
    destruct (N.lt_ge_cases i start) as [G | G].
    - specialize (A i G). lia.
    - destruct C as [C | C]; [lia|].
      pose proof (prefix_mono ts rs Hv start i G Hi) as M. fold ix in M.
      specialize (B start (N.le_refl _) ltac:(lia)). apply C. lia.
  Qed.

  Definition flag_ok (r r' : req) : Prop := fst r' = fst r /\ snd r' = snd r || in_table rs (fst r).

  Lemma Forall2_flag_refl_absent (t : list req) :
    (forall r, In r t -> in_table rs (fst r) = false) -> Forall2 flag_ok t t.
  Proof.
    induction t as [|r t IH]; intros H; constructor.
    - split; [reflexivity|]. rewrite (H r (or_introl eq_refl)). rewrite orb_false_r. reflexivity.
    - apply IH. intros r' Hr'. apply H. right. exact Hr'.
  Qed.

  Lemma has_many_loop_spec : forall reqs fidx rem,
    reqs_sorted reqs -> fidx <= pi_count ix ->
    (forall i r, i < fidx -> In r reqs -> prefix_at ix i < a_prefix (fst r)) ->
    Forall2 flag_ok reqs (fst (has_many_loop ix reqs fidx rem))
    /\ snd (has_many_loop ix reqs fidx rem)
       = rem || existsb (fun r : req => negb (snd r)) (fst (has_many_loop ix reqs fidx rem)).
  Proof.
    induction reqs as [|[a f] t IH]; intros fidx rem S Hf Hlo.
    - cbn. split; [constructor | rewrite orb_false_r; reflexivity].
    - assert (St : reqs_sorted t) by (inversion S; assumption).
      assert (Hat : forall r, In r t -> a_prefix a <= a_prefix (fst r)).
      { inversion S as [|? ? ? HF]; subst. rewrite Forall_forall in HF. intros r Hr. exact (HF r Hr). }
      cbn [has_many_loop]. destruct f.
      + destruct (IH fidx rem St Hf ltac:(intros i r Hi Hr; apply Hlo; [exact Hi | right; exact Hr])) as [F R].
        destruct (has_many_loop ix t fidx rem) as [t' r']. cbn [fst snd] in *. split.
        * constructor; [split; reflexivity | exact F].
        * exact R.
      + destruct (find_prefix_from_lb ts rs Hv (a_prefix a) fidx Hf
                    ltac:(intros i Hi; apply (Hlo i (a, false) Hi); left; reflexivity)) as [LB Hge].
        fold ix in LB, Hge. set (fidx' := find_prefix_from ix (a_prefix a) fidx) in *.
        assert (Hf' : fidx' <= pi_count ix) by (destruct LB as [L _]; exact L).
        assert (Hlo' : forall i r, i < fidx' -> In r t -> prefix_at ix i < a_prefix (fst r)).
        { intros i r Hi Hr. destruct LB as (_ & A & _). specialize (A i Hi). specialize (Hat r Hr). lia. }
        destruct (pi_count ix <=? fidx') eqn:E1.
        * (* every prefix of the table is below a's: a and all later requests are absent *)
          apply N.leb_le in E1. cbn [fst snd]. split.
          -- constructor.
             ++ split; [reflexivity|]. cbn [fst snd]. symmetry. apply (lb_beyond_absent _ _ a LB eq_refl). left. exact E1.
             ++ apply Forall2_flag_refl_absent. intros r Hr.
                destruct (in_table rs (fst r)) eqn:P; [|reflexivity]. exfalso.
                destruct (present_prefix _ P) as (i & Hi & Hp). specialize (Hlo' i r ltac:(lia) Hr). lia.
          -- cbn [existsb snd negb]. rewrite orb_true_r. reflexivity.
        * apply N.leb_gt in E1. destruct (negb (a_prefix a =? prefix_at ix fidx')) eqn:E2.
          -- apply negb_true_iff, N.eqb_neq in E2.
             destruct (IH fidx' true St Hf' Hlo') as [F R].
             destruct (has_many_loop ix t fidx' true) as [t' r']. cbn [fst snd] in *. split.
             ++ constructor; [|exact F]. split; [reflexivity|]. cbn [fst snd]. symmetry.
                apply (lb_beyond_absent _ _ a LB eq_refl). right. congruence.
             ++ rewrite R. cbn [existsb snd negb]. rewrite orb_true_r. reflexivity.
          -- pose proof (scan_at_spec ts rs Hv a fidx' LB) as Sc. fold ix in Sc.
             destruct (scan_at ix fidx' a) as [o|].
             ++ destruct (IH fidx' rem St Hf' Hlo') as [F R].
                destruct (has_many_loop ix t fidx' rem) as [t' r']. cbn [fst snd] in *. split.
                ** constructor; [|exact F]. split; [reflexivity|]. cbn [fst snd]. symmetry.
                   apply in_table_iff. destruct Sc as (k & Hk & _ & A). exists k. split; assumption.
                ** rewrite R. cbn [existsb snd negb]. reflexivity.
             ++ destruct (IH fidx' true St Hf' Hlo') as [F R].
                destruct (has_many_loop ix t fidx' true) as [t' r']. cbn [fst snd] in *. split.
                ** constructor; [|exact F]. split; [reflexivity|]. cbn [fst snd].
                   destruct (in_table rs a) eqn:P; [|reflexivity]. exfalso. apply Sc.
                   apply in_table_iff in P. exact P.
                ** rewrite R. cbn [existsb snd negb]. rewrite orb_true_r. reflexivity.
  Qed.
End HasMany.

(* Headline: requests sorted by prefix (duplicates and equal prefixes allowed,
   some already found by an earlier source): a request ends up found iff it was
   found before or its address is in the table, and `remaining` is true exactly
   when some request is still not found — early exit included. *)
Theorem has_many_spec ts rs reqs :
  valid_tuples ts rs -> reqs_sorted reqs ->
  let '(reqs', remaining) := has_many (build_pindex ts rs) reqs in
  Forall2 (fun r r' => fst r' = fst r /\ snd r' = snd r || in_table rs (fst r)) reqs reqs'
  /\ remaining = existsb (fun r : req => negb (snd r)) reqs'.
Proof.
  intros Hv S. unfold has_many.
  destruct (has_many_loop_spec ts rs Hv reqs 0 false S ltac:(lia) ltac:(intros i r Hi; lia)) as [F R].
  destruct (has_many_loop (build_pindex ts rs) reqs 0 false) as [reqs' rem]. cbn [fst snd] in *.
  split; [exact F | exact R].
Qed.

(* findOffsets takes the same decisions as hasMany *)
Lemma find_offsets_flags ix : forall reqs fidx rem,
  let '(r, _, b) := find_offsets_loop ix reqs fidx rem in has_many_loop ix reqs fidx rem = (r, b).
Proof.
  induction reqs as [|[a f] t IH]; intros fidx rem; [reflexivity|].
  cbn [find_offsets_loop has_many_loop]. destruct f.
  - specialize (IH fidx rem). destruct (find_offsets_loop ix t fidx rem) as [[r o] b]. rewrite IH. reflexivity.
  - destruct (pi_count ix <=? find_prefix_from ix (a_prefix a) fidx); [reflexivity|].
    destruct (negb (a_prefix a =? prefix_at ix (find_prefix_from ix (a_prefix a) fidx))).
    + specialize (IH (find_prefix_from ix (a_prefix a) fidx) true).
      destruct (find_offsets_loop ix t _ true) as [[r o] b]. rewrite IH. reflexivity.
    + destruct (scan_at ix (find_prefix_from ix (a_prefix a) fidx) a).
      * specialize (IH (find_prefix_from ix (a_prefix a) fidx) rem).
        destruct (find_offsets_loop ix t _ rem) as [[r o] b]. rewrite IH. reflexivity.
      * specialize (IH (find_prefix_from ix (a_prefix a) fidx) true).
        destruct (find_offsets_loop ix t _ true) as [[r o] b]. rewrite IH. reflexivity.
Qed.

Section FindOffsets.
  Variables (ts : list tuple) (rs : list rec).
  Hypothesis Hv : valid_tuples ts rs.
  Let ix := build_pindex ts rs.

  Definition off_ok (reqs : list req) (x : offrec) : Prop :=
    In (fst x, false) reqs /\
    exists k, (k < length rs)%nat /\ r_addr (nth k rs dummy_rec) = fst x /\ snd x = (offset_of rs k, len_of rs k).

  Lemma off_ok_weaken a f t x : off_ok t x -> off_ok ((a, f) :: t) x.
  Proof. intros [I E]. split; [right; exact I | exact E]. Qed.

  Lemma find_offsets_loop_ors : forall reqs fidx rem,
    reqs_sorted reqs -> fidx <= pi_count ix ->
    (forall i r, i < fidx -> In r reqs -> prefix_at ix i < a_prefix (fst r)) ->
    let ors := snd (fst (find_offsets_loop ix reqs fidx rem)) in
    Forall (off_ok reqs) ors
    /\ (forall a, In (a, false) reqs -> in_table rs a = true -> In a (map fst ors)).
  Proof.
    induction reqs as [|[a f] t IH]; intros fidx rem S Hf Hlo.
    - cbn. split; [constructor | intros a []].
    - assert (St : reqs_sorted t) by (inversion S; assumption).
      assert (Hat : forall r, In r t -> a_prefix a <= a_prefix (fst r)).
      { inversion S as [|? ? ? HF]; subst. rewrite Forall_forall in HF. intros r Hr. exact (HF r Hr). }
      cbn [find_offsets_loop]. destruct f.
      + destruct (IH fidx rem St Hf ltac:(intros i r Hi Hr; apply Hlo; [exact Hi | right; exact Hr])) as [F C].
        destruct (find_offsets_loop ix t fidx rem) as [[t' o'] r']. cbn [fst snd] in *. split.
        * eapply Forall_impl; [|exact F]. intros x. apply off_ok_weaken.
        * intros b [Hb | Hb] P; [discriminate | exact (C b Hb P)].
      + destruct (find_prefix_from_lb ts rs Hv (a_prefix a) fidx Hf
                    ltac:(intros i Hi; apply (Hlo i (a, false) Hi); left; reflexivity)) as [LB Hge].
        fold ix in LB, Hge. set (fidx' := find_prefix_from ix (a_prefix a) fidx) in *.
        assert (Hf' : fidx' <= pi_count ix) by (destruct LB as [L _]; exact L).
        assert (Hlo' : forall i r, i < fidx' -> In r t -> prefix_at ix i < a_prefix (fst r)).
        { intros i r Hi Hr. destruct LB as (_ & A & _). specialize (A i Hi). specialize (Hat r Hr). lia. }
        assert (Habs : forall b, In (b, false) t -> pi_count ix <= fidx' -> in_table rs b = true -> False).
        { intros b Hb E1 P. destruct (present_prefix ts rs Hv _ P) as (i & Hi & Hp). fold ix in Hi, Hp.
          specialize (Hlo' i (b, false) ltac:(lia) Hb). cbn [fst] in Hlo'. lia. }
        destruct (pi_count ix <=? fidx') eqn:E1.
        * apply N.leb_le in E1. cbn [fst snd]. split; [constructor|].
          intros b [Hb | Hb] P; exfalso.
          -- inversion Hb; subst b. pose proof (lb_beyond_absent ts rs Hv _ _ a LB eq_refl (or_introl E1)). congruence.
          -- exact (Habs b Hb E1 P).
        * apply N.leb_gt in E1. destruct (negb (a_prefix a =? prefix_at ix fidx')) eqn:E2.
          -- apply negb_true_iff, N.eqb_neq in E2.
             destruct (IH fidx' true St Hf' Hlo') as [F C].
             destruct (find_offsets_loop ix t fidx' true) as [[t' o'] r']. cbn [fst snd] in *. split.
             ++ eapply Forall_impl; [|exact F]. intros x. apply off_ok_weaken.
             ++ intros b [Hb | Hb] P; [|exact (C b Hb P)]. inversion Hb; subst b. exfalso.
                assert (prefix_at ix fidx' <> a_prefix a) by congruence.
                pose proof (lb_beyond_absent ts rs Hv _ _ a LB eq_refl (or_intror H)). congruence.
          -- pose proof (scan_at_spec ts rs Hv a fidx' LB) as Sc. fold ix in Sc.
             destruct (scan_at ix fidx' a) as [o|].
             ++ destruct (IH fidx' rem St Hf' Hlo') as [F C].
                destruct (find_offsets_loop ix t fidx' rem) as [[t' o'] r']. cbn [fst snd] in *. split.
                ** constructor.
                   --- split; [left; reflexivity|]. destruct Sc as (k & Hk & Ho & A). exists k. cbn [fst snd].
                       repeat split; [exact Hk | exact A |]. subst o. apply index_entry_spec; assumption.
                   --- eapply Forall_impl; [|exact F]. intros x. apply off_ok_weaken.
                ** intros b [Hb | Hb] P; [inversion Hb; subst; left; reflexivity | right; exact (C b Hb P)].
             ++ destruct (IH fidx' true St Hf' Hlo') as [F C].
                destruct (find_offsets_loop ix t fidx' true) as [[t' o'] r']. cbn [fst snd] in *. split.
                ** eapply Forall_impl; [|exact F]. intros x. apply off_ok_weaken.
                ** intros b [Hb | Hb] P; [|exact (C b Hb P)]. inversion Hb; subst b. exfalso. apply Sc.
                   apply in_table_iff in P. exact P.
  Qed.
End FindOffsets.

Lemma insert_off_perm x l : Permutation (insert_off x l) (x :: l).
Proof.
  induction l as [|y l IH]; cbn [insert_off]; [reflexivity|].
  destruct (fst (snd y) <? fst (snd x)); [|reflexivity]. rewrite IH. apply perm_swap.
Qed.
Lemma sort_offs_perm l : Permutation (sort_offs l) l.
Proof.
  unfold sort_offs. induction l as [|x l IH]; cbn [fold_right]; [reflexivity|].
  rewrite insert_off_perm. constructor. exact IH.
Qed.

(* Headline for findOffsets: same flags / remaining as hasMany; the offset
   records are exactly the newly found requests, each with the (offset, length)
   of a record stored under that address. *)
Theorem find_offsets_spec ts rs reqs :
  valid_tuples ts rs -> reqs_sorted reqs ->
  let '(reqs', ors, remaining) := find_offsets (build_pindex ts rs) reqs in
  has_many (build_pindex ts rs) reqs = (reqs', remaining)
  /\ Forall (fun x : offrec => In (fst x, false) reqs /\
        exists k, (k < length rs)%nat /\ r_addr (nth k rs dummy_rec) = fst x
                  /\ snd x = (offset_of rs k, len_of rs k)) ors
  /\ (forall a, In (a, false) reqs -> in_table rs a = true -> In a (map fst ors)).
Proof.
  intros Hv S. unfold find_offsets, has_many.
  pose proof (find_offsets_flags (build_pindex ts rs) reqs 0 false) as Fl.
  destruct (find_offsets_loop_ors ts rs Hv reqs 0 false S ltac:(lia) ltac:(intros i r Hi; lia)) as [F C].
  destruct (find_offsets_loop (build_pindex ts rs) reqs 0 false) as [[r o] b]. cbn [fst snd] in *.
  split; [exact Fl|]. split.
  - rewrite Forall_forall in *. intros x Hx. apply F. apply (Permutation_in _ (sort_offs_perm o)). exact Hx.
  - intros a Ha P. specialize (C a Ha P). apply in_map_iff in C. destruct C as (x & Hx & I).
    apply in_map_iff. exists x. split; [exact Hx | apply (Permutation_in _ (Permutation_sym (sort_offs_perm o))); exact I].
Qed.

(* ------------------------------------------------------------------ *)
(* 6. Reading records back from the written bytes *)
Lemma length_le_enc w v : length (le_enc w v) = w.
Proof. revert v. induction w as [|w IH]; intros v; cbn; [reflexivity | rewrite IH; reflexivity]. Qed.
Lemma length_be_enc w v : length (be_enc w v) = w.
Proof. unfold be_enc. rewrite rev_length. apply length_le_enc. Qed.

Lemma le_dec_enc w : forall v, le_dec (le_enc w v) = v mod 256 ^ N.of_nat w.
Proof.
  induction w as [|w IH]; intros v.
  - cbn. rewrite N.mod_1_r. reflexivity.
  - cbn [le_enc le_dec]. rewrite IH. rewrite Nat2N.inj_succ, N.pow_succ_r'.
    rewrite N.mod_mul_r by (try apply N.pow_nonzero; lia). reflexivity.
Qed.
Lemma be_dec_enc w v : v < 256 ^ N.of_nat w -> be_dec (be_enc w v) = v.
Proof. intros H. unfold be_dec, be_enc. rewrite rev_involutive, le_dec_enc. apply N.mod_small. exact H. Qed.

Lemma length_rec_bytes r : nlen (rec_bytes r) = rec_len r.
Proof. unfold nlen, rec_bytes, rec_len. rewrite app_length, length_be_enc. unfold nlen, w32, uint32_size, checksum_size. lia. Qed.

Lemma length_records_bytes rs : nlen (records_bytes rs) = sum_N (map rec_len rs).
Proof.
  induction rs as [|r rs IH]; [reflexivity|].
  unfold records_bytes in *. cbn [map concat sum_N]. unfold nlen in *. rewrite app_length, Nat2N.inj_add, IH.
  pose proof (length_rec_bytes r) as L. unfold nlen in L. rewrite L. reflexivity.
Qed.

Lemma records_split rs (k : nat) : (k < length rs)%nat ->
  records_bytes rs = records_bytes (firstn k rs) ++ rec_bytes (nth k rs dummy_rec) ++ records_bytes (skipn (S k) rs).
Proof.
  revert k. induction rs as [|r rs IH]; intros k H; [cbn in H; lia|].
  destruct k.
  - reflexivity.
  - cbn [firstn skipn nth]. unfold records_bytes in *. cbn [map concat]. rewrite <- app_assoc. f_equal.
    apply IH. cbn in H. lia.
Qed.

Lemma sub_app_mid (a b c : bytes) : sub (nlen a) (nlen b) (a ++ b ++ c) = b.
Proof.
  unfold sub, nlen. rewrite !Nat2N.id. rewrite skipn_app, skipn_all, Nat.sub_diag. cbn [app skipn].
  rewrite firstn_app, firstn_all, Nat.sub_diag. cbn. apply app_nil_r.
Qed.

(* the bytes of record k sit at [offset_of rs k, +len_of rs k) of the file *)
Lemma record_at ts rs (k : nat) : (k < length rs)%nat ->
  sub (offset_of rs k) (len_of rs k) (write_table_with ts rs) = rec_bytes (nth k rs dummy_rec).
Proof.
  intros H. unfold write_table_with. rewrite (records_split rs k H), <- !app_assoc.
  unfold offset_of, len_of. rewrite <- length_records_bytes, <- length_rec_bytes. apply sub_app_mid.
Qed.

Section ReadBack.
  Variable crc : bytes -> N.
  Variable compress : bytes -> bytes.
  Variable decompress : bytes -> option bytes.
  Hypothesis decompress_compress : forall d, decompress (compress d) = Some d.

  (* a record as the writer makes it from a chunk: checksum of the payload, fits in uint32 *)
  Definition wf_rec (r : rec) (d : bytes) : Prop :=
    r_data r = compress d /\ r_crc r = crc (compress d) /\ crc (compress d) < 2 ^ 32 /\ r_data r <> [].

  Lemma read_chunk_written ts rs (k : nat) d : (k < length rs)%nat -> wf_rec (nth k rs dummy_rec) d ->
    read_chunk crc decompress (write_table_with ts rs) (offset_of rs k) (len_of rs k) = ROk d.
  Proof.
    intros H (Hd & Hc & Hb & Hne). unfold read_chunk. rewrite (record_at ts rs k H).
    set (r := nth k rs dummy_rec) in *.
    assert (L : nlen (rec_bytes r) = len_of rs k) by (unfold len_of; fold r; apply length_rec_bytes).
    rewrite L, N.eqb_refl. cbn [negb].
    assert (Hlen : len_of rs k = nlen (r_data r) + checksum_size) by reflexivity.
    replace (len_of rs k <? checksum_size) with false
      by (symmetry; apply N.ltb_ge; rewrite Hlen; lia).
    replace (len_of rs k - checksum_size) with (nlen (r_data r)) by (rewrite Hlen; lia).
    unfold rec_bytes, nlen. rewrite Nat2N.id, firstn_app, firstn_all, Nat.sub_diag. cbn [firstn]. rewrite app_nil_r.
    rewrite skipn_app, skipn_all, Nat.sub_diag. cbn [skipn app].
    rewrite be_dec_enc by (rewrite Hc; exact Hb).
    rewrite Hc, Hd, N.eqb_refl. cbn [negb].
    replace (N.of_nat (length (compress d)) =? 0) with false.
    - rewrite decompress_compress. reflexivity.
    - symmetry. apply N.eqb_neq. rewrite <- Hd. destruct (r_data r); [congruence | cbn; lia].
  Qed.

  (* tableReader.get on the table opened from the written bytes: the chunk's
     bytes if h is stored, nothing otherwise (distinct addresses; any prefixes) *)
  Theorem table_get_written ts rs (content : addr -> bytes) h :
    valid_tuples ts rs -> distinct_addrs rs ->
    (forall k, (k < length rs)%nat -> wf_rec (nth k rs dummy_rec) (content (r_addr (nth k rs dummy_rec)))) ->
    table_get crc decompress (mkTable (write_table_with ts rs) (build_pindex ts rs)) h
    = ROk (if in_table rs h then Some (content h) else None).
  Proof.
    intros Hv D W. unfold table_get. cbn [t_ix t_file].
    pose proof (lookup_any ts rs h Hv) as L.
    destruct (lookup (build_pindex ts rs) h) as [[off len]|].
    - destruct L as (k & Hk & A & E). inversion E; subst off len.
      rewrite (read_chunk_written ts rs k _ Hk (W k Hk)). cbn [rd_map].
      replace (in_table rs h) with true by (symmetry; apply in_table_iff; exists k; split; assumption).
      rewrite A. reflexivity.
    - rewrite L. reflexivity.
  Qed.

  Theorem table_has_written ts rs h :
    valid_tuples ts rs ->
    table_has (mkTable (write_table_with ts rs) (build_pindex ts rs)) h = in_table rs h.
  Proof.
    intros Hv. unfold table_has. cbn [t_ix]. pose proof (lookup_any ts rs h Hv) as L.
    destruct (lookup (build_pindex ts rs) h).
    - destruct L as (k & Hk & A & _). symmetry. apply in_table_iff. exists k. split; assumption.
    - symmetry. exact L.
  Qed.
End ReadBack.

(* ------------------------------------------------------------------ *)
(* 7. tableSet.hasMany over several sources: stop at the first source that
      leaves nothing remaining; flags accumulate; `remaining` stays exact. *)
Definition src_ok (t : table) (rs : list rec) : Prop := exists ts, valid_tuples ts rs /\ t_ix t = build_pindex ts rs.

Lemma Forall2_len {A B} (R : A -> B -> Prop) l1 l2 : Forall2 R l1 l2 -> length l1 = length l2.
Proof. induction 1; cbn; congruence. Qed.

Lemma Forall2_impl {A B} (R1 R2 : A -> B -> Prop) l1 l2 :
  (forall a b, R1 a b -> R2 a b) -> Forall2 R1 l1 l2 -> Forall2 R2 l1 l2.
Proof. intros H. induction 1; constructor; auto. Qed.

Lemma Forall2_fst_sorted (a b : list req) :
  Forall2 (fun r r' => fst r' = fst r /\ True) a b -> reqs_sorted a -> reqs_sorted b.
Proof.
  intros F. induction F as [|x y a b [E _] F IH]; intros S; [constructor|].
  inversion S as [|? ? Sa Hx]; subst. constructor; [apply IH; exact Sa|].
  rewrite Forall_forall in *. intros z Hz.
  destruct (In_nth _ _ y Hz) as (i & Hi & Hn).
  assert (Hlen : length a = length b) by (eapply Forall2_len; exact F).
  assert (Hi' : (i < length a)%nat) by lia.
  pose proof (Hx (nth i a x) (nth_In _ _ Hi')) as Hle.
  assert (Ei : fst (nth i b y) = fst (nth i a x)).
  { clear - F Hi'. revert i Hi'. induction F as [|p q a b [E _] F IH]; intros i Hi; [cbn in Hi; lia|].
    destruct i; [exact E|]. cbn [nth]. apply IH. cbn in Hi. lia. }
  unfold req_prefix_le in *. rewrite <- Hn, Ei, E. exact Hle.
Qed.

Definition in_tables (rss : list (list rec)) (h : addr) : bool := existsb (fun rs => in_table rs h) rss.

Theorem tableset_has_many_spec : forall (tbls : list table) (rss : list (list rec)) (reqs : list req),
  Forall2 src_ok tbls rss -> reqs_sorted reqs ->
  let '(reqs', remaining) := srcs_has_many tbls reqs in
  Forall2 (fun r r' => fst r' = fst r /\ (snd r' = true -> snd r = true \/ in_tables rss (fst r) = true)
                       /\ (snd r = true -> snd r' = true)) reqs reqs'
  /\ (remaining = false -> forall r', In r' reqs' -> snd r' = true)
  /\ (remaining = true -> forall r r', In (r, r') (combine reqs reqs') ->
        snd r' = snd r || in_tables rss (fst r)).
Proof.
  intros tbls rss reqs F. revert reqs. induction F as [|t rs tbls rss (ts & Hv & Eix) F IH]; intros reqs S.
  - cbn [srcs_has_many]. split; [|split].
    + clear S. induction reqs as [|r reqs IHr]; [constructor|]. constructor; [|exact IHr]. repeat split; auto.
    + discriminate.
    + intros _ r r' Hin. cbn [in_tables existsb]. rewrite orb_false_r.
      revert Hin. clear. induction reqs as [|x reqs IHr]; [intros []|]. cbn [combine]. intros [E | I]; [inversion E; reflexivity | auto].
  - cbn [srcs_has_many]. rewrite Eix. pose proof (has_many_spec ts rs reqs Hv S) as H.
    destruct (has_many (build_pindex ts rs) reqs) as [r1 rem1]. destruct H as [F1 R1].
    destruct rem1.
    + assert (S1 : reqs_sorted r1).
      { apply (Forall2_fst_sorted reqs r1); [|exact S]. eapply Forall2_impl; [|exact F1]. intros a b [E _]. split; [exact E | exact I]. }
      specialize (IH r1 S1). destruct (srcs_has_many tbls r1) as [r2 rem2]. destruct IH as (F2 & A2 & B2).
      split; [|split].
      * clear - F1 F2. revert r2 F2. induction F1 as [|a b l1 l2 [E1 V1] F1 IHF]; intros r2 F2; inversion F2 as [|? c ? l3 (E2 & P2 & Q2) F3]; subst; constructor.
        -- split; [congruence|]. split.
           ++ intros Hc. destruct (P2 Hc) as [Hb | Hb].
              ** rewrite V1 in Hb. apply orb_true_iff in Hb. destruct Hb as [Hb | Hb]; [left; exact Hb|].
                 right. cbn [in_tables existsb]. rewrite Hb. reflexivity.
              ** right. cbn [in_tables existsb]. rewrite E1 in Hb. fold (in_tables rss (fst a)). rewrite Hb. apply orb_true_r.
           ++ intros Ha. apply Q2. rewrite V1, Ha. reflexivity.
        -- apply IHF. exact F3.
      * exact A2.
      * intros Hr r r' Hin. specialize (B2 Hr).
        (* position-wise composition *)
        assert (exists m, In (r, m) (combine reqs r1) /\ In (m, r') (combine r1 r2)) as (m & I1 & I2).
        { clear - F1 F2 Hin. revert r2 F2 Hin. induction F1 as [|a b l1 l2 _ F1 IHF]; intros r2 F2 Hin; inversion F2; subst; [destruct Hin|].
          cbn [combine] in Hin. destruct Hin as [E | I].
          - inversion E; subst. exists b. split; left; reflexivity.
          - destruct (IHF _ H3 I) as (m & ? & ?). exists m. split; right; assumption. }
        rewrite (B2 m r' I2).
        assert (Hm : fst m = fst r /\ snd m = snd r || in_table rs (fst r)).
        { clear - F1 I1. induction F1 as [|a b l1 l2 H F1 IHF]; [destruct I1|]. cbn [combine] in I1.
          destruct I1 as [E | I]; [inversion E; subst; exact H | exact (IHF I)]. }
        destruct Hm as [Em Vm]. rewrite Em, Vm. cbn [in_tables existsb]. rewrite orb_assoc. reflexivity.
    + split; [|split].
      * eapply Forall2_impl; [|exact F1]. intros a b [E V]. split; [exact E|]. split.
        -- intros Hb. rewrite V in Hb. apply orb_true_iff in Hb. destruct Hb as [Hb | Hb]; [left; exact Hb|].
           right. cbn [in_tables existsb]. rewrite Hb. reflexivity.
        -- intros Ha. rewrite V, Ha. reflexivity.
      * intros _ r' Hin. symmetry in R1.
        destruct (snd r') eqn:Er; [reflexivity|]. exfalso.
        assert (existsb (fun r : req => negb (snd r)) r1 = true) by (apply existsb_exists; exists r'; split; [exact Hin | rewrite Er; reflexivity]).
        congruence.
      * discriminate.
Qed.

(* ------------------------------------------------------------------ *)
(* 8. Continued in ProofsBytes.v (parse_write_table: the byte-level decode),
   ProofsSort.v (sorted permutations are unique), ProofsTable.v (hasMany / getMany /
   iterateAllChunks of a table opened from written bytes), ProofsStore*.v
   (store_refines_map: the whole store state machine refines the abstract map;
   reads_agree).
   ProofsBatch.v: batches_cover (read batching).
   Still NOT proved for C01: journal and archive sources inside a store; the codec-generic form of the final
   simulation (the table- and store-level lemmas are generic in crc / compress /
   decompress; the last induction over run_ops is for the instance the correspondence
   runs, crc0 / comp0 / decomp0). *)

(* History: GenerationalNBS.HasMany with ghostGen == nil used to report nothing
   absent (`len(absent) == 0 || gcs.ghostGen == nil` returned nil); found by this
   check, repaired in dolt commit 16416a3.  The witness history stays in the
   generator as a fixed regression case (props/c01.py REGRESSION_NIL_GHOST). *)
