(* C01 — byte level: parse_index (write_table_with ts rs) = Some (build_pindex ts rs). *)
From Coq Require Import NArith Arith List Bool Lia Sorting.Permutation Sorting.Sorted.
From Dolt Require Import Base.Str Gen.C01Consts C01.Model C01.Spec C01.Corr C01.Proofs.
Import ListNotations.
Local Open Scope N_scope.

Lemma sub_at (a b c : bytes) (off len : N) :
  off = nlen a -> len = nlen b -> sub off len (a ++ b ++ c) = b.
Proof. intros -> ->. apply sub_app_mid. Qed.

Lemma sub_tail (a b : bytes) (off len : N) : off = nlen a -> len = nlen b -> sub off len (a ++ b) = b.
Proof. intros Ho Hl. rewrite <- (app_nil_r b) at 1. apply sub_at; assumption. Qed.

Lemma sub_head (b c : bytes) (len : N) : len = nlen b -> sub 0 len (b ++ c) = b.
Proof. intros Hl. apply (sub_at [] b c); [reflexivity | exact Hl]. Qed.

Lemma nlen_app {A} (a b : list A) : nlen (a ++ b) = nlen a + nlen b.
Proof. unfold nlen. rewrite app_length. lia. Qed.

Lemma nlen_concat_fixed {A} (f : A -> bytes) (w : nat) (l : list A) :
  (forall x, length (f x) = w) -> nlen (concat (map f l)) = N.of_nat w * nlen l.
Proof.
  intros H. induction l as [|x l IH]; [cbn; lia|].
  cbn [map concat]. rewrite nlen_app, IH. unfold nlen. rewrite H. cbn [length]. lia.
Qed.

Lemma split_n_concat {A} (f : A -> bytes) (w : nat) (l : list A) (rest : bytes) :
  (forall x, length (f x) = w) -> split_n (length l) w (concat (map f l) ++ rest) = map f l.
Proof.
  intros H. induction l as [|x l IH]; [reflexivity|].
  cbn [length split_n map concat]. rewrite <- app_assoc.
  rewrite firstn_app, firstn_all2 by (rewrite H; lia). rewrite H, Nat.sub_diag. cbn [firstn]. rewrite app_nil_r.
  f_equal. rewrite skipn_app, skipn_all2 by (rewrite H; lia). rewrite H, Nat.sub_diag. cbn [skipn app]. exact IH.
Qed.

Lemma length_tuple_bytes t : length (tuple_bytes t) = w_tuple.
Proof. unfold tuple_bytes. rewrite app_length, !length_be_enc. reflexivity. Qed.

Lemma dec_tuple_bytes (t : tuple) : fst t < 2 ^ 64 -> snd t < 2 ^ 32 -> dec_tuple (tuple_bytes t) = t.
Proof.
  intros H1 H2. unfold dec_tuple, tuple_bytes.
  rewrite firstn_app, firstn_all2 by (rewrite length_be_enc; lia). rewrite length_be_enc, Nat.sub_diag. cbn [firstn]. rewrite app_nil_r.
  rewrite skipn_app, skipn_all2 by (rewrite length_be_enc; lia). rewrite length_be_enc, Nat.sub_diag. cbn [skipn app].
  rewrite !be_dec_enc; [destruct t; reflexivity | exact H2 | exact H1].
Qed.

Lemma map_id_on {A} (f : A -> A) (l : list A) : (forall x, In x l -> f x = x) -> map f l = l.
Proof. induction l as [|x l IH]; intros H; cbn; [reflexivity|]. rewrite H by (left; reflexivity). f_equal. apply IH. intros y Hy. apply H. right. exact Hy. Qed.

(* sizes the format can represent (uint32 count / lengths / ordinals, uint64
   prefixes and total, 12-byte suffixes) *)
Definition addr_wf (a : addr) : Prop := a_prefix a < 2 ^ 64 /\ a_suffix a < 2 ^ 96.
Definition table_fits (rs : list rec) : Prop :=
  nlen rs < 2 ^ 32 /\ total_unc rs < 2 ^ 64
  /\ Forall (fun r => addr_wf (r_addr r) /\ rec_len r < 2 ^ 32) rs.

Theorem parse_write_table ts rs :
  valid_tuples ts rs -> table_fits rs ->
  parse_index (write_table_with ts rs) = Some (build_pindex ts rs).
Proof.
  intros Hv (Hn & Hu & Hr). rewrite Forall_forall in Hr.
  pose proof (ts_length ts rs Hv) as Lts.
  set (R := records_bytes rs).
  set (T := concat (map tuple_bytes ts)).
  set (L := concat (map (fun r => be_enc w32 (rec_len r)) rs)).
  set (S := concat (map (fun r => be_enc w_suf (a_suffix (r_addr r))) rs)).
  set (F := footer_bytes (nlen rs) (total_unc rs)).
  assert (Efile : write_table_with ts rs = R ++ (T ++ L ++ S) ++ F).
  { unfold write_table_with, index_bytes. fold R T L S F. rewrite <- !app_assoc. reflexivity. }
  assert (LT : nlen T = 12 * nlen rs).
  { unfold T. rewrite (nlen_concat_fixed tuple_bytes w_tuple) by apply length_tuple_bytes. unfold nlen. rewrite Lts. reflexivity. }
  assert (LL : nlen L = 4 * nlen rs).
  { unfold L. rewrite (nlen_concat_fixed _ w32) by (intros; apply length_be_enc). reflexivity. }
  assert (LS : nlen S = 12 * nlen rs).
  { unfold S. rewrite (nlen_concat_fixed _ w_suf) by (intros; apply length_be_enc). reflexivity. }
  assert (LF : nlen F = 20).
  { unfold F, footer_bytes. rewrite !nlen_app. unfold nlen. rewrite !length_be_enc. reflexivity. }
  assert (Lfile : nlen (write_table_with ts rs) = nlen R + 28 * nlen rs + 20).
  { rewrite Efile, !nlen_app, LT, LL, LS, LF. lia. }
  (* footer *)
  assert (PF : parse_footer (write_table_with ts rs) = Some (nlen rs, total_unc rs)).
  { unfold parse_footer. cbv [footer_size uint32_size uint64_size magic_number_size].
    replace (nlen (write_table_with ts rs) <? 20) with false by (symmetry; apply N.ltb_ge; lia).
    assert (Ef : sub (nlen (write_table_with ts rs) - 20) 20 (write_table_with ts rs) = F).
    { rewrite Efile at 2. rewrite app_assoc. apply sub_tail; [rewrite nlen_app, !nlen_app, LT, LL, LS; lia | lia]. }
    rewrite Ef. unfold F, footer_bytes.
    assert (E1 : sub (4 + 8) 8 (be_enc w32 (nlen rs) ++ be_enc w64 (total_unc rs) ++ magic_number) = magic_number).
    { rewrite app_assoc. apply sub_tail; [rewrite nlen_app; unfold nlen; rewrite !length_be_enc; reflexivity | reflexivity]. }
    rewrite E1, beq_bytes_refl.
    rewrite (sub_head (be_enc w32 (nlen rs))) by (unfold nlen; rewrite length_be_enc; reflexivity).
    rewrite (sub_at (be_enc w32 (nlen rs)) (be_enc w64 (total_unc rs)) magic_number)
      by (unfold nlen; rewrite length_be_enc; reflexivity).
    rewrite !be_dec_enc; [reflexivity | exact Hu | exact Hn]. }
  unfold parse_index. rewrite PF.
  cbv [index_size lengths_offset suffixes_offset footer_size uint32_size uint64_size magic_number_size
       prefix_tuple_size length_size hash_suffix_len].
  replace (nlen (write_table_with ts rs) <? nlen rs * (12 + 4 + 12) + 20) with false
    by (symmetry; apply N.ltb_ge; lia).
  assert (Eb : sub (nlen (write_table_with ts rs) - (nlen rs * (12 + 4 + 12) + 20))
                   (nlen rs * (12 + 4 + 12) + 20) (write_table_with ts rs) = T ++ L ++ S ++ F).
  { rewrite Efile at 2. replace (R ++ (T ++ L ++ S) ++ F) with (R ++ (T ++ L ++ S ++ F)) by (rewrite <- !app_assoc; reflexivity).
    apply sub_tail; [lia | rewrite !nlen_app, LT, LL, LS, LF; lia]. }
  rewrite Eb.
  rewrite (sub_head T (L ++ S ++ F)) by lia.
  rewrite (sub_at T L (S ++ F)) by lia.
  replace (T ++ L ++ S ++ F) with ((T ++ L) ++ S ++ F) by (rewrite <- app_assoc; reflexivity).
  rewrite (sub_at (T ++ L) S F) by (rewrite ?nlen_app; lia).
  f_equal. unfold build_pindex. f_equal.
  - (* tuples *)
    replace (N.to_nat (nlen rs)) with (length ts) by (unfold nlen; lia).
    unfold T. rewrite <- (app_nil_r (concat (map tuple_bytes ts))), (split_n_concat tuple_bytes w_tuple) by apply length_tuple_bytes.
    rewrite map_map. apply map_id_on. intros [p o] Hin. apply dec_tuple_bytes; cbn [fst snd].
    + apply (ts_in ts rs Hv) in Hin. destruct Hin as (k & Hk & _ & ->).
      destruct (Hr (nth k rs dummy_rec) (nth_In _ _ Hk)) as [[A _] _]. exact A.
    + apply (ts_in ts rs Hv) in Hin. destruct Hin as (k & Hk & -> & _). unfold nlen in Hn. lia.
  - (* lengths *)
    replace (N.to_nat (nlen rs)) with (length rs) by (unfold nlen; lia).
    unfold L. rewrite <- (app_nil_r (concat _)), (split_n_concat _ w32) by (intros; apply length_be_enc).
    rewrite map_map. apply map_ext_in. intros r Hin. apply be_dec_enc. destruct (Hr r Hin) as [_ B]. exact B.
  - (* suffixes *)
    replace (N.to_nat (nlen rs)) with (length rs) by (unfold nlen; lia).
    unfold S. rewrite <- (app_nil_r (concat _)), (split_n_concat _ w_suf) by (intros; apply length_be_enc).
    rewrite map_map. apply map_ext_in. intros r Hin. apply be_dec_enc. destruct (Hr r Hin) as [[_ A] _]. exact A.
Qed.

Corollary open_write_table ts rs :
  valid_tuples ts rs -> table_fits rs ->
  open_table (write_table_with ts rs) = Some (mkTable (write_table_with ts rs) (build_pindex ts rs)).
Proof. intros Hv Hf. unfold open_table. rewrite (parse_write_table ts rs Hv Hf). reflexivity. Qed.

(* lookup from the BYTES *)
Theorem lookup_parsed_written_table ts rs h :
  valid_tuples ts rs -> table_fits rs -> distinct_addrs rs ->
  option_map (fun ix => lookup ix h) (parse_index (write_table_with ts rs)) = Some (lookup_spec rs h).
Proof. intros Hv Hf D. rewrite (parse_write_table ts rs Hv Hf). cbn. f_equal. apply lookup_write_index; assumption. Qed.
