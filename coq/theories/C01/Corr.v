(* C01 — correspondence: run the store model on a history, compare with what
   the implementation returned, and evaluate the property (every read API is a
   function of the abstract map of successful puts) on the implementation's
   observations.  Depends on Model/Spec only. *)
From Coq Require Import NArith List Bool.
From Dolt Require Import Base.Str Gen.C01Consts C01.Model C01.Spec.
Import ListNotations.
Local Open Scope N_scope.

(* The store-level observations do not depend on the checksum / compression
   functions (store_obs_codec_indep in Proofs.v is stated for any crc and any
   compress/decompress with decompress (compress d) = Some d); the run uses the
   trivial instance. *)
Definition crc0 (_ : bytes) : N := 0.
Definition comp0 (b : bytes) : bytes := b.
Definition decomp0 (b : bytes) : option bytes := Some b.

Definition st_put := store_put crc0 comp0.
Definition st_flush := store_flush crc0 comp0.
Definition st_get := store_get crc0 decomp0.
Definition st_has := store_has.
Definition st_has_many := store_has_many.
Definition st_get_many := store_get_many crc0 decomp0.
Definition st_iterate := store_iterate crc0 decomp0.

Definition rd_code {A} (r : rd A) : N :=
  match r with ROk _ => 0 | RErrRead => 1 | RErrChecksum => 2 | RErrEmpty => 3 | RErrDecode => 4 end.
Definition obs_data (r : rd (option bytes)) : obs :=
  match r with ROk o => ObData o | _ => ObErr (rd_code r) end.
Definition obs_chunks (r : rd (list (addr * bytes))) : obs :=
  match r with ROk l => ObChunks (sort_chunks l) | _ => ObErr (rd_code r) end.
Definition put_code (p : put_result) : N :=
  match p with PutOk => 0 | PutErrTooBig => 1 | PutErrPersist => 1 | PutPanicEmpty => 2 end.

(* cfg 0: one NomsBlockStore (in-memory blobstore or local directory);
   cfg 1: GenerationalNBS over two stores with a (empty) GhostBlockStore (dbfactory);
   cfg 2: GenerationalNBS with ghostGen == nil (store/spec; HasMany as repaired in dolt commit 16416a3). *)
Definition run_op (cfg : N) (g : gstore) (o : op) : obs * gstore :=
  let gen := negb (cfg =? 0) in
  match o with
  | OpPut a d => let '(r, s') := st_put (g_new g) a d in (ObPut (put_code r), mkG (g_old g) s')
  | OpPutOld a d => let '(r, s') := st_put (g_old g) a d in (ObPut (put_code r), mkG s' (g_new g))
  | OpFlush => let '(ok, s') := st_flush (g_new g) in (ObFlush ok, mkG (g_old g) s')
  | OpFlushOld => let '(ok, s') := st_flush (g_old g) in (ObFlush ok, mkG s' (g_new g))
  | OpGet a => (obs_data (if gen then g_get crc0 decomp0 g a else st_get (g_new g) a), g)
  | OpHas a => (ObBool (if gen then g_has g a else st_has (g_new g) a), g)
  | OpGetMany l => (obs_chunks (if gen then g_get_many crc0 decomp0 g l else st_get_many (g_new g) l), g)
  | OpGetManyC l => (obs_chunks (if gen then g_get_many crc0 decomp0 g l else st_get_many (g_new g) l), g)
  | OpHasMany l => (ObAddrs (sort_addrs (if gen then g_has_many g l else st_has_many (g_new g) l)), g)
  | OpIter => (obs_chunks (if gen then g_iterate crc0 decomp0 g else st_iterate (g_new g)), g)
  end.

Fixpoint run_ops (cfg : N) (g : gstore) (ops : list op) : list obs :=
  match ops with
  | [] => []
  | o :: t => let '(ob, g') := run_op cfg g o in ob :: run_ops cfg g' t
  end.

(* input: configuration, memtable size of the new / old generation, history *)
Definition input := (N * N * list op)%type.
Definition case := (input * list obs)%type.

Definition model_obs (i : input) : list obs :=
  let '(cfg, memsz, ops) := i in
  run_ops cfg (mkG (store_empty memsz) (store_empty memsz)) ops.

Definition ob_eqb (a b : obs) : bool :=
  match a, b with
  | ObPut x, ObPut y => x =? y
  | ObFlush x, ObFlush y => Bool.eqb x y
  | ObData x, ObData y => opt_bytes_eqb x y
  | ObBool x, ObBool y => Bool.eqb x y
  | ObChunks x, ObChunks y => chunks_eqb x y
  | ObAddrs x, ObAddrs y => addrs_eqb x y
  | ObErr x, ObErr y => x =? y
  | _, _ => false
  end.
Fixpoint obs_eqb (a b : list obs) : bool :=
  match a, b with
  | [], [] => true
  | x :: a', y :: b' => ob_eqb x y && obs_eqb a' b'
  | _, _ => false
  end.

(* The property on what the implementation returned: replay the history on the
   abstract map (a put counts when the implementation accepted it) and require
   every Get / Has / GetMany / GetManyCompressed / HasMany / IterateAllChunks
   answer to be the map's answer. *)
Definition oracle (i : input) (o : list obs) : bool :=
  let '(_, _, ops) := i in spec_run a_init ops o.

Definition check_case (c : case) : N :=
  (if obs_eqb (model_obs (fst c)) (snd c) then 0 else 1)
  + (if oracle (fst c) (snd c) then 0 else 2).
