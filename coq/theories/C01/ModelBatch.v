(* C01 — read batching (IO only): go/store/nbs/table_reader.go canReadAhead, groupSpans,
   toReadBatches.  Hand-modelled (canReadAhead returns two values, outside the translator's
   grammar); maxReadSize is written as in the source.  No proofs here. *)
From Coq Require Import NArith List Bool.
Import ListNotations.
Local Open Scope N_scope.

Definition max_read_size : N := 128 * 1024 * 1024.

(* canReadAhead(fRec, curStart, curEnd, blockSize) (newEnd, canRead) *)
Definition can_read_ahead (off len cur_start cur_end block_size : N) : N * bool :=
  if off <? cur_end then (cur_end, true)
  else if max_read_size <=? cur_end - cur_start then (cur_end, false)
  else if block_size <? off - cur_end then (cur_end, false)
  else (off + len, true).

(* a run: start, end, the spans (offset, length) it serves, in order *)
Definition span := (N * N)%type.
Definition run := (N * N * list span)%type.

(* groupSpans over spans sorted by offset *)
Fixpoint group_loop (bs : N) (spans : list span) (cur : run) (done : list run) : list run :=
  match spans with
  | [] => rev (cur :: done)
  | (off, len) :: t =>
    let '(s, e, ms) := cur in
    let '(new_end, can) := can_read_ahead off len s e bs in
    if can then
      let new_end' := if new_end <? off + len then off + len else new_end in   (* take the furthest end *)
      group_loop bs t (s, new_end', ms ++ [(off, len)]) done
    else group_loop bs t (off, off + len, [(off, len)]) (cur :: done)
  end.
Definition group_spans (bs : N) (spans : list span) : list run :=
  match spans with
  | [] => []
  | (off, len) :: t => group_loop bs t (off, off + len, [(off, len)]) []
  end.
