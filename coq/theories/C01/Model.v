(* C01 / C06 — NBS table files and the chunk store built on them.
   Executable model of
     go/store/nbs/table.go             format comment, constants (regenerated: Gen/C01Consts.v)
     go/store/nbs/table_writer.go      tableWriter.addChunk / writeIndex / writeFooter,
                                       indexSize / lengthsOffset / suffixesOffset (regenerated)
     go/store/nbs/table_index.go       ReadTableFooter, readTableIndexByCopy, newOnHeapTableIndex,
                                       findPrefix, lookupOrdinal, lookup, getIndexEntry, offsetAt
     go/store/nbs/table_reader.go      tableReader.has/hasMany/get/findOffsets/getMany/iterateAllChunks,
                                       NewCompressedChunk (CRC check)
     go/store/nbs/mem_table.go         memTable.addChunk / has / hasMany / get / getMany / write
     go/store/nbs/table_set.go         tableSet.has / hasMany / get / getMany / append / flatten
     go/store/nbs/store.go             NomsBlockStore.addChunk / Get / getManyWithFunc / Has / hasManyDep /
                                       IterateAllChunks / Commit (flush + flatten)
     go/store/nbs/generational_chunk_store.go   Get / GetMany / Has / HasMany (old, new)
   Numbers are N, bytes are list N, nat only as structural fuel.  No proofs here. *)
From Coq Require Import NArith List Bool.
From Dolt Require Import Base.Str Gen.C01Consts.
Import ListNotations.
Local Open Scope N_scope.

(* ------------------------------------------------------------------ *)
(* Addresses: 20 bytes = 8-byte prefix (big-endian uint64, hash.Prefix) and
   12-byte suffix (hash.Suffix); both kept as numbers. *)
Definition addr := (N * N)%type.
Definition a_prefix (a : addr) : N := fst a.
Definition a_suffix (a : addr) : N := snd a.
Definition addr_eqb (a b : addr) : bool := (fst a =? fst b) && (snd a =? snd b).
(* bytes.Compare order on the 20 address bytes *)
Definition addr_ltb (a b : addr) : bool := (fst a <? fst b) || ((fst a =? fst b) && (snd a <? snd b)).

Definition nlen {A} (l : list A) : N := N.of_nat (length l).
Definition nth_N {A} (l : list A) (i : N) (d : A) : A := nth (N.to_nat i) l d.
Definition sub (off len : N) (b : bytes) : bytes := firstn (N.to_nat len) (skipn (N.to_nat off) b).
Fixpoint sum_N (l : list N) : N := match l with [] => 0 | x :: t => x + sum_N t end.

(* ------------------------------------------------------------------ *)
(* Fixed-width big-endian codecs (binary.BigEndian.PutUint32/64, Uint32/64) *)
Fixpoint le_enc (w : nat) (v : N) : bytes :=
  match w with O => [] | S w' => (v mod 256) :: le_enc w' (v / 256) end.
Definition be_enc (w : nat) (v : N) : bytes := rev (le_enc w v).
Fixpoint le_dec (b : bytes) : N := match b with [] => 0 | x :: t => x + 256 * le_dec t end.
Definition be_dec (b : bytes) : N := le_dec (rev b).

Definition w32 : nat := N.to_nat uint32_size.
Definition w64 : nat := N.to_nat uint64_size.
Definition w_pre : nat := N.to_nat hash_prefix_len.
Definition w_suf : nat := N.to_nat hash_suffix_len.
Definition w_tuple : nat := N.to_nat prefix_tuple_size.

(* split b into n consecutive pieces of width w *)
Fixpoint split_n (n : nat) (w : nat) (b : bytes) : list bytes :=
  match n with O => [] | S n' => firstn w b :: split_n n' w (skipn w b) end.

Definition addr_bytes (a : addr) : bytes := be_enc w_pre (a_prefix a) ++ be_enc w_suf (a_suffix a).

(* ------------------------------------------------------------------ *)
(* Chunk records.  r_data is the compressed payload (opaque), r_crc the stored
   checksum, r_unc the uncompressed length (for the footer total). *)
Record rec := mkRec { r_addr : addr; r_data : bytes; r_crc : N; r_unc : N }.

(* tableWriter.addChunk: compressed data then 4-byte big-endian CRC *)
Definition rec_bytes (r : rec) : bytes := r_data r ++ be_enc w32 (r_crc r).
(* prefixIndexRec.size = checksumSize + dataLength *)
Definition rec_len (r : rec) : N := nlen (r_data r) + checksum_size.
Definition records_bytes (rs : list rec) : bytes := concat (map rec_bytes rs).

(* prefix tuples: (prefix, ordinal); ordinals are insertion positions *)
Definition tuple := (N * N)%type.
Fixpoint tuples_from (i : N) (rs : list rec) : list tuple :=
  match rs with [] => [] | r :: t => (a_prefix (r_addr r), i) :: tuples_from (i + 1) t end.

(* writeIndex: sort.Sort(tw.prefixes) orders by prefix only and is NOT stable:
   any prefix-sorted permutation of the tuples is a possible outcome.  The model's
   default is a stable insertion sort; every theorem quantifies over all
   prefix-sorted permutations ([write_table_with ts]). *)
Fixpoint insert_tuple (x : tuple) (l : list tuple) : list tuple :=
  match l with
  | [] => [x]
  | y :: t => if fst y <? fst x then y :: insert_tuple x t else x :: l
  end.
Definition sort_tuples (l : list tuple) : list tuple := fold_right insert_tuple [] l.

Definition tuple_bytes (t : tuple) : bytes := be_enc w_pre (fst t) ++ be_enc w32 (snd t).

(* Index = prefix tuples (sorted) ++ lengths (by ordinal) ++ suffixes (by ordinal).
   The Go code scatters lengths/suffixes to lengthsOffset + ordinal*4 /
   suffixesOffset + ordinal*12; ordinals being 0..n-1 in insertion order this is
   the in-order concatenation. *)
Definition index_bytes (ts : list tuple) (rs : list rec) : bytes :=
  concat (map tuple_bytes ts)
  ++ concat (map (fun r => be_enc w32 (rec_len r)) rs)
  ++ concat (map (fun r => be_enc w_suf (a_suffix (r_addr r))) rs).

(* writeFooter: chunk count (uint32), total uncompressed (uint64), magic *)
Definition footer_bytes (count unc : N) : bytes := be_enc w32 count ++ be_enc w64 unc ++ magic_number.

Definition total_unc (rs : list rec) : N := sum_N (map r_unc rs).

Definition write_table_with (ts : list tuple) (rs : list rec) : bytes :=
  records_bytes rs ++ index_bytes ts rs ++ footer_bytes (nlen rs) (total_unc rs).
Definition write_table (rs : list rec) : bytes :=
  write_table_with (sort_tuples (tuples_from 0 rs)) rs.

(* ------------------------------------------------------------------ *)
(* Parsed index: onHeapTableIndex.  Offsets are cumulative lengths
   (NewOffsetsReader); the first n - n/2 live in offsets1, the rest in offsets2. *)
Record pindex := mkPindex {
  pi_tuples : list tuple; pi_off1 : list N; pi_off2 : list N;
  pi_suffixes : list N; pi_count : N; pi_unc : N }.

Fixpoint cumsum (acc : N) (l : list N) : list N :=
  match l with [] => [] | x :: t => (acc + x) :: cumsum (acc + x) t end.

(* ReadTableFooter: None = ErrInvalidTableFile (bad magic) or short read *)
Definition parse_footer (file : bytes) : option (N * N) :=
  let n := nlen file in
  if n <? footer_size then None
  else
    let f := sub (n - footer_size) footer_size file in
    if beq_bytes (sub (uint32_size + uint64_size) magic_number_size f) magic_number
    then Some (be_dec (sub 0 uint32_size f), be_dec (sub uint32_size uint64_size f))
    else None.

Definition dec_tuple (b : bytes) : tuple := (be_dec (firstn w_pre b), be_dec (skipn w_pre b)).

Definition mk_pindex (ts : list tuple) (lengths suffixes : list N) (count unc : N) : pindex :=
  let offs := cumsum 0 lengths in
  let chunks1 := N.to_nat (count - count / 2) in
  {| pi_tuples := ts; pi_off1 := firstn chunks1 offs; pi_off2 := skipn chunks1 offs;
     pi_suffixes := suffixes; pi_count := count; pi_unc := unc |}.

(* readTableIndexByCopy + newOnHeapTableIndex.  None covers ErrInvalidTableFile,
   a file shorter than indexSize(count)+footerSize (seek error).  A well-sized
   buffer with garbage content parses (and later lookups may misbehave): C10. *)
Definition parse_index (file : bytes) : option pindex :=
  match parse_footer file with
  | None => None
  | Some (count, unc) =>
    let idxsz := index_size count + footer_size in
    if nlen file <? idxsz then None
    else
      let buff := sub (nlen file - idxsz) idxsz file in
      let cnt := N.to_nat count in
      let tuples_b := sub 0 (prefix_tuple_size * count) buff in
      let lengths_b := sub (lengths_offset count) (length_size * count) buff in
      let suffixes_b := sub (suffixes_offset count) (hash_suffix_len * count) buff in
      Some (mk_pindex (map dec_tuple (split_n cnt w_tuple tuples_b))
                      (map be_dec (split_n cnt w32 lengths_b))
                      (map be_dec (split_n cnt w_suf suffixes_b))
                      count unc)
  end.

(* what parse_index is expected to return on write_table_with ts rs *)
Definition build_pindex (ts : list tuple) (rs : list rec) : pindex :=
  mk_pindex ts (map rec_len rs) (map (fun r => a_suffix (r_addr r)) rs) (nlen rs) (total_unc rs).

(* ---- accessors: prefixAt / ordinalAt / offsetAt / getIndexEntry ---- *)
Definition prefix_at (ix : pindex) (i : N) : N := fst (nth_N (pi_tuples ix) i (0, 0)).
Definition ordinal_at (ix : pindex) (i : N) : N := snd (nth_N (pi_tuples ix) i (0, 0)).
Definition offset_at (ix : pindex) (ord : N) : N :=
  let chunks1 := pi_count ix - pi_count ix / 2 in
  if ord <? chunks1 then nth_N (pi_off1 ix) ord 0 else nth_N (pi_off2 ix) (ord - chunks1) 0.
(* length := uint32(ordOff - prevOff): lengths are uint32 on disk, no truncation *)
Definition get_index_entry (ix : pindex) (ord : N) : N * N :=
  let prev := if ord =? 0 then 0 else offset_at ix (ord - 1) in
  (prev, offset_at ix ord - prev).

(* The inlined sort.Search of findPrefix, also the carried search of
   hasMany/findOffsets (there it starts at filterIdx instead of 0). *)
Fixpoint bsearch (fuel : nat) (pf : N -> N) (target idx j : N) : N :=
  match fuel with
  | O => idx
  | S f =>
    if idx <? j then
      let h := idx + (j - idx) / 2 in
      if pf h <? target then bsearch f pf target (h + 1) j
      else bsearch f pf target idx h
    else idx
  end.
Definition search_fuel (ix : pindex) : nat := S (length (pi_tuples ix)).
Definition find_prefix_from (ix : pindex) (p from : N) : N :=
  bsearch (search_fuel ix) (prefix_at ix) p from (pi_count ix).
Definition find_prefix (ix : pindex) (p : N) : N := find_prefix_from ix p 0.

(* for idx := start; idx < count && prefixAt(idx) == prefix; idx++ { if entrySuffixMatches … } *)
Fixpoint scan_suffix (ts : list tuple) (sfx : list N) (h : addr) : option N :=
  match ts with
  | [] => None
  | (p, o) :: t =>
    if p =? a_prefix h then
      if nth_N sfx o 0 =? a_suffix h then Some o else scan_suffix t sfx h
    else None
  end.
Definition scan_at (ix : pindex) (start : N) (h : addr) : option N :=
  scan_suffix (skipn (N.to_nat start) (pi_tuples ix)) (pi_suffixes ix) h.

(* lookupOrdinal: count when absent *)
Definition lookup_ordinal (ix : pindex) (h : addr) : N :=
  match scan_at ix (find_prefix ix (a_prefix h)) h with Some o => o | None => pi_count ix end.
(* lookup *)
Definition lookup (ix : pindex) (h : addr) : option (N * N) :=
  let ord := lookup_ordinal ix h in
  if ord =? pi_count ix then None else Some (get_index_entry ix ord).

(* tableReader.hasMany: requests sorted by prefix, each with its has flag.
   Returns the updated requests and `remaining`. *)
Definition req := (addr * bool)%type.
Fixpoint has_many_loop (ix : pindex) (reqs : list req) (fidx : N) (rem : bool) : list req * bool :=
  match reqs with
  | [] => ([], rem)
  | (a, true) :: t =>
    let '(t', r) := has_many_loop ix t fidx rem in ((a, true) :: t', r)
  | (a, false) :: t =>
    let fidx' := find_prefix_from ix (a_prefix a) fidx in
    if pi_count ix <=? fidx' then ((a, false) :: t, true)           (* filterIdx >= filterLen: return true *)
    else if negb (a_prefix a =? prefix_at ix fidx') then
      let '(t', r) := has_many_loop ix t fidx' true in ((a, false) :: t', r)
    else
      match scan_at ix fidx' a with
      | Some _ => let '(t', r) := has_many_loop ix t fidx' rem in ((a, true) :: t', r)
      | None => let '(t', r) := has_many_loop ix t fidx' true in ((a, false) :: t', r)
      end
  end.
Definition has_many (ix : pindex) (reqs : list req) : list req * bool := has_many_loop ix reqs 0 false.

(* tableReader.findOffsets: like hasMany, collecting (addr, offset, length) *)
Definition offrec := (addr * (N * N))%type.
Fixpoint find_offsets_loop (ix : pindex) (reqs : list req) (fidx : N) (rem : bool)
  : list req * list offrec * bool :=
  match reqs with
  | [] => ([], [], rem)
  | (a, true) :: t =>
    let '(t', ors, r) := find_offsets_loop ix t fidx rem in ((a, true) :: t', ors, r)
  | (a, false) :: t =>
    let fidx' := find_prefix_from ix (a_prefix a) fidx in
    if pi_count ix <=? fidx' then ((a, false) :: t, [], true)        (* remaining = true; break *)
    else if negb (a_prefix a =? prefix_at ix fidx') then
      let '(t', ors, r) := find_offsets_loop ix t fidx' true in ((a, false) :: t', ors, r)
    else
      match scan_at ix fidx' a with
      | Some o =>
        let '(t', ors, r) := find_offsets_loop ix t fidx' rem in
        ((a, true) :: t', (a, get_index_entry ix o) :: ors, r)
      | None =>
        let '(t', ors, r) := find_offsets_loop ix t fidx' true in ((a, false) :: t', ors, r)
      end
  end.
(* sort.Sort(ors) by offset *)
Fixpoint insert_off (x : offrec) (l : list offrec) : list offrec :=
  match l with
  | [] => [x]
  | y :: t => if fst (snd y) <? fst (snd x) then y :: insert_off x t else x :: l
  end.
Definition sort_offs (l : list offrec) : list offrec := fold_right insert_off [] l.
Definition find_offsets (ix : pindex) (reqs : list req) : list req * list offrec * bool :=
  let '(reqs', ors, r) := find_offsets_loop ix reqs 0 false in (reqs', sort_offs ors, r).

(* ------------------------------------------------------------------ *)
(* Reading chunk records.  The checksum function and the (de)compressor are
   parameters: the property does not depend on which ones are used. *)
Inductive rd (A : Type) : Type :=
| ROk (a : A) | RErrRead | RErrChecksum | RErrEmpty | RErrDecode.
Arguments ROk {A} a. Arguments RErrRead {A}. Arguments RErrChecksum {A}.
Arguments RErrEmpty {A}. Arguments RErrDecode {A}.

Definition rd_map {A B} (f : A -> B) (r : rd A) : rd B :=
  match r with ROk a => ROk (f a) | RErrRead => RErrRead | RErrChecksum => RErrChecksum
             | RErrEmpty => RErrEmpty | RErrDecode => RErrDecode end.
Definition rd_bind {A B} (r : rd A) (f : A -> rd B) : rd B :=
  match r with ROk a => f a | RErrRead => RErrRead | RErrChecksum => RErrChecksum
             | RErrEmpty => RErrEmpty | RErrDecode => RErrDecode end.

Record table := mkTable { t_file : bytes; t_ix : pindex }.
Definition open_table (file : bytes) : option table :=
  match parse_index file with None => None | Some ix => Some (mkTable file ix) end.

(* insertion sort on addresses (canonical order of result sets) *)
Fixpoint insert_chunk (x : addr * bytes) (l : list (addr * bytes)) : list (addr * bytes) :=
  match l with
  | [] => [x]
  | y :: t => if addr_ltb (fst y) (fst x) then y :: insert_chunk x t else x :: l
  end.
Definition sort_chunks (l : list (addr * bytes)) := fold_right insert_chunk [] l.
Fixpoint insert_addr (x : addr) (l : list addr) : list addr :=
  match l with
  | [] => [x]
  | y :: t => if addr_ltb y x then y :: insert_addr x t else x :: l
  end.
Definition sort_addrs (l : list addr) := fold_right insert_addr [] l.
(* sort.Sort(hasRecordByPrefix / getRecordByPrefix): by prefix only (the model
   sorts stably; results do not depend on the order inside a prefix run) *)
Fixpoint insert_req (x : req) (l : list req) : list req :=
  match l with
  | [] => [x]
  | y :: t => if a_prefix (fst y) <? a_prefix (fst x) then y :: insert_req x t else x :: l
  end.
Definition sort_reqs (l : list req) := fold_right insert_req [] l.

Section Codec.
  Variable crc : bytes -> N.
  Variable compress : bytes -> bytes.
  Variable decompress : bytes -> option bytes.

  (* ReadAtWithStats(off, len) + NewCompressedChunk + ToChunk (tableReader.get).
     A record shorter than the checksum makes the real code slice out of range
     (panic); that is C10's concern, here it is a read error. *)
  Definition read_chunk (file : bytes) (off len : N) : rd bytes :=
    let buff := sub off len file in
    if negb (nlen buff =? len) then RErrRead
    else if len <? checksum_size then RErrRead
    else
      let dlen := len - checksum_size in
      let data := firstn (N.to_nat dlen) buff in
      let chk := be_dec (skipn (N.to_nat dlen) buff) in
      if negb (chk =? crc data) then RErrChecksum
      else if dlen =? 0 then RErrEmpty
      else match decompress data with None => RErrDecode | Some d => ROk d end.

  (* tableReader.has / get *)
  Definition table_has (t : table) (h : addr) : bool :=
    match lookup (t_ix t) h with Some _ => true | None => false end.
  Definition table_get (t : table) (h : addr) : rd (option bytes) :=
    match lookup (t_ix t) h with
    | None => ROk None
    | Some (off, len) => rd_map Some (read_chunk (t_file t) off len)
    end.

  (* getMany: findOffsets then one read per offset record (batching of reads is IO only) *)
  Fixpoint read_offs (file : bytes) (ors : list offrec) : rd (list (addr * bytes)) :=
    match ors with
    | [] => ROk []
    | (a, (off, len)) :: t =>
      rd_bind (read_chunk file off len) (fun d =>
      rd_map (fun l => (a, d) :: l) (read_offs file t))
    end.
  Definition table_get_many (t : table) (reqs : list req) : list req * rd (list (addr * bytes)) * bool :=
    let '(reqs', ors, r) := find_offsets (t_ix t) reqs in (reqs', read_offs (t_file t) ors, r).

  (* iterateAllChunks: every index position -> (address from prefix+suffix, entry),
     sorted by offset, then read sequentially from offset 0 *)
  Fixpoint index_entries (ix : pindex) (ts : list tuple) : list offrec :=
    match ts with
    | [] => []
    | (p, o) :: t => ((p, nth_N (pi_suffixes ix) o 0), get_index_entry ix o) :: index_entries ix t
    end.
  Fixpoint read_seq (file : bytes) (pos : N) (ors : list offrec) : rd (list (addr * bytes)) :=
    match ors with
    | [] => ROk []
    | (a, (_, len)) :: t =>
      rd_bind (read_chunk file pos len) (fun d =>
      rd_map (fun l => (a, d) :: l) (read_seq file (pos + len) t))
    end.
  Definition table_iterate (t : table) : rd (list (addr * bytes)) :=
    read_seq (t_file t) 0 (sort_offs (index_entries (t_ix t) (pi_tuples (t_ix t)))).

  Definition table_count (t : table) : N := pi_count (t_ix t).
  Definition table_unc (t : table) : N := pi_unc (t_ix t).

  (* ---------------------------------------------------------------- *)
  (* memTable *)
  Record memtable := mkMem { mt_chunks : list (addr * bytes); mt_total : N }.
  Definition mt_empty : memtable := mkMem [] 0.
  Fixpoint assoc (l : list (addr * bytes)) (h : addr) : option bytes :=
    match l with [] => None | (a, d) :: t => if addr_eqb a h then Some d else assoc t h end.

  Inductive add_result := ChunkExists | ChunkAdded | ChunkNotAdded.
  (* memTable.addChunk (data non-empty; the empty case panics and is handled by the caller) *)
  Definition mt_add (max : N) (mt : memtable) (h : addr) (d : bytes) : add_result * memtable :=
    match assoc (mt_chunks mt) h with
    | Some _ => (ChunkExists, mt)
    | None =>
      if max <? mt_total mt + nlen d then (ChunkNotAdded, mt)
      else (ChunkAdded, mkMem (mt_chunks mt ++ [(h, d)]) (mt_total mt + nlen d))
    end.
  Definition mt_has_many (mt : memtable) (reqs : list req) : list req * bool :=
    fold_right (fun (r : req) (acc : list req * bool) =>
                  let '(l, rem) := acc in
                  if snd r then (r :: l, rem)
                  else match assoc (mt_chunks mt) (fst r) with
                       | Some _ => ((fst r, true) :: l, rem)
                       | None => (r :: l, true)
                       end) ([], false) reqs.
  (* memTable.getMany does not look at r.found *)
  Definition mt_get_many (mt : memtable) (reqs : list req) : list req * list (addr * bytes) * bool :=
    fold_right (fun (r : req) (acc : list req * list (addr * bytes) * bool) =>
                  let '(l, cs, rem) := acc in
                  match assoc (mt_chunks mt) (fst r) with
                  | Some d => ((fst r, true) :: l, (fst r, d) :: cs, rem)
                  | None => (r :: l, cs, true)
                  end) ([], [], false) reqs.

  (* ---------------------------------------------------------------- *)
  (* tableSet: novel sources first, then upstream; stop at the first hit.
     (Go iterates maps: the order inside each list is arbitrary.) *)
  Fixpoint srcs_has (ts : list table) (h : addr) : bool :=
    match ts with [] => false | t :: r => if table_has t h then true else srcs_has r h end.
  Fixpoint srcs_get (ts : list table) (h : addr) : rd (option bytes) :=
    match ts with
    | [] => ROk None
    | t :: r => rd_bind (table_get t h) (fun o => match o with Some d => ROk (Some d) | None => srcs_get r h end)
    end.
  Fixpoint srcs_has_many (ts : list table) (reqs : list req) : list req * bool :=
    match ts with
    | [] => (reqs, true)
    | t :: r => let '(reqs', rem) := has_many (t_ix t) reqs in
                if rem then srcs_has_many r reqs' else (reqs', false)
    end.
  Fixpoint srcs_get_many (ts : list table) (reqs : list req) : list req * rd (list (addr * bytes)) * bool :=
    match ts with
    | [] => (reqs, ROk [], true)
    | t :: r =>
      let '(reqs', got, rem) := table_get_many t reqs in
      if rem then
        let '(reqs'', got', rem') := srcs_get_many r reqs' in
        (reqs'', rd_bind got (fun a => rd_map (fun b => a ++ b) got'), rem')
      else (reqs', got, false)
    end.

  Definition ts_has (novel up : list table) (h : addr) : bool := srcs_has novel h || srcs_has up h.
  Definition ts_get (novel up : list table) (h : addr) : rd (option bytes) :=
    rd_bind (srcs_get novel h) (fun o => match o with Some d => ROk (Some d) | None => srcs_get up h end).
  Definition ts_has_many (novel up : list table) (reqs : list req) : list req * bool :=
    let '(r1, rem) := srcs_has_many novel reqs in
    if rem then srcs_has_many up r1 else (r1, false).
  Definition ts_get_many (novel up : list table) (reqs : list req) : list req * rd (list (addr * bytes)) * bool :=
    let '(r1, got, rem) := srcs_get_many novel reqs in
    if rem then
      let '(r2, got', rem') := srcs_get_many up r1 in
      (r2, rd_bind got (fun a => rd_map (fun b => a ++ b) got'), rem')
    else (r1, got, false).

  (* ---------------------------------------------------------------- *)
  (* NomsBlockStore *)
  Record store := mkStore { s_mem : option memtable; s_novel : list table; s_up : list table; s_memsz : N }.
  Definition store_empty (memsz : N) : store := mkStore None [] [] memsz.

  Definition mk_rec (c : addr * bytes) : rec :=
    let z := compress (snd c) in mkRec (fst c) z (crc z) (nlen (snd c)).

  (* memTable.write(haver = tableSet): chunks the tables already have are dropped,
     the rest is written in insertion order. *)
  Definition mt_to_records (novel up : list table) (mt : memtable) : list rec :=
    let reqs := sort_reqs (map (fun c => (fst c, false)) (mt_chunks mt)) in
    let '(reqs', _) := ts_has_many novel up reqs in
    let present := map fst (filter (fun r : req => snd r) reqs') in
    map mk_rec (filter (fun c => negb (existsb (addr_eqb (fst c)) present)) (mt_chunks mt)).

  (* tableSet.append + fsTablePersister.Persist: None = a file that does not re-open
     (never happens for files this model writes: parse_write_table) *)
  Definition append_mt (novel up : list table) (mt : memtable) : option (list table) :=
    match mt_to_records novel up mt with
    | [] => Some novel                               (* chunkCount == 0: emptyChunkSource *)
    | rs => match open_table (write_table rs) with
            | Some t => Some (t :: novel)
            | None => None
            end
    end.

  Inductive put_result := PutOk | PutErrTooBig | PutErrPersist | PutPanicEmpty.
  (* NomsBlockStore.addChunk (no GC in progress, no child references) *)
  Definition store_put (s : store) (h : addr) (d : bytes) : put_result * store :=
    match d with
    | [] => (PutPanicEmpty,                            (* memTable.addChunk panics; a nil memtable was already replaced *)
             mkStore (Some (match s_mem s with Some m => m | None => mt_empty end)) (s_novel s) (s_up s) (s_memsz s))
    | _ =>
      let mt := match s_mem s with Some m => m | None => mt_empty end in
      match mt_add (s_memsz s) mt h d with
      | (ChunkNotAdded, _) =>
        match mt_chunks mt with
        | [] => (PutErrPersist, mkStore (Some mt) (s_novel s) (s_up s) (s_memsz s))   (* "mem table cannot write with zero chunks" *)
        | _ =>
          match append_mt (s_novel s) (s_up s) mt with
          | None => (PutErrPersist, mkStore (Some mt) (s_novel s) (s_up s) (s_memsz s))
          | Some novel' =>
            let '(res, mt') := mt_add (s_memsz s) mt_empty h d in
            (match res with ChunkNotAdded => PutErrTooBig | _ => PutOk end,
             mkStore (Some mt') novel' (s_up s) (s_memsz s))
          end
        end
      | (_, mt') => (PutOk, mkStore (Some mt') (s_novel s) (s_up s) (s_memsz s))
      end
    end.

  (* Commit(root, root): flush the memtable into a novel table, update the
     manifest, flatten (novel becomes upstream). *)
  Definition store_flush (s : store) : bool * store :=
    let flushed :=
      match s_mem s with
      | Some mt => match mt_chunks mt with
                   | [] => Some (s_mem s, s_novel s)
                   | _ => match append_mt (s_novel s) (s_up s) mt with
                          | Some n => Some (None, n)
                          | None => None
                          end
                   end
      | None => Some (None, s_novel s)
      end in
    match flushed with
    | None => (false, s)
    | Some (mem', novel') =>
      match s_mem s, s_novel s with
      | None, [] => (true, s)                          (* nothing possibly novel: rebase only *)
      | _, _ => (true, mkStore mem' [] (novel' ++ s_up s) (s_memsz s))
      end
    end.

  Definition store_get (s : store) (h : addr) : rd (option bytes) :=
    match match s_mem s with Some mt => assoc (mt_chunks mt) h | None => None end with
    | Some d => ROk (Some d)
    | None => ts_get (s_novel s) (s_up s) h
    end.
  Definition store_has (s : store) (h : addr) : bool :=
    match match s_mem s with Some mt => assoc (mt_chunks mt) h | None => None end with
    | Some _ => true
    | None => ts_has (s_novel s) (s_up s) h
    end.
  (* hasManyDep: the absent subset *)
  Definition store_has_many (s : store) (hs : list addr) : list addr :=
    match hs with
    | [] => []
    | _ =>
      let reqs := sort_reqs (map (fun h => (h, false)) hs) in
      let '(r1, rem1) := match s_mem s with Some mt => mt_has_many mt reqs | None => (reqs, true) end in
      if negb rem1 then []
      else
        let '(r2, rem2) := ts_has_many (s_novel s) (s_up s) r1 in
        if negb rem2 then []
        else map fst (filter (fun r : req => negb (snd r)) r2)
    end.
  (* getManyWithFunc: the chunks handed to the callback *)
  Definition store_get_many (s : store) (hs : list addr) : rd (list (addr * bytes)) :=
    match hs with
    | [] => ROk []
    | _ =>
      let reqs := sort_reqs (map (fun h => (h, false)) hs) in
      let '(r1, got1, rem1) := match s_mem s with Some mt => mt_get_many mt reqs | None => (reqs, [], true) end in
      if negb rem1 then ROk got1
      else
        let '(_, got2, _) := ts_get_many (s_novel s) (s_up s) r1 in
        rd_map (fun g => got1 ++ g) got2
    end.
  (* IterateAllChunks: tables only (the memtable is not visited) *)
  Fixpoint srcs_iterate (ts : list table) : rd (list (addr * bytes)) :=
    match ts with
    | [] => ROk []
    | t :: r => rd_bind (table_iterate t) (fun a => rd_map (fun b => a ++ b) (srcs_iterate r))
    end.
  Definition store_iterate (s : store) : rd (list (addr * bytes)) :=
    rd_bind (srcs_iterate (s_novel s)) (fun a => rd_map (fun b => a ++ b) (srcs_iterate (s_up s))).

  (* ---------------------------------------------------------------- *)
  (* GenerationalNBS: reads go old then new (HasMany: new then old), writes go to new *)
  Record gstore := mkG { g_old : store; g_new : store }.
  Definition g_get (g : gstore) (h : addr) : rd (option bytes) :=
    rd_bind (store_get (g_old g) h) (fun o => match o with Some d => ROk (Some d) | None => store_get (g_new g) h end).
  Definition g_has (g : gstore) (h : addr) : bool := store_has (g_old g) h || store_has (g_new g) h.
  Definition g_has_many (g : gstore) (hs : list addr) : list addr :=
    match store_has_many (g_new g) hs with
    | [] => []
    | absent => store_has_many (g_old g) absent
    end.
  Definition g_get_many (g : gstore) (hs : list addr) : rd (list (addr * bytes)) :=
    rd_bind (store_get_many (g_old g) hs) (fun got =>
      let rest := filter (fun h => negb (existsb (addr_eqb h) (map fst got))) hs in
      match rest with
      | [] => ROk got
      | _ => rd_map (fun g2 => got ++ g2) (store_get_many (g_new g) rest)
      end).
  Definition g_iterate (g : gstore) : rd (list (addr * bytes)) :=
    rd_bind (store_iterate (g_new g)) (fun a => rd_map (fun b => a ++ b) (store_iterate (g_old g))).
End Codec.
