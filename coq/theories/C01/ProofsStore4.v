(* C01 — store_refines_map: every history of the store state machine answers like the abstract map. *)
From Coq Require Import NArith Arith List Bool Lia Sorting.Permutation Sorting.Sorted.
From Dolt Require Import Base.Str Gen.C01Consts C01.Model C01.Spec C01.Corr C01.Proofs C01.ProofsBytes C01.ProofsSort
  C01.ProofsTable C01.ProofsStore C01.ProofsStore2 C01.ProofsStore3.
Import ListNotations.
Local Open Scope N_scope.

Lemma chunks_eqb_refl l : chunks_eqb l l = true.
Proof. induction l as [|x l IH]; [reflexivity|]. cbn [chunks_eqb]. rewrite addr_eqb_refl, beq_bytes_refl, IH. reflexivity. Qed.
Lemma addrs_eqb_refl l : addrs_eqb l l = true.
Proof. induction l as [|x l IH]; [reflexivity|]. cbn [addrs_eqb]. rewrite addr_eqb_refl, IH. reflexivity. Qed.
Lemma opt_bytes_eqb_refl o : opt_bytes_eqb o o = true.
Proof. destruct o; [apply beq_bytes_refl | reflexivity]. Qed.

Lemma NoDup_filter' {A} (p : A -> bool) l : NoDup l -> NoDup (filter p l).
Proof. intros N. rewrite <- (map_id (filter p l)). apply NoDup_map_filter. rewrite map_id. exact N. Qed.

(* what the operations of a history must satisfy: content addressing, well-formed
   addresses, batched reads take sets, old-generation writes only in generational
   configurations *)
Definition good_op (cfg : N) (content : addr -> bytes) (o : op) : Prop :=
  match o with
  | OpPut a d => d = content a /\ addr_wf a
  | OpPutOld a d => d = content a /\ addr_wf a /\ cfg <> 0
  | OpFlushOld => cfg <> 0
  | OpGetMany l => NoDup l
  | OpGetManyC l => NoDup l
  | _ => True
  end.

Section Refine.
  Variable content : addr -> bytes.
  Variable memsz : N.
  Hypothesis memsz_small : memsz + checksum_size < 2 ^ 32.
  Variable cfg : N.

  Let dc : forall d, decomp0 (comp0 d) = Some d := fun d => eq_refl.
  Lemma crc0_range : forall b, crc0 b < 2 ^ 32. Proof. intros b. unfold crc0. lia. Qed.
  Lemma comp0_nonempty : forall d, d <> [] -> comp0 d <> []. Proof. intros d H. exact H. Qed.
  Lemma memsz_lt : memsz < 2 ^ 32. Proof. unfold checksum_size in memsz_small. lia. Qed.
  Lemma comp0_bound : forall d, nlen d <= memsz -> nlen (comp0 d) + checksum_size < 2 ^ 32.
  Proof. intros d H. unfold comp0. lia. Qed.

  Notation srep := (srep crc0 comp0 content memsz).

  Definition gen : bool := negb (cfg =? 0).
  Definition gM (g : gstore) (rO rN : list (list rec)) (h : addr) : bool := smem (g_old g) rO h || smem (g_new g) rN h.

  Record Sim (g : gstore) (st : astate) (rO rN : list (list rec)) : Prop := mkSim {
    sim_old : srep (g_old g) rO;
    sim_new : srep (g_new g) rN;
    sim_cfg0 : cfg = 0 -> forall h, smem (g_old g) rO h = false;
    sim_map : forall h, amap_get (a_map st) h = if gM g rO rN h then Some (content h) else None;
    sim_pn : forall h, mt_in (mtc (g_new g)) h = true -> In h (a_pend_new st);
    sim_po : forall h, mt_in (mtc (g_old g)) h = true -> In h (a_pend_old st) }.

  Lemma old_false g st rO rN : Sim g st rO rN -> gen = false -> forall h, smem (g_old g) rO h = false.
  Proof. intros S G. apply (sim_cfg0 _ _ _ _ S). unfold gen in G. apply negb_false_iff, N.eqb_eq in G. exact G. Qed.

  (* ---- reads ---- *)
  Lemma read_get g st rO rN a : Sim g st rO rN ->
    (if gen then g_get crc0 decomp0 g a else st_get (g_new g) a) = ROk (if gM g rO rN a then Some (content a) else None).
  Proof.
    intros S. unfold gM, st_get, g_get.
    rewrite (store_get_spec crc0 comp0 decomp0 dc content memsz _ rN a (sim_new _ _ _ _ S)).
    rewrite (store_get_spec crc0 comp0 decomp0 dc content memsz _ rO a (sim_old _ _ _ _ S)).
    destruct gen eqn:G.
    - cbn [rd_bind]. destruct (smem (g_old g) rO a); reflexivity.
    - rewrite (old_false g st rO rN S G). reflexivity.
  Qed.

  Lemma read_has g st rO rN a : Sim g st rO rN ->
    (if gen then g_has g a else st_has (g_new g) a) = gM g rO rN a.
  Proof.
    intros S. unfold gM, st_has, g_has.
    rewrite (store_has_spec crc0 comp0 content memsz _ rN a (sim_new _ _ _ _ S)).
    rewrite (store_has_spec crc0 comp0 content memsz _ rO a (sim_old _ _ _ _ S)).
    destruct gen eqn:G; [reflexivity | rewrite (old_false g st rO rN S G); reflexivity].
  Qed.

  Lemma read_has_many g st rO rN l : Sim g st rO rN ->
    Permutation (if gen then g_has_many g l else st_has_many (g_new g) l) (filter (fun h => negb (gM g rO rN h)) l).
  Proof.
    intros S.
    pose proof (store_has_many_spec crc0 comp0 content memsz _ rN l (sim_new _ _ _ _ S)) as PN.
    assert (EF : filter (fun h => negb (gM g rO rN h)) l
                 = filter (fun h => negb (smem (g_old g) rO h)) (filter (fun h => negb (smem (g_new g) rN h)) l)).
    { rewrite filter_filter. apply filter_ext. intros h. unfold gM. destruct (smem (g_old g) rO h), (smem (g_new g) rN h); reflexivity. }
    destruct gen eqn:G.
    - unfold g_has_many. rewrite EF. destruct (store_has_many (g_new g) l) as [|x xs] eqn:E1.
      + apply Permutation_nil in PN. rewrite PN. reflexivity.
      + rewrite <- E1 in *.
        rewrite (store_has_many_spec crc0 comp0 content memsz _ rO _ (sim_old _ _ _ _ S)). apply Permutation_filter. exact PN.
    - unfold st_has_many. rewrite PN. rewrite EF.
      rewrite (filter_ext_in _ (fun _ => true) (filter (fun h => negb (smem (g_new g) rN h)) l)).
      + clear. induction (filter (fun h : addr => negb (smem (g_new g) rN h)) l) as [|x t IH]; cbn [filter]; [reflexivity | constructor; exact IH].
      + intros h _. rewrite (old_false g st rO rN S G). reflexivity.
  Qed.

  Lemma read_get_many g st rO rN l : Sim g st rO rN -> NoDup l ->
    exists r, (if gen then g_get_many crc0 decomp0 g l else st_get_many (g_new g) l) = ROk r
      /\ NoDup (map fst r)
      /\ (forall a d, In (a, d) r <-> In a l /\ gM g rO rN a = true /\ d = content a).
  Proof.
    intros S ND. destruct gen eqn:G.
    - unfold g_get_many.
      destruct (store_get_many_spec crc0 comp0 decomp0 dc content memsz _ rO l (sim_old _ _ _ _ S) ND) as (l1 & E1 & N1 & M1).
      rewrite E1. cbn [rd_bind].
      set (rest := filter (fun h => negb (existsb (addr_eqb h) (map fst l1))) l).
      assert (Er : rest = filter (fun h => negb (smem (g_old g) rO h)) l).
      { unfold rest. apply filter_ext_in. intros h Hh. f_equal. apply bool_eq_iff. rewrite existsb_addr, in_map_iff. split.
        - intros ([a d] & Ea & I). cbn [fst] in Ea. subst a. apply M1 in I. exact (proj1 (proj2 I)).
        - intros P. exists (h, content h). split; [reflexivity|]. apply M1. repeat split; assumption. }
      assert (NDr : NoDup rest) by (rewrite Er; apply NoDup_filter'; exact ND).
      destruct (store_get_many_spec crc0 comp0 decomp0 dc content memsz _ rN rest (sim_new _ _ _ _ S) NDr) as (l2 & E2 & N2 & M2).
      assert (Hrest : forall a, In a rest <-> In a l /\ smem (g_old g) rO a = false).
      { intros a. rewrite Er, filter_In, negb_true_iff. reflexivity. }
      assert (Res : (match rest with [] => ROk l1 | _ :: _ => rd_map (fun g2 => l1 ++ g2) (store_get_many crc0 decomp0 (g_new g) rest) end)
                    = ROk (l1 ++ l2)).
      { destruct rest as [|x xs] eqn:Ex; [|rewrite E2; reflexivity].
        destruct l2 as [|[a d] l2']; [rewrite app_nil_r; reflexivity|]. exfalso.
        destruct (proj1 (M2 a d) (or_introl eq_refl)) as ([] & _). }
      rewrite Res. exists (l1 ++ l2). split; [reflexivity|]. split.
      + rewrite map_app. apply NoDup_app_intro; [exact N1 | exact N2|].
        intros a Ha1 Ha2. apply in_map_iff in Ha1, Ha2. destruct Ha1 as ([a1 d1] & <- & I1), Ha2 as ([a2 d2] & E & I2). cbn [fst] in *. subst a2.
        apply M1 in I1. apply M2 in I2. destruct I1 as (_ & P & _), I2 as (Q & _ & _). apply Hrest in Q. destruct Q as [_ Q]. congruence.
      + intros a d. rewrite in_app_iff, M1, M2, Hrest. unfold gM. split.
        * intros [(A & B & C) | ((A & B) & C & D)]; repeat split; try assumption; [rewrite B | rewrite C, orb_true_r]; reflexivity.
        * intros (A & B & C). destruct (smem (g_old g) rO a) eqn:P; [left | right]; repeat split; assumption.
    - unfold st_get_many.
      destruct (store_get_many_spec crc0 comp0 decomp0 dc content memsz _ rN l (sim_new _ _ _ _ S) ND) as (l1 & E1 & N1 & M1).
      exists l1. split; [exact E1|]. split; [exact N1|]. intros a d. rewrite M1. unfold gM.
      rewrite (old_false g st rO rN S G). reflexivity.
  Qed.

  (* ---- from result lists to the canonical observations ---- *)
  Lemma get_many_obs (m : amap) (M : addr -> bool) l r :
    (forall h, amap_get m h = if M h then Some (content h) else None) -> NoDup l ->
    NoDup (map fst r) -> (forall a d, In (a, d) r <-> In a l /\ M a = true /\ d = content a) ->
    sort_chunks r = spec_get_many m l.
  Proof.
    intros Hm ND N1 M1. unfold spec_get_many.
    set (sp := flat_map (fun h => match amap_get m h with Some d => [(h, d)] | None => [] end) l).
    assert (Msp : forall a d, In (a, d) sp <-> In a l /\ M a = true /\ d = content a).
    { intros a d. unfold sp. rewrite in_flat_map. split.
      - intros (h & Hh & I). rewrite Hm in I. destruct (M h) eqn:P; [|destruct I]. destruct I as [E | []]. inversion E; subst. repeat split; assumption.
      - intros (A & B & ->). exists a. split; [exact A|]. rewrite Hm, B. left. reflexivity. }
    assert (Nsp : NoDup (map fst sp)).
    { unfold sp. clear -ND. induction ND as [|h l Hn ND IH]; [constructor|]. cbn [flat_map]. destruct (amap_get m h); [|exact IH].
      cbn [app map fst]. constructor; [|exact IH]. intros C. apply Hn. apply in_map_iff in C. destruct C as ([a d] & E & I). cbn [fst] in E. subst a.
      apply in_flat_map in I. destruct I as (h' & Hh' & I'). destruct (amap_get m h'); [|destruct I']. destruct I' as [E | []]. inversion E; subst. exact Hh'. }
    apply sort_chunks_perm_eq.
    - intros x y Hx Hy. apply (NoDup_fst_inj r); assumption.
    - apply NoDup_Permutation; [exact (NoDup_map_inv _ _ N1) | exact (NoDup_map_inv _ _ Nsp)|].
      intros [a d]. rewrite M1, Msp. reflexivity.
  Qed.

  Lemma has_many_obs (m : amap) (M : addr -> bool) l r :
    (forall h, amap_get m h = if M h then Some (content h) else None) ->
    Permutation r (filter (fun h => negb (M h)) l) -> sort_addrs r = spec_has_many m l.
  Proof.
    intros Hm P. unfold spec_has_many. rewrite (sort_addrs_perm_eq _ _ P). f_equal. apply filter_ext. intros h. rewrite Hm. destruct (M h); reflexivity.
  Qed.
End Refine.
