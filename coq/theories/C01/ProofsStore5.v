(* C01 — store_refines_map (the simulation) and reads_agree. *)
From Coq Require Import NArith Arith List Bool Lia Sorting.Permutation Sorting.Sorted.
From Dolt Require Import Base.Str Gen.C01Consts C01.Model C01.Spec C01.Corr C01.Proofs C01.ProofsBytes C01.ProofsSort
  C01.ProofsTable C01.ProofsStore C01.ProofsStore2 C01.ProofsStore3 C01.ProofsStore4.
Import ListNotations.
Local Open Scope N_scope.

Lemma sort_chunks_perm l : Permutation (sort_chunks l) l.
Proof. rewrite sort_chunks_isort. apply isort_perm. Qed.

Lemma in_tables_chunks content rss h :
  in_tables rss h = true <-> exists c, In c (flat_map (map (chunk_of content)) rss) /\ fst c = h.
Proof.
  unfold in_tables. rewrite existsb_exists. split.
  - intros (rs & Hrs & P). apply in_table_In in P. apply in_map_iff in P. destruct P as (r & <- & Hr).
    exists (chunk_of content r). split; [|reflexivity]. apply in_flat_map. exists rs. split; [exact Hrs | apply in_map; exact Hr].
  - intros (c & Hc & <-). apply in_flat_map in Hc. destruct Hc as (rs & Hrs & Hc). apply in_map_iff in Hc. destruct Hc as (r & <- & Hr).
    exists rs. split; [exact Hrs|]. apply in_table_In. cbn [chunk_of fst]. apply in_map. exact Hr.
Qed.

Section Refine2.
  Variable content : addr -> bytes.
  Variable memsz : N.
  Hypothesis memsz_small : memsz + checksum_size < 2 ^ 32.
  Variable cfg : N.

  Let dc : forall d, decomp0 (comp0 d) = Some d := fun d => eq_refl.
  Notation Sim := (Sim content memsz cfg).
  Notation gen := (gen cfg).
  Notation put_spec := (store_put_spec crc0 comp0 content memsz (crc0_range memsz memsz_small) comp0_nonempty (memsz_lt memsz memsz_small) (comp0_bound memsz memsz_small)).
  Notation flush_spec := (store_flush_spec crc0 comp0 content memsz (crc0_range memsz memsz_small) comp0_nonempty (memsz_lt memsz memsz_small) (comp0_bound memsz memsz_small)).

  Lemma amap_put_get (m : amap) a d h (M : addr -> bool) :
    (forall x, amap_get m x = if M x then Some (content x) else None) -> d = content a ->
    amap_get (amap_put m a d) h = if addr_eqb a h || M h then Some (content h) else None.
  Proof.
    intros Hm Ed. unfold amap_put, amap_get in *. destruct (assoc m a) as [x|] eqn:A.
    - destruct (addr_eqb a h) eqn:E; [|exact (Hm h)]. apply addr_eqb_spec in E. subst h. cbn [orb].
      pose proof (Hm a) as Ha. rewrite A in Ha. rewrite A. destruct (M a); [exact Ha | discriminate].
    - rewrite assoc_app. cbn [assoc]. rewrite (Hm h). destruct (M h) eqn:Mh.
      + rewrite orb_true_r. reflexivity.
      + rewrite orb_false_r. destruct (addr_eqb a h) eqn:E; [|reflexivity]. apply addr_eqb_spec in E. subst h. rewrite Ed. reflexivity.
  Qed.

  Lemma step_ok g st rO rN o : Sim g st rO rN -> good_op cfg content o ->
    fst (spec_step st o (fst (run_op cfg g o))) = true
    /\ exists rO' rN', Sim (snd (run_op cfg g o)) (snd (spec_step st o (fst (run_op cfg g o)))) rO' rN'.
  Proof.
    intros S G. pose proof S as [So Sn Sc Sm Spn Spo]. destruct o as [a d| |a|a|l|l|l| |a d| ]; cbn [good_op] in G.
    - (* put *)
      destruct G as [Ed Wa]. destruct (put_spec (g_new g) rN a d Sn Ed Wa) as (rN' & R' & Hm & Hp).
      unfold run_op, st_put. destruct (store_put crc0 comp0 (g_new g) a d) as [res s'] eqn:Ep. cbn [fst snd] in *.
      unfold spec_step. destruct res; cbn [put_code N.eqb fst snd]; (split; [reflexivity|]); exists rO, rN'.
      + constructor; cbn [g_old g_new a_map a_pend_new a_pend_old]; try assumption.
        * intros h. rewrite (amap_put_get (a_map st) a d h (gM g rO rN) Sm Ed). unfold gM. cbn [g_old g_new]. rewrite Hm.
          destruct (addr_eqb a h), (smem (g_old g) rO h), (smem (g_new g) rN h); reflexivity.
        * intros h H. destruct (Hp h H) as [[_ ->] | H']; [left; reflexivity | right; exact (Spn h H')].
      + constructor; cbn [g_old g_new]; try assumption.
        * intros h. rewrite Sm. unfold gM. cbn [g_old g_new]. rewrite Hm. reflexivity.
        * intros h H. destruct (Hp h H) as [[C _] | H']; [discriminate | exact (Spn h H')].
      + constructor; cbn [g_old g_new]; try assumption.
        * intros h. rewrite Sm. unfold gM. cbn [g_old g_new]. rewrite Hm. reflexivity.
        * intros h H. destruct (Hp h H) as [[C _] | H']; [discriminate | exact (Spn h H')].
      + constructor; cbn [g_old g_new]; try assumption.
        * intros h. rewrite Sm. unfold gM. cbn [g_old g_new]. rewrite Hm. reflexivity.
        * intros h H. destruct (Hp h H) as [[C _] | H']; [discriminate | exact (Spn h H')].
    - (* flush *)
      destruct (flush_spec (g_new g) rN Sn) as (Ok & rN' & R' & Hm & Hp).
      unfold run_op, st_flush. destruct (store_flush crc0 comp0 (g_new g)) as [ok s'] eqn:Ef. cbn [fst snd] in *. subst ok.
      unfold spec_step. cbn [fst snd]. split; [reflexivity|]. exists rO, rN'.
      constructor; cbn [g_old g_new a_map a_pend_new a_pend_old]; try assumption.
      + intros h. rewrite Sm. unfold gM. cbn [g_old g_new]. rewrite Hm. reflexivity.
      + intros h H. rewrite Hp in H. discriminate.
    - (* get *)
      unfold run_op. cbn [fst snd]. fold gen. rewrite (read_get content memsz cfg g st rO rN a S).
      unfold obs_data, spec_step. cbn [fst snd]. rewrite Sm. split; [apply opt_bytes_eqb_refl|]. exists rO, rN. exact S.
    - (* has *)
      unfold run_op. cbn [fst snd]. fold gen. rewrite (read_has content memsz cfg g st rO rN a S).
      unfold spec_step. cbn [fst snd]. rewrite Sm. split; [destruct (gM g rO rN a); reflexivity|]. exists rO, rN. exact S.
    - (* get many *)
      destruct (read_get_many content memsz cfg g st rO rN l S G) as (r & Er & Nr & Mr).
      unfold run_op. cbn [fst snd]. fold gen. rewrite Er. unfold obs_chunks, spec_step. cbn [fst snd].
      rewrite (get_many_obs content (a_map st) (gM g rO rN) l r Sm G Nr Mr). split; [apply chunks_eqb_refl|]. exists rO, rN. exact S.
    - (* get many compressed *)
      destruct (read_get_many content memsz cfg g st rO rN l S G) as (r & Er & Nr & Mr).
      unfold run_op. cbn [fst snd]. fold gen. rewrite Er. unfold obs_chunks, spec_step. cbn [fst snd].
      rewrite (get_many_obs content (a_map st) (gM g rO rN) l r Sm G Nr Mr). split; [apply chunks_eqb_refl|]. exists rO, rN. exact S.
    - (* has many *)
      unfold run_op. cbn [fst snd]. fold gen. unfold spec_step. cbn [fst snd].
      rewrite (has_many_obs content (a_map st) (gM g rO rN) l _ Sm (read_has_many content memsz cfg g st rO rN l S)).
      split; [apply addrs_eqb_refl|]. exists rO, rN. exact S.
    - (* iterate *)
      unfold run_op. cbn [fst snd]. fold gen.
      pose proof (store_iterate_spec crc0 comp0 decomp0 dc content memsz _ rN Sn) as In_.
      pose proof (store_iterate_spec crc0 comp0 decomp0 dc content memsz _ rO So) as Io.
      set (lN := flat_map (map (chunk_of content)) rN) in *. set (lO := flat_map (map (chunk_of content)) rO) in *.
      assert (Eit : (if gen then g_iterate crc0 decomp0 g else st_iterate (g_new g)) = ROk (if gen then lN ++ lO else lN)).
      { destruct gen; [unfold g_iterate; rewrite In_, Io; reflexivity | exact In_]. }
      rewrite Eit. unfold obs_chunks, spec_step. cbn [fst snd]. split; [|exists rO, rN; exact S].
      set (l := if gen then lN ++ lO else lN).
      assert (HlN : forall c, In c lN -> in_tables rN (fst c) = true /\ snd c = content (fst c)).
      { intros c Hc. split; [apply (in_tables_chunks content); exists c; split; [exact Hc | reflexivity]|].
        apply in_flat_map in Hc. destruct Hc as (rs & _ & Hc). apply in_map_iff in Hc. destruct Hc as (r & <- & _). reflexivity. }
      assert (HlO : forall c, In c lO -> in_tables rO (fst c) = true /\ snd c = content (fst c)).
      { intros c Hc. split; [apply (in_tables_chunks content); exists c; split; [exact Hc | reflexivity]|].
        apply in_flat_map in Hc. destruct Hc as (rs & _ & Hc). apply in_map_iff in Hc. destruct Hc as (r & <- & _). reflexivity. }
      unfold spec_iter_ok. apply andb_true_iff. split.
      + apply forallb_forall. intros c Hc. apply (Permutation_in _ (sort_chunks_perm l)) in Hc. rewrite Sm.
        assert (Hg : gM g rO rN (fst c) = true /\ snd c = content (fst c)).
        { unfold l in Hc. unfold gM, smem. destruct gen; [apply in_app_iff in Hc; destruct Hc as [Hc | Hc]|].
          - destruct (HlN c Hc) as [P Q]. rewrite P, !orb_true_r. split; [reflexivity | exact Q].
          - destruct (HlO c Hc) as [P Q]. rewrite P, orb_true_r. split; [reflexivity | exact Q].
          - destruct (HlN c Hc) as [P Q]. rewrite P, !orb_true_r. split; [reflexivity | exact Q]. }
        destruct Hg as [P Q]. rewrite P, Q. apply beq_bytes_refl.
      + apply forallb_forall. intros e He.
        assert (Hg : gM g rO rN (fst e) = true).
        { pose proof (Sm (fst e)) as H. destruct (gM g rO rN (fst e)); [reflexivity|]. exfalso.
          apply (assoc_some_in (a_map st) (fst e)); [apply in_map; exact He | exact H]. }
        unfold gM, smem in Hg.
        assert (Hin : forall c, In c l -> existsb (fun c' => addr_eqb (fst c') (fst c)) (sort_chunks l) = true).
        { intros c Hc. apply existsb_exists. exists c. split; [apply (Permutation_in _ (Permutation_sym (sort_chunks_perm l))); exact Hc | apply addr_eqb_refl]. }
        apply orb_true_iff in Hg. destruct Hg as [Hg | Hg]; apply orb_true_iff in Hg; destruct Hg as [Hg | Hg].
        * apply orb_true_iff; left; apply orb_true_iff; right. apply existsb_exists.
          exists (fst e). split; [exact (Spo _ Hg) | apply addr_eqb_refl].
        * destruct gen eqn:Gn.
          -- apply (in_tables_chunks content) in Hg. destruct Hg as (c & Hc & Ec).
             apply orb_true_iff; right. rewrite <- Ec. apply Hin. unfold l. apply in_app_iff. right. exact Hc.
          -- exfalso. pose proof (old_false content memsz cfg g st rO rN S Gn (fst e)) as Z. unfold smem in Z. rewrite Hg, orb_true_r in Z. discriminate.
        * apply orb_true_iff; left; apply orb_true_iff; left. apply existsb_exists.
          exists (fst e). split; [exact (Spn _ Hg) | apply addr_eqb_refl].
        * apply (in_tables_chunks content) in Hg. destruct Hg as (c & Hc & Ec).
          apply orb_true_iff; right. rewrite <- Ec. apply Hin. unfold l. destruct gen; [apply in_app_iff; left|]; exact Hc.
    - (* put into the old generation *)
      destruct G as (Ed & Wa & Hc). destruct (put_spec (g_old g) rO a d So Ed Wa) as (rO' & R' & Hm & Hp).
      unfold run_op, st_put. destruct (store_put crc0 comp0 (g_old g) a d) as [res s'] eqn:Ep. cbn [fst snd] in *.
      unfold spec_step. destruct res; cbn [put_code N.eqb fst snd]; (split; [reflexivity|]); exists rO', rN.
      + constructor; cbn [g_old g_new a_map a_pend_new a_pend_old]; try assumption; [intros C; contradiction | |].
        * intros h. rewrite (amap_put_get (a_map st) a d h (gM g rO rN) Sm Ed). unfold gM. cbn [g_old g_new]. rewrite Hm.
          destruct (addr_eqb a h), (smem (g_old g) rO h), (smem (g_new g) rN h); reflexivity.
        * intros h H. destruct (Hp h H) as [[_ ->] | H']; [left; reflexivity | right; exact (Spo h H')].
      + constructor; cbn [g_old g_new]; try assumption; [intros C; contradiction | |].
        * intros h. rewrite Sm. unfold gM. cbn [g_old g_new]. rewrite Hm. reflexivity.
        * intros h H. destruct (Hp h H) as [[C _] | H']; [discriminate | exact (Spo h H')].
      + constructor; cbn [g_old g_new]; try assumption; [intros C; contradiction | |].
        * intros h. rewrite Sm. unfold gM. cbn [g_old g_new]. rewrite Hm. reflexivity.
        * intros h H. destruct (Hp h H) as [[C _] | H']; [discriminate | exact (Spo h H')].
      + constructor; cbn [g_old g_new]; try assumption; [intros C; contradiction | |].
        * intros h. rewrite Sm. unfold gM. cbn [g_old g_new]. rewrite Hm. reflexivity.
        * intros h H. destruct (Hp h H) as [[C _] | H']; [discriminate | exact (Spo h H')].
    - (* commit the old generation *)
      destruct (flush_spec (g_old g) rO So) as (Ok & rO' & R' & Hm & Hp).
      unfold run_op, st_flush. destruct (store_flush crc0 comp0 (g_old g)) as [ok s'] eqn:Ef. cbn [fst snd] in *. subst ok.
      unfold spec_step. cbn [fst snd]. split; [reflexivity|]. exists rO', rN.
      constructor; cbn [g_old g_new a_map a_pend_new a_pend_old]; try assumption; [intros C; contradiction | |].
      + intros h. rewrite Sm. unfold gM. cbn [g_old g_new]. rewrite Hm. reflexivity.
      + intros h H. rewrite Hp in H. discriminate.
  Qed.

  Lemma run_ok : forall ops g st rO rN, Sim g st rO rN -> Forall (good_op cfg content) ops ->
    spec_run st ops (run_ops cfg g ops) = true.
  Proof.
    induction ops as [|o ops IH]; intros g st rO rN S F; [reflexivity|].
    inversion F as [|? ? Go F']; subst. cbn [run_ops].
    destruct (step_ok g st rO rN o S Go) as (Ok & rO' & rN' & S').
    destruct (run_op cfg g o) as [ob g'] eqn:Er. cbn [fst snd] in *. cbn [spec_run].
    destruct (spec_step st o ob) as [ok st'] eqn:Es. cbn [fst snd] in *. subst ok. cbn [andb].
    exact (IH g' st' rO' rN' S' F').
  Qed.

  Lemma sim_init : Sim (mkG (store_empty memsz) (store_empty memsz)) a_init [] [].
  Proof.
    constructor; cbn [g_old g_new store_empty]; try (constructor; cbn; [exact I | constructor | reflexivity]); intros; try reflexivity; discriminate.
  Qed.

  (* HEADLINE.  For every history of put / commit / get / has / getMany /
     getManyCompressed / hasMany / iterateAllChunks operations (content-addressed
     puts, batched reads over sets), in every configuration (single store,
     old/new generations), every answer of the store state machine is the
     abstract map's answer and the map changes only by accepted puts. *)
  Theorem store_refines_map (ops : list op) :
    Forall (good_op cfg content) ops -> oracle (cfg, memsz, ops) (model_obs (cfg, memsz, ops)) = true.
  Proof. intros F. unfold oracle, model_obs. exact (run_ok ops _ _ _ _ sim_init F). Qed.

  (* all read APIs agree with each other in every reachable state *)
  Corollary reads_agree g st rO rN a : Sim g st rO rN ->
    (if gen then g_get crc0 decomp0 g a else st_get (g_new g) a)
    = ROk (if (if gen then g_has g a else st_has (g_new g) a) then Some (content a) else None)
    /\ Permutation (if gen then g_has_many g [a] else st_has_many (g_new g) [a])
                   (if (if gen then g_has g a else st_has (g_new g) a) then [] else [a]).
  Proof.
    intros S. rewrite (read_has content memsz cfg g st rO rN a S). split; [exact (read_get content memsz cfg g st rO rN a S)|].
    rewrite (read_has_many content memsz cfg g st rO rN [a] S). cbn [filter]. destruct (gM g rO rN a); reflexivity.
  Qed.
End Refine2.
