(* C01 — store level: put / flush preserve the representation and change membership only by the put. *)
From Coq Require Import NArith Arith List Bool Lia Sorting.Permutation Sorting.Sorted.
From Dolt Require Import Base.Str Gen.C01Consts C01.Model C01.Spec C01.Corr C01.Proofs C01.ProofsBytes C01.ProofsSort
  C01.ProofsTable C01.ProofsStore C01.ProofsStore2.
Import ListNotations.
Local Open Scope N_scope.

Lemma bool_eq_iff (a b : bool) : (a = true <-> b = true) -> a = b.
Proof. destruct a, b; intros [H1 H2]; try reflexivity; [symmetry; apply H1 | apply H2]; reflexivity. Qed.

Lemma in_table_In rs h : in_table rs h = true <-> In h (map r_addr rs).
Proof.
  rewrite in_table_iff. split.
  - intros (k & Hk & <-). apply in_map. apply nth_In. exact Hk.
  - intros H. apply in_map_iff in H. destruct H as (r & <- & Hr). destruct (In_nth _ _ dummy_rec Hr) as (k & Hk & E).
    exists k. split; [exact Hk | rewrite E; reflexivity].
Qed.

Lemma mt_in_In l h : mt_in l h = true <-> In h (map fst l).
Proof.
  unfold mt_in. destruct (assoc l h) eqn:A; cbn [is_some].
  - split; [intros _ | reflexivity]. apply assoc_in in A. apply in_map_iff. exists (h, b). split; [reflexivity | exact A].
  - split; [discriminate | intros I; exfalso; exact (assoc_none _ _ A I)].
Qed.

Lemma NoDup_map_filter {A B} (f : A -> B) (p : A -> bool) l : NoDup (map f l) -> NoDup (map f (filter p l)).
Proof.
  induction l as [|x l IH]; intros N; [constructor|]. cbn [map] in N. inversion N as [|? ? Hn N']; subst.
  cbn [filter]. destruct (p x); [|exact (IH N')]. cbn [map]. constructor; [|exact (IH N')].
  intros C. apply Hn. apply in_map_iff in C. destruct C as (y & E & Hy). apply filter_In in Hy. rewrite <- E. apply in_map. exact (proj1 Hy).
Qed.

Lemma sum_filter_le {A} (w : A -> N) (p : A -> bool) l : sum_N (map w (filter p l)) <= sum_N (map w l).
Proof. induction l as [|x l IH]; [cbn; lia|]. cbn [filter]. destruct (p x); cbn [map sum_N]; lia. Qed.
Lemma len_le_sum {A} (w : A -> N) l : (forall x, In x l -> 1 <= w x) -> nlen l <= sum_N (map w l).
Proof.
  induction l as [|x l IH]; intros H; [cbn; lia|]. unfold nlen in *. cbn [length map sum_N].
  specialize (H x (or_introl eq_refl)) as Hx. specialize (IH (fun y Hy => H y (or_intror Hy))). lia.
Qed.
Lemma elem_le_sum {A} (w : A -> N) l x : In x l -> w x <= sum_N (map w l).
Proof. induction l as [|y l IH]; intros []; cbn [map sum_N]; [subst; lia | specialize (IH H); lia]. Qed.
Lemma nlen_pos (b : bytes) : b <> [] -> 1 <= nlen b.
Proof. destruct b; [congruence | intros _; unfold nlen; cbn [length]; lia]. Qed.

Lemma sum_N_app l1 l2 : sum_N (l1 ++ l2) = sum_N l1 + sum_N l2.
Proof. induction l1 as [|x l1 IH]; cbn [app sum_N]; [reflexivity | rewrite IH; lia]. Qed.

Section Trans.
  Variable crc : bytes -> N.
  Variable compress : bytes -> bytes.
  Variable decompress : bytes -> option bytes.
  Hypothesis decompress_compress : forall d, decompress (compress d) = Some d.
  Variable content : addr -> bytes.
  Variable memsz : N.
  Hypothesis crc_range : forall b, crc b < 2 ^ 32.
  Hypothesis compress_nonempty : forall d, d <> [] -> compress d <> [].
  Hypothesis memsz_small : memsz < 2 ^ 32.
  Hypothesis compress_bound : forall d, nlen d <= memsz -> nlen (compress d) + checksum_size < 2 ^ 32.

  Notation trep := (tbl_rep crc compress content).
  Notation srep := (srep crc compress content memsz).
  Notation mt_ok := (mt_ok content memsz).
  Notation chunks_ok := (chunks_ok content).

  (* tableSet.append / Persist: the memtable's chunks the tables do not have become one new table *)
  Lemma append_spec novel up rss mt : Forall2 trep (novel ++ up) rss -> mt_ok mt ->
    exists novel' rss', append_mt crc compress novel up mt = Some novel'
      /\ Forall2 trep (novel' ++ up) rss'
      /\ (forall h, in_tables rss' h = mt_in (mt_chunks mt) h || in_tables rss h).
  Proof.
    intros F ((ND & CO) & Tot & Le). set (chunks := mt_chunks mt) in *.
    rewrite Forall_forall in CO.
    unfold append_mt, mt_to_records. fold chunks.
    replace (map (fun c : addr * bytes => (fst c, false)) chunks) with (map (fun h : addr => (h, false)) (map fst chunks))
      by (rewrite map_map; reflexivity).
    fold (mk_reqs (map fst chunks)). rewrite ts_has_many_app.
    pose proof (sort_reqs_sorted (map (fun h => (h, false)) (map fst chunks))) as S. fold (mk_reqs (map fst chunks)) in S.
    destruct (srcs_has_many_spec crc compress content _ rss F _ S) as [E _].
    destruct (srcs_has_many (novel ++ up) (mk_reqs (map fst chunks))) as [r' rem]. cbn [fst] in E. subst r'.
    set (present := map fst (filter (fun r : req => snd r) (map (upd (in_tables rss)) (mk_reqs (map fst chunks))))).
    assert (Hp : forall c, In c chunks -> existsb (addr_eqb (fst c)) present = in_tables rss (fst c)).
    { intros c Hc. apply bool_eq_iff. rewrite existsb_addr. unfold present. rewrite in_map_iff. split.
      - intros ([a fl] & Ea & Hf). cbn [fst] in Ea. subst a. apply filter_In in Hf. destruct Hf as [Hin Hs].
        apply in_map_iff in Hin. destruct Hin as ([b fb] & Eu & Hb). pose proof (mk_reqs_false _ _ Hb) as Fb. cbn in Fb. subst fb.
        unfold upd in Eu. cbn [fst snd orb] in Eu. inversion Eu; subst. exact Hs.
      - intros P. exists (fst c, true). split; [reflexivity|]. apply filter_In. split; [|reflexivity].
        apply in_map_iff. exists (fst c, false). split; [unfold upd; cbn [fst snd orb]; rewrite P; reflexivity|].
        apply mk_reqs_in. apply in_map. exact Hc. }
    rewrite (filter_ext_in _ (fun c => negb (in_tables rss (fst c))) chunks) by (intros c Hc; rewrite (Hp c Hc); reflexivity).
    set (kept := filter (fun c : addr * bytes => negb (in_tables rss (fst c))) chunks).
    set (rs := map (mk_rec crc compress) kept).
    assert (Haddr : map r_addr rs = map fst kept) by (unfold rs; rewrite map_map; reflexivity).
    assert (Hin : forall h, in_table rs h = mt_in chunks h && negb (in_tables rss h)).
    { intros h. apply bool_eq_iff. rewrite in_table_In, Haddr, andb_true_iff, mt_in_In, negb_true_iff. unfold kept. split.
      - intros H. apply in_map_iff in H. destruct H as (c & <- & Hc). apply filter_In in Hc. destruct Hc as [Hc Hn].
        split; [apply in_map; exact Hc | apply negb_true_iff; exact Hn].
      - intros [H Hn]. apply in_map_iff in H. destruct H as (c & <- & Hc). apply in_map. apply filter_In. split; [exact Hc | rewrite Hn; reflexivity]. }
    assert (Hmem : forall h, (in_table rs h || in_tables rss h) = (mt_in chunks h || in_tables rss h)).
    { intros h. rewrite Hin. destruct (mt_in chunks h), (in_tables rss h); reflexivity. }
    assert (Hkept : forall c, In c kept -> In c chunks) by (intros c Hc; apply filter_In in Hc; exact (proj1 Hc)).
    assert (OK : recs_ok crc compress content rs).
    { split.
      - unfold distinct_addrs, addrs_of. rewrite Haddr. unfold kept. apply NoDup_map_filter. exact ND.
      - intros k Hk. assert (Ir : In (nth k rs dummy_rec) rs) by (apply nth_In; exact Hk).
        set (r := nth k rs dummy_rec) in *. clearbody r. unfold rs in Ir. apply in_map_iff in Ir. destruct Ir as (c & Ec & Hc). rewrite <- Ec.
        destruct (CO c (Hkept c Hc)) as (E1 & E2 & _). unfold mk_rec, wf_rec. cbn [r_addr r_data r_crc].
        rewrite <- E1. repeat split; [apply crc_range | apply compress_nonempty; exact E2]. }
    assert (Fit : table_fits rs).
    { assert (Hw : forall c, In c chunks -> 1 <= nlen (snd c)) by (intros c Hc; apply nlen_pos; exact (proj1 (proj2 (CO c Hc)))).
      assert (Hs : sum_N (map (fun c : addr * bytes => nlen (snd c)) kept) <= memsz).
      { unfold kept. eapply N.le_trans; [apply sum_filter_le|]. eapply N.le_trans; [|exact Le]. rewrite Tot. apply N.le_refl. }
      split; [|split].
      - unfold rs, nlen. rewrite map_length. fold (nlen kept).
        pose proof (len_le_sum (fun c : addr * bytes => nlen (snd c)) kept (fun c Hc => Hw c (Hkept c Hc))). lia.
      - unfold total_unc, rs. rewrite map_map. cbn [mk_rec r_unc]. lia.
      - rewrite Forall_forall. intros r Hr. unfold rs in Hr. apply in_map_iff in Hr. destruct Hr as (c & <- & Hc).
        destruct (CO c (Hkept c Hc)) as (_ & _ & W). split; [exact W|].
        unfold rec_len, mk_rec. cbn [r_data]. apply compress_bound.
        pose proof (elem_le_sum (fun c : addr * bytes => nlen (snd c)) kept c Hc). cbn beta in H. lia. }
    clearbody rs. destruct rs as [|r0 rs0].
    - exists novel, rss. split; [reflexivity|]. split; [exact F|]. intros h. rewrite <- Hmem. reflexivity.
    - set (rs := r0 :: rs0) in *.
      pose proof (sort_tuples_valid rs) as Hv.
      unfold write_table. rewrite (open_write_table _ rs Hv Fit).
      exists (mkTable (write_table_with (sort_tuples (tuples_from 0 rs)) rs) (build_pindex (sort_tuples (tuples_from 0 rs)) rs) :: novel), (rs :: rss).
      split; [reflexivity|]. split.
      + cbn [app]. constructor; [|exact F]. exists (sort_tuples (tuples_from 0 rs)). split; [exact Hv | split; [reflexivity | exact OK]].
      + intros h. rewrite in_tables_cons. apply Hmem.
  Qed.

  Lemma mt_empty_ok : mt_ok mt_empty.
  Proof. split; [split; constructor | split; [reflexivity | cbn; lia]]. Qed.

  (* NomsBlockStore.addChunk *)
  Lemma store_put_spec s rss a d : srep s rss -> d = content a -> addr_wf a ->
    exists rss', srep (snd (store_put crc compress s a d)) rss'
      /\ (forall h, smem (snd (store_put crc compress s a d)) rss' h
                    = (match fst (store_put crc compress s a d) with PutOk => addr_eqb a h | _ => false end) || smem s rss h)
      /\ (forall h, mt_in (mtc (snd (store_put crc compress s a d))) h = true ->
            (fst (store_put crc compress s a d) = PutOk /\ h = a) \/ mt_in (mtc s) h = true).
  Proof.
    intros R Ed Wa. destruct R as [Rm Rt Rz].
    set (mt := match s_mem s with Some m => m | None => mt_empty end).
    assert (Hmt : mt_ok mt) by (unfold mt; destruct (s_mem s); [exact Rm | exact mt_empty_ok]).
    assert (Emtc : mtc s = mt_chunks mt) by (unfold mtc, mt; destruct (s_mem s); reflexivity).
    assert (Emtc' : match s_mem s with Some m0 => mt_chunks m0 | None => [] end = mt_chunks mt) by exact Emtc.
    assert (Hadd : mt_add memsz mt a d
                   = match assoc (mt_chunks mt) a with
                     | Some _ => (ChunkExists, mt)
                     | None => if memsz <? mt_total mt + nlen d then (ChunkNotAdded, mt)
                               else (ChunkAdded, mkMem (mt_chunks mt ++ [(a, d)]) (mt_total mt + nlen d))
                     end) by reflexivity.
    unfold store_put. fold mt. destruct d as [|b0 d0] eqn:Ed0.
    - (* empty chunk: panic *)
      cbn [fst snd]. exists rss. split; [constructor; cbn [s_mem s_novel s_up s_memsz]; [exact Hmt | exact Rt | first [exact Rz | reflexivity]]|]. split.
      + intros h. unfold smem, mtc. cbn [s_mem]. fold (mtc s). rewrite ?Emtc, ?Emtc'. reflexivity.
      + intros h H. right. unfold mtc in H. cbn [s_mem] in H. rewrite ?Emtc, ?Emtc'. exact H.
    - rewrite <- Ed0 in *. assert (Hne : d <> []) by (rewrite Ed0; discriminate). clear Ed0.
      rewrite Rz, Hadd.
      destruct (assoc (mt_chunks mt) a) as [x|] eqn:A.
      + (* chunkExists *)
        cbn [fst snd]. exists rss. split; [constructor; cbn [s_mem s_novel s_up s_memsz]; [exact Hmt | exact Rt | first [exact Rz | reflexivity]]|]. split.
        * intros h. unfold smem at 1, mtc. cbn [s_mem]. unfold smem. rewrite ?Emtc, ?Emtc'.
          destruct (addr_eqb a h) eqn:E; [|reflexivity]. apply addr_eqb_spec in E. subst h. unfold mt_in. rewrite A. reflexivity.
        * intros h H. right. unfold mtc in H. cbn [s_mem] in H. rewrite ?Emtc, ?Emtc'. exact H.
      + destruct (memsz <? mt_total mt + nlen d) eqn:Efit.
        * (* chunkNotAdded: flush first *)
          destruct (mt_chunks mt) as [|c0 cs0] eqn:Ech.
          -- cbn [fst snd]. exists rss. split; [constructor; cbn [s_mem s_novel s_up s_memsz]; [exact Hmt | exact Rt | first [exact Rz | reflexivity]]|]. split.
             ++ intros h. unfold smem, mtc. cbn [s_mem]. rewrite ?Emtc, ?Emtc', Ech. reflexivity.
             ++ intros h H. unfold mtc in H. cbn [s_mem] in H. rewrite Ech in H. discriminate.
          -- rewrite <- Ech in *. destruct (append_spec (s_novel s) (s_up s) rss mt Rt Hmt) as (novel' & rss' & Ea & Ft & Hm).
             rewrite Ea. unfold mt_add. cbn [mt_chunks mt_empty assoc mt_total].
             destruct (memsz <? 0 + nlen d) eqn:Efit2.
             ++ cbn [fst snd]. exists rss'. split; [constructor; cbn [s_mem s_novel s_up s_memsz]; [exact mt_empty_ok | exact Ft | first [exact Rz | reflexivity]]|]. split.
                ** intros h. unfold smem, mtc. cbn [s_mem mt_chunks mt_empty]. rewrite Hm, ?Emtc, ?Emtc'. reflexivity.
                ** intros h H. unfold mtc in H. cbn [s_mem mt_chunks mt_empty] in H. discriminate.
             ++ apply N.ltb_ge in Efit2. cbn [fst snd app]. exists rss'. split.
                ** constructor; cbn [s_mem s_novel s_up s_memsz]; [|exact Ft | first [exact Rz | reflexivity]].
                   split; [split; [cbn [mt_chunks map fst]; apply NoDup_cons; [intros [] | apply NoDup_nil] | cbn [mt_chunks]; apply Forall_cons; [|apply Forall_nil]; cbn [fst snd]; repeat split; [exact Ed | exact Hne | apply Wa | apply Wa]]|].
                   cbn [mt_chunks mt_empty app mt_total map sum_N snd]. split; lia.
                ** split.
                   --- intros h. unfold smem, mtc. cbn [s_mem mt_chunks]. rewrite Hm, ?Emtc, ?Emtc'. unfold mt_in at 1. cbn [assoc].
                       destruct (addr_eqb a h); cbn [is_some orb]; reflexivity.
                   --- intros h H. unfold mtc in H. cbn [s_mem mt_chunks] in H. unfold mt_in in H. cbn [assoc] in H.
                       destruct (addr_eqb a h) eqn:E; [left; split; [reflexivity | symmetry; apply addr_eqb_spec; exact E] | discriminate].
        * (* chunkAdded *)
          apply N.ltb_ge in Efit. destruct Hmt as ((ND & CO) & Tot & Le).
          cbn [fst snd]. exists rss. split.
          -- constructor; cbn [s_mem s_novel s_up s_memsz]; [|exact Rt | first [exact Rz | reflexivity]].
             split; [split|].
             ++ cbn [mt_chunks]. rewrite map_app. apply NoDup_app_intro; [exact ND | repeat constructor; intros [] |].
                intros x Hx [<- | []]. exact (assoc_none _ _ A Hx).
             ++ cbn [mt_chunks]. apply Forall_app. split; [exact CO|]. apply Forall_cons; [|apply Forall_nil]. cbn [fst snd]. repeat split; [exact Ed | exact Hne | apply Wa | apply Wa].
             ++ cbn [mt_chunks mt_total]. rewrite map_app. split; [|lia].
                rewrite sum_N_app. cbn [map sum_N snd]. rewrite N.add_0_r. f_equal. exact Tot.
          -- split.
             ++ intros h. unfold smem, mtc. cbn [s_mem mt_chunks]. rewrite ?Emtc, ?Emtc'. unfold mt_in. rewrite assoc_app. cbn [assoc].
                destruct (assoc (mt_chunks mt) h); cbn [is_some orb]; [rewrite orb_true_r; reflexivity|].
                destruct (addr_eqb a h); reflexivity.
             ++ intros h H. unfold mtc in H. cbn [s_mem mt_chunks] in H. unfold mt_in in H. rewrite assoc_app in H. cbn [assoc] in H.
                rewrite ?Emtc, ?Emtc'. unfold mt_in. destruct (assoc (mt_chunks mt) h); [right; reflexivity|].
                destruct (addr_eqb a h) eqn:E; [left; split; [reflexivity | symmetry; apply addr_eqb_spec; exact E] | discriminate].
  Qed.

  (* Commit(root, root) *)
  Lemma store_flush_spec s rss : srep s rss ->
    fst (store_flush crc compress s) = true
    /\ exists rss', srep (snd (store_flush crc compress s)) rss'
      /\ (forall h, smem (snd (store_flush crc compress s)) rss' h = smem s rss h)
      /\ (forall h, mt_in (mtc (snd (store_flush crc compress s))) h = false).
  Proof.
    intros R. destruct R as [Rm Rt Rz]. unfold store_flush.
    destruct (s_mem s) as [mt|] eqn:Em.
    - destruct (mt_chunks mt) as [|c0 cs0] eqn:Ech.
      + cbn [fst snd]. split; [reflexivity|]. exists rss. split; [|split].
        * constructor; cbn [s_mem s_novel s_up s_memsz app]; [first [exact Rm | rewrite Em in Rm; exact Rm] | first [exact Rt | rewrite En in Rt; exact Rt] | first [exact Rz | reflexivity]].
        * intros h. unfold smem, mtc. cbn [s_mem]. rewrite Em. reflexivity.
        * intros h. unfold mtc. cbn [s_mem]. rewrite Ech. reflexivity.
      + try rewrite <- Ech. destruct (append_spec (s_novel s) (s_up s) rss mt Rt Rm) as (novel' & rss' & Ea & Ft & Hm).
        rewrite Ea. cbn [fst snd]. split; [reflexivity|]. exists rss'. split; [|split].
        * constructor; cbn [s_mem s_novel s_up s_memsz app]; [exact I | exact Ft | first [exact Rz | reflexivity]].
        * intros h. unfold smem, mtc. cbn [s_mem]. rewrite Em, Hm. reflexivity.
        * intros h. reflexivity.
    - destruct (s_novel s) as [|t0 n0] eqn:En.
      + cbn [fst snd]. split; [reflexivity|]. exists rss. split; [|split].
        * constructor; [rewrite ?Em; exact I | rewrite ?En; rewrite ?En in Rt; exact Rt | exact Rz].
        * intros h. reflexivity.
        * intros h. unfold mtc. rewrite Em. reflexivity.
      + cbn [fst snd]. split; [reflexivity|]. exists rss. split; [|split].
        * constructor; cbn [s_mem s_novel s_up s_memsz app]; [exact I | first [exact Rt | rewrite En in Rt; exact Rt] | first [exact Rz | reflexivity]].
        * intros h. unfold smem, mtc. cbn [s_mem]. rewrite Em. reflexivity.
        * intros h. reflexivity.
  Qed.
End Trans.
