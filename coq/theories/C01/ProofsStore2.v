(* C01 — store level: representation invariant and the read APIs as functions of membership. *)
From Coq Require Import NArith Arith List Bool Lia Sorting.Permutation Sorting.Sorted.
From Dolt Require Import Base.Str Gen.C01Consts C01.Model C01.Spec C01.Corr C01.Proofs C01.ProofsBytes C01.ProofsSort C01.ProofsTable C01.ProofsStore.
Import ListNotations.
Local Open Scope N_scope.

(* ---- association lists ---- *)
Lemma assoc_in l h d : assoc l h = Some d -> In (h, d) l.
Proof.
  induction l as [|[a x] l IH]; [discriminate|]. cbn [assoc]. destruct (addr_eqb a h) eqn:E.
  - intros H. inversion H; subst. apply addr_eqb_spec in E. subst. left. reflexivity.
  - intros H. right. exact (IH H).
Qed.
Lemma assoc_none l h : assoc l h = None -> ~ In h (map fst l).
Proof.
  induction l as [|[a x] l IH]; [intros _ []|]. cbn [assoc map fst]. destruct (addr_eqb a h) eqn:E; [discriminate|].
  intros H [C | C]; [subst; rewrite (proj2 (addr_eqb_spec h h) eq_refl) in E; discriminate | exact (IH H C)].
Qed.
Lemma assoc_some_in l h : In h (map fst l) -> assoc l h <> None.
Proof. intros I C. exact (assoc_none l h C I). Qed.
Lemma assoc_app l1 l2 h : assoc (l1 ++ l2) h = match assoc l1 h with Some d => Some d | None => assoc l2 h end.
Proof. induction l1 as [|[a x] l1 IH]; [reflexivity|]. cbn [app assoc]. destruct (addr_eqb a h); [reflexivity | exact IH]. Qed.
Lemma addr_eqb_refl a : addr_eqb a a = true.
Proof. apply addr_eqb_spec. reflexivity. Qed.
Lemma existsb_addr h l : existsb (addr_eqb h) l = true <-> In h l.
Proof.
  rewrite existsb_exists. split.
  - intros (x & Hx & E). apply addr_eqb_spec in E. subst. exact Hx.
  - intros H. exists h. split; [exact H | apply addr_eqb_refl].
Qed.

Lemma Permutation_filter {A} (f : A -> bool) l1 l2 : Permutation l1 l2 -> Permutation (filter f l1) (filter f l2).
Proof.
  induction 1 as [| x l1 l2 P IH | x y l | l1 l2 l3 P1 IH1 P2 IH2]; cbn [filter].
  - constructor.
  - destruct (f x); [constructor; exact IH | exact IH].
  - destruct (f x), (f y); try reflexivity. apply perm_swap.
  - etransitivity; eassumption.
Qed.
Lemma filter_filter {A} (f g : A -> bool) l : filter f (filter g l) = filter (fun x => g x && f x) l.
Proof. induction l as [|x l IH]; [reflexivity|]. cbn [filter]. destruct (g x); cbn [filter andb]; [destruct (f x)|]; rewrite IH; reflexivity. Qed.
Lemma NoDup_fst_inj {A B} (l : list (A * B)) x y : NoDup (map fst l) -> In x l -> In y l -> fst x = fst y -> x = y.
Proof.
  induction l as [|z l IH]; intros N Hx Hy E; [destruct Hx|]. cbn [map] in N. inversion N as [|? ? Hn N']; subst.
  destruct Hx as [-> | Hx], Hy as [-> | Hy]; [reflexivity | | | exact (IH N' Hx Hy E)].
  - exfalso. apply Hn. rewrite E. apply in_map. exact Hy.
  - exfalso. apply Hn. rewrite <- E. apply in_map. exact Hx.
Qed.

(* sort_reqs: a prefix-sorted permutation *)
Lemma insert_req_ins x l : insert_req x l = ins _ _ (fun r : req => a_prefix (fst r)) N.ltb x l.
Proof. induction l as [|y l IH]; cbn; [reflexivity | rewrite IH; reflexivity]. Qed.
Lemma sort_reqs_isort l : sort_reqs l = isort _ _ (fun r : req => a_prefix (fst r)) N.ltb l.
Proof. induction l as [|x l IH]; cbn; [reflexivity|]. unfold sort_reqs in IH. rewrite IH, insert_req_ins. reflexivity. Qed.
Lemma sort_reqs_perm l : Permutation (sort_reqs l) l.
Proof. rewrite sort_reqs_isort. apply isort_perm. Qed.
Lemma sort_reqs_sorted l : reqs_sorted (sort_reqs l).
Proof.
  rewrite sort_reqs_isort. pose proof (isort_sorted _ _ (fun r : req => a_prefix (fst r)) N.ltb N_ltb_asym N_le_trans l) as S.
  unfold reqs_sorted. induction S as [|x t S IH Hx]; constructor; [exact IH|].
  rewrite Forall_forall in *. intros y Hy. specialize (Hx y Hy). unfold kle in Hx. apply N.ltb_ge in Hx. exact Hx.
Qed.

Definition mk_reqs (hs : list addr) : list req := sort_reqs (map (fun h => (h, false)) hs).
Lemma mk_reqs_fst hs : Permutation (map fst (mk_reqs hs)) hs.
Proof.
  unfold mk_reqs. rewrite (Permutation_map fst (sort_reqs_perm _)), map_map. cbn [fst]. rewrite map_id. reflexivity.
Qed.
Lemma mk_reqs_false hs r : In r (mk_reqs hs) -> snd r = false.
Proof.
  intros H. apply (Permutation_in _ (sort_reqs_perm _)) in H. apply in_map_iff in H. destruct H as (h & <- & _). reflexivity.
Qed.
Lemma mk_reqs_in hs a : In (a, false) (mk_reqs hs) <-> In a hs.
Proof.
  unfold mk_reqs. split.
  - intros H. apply (Permutation_in _ (sort_reqs_perm _)) in H. apply in_map_iff in H. destruct H as (h & E & I). inversion E; subst. exact I.
  - intros H. apply (Permutation_in _ (Permutation_sym (sort_reqs_perm _))). apply in_map_iff. exists a. split; [reflexivity | exact H].
Qed.

(* the unfound addresses after marking with a membership predicate *)
Lemma unfound_addrs_aux f (l : list req) : (forall r, In r l -> snd r = false) ->
  map fst (filter (fun r : req => negb (snd r)) (map (upd f) l)) = filter (fun h => negb (f h)) (map fst l).
Proof.
  induction l as [|[a fl] l IH]; intros Fl; [reflexivity|].
  pose proof (Fl (a, fl) (or_introl eq_refl)) as E. cbn [snd] in E. subst fl.
  cbn [map filter upd fst snd orb]. rewrite <- IH by (intros r Hr; apply Fl; right; exact Hr).
  destruct (f a); reflexivity.
Qed.
Lemma unfound_addrs f hs :
  Permutation (map fst (filter (fun r : req => negb (snd r)) (map (upd f) (mk_reqs hs)))) (filter (fun h => negb (f h)) hs).
Proof. rewrite (unfound_addrs_aux f _ (mk_reqs_false hs)). apply Permutation_filter, mk_reqs_fst. Qed.

(* ---- memtable ---- *)
Definition mt_in (l : list (addr * bytes)) (h : addr) : bool := is_some (assoc l h).

Lemma mt_has_many_spec mt reqs :
  mt_has_many mt reqs = (map (upd (mt_in (mt_chunks mt))) reqs, unfound (map (upd (mt_in (mt_chunks mt))) reqs)).
Proof.
  unfold mt_has_many. induction reqs as [|[a f] t IH]; [reflexivity|].
  cbn [fold_right]. rewrite IH.
  destruct f; [|destruct (assoc (mt_chunks mt) a) eqn:A]; unfold upd, mt_in, unfound; cbn; rewrite ?A; cbn; reflexivity.
Qed.

Lemma mt_get_many_spec mt reqs : (forall r, In r reqs -> snd r = false) ->
  mt_get_many mt reqs
  = (map (upd (mt_in (mt_chunks mt))) reqs,
     flat_map (fun r : req => match assoc (mt_chunks mt) (fst r) with Some d => [(fst r, d)] | None => [] end) reqs,
     unfound (map (upd (mt_in (mt_chunks mt))) reqs)).
Proof.
  unfold mt_get_many. induction reqs as [|[a f] t IH]; intros Fl; [reflexivity|].
  cbn [fold_right]. rewrite IH by (intros r Hr; apply Fl; right; exact Hr).
  pose proof (Fl (a, f) (or_introl eq_refl)) as E. cbn [snd] in E. subst f.
  destruct (assoc (mt_chunks mt) a) eqn:A; unfold upd, mt_in, unfound; cbn; rewrite ?A; cbn; reflexivity.
Qed.

Lemma flat_map_assoc_nil (l : list req) :
  flat_map (fun r : req => match assoc [] (fst r) with Some d => [(fst r, d)] | None => [] end) l = [].
Proof. induction l as [|r l IH]; [reflexivity | exact IH]. Qed.
Lemma map_upd_nil (l : list req) : map (upd (mt_in [])) l = l.
Proof. erewrite map_ext; [apply map_id|]. intros [a f]. unfold upd, mt_in. cbn. rewrite orb_false_r. reflexivity. Qed.

Section Machine.
  Variable crc : bytes -> N.
  Variable compress : bytes -> bytes.
  Variable decompress : bytes -> option bytes.
  Hypothesis decompress_compress : forall d, decompress (compress d) = Some d.
  Variable content : addr -> bytes.
  Variable memsz : N.

  Notation trep := (tbl_rep crc compress content).
  Notation chunk_of := (chunk_of content).

  Definition chunks_ok (l : list (addr * bytes)) : Prop :=
    NoDup (map fst l) /\ Forall (fun c => snd c = content (fst c) /\ snd c <> [] /\ addr_wf (fst c)) l.
  Definition mt_ok (mt : memtable) : Prop :=
    chunks_ok (mt_chunks mt) /\ mt_total mt = sum_N (map (fun c => nlen (snd c)) (mt_chunks mt)) /\ mt_total mt <= memsz.
  Definition mtc (s : store) : list (addr * bytes) := match s_mem s with Some mt => mt_chunks mt | None => [] end.
  Record srep (s : store) (rss : list (list rec)) : Prop := mkSrep {
    sr_mem : match s_mem s with Some mt => mt_ok mt | None => True end;
    sr_tbls : Forall2 trep (s_novel s ++ s_up s) rss;
    sr_sz : s_memsz s = memsz }.
  Definition smem (s : store) (rss : list (list rec)) (h : addr) : bool := mt_in (mtc s) h || in_tables rss h.

  Lemma mtc_ok s rss : srep s rss -> chunks_ok (mtc s).
  Proof. intros [M _ _]. unfold mtc. destruct (s_mem s); [exact (proj1 M) | split; constructor]. Qed.

  Lemma chunks_ok_content l h d : chunks_ok l -> assoc l h = Some d -> d = content h.
  Proof. intros [_ F] H. apply assoc_in in H. rewrite Forall_forall in F. destruct (F _ H) as [E _]. exact E. Qed.

  Lemma mem_assoc s : match s_mem s with Some mt => assoc (mt_chunks mt) | None => fun _ => None end = assoc (mtc s).
  Proof. unfold mtc. destruct (s_mem s); reflexivity. Qed.

  Lemma store_has_spec s rss h : srep s rss -> store_has s h = smem s rss h.
  Proof.
    intros R. unfold store_has, smem, mt_in, mtc. destruct (s_mem s) as [mt|].
    - destruct (assoc (mt_chunks mt) h); [reflexivity|]. cbn [is_some orb]. unfold ts_has.
      rewrite <- srcs_has_app. apply (srcs_has_spec crc compress content). exact (sr_tbls _ _ R).
    - cbn. unfold ts_has. rewrite <- srcs_has_app. apply (srcs_has_spec crc compress content). exact (sr_tbls _ _ R).
  Qed.

  Lemma ts_get_spec s rss h : srep s rss ->
    ts_get crc decompress (s_novel s) (s_up s) h = ROk (if in_tables rss h then Some (content h) else None).
  Proof.
    intros R. unfold ts_get. rewrite <- (srcs_get_app crc decompress).
    apply (srcs_get_spec crc compress decompress decompress_compress content). exact (sr_tbls _ _ R).
  Qed.

  Lemma store_get_spec s rss h : srep s rss ->
    store_get crc decompress s h = ROk (if smem s rss h then Some (content h) else None).
  Proof.
    intros R. pose proof (mtc_ok s rss R) as CO. unfold store_get, smem, mt_in.
    assert (E : match s_mem s with Some mt => assoc (mt_chunks mt) h | None => None end = assoc (mtc s) h)
      by (unfold mtc; destruct (s_mem s); reflexivity).
    rewrite E. destruct (assoc (mtc s) h) as [d|] eqn:A.
    - cbn [is_some orb]. rewrite (chunks_ok_content _ _ _ CO A). reflexivity.
    - cbn [is_some orb]. apply ts_get_spec. exact R.
  Qed.

  (* hasManyDep *)
  Lemma store_has_many_spec s rss hs : srep s rss ->
    Permutation (store_has_many s hs) (filter (fun h => negb (smem s rss h)) hs).
  Proof.
    intros R. destruct hs as [|h0 hs0]; [reflexivity|]. set (hs := h0 :: hs0).
    unfold store_has_many. fold hs. fold (mk_reqs hs).
    pose proof (sort_reqs_sorted (map (fun h => (h, false)) hs)) as S. fold (mk_reqs hs) in S.
    set (f1 := mt_in (mtc s)).
    assert (E1 : (match s_mem s with Some mt => mt_has_many mt (mk_reqs hs) | None => (mk_reqs hs, true) end)
                 = (map (upd f1) (mk_reqs hs), match s_mem s with Some _ => unfound (map (upd f1) (mk_reqs hs)) | None => true end)).
    { unfold f1, mtc. destruct (s_mem s) as [mt|]; [apply mt_has_many_spec|].
      rewrite map_upd_nil. reflexivity. }
    rewrite E1. clear E1.
    assert (Hall : forall g, unfound (map (upd g) (mk_reqs hs)) = false -> filter (fun h => negb (g h)) hs = []).
    { intros g U. pose proof (unfound_addrs g hs) as P.
      assert (Z : filter (fun r : req => negb (snd r)) (map (upd g) (mk_reqs hs)) = []).
      { destruct (filter (fun r : req => negb (snd r)) (map (upd g) (mk_reqs hs))) as [|x l] eqn:Fx; [reflexivity|]. exfalso.
        assert (Ix : In x (x :: l)) by (left; reflexivity). rewrite <- Fx in Ix. apply filter_In in Ix. destruct Ix as [Ix Nx].
        rewrite (unfound_false_all _ U x Ix) in Nx. discriminate. }
      rewrite Z in P. cbn in P. apply Permutation_nil in P. exact P. }
    assert (Hsub : forall h, f1 h = true -> smem s rss h = true) by (intros h H; unfold smem; fold f1; rewrite H; reflexivity).
    set (rem1 := match s_mem s with Some _ => unfound (map (upd f1) (mk_reqs hs)) | None => true end).
    destruct rem1 eqn:Er; cbn [negb].
    - rewrite ts_has_many_app.
      destruct (srcs_has_many_spec crc compress content _ rss (sr_tbls _ _ R) _ (upd_sorted f1 _ S)) as [E2 R2].
      destruct (srcs_has_many (s_novel s ++ s_up s) (map (upd f1) (mk_reqs hs))) as [r2 rem2]. cbn [fst snd] in *.
      rewrite upd_upd in E2, R2. subst r2.
      assert (Eg : forall a, (f1 a || in_tables rss a) = smem s rss a) by reflexivity.
      destruct rem2; cbn [negb].
      + erewrite upd_ext by exact Eg. apply unfound_addrs.
      + specialize (R2 eq_refl). replace (filter (fun h => negb (smem s rss h)) hs) with (@nil addr) by (symmetry; exact (Hall _ R2)). reflexivity.
    - unfold rem1 in Er. destruct (s_mem s); [|discriminate].
      assert (Z := Hall _ Er).
      assert (Z' : filter (fun h => negb (smem s rss h)) hs = []).
      { destruct (filter (fun h => negb (smem s rss h)) hs) as [|x l] eqn:Fx; [reflexivity|]. exfalso.
        assert (Ix : In x (x :: l)) by (left; reflexivity). rewrite <- Fx in Ix. apply filter_In in Ix. destruct Ix as [Ix Nx].
        assert (In x (filter (fun h => negb (f1 h)) hs)).
        { apply filter_In. split; [exact Ix|]. destruct (f1 x) eqn:Fx1; [rewrite (Hsub x Fx1) in Nx; discriminate | reflexivity]. }
        rewrite Z in H. destruct H. }
      rewrite Z'. reflexivity.
  Qed.

  (* getManyWithFunc *)
  Lemma store_get_many_spec s rss hs : srep s rss -> NoDup hs ->
    exists l, store_get_many crc decompress s hs = ROk l
      /\ NoDup (map fst l)
      /\ (forall a d, In (a, d) l <-> In a hs /\ smem s rss a = true /\ d = content a).
  Proof.
    intros R ND. pose proof (mtc_ok s rss R) as CO. destruct hs as [|h0 hs0].
    { exists []. cbn. split; [reflexivity|]. split; [constructor|]. intros a d. split; [intros [] | intros ([] & _)]. }
    set (hs := h0 :: hs0) in *.
    unfold store_get_many. fold hs. fold (mk_reqs hs).
    pose proof (sort_reqs_sorted (map (fun h => (h, false)) hs)) as S. fold (mk_reqs hs) in S.
    assert (NDr : NoDup (map fst (mk_reqs hs))) by (apply (Permutation_NoDup (Permutation_sym (mk_reqs_fst hs))); exact ND).
    set (f1 := mt_in (mtc s)).
    set (got1 := flat_map (fun r : req => match assoc (mtc s) (fst r) with Some d => [(fst r, d)] | None => [] end) (mk_reqs hs)).
    assert (E1 : (match s_mem s with Some mt => mt_get_many mt (mk_reqs hs) | None => (mk_reqs hs, [], true) end)
                 = (map (upd f1) (mk_reqs hs), got1, match s_mem s with Some _ => unfound (map (upd f1) (mk_reqs hs)) | None => true end)).
    { unfold f1, got1, mtc. destruct (s_mem s) as [mt|]; [apply mt_get_many_spec, mk_reqs_false|].
      rewrite map_upd_nil, flat_map_assoc_nil. reflexivity. }
    rewrite E1. clear E1.
    assert (M1 : forall a d, In (a, d) got1 <-> In a hs /\ f1 a = true /\ d = content a).
    { intros a d. unfold got1. rewrite in_flat_map. split.
      - intros ([b fl] & Hb & Hin). cbn [fst] in Hin. destruct (assoc (mtc s) b) as [x|] eqn:A; [|destruct Hin].
        destruct Hin as [E | []]. inversion E; subst. pose proof (mk_reqs_false hs _ Hb) as Fl. cbn in Fl. subst fl.
        repeat split; [apply mk_reqs_in; exact Hb | unfold f1, mt_in; rewrite A; reflexivity | exact (chunks_ok_content _ _ _ CO A)].
      - intros (Ha & Fa & ->). exists (a, false). split; [apply mk_reqs_in; exact Ha|]. cbn [fst].
        unfold f1, mt_in in Fa. destruct (assoc (mtc s) a) as [x|] eqn:A; [|discriminate].
        left. rewrite (chunks_ok_content _ _ _ CO A). reflexivity. }
    assert (N1 : NoDup (map fst got1)).
    { unfold got1. clear -NDr. induction (mk_reqs hs) as [|r l IH]; [constructor|]. cbn [map] in NDr. inversion NDr as [|? ? Hn N']; subst.
      cbn [flat_map]. destruct (assoc (mtc s) (fst r)); [|exact (IH N')]. cbn [app map fst]. constructor; [|exact (IH N')].
      intros C. apply Hn. apply in_map_iff in C. destruct C as ([a d] & E & I). cbn [fst] in E. subst a.
      apply in_flat_map in I. destruct I as (r' & Hr' & I'). destruct (assoc (mtc s) (fst r')); [|destruct I'].
      destruct I' as [E | []]. inversion E. apply in_map. exact Hr'. }
    set (rem1 := match s_mem s with Some _ => unfound (map (upd f1) (mk_reqs hs)) | None => true end).
    destruct rem1 eqn:Er; cbn [negb].
    - rewrite ts_get_many_app.
      destruct (srcs_get_many_spec crc compress decompress decompress_compress content _ rss (sr_tbls _ _ R) _ (upd_sorted f1 _ S))
        as (l2 & E2 & N2 & M2); [rewrite map_fst_upd; exact NDr|].
      rewrite E2. cbn [rd_map]. exists (got1 ++ l2). split; [reflexivity|]. split.
      + rewrite map_app. apply NoDup_app_intro; [exact N1 | exact N2|].
        intros a Ha1 Ha2. apply in_map_iff in Ha1, Ha2. destruct Ha1 as ([a1 d1] & <- & I1), Ha2 as ([a2 d2] & E & I2). cbn [fst] in *. subst a2.
        apply M1 in I1. apply M2 in I2. destruct I1 as (_ & P & _), I2 as (Q & _ & _). apply in_upd_false in Q. destruct Q as [_ Q]. congruence.
      + intros a d. rewrite in_app_iff, M1, M2, in_upd_false, mk_reqs_in. unfold smem. fold f1. split.
        * intros [(A & B & C) | ((A & B) & C & D)]; repeat split; try assumption; [rewrite B | rewrite C, orb_true_r]; reflexivity.
        * intros (A & B & C). destruct (f1 a) eqn:P; [left | right]; repeat split; assumption.
    - unfold rem1 in Er. destruct (s_mem s) eqn:Em; [|discriminate].
      exists got1. split; [reflexivity|]. split; [exact N1|].
      intros a d. rewrite M1. unfold smem. fold f1. split.
      + intros (A & B & C). repeat split; [exact A | rewrite B; reflexivity | exact C].
      + intros (A & B & C). repeat split; [exact A | | exact C].
        apply mk_reqs_in in A. exact (unfound_false_all _ Er (upd f1 (a, false)) (in_map _ _ _ A)).
  Qed.

  Lemma store_iterate_spec s rss : srep s rss ->
    store_iterate crc decompress s = ROk (flat_map (map chunk_of) rss).
  Proof.
    intros R. unfold store_iterate. rewrite <- (srcs_iterate_app crc decompress).
    apply (srcs_iterate_spec crc compress decompress decompress_compress content). exact (sr_tbls _ _ R).
  Qed.
End Machine.
