(* C01 — declarative side.
   (1) What a table file is supposed to mean: the record list itself
       (position, offset = sum of the lengths before it, length), independent of
       the index layout and of the search algorithm.
   (2) What a chunk store is supposed to mean: a finite map from addresses to
       bytes that only grows by successful puts; every read API is a function
       of that map.  Boolean forms are the oracle used on the implementation's
       observations. *)
From Coq Require Import NArith List Bool Sorting.Permutation Sorting.Sorted.
From Dolt Require Import Base.Str Gen.C01Consts C01.Model.
Import ListNotations.
Local Open Scope N_scope.

(* ---- (1) tables ---- *)
Definition addrs_of (rs : list rec) : list addr := map r_addr rs.
Definition distinct_addrs (rs : list rec) : Prop := NoDup (addrs_of rs).

(* position of the first record with address h *)
Fixpoint index_of_addr (rs : list rec) (h : addr) : option nat :=
  match rs with
  | [] => None
  | r :: t => if addr_eqb (r_addr r) h then Some O
              else match index_of_addr t h with Some i => Some (S i) | None => None end
  end.
Definition in_table (rs : list rec) (h : addr) : bool :=
  match index_of_addr rs h with Some _ => true | None => false end.

(* offset of record i = total length of the records before it *)
Definition offset_of (rs : list rec) (i : nat) : N := sum_N (map rec_len (firstn i rs)).
Definition dummy_rec : rec := mkRec (0, 0) [] 0 0.
Definition len_of (rs : list rec) (i : nat) : N := rec_len (nth i rs dummy_rec).

Definition lookup_spec (rs : list rec) (h : addr) : option (N * N) :=
  match index_of_addr rs h with
  | Some i => Some (offset_of rs i, len_of rs i)
  | None => None
  end.

(* The possible outcomes of writeIndex's sort: prefix-sorted permutations of
   the (prefix, ordinal) tuples. *)
Definition prefix_le (a b : tuple) : Prop := fst a <= fst b.
Definition valid_tuples (ts : list tuple) (rs : list rec) : Prop :=
  Permutation ts (tuples_from 0 rs) /\ StronglySorted prefix_le ts.

(* executable form (used by the C06 oracle on the order the implementation chose) *)
Fixpoint sorted_prefix_b (ts : list tuple) : bool :=
  match ts with
  | [] => true
  | x :: t => match t with [] => true | y :: _ => (fst x <=? fst y) && sorted_prefix_b t end
  end.
Fixpoint remove_tuple (x : tuple) (l : list tuple) : option (list tuple) :=
  match l with
  | [] => None
  | y :: t => if (fst x =? fst y) && (snd x =? snd y) then Some t
              else match remove_tuple x t with Some t' => Some (y :: t') | None => None end
  end.
Fixpoint perm_tuples_b (a b : list tuple) : bool :=
  match a with
  | [] => match b with [] => true | _ => false end
  | x :: t => match remove_tuple x b with Some b' => perm_tuples_b t b' | None => false end
  end.
Definition valid_tuples_b (ts : list tuple) (rs : list rec) : bool :=
  perm_tuples_b ts (tuples_from 0 rs) && sorted_prefix_b ts.

(* requests sorted by prefix (toHasRecords / toGetRecords) *)
Definition req_prefix_le (a b : req) : Prop := a_prefix (fst a) <= a_prefix (fst b).
Definition reqs_sorted (reqs : list req) : Prop := StronglySorted req_prefix_le reqs.

(* ---- (2) the chunk store as a map ---- *)
Inductive op :=
| OpPut (a : addr) (d : bytes) | OpFlush
| OpGet (a : addr) | OpHas (a : addr)
| OpGetMany (l : list addr) | OpGetManyC (l : list addr) | OpHasMany (l : list addr)
| OpIter
| OpPutOld (a : addr) (d : bytes) | OpFlushOld.       (* generational only: write to / commit the old generation *)

Inductive obs :=
| ObPut (code : N)            (* 0 ok, 1 error, 2 rejected (panic on empty chunk) *)
| ObFlush (ok : bool)
| ObData (o : option bytes)
| ObBool (b : bool)
| ObChunks (l : list (addr * bytes))   (* sorted by address *)
| ObAddrs (l : list addr)              (* sorted by address *)
| ObErr (code : N).

Definition amap := list (addr * bytes).
Definition amap_get (m : amap) (h : addr) : option bytes := assoc m h.
Definition amap_put (m : amap) (h : addr) (d : bytes) : amap :=
  match assoc m h with Some _ => m | None => m ++ [(h, d)] end.

(* abstract state: the map, and the addresses put since the last commit of the
   generation they were put into (IterateAllChunks only visits persisted tables) *)
Record astate := mkA { a_map : amap; a_pend_new : list addr; a_pend_old : list addr }.
Definition a_init : astate := mkA [] [] [].

Definition is_some {A} (o : option A) : bool := match o with Some _ => true | None => false end.
Definition opt_bytes_eqb (a b : option bytes) : bool :=
  match a, b with Some x, Some y => beq_bytes x y | None, None => true | _, _ => false end.
Fixpoint chunks_eqb (a b : list (addr * bytes)) : bool :=
  match a, b with
  | [], [] => true
  | x :: a', y :: b' => addr_eqb (fst x) (fst y) && beq_bytes (snd x) (snd y) && chunks_eqb a' b'
  | _, _ => false
  end.
Fixpoint addrs_eqb (a b : list addr) : bool :=
  match a, b with
  | [], [] => true
  | x :: a', y :: b' => addr_eqb x y && addrs_eqb a' b'
  | _, _ => false
  end.

Definition spec_get_many (m : amap) (hs : list addr) : list (addr * bytes) :=
  sort_chunks (flat_map (fun h => match amap_get m h with Some d => [(h, d)] | None => [] end) hs).
Definition spec_has_many (m : amap) (hs : list addr) : list addr :=
  sort_addrs (filter (fun h => negb (is_some (amap_get m h))) hs).
(* iteration: everything returned is in the map with those bytes, and everything
   persisted (in the map and not pending) is returned *)
Definition spec_iter_ok (st : astate) (cs : list (addr * bytes)) : bool :=
  forallb (fun c => opt_bytes_eqb (Some (snd c)) (amap_get (a_map st) (fst c))) cs
  && forallb (fun e => existsb (addr_eqb (fst e)) (a_pend_new st)
                       || existsb (addr_eqb (fst e)) (a_pend_old st)
                       || existsb (fun c => addr_eqb (fst c) (fst e)) cs) (a_map st).

(* one step of the abstract machine against an observation: (observation is
   what the map says, next abstract state) *)
Definition spec_step (st : astate) (o : op) (ob : obs) : bool * astate :=
  match o, ob with
  | OpPut a d, ObPut code =>
    if code =? 0 then (true, mkA (amap_put (a_map st) a d) (a :: a_pend_new st) (a_pend_old st))
    else (true, st)
  | OpPutOld a d, ObPut code =>
    if code =? 0 then (true, mkA (amap_put (a_map st) a d) (a_pend_new st) (a :: a_pend_old st))
    else (true, st)
  | OpFlush, ObFlush ok => (true, if ok then mkA (a_map st) [] (a_pend_old st) else st)
  | OpFlushOld, ObFlush ok => (true, if ok then mkA (a_map st) (a_pend_new st) [] else st)
  | OpGet a, ObData o => (opt_bytes_eqb o (amap_get (a_map st) a), st)
  | OpHas a, ObBool b => (Bool.eqb b (is_some (amap_get (a_map st) a)), st)
  | OpGetMany l, ObChunks cs => (chunks_eqb cs (spec_get_many (a_map st) l), st)
  | OpGetManyC l, ObChunks cs => (chunks_eqb cs (spec_get_many (a_map st) l), st)
  | OpHasMany l, ObAddrs hs => (addrs_eqb hs (spec_has_many (a_map st) l), st)
  | OpIter, ObChunks cs => (spec_iter_ok st cs, st)
  | _, _ => (false, st)          (* a read that failed, or an observation of the wrong shape *)
  end.

Fixpoint spec_run (st : astate) (ops : list op) (obss : list obs) : bool :=
  match ops, obss with
  | [], [] => true
  | o :: ops', ob :: obss' =>
    let '(ok, st') := spec_step st o ob in ok && spec_run st' ops' obss'
  | _, _ => false
  end.

(* content addressing: an address determines the bytes (hypothesis of the store
   theorems; the harness draws the bytes as a function of the address) *)
Definition consistent_ops (content : addr -> bytes) (ops : list op) : Prop :=
  Forall (fun o => match o with
                   | OpPut a d => d = content a
                   | OpPutOld a d => d = content a
                   | _ => True
                   end) ops.
