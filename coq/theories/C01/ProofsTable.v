(* C01 — a table opened from written bytes: hasMany / getMany / iterateAllChunks as functions of the record list. *)
From Coq Require Import NArith Arith List Bool Lia Sorting.Permutation Sorting.Sorted.
From Dolt Require Import Base.Str Gen.C01Consts C01.Model C01.Spec C01.Corr C01.Proofs C01.ProofsBytes C01.ProofsSort.
Import ListNotations.
Local Open Scope N_scope.

Definition upd (f : addr -> bool) (r : req) : req := (fst r, snd r || f (fst r)).
Definition unfound (l : list req) : bool := existsb (fun r : req => negb (snd r)) l.

Lemma Forall2_map_eq (g : req -> bool) (l l' : list req) :
  Forall2 (fun r r' => fst r' = fst r /\ snd r' = g r) l l' -> l' = map (fun r => (fst r, g r)) l.
Proof. induction 1 as [|r r' l l' [E1 E2] F IH]; [reflexivity|]. cbn [map]. rewrite <- IH. destruct r'; cbn in *. subst. reflexivity. Qed.

Lemma map_fst_upd f l : map fst (map (upd f) l) = map fst l.
Proof. rewrite map_map. apply map_ext. intros r. reflexivity. Qed.

Lemma upd_sorted f l : reqs_sorted l -> reqs_sorted (map (upd f) l).
Proof.
  intros S. induction S as [|x l S IH Hx]; cbn [map]; constructor; [exact IH|].
  rewrite Forall_forall in *. intros y Hy. apply in_map_iff in Hy. destruct Hy as (z & <- & Hz). exact (Hx z Hz).
Qed.

Lemma in_upd_false f l a : In (a, false) (map (upd f) l) <-> In (a, false) l /\ f a = false.
Proof.
  rewrite in_map_iff. split.
  - intros ([b fl] & E & I). unfold upd in E. cbn [fst snd] in E. injection E as Ea Ef. subst b. apply orb_false_iff in Ef. destruct Ef as [-> Ef]. split; assumption.
  - intros [I E]. exists (a, false). split; [unfold upd; cbn; rewrite E; reflexivity | exact I].
Qed.

Lemma find_offsets_loop_nodup ix : forall reqs fidx rem,
  NoDup (map fst reqs) ->
  NoDup (map fst (snd (fst (find_offsets_loop ix reqs fidx rem))))
  /\ incl (map fst (snd (fst (find_offsets_loop ix reqs fidx rem)))) (map fst reqs).
Proof.
  induction reqs as [|[a f] t IH]; intros fidx rem ND; [cbn; split; [constructor | intros x []]|].
  cbn [map fst] in ND. inversion ND as [|? ? Hn ND']; subst.
  cbn [find_offsets_loop]. destruct f.
  - destruct (IH fidx rem ND') as [N I]. destruct (find_offsets_loop ix t fidx rem) as [[r o] b]. cbn [fst snd] in *.
    split; [exact N | intros x Hx; right; exact (I x Hx)].
  - destruct (pi_count ix <=? find_prefix_from ix (a_prefix a) fidx); [cbn; split; [constructor | intros x []]|].
    destruct (negb (a_prefix a =? prefix_at ix (find_prefix_from ix (a_prefix a) fidx))).
    + destruct (IH (find_prefix_from ix (a_prefix a) fidx) true ND') as [N I].
      destruct (find_offsets_loop ix t _ true) as [[r o] b]. cbn [fst snd] in *.
      split; [exact N | intros x Hx; right; exact (I x Hx)].
    + destruct (scan_at ix (find_prefix_from ix (a_prefix a) fidx) a).
      * destruct (IH (find_prefix_from ix (a_prefix a) fidx) rem ND') as [N I].
        destruct (find_offsets_loop ix t _ rem) as [[r o] b]. cbn [fst snd map] in *. split.
        -- constructor; [intros C; apply Hn; exact (I a C) | exact N].
        -- intros x [<- | Hx]; [left; reflexivity | right; exact (I x Hx)].
      * destruct (IH (find_prefix_from ix (a_prefix a) fidx) true ND') as [N I].
        destruct (find_offsets_loop ix t _ true) as [[r o] b]. cbn [fst snd] in *.
        split; [exact N | intros x Hx; right; exact (I x Hx)].
Qed.

Lemma offset_of_S rs (k : nat) : (k < length rs)%nat -> offset_of rs (S k) = offset_of rs k + len_of rs k.
Proof.
  intros H. unfold offset_of, len_of. rewrite <- !firstn_map, sum_firstn_S by (rewrite map_length; exact H).
  rewrite (nth_indep _ 0 (rec_len dummy_rec)) by (rewrite map_length; exact H). rewrite (map_nth rec_len). reflexivity.
Qed.
Lemma len_of_pos rs k : 0 < len_of rs k.
Proof. unfold len_of, rec_len, checksum_size. lia. Qed.
Lemma offset_of_lt rs : forall j i, (i < j)%nat -> (j <= length rs)%nat -> offset_of rs i + len_of rs i <= offset_of rs j.
Proof.
  induction j as [|j IH]; intros i Hij Hj; [lia|].
  rewrite offset_of_S by lia. destruct (Nat.eq_dec i j) as [-> | Hne]; [lia|].
  specialize (IH i ltac:(lia) ltac:(lia)). lia.
Qed.

Lemma SS_map_seq {A} (R : A -> A -> Prop) (f : nat -> A) : forall n a,
  (forall i j, (a <= i)%nat -> (i < j)%nat -> (j < a + n)%nat -> R (f i) (f j)) -> StronglySorted R (map f (seq a n)).
Proof.
  induction n as [|n IH]; intros a H; cbn [seq map]; constructor.
  - apply IH. intros i j Hi Hij Hj. apply H; lia.
  - rewrite Forall_forall. intros y Hy. apply in_map_iff in Hy. destruct Hy as (j & <- & Hj). apply in_seq in Hj. apply H; lia.
Qed.

Lemma map_nth_seq {A B} (g : A -> B) (l : list A) d : map (fun k => g (nth k l d)) (seq 0 (length l)) = map g l.
Proof.
  induction l as [|x l IH]; [reflexivity|]. cbn [length seq map nth]. f_equal.
  rewrite <- seq_shift, map_map. exact IH.
Qed.

Lemma tuples_from_seq rs : forall i0,
  tuples_from i0 rs = map (fun k => (a_prefix (r_addr (nth k rs dummy_rec)), i0 + N.of_nat k)) (seq 0 (length rs)).
Proof.
  induction rs as [|r rs IH]; intros i0; [reflexivity|].
  cbn [tuples_from length seq map nth]. f_equal; [f_equal; lia|].
  rewrite IH, <- seq_shift, map_map. apply map_ext. intros k. cbn [nth]. f_equal. lia.
Qed.

Section Tbl.
  Variable crc : bytes -> N.
  Variable compress : bytes -> bytes.
  Variable decompress : bytes -> option bytes.
  Hypothesis decompress_compress : forall d, decompress (compress d) = Some d.
  Variable content : addr -> bytes.

  Definition recs_ok (rs : list rec) : Prop :=
    distinct_addrs rs /\
    forall k, (k < length rs)%nat -> wf_rec crc compress (nth k rs dummy_rec) (content (r_addr (nth k rs dummy_rec))).
  Definition tbl_rep (t : table) (rs : list rec) : Prop :=
    exists ts, valid_tuples ts rs /\ t = mkTable (write_table_with ts rs) (build_pindex ts rs) /\ recs_ok rs.

  Definition chunk_of (r : rec) : addr * bytes := (r_addr r, content (r_addr r)).

  Lemma tbl_has t rs h : tbl_rep t rs -> table_has t h = in_table rs h.
  Proof. intros (ts & Hv & -> & _). apply table_has_written. exact Hv. Qed.

  Lemma tbl_get t rs h : tbl_rep t rs ->
    table_get crc decompress t h = ROk (if in_table rs h then Some (content h) else None).
  Proof. intros (ts & Hv & -> & D & W). apply (table_get_written crc compress decompress decompress_compress); assumption. Qed.

  Lemma tbl_has_many t rs reqs : tbl_rep t rs -> reqs_sorted reqs ->
    has_many (t_ix t) reqs = (map (upd (in_table rs)) reqs, unfound (map (upd (in_table rs)) reqs)).
  Proof.
    intros (ts & Hv & -> & _) S. cbn [t_ix]. pose proof (has_many_spec ts rs reqs Hv S) as H.
    destruct (has_many (build_pindex ts rs) reqs) as [r' rem]. destruct H as [F R].
    apply Forall2_map_eq in F. subst r' rem. reflexivity.
  Qed.

  Lemma read_offs_written ts rs (ors : list offrec) : valid_tuples ts rs -> recs_ok rs ->
    Forall (fun x : offrec => exists k, (k < length rs)%nat /\ r_addr (nth k rs dummy_rec) = fst x
                                        /\ snd x = (offset_of rs k, len_of rs k)) ors ->
    read_offs crc decompress (write_table_with ts rs) ors = ROk (map (fun x : offrec => (fst x, content (fst x))) ors).
  Proof.
    intros Hv [D W] F. induction F as [|[a [off len]] ors (k & Hk & A & E) F IH]; [reflexivity|].
    cbn [read_offs map fst snd] in *. inversion E; subst off len.
    rewrite (read_chunk_written crc compress decompress decompress_compress ts rs k _ Hk (W k Hk)).
    cbn [rd_bind]. rewrite IH. cbn [rd_map]. rewrite A. reflexivity.
  Qed.

  (* tableReader.getMany *)
  Lemma tbl_get_many t rs reqs : tbl_rep t rs -> reqs_sorted reqs -> NoDup (map fst reqs) ->
    exists l, table_get_many crc decompress t reqs
              = (map (upd (in_table rs)) reqs, ROk l, unfound (map (upd (in_table rs)) reqs))
      /\ NoDup (map fst l)
      /\ (forall a d, In (a, d) l <-> In (a, false) reqs /\ in_table rs a = true /\ d = content a).
  Proof.
    intros (ts & Hv & -> & OK) S ND. unfold table_get_many. cbn [t_ix t_file].
    pose proof (find_offsets_spec ts rs reqs Hv S) as H.
    pose proof (find_offsets_loop_nodup (build_pindex ts rs) reqs 0 false ND) as [N I].
    unfold find_offsets in *.
    destruct (find_offsets_loop (build_pindex ts rs) reqs 0 false) as [[r' o] b]. cbn [fst snd] in *.
    destruct H as (HM & F & C).
    assert (T : tbl_rep (mkTable (write_table_with ts rs) (build_pindex ts rs)) rs) by (exists ts; split; [exact Hv | split; [reflexivity | exact OK]]).
    pose proof (tbl_has_many _ rs reqs T S) as HM'. cbn [t_ix] in HM'. rewrite HM in HM'. inversion HM'; subst r' b.
    exists (map (fun x : offrec => (fst x, content (fst x))) (sort_offs o)). split; [|split].
    - rewrite (read_offs_written ts rs (sort_offs o) Hv OK); [reflexivity|].
      eapply Forall_impl; [|exact F]. intros x [_ E]. exact E.
    - rewrite map_map. cbn [fst]. change (map (fun x : offrec => fst x) (sort_offs o)) with (map fst (sort_offs o)).
      apply (Permutation_NoDup (l := map fst o)); [apply Permutation_map, Permutation_sym, sort_offs_perm | exact N].
    - intros a d. rewrite in_map_iff. split.
      + intros (x & E & Hx). inversion E; subst. rewrite Forall_forall in F. destruct (F x Hx) as [Hr (k & Hk & A & _)].
        repeat split; [exact Hr | apply in_table_iff; exists k; split; assumption].
      + intros (Hr & P & ->). specialize (C a Hr P). apply in_map_iff in C. destruct C as (x & <- & Hx).
        exists x. split; [reflexivity | exact Hx].
  Qed.

  (* tableReader.iterateAllChunks: exactly the stored chunks, in storage order *)
  Lemma tbl_iterate t rs : tbl_rep t rs -> table_iterate crc decompress t = ROk (map chunk_of rs).
  Proof.
    intros (ts & Hv & -> & D & W). unfold table_iterate. cbn [t_ix t_file].
    set (ix := build_pindex ts rs).
    set (g := fun t : tuple => ((fst t, nth_N (pi_suffixes ix) (snd t) 0), get_index_entry ix (snd t)) : offrec).
    assert (Eg : forall l, index_entries ix l = map g l).
    { induction l as [|[p o] l IH]; [reflexivity|]. cbn [index_entries map]. rewrite IH. reflexivity. }
    set (f := fun k : nat => (r_addr (nth k rs dummy_rec), (offset_of rs k, len_of rs k)) : offrec).
    set (E := map f (seq 0 (length rs))).
    assert (PE : Permutation (map g ts) E).
    { rewrite (Permutation_map g (proj1 Hv)), tuples_from_seq, map_map. unfold E.
      erewrite map_ext_in; [reflexivity|]. intros k Hk. apply in_seq in Hk. unfold g, f. cbn [fst snd].
      replace (0 + N.of_nat k) with (N.of_nat k) by lia.
      unfold ix. rewrite (suffix_nth ts rs k) by lia. rewrite (index_entry_spec ts rs k) by lia.
      destruct (r_addr (nth k rs dummy_rec)); reflexivity. }
    assert (UE : forall x y, In x E -> In y E -> fst (snd x) = fst (snd y) -> x = y).
    { intros x y Hx Hy. unfold E in *. apply in_map_iff in Hx, Hy. destruct Hx as (i & <- & Hi), Hy as (j & <- & Hj).
      apply in_seq in Hi, Hj. unfold f. cbn [fst snd]. intros Eo.
      destruct (Nat.lt_trichotomy i j) as [L | [-> | L]]; [|reflexivity|].
      - pose proof (offset_of_lt rs j i L ltac:(lia)). pose proof (len_of_pos rs i). lia.
      - pose proof (offset_of_lt rs i j L ltac:(lia)). pose proof (len_of_pos rs j). lia. }
    assert (SE : StronglySorted (kle _ _ (fun o : offrec => fst (snd o)) N.ltb) E).
    { unfold E. apply SS_map_seq. intros i j _ Hij Hj. unfold kle, f. cbn [fst snd]. apply N.ltb_ge.
      pose proof (offset_of_lt rs j i Hij ltac:(lia)). lia. }
    rewrite Eg, sort_offs_isort.
    rewrite (isort_perm_eq _ _ _ _ N_ltb_asym N_ltb_tri N_le_trans (map g ts) E).
    2:{ intros x y Hx Hy. apply UE; apply (Permutation_in _ PE); assumption. }
    2:{ exact PE. }
    rewrite (isort_sorted_id _ _ _ _ N_ltb_asym N_ltb_tri N_le_trans E UE SE).
    (* sequential read *)
    assert (RS : forall m k0, (k0 + m = length rs)%nat ->
              read_seq crc decompress (write_table_with ts rs) (offset_of rs k0) (map f (seq k0 m))
              = ROk (map (fun k => chunk_of (nth k rs dummy_rec)) (seq k0 m))).
    { induction m as [|m IH]; intros k0 Hk; [reflexivity|].
      cbn [seq map read_seq]. unfold f at 1.
      rewrite (read_chunk_written crc compress decompress decompress_compress ts rs k0 _ ltac:(lia) (W k0 ltac:(lia))).
      cbn [rd_bind]. rewrite <- offset_of_S by lia. rewrite IH by lia. reflexivity. }
    unfold E. change 0 with (offset_of rs 0) at 1. rewrite (RS (length rs) O) by lia.
    f_equal. apply (map_nth_seq chunk_of).
  Qed.

  Lemma tbl_count t rs : tbl_rep t rs -> table_count t = nlen rs.
  Proof. intros (ts & _ & -> & _). reflexivity. Qed.
  Lemma tbl_unc t rs : tbl_rep t rs -> table_unc t = total_unc rs.
  Proof. intros (ts & _ & -> & _). reflexivity. Qed.
End Tbl.
