(* C01 — batches_cover: every requested span lies inside the read batch that serves it,
   and every span is served by exactly one batch (in order). *)
From Coq Require Import NArith Arith List Bool Lia Sorting.Sorted.
From Dolt Require Import C01.ModelBatch.
Import ListNotations.
Local Open Scope N_scope.

Definition run_covers (r : run) : Prop :=
  let '(s, e, ms) := r in forall m, In m ms -> s <= fst m /\ fst m + snd m <= e.
Definition spans_sorted (l : list span) : Prop := StronglySorted (fun a b : span => fst a <= fst b) l.

Lemma can_read_ahead_end off len s e bs : s <= e ->
  let '(ne, can) := can_read_ahead off len s e bs in can = true -> e <= (if ne <? off + len then off + len else ne) /\ off + len <= (if ne <? off + len then off + len else ne).
Proof.
  intros Hse. unfold can_read_ahead. destruct (off <? e) eqn:E1.
  - intros _. destruct (e <? off + len) eqn:E2; [apply N.ltb_lt in E2 | apply N.ltb_ge in E2]; lia.
  - apply N.ltb_ge in E1. destruct (max_read_size <=? e - s); [discriminate|]. destruct (bs <? off - e); [discriminate|].
    intros _. rewrite N.ltb_irrefl. lia.
Qed.

Lemma group_loop_spec bs : forall spans cur done,
  spans_sorted spans -> (forall sp, In sp spans -> fst (fst cur) <= fst sp) ->
  fst (fst cur) <= snd (fst cur) -> run_covers cur -> Forall run_covers done ->
  Forall run_covers (group_loop bs spans cur done)
  /\ concat (map snd (group_loop bs spans cur done)) = concat (map snd (rev done)) ++ snd cur ++ spans.
Proof.
  induction spans as [|[off len] t IH]; intros [[s e] ms] done S Hs Hse Hc Hd; cbn [group_loop fst snd] in *.
  - split.
    + apply Forall_rev. constructor; assumption.
    + cbn [rev]. rewrite map_app, concat_app. cbn [map concat snd]. rewrite !app_nil_r. reflexivity.
  - inversion S as [|? ? St Hoff]; subst. rewrite Forall_forall in Hoff.
    pose proof (can_read_ahead_end off len s e bs Hse) as CE.
    destruct (can_read_ahead off len s e bs) as [ne can]. destruct can.
    + destruct (CE eq_refl) as [C1 C2]. set (ne' := if ne <? off + len then off + len else ne) in *.
      destruct (IH (s, ne', ms ++ [(off, len)]) done St) as [F E]; cbn [fst snd].
      * intros sp Hsp. apply Hs. right. exact Hsp.
      * lia.
      * intros m Hm. apply in_app_iff in Hm. destruct Hm as [Hm | [<- | []]].
        -- destruct (Hc m Hm). split; lia.
        -- cbn [fst snd]. split; [exact (Hs (off, len) (or_introl eq_refl)) | lia].
      * exact Hd.
      * split; [exact F|]. etransitivity; [exact E|]. cbn [snd]. rewrite <- !app_assoc. reflexivity.
    + cbv beta iota. destruct (IH (off, off + len, [(off, len)]) ((s, e, ms) :: done) St) as [F E]; cbn [fst snd].
      * intros sp Hsp. exact (Hoff sp Hsp).
      * lia.
      * intros m [<- | []]. cbn [fst snd]. lia.
      * constructor; assumption.
      * split; [exact F|]. etransitivity; [exact E|]. cbn [rev map snd]. rewrite map_app, concat_app. cbn [map concat snd]. rewrite app_nil_r, <- !app_assoc. reflexivity.
Qed.

(* HEADLINE: for spans sorted by offset (findOffsets sorts them), every run produced by
   groupSpans covers each span it serves, and the runs serve exactly the requested spans, in order. *)
Theorem batches_cover bs spans : spans_sorted spans ->
  Forall run_covers (group_spans bs spans) /\ concat (map snd (group_spans bs spans)) = spans.
Proof.
  intros S. destruct spans as [|[off len] t]; [split; [constructor | reflexivity]|].
  cbn [group_spans]. inversion S as [|? ? St Hoff]; subst. rewrite Forall_forall in Hoff.
  destruct (group_loop_spec bs t (off, off + len, [(off, len)]) [] St) as [F E]; cbn [fst snd].
  - intros sp Hsp. exact (Hoff sp Hsp).
  - lia.
  - intros m [<- | []]. cbn [fst snd]. lia.
  - constructor.
  - split; [exact F | etransitivity; [exact E | reflexivity]].
Qed.
