(* C01 — the chunk store state machine refines a finite map. *)
From Coq Require Import NArith Arith List Bool Lia Sorting.Permutation Sorting.Sorted.
From Dolt Require Import Base.Str Gen.C01Consts C01.Model C01.Spec C01.Corr C01.Proofs C01.ProofsBytes C01.ProofsSort C01.ProofsTable.
Import ListNotations.
Local Open Scope N_scope.

Lemma unfound_false_all l : unfound l = false -> forall r, In r l -> snd r = true.
Proof.
  intros H r Hr. destruct (snd r) eqn:E; [reflexivity|]. exfalso.
  assert (unfound l = true) by (apply existsb_exists; exists r; split; [exact Hr | rewrite E; reflexivity]). congruence.
Qed.

Lemma upd_saturated f g l : unfound (map (upd f) l) = false -> map (upd f) l = map (upd (fun a => f a || g a)) l.
Proof.
  intros H. apply map_ext_in. intros r Hr. unfold upd. f_equal.
  pose proof (unfound_false_all _ H (upd f r) (in_map _ _ _ Hr)) as E. cbn [upd snd] in E. rewrite E.
  symmetry. rewrite orb_assoc, E. reflexivity.
Qed.
Lemma upd_upd f g l : map (upd g) (map (upd f) l) = map (upd (fun a => f a || g a)) l.
Proof. rewrite map_map. apply map_ext. intros r. unfold upd. cbn [fst snd]. rewrite orb_assoc. reflexivity. Qed.
Lemma upd_ext f g l : (forall a, f a = g a) -> map (upd f) l = map (upd g) l.
Proof. intros H. apply map_ext. intros r. unfold upd. rewrite H. reflexivity. Qed.

Lemma in_tables_cons rs rss h : in_tables (rs :: rss) h = in_table rs h || in_tables rss h.
Proof. reflexivity. Qed.
Lemma in_tables_app a b h : in_tables (a ++ b) h = in_tables a h || in_tables b h.
Proof. unfold in_tables. apply existsb_app. Qed.

Lemma NoDup_app_intro {A} (l1 l2 : list A) :
  NoDup l1 -> NoDup l2 -> (forall a, In a l1 -> In a l2 -> False) -> NoDup (l1 ++ l2).
Proof.
  intros N1 N2 D. induction N1 as [|x l1 Hx N1 IH]; [exact N2|]. cbn [app]. constructor.
  - rewrite in_app_iff. intros [H | H]; [exact (Hx H) | exact (D x (or_introl eq_refl) H)].
  - apply IH. intros a Ha. apply D. right. exact Ha.
Qed.

Section Store.
  Variable crc : bytes -> N.
  Variable compress : bytes -> bytes.
  Variable decompress : bytes -> option bytes.
  Hypothesis decompress_compress : forall d, decompress (compress d) = Some d.
  Variable content : addr -> bytes.

  Notation trep := (tbl_rep crc compress content).
  Notation chunk_of := (chunk_of content).

  (* ---------------- lists of sources ---------------- *)
  Lemma srcs_has_spec tbls rss h : Forall2 trep tbls rss -> srcs_has tbls h = in_tables rss h.
  Proof.
    induction 1 as [|t rs tbls rss T F IH]; [reflexivity|].
    cbn [srcs_has]. rewrite in_tables_cons, (tbl_has crc compress content t rs h T), IH.
    destruct (in_table rs h); reflexivity.
  Qed.

  Lemma srcs_get_spec tbls rss h : Forall2 trep tbls rss ->
    srcs_get crc decompress tbls h = ROk (if in_tables rss h then Some (content h) else None).
  Proof.
    induction 1 as [|t rs tbls rss T F IH]; [reflexivity|].
    cbn [srcs_get]. rewrite (tbl_get crc compress decompress decompress_compress content t rs h T). cbn [rd_bind].
    rewrite in_tables_cons. destruct (in_table rs h); [reflexivity | exact IH].
  Qed.

  Lemma srcs_has_many_spec tbls rss : Forall2 trep tbls rss -> forall reqs, reqs_sorted reqs ->
    fst (srcs_has_many tbls reqs) = map (upd (in_tables rss)) reqs
    /\ (snd (srcs_has_many tbls reqs) = false -> unfound (map (upd (in_tables rss)) reqs) = false).
  Proof.
    induction 1 as [|t rs tbls rss T F IH]; intros reqs S.
    - cbn [srcs_has_many fst snd]. split; [|discriminate].
      symmetry. erewrite map_ext; [apply map_id|]. intros [a f]. unfold upd. cbn. rewrite orb_false_r. reflexivity.
    - cbn [srcs_has_many]. rewrite (tbl_has_many crc compress content t rs reqs T S).
      destruct (unfound (map (upd (in_table rs)) reqs)) eqn:U.
      + destruct (IH _ (upd_sorted (in_table rs) reqs S)) as [E R]. rewrite upd_upd in E, R.
        split; [rewrite E; apply upd_ext; intros a; apply in_tables_cons | intros H; specialize (R H)].
        erewrite upd_ext; [exact R | intros a; apply in_tables_cons].
      + cbn [fst snd]. rewrite (upd_saturated _ (in_tables rss) _ U).
        split; [apply upd_ext; intros a; symmetry; apply in_tables_cons|]. intros _.
        erewrite upd_ext; [|intros a; apply in_tables_cons]. rewrite <- (upd_saturated _ (in_tables rss) _ U). exact U.
  Qed.

  Lemma srcs_get_many_spec tbls rss : Forall2 trep tbls rss -> forall reqs, reqs_sorted reqs -> NoDup (map fst reqs) ->
    exists l, srcs_get_many crc decompress tbls reqs
              = (fst (srcs_has_many tbls reqs), ROk l, snd (srcs_has_many tbls reqs))
      /\ NoDup (map fst l)
      /\ (forall a d, In (a, d) l <-> In (a, false) reqs /\ in_tables rss a = true /\ d = content a).
  Proof.
    induction 1 as [|t rs tbls rss T F IH]; intros reqs S ND.
    - exists []. cbn. split; [reflexivity|]. split; [constructor|]. intros a d. split; [intros [] | intros (_ & C & _); discriminate].
    - cbn [srcs_get_many srcs_has_many].
      destruct (tbl_get_many crc compress decompress decompress_compress content t rs reqs T S ND) as (l1 & E1 & N1 & M1).
      rewrite E1, (tbl_has_many crc compress content t rs reqs T S).
      destruct (unfound (map (upd (in_table rs)) reqs)) eqn:U.
      + destruct (IH _ (upd_sorted (in_table rs) reqs S)) as (l2 & E2 & N2 & M2); [rewrite map_fst_upd; exact ND|].
        rewrite E2. destruct (srcs_has_many tbls (map (upd (in_table rs)) reqs)) as [r2 b2]. cbn [fst snd rd_bind rd_map].
        exists (l1 ++ l2). split; [reflexivity|]. split.
        * rewrite map_app. apply NoDup_app_intro; [exact N1 | exact N2|].
          intros a Ha1 Ha2. apply in_map_iff in Ha1, Ha2. destruct Ha1 as ([a1 d1] & <- & I1), Ha2 as ([a2 d2] & E & I2). cbn [fst] in *. subst a2.
          apply M1 in I1. apply M2 in I2. destruct I1 as (_ & P & _), I2 as (Q & _ & _). apply in_upd_false in Q. destruct Q as [_ Q]. congruence.
        * intros a d. rewrite in_app_iff, M1, M2, in_upd_false, in_tables_cons. split.
          -- intros [(A & B & C) | ((A & B) & C & D)]; repeat split; try assumption; [rewrite B | rewrite C, orb_true_r]; reflexivity.
          -- intros (A & B & C). destruct (in_table rs a) eqn:P; [left | right]; repeat split; assumption.
      + cbn [fst snd]. exists l1. split; [reflexivity|]. split; [exact N1|].
        intros a d. rewrite M1, in_tables_cons. split.
        * intros (A & B & C). repeat split; [exact A | rewrite B; reflexivity | exact C].
        * intros (A & B & C). repeat split; [exact A | | exact C].
          pose proof (unfound_false_all _ U (upd (in_table rs) (a, false)) (in_map _ _ _ A)) as E. exact E.
  Qed.

  Lemma srcs_iterate_spec tbls rss : Forall2 trep tbls rss ->
    srcs_iterate crc decompress tbls = ROk (flat_map (map chunk_of) rss).
  Proof.
    induction 1 as [|t rs tbls rss T F IH]; [reflexivity|].
    cbn [srcs_iterate flat_map]. rewrite (tbl_iterate crc compress decompress decompress_compress content t rs T). cbn [rd_bind].
    rewrite IH. reflexivity.
  Qed.

  (* novel-then-upstream is one list *)
  Lemma srcs_has_many_app a b : forall reqs,
    srcs_has_many (a ++ b) reqs = (let '(r1, rem) := srcs_has_many a reqs in if rem then srcs_has_many b r1 else (r1, false)).
  Proof.
    induction a as [|t a IH]; intros reqs; cbn [app srcs_has_many]; [destruct (srcs_has_many b reqs); reflexivity|].
    destruct (has_many (t_ix t) reqs) as [r' rem]. destruct rem; [apply IH | reflexivity].
  Qed.
  Lemma ts_has_many_app n u reqs : ts_has_many n u reqs = srcs_has_many (n ++ u) reqs.
  Proof. unfold ts_has_many. rewrite srcs_has_many_app. reflexivity. Qed.

  Lemma srcs_get_many_app a b : forall reqs,
    srcs_get_many crc decompress (a ++ b) reqs
    = (let '(r1, got, rem) := srcs_get_many crc decompress a reqs in
       if rem then let '(r2, got', rem') := srcs_get_many crc decompress b r1 in
                   (r2, rd_bind got (fun x => rd_map (fun y => x ++ y) got'), rem')
       else (r1, got, false)).
  Proof.
    induction a as [|t a IH]; intros reqs; cbn [app srcs_get_many].
    - destruct (srcs_get_many crc decompress b reqs) as [[r g] m]. cbn [rd_bind]. destruct g; reflexivity.
    - destruct (table_get_many crc decompress t reqs) as [[r' g'] rem]. destruct rem; [|reflexivity].
      rewrite IH. destruct (srcs_get_many crc decompress a r') as [[r1 g1] m1]. destruct m1; [|reflexivity].
      destruct (srcs_get_many crc decompress b r1) as [[r2 g2] m2].
      f_equal. f_equal. destruct g'; try reflexivity. destruct g1; try reflexivity. destruct g2; try reflexivity.
      cbn. rewrite app_assoc. reflexivity.
  Qed.
  Lemma ts_get_many_app n u reqs : ts_get_many crc decompress n u reqs = srcs_get_many crc decompress (n ++ u) reqs.
  Proof. unfold ts_get_many. rewrite srcs_get_many_app. reflexivity. Qed.

  Lemma srcs_has_app a b h : srcs_has (a ++ b) h = srcs_has a h || srcs_has b h.
  Proof. induction a as [|t a IH]; [reflexivity|]. cbn [app srcs_has]. destruct (table_has t h); [reflexivity | exact IH]. Qed.
  Lemma srcs_get_app a b h :
    srcs_get crc decompress (a ++ b) h
    = rd_bind (srcs_get crc decompress a h) (fun o => match o with Some d => ROk (Some d) | None => srcs_get crc decompress b h end).
  Proof.
    induction a as [|t a IH]; [reflexivity|]. cbn [app srcs_get]. destruct (table_get crc decompress t h) as [[d|]| | | |]; try reflexivity.
    cbn [rd_bind]. exact IH.
  Qed.
  Lemma srcs_iterate_app a b :
    srcs_iterate crc decompress (a ++ b)
    = rd_bind (srcs_iterate crc decompress a) (fun x => rd_map (fun y => x ++ y) (srcs_iterate crc decompress b)).
  Proof.
    induction a as [|t a IH]; cbn [app srcs_iterate].
    - destruct (srcs_iterate crc decompress b); reflexivity.
    - destruct (table_iterate crc decompress t); try reflexivity. cbn [rd_bind]. rewrite IH.
      destruct (srcs_iterate crc decompress a); try reflexivity. cbn [rd_bind rd_map].
      destruct (srcs_iterate crc decompress b); try reflexivity. cbn. rewrite app_assoc. reflexivity.
  Qed.
End Store.
