(* C47 — correspondence.
   Input: the operations (names as (class, spelling); the backup name of a DROP is
   the one the implementation was seen to use).  Observation: first the initial
   state, then one entry per operation: did it succeed, the live databases (exact
   name, fingerprint number) sorted by name, the names in the holding directory
   sorted.  Fingerprints are numbered by first occurrence in the run; the model's
   database values must be in one-to-one correspondence with them. *)
From Coq Require Import NArith List Bool.
From Dolt Require Import C47.Model C47.Spec.
Import ListNotations.
Local Open Scope N_scope.

Record sobs := { o_ok : bool; o_live : list (name * N); o_dropped : list name }.
Definition input := list op.
Definition obs := list sobs.
Definition case := (input * obs)%type.

(* the engine starts with the root database "test" = class 0, spelling 2 (lower case) *)
Definition init : pstate := {| live := [(0, (2, [1000]))]; dropped := []; root := Some 0 |}.

Definition name_ltb (a b : name) : bool := (fst a <? fst b) || ((fst a =? fst b) && (snd a <? snd b)).

Fixpoint ins {V : Type} (x : name * V) (l : list (name * V)) : list (name * V) :=
  match l with
  | [] => [x]
  | y :: l' => if name_ltb (fst x) (fst y) then x :: l else y :: ins x l'
  end.
Definition sort_by_name {V : Type} (l : list (name * V)) : list (name * V) := fold_right ins [] l.

Record mobs := { m_ok : bool; m_live : list (name * db); m_dropped : list name }.

Definition view (ok : bool) (s : pstate) : mobs :=
  {| m_ok := ok;
     m_live := sort_by_name (map (fun x => ((fst x, fst (snd x)), snd (snd x))) (live s));
     m_dropped := map fst (sort_by_name (map (fun x => (fst x, tt)) (dropped s))) |}.

Fixpoint mrun (s : pstate) (ops : list op) : list mobs :=
  match ops with
  | [] => []
  | o :: ops' => match step s o with
                 | Some s' => view true s' :: mrun s' ops'
                 | None => view false s :: mrun s ops'
                 end
  end.

Definition model_obs (i : input) : list mobs := view true init :: mrun init i.

Fixpoint db_eqb (a b : db) : bool :=
  match a, b with
  | [], [] => true
  | x :: a', y :: b' => (x =? y) && db_eqb a' b'
  | _, _ => false
  end.

Fixpoint names_eqb (a b : list name) : bool :=
  match a, b with
  | [], [] => true
  | x :: a', y :: b' => name_eqb x y && names_eqb a' b'
  | _, _ => false
  end.

(* same names; returns the (value, fingerprint) pairs *)
Fixpoint zip_live (m : list (name * db)) (i : list (name * N)) : option (list (db * N)) :=
  match m, i with
  | [], [] => Some []
  | (n, d) :: m', (n', f) :: i' =>
    if name_eqb n n' then match zip_live m' i' with Some l => Some ((d, f) :: l) | None => None end else None
  | _, _ => None
  end.

Fixpoint zip_obs (m : list mobs) (o : obs) : option (list (db * N)) :=
  match m, o with
  | [], [] => Some []
  | x :: m', y :: o' =>
    if Bool.eqb (m_ok x) (o_ok y) && names_eqb (m_dropped x) (o_dropped y)
    then match zip_live (m_live x) (o_live y), zip_obs m' o' with
         | Some a, Some b => Some (a ++ b)
         | _, _ => None
         end
    else None
  | _, _ => None
  end.

Definition bijective (l : list (db * N)) : bool :=
  forallb (fun p => forallb (fun q => Bool.eqb (db_eqb (fst p) (fst q)) (snd p =? snd q)) l) l.

Definition obs_eqb (m : list mobs) (o : obs) : bool :=
  match zip_obs m o with Some l => bijective l | None => false end.

(* ---- the property on the implementation's observations (Spec: the pile of generations) ---- *)
Definition live_of (o : sobs) (i : N) : option (name * N) := find (fun x => fst (fst x) =? i) (o_live o).

Fixpoint live_eqb (a b : list (name * N)) : bool :=
  match a, b with
  | [], [] => true
  | (n, f) :: a', (n', f') :: b' => name_eqb n n' && (f =? f') && live_eqb a' b'
  | _, _ => false
  end.

Definition others_same (i : N) (p n : sobs) : bool :=
  live_eqb (filter (fun x => negb (fst (fst x) =? i)) (o_live p)) (filter (fun x => negb (fst (fst x) =? i)) (o_live n)).

Definition same_live (p n : sobs) : bool := live_eqb (o_live p) (o_live n).

(* same database: the class of the name and the fingerprint.  The spelling of the restored
   name is not part of the property (names are case-insensitive in SQL); it is compared
   between model and implementation. *)
Definition ent_eqb (a b : option (name * N)) : bool :=
  match a, b with
  | Some (n, f), Some (n', f') => (fst n =? fst n') && (f =? f')
  | None, None => true
  | _, _ => false
  end.

Definition prop_step (p : sobs) (g : pile N) (o : op) (n : sobs) : bool :=
  match o with
  | Create m _ | Mutate m _ => if o_ok n then others_same (fst m) p n else same_live p n
  | Drop m _ => if o_ok n then others_same (fst m) p n && ent_eqb (live_of n (fst m)) None else same_live p n
  | Undrop m =>
    match live_of p (fst m) with
    | Some _ => negb (o_ok n) && same_live p n                      (* never over an existing database *)
    | None =>
      match latest (fst m) g with
      | Some (e, f) => o_ok n && others_same (fst m) p n && ent_eqb (live_of n (fst m)) (Some (e, f))   (* restored intact *)
      | None => negb (o_ok n) && same_live p n                      (* nothing to restore (never dropped / purged) *)
      end
    end
  | Purge => same_live p n
  end.

(* the name a dropped database is held under: the entry of its class that is new in the
   holding directory, else (a second generation of the same exact name) its live name *)
Definition held_name (p n : sobs) (e : name) : name :=
  match find (fun x => (fst x =? fst e) && negb (existsb (name_eqb x) (o_dropped p))) (o_dropped n) with
  | Some x => x
  | None => e
  end.

Definition next_pile (p : sobs) (g : pile N) (o : op) (n : sobs) : pile N :=
  if negb (o_ok n) then g
  else match o with
       | Drop m a => match live_of p (fst m) with
                     | Some (e, f) => let h := held_name p n e in (h, f) :: rename_gen h a g
                     | None => g
                     end
       | Undrop m => match latest (fst m) g with Some (e, _) => take_out e g | None => g end
       | Purge => []
       | _ => g
       end.

Fixpoint prop_run (p : sobs) (g : pile N) (ops : list op) (os : obs) : bool :=
  match ops, os with
  | [], [] => true
  | o :: ops', n :: os' => prop_step p g o n && prop_run n (next_pile p g o n) ops' os'
  | _, _ => false
  end.

Definition oracle (i : input) (o : obs) : bool :=
  match o with
  | p :: os => prop_run p [] i os
  | [] => false
  end.

Definition check_case (c : case) : N :=
  (if obs_eqb (model_obs (fst c)) (snd c) then 0 else 1)
  + (if oracle (fst c) (snd c) then 0 else 2).
