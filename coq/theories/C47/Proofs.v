(* C47 — proofs about the provider model, for every state and every operation sequence. *)
From Coq Require Import NArith List Bool Lia.
From Dolt Require Import C47.Model C47.Spec.
Import ListNotations.
Local Open Scope N_scope.

(* ---------------------------------------------------------------- *)
Lemma name_eqb_eq a b : name_eqb a b = true -> a = b.
Proof.
  destruct a as [a1 a2], b as [b1 b2]. unfold name_eqb; cbn [fst snd].
  intros H. apply andb_true_iff in H as [H1 H2]. apply N.eqb_eq in H1, H2. subst; reflexivity.
Qed.

Lemma lookup_del_same {A} k (l : list (N * A)) : lookup k (del k l) = None.
Proof.
  induction l as [|[k' v] l IH]; [reflexivity|]. unfold del in *. cbn [filter fst].
  destruct (k' =? k) eqn:E; cbn [negb]; [exact IH|].
  cbn [lookup]. rewrite N.eqb_sym, E. exact IH.
Qed.

Lemma lookup_del_other {A} k j (l : list (N * A)) : j <> k -> lookup j (del k l) = lookup j l.
Proof.
  intros Hn. induction l as [|[k' v] l IH]; [reflexivity|]. unfold del in *. cbn [filter fst].
  destruct (k' =? k) eqn:E; cbn [negb lookup].
  - apply N.eqb_eq in E. subst k'. destruct (j =? k) eqn:E2; [apply N.eqb_eq in E2; contradiction | exact IH].
  - rewrite IH. reflexivity.
Qed.

Lemma lookup_put_same {A} k (v : A) l : lookup k (put k v l) = Some v.
Proof. unfold put. cbn [lookup]. rewrite N.eqb_refl. reflexivity. Qed.

Lemma lookup_put_other {A} k j (v : A) l : j <> k -> lookup j (put k v l) = lookup j l.
Proof.
  intros Hn. unfold put. cbn [lookup]. destruct (j =? k) eqn:E; [apply N.eqb_eq in E; contradiction|].
  apply lookup_del_other; exact Hn.
Qed.

(* ---------------------------------------------------------------- *)
(* first_match                                                       *)
Lemma fm_In i l m d : first_match i l = Some (m, d) -> In (m, d) l /\ fst m = i.
Proof.
  revert m d. induction l as [|[m0 d0] l IH]; intros m d; cbn [first_match]; [discriminate|].
  destruct (fst m0 =? i) eqn:E.
  - destruct (first_match i l) as [[m' d']|] eqn:Er.
    + destruct (snd m' <? snd m0).
      * intros H. injection H as <- <-. destruct (IH m' d' eq_refl) as [Hin Hc]. split; [right; exact Hin | exact Hc].
      * intros H. injection H as <- <-. split; [left; reflexivity | apply N.eqb_eq; exact E].
    + intros H. injection H as <- <-. split; [left; reflexivity | apply N.eqb_eq; exact E].
  - intros H. destruct (IH m d H) as [Hin Hc]. split; [right; exact Hin | exact Hc].
Qed.

Lemma fm_cons_other i m d l : fst m <> i -> first_match i ((m, d) :: l) = first_match i l.
Proof. intros H. cbn [first_match]. destruct (fst m =? i) eqn:E; [apply N.eqb_eq in E; contradiction | reflexivity]. Qed.

Lemma fm_none i l : (forall m d, In (m, d) l -> fst m <> i) -> first_match i l = None.
Proof.
  intros H. destruct (first_match i l) as [[m d]|] eqn:E; [|reflexivity].
  apply fm_In in E as [Hin Hc]. exfalso. eapply H; eassumption.
Qed.

Lemma fm_rename_other i e a l : fst e <> i -> fst a <> i -> first_match i (rename e a l) = first_match i l.
Proof.
  intros He Ha. induction l as [|[m d] l IH]; [reflexivity|]. cbn [rename].
  destruct (name_eqb m e) eqn:E.
  - apply name_eqb_eq in E. subst m. rewrite !fm_cons_other by assumption. reflexivity.
  - cbn [first_match]. rewrite IH. reflexivity.
Qed.

Lemma fm_remove_other i e l : fst e <> i -> first_match i (remove_exact e l) = first_match i l.
Proof.
  intros He. induction l as [|[m d] l IH]; [reflexivity|]. cbn [remove_exact].
  destruct (name_eqb m e) eqn:E.
  - apply name_eqb_eq in E. subst m. rewrite fm_cons_other by assumption. reflexivity.
  - cbn [first_match]. rewrite IH. reflexivity.
Qed.

Lemma rename_In e a l x : In x (rename e a l) -> fst x = a \/ In x l.
Proof.
  induction l as [|[m d] l IH]; cbn [rename]; [tauto|].
  destruct (name_eqb m e).
  - intros [<-|H]; [left; reflexivity | right; right; exact H].
  - intros [<-|H]; [right; left; reflexivity|]. destruct (IH H) as [H1|H1]; [left; exact H1 | right; right; exact H1].
Qed.

(* ---------------------------------------------------------------- *)
(* operations on other databases do not disturb class i               *)
Lemma step_other i s o s' : other_op i o -> step s o = Some s' ->
  first_match i (dropped s') = first_match i (dropped s) /\ lookup i (live s') = lookup i (live s).
Proof.
  destruct o as [n st|n k|n a|n|]; cbn [other_op step]; intros Ho Hs.
  - destruct (lookup (fst n) (live s)); [discriminate|]. injection Hs as <-. cbn [live dropped root].
    split; [reflexivity | apply lookup_put_other; congruence].
  - destruct (lookup (fst n) (live s)) as [[v d]|]; [|discriminate]. injection Hs as <-. cbn [live dropped root].
    split; [reflexivity | apply lookup_put_other; congruence].
  - destruct Ho as [Hn Ha]. destruct (lookup (fst n) (live s)) as [[v d]|]; [|discriminate]. injection Hs as <-. cbn [live dropped root].
    split.
    + rewrite fm_cons_other by (cbn [fst]; exact Hn). apply fm_rename_other; [cbn [fst]; exact Hn | exact Ha].
    + apply lookup_del_other. congruence.
  - destruct (first_match (fst n) (dropped s)) as [[e d]|] eqn:E; [|discriminate].
    apply fm_In in E as [_ Hc].
    destruct (lookup (fst e) (live s)); [discriminate|]. injection Hs as <-. cbn [live dropped root].
    split; [apply fm_remove_other; congruence | apply lookup_put_other; congruence].
  - destruct Ho.
Qed.

Lemma run_other i ops : Forall (other_op i) ops -> forall s,
  first_match i (dropped (run s ops)) = first_match i (dropped s) /\ lookup i (live (run s ops)) = lookup i (live s).
Proof.
  induction 1 as [|o ops Ho _ IH]; intros s; [split; reflexivity|].
  unfold run in *. cbn [fold_left]. destruct (IH (step' s o)) as [H1 H2]. rewrite H1, H2.
  unfold step'. destruct (step s o) as [s'|] eqn:E; [eapply step_other; eassumption | split; reflexivity].
Qed.

(* ---------------------------------------------------------------- *)
(* undrop restores                                                    *)
(* Drop database n, do anything to OTHER databases (no purge), undrop it under any
   spelling: it is back under its exact name with exactly its value, and no other
   live database changed — provided no dropped name of the same class sorts before it. *)
Theorem undrop_restores s n v d a ops n' :
  lookup (fst n) (live s) = Some (v, d) ->
  let sp := if is_root s (fst n) then snd n else v in        (* the spelling it is held (and comes back) under *)
  first_of_class (fst n, sp) (dropped s) -> fst a <> fst n ->
  Forall (other_op (fst n)) ops -> fst n' = fst n ->
  exists s1 s3, step s (Drop n a) = Some s1 /\ step (run s1 ops) (Undrop n') = Some s3 /\
    lookup (fst n) (live s3) = Some (sp, d) /\
    forall j, j <> fst n -> lookup j (live s3) = lookup j (live (run s1 ops)).
Proof.
  intros Hl sp Hf Ha Hops Hn'.
  set (s1 := {| live := del (fst n) (live s); dropped := ((fst n, sp), d) :: rename (fst n, sp) a (dropped s);
                root := if is_root s (fst n) then None else root s |}).
  assert (Hfm : first_match (fst n) (dropped s1) = Some ((fst n, sp), d)).
  { unfold s1; cbn [dropped first_match fst snd]. rewrite N.eqb_refl.
    destruct (first_match (fst n) (rename (fst n, sp) a (dropped s))) as [[m' d']|] eqn:E; [|reflexivity].
    apply fm_In in E as [Hin Hc]. apply rename_In in Hin as [Hin|Hin].
    - cbn [fst] in Hin. subst m'. contradiction.
    - specialize (Hf m' d' Hin Hc). cbn [snd] in Hf.
      destruct (snd m' <? sp) eqn:El; [apply N.ltb_lt in El; lia | reflexivity]. }
  assert (Hlv : lookup (fst n) (live s1) = None) by (unfold s1; cbn [live]; apply lookup_del_same).
  destruct (run_other (fst n) ops Hops s1) as [H1 H2]. rewrite Hfm in H1. rewrite Hlv in H2.
  exists s1.
  exists {| live := put (fst n) (sp, d) (live (run s1 ops)); dropped := remove_exact (fst n, sp) (dropped (run s1 ops));
            root := root (run s1 ops) |}.
  split; [cbn [step]; rewrite Hl; reflexivity|].
  split; [cbn [step]; rewrite Hn', H1; cbn [fst snd]; rewrite H2; reflexivity|].
  cbn [live]. split.
  - apply lookup_put_same.
  - intros j Hj. apply lookup_put_other; exact Hj.
Qed.

(* the side condition is needed: with another spelling of the name in the holding
   directory that sorts first, undrop brings back THAT database instead *)
Theorem undrop_restores_refuted :
  exists ops n d a s1 s3,
    let s := run {| live := [(0, (2, [1000]))]; dropped := []; root := Some 0 |} ops in
    lookup (fst n) (live s) = Some (snd n, d) /\
    step s (Drop n a) = Some s1 /\ step s1 (Undrop n) = Some s3 /\
    exists v' d', lookup (fst n) (live s3) = Some (v', d') /\ d' <> d.
Proof.
  exists [Create (1, 1) 1; Mutate (1, 1) 2; Drop (1, 2) (100, 0); Create (1, 2) 4], (1, 2), [4], (101, 0).
  eexists. eexists. cbn zeta. split; [vm_compute; reflexivity|]. split; [vm_compute; reflexivity|].
  split; [vm_compute; reflexivity|]. exists 1, [1; 2]. split; [vm_compute; reflexivity | discriminate].
Qed.

(* ---------------------------------------------------------------- *)
(* never over an existing database                                    *)
Theorem undrop_no_overwrite s n x : lookup (fst n) (live s) = Some x -> step s (Undrop n) = None.
Proof.
  intros H. cbn [step]. destruct (first_match (fst n) (dropped s)) as [[e d]|] eqn:E; [|reflexivity].
  apply fm_In in E as [_ Hc]. rewrite Hc, H. reflexivity.
Qed.

Theorem undrop_others_untouched s n s' : step s (Undrop n) = Some s' ->
  forall j, j <> fst n -> lookup j (live s') = lookup j (live s).
Proof.
  cbn [step]. destruct (first_match (fst n) (dropped s)) as [[e d]|] eqn:E; [|discriminate].
  apply fm_In in E as [_ Hc]. destruct (lookup (fst e) (live s)); [discriminate|].
  intros H j Hj. injection H as <-. cbn [live]. apply lookup_put_other. congruence.
Qed.

(* a failed statement changes nothing (by construction of run) *)
Theorem failed_step_unchanged s o : step s o = None -> step' s o = s.
Proof. intros H. unfold step'. rewrite H. reflexivity. Qed.

(* ---------------------------------------------------------------- *)
(* purge is final                                                     *)
Lemma empty_stays s o : dropped s = [] -> not_drop o -> dropped (step' s o) = [].
Proof.
  intros He Hn. unfold step'. destruct o as [n st|n k|n a|n|]; cbn [step not_drop] in *.
  - destruct (lookup (fst n) (live s)); [exact He | exact He].
  - destruct (lookup (fst n) (live s)) as [[v d]|]; exact He.
  - destruct Hn.
  - rewrite He. cbn [first_match]. exact He.
  - reflexivity.
Qed.

Theorem purge_final s ops n : Forall not_drop ops ->
  step (run (step' s Purge) ops) (Undrop n) = None /\ live (step' s Purge) = live s.
Proof.
  intros Hops. split; [|reflexivity].
  assert (He : dropped (run (step' s Purge) ops) = []).
  { assert (H0 : dropped (step' s Purge) = []) by reflexivity.
    revert H0. generalize (step' s Purge). induction Hops as [|o ops Ho _ IH]; intros s0 H0; [exact H0|].
    unfold run in *. cbn [fold_left]. apply IH. apply empty_stays; assumption. }
  cbn [step]. rewrite He. reflexivity.
Qed.

(* ---------------------------------------------------------------- *)
(* two generations of the same exact name                             *)
Lemma fm_rename_fresh e a l d1 :
  dget e l = Some d1 -> (forall m d, In (m, d) l -> fst m <> fst a) ->
  first_match (fst a) (rename e a l) = Some (a, d1) /\ In (a, d1) (rename e a l).
Proof.
  induction l as [|[m d] l IH]; cbn [dget rename]; [discriminate|].
  intros Hg Hf. destruct (name_eqb m e) eqn:E.
  - injection Hg as ->. split; [|left; reflexivity].
    cbn [first_match fst snd]. rewrite N.eqb_refl.
    rewrite fm_none; [reflexivity|]. intros m' d' Hin. apply (Hf m' d'). right; exact Hin.
  - destruct (IH Hg) as [H1 H2]; [intros m' d' Hin; apply (Hf m' d'); right; exact Hin|].
    split; [|right; exact H2]. rewrite fm_cons_other; [exact H1|]. apply (Hf m d). left; reflexivity.
Qed.

(* Dropping a database while an earlier database of the same exact name is still in
   the holding directory keeps BOTH: the new one under the name, the earlier one under
   the backup name, from where dolt_undrop('<backup name>') restores it (as a database
   called <backup name>). *)
Theorem drop_drop s n v d2 d1 a :
  lookup (fst n) (live s) = Some (v, d2) -> is_root s (fst n) = false ->
  dget (fst n, v) (dropped s) = Some d1 ->
  fresh_class (fst a) s -> fst a <> fst n ->
  exists s1, step s (Drop n a) = Some s1 /\
    In ((fst n, v), d2) (dropped s1) /\ In (a, d1) (dropped s1) /\
    exists s2, step s1 (Undrop a) = Some s2 /\ lookup (fst a) (live s2) = Some (snd a, d1).
Proof.
  intros Hl Hroot Hg [Hfl Hfd] Ha. cbn [step]. rewrite Hl, Hroot. eexists. split; [reflexivity|]. cbn [dropped live].
  destruct (fm_rename_fresh (fst n, v) a (dropped s) d1 Hg Hfd) as [H1 H2].
  split; [left; reflexivity|]. split; [right; exact H2|].
  rewrite fm_cons_other by (cbn [fst]; congruence). rewrite H1.
  rewrite lookup_del_other by exact Ha. rewrite Hfl.
  eexists. split; [reflexivity|]. cbn [live]. apply lookup_put_same.
Qed.

(* non-vacuity: the hypotheses of undrop_restores and drop_drop are satisfiable *)
Example undrop_restores_example :
  let s := run {| live := [(0, (2, [1000]))]; dropped := []; root := Some 0 |} [Create (1, 2) 1; Mutate (1, 2) 2; Create (2, 2) 3] in
  exists s1 s3, step s (Drop (1, 0) (100, 0)) = Some s1 /\
    step (run s1 [Mutate (2, 2) 5; Drop (2, 2) (101, 0)]) (Undrop (1, 1)) = Some s3 /\
    lookup 1 (live s3) = Some (2, [1; 2]).
Proof. eexists. eexists. split; [vm_compute; reflexivity|]. split; vm_compute; reflexivity. Qed.

Example drop_drop_example :
  let s := run {| live := [(0, (2, [1000]))]; dropped := []; root := Some 0 |} [Create (1, 2) 1; Drop (1, 2) (100, 0); Create (1, 2) 3] in
  lookup 1 (live s) = Some (2, [3]) /\ dget (1, 2) (dropped s) = Some [1] /\ lookup 100 (live s) = None.
Proof. vm_compute. repeat split. Qed.
