(* C47 — DROP DATABASE / dolt_undrop / dolt_purge_dropped_databases.
   Model of the provider's bookkeeping.  No proofs in this file.

   Names.  A database name is (class, spelling): two names are equal up to case
   (strings.EqualFold) iff their classes are equal; the spelling numbers the
   case variants of one class in BYTE ORDER of the strings ("FOO" < "Foo" <
   "foo"), which is the order of a directory listing.

   Database values are opaque: a database is moved between the data directory
   and the holding directory, never rewritten.  A value is the list of the events
   that made it (creation stamp, then the numbers of the changes applied).

   Mirrored code
     go/libraries/doltcore/sqle/database_provider.go
        p.databases : map keyed by the LOWER-CASED name  -> [live], keyed by class
        CreateCollatedDatabase : refused when a live database of that class exists
        DropDatabase           : delete(p.databases, key); droppedDatabaseManager.DropDatabase
        UndropDatabase         : droppedDatabaseManager.UndropDatabase; registerNewDatabase(exactCaseName)
        PurgeDroppedDatabases
     go/libraries/doltcore/sqle/dropped_databases.go
        DropDatabase / prepareToMoveDroppedDatabase : move the directory to
            .dolt_dropped_databases/<exact name>; something already there with that EXACT
            name is first renamed to <name>.backup.<unix millis>   (-> [aside], chosen by the
            implementation and fed to the model with the operation)
        validateUndropDatabase : ListDroppedDatabases (directory order) ->
            hasCaseInsensitiveMatch = the FIRST listed name equal up to case; then
            hasCaseInsensitivePath: refuse when the data directory has an entry equal up to
            case to that name (= a live database of the class)
        UndropDatabase : move back under the exact (listed) name
        PurgeAllDroppedDatabases : delete everything in the holding directory
   Not modelled: two drops of the same exact name within one millisecond (the
   backup name collides and DROP DATABASE fails half-way), the root database's
   directory layout beyond its name (.dolt moved into <holding>/<name as typed>/; it
   comes back as a nested database called <name as typed>), file-system errors. *)
From Coq Require Import NArith List Bool.
Import ListNotations.
Local Open Scope N_scope.

Definition name := (N * N)%type.                  (* (class, spelling) *)
Definition db := list N.                          (* opaque value *)

Definition name_eqb (a b : name) : bool := (fst a =? fst b) && (snd a =? snd b).

Record pstate := {
  live : list (N * (N * db));                     (* class -> (spelling, value) *)
  dropped : list (name * db);                     (* holding directory: exact name -> value *)
  root : option N                                 (* the class of the database that lives in the data directory itself *)
}.

Definition is_root (s : pstate) (i : N) : bool := match root s with Some r => r =? i | None => false end.

Fixpoint lookup {A : Type} (k : N) (l : list (N * A)) : option A :=
  match l with
  | [] => None
  | (k', v) :: l' => if k =? k' then Some v else lookup k l'
  end.

Definition del {A : Type} (k : N) (l : list (N * A)) : list (N * A) :=
  filter (fun x => negb (fst x =? k)) l.

Definition put {A : Type} (k : N) (v : A) (l : list (N * A)) : list (N * A) := (k, v) :: del k l.

(* the first listed name of class i: directory order = smallest spelling (ties: the earlier entry) *)
Fixpoint first_match (i : N) (l : list (name * db)) : option (name * db) :=
  match l with
  | [] => None
  | (m, d) :: l' =>
    let r := first_match i l' in
    if fst m =? i
    then match r with
         | Some (m', d') => if snd m' <? snd m then r else Some (m, d)
         | None => Some (m, d)
         end
    else r
  end.

(* rename the entry with exact name e to a *)
Fixpoint rename (e a : name) (l : list (name * db)) : list (name * db) :=
  match l with
  | [] => []
  | (m, d) :: l' => if name_eqb m e then (a, d) :: l' else (m, d) :: rename e a l'
  end.

Fixpoint remove_exact (e : name) (l : list (name * db)) : list (name * db) :=
  match l with
  | [] => []
  | (m, d) :: l' => if name_eqb m e then l' else (m, d) :: remove_exact e l'
  end.

Inductive op :=
| Create (n : name) (stamp : N)     (* CREATE DATABASE n *)
| Mutate (n : name) (k : N)         (* any change of live database n *)
| Drop (n : name) (aside : name)    (* DROP DATABASE n; aside = the backup name used if one is needed *)
| Undrop (n : name)                 (* CALL dolt_undrop('n') *)
| Purge.                            (* CALL dolt_purge_dropped_databases() *)

(* None: the statement fails and nothing changes *)
Definition step (s : pstate) (o : op) : option pstate :=
  match o with
  | Create n stamp =>
    match lookup (fst n) (live s) with
    | Some _ => None
    | None => Some {| live := put (fst n) (snd n, [stamp]) (live s); dropped := dropped s; root := root s |}
    end
  | Mutate n k =>
    match lookup (fst n) (live s) with
    | Some (v, d) => Some {| live := put (fst n) (v, d ++ [k]) (live s); dropped := dropped s; root := root s |}
    | None => None
    end
  | Drop n aside =>
    match lookup (fst n) (live s) with
    | Some (v, d) =>
      (* nested database: the holding entry is named after the directory (the exact name);
         root database: after the name AS TYPED in the statement (newSubdirectory := <holding>/<name>) *)
      let e := (fst n, if is_root s (fst n) then snd n else v) in
      Some {| live := del (fst n) (live s); dropped := (e, d) :: rename e aside (dropped s);
              root := if is_root s (fst n) then None else root s |}
    | None => None
    end
  | Undrop n =>
    match first_match (fst n) (dropped s) with
    | Some (e, d) =>
      match lookup (fst e) (live s) with
      | Some _ => None
      | None => Some {| live := put (fst e) (snd e, d) (live s); dropped := remove_exact e (dropped s); root := root s |}
      end
    | None => None
    end
  | Purge => Some {| live := live s; dropped := []; root := root s |}
  end.

Definition step' (s : pstate) (o : op) : pstate := match step s o with Some s' => s' | None => s end.

Definition run (s : pstate) (ops : list op) : pstate := fold_left step' ops s.
