(* C47 — the property, as an abstract machine over what a user can observe.
   "Dropping a database and then restoring it with dolt_undrop brings back every
    branch, tag, commit, working set and table exactly as they were, as long as
    dropped databases have not been purged, and a restore never overwrites an
    existing database of the same name."

   The user's view: each DROP DATABASE puts one GENERATION (exact name, value)
   on a pile; dolt_undrop('n') must give back the MOST RECENTLY dropped generation
   whose name equals n up to case — that is the database the user dropped under
   that name last — under its exact name and with exactly its value, unless a
   live database with such a name exists (then it must refuse and change
   nothing); an older generation with the same exact name is kept under the backup
   name the implementation chose; a purge empties the pile, after which every
   undrop must fail.  No operation may touch any other live database. *)
From Coq Require Import NArith List Bool.
From Dolt Require Import C47.Model.
Import ListNotations.
Local Open Scope N_scope.

(* V: what is observed of a database value (the model's value, or a fingerprint) *)
Definition pile (V : Type) := list (name * V).     (* most recent first *)

Fixpoint latest {V : Type} (i : N) (g : pile V) : option (name * V) :=
  match g with
  | [] => None
  | (m, v) :: g' => if fst m =? i then Some (m, v) else latest i g'
  end.

Fixpoint take_out {V : Type} (e : name) (g : pile V) : pile V :=
  match g with
  | [] => []
  | (m, v) :: g' => if name_eqb m e then g' else (m, v) :: take_out e g'
  end.

Fixpoint rename_gen {V : Type} (e a : name) (g : pile V) : pile V :=
  match g with
  | [] => []
  | (m, v) :: g' => if name_eqb m e then (a, v) :: g' else (m, v) :: rename_gen e a g'
  end.

(* operations that do not concern class i and do not purge *)
Definition other_op (i : N) (o : op) : Prop :=
  match o with
  | Create n _ | Mutate n _ | Undrop n => fst n <> i
  | Drop n a => fst n <> i /\ fst a <> i
  | Purge => False
  end.

Definition not_drop (o : op) : Prop := match o with Drop _ _ => False | _ => True end.

(* e would be the first listed name of its class: no dropped name of the class sorts before it *)
Definition first_of_class (e : name) (l : list (name * db)) : Prop :=
  forall m d, In (m, d) l -> fst m = fst e -> snd e <= snd m.

(* nothing of class i anywhere *)
Definition fresh_class (i : N) (s : pstate) : Prop :=
  lookup i (live s) = None /\ forall m d, In (m, d) (dropped s) -> fst m <> i.

(* the value held under the exact name e in the holding directory *)
Fixpoint dget (e : name) (l : list (name * db)) : option db :=
  match l with
  | [] => None
  | (m, d) :: l' => if name_eqb m e then Some d else dget e l'
  end.
