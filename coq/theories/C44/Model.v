(* C44 — names and revision specs.  Executable model of
     go/store/datas/dataset.go        ValidateDatasetId, validateDatasetIdComponent
     go/libraries/doltcore/ref        IsValidBranchName, IsValidTagName
     go/libraries/doltcore/doltdb     parseInstructions, NewAncestorSpec,
                                      SplitAncestorSpec, NewCommitSpec
   The byte-class table, the action codes and the regular-expression sources
   are regenerated from the Go source (Gen/RefnameTable.v).  No proofs here. *)
From Coq Require Import NArith List Bool.
From Dolt Require Import Base.Str Gen.RefnameTable.
Import ListNotations.
Local Open Scope N_scope.

(* ---- byte literals ---- *)
Definition c_dot := 46.  Definition c_slash := 47.  Definition c_at := 64.
Definition c_lcurly := 123.  Definition c_caret := 94.  Definition c_tilde := 126.
Definition s_lock : bytes := [46; 108; 111; 99; 107].        (* ".lock" *)
Definition s_HEAD : bytes := [72; 69; 65; 68].
Definition s_dash : bytes := [45].
Definition s_at : bytes := [64].

Definition action (b : N) : N := nth (N.to_nat b) refname_actions refname_illegal.

(* validateDatasetIdComponent: [seen_rev] is refname[:numChars] reversed,
   [last] the previous rune (0 initially).  Returns the rest of the string
   after the component (refname[componentLen:]) or None for an error. *)
Definition lock_suffix_rev (seen_rev : bytes) : bool := is_prefix (rev s_lock) seen_rev.

Fixpoint comp_scan (s : bytes) (last : N) (seen_rev : bytes) : option bytes :=
  match s with
  | [] => if lock_suffix_rev seen_rev then None else Some []
  | ch :: rest =>
    if 128 <=? ch then None                       (* ch > unicode.MaxASCII *)
    else
      let a := action ch in
      if a =? refname_ok then comp_scan rest ch (ch :: seen_rev)
      else if a =? refname_eof then
        (if lock_suffix_rev seen_rev then None else Some rest)
      else if a =? refname_dot then
        (if last =? c_dot then None else comp_scan rest ch (ch :: seen_rev))
      else if a =? refname_left_curly then
        (if last =? c_at then None else comp_scan rest ch (ch :: seen_rev))
      else None                                    (* refnameIllegal (or unknown) *)
  end.

Definition validate_component (s : bytes) : option bytes :=
  match s with
  | [] => None                                     (* never called on "" *)
  | c :: _ => if c =? c_dot then None else comp_scan s 0 []
  end.

Fixpoint validate_loop (fuel : nat) (s : bytes) : bool :=
  match s with
  | [] => true
  | _ =>
    match fuel with
    | O => false                                   (* out of fuel: excluded by validate_loop_fuel *)
    | S f => match validate_component s with
             | None => false
             | Some rest => validate_loop f rest
             end
    end
  end.

Definition last_byte (s : bytes) : N := last s 0.

Definition valid_dataset_id (s : bytes) : bool :=
  match s with
  | [] => false
  | _ =>
    if beq_bytes s s_at then false
    else if (last_byte s =? c_slash) || (last_byte s =? c_dot) then false
    else validate_loop (length s) s
  end.

(* ---- the regular expressions, by hand, pinned to the generated sources ---- *)
Definition is_hash_char (b : N) : bool :=
  ((48 <=? b) && (b <=? 57)) || ((97 <=? b) && (b <=? 118)).     (* [0-9a-v] *)
Definition looks_like_hash (s : bytes) : bool :=
  Nat.eqb (length s) 32 && forallb is_hash_char s.

Definition expected_branch_regex : list bytes :=
  [[92; 65; 92; 122]; [92; 65; 72; 69; 65; 68; 92; 122]; [92; 65; 45; 92; 122];
   [92; 65; 91; 48; 45; 57; 97; 45; 118; 93; 123; 51; 50; 125; 92; 122];
   [92; 47; 92; 47]; [92; 65; 92; 47]; [92; 47; 92; 122]; [124]].

Definition head_byte (s : bytes) : N := hd 0 s.

Definition branch_regex_matches (s : bytes) : bool :=
  beq_bytes s [] || beq_bytes s s_HEAD || beq_bytes s s_dash
  || looks_like_hash s
  || has_infix [c_slash; c_slash] s
  || (head_byte s =? c_slash) && negb (beq_bytes s [])
  || (last_byte s =? c_slash) && negb (beq_bytes s []).

Definition valid_branch_name (s : bytes) : bool :=
  negb (branch_regex_matches s) && valid_dataset_id s.

Definition expected_tag_regex : list bytes :=
  [[58]; [92; 63]; [92; 91]; [92; 92]; [92; 94]; [126]; [32]; [92; 116]; [92; 42];
   [91; 92; 120; 48; 48; 45; 92; 120; 49; 102; 93]; [92; 120; 55; 102];
   [92; 46; 108; 111; 99; 107; 92; 122]; [92; 46; 108; 111; 99; 107; 92; 47];
   [92; 65; 92; 122]; [92; 65; 72; 69; 65; 68; 92; 122]; [92; 65; 45; 92; 122];
   [92; 65; 91; 48; 45; 57; 97; 45; 118; 93; 123; 51; 50; 125; 92; 122];
   [92; 46; 92; 46]; [64; 123]; [92; 47; 92; 47]; [92; 65; 92; 47]; [92; 47; 92; 122]; [124]].

Definition tag_forbidden_byte (b : N) : bool :=
  (b =? 58) || (b =? 63) || (b =? 91) || (b =? 92) || (b =? 94) || (b =? 126)
  || (b =? 32) || (b =? 9) || (b =? 42) || (b <=? 31) || (b =? 127).

Definition tag_regex_matches (s : bytes) : bool :=
  existsb tag_forbidden_byte s
  || is_suffix s_lock s || has_infix (s_lock ++ [c_slash]) s
  || beq_bytes s [] || beq_bytes s s_HEAD || beq_bytes s s_dash
  || looks_like_hash s
  || has_infix [c_dot; c_dot] s || has_infix [c_at; c_lcurly] s
  || has_infix [c_slash; c_slash] s
  || (head_byte s =? c_slash) && negb (beq_bytes s [])
  || (last_byte s =? c_slash) && negb (beq_bytes s []).

Definition valid_tag_name (s : bytes) : bool := negb (tag_regex_matches s).

(* ---- ancestor specs ---- *)
(* strconv.Atoi on a non-empty all-digit string: value, or error when it does
   not fit in int64.  Digits are accumulated in N (unbounded) and the range
   check is explicit. *)
Definition max_int64 : N := 9223372036854775807.
Fixpoint digits_val (ds : bytes) (acc : N) : N :=
  match ds with
  | [] => acc
  | d :: ds' => digits_val ds' (acc * 10 + (d - 48))
  end.

Fixpoint take_digits (s : bytes) : bytes * bytes :=
  match s with
  | d :: s' => if is_digit d then let '(ds, r) := take_digits s' in (d :: ds, r) else ([], s)
  | [] => ([], [])
  end.

Inductive spec_result (A : Type) := SOk (a : A) | SErr.
Arguments SOk {A} a.  Arguments SErr {A}.

(* parseInstructions.  The result is kept run-length encoded — a list of
   (parent index, repeat count) — because "~4000000000" denotes four billion
   zeros; [expand_instructions] gives the flat list when counts are small. *)
Fixpoint parse_instructions_fuel (fuel : nat) (s : bytes) : spec_result (list (N * N)) :=
  match s with
  | [] => SOk []
  | c :: s1 =>
    match fuel with
    | O => SErr
    | S f =>
      let '(ds, rest) := take_digits s1 in
      let num := match ds with [] => 1 | _ => digits_val ds 0 end in
      if negb (match ds with [] => true | _ => num <=? max_int64 end) then SErr    (* Atoi range error *)
      else if c =? c_caret then
        if (num =? 1) || (num =? 2) then
          match parse_instructions_fuel f rest with
          | SOk l => SOk ((num - 1, 1) :: l)
          | SErr => SErr
          end
        else SErr
      else if c =? c_tilde then
        match parse_instructions_fuel f rest with
        | SOk l => SOk ((0, num) :: l)
        | SErr => SErr
        end
      else SErr
    end
  end.

Definition parse_instructions (s : bytes) := parse_instructions_fuel (length s) s.

(* canonical run-length form: drop zero-length runs, merge adjacent equal parents *)
Fixpoint rle_norm (l : list (N * N)) : list (N * N) :=
  match l with
  | [] => []
  | (p, n) :: l' =>
    if n =? 0 then rle_norm l'
    else match rle_norm l' with
         | (p', n') :: t => if p =? p' then (p, n + n') :: t else (p, n) :: (p', n') :: t
         | [] => [(p, n)]
         end
  end.

Fixpoint trim_left (s : bytes) : bytes :=
  match s with
  | c :: s' => if is_space c then trim_left s' else s
  | [] => []
  end.
Definition trim_space (s : bytes) : bytes := rev (trim_left (rev (trim_left s))).

Fixpoint index_of_first (p : N -> bool) (s : bytes) : option nat :=
  match s with
  | [] => None
  | c :: s' => if p c then Some O else option_map S (index_of_first p s')
  end.

(* SplitAncestorSpec, as written: the split index is computed on the trimmed
   string but the ancestor part is sliced from the *untrimmed* argument
   (s[idx:]).  Go panics if idx > len(s); that cannot happen because the
   trimmed string is no longer than s. *)
Definition split_ancestor_spec (s : bytes) : spec_result (bytes * list (N * N)) :=
  let clean := trim_space s in
  match index_of_first (fun c => (c =? c_caret) || (c =? c_tilde)) clean with
  | None => SOk (clean, [])
  | Some idx =>
    let a := skipn idx s in
    match (match a with [] => SOk [] | _ => parse_instructions a end) with
    | SOk l => SOk (firstn idx clean, l)
    | SErr => SErr
    end
  end.

Definition to_lower (b : N) : N := if (65 <=? b) && (b <=? 90) then b + 32 else b.

Inductive cs_type := CsHead | CsHash | CsRef.

Definition new_commit_spec (s : bytes) : spec_result (cs_type * bytes * list (N * N)) :=
  let t := trim_space s in
  match split_ancestor_spec t with
  | SErr => SErr
  | SOk (name, insts) =>
    (* strings.EqualFold(name, "head"): ASCII case folding; the Kelvin sign etc.
       cannot fold to h/e/a/d *)
    if beq_bytes (map to_lower name) commit_spec_head then SOk (CsHead, commit_spec_head, insts)
    else if looks_like_hash name then SOk (CsHash, name, insts)
    else if valid_branch_name name then SOk (CsRef, name, insts)
    else SErr
  end.
