(* C44 — proofs. *)
From Coq Require Import NArith List Bool Lia.
From Dolt Require Import Base.Str Gen.RefnameTable Gen.C44SpecFuncs C44.Model C44.Spec C44.Corr.
Import ListNotations.
Local Open Scope N_scope.

(* The regular-expression sources in the Go files are the ones the hand model
   of the regexes was written for. *)
Lemma branch_regex_pinned : invalid_branch_name_regex = expected_branch_regex.
Proof. reflexivity. Qed.
Lemma tag_regex_pinned : invalid_tag_name_regex = expected_tag_regex.
Proof. reflexivity. Qed.
Lemma hash_regex_pinned :
  commit_spec_hash_regex = [[94; 91; 48; 45; 57; 97; 45; 118; 93; 123; 51; 50; 125; 36]].
Proof. reflexivity. Qed.

(* ------------------------------------------------------------------ *)
(* 1. The byte-class table says what the documented rules say.         *)
Definition class_of (b : N) : N :=
  if b =? c_slash then refname_eof
  else if b =? c_dot then refname_dot
  else if b =? c_lcurly then refname_left_curly
  else if forbidden_byte b then refname_illegal
  else refname_ok.

Lemma in_range_128 (b : N) : b < 128 -> In (N.to_nat b) (seq 0 128).
Proof. intros H. apply in_seq. lia. Qed.

Lemma action_table_sweep :
  forallb (fun n => action (N.of_nat n) =? class_of (N.of_nat n)) (seq 0 128) = true.
Proof. vm_compute. reflexivity. Qed.

Lemma action_table_classes (b : N) : b < 128 -> action b = class_of b.
Proof.
  intros H. pose proof action_table_sweep as S.
  rewrite forallb_forall in S. specialize (S _ (in_range_128 b H)).
  rewrite N2Nat.id in S. apply N.eqb_eq in S. exact S.
Qed.

Lemma table_length : length refname_actions = 128%nat.
Proof. reflexivity. Qed.

(* ------------------------------------------------------------------ *)
(* 2. comp_scan on a slash-free run followed by end or "/"             *)
Definition bad_pair (a b : N) : bool :=
  ((a =? c_dot) && (b =? c_dot)) || ((a =? c_at) && (b =? c_lcurly)).

Fixpoint pairs_ok (lst : N) (c : bytes) : bool :=
  match c with
  | [] => true
  | x :: c' => negb (bad_pair lst x) && pairs_ok x c'
  end.

Definition after_tail (tail : bytes) : bytes := match tail with [] => [] | _ :: r => r end.
Definition tail_ok (tail : bytes) : Prop := tail = [] \/ exists r, tail = c_slash :: r.

Lemma forbidden_slash : forbidden_byte c_slash = false. Proof. reflexivity. Qed.

Lemma comp_scan_run c : forall lst seen tail,
  ~ In c_slash c -> tail_ok tail ->
  comp_scan (c ++ tail) lst seen =
    if forallb comp_byte_ok c && pairs_ok lst c && negb (lock_suffix_rev (rev c ++ seen))
    then Some (after_tail tail) else None.
Proof.
  induction c as [|x c IH]; intros lst seen tail Hns Ht.
  - cbn [app forallb pairs_ok rev andb]. destruct Ht as [-> | [r ->]].
    + cbn [comp_scan after_tail]. destruct (lock_suffix_rev seen); reflexivity.
    + cbn [comp_scan after_tail].
      replace (128 <=? c_slash) with false by reflexivity.
      replace (action c_slash =? refname_ok) with false by reflexivity.
      replace (action c_slash =? refname_eof) with true by reflexivity.
      destruct (lock_suffix_rev seen); reflexivity.
  - assert (Hx : x <> c_slash) by (intro E; apply Hns; left; exact E).
    assert (Hc : ~ In c_slash c) by (intro E; apply Hns; right; exact E).
    cbn [app comp_scan forallb pairs_ok rev].
    rewrite <- app_assoc. cbn [app].
    destruct (128 <=? x) eqn:E128.
    + unfold comp_byte_ok. apply N.leb_le in E128.
      replace (x <? 128) with false by (symmetry; apply N.ltb_ge; exact E128).
      reflexivity.
    + apply N.leb_gt in E128. rewrite (action_table_classes x E128).
      unfold class_of, comp_byte_ok.
      replace (x <? 128) with true by (symmetry; apply N.ltb_lt; exact E128).
      replace (x =? c_slash) with false by (symmetry; apply N.eqb_neq; exact Hx).
      cbn [andb negb].
      destruct (x =? c_dot) eqn:Ed.
      { apply N.eqb_eq in Ed. subst x.
        replace (refname_dot =? refname_ok) with false by reflexivity.
        replace (refname_dot =? refname_eof) with false by reflexivity.
        replace (refname_dot =? refname_dot) with true by reflexivity.
        replace (forbidden_byte c_dot) with false by reflexivity.
        unfold bad_pair. replace (c_dot =? c_dot) with true by reflexivity.
        replace (c_dot =? c_lcurly) with false by reflexivity.
        rewrite andb_true_r, andb_false_r, orb_false_r. cbn [negb andb].
        destruct (lst =? c_dot); cbn [negb andb]; [rewrite ?andb_false_r; reflexivity|].
        rewrite (IH c_dot (c_dot :: seen) tail Hc Ht). reflexivity. }
      destruct (x =? c_lcurly) eqn:El.
      { apply N.eqb_eq in El. subst x.
        replace (refname_left_curly =? refname_ok) with false by reflexivity.
        replace (refname_left_curly =? refname_eof) with false by reflexivity.
        replace (refname_left_curly =? refname_dot) with false by reflexivity.
        replace (refname_left_curly =? refname_left_curly) with true by reflexivity.
        replace (forbidden_byte c_lcurly) with false by reflexivity.
        unfold bad_pair. replace (c_lcurly =? c_dot) with false by reflexivity.
        replace (c_lcurly =? c_lcurly) with true by reflexivity.
        rewrite andb_false_r, andb_true_r, orb_false_l. cbn [negb andb].
        destruct (lst =? c_at); cbn [negb andb]; [rewrite ?andb_false_r; reflexivity|].
        rewrite (IH c_lcurly (c_lcurly :: seen) tail Hc Ht). reflexivity. }
      destruct (forbidden_byte x) eqn:Ef.
      { replace (refname_illegal =? refname_ok) with false by reflexivity.
        replace (refname_illegal =? refname_eof) with false by reflexivity.
        replace (refname_illegal =? refname_dot) with false by reflexivity.
        replace (refname_illegal =? refname_left_curly) with false by reflexivity.
        reflexivity. }
      { replace (refname_ok =? refname_ok) with true by reflexivity.
        unfold bad_pair. rewrite Ed, El, !andb_false_r. cbn [orb negb andb].
        rewrite (IH x (x :: seen) tail Hc Ht). reflexivity. }
Qed.

(* ------------------------------------------------------------------ *)
(* 3. pairs_ok and the lock-suffix test in declarative terms            *)
Lemma has_infix_cons p y s : has_infix p (y :: s) = is_prefix p (y :: s) || has_infix p s.
Proof. reflexivity. Qed.

Lemma pairs_ok_infix c : forall lst,
  pairs_ok lst c = negb (has_infix [c_dot; c_dot] (lst :: c)) && negb (has_infix [c_at; c_lcurly] (lst :: c)).
Proof.
  induction c as [|x c IH]; intros lst.
  - cbn [pairs_ok has_infix is_prefix]. rewrite !andb_false_r. reflexivity.
  - cbn [pairs_ok]. rewrite IH.
    rewrite (has_infix_cons [c_dot; c_dot] lst), (has_infix_cons [c_at; c_lcurly] lst).
    cbn [is_prefix]. unfold bad_pair. rewrite !andb_true_r.
    rewrite (N.eqb_sym c_dot lst), (N.eqb_sym c_dot x), (N.eqb_sym c_at lst), (N.eqb_sym c_lcurly x).
    destruct (lst =? c_dot), (x =? c_dot), (lst =? c_at), (x =? c_lcurly),
      (has_infix [c_dot; c_dot] (x :: c)), (has_infix [c_at; c_lcurly] (x :: c)); reflexivity.
Qed.

Lemma pairs_ok_0 c :
  pairs_ok 0 c = negb (has_infix [c_dot; c_dot] c) && negb (has_infix [c_at; c_lcurly] c).
Proof.
  rewrite pairs_ok_infix, !has_infix_cons. cbn [is_prefix].
  change (c_dot =? 0) with false. change (c_at =? 0) with false. reflexivity.
Qed.

Lemma lock_suffix_rev_nil c : lock_suffix_rev (rev c ++ []) = is_suffix s_lock c.
Proof. unfold lock_suffix_rev, is_suffix. rewrite app_nil_r. reflexivity. Qed.

(* ------------------------------------------------------------------ *)
(* 4. cutting a string at its first "/"                                 *)
Lemma comp_decompose s : exists c tail, s = c ++ tail /\ ~ In c_slash c /\ tail_ok tail.
Proof.
  induction s as [|x s IH].
  - exists [], []. split; [reflexivity|]. split; [intros []|left; reflexivity].
  - destruct (x =? c_slash) eqn:E.
    + apply N.eqb_eq in E. subst x. exists [], (c_slash :: s).
      split; [reflexivity|]. split; [intros []|right; exists s; reflexivity].
    + apply N.eqb_neq in E. destruct IH as (c & tail & Hs & Hc & Ht).
      exists (x :: c), tail. split; [rewrite Hs; reflexivity|]. split; [|exact Ht].
      intros [H|H]; [apply E; exact H | exact (Hc H)].
Qed.

Lemma split_on_comp c : forall tail, ~ In c_slash c -> tail_ok tail ->
  split_on c_slash (c ++ tail) =
    match tail with [] => [c] | _ :: r => c :: split_on c_slash r end.
Proof.
  induction c as [|x c IH]; intros tail Hc Ht.
  - destruct Ht as [-> | [r ->]]; [reflexivity|].
    cbn [app split_on]. rewrite N.eqb_refl. reflexivity.
  - cbn [app split_on].
    replace (x =? c_slash) with false
      by (symmetry; apply N.eqb_neq; intro E; apply Hc; left; exact E).
    rewrite IH; [|intro E; apply Hc; right; exact E | exact Ht].
    destruct tail; reflexivity.
Qed.

Lemma validate_component_spec c tail :
  c ++ tail <> [] -> ~ In c_slash c -> tail_ok tail ->
  validate_component (c ++ tail) = if good_or_empty c then Some (after_tail tail) else None.
Proof.
  intros Hne Hc Ht. destruct c as [|x c].
  - destruct Ht as [-> | [r ->]]; [contradiction Hne; reflexivity | reflexivity].
  - cbn [app validate_component]. unfold good_or_empty, good_component.
    change (beq_bytes (x :: c) []) with false. cbn [head_byte hd orb negb andb].
    destruct (x =? c_dot) eqn:Ed; [reflexivity|].
    change (x :: c ++ tail) with ((x :: c) ++ tail).
    rewrite (comp_scan_run (x :: c) 0 [] tail Hc Ht), pairs_ok_0, lock_suffix_rev_nil.
    cbn [negb andb].
    destruct (forallb comp_byte_ok (x :: c)), (has_infix [c_dot; c_dot] (x :: c)),
      (has_infix [c_at; c_lcurly] (x :: c)), (is_suffix s_lock (x :: c)); reflexivity.
Qed.

(* ------------------------------------------------------------------ *)
(* 5. the component loop                                                *)
Lemma validate_loop_nil f : validate_loop f [] = true.
Proof. destruct f; reflexivity. Qed.

Lemma validate_loop_S f s : s <> [] ->
  validate_loop (S f) s =
    match validate_component s with None => false | Some rest => validate_loop f rest end.
Proof. destruct s; [intros H; contradiction H; reflexivity | reflexivity]. Qed.

Lemma validate_loop_spec : forall fuel s, (length s <= fuel)%nat ->
  validate_loop fuel s = forallb good_or_empty (split_on c_slash s).
Proof.
  induction fuel as [|f IH]; intros s Hlen.
  - destruct s; [reflexivity | cbn [length] in Hlen; lia].
  - destruct s as [|x s0]; [reflexivity|].
    destruct (comp_decompose (x :: s0)) as (c & tail & Hs & Hc & Ht).
    assert (Hne : c ++ tail <> []) by (rewrite <- Hs; discriminate).
    rewrite Hs in *.
    rewrite (validate_loop_S f _ Hne), (validate_component_spec c tail Hne Hc Ht),
      (split_on_comp c tail Hc Ht).
    destruct Ht as [-> | [r ->]]; cbn [forallb after_tail].
    + destruct (good_or_empty c); [rewrite validate_loop_nil|]; reflexivity.
    + destruct (good_or_empty c); [|reflexivity]. cbn [andb]. apply IH.
      rewrite app_length in Hlen. cbn [length] in Hlen. lia.
Qed.

(* ------------------------------------------------------------------ *)
(* 6. dataset ids                                                       *)
Lemma valid_dataset_id_ne s : s <> [] ->
  valid_dataset_id s =
    if beq_bytes s s_at then false
    else if (last_byte s =? c_slash) || (last_byte s =? c_dot) then false
    else validate_loop (length s) s.
Proof. destruct s; [intros H; contradiction H; reflexivity | reflexivity]. Qed.

Theorem valid_dataset_id_spec : forall s, valid_dataset_id s = dataset_rules_b s.
Proof.
  intros s. unfold dataset_rules_b.
  destruct (beq_bytes s []) eqn:E0.
  { apply beq_bytes_spec in E0. subst s. reflexivity. }
  assert (Hne : s <> []) by (intro H; subst s; discriminate E0).
  rewrite (valid_dataset_id_ne s Hne), (validate_loop_spec (length s) s (le_n _)).
  destruct (beq_bytes s s_at), (last_byte s =? c_slash), (last_byte s =? c_dot),
    (forallb good_or_empty (split_on c_slash s)); reflexivity.
Qed.

(* ------------------------------------------------------------------ *)
(* 7. empty components  <->  "", "//", leading "/", trailing "/"        *)
Definition has_empty (comps : list bytes) : bool := existsb (fun c => beq_bytes c []) comps.

Lemma has_empty_hd_tl l : l <> [] -> has_empty l = beq_bytes (hd [] l) [] || has_empty (tl l).
Proof. destruct l; [intros H; contradiction H; reflexivity | reflexivity]. Qed.

Lemma last_byte_cons2 x y s : last_byte (x :: y :: s) = last_byte (y :: s).
Proof. reflexivity. Qed.

Lemma split_hd_empty s :
  beq_bytes (hd [] (split_on c_slash s)) [] = beq_bytes s [] || (head_byte s =? c_slash).
Proof.
  destruct s as [|x s]; [reflexivity|]. cbn [split_on head_byte hd].
  change (beq_bytes (x :: s) []) with false. cbn [orb].
  destruct (x =? c_slash); [reflexivity|].
  destruct (split_on c_slash s); reflexivity.
Qed.

Lemma split_tl_empty s :
  has_empty (tl (split_on c_slash s)) =
    has_infix [c_slash; c_slash] s || (negb (beq_bytes s []) && (last_byte s =? c_slash)).
Proof.
  induction s as [|x s IH]; [reflexivity|].
  rewrite has_infix_cons. change (beq_bytes (x :: s) []) with false.
  cbn [negb andb is_prefix split_on]. rewrite (N.eqb_sym c_slash x).
  destruct (x =? c_slash) eqn:E.
  - cbn [tl andb]. apply N.eqb_eq in E. subst x.
    rewrite (has_empty_hd_tl _ (split_on_nonempty c_slash s)), split_hd_empty, IH.
    destruct s as [|y s]; [reflexivity|].
    rewrite last_byte_cons2. change (beq_bytes (y :: s) []) with false.
    cbn [is_prefix head_byte hd negb andb orb].
    rewrite (N.eqb_sym c_slash y), andb_true_r.
    destruct (y =? c_slash), (has_infix [c_slash; c_slash] (y :: s)),
      (last_byte (y :: s) =? c_slash); reflexivity.
  - cbn [andb orb]. destruct s as [|y s].
    + change (last_byte [x]) with x. rewrite E. reflexivity.
    + rewrite last_byte_cons2. change (beq_bytes (y :: s) []) with false in IH.
      cbn [negb andb] in IH. rewrite <- IH.
      destruct (split_on c_slash (y :: s)) eqn:Es;
        [exfalso; exact (split_on_nonempty _ _ Es) | reflexivity].
Qed.

Lemma has_empty_split s :
  has_empty (split_on c_slash s) =
    beq_bytes s [] || has_infix [c_slash; c_slash] s
    || (head_byte s =? c_slash) || (last_byte s =? c_slash).
Proof.
  rewrite (has_empty_hd_tl _ (split_on_nonempty c_slash s)), split_hd_empty, split_tl_empty.
  destruct (beq_bytes s []), (has_infix [c_slash; c_slash] s),
    (head_byte s =? c_slash), (last_byte s =? c_slash); reflexivity.
Qed.

Lemma good_component_nil : good_component [] = false.
Proof. reflexivity. Qed.

Lemma forallb_good_component comps :
  forallb good_component comps = forallb good_or_empty comps && negb (has_empty comps).
Proof.
  induction comps as [|c comps IH]; [reflexivity|].
  unfold has_empty. cbn [forallb existsb]. fold (has_empty comps). rewrite IH.
  destruct c as [|x c].
  - change (good_component []) with false. change (good_or_empty []) with true.
    change (beq_bytes [] []) with true. cbn [orb negb andb].
    rewrite andb_false_r. reflexivity.
  - change (good_or_empty (x :: c)) with (good_component (x :: c)).
    change (beq_bytes (x :: c) []) with false. cbn [orb].
    destruct (good_component (x :: c)), (forallb good_or_empty comps), (has_empty comps);
      reflexivity.
Qed.

(* ------------------------------------------------------------------ *)
(* 8. branch names                                                      *)
Theorem valid_branch_name_spec : forall s, valid_branch_name s = ref_rules_b s.
Proof.
  intros s. unfold valid_branch_name, ref_rules_b, branch_regex_matches.
  rewrite valid_dataset_id_spec, forallb_good_component, has_empty_split.
  unfold dataset_rules_b.
  destruct (beq_bytes s []) eqn:E0.
  { apply beq_bytes_spec in E0. subst s. reflexivity. }
  destruct (forallb good_or_empty (split_on c_slash s)), (beq_bytes s s_HEAD),
    (beq_bytes s s_dash), (looks_like_hash s), (has_infix [c_slash; c_slash] s),
    (head_byte s =? c_slash), (last_byte s =? c_slash), (beq_bytes s s_at),
    (last_byte s =? c_dot); reflexivity.
Qed.

Lemma beq_bytes_false_iff a b : beq_bytes a b = false <-> a <> b.
Proof. rewrite <- not_true_iff_false, beq_bytes_spec. reflexivity. Qed.

Theorem valid_branch_name_iff_rules : forall s, valid_branch_name s = true <-> ref_rules s.
Proof.
  intros s. rewrite valid_branch_name_spec. unfold ref_rules_b, ref_rules.
  rewrite !andb_true_iff, !negb_true_iff, forallb_forall, Forall_forall,
    !beq_bytes_false_iff, N.eqb_neq.
  tauto.
Qed.

(* ------------------------------------------------------------------ *)
(* 9. tag names                                                         *)
Theorem valid_tag_name_spec : forall s, valid_tag_name s = tag_rules_b s.
Proof.
  intros s. unfold valid_tag_name, tag_rules_b, tag_regex_matches.
  change (existsb (fun c => beq_bytes c []) (split_on c_slash s))
    with (has_empty (split_on c_slash s)).
  rewrite has_empty_split.
  destruct (beq_bytes s []) eqn:E0.
  { apply beq_bytes_spec in E0. subst s. reflexivity. }
  destruct (existsb tag_forbidden_byte s), (is_suffix s_lock s),
    (has_infix (s_lock ++ [c_slash]) s), (beq_bytes s s_HEAD), (beq_bytes s s_dash),
    (looks_like_hash s), (has_infix [c_dot; c_dot] s), (has_infix [c_at; c_lcurly] s),
    (has_infix [c_slash; c_slash] s), (head_byte s =? c_slash), (last_byte s =? c_slash);
    reflexivity.
Qed.

(* ------------------------------------------------------------------ *)
(* 10. commit specs: base name, then the ancestor walk                  *)
Definition head_ok (u : bytes) : bool :=
  match u with [] => true | h :: _ => negb (is_space h) end.

Lemma head_ok_trim_left s : head_ok (trim_left s) = true.
Proof.
  induction s as [|c s IH]; [reflexivity|]. cbn [trim_left].
  destruct (is_space c) eqn:E; [exact IH|]. cbn [head_ok]. rewrite E. reflexivity.
Qed.

Lemma trim_left_head_ok u : head_ok u = true -> trim_left u = u.
Proof.
  destruct u as [|h u]; [reflexivity|]. cbn [head_ok trim_left].
  destruct (is_space h); [discriminate | reflexivity].
Qed.

Lemma trim_left_idem s : trim_left (trim_left s) = trim_left s.
Proof. apply trim_left_head_ok, head_ok_trim_left. Qed.

Lemma trim_left_split s : exists p, s = p ++ trim_left s.
Proof.
  induction s as [|c s [p Hp]]; [exists []; reflexivity|]. cbn [trim_left].
  destruct (is_space c).
  - exists (c :: p). cbn [app]. rewrite <- Hp. reflexivity.
  - exists []. reflexivity.
Qed.

Lemma head_ok_app_l a b : head_ok (a ++ b) = true -> head_ok a = true.
Proof. destruct a; [reflexivity | exact (fun H => H)]. Qed.

Lemma trim_space_idem s : trim_space (trim_space s) = trim_space s.
Proof.
  unfold trim_space.
  pose proof (head_ok_trim_left s) as Hu. set (u := trim_left s) in *.
  destruct (trim_left_split (rev u)) as [p Hp].
  set (w := trim_left (rev u)) in *.
  assert (Hw : head_ok (rev w) = true).
  { apply head_ok_app_l with (b := rev p).
    rewrite <- rev_app_distr, <- Hp, rev_involutive. exact Hu. }
  rewrite (trim_left_head_ok _ Hw), rev_involutive. unfold w.
  rewrite trim_left_idem. reflexivity.
Qed.

Lemma rle_eqb_refl (l : rle) : rle_eqb l l = true.
Proof.
  induction l as [|[p n] l IH]; [reflexivity|].
  cbn [rle_eqb]. rewrite !N.eqb_refl, IH. reflexivity.
Qed.

Definition classify (name : bytes) (insts : list (N * N)) :
    spec_result (cs_type * bytes * list (N * N)) :=
  if beq_bytes (map to_lower name) commit_spec_head then SOk (CsHead, commit_spec_head, insts)
  else if looks_like_hash name then SOk (CsHash, name, insts)
  else if valid_branch_name name then SOk (CsRef, name, insts)
  else SErr.

Lemma parse_nil_guard a :
  match a with [] => SOk [] | _ :: _ => parse_instructions a end = parse_instructions a.
Proof. destruct a; reflexivity. Qed.

(* NewCommitSpec is: trim, cut at the first ^ or ~, parse the walk, classify the base *)
Lemma new_commit_spec_unfold s :
  new_commit_spec s =
    let '(name, anc) := spec_grammar_split (trim_space s) in
    match parse_instructions anc with
    | SErr => SErr
    | SOk l => classify name l
    end.
Proof.
  unfold new_commit_spec, split_ancestor_spec, spec_grammar_split. cbv zeta.
  rewrite trim_space_idem.
  destruct (index_of_first (fun c => (c =? c_caret) || (c =? c_tilde)) (trim_space s)) as [i|].
  - rewrite parse_nil_guard. destruct (parse_instructions (skipn i (trim_space s))); reflexivity.
  - reflexivity.
Qed.

Theorem commit_spec_is_base_then_walk : forall s, oracle s (model_obs s) = true.
Proof.
  intros s. unfold oracle, model_obs. cbn [o_vb o_vt o_vd o_cs].
  rewrite valid_branch_name_spec, valid_tag_name_spec, valid_dataset_id_spec, !eqb_reflx.
  cbn [andb]. rewrite new_commit_spec_unfold.
  destruct (spec_grammar_split (trim_space s)) as [name anc].
  destruct (parse_instructions anc) as [l|] eqn:Ep; [|reflexivity].
  unfold classify.
  destruct (beq_bytes (map to_lower name) commit_spec_head) eqn:Eh.
  { change (cs_code CsHead =? 0) with true. cbv iota.
    rewrite rle_eqb_refl, beq_bytes_refl. reflexivity. }
  destruct (looks_like_hash name) eqn:Ehash.
  { change (cs_code CsHash =? 0) with false. change (cs_code CsHash =? 1) with true. cbv iota.
    rewrite rle_eqb_refl, beq_bytes_refl. reflexivity. }
  destruct (valid_branch_name name) eqn:Eb;
    [| cbv iota; rewrite ?Eh, ?Ehash, <- ?valid_branch_name_spec, ?Eb; reflexivity].
  change (cs_code CsRef =? 0) with false. change (cs_code CsRef =? 1) with false. cbv iota.
  rewrite <- valid_branch_name_spec, Eb, rle_eqb_refl, beq_bytes_refl. reflexivity.
Qed.

(* ------------------------------------------------------------------ *)
(* 11. non-vacuity                                                      *)
(* "feature/x.y" is accepted; "a/.b", "a..b", "x.lock/y" are rejected *)
Example branch_name_examples :
  valid_branch_name [102; 101; 97; 116; 117; 114; 101; 47; 120; 46; 121] = true
  /\ valid_branch_name [97; 47; 46; 98] = false
  /\ valid_branch_name [97; 46; 46; 98] = false
  /\ valid_branch_name [120; 46; 108; 111; 99; 107; 47; 121] = false.
Proof. vm_compute. repeat split; reflexivity. Qed.

(* " main~2^2 "  ->  ref "main", first parent twice then second parent once *)
Example commit_spec_example :
  match new_commit_spec [32; 109; 97; 105; 110; 126; 50; 94; 50; 32] with
  | SOk (t, n, l) => SOk (t, n, rle_norm l)
  | SErr => SErr
  end = SOk (CsRef, [109; 97; 105; 110], [(0, 2); (1, 1)]).
Proof. vm_compute. reflexivity. Qed.

(* ------------------------------------------------------------------ *)
(* The digit test and the merge-parent test used by parseInstructions, as
   transcribed from the Go source on every run, are the ones the model uses. *)
Lemma go_is_digit_pinned : forall b, go_is_digit b = is_digit b.
Proof. intros b. reflexivity. Qed.

Lemma go_is_valid_merge_spec_pinned : forall n, go_is_valid_merge_spec n = ((n =? 1) || (n =? 2)).
Proof. intros n. reflexivity. Qed.
