(* C44 — proofs. *)
From Coq Require Import NArith List Bool Lia.
From Dolt Require Import Base.Str Gen.RefnameTable C44.Model C44.Spec C44.Corr.
Import ListNotations.
Local Open Scope N_scope.

(* The regular-expression sources in the Go files are the ones the hand model
   of the regexes was written for. *)
Lemma branch_regex_pinned : invalid_branch_name_regex = expected_branch_regex.
Proof. reflexivity. Qed.
Lemma tag_regex_pinned : invalid_tag_name_regex = expected_tag_regex.
Proof. reflexivity. Qed.
Lemma hash_regex_pinned :
  commit_spec_hash_regex = [[94; 91; 48; 45; 57; 97; 45; 118; 93; 123; 51; 50; 125; 36]].
Proof. reflexivity. Qed.
