(* C44 — correspondence: model observation, comparison with the
   implementation's observation, and the executable statement of the property
   (oracle) evaluated on the implementation's observation. *)
From Coq Require Import NArith List Bool.
From Dolt Require Import Base.Str Gen.RefnameTable C44.Model C44.Spec.
Import ListNotations.
Local Open Scope N_scope.

Definition rle := list (N * N).

Record obs := {
  o_vd : bool; o_vb : bool; o_vt : bool;
  o_split : spec_result (bytes * rle);
  o_cs : spec_result (N * bytes * rle)     (* type: 0 head, 1 hash, 2 ref *)
}.

Definition case := (bytes * obs)%type.

Definition cs_code (t : cs_type) : N := match t with CsHead => 0 | CsHash => 1 | CsRef => 2 end.

Definition model_obs (s : bytes) : obs :=
  {| o_vd := valid_dataset_id s; o_vb := valid_branch_name s; o_vt := valid_tag_name s;
     o_split := match split_ancestor_spec s with
                | SOk (n, l) => SOk (n, rle_norm l) | SErr => SErr end;
     o_cs := match new_commit_spec s with
             | SOk (t, n, l) => SOk (cs_code t, n, rle_norm l) | SErr => SErr end |}.

Fixpoint rle_eqb (a b : rle) : bool :=
  match a, b with
  | [], [] => true
  | (p, n) :: a', (q, m) :: b' => (p =? q) && (n =? m) && rle_eqb a' b'
  | _, _ => false
  end.

Definition split_eqb (a b : spec_result (bytes * rle)) : bool :=
  match a, b with
  | SErr, SErr => true
  | SOk (n, l), SOk (m, k) => beq_bytes n m && rle_eqb l k
  | _, _ => false
  end.

Definition cs_eqb (a b : spec_result (N * bytes * rle)) : bool :=
  match a, b with
  | SErr, SErr => true
  | SOk (t, n, l), SOk (u, m, k) => (t =? u) && beq_bytes n m && rle_eqb l k
  | _, _ => false
  end.

Definition obs_eqb (a b : obs) : bool :=
  Bool.eqb (o_vd a) (o_vd b) && Bool.eqb (o_vb a) (o_vb b) && Bool.eqb (o_vt a) (o_vt b)
  && split_eqb (o_split a) (o_split b) && cs_eqb (o_cs a) (o_cs b).

(* The property, as a predicate on what the implementation returned for s:
   (1) branch / tag / dataset acceptance is exactly the documented rules;
   (2) an accepted commit spec is its separately parsed base name followed by
       the ancestor walk denoted by the rest: base = name part (or "head"),
       instructions = parse of the ancestor part, and the base is a name the
       rules accept (or head / a hash). *)
Definition oracle (s : bytes) (o : obs) : bool :=
  Bool.eqb (o_vb o) (ref_rules_b s)
  && Bool.eqb (o_vt o) (tag_rules_b s)
  && Bool.eqb (o_vd o) (dataset_rules_b s)
  && match o_cs o with
     | SErr =>
       (* a rejected spec is one the documented grammar rejects: the walk does not
          parse, or the base is neither head, a commit hash nor a valid ref name *)
       let '(name, anc) := spec_grammar_split (trim_space s) in
       match parse_instructions anc with
       | SErr => true
       | SOk _ => negb (beq_bytes (map to_lower name) commit_spec_head)
                  && negb (looks_like_hash name) && negb (ref_rules_b name)
       end
     | SOk (t, base, l) =>
       let '(name, anc) := spec_grammar_split (trim_space s) in
       match parse_instructions anc with
       | SErr => false                                 (* accepted a spec whose walk does not parse *)
       | SOk l' =>
         rle_eqb l (rle_norm l')
         && (if t =? 0 then beq_bytes (map to_lower name) commit_spec_head && beq_bytes base commit_spec_head
             else if t =? 1 then looks_like_hash name && beq_bytes base name
             else ref_rules_b name && beq_bytes base name)
       end
     end.

Definition check_case (c : case) : N :=
  (if obs_eqb (model_obs (fst c)) (snd c) then 0 else 1)
  + (if oracle (fst c) (snd c) then 0 else 2).
