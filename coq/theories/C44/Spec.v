(* C44 — the documented ref-name rules, written declaratively and independently
   of the validator's scanning algorithm, plus their boolean forms (used as the
   executable oracle).  No proofs about the model here. *)
From Coq Require Import NArith List Bool.
From Dolt Require Import Base.Str C44.Model.
Import ListNotations.
Local Open Scope N_scope.

(* ":", "?", "[", "\", "^", "~", "*", SP, TAB and other ASCII control characters, DEL *)
Definition forbidden_byte (b : N) : bool :=
  (b <=? 31) || (b =? 127) || (b =? 32) || (b =? 58) || (b =? 63) || (b =? 91)
  || (b =? 92) || (b =? 94) || (b =? 126) || (b =? 42).

Definition comp_byte_ok (b : N) : bool :=
  (b <? 128) && negb (forbidden_byte b) && negb (b =? c_slash).

(* one slash-separated component of a name *)
Definition good_component (c : bytes) : bool :=
  negb (beq_bytes c [])                       (* not empty *)
  && negb (head_byte c =? c_dot)              (* does not begin with "." *)
  && forallb comp_byte_ok c                   (* ASCII, no control / forbidden characters *)
  && negb (has_infix [c_dot; c_dot] c)        (* no ".." *)
  && negb (has_infix [c_at; c_lcurly] c)      (* no "@{" *)
  && negb (is_suffix s_lock c).               (* does not end with ".lock" *)

(* The documented rules for a branch name. *)
Definition ref_rules_b (s : bytes) : bool :=
  forallb good_component (split_on c_slash s)  (* every component is good; none is empty *)
  && negb (beq_bytes s s_at)                   (* not the single character "@" *)
  && negb (last_byte s =? c_dot)               (* does not end with "." *)
  && negb (beq_bytes s s_HEAD)                 (* not "HEAD" *)
  && negb (beq_bytes s s_dash)                 (* not "-" *)
  && negb (looks_like_hash s).                 (* not a 32-character commit hash *)

Definition ref_rules (s : bytes) : Prop :=
  Forall (fun c => good_component c = true) (split_on c_slash s)
  /\ s <> s_at /\ last_byte s <> c_dot /\ s <> s_HEAD /\ s <> s_dash
  /\ looks_like_hash s = false.

(* dataset ids (the layer below branch names) tolerate empty components except
   the last one *)
Definition good_or_empty (c : bytes) : bool := beq_bytes c [] || good_component c.
Definition dataset_rules_b (s : bytes) : bool :=
  negb (beq_bytes s [])
  && forallb good_or_empty (split_on c_slash s)
  && negb (last_byte s =? c_slash)             (* ... but the name does not end with "/" *)
  && negb (beq_bytes s s_at)
  && negb (last_byte s =? c_dot).

(* The documented rules for a tag name (tag_ref.go): anywhere-in-the-name rules. *)
Definition tag_rules_b (s : bytes) : bool :=
  negb (existsb tag_forbidden_byte s)
  && negb (is_suffix s_lock s) && negb (has_infix (s_lock ++ [c_slash]) s)   (* does not end with .lock and contains no .lock/ *)
  && negb (existsb (fun c => beq_bytes c []) (split_on c_slash s))        (* no empty component *)
  && negb (beq_bytes s s_HEAD) && negb (beq_bytes s s_dash)
  && negb (looks_like_hash s)
  && negb (has_infix [c_dot; c_dot] s) && negb (has_infix [c_at; c_lcurly] s).

(* A commit spec "<name><ancestors>" where <ancestors> starts at the first ^ or ~ *)
Definition spec_grammar_split (s : bytes) : bytes * bytes :=
  match index_of_first (fun c => (c =? c_caret) || (c =? c_tilde)) s with
  | None => (s, [])
  | Some i => (firstn i s, skipn i s)
  end.
