(* C35 — the property. *)
From Coq Require Import NArith List Bool.
From Dolt Require Import C08.Model C08.Spec C35.Model.
Import ListNotations.
Local Open Scope N_scope.

(* a store without dangling references, within the universe (C07) *)
Definition sink_closed (u : graph) (s : store) : Prop :=
  forall x y, has s x = true -> In y (refs u x) -> has s y = true.

(* every ref points at a present chunk *)
Definition refs_present (d : remote) : Prop :=
  forall n a, In (n, a) (r_refs d) -> has (r_store d) a = true.

(* a ref is backed by data: everything reachable from its head is at the store *)
Definition ref_backed (u : graph) (d : remote) : Prop :=
  forall n a, In (n, a) (r_refs d) -> forall x, reach u [a] x -> has (r_store d) x = true.

Definition inclb (a b : list addr) : bool := forallb (fun x => memb x b) a.
