(* C35 — proofs. *)
From Coq Require Import NArith PeanoNat List Bool Lia.
From Dolt Require Import C08.Model C08.Spec C08.Proofs C35.Model C35.Spec.
Import ListNotations.
Local Open Scope N_scope.

Lemma has_app : forall b s x, has (b ++ s) x = has b x || has s x.
Proof. intros b s x. unfold has, memb. apply existsb_app. Qed.

Lemma has_In : forall s x, has s x = true <-> In x s.
Proof. intros s x. unfold has. apply memb_In. Qed.

Lemma refs_prune : forall u sink x, refs (prune u sink) x = filter (absent sink) (refs u x).
Proof.
  induction u as [|[k rs] u' IH]; intros sink x; [reflexivity|].
  unfold prune in *. cbn [map fst snd refs]. destruct (k =? x); [reflexivity | apply IH].
Qed.

(* ---- the HasMany-pruned walk brings everything, PROVIDED the sink is closed ---- *)
Theorem pull_complete : forall u sink heads need,
  sink_closed u sink ->
  pull_need u sink heads = Some need ->
  forall x, reach u heads x -> has (need ++ sink) x = true.
Proof.
  intros u sink heads need Hc Hn x Hr. unfold pull_need in Hn.
  induction Hr as [x Hx | x y Hr IH Hy]; rewrite has_app in *.
  - destruct (has sink x) eqn:E; [apply orb_true_r|]. apply orb_true_iff. left. apply has_In.
    apply (mark_contains_start _ _ _ Hn). apply filter_In. split; [exact Hx|]. unfold absent. rewrite E. reflexivity.
  - destruct (has sink y) eqn:Ey; [apply orb_true_r|]. apply orb_true_iff. left.
    apply orb_true_iff in IH. destruct IH as [IH|IH].
    + apply has_In. apply has_In in IH. apply (mark_closed_refs _ _ _ Hn x y IH).
      rewrite refs_prune. apply filter_In. split; [exact Hy|]. unfold absent. rewrite Ey. reflexivity.
    + rewrite (Hc x y IH Hy) in Ey. discriminate Ey.
Qed.

(* ... in any batch order and together with anything else that is uploaded *)
Corollary pull_complete_batches : forall u sink heads need batches,
  sink_closed u sink -> pull_need u sink heads = Some need -> incl need (concat batches) ->
  forall x, reach u heads x -> has (concat batches ++ sink) x = true.
Proof.
  intros u sink heads need batches Hc Hn Hi x Hr.
  pose proof (pull_complete u sink heads need Hc Hn x Hr) as H. rewrite has_app in *.
  apply orb_true_iff in H. apply orb_true_iff. destruct H as [H|H]; [left | right; exact H].
  apply has_In. apply Hi. apply has_In. exact H.
Qed.

Lemma pull_need_total : forall u sink heads, exists need, pull_need u sink heads = Some need.
Proof. intros u sink heads. unfold pull_need. apply fuel_enough. Qed.

(* the pruned walk fetches nothing superfluous: only chunks reachable from the heads that the sink lacks *)
Lemma reach_prune : forall u sink heads x,
  reach (prune u sink) (filter (absent sink) heads) x -> reach u heads x /\ absent sink x = true.
Proof.
  intros u sink heads x H. induction H as [x Hx | x y Hr IH Hy].
  - apply filter_In in Hx. destruct Hx as [Hx Ha]. split; [apply reach_start; exact Hx | exact Ha].
  - rewrite refs_prune in Hy. apply filter_In in Hy. destruct Hy as [Hy Ha]. destruct IH as [IH _].
    split; [apply reach_step with (x := x); assumption | exact Ha].
Qed.

Theorem pull_need_minimal : forall u sink heads need,
  pull_need u sink heads = Some need ->
  forall x, In x need -> reach u heads x /\ has sink x = false.
Proof.
  intros u sink heads need Hn x Hx. unfold pull_need in Hn.
  destruct (reach_prune u sink heads x (mark_sound _ _ _ Hn x Hx)) as [Hr Ha].
  split; [exact Hr|]. unfold absent in Ha. apply negb_true_iff in Ha. exact Ha.
Qed.

(* the hypothesis cannot be dropped: with a sink that is not closed the pruned walk stops too early *)
Example pruning_needs_closed_sink :
  let u := [(1, [2]); (2, [])] in
  pull_need u [1] [1] = Some [] /\ reach u [1] 2 /\ has ([] ++ [1]) 2 = false.
Proof.
  split; [vm_compute; reflexivity|]. split; [|reflexivity].
  apply reach_step with (x := 1); [apply reach_start; left; reflexivity | left; reflexivity].
Qed.

(* the files produced by a pull into a closed sink pass the reference check when they are added *)
Theorem pull_add_accepted : forall u sink heads need,
  sink_closed u sink -> pull_need u sink heads = Some need -> add_ok u sink need = true.
Proof.
  intros u sink heads need Hc Hn. unfold add_ok. rewrite forallb_forall. intros h Hh.
  rewrite forallb_forall. intros r Hr. rewrite has_app.
  destruct (has sink r) eqn:E; [apply orb_true_r|]. apply orb_true_iff. left. apply has_In.
  unfold pull_need in Hn. apply (mark_closed_refs _ _ _ Hn h r Hh).
  rewrite refs_prune. apply filter_In. split; [exact Hr|]. unfold absent. rewrite E. reflexivity.
Qed.

(* ---- refs after data ---- *)
Definition Inv (u : graph) (d : remote) : Prop := sink_closed u (r_store d) /\ refs_present d.

Lemma get_set_ref : forall rm n a k b, In (k, b) (set_ref rm n a) -> (k = n /\ b = a) \/ In (k, b) rm.
Proof.
  induction rm as [|[k0 b0] t IH]; intros n a k b H; cbn [set_ref] in H.
  - destruct H as [H|[]]. injection H as <- <-. left. split; reflexivity.
  - destruct (k0 =? n) eqn:E.
    + destruct H as [H|H].
      * injection H as <- <-. apply N.eqb_eq in E. left. split; [exact E | reflexivity].
      * right. right. exact H.
    + destruct H as [H|H]; [right; left; exact H|].
      destruct (IH n a k b H) as [H1|H1]; [left; exact H1 | right; right; exact H1].
Qed.

Lemma step_inv : forall u d t, Inv u d -> Inv u (tstep_run u d t).
Proof.
  intros u d t [Hc Hp]. destruct t as [batch|n expected new force]; cbn [tstep_run].
  - destruct (add_ok u (r_store d) batch) eqn:E; [|split; assumption].
    split; unfold sink_closed, refs_present; cbn [r_store r_refs].
    + intros x y Hx Hy. rewrite has_app in Hx. destruct (has batch x) eqn:Eb.
      * unfold add_ok in E. rewrite forallb_forall in E. apply has_In in Eb.
        specialize (E x Eb). rewrite forallb_forall in E. apply E. exact Hy.
      * cbn [orb] in Hx. rewrite has_app. rewrite (Hc x y Hx Hy). apply orb_true_r.
    + intros k a Hin. rewrite has_app. rewrite (Hp k a Hin). apply orb_true_r.
  - destruct (set_ok u d n expected new force) eqn:E; [|split; assumption].
    split; unfold refs_present; cbn [r_store r_refs]; [exact Hc|].
    intros k a Hin. apply get_set_ref in Hin. destruct Hin as [[_ ->]|Hin]; [|exact (Hp k a Hin)].
    unfold set_ok in E. apply andb_prop in E. destruct E as [E _]. apply andb_prop in E. exact (proj2 E).
Qed.

Lemma closed_reach : forall u s a, sink_closed u s -> has s a = true -> forall x, reach u [a] x -> has s x = true.
Proof.
  intros u s a Hc Ha x Hr. induction Hr as [x Hx | x y Hr IH Hy].
  - destruct Hx as [Hx|[]]. subst. exact Ha.
  - exact (Hc x y IH Hy).
Qed.

Lemma Inv_backed : forall u d, Inv u d -> ref_backed u d.
Proof. intros u d [Hc Hp] n a Hin x Hr. exact (closed_reach u (r_store d) a Hc (Hp n a Hin) x Hr). Qed.

Lemma transfer_inv : forall u ts d, Inv u d -> Inv u (transfer u d ts).
Proof.
  intros u. induction ts as [|t ts IH]; intros d H; [exact H|].
  unfold transfer. cbn [fold_left]. apply IH. apply step_inv. exact H.
Qed.

(* ref_after_data: in every prefix of every interleaving of add-files and ref-update steps (= at every
   interruption point of any number of concurrent transfers), the destination stays closed and every
   destination ref is backed by its complete closure *)
Theorem ref_after_data : forall u ts d,
  sink_closed u (r_store d) -> refs_present d ->
  forall k, ref_backed u (transfer u d (firstn k ts)) /\ sink_closed u (r_store (transfer u d (firstn k ts))).
Proof.
  intros u ts d Hc Hp k.
  pose proof (transfer_inv u (firstn k ts) d (conj Hc Hp)) as H.
  split; [apply Inv_backed; exact H | exact (proj1 H)].
Qed.

Lemma get_set_same : forall rm n a, get_ref (set_ref rm n a) n = Some a.
Proof.
  induction rm as [|[k b] t IH]; intros n a; cbn [set_ref get_ref].
  - rewrite N.eqb_refl. reflexivity.
  - destruct (k =? n) eqn:E; cbn [get_ref]; rewrite E; [reflexivity | apply IH].
Qed.

Lemma get_ref_In : forall rm n a, get_ref rm n = Some a -> In (n, a) rm.
Proof.
  induction rm as [|[k b] t IH]; intros n a H; cbn [get_ref] in H; [discriminate H|].
  destruct (k =? n) eqn:E.
  - apply N.eqb_eq in E. injection H as <-. subst. left. reflexivity.
  - right. apply IH. exact H.
Qed.

(* a complete push (pruned pull, add, ref update) into a closed destination: if the ref moved, all the data
   reachable from the new head is there — and if the old head was set, its history is still reachable *)
Theorem push_complete : forall u d n new force,
  sink_closed u (r_store d) -> refs_present d ->
  let d' := push u d n new force in
  ref_backed u d' /\
  (get_ref (r_refs d') n = Some new -> forall x, reach u [new] x -> has (r_store d') x = true).
Proof.
  intros u d n new force Hc Hp d'. subst d'. unfold push.
  destruct (pull_need u (r_store d) [new]) as [need|] eqn:En.
  - pose proof (transfer_inv u [TAdd need; TSetRef n (get_ref (r_refs d) n) new force] d (conj Hc Hp)) as HI.
    split; [apply Inv_backed; exact HI|].
    intros Hg x Hr. apply get_ref_In in Hg. exact (Inv_backed _ _ HI n new Hg x Hr).
  - split; [apply Inv_backed; split; assumption|].
    intros Hg x Hr. apply get_ref_In in Hg. exact (Inv_backed _ _ (conj Hc Hp) n new Hg x Hr).
Qed.

(* push_cas: two ref updates made against the same expected old head cannot both succeed *)
Theorem push_cas : forall u d n old new1 new2 f1 f2,
  succeeded u d (TSetRef n old new1 f1) = true ->
  old <> Some new1 ->
  succeeded u (tstep_run u d (TSetRef n old new1 f1)) (TSetRef n old new2 f2) = false.
Proof.
  intros u d n old new1 new2 f1 f2 H1 Hne. cbn [succeeded] in H1. cbn [tstep_run]. rewrite H1.
  cbn [succeeded]. unfold set_ok. cbn [r_refs]. rewrite get_set_same.
  destruct old as [o|]; cbn [opt_eqb]; [|reflexivity].
  destruct (new1 =? o) eqn:E; [|reflexivity].
  apply N.eqb_eq in E. subst. exfalso. apply Hne. reflexivity.
Qed.

Lemma reach_trans_single : forall u a b x, reach u [a] b -> reach u [b] x -> reach u [a] x.
Proof.
  intros u a b x Hab Hbx. induction Hbx as [y Hy | y z Hy IH Hz].
  - destruct Hy as [Hy|[]]. subst. exact Hab.
  - apply reach_step with (x := y); assumption.
Qed.

(* ff-only: a non-forced update that succeeds keeps every commit of the old head reachable from the new head *)
Theorem ff_only_keeps_history : forall u d n old new o,
  succeeded u d (TSetRef n old new false) = true ->
  get_ref (r_refs d) n = Some o ->
  forall x, reach u [o] x -> reach u [new] x.
Proof.
  intros u d n old new o H Hg x Hx. cbn [succeeded] in H. unfold set_ok in H. cbn [orb] in H.
  apply andb_prop in H. destruct H as [_ Hff]. rewrite Hg in Hff. unfold is_ff in Hff.
  destruct (mark u [new]) as [r|] eqn:Em; [|discriminate Hff].
  apply memb_In in Hff. apply (mark_sound u [new] r Em) in Hff.
  eapply reach_trans_single; eassumption.
Qed.

(* the executable statement used on implementation states means what it says *)
Lemma data_complete_spec : forall u s a,
  data_complete u s a = true <-> (forall x, reach u [a] x -> has s x = true).
Proof.
  intros u s a. unfold data_complete. destruct (mark_is_reach u [a]) as [R [HR Hiff]]. rewrite HR.
  rewrite forallb_forall. split.
  - intros H x Hx. apply H. apply Hiff. exact Hx.
  - intros H x Hx. apply H. apply Hiff. exact Hx.
Qed.

(* non-vacuity *)
Example transfer_example :
  let u := [(1, [2]); (2, []); (3, [1]); (4, [5]); (5, [])] in
  let d0 := {| r_store := [1; 2]; r_refs := [(0, 1)] |} in
  (r_refs (transfer u d0 [TSetRef 0 (Some 1) 3 false]),              (* head not there yet: refused *)
   r_store (transfer u d0 [TAdd [4]]),                               (* file with a dangling reference: refused *)
   r_refs (push u d0 0 3 false),                                     (* fast-forward push *)
   r_store (push u d0 0 3 false),                                    (* fetched only the missing chunk *)
   r_refs (transfer u (push u d0 0 3 false) [TAdd [5; 4]; TSetRef 0 (Some 1) 4 true]))  (* stale CAS *)
  = ([(0, 1)], [1; 2], [(0, 3)], [3; 1; 2], [(0, 3)]).
Proof. vm_compute. reflexivity. Qed.

(* ---- the oracle holds of the model's own observation, and of every state the model's transfers reach ---- *)
From Dolt Require Import C35.Corr.

Lemma inclb_In : forall a b, Spec.inclb a b = true -> forall x, In x a -> In x b.
Proof.
  intros a b H x Hx. unfold Spec.inclb in H. rewrite forallb_forall in H. apply memb_In. apply H. exact Hx.
Qed.

Theorem oracle_on_model : forall i,
  model_complete i = true -> i_points i = [] -> oracle i (model_obs i) = true.
Proof.
  intros i Hm Hp. unfold oracle, model_obs. rewrite Hp.
  cbn [forallb o_refs_match o_closed o_clone_equal o_pull_equal o_nonff_refused o_force_ok o_race_ok].
  rewrite !andb_true_r. rewrite forallb_forall. intros a Ha. apply data_complete_spec. intros x Hx.
  unfold model_complete, model_remote in Hm.
  destruct (pull_need (i_universe i) [] (i_heads i)) as [need|] eqn:En; [|discriminate Hm].
  apply andb_prop in Hm. destruct Hm as [Hsub _].
  assert (Hc : sink_closed (i_universe i) []) by (intros y z Hy; discriminate Hy).
  assert (Hr : reach (i_universe i) (i_heads i) x).
  { clear - Ha Hx. induction Hx as [y Hy | y z Hy IH Hz].
    - destruct Hy as [Hy|[]]. subst. apply reach_start. exact Ha.
    - apply reach_step with (x := y); assumption. }
  pose proof (pull_complete _ _ _ _ Hc En x Hr) as H. rewrite app_nil_r in H.
  apply has_In. apply (inclb_In _ _ Hsub). apply has_In. exact H.
Qed.

(* every state reached by the model's transfer steps from a closed, backed destination passes the check that the
   harness applies to the implementation's destination after each injected failure *)
Theorem point_ok_of_transfer : forall u ts d k,
  sink_closed u (r_store d) -> refs_present d ->
  let d' := transfer u d (firstn k ts) in
  point_ok u (r_store d', map snd (r_refs d')) = true.
Proof.
  intros u ts d k Hc Hp d'. subst d'.
  destruct (ref_after_data u ts d Hc Hp k) as [Hb Hcl].
  unfold point_ok. cbn [fst snd]. apply andb_true_intro. split.
  - rewrite forallb_forall. intros a Ha. apply in_map_iff in Ha. destruct Ha as [[n a'] [Heq Hin]].
    cbn [snd] in Heq. subst a'. apply data_complete_spec. intros x Hx. exact (Hb n a Hin x Hx).
  - unfold closedb. rewrite forallb_forall. intros x Hx. rewrite forallb_forall. intros y Hy.
    apply (Hcl x y); [apply has_In; exact Hx | exact Hy].
Qed.
