(* C35 — proofs. *)
From Coq Require Import NArith PeanoNat List Bool Lia.
From Dolt Require Import C08.Model C08.Spec C08.Proofs C35.Model C35.Spec.
Import ListNotations.
Local Open Scope N_scope.

Lemma has_app : forall b s x, has (b ++ s) x = has b x || has s x.
Proof. intros b s x. unfold has, memb. apply existsb_app. Qed.

(* pull_complete: after the chunks of the missing closure have been copied, in any batch order and
   together with anything else, everything reachable from the heads is at the sink *)
Theorem pull_complete : forall u sink heads need batches,
  missing u sink heads = Some need ->
  incl need (concat batches) ->
  forall x, reach u heads x -> has (concat batches ++ sink) x = true.
Proof.
  intros u sink heads need batches Hm Hin x Hr. unfold missing in Hm.
  destruct (mark u heads) as [r|] eqn:E; [|discriminate Hm]. injection Hm as <-.
  pose proof (mark_complete u heads r E x Hr) as Hx.
  rewrite has_app. destruct (has sink x) eqn:Hs; [apply orb_true_r|].
  apply orb_true_iff. left. apply memb_In. apply Hin. apply filter_In. split; [exact Hx|]. rewrite Hs. reflexivity.
Qed.

Lemma missing_total : forall u sink heads, exists need, missing u sink heads = Some need.
Proof. intros u sink heads. unfold missing. destruct (fuel_enough u heads) as [r H]. rewrite H. eexists. reflexivity. Qed.

Lemma get_set_ref : forall rm n a k b, In (k, b) (set_ref rm n a) -> (k = n /\ b = a) \/ In (k, b) rm.
Proof.
  induction rm as [|[k0 b0] t IH]; intros n a k b H; cbn [set_ref] in H.
  - destruct H as [H|[]]. injection H as <- <-. left. split; reflexivity.
  - destruct (k0 =? n) eqn:E.
    + destruct H as [H|H].
      * injection H as <- <-. apply N.eqb_eq in E. left. split; [exact E | reflexivity].
      * right. right. exact H.
    + destruct H as [H|H]; [right; left; exact H|].
      destruct (IH n a k b H) as [H1|H1]; [left; exact H1 | right; right; exact H1].
Qed.

Lemma step_backed : forall u d t, ref_backed u d -> ref_backed u (tstep_run u d t).
Proof.
  intros u d t Hb. destruct t as [batch|n expected new force]; cbn [tstep_run].
  - intros k a Hin x Hr. cbn [r_store r_refs] in *. rewrite has_app. rewrite (Hb k a Hin x Hr). apply orb_true_r.
  - destruct (opt_eqb (get_ref (r_refs d) n) expected && data_complete u (r_store d) new
              && (force || is_ff u (get_ref (r_refs d) n) new)) eqn:E; [|exact Hb].
    apply andb_prop in E. destruct E as [E _]. apply andb_prop in E. destruct E as [_ Ed].
    intros k a Hin x Hr. cbn [r_store r_refs] in *.
    apply get_set_ref in Hin. destruct Hin as [[_ ->]|Hin]; [|exact (Hb k a Hin x Hr)].
    unfold data_complete in Ed. destruct (mark u [new]) as [r|] eqn:Em; [|discriminate Ed].
    rewrite forallb_forall in Ed. apply Ed. apply (mark_complete u [new] r Em x Hr).
Qed.

(* ref_after_data: in every prefix of every interleaving of transfer steps (= at every interruption
   point), every ref of the destination is backed by its complete data *)
Theorem ref_after_data : forall u ts d,
  ref_backed u d -> forall k, ref_backed u (transfer u d (firstn k ts)).
Proof.
  intros u ts d Hb k. unfold transfer. generalize dependent d. generalize dependent k.
  induction ts as [|t ts IH]; intros k d Hb.
  - destruct k; exact Hb.
  - destruct k as [|k]; [exact Hb|]. cbn [firstn fold_left]. apply IH. apply step_backed. exact Hb.
Qed.

Lemma get_set_same : forall rm n a, get_ref (set_ref rm n a) n = Some a.
Proof.
  induction rm as [|[k b] t IH]; intros n a; cbn [set_ref get_ref].
  - rewrite N.eqb_refl. reflexivity.
  - destruct (k =? n) eqn:E; cbn [get_ref]; rewrite E; [reflexivity | apply IH].
Qed.

(* push_cas: two ref updates made against the same expected old head cannot both succeed,
   unless the second one installs what is already there *)
Theorem push_cas : forall u d n old new1 new2 f1 f2,
  succeeded u d (TSetRef n old new1 f1) = true ->
  old <> Some new1 ->
  succeeded u (tstep_run u d (TSetRef n old new1 f1)) (TSetRef n old new2 f2) = false.
Proof.
  intros u d n old new1 new2 f1 f2 H1 Hne. cbn [succeeded] in H1. cbn [tstep_run]. rewrite H1.
  cbn [succeeded r_refs]. rewrite get_set_same.
  destruct old as [o|]; cbn [opt_eqb]; [|reflexivity].
  destruct (new1 =? o) eqn:E; [|reflexivity].
  apply N.eqb_eq in E. subst. exfalso. apply Hne. reflexivity.
Qed.

(* ff-only: a non-forced update that succeeds keeps every commit of the old head reachable from the new head *)
Lemma reach_trans_single : forall u a b x, reach u [a] b -> reach u [b] x -> reach u [a] x.
Proof.
  intros u a b x Hab Hbx. induction Hbx as [y Hy | y z Hy IH Hz].
  - destruct Hy as [Hy|[]]. subst. exact Hab.
  - apply reach_step with (x := y); assumption.
Qed.

Theorem ff_only_keeps_history : forall u d n old new o,
  succeeded u d (TSetRef n old new false) = true ->
  get_ref (r_refs d) n = Some o ->
  forall x, reach u [o] x -> reach u [new] x.
Proof.
  intros u d n old new o H Hg x Hx. cbn [succeeded orb] in H.
  apply andb_prop in H. destruct H as [_ Hff]. rewrite Hg in Hff. unfold is_ff in Hff.
  destruct (mark u [new]) as [r|] eqn:Em; [|discriminate Hff].
  apply memb_In in Hff. apply (mark_sound u [new] r Em) in Hff.
  eapply reach_trans_single; eassumption.
Qed.

(* non-vacuity *)
Example transfer_example :
  let u := [(1, [2]); (2, []); (3, [1])] in
  let d0 := {| r_store := [1; 2]; r_refs := [(0, 1)] |} in
  (r_refs (transfer u d0 [TSetRef 0 (Some 1) 3 false]),              (* data not there yet: refused *)
   r_refs (transfer u d0 [TCopy [3]; TSetRef 0 (Some 1) 3 false]),   (* fast-forward after the data *)
   r_refs (transfer u d0 [TCopy [3]; TSetRef 0 (Some 1) 3 false; TSetRef 0 (Some 1) 2 true]))  (* stale CAS *)
  = ([(0, 1)], [(0, 3)], [(0, 3)]).
Proof. vm_compute. reflexivity. Qed.
