(* C35 — push / pull / fetch / clone.  Executable model of
     go/store/datas/pull/puller.go        Puller.Pull: walk the references of the requested heads (WalkAddrs),
                                          skip what the sink has, fetch and write the rest in table-file batches
     go/store/datas/pull/clone.go         clone: copy every table file, then the manifest
     go/libraries/doltcore/env/actions/remotes.go   Push: fast-forward check, PullChunks, then the ref update
     go/libraries/doltcore/doltdb/doltdb.go         FastForwardWithWorkspaceCheck / SetHead: compare-and-set of the ref
   Chunk graphs are C08's (address, references reported by the walker).  All stores live in one
   content-addressed universe [u] (the union of what any party ever wrote): a store is the list of
   addresses it holds.  No proofs here. *)
From Coq Require Import NArith List Bool.
From Dolt Require Import C08.Model.
Import ListNotations.
Local Open Scope N_scope.

Definition store := list addr.                       (* addresses present *)
Definition refmap := list (N * addr).                (* ref name -> head *)

Definition has (s : store) (h : addr) : bool := memb h s.

(* the chunks a pull of [heads] must bring: the closure of the heads in the universe, minus what the sink has *)
Definition missing (u : graph) (sink : store) (heads : list addr) : option (list addr) :=
  match mark u heads with
  | Some r => Some (filter (fun h => negb (has sink h)) r)
  | None => None
  end.

Fixpoint get_ref (rm : refmap) (n : N) : option addr :=
  match rm with [] => None | (k, a) :: t => if k =? n then Some a else get_ref t n end.
Fixpoint set_ref (rm : refmap) (n : N) (a : addr) : refmap :=
  match rm with
  | [] => [(n, a)]
  | (k, b) :: t => if k =? n then (k, a) :: t else (k, b) :: set_ref t n a
  end.

Definition opt_eqb (a b : option addr) : bool :=
  match a, b with Some x, Some y => x =? y | None, None => true | _, _ => false end.

Record remote := { r_store : store; r_refs : refmap }.

(* steps of a transfer into [d]; any interleaving of any number of transfers is a list of these *)
Inductive tstep :=
| TCopy (batch : list addr)                       (* a table file with any subset of chunks, in any order *)
| TSetRef (n : N) (expected : option addr) (new : addr) (force : bool).
                                                  (* ref update: compare-and-set; non-forced = fast-forward only *)

(* is [old] an ancestor-or-self of [new] (fast-forward)?  closure of new contains old *)
Definition is_ff (u : graph) (old : option addr) (new : addr) : bool :=
  match old with
  | None => true
  | Some o => match mark u [new] with Some r => memb o r | None => false end
  end.

(* the data check made before a ref may move (Puller finished: everything reachable from new is at the sink) *)
Definition data_complete (u : graph) (s : store) (new : addr) : bool :=
  match mark u [new] with Some r => forallb (has s) r | None => false end.

Definition tstep_run (u : graph) (d : remote) (t : tstep) : remote :=
  match t with
  | TCopy batch => {| r_store := batch ++ r_store d; r_refs := r_refs d |}
  | TSetRef n expected new force =>
      if opt_eqb (get_ref (r_refs d) n) expected
         && data_complete u (r_store d) new
         && (force || is_ff u (get_ref (r_refs d) n) new)
      then {| r_store := r_store d; r_refs := set_ref (r_refs d) n new |}
      else d
  end.

Definition transfer (u : graph) (d : remote) (ts : list tstep) : remote := fold_left (tstep_run u) ts d.

(* did the step move the ref? *)
Definition succeeded (u : graph) (d : remote) (t : tstep) : bool :=
  match t with
  | TSetRef n expected new force =>
      opt_eqb (get_ref (r_refs d) n) expected && data_complete u (r_store d) new
      && (force || is_ff u (get_ref (r_refs d) n) new)
  | TCopy _ => true
  end.
