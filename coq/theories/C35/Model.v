(* C35 — push / pull / fetch / clone.  Executable model of
     go/store/datas/pull/puller.go          Puller.Pull + PullChunkTracker: walk the references (WalkAddrs) of the
                                            requested heads; every batch of addresses is first filtered by
                                            sink.HasMany — an address the sink already has is neither fetched nor
                                            expanded; fetched chunks are written to table files and all files are
                                            added to the sink's manifest at the end
     go/store/nbs/store.go                  AddTableFilesToManifest: reference check on the added files (C07)
     go/store/datas/pull/clone.go           clone: copy every table file, then the manifest
     go/libraries/doltcore/env/actions/remotes.go   Push: fast-forward check, PullChunks, then the ref update
     go/libraries/doltcore/doltdb/doltdb.go         FastForward / SetHead: compare-and-set of the ref; the new
                                                    store root may only reference present chunks (refCheck)
   Chunk graphs are C08's (address, references reported by the walker).  All stores live in one
   content-addressed universe [u] (the union of what any party ever wrote): a store is the list of
   addresses it holds.  No proofs here. *)
From Coq Require Import NArith List Bool.
From Dolt Require Import C08.Model.
Import ListNotations.
Local Open Scope N_scope.

Definition store := list addr.                       (* addresses present *)
Definition refmap := list (N * addr).                (* ref name -> head *)

Definition has (s : store) (h : addr) : bool := memb h s.
Definition absent (s : store) (h : addr) : bool := negb (has s h).

(* the graph as the puller sees it: references the sink already has are pruned by HasMany *)
Definition prune (u : graph) (sink : store) : graph :=
  map (fun p => (fst p, filter (absent sink) (snd p))) u.

(* the chunks a pull of [heads] fetches: HasMany-pruned walk from the heads the sink lacks *)
Definition pull_need (u : graph) (sink : store) (heads : list addr) : option (list addr) :=
  mark (prune u sink) (filter (absent sink) heads).

(* the unpruned reference: closure of the heads minus what the sink has (what a pull would have to bring
   if nothing could be assumed about the sink) *)
Definition missing (u : graph) (sink : store) (heads : list addr) : option (list addr) :=
  match mark u heads with
  | Some r => Some (filter (absent sink) r)
  | None => None
  end.

Fixpoint get_ref (rm : refmap) (n : N) : option addr :=
  match rm with [] => None | (k, a) :: t => if k =? n then Some a else get_ref t n end.
Fixpoint set_ref (rm : refmap) (n : N) (a : addr) : refmap :=
  match rm with
  | [] => [(n, a)]
  | (k, b) :: t => if k =? n then (k, a) :: t else (k, b) :: set_ref t n a
  end.

Definition opt_eqb (a b : option addr) : bool :=
  match a, b with Some x, Some y => x =? y | None, None => true | _, _ => false end.

Record remote := { r_store : store; r_refs : refmap }.

(* steps applied to a destination [d]; any interleaving of any number of transfers, interrupted anywhere,
   is a list of these *)
Inductive tstep :=
| TAdd (batch : list addr)        (* AddTableFilesToManifest of uploaded files holding these chunks, any order *)
| TSetRef (n : N) (expected : option addr) (new : addr) (force : bool).
                                  (* ref update: compare-and-set; non-forced = fast-forward only *)

(* the reference check made when table files are added: every reference of every added chunk is in the
   added files or already in the store *)
Definition add_ok (u : graph) (s : store) (batch : list addr) : bool :=
  forallb (fun h => forallb (has (batch ++ s)) (refs u h)) batch.

(* is [old] an ancestor-or-self of [new] (fast-forward)?  closure of new contains old *)
Definition is_ff (u : graph) (old : option addr) (new : addr) : bool :=
  match old with
  | None => true
  | Some o => match mark u [new] with Some r => memb o r | None => false end
  end.

Definition set_ok (u : graph) (d : remote) (n : N) (expected : option addr) (new : addr) (force : bool) : bool :=
  opt_eqb (get_ref (r_refs d) n) expected          (* compare-and-set on the old head *)
  && has (r_store d) new                           (* refCheck: the new head must be present *)
  && (force || is_ff u (get_ref (r_refs d) n) new).

Definition tstep_run (u : graph) (d : remote) (t : tstep) : remote :=
  match t with
  | TAdd batch =>
      if add_ok u (r_store d) batch then {| r_store := batch ++ r_store d; r_refs := r_refs d |} else d
  | TSetRef n expected new force =>
      if set_ok u d n expected new force
      then {| r_store := r_store d; r_refs := set_ref (r_refs d) n new |}
      else d
  end.

Definition transfer (u : graph) (d : remote) (ts : list tstep) : remote := fold_left (tstep_run u) ts d.

Definition succeeded (u : graph) (d : remote) (t : tstep) : bool :=
  match t with
  | TSetRef n expected new force => set_ok u d n expected new force
  | TAdd batch => add_ok u (r_store d) batch
  end.

(* executable statement "the whole closure of [a] is at the store", used on implementation states *)
Definition data_complete (u : graph) (s : store) (a : addr) : bool :=
  match mark u [a] with Some r => forallb (has s) r | None => false end.

(* a complete push / fetch of one head as the implementation performs it *)
Definition push (u : graph) (d : remote) (n : N) (new : addr) (force : bool) : remote :=
  match pull_need u (r_store d) [new] with
  | Some need => transfer u d [TAdd need; TSetRef n (get_ref (r_refs d) n) new force]
  | None => d
  end.
