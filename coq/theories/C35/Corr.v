(* C35 — correspondence.  Input: the source's chunk graph (real walker), the pushed heads, and the set of
   those chunks the REAL remote holds after the push.  Observation: what held of the implementation. *)
From Coq Require Import NArith List Bool.
From Dolt Require Import C08.Model C08.Spec C35.Model C35.Spec.
Import ListNotations.
Local Open Scope N_scope.

Record obs := { o_refs_match : bool; o_closed : bool; o_clone_equal : bool; o_pull_equal : bool;
                o_nonff_refused : bool; o_force_ok : bool; o_race_ok : bool }.

(* i_points: for every injected failure of an interrupted push / fetch / pull on the REAL code, the
   destination's contents (universe chunks it holds) and all its dataset heads *)
Record input := { i_universe : graph; i_heads : list addr; i_remote_has : store;
                  i_points : list (store * list addr) }.
Definition case := (input * obs)%type.

(* the model's transfer into an empty remote: copy the missing closure, then set the refs *)
Definition model_remote (i : input) : option store :=
  pull_need (i_universe i) [] (i_heads i).

(* the model predicts: the remote holds exactly the closure of the heads, and every other observable is fine *)
Definition model_complete (i : input) : bool :=
  match model_remote i with
  | Some s => inclb s (i_remote_has i) && inclb (i_remote_has i) s
  | None => false
  end.

Definition model_obs (i : input) : obs :=
  {| o_refs_match := true; o_closed := true; o_clone_equal := true; o_pull_equal := true;
     o_nonff_refused := true; o_force_ok := true; o_race_ok := true |}.

Definition obs_eqb (a b : obs) : bool :=
  Bool.eqb (o_refs_match a) (o_refs_match b) && Bool.eqb (o_closed a) (o_closed b)
  && Bool.eqb (o_clone_equal a) (o_clone_equal b) && Bool.eqb (o_pull_equal a) (o_pull_equal b)
  && Bool.eqb (o_nonff_refused a) (o_nonff_refused b) && Bool.eqb (o_force_ok a) (o_force_ok b)
  && Bool.eqb (o_race_ok a) (o_race_ok b).

(* the property on the implementation: every pushed head has its whole closure at the remote
   (data_complete, evaluated on the remote's real contents), refs match, nothing dangles, read-backs agree,
   a non-fast-forward push is refused, at most one of two racing pushes wins; and after every interruption
   point of every interrupted transfer each destination ref has its full closure and the destination is closed *)
(* closedness of a destination within the universe (C07 at the sink) *)
Definition closedb (u : graph) (s : store) : bool :=
  forallb (fun x => forallb (has s) (refs u x)) s.

(* ref_after_data on an implementation state *)
Definition point_ok (u : graph) (p : store * list addr) : bool :=
  forallb (data_complete u (fst p)) (snd p) && closedb u (fst p).

Definition oracle (i : input) (o : obs) : bool :=
  forallb (data_complete (i_universe i) (i_remote_has i)) (i_heads i)
  && forallb (point_ok (i_universe i)) (i_points i)
  && o_refs_match o && o_closed o && o_clone_equal o && o_pull_equal o && o_nonff_refused o && o_force_ok o && o_race_ok o.

Definition check_case (c : case) : N :=
  (if obs_eqb (model_obs (fst c)) (snd c) && model_complete (fst c) then 0 else 1)
  + (if oracle (fst c) (snd c) then 0 else 2).
