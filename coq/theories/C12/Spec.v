(* C12 — specification side.

   The property: the tree is a function of the content alone.  Declaratively, a
   tree [t] over leaf items [xs] is *canonical* when every level is the greedy
   content-defined chunking of its items and each level's items are the
   summaries of the chunks below; two trees that are canonical for the same
   content are equal, hence have the same root address and the same chunk set.
   Boolean forms below are what the correspondence evaluates on what the
   implementation returned: all construction routes of one content produced the
   same root hash and the same chunk boundaries on every level. *)
From Coq Require Import NArith List Bool.
From Dolt Require Import C12.Model.
Import ListNotations.
Local Open Scope N_scope.

Section Spec.
  Variable item : Type.
  Variable boundary : nat -> list item -> item -> bool.
  Variable fits : nat -> list item -> item -> bool.
  Variable summ : nat -> list item -> item.

  (* level l of a canonical tree over the items [xs] of that level *)
  Fixpoint canonical_from (l : nat) (xs : list item) (t : list (list (list item))) : Prop :=
    match t with
    | [] => False
    | cs :: up =>
      cs = chunk_level item boundary fits l xs /\
      match up with
      | [] => (length cs <= 1)%nat
      | _ => (1 < length cs)%nat /\ canonical_from (S l) (map (summ l) cs) up
      end
    end.
  Definition canonical (xs : list item) (t : list (list (list item))) : Prop := canonical_from 0 xs t.
End Spec.

Fixpoint eqb_listN (a b : list N) : bool :=
  match a, b with
  | [], [] => true
  | x :: a', y :: b' => (x =? y) && eqb_listN a' b'
  | _, _ => false
  end.

Fixpoint eqb_shape (a b : list (list N)) : bool :=
  match a, b with
  | [], [] => true
  | x :: a', y :: b' => eqb_listN x y && eqb_shape a' b'
  | _, _ => false
  end.

(* one construction route as observed: root hash bytes, chunk lengths per level (bottom-up) *)
Definition route := (list N * list (list N))%type.
Definition eqb_route (a b : route) : bool := eqb_listN (fst a) (fst b) && eqb_shape (snd a) (snd b).

(* the property on observations: every route equals the first one *)
Definition routes_agree (rs : list route) : bool :=
  match rs with
  | [] => false
  | r0 :: rest => forallb (eqb_route r0) rest
  end.
