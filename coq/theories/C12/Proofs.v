(* C12 — proofs.  Everything is for EVERY boundary function, summary function,
   item list and edit script; the only hypothesis is [no_overflow] (stated where
   used): nodeBuilder.hasCapacity never fails, i.e. no forced size boundary
   *before* an item.  Without it the statement is false in the model
   ([mutate_canonical_refuted]) and in the real code (known finding
   chunker.append:overflow-boundary-not-resynced).
   Headlines: chunk_resync, mutate_level (one level), apply_levels_spec (all
   levels, script form), mutate_canonical (all levels, sorted key edits),
   history_independent, history_canonical / history_independent_fold (whole
   histories), build_is_tree (the fuel of [build] always suffices). *)
From Coq Require Import NArith List Bool Lia.
From Dolt Require Import C12.Model.
Import ListNotations.

Section Proofs.
  Variable item : Type.
  Variable boundary : nat -> list item -> item -> bool.
  Variable fits : nat -> list item -> item -> bool.
  Variable summ : nat -> list item -> item.

  Notation feed := (feed item boundary fits).
  Notation append1 := (append1 item boundary fits).
  Notation chunk_from := (chunk_from item boundary fits).
  Notation chunk_level := (chunk_level item boundary fits).
  Notation rechunk := (rechunk item boundary fits summ).
  Notation build_levels := (build_levels item boundary fits summ).
  Notation build := (build item boundary fits summ).
  Notation chunk := (list item).
  Notation finish := (Model.finish item).

  Definition no_overflow : Prop := forall l r x, fits l r x = true.

  (* ---------------- the splitter state is the run: streams compose ---------------- *)
  Lemma feed_app : forall l xs ys run,
    feed l run (xs ++ ys) =
    let '(cs, r) := feed l run xs in
    let '(cs', r') := feed l r ys in (cs ++ cs', r').
  Proof.
    intros l xs; induction xs as [|x xs IH]; intros ys run; cbn [feed app].
    - destruct (feed l run ys) as [cs' r']; reflexivity.
    - destruct (append1 l run x) as [c1 r1].
      rewrite IH. destruct (feed l r1 xs) as [cs r].
      destruct (feed l r ys) as [cs' r']. rewrite app_assoc. reflexivity.
  Qed.

  Lemma chunk_from_app : forall l run xs ys cs r,
    feed l run xs = (cs, r) ->
    chunk_from l run (xs ++ ys) = cs ++ chunk_from l r ys.
  Proof.
    intros l run xs ys cs r H. unfold Model.chunk_from. rewrite feed_app, H.
    destruct (feed l r ys) as [cs' r']. rewrite app_assoc. reflexivity.
  Qed.

  (* chunk_resync, first half: chunking [a ++ b] when [a] ends on a boundary is the
     chunks of [a] followed by the chunks of [b] *)
  Theorem chunk_resync : forall l a b cs,
    feed l [] a = (cs, []) ->
    chunk_level l (a ++ b) = chunk_level l a ++ chunk_level l b.
  Proof.
    intros l a b cs H. unfold Model.chunk_level.
    rewrite (chunk_from_app l [] a b cs [] H).
    unfold Model.chunk_from at 2. rewrite H. cbn [Model.finish is_nil]. rewrite app_nil_r. reflexivity.
  Qed.

  (* chunk_resync, second half: once a re-chunking (of a different prefix a') closes
     a chunk where the old chunking (of a) had a boundary, the remainder t is chunked
     identically: the old chunks after that point can be reused unchanged *)
  Theorem chunk_resync_tail : forall l a a' t ca ca',
    feed l [] a = (ca, []) ->
    feed l [] a' = (ca', []) ->
    chunk_level l (a ++ t) = ca ++ chunk_level l t /\
    chunk_level l (a' ++ t) = ca' ++ chunk_level l t.
  Proof.
    intros l a a' t ca ca' H H'. unfold Model.chunk_level.
    rewrite (chunk_from_app l [] a t ca [] H), (chunk_from_app l [] a' t ca' [] H'). auto.
  Qed.

  (* and from the middle of a chunk: the continuation depends on the run only *)
  Theorem chunk_resync_run : forall l a a' t ca ca' r,
    feed l [] a = (ca, r) ->
    feed l [] a' = (ca', r) ->
    exists T, chunk_level l (a ++ t) = ca ++ T /\ chunk_level l (a' ++ t) = ca' ++ T.
  Proof.
    intros l a a' t ca ca' r H H'. exists (chunk_from l r t). unfold Model.chunk_level.
    rewrite (chunk_from_app l [] a t ca r H), (chunk_from_app l [] a' t ca' r H'). auto.
  Qed.

  (* nothing is lost or reordered *)
  Lemma feed_concat : forall l xs run cs r,
    feed l run xs = (cs, r) -> concat cs ++ r = run ++ xs.
  Proof.
    intros l xs; induction xs as [|x xs IH]; intros run cs r H; cbn [feed] in H.
    - inversion H; subst. cbn. rewrite app_nil_r. reflexivity.
    - destruct (append1 l run x) as [c1 r1] eqn:E1.
      destruct (feed l r1 xs) as [cs' r'] eqn:E2. inversion H; subst; clear H.
      apply IH in E2. rewrite concat_app, <- app_assoc, E2.
      unfold Model.append1 in E1.
      destruct (negb (is_nil run) && negb (fits l run x)) eqn:Eo;
        destruct (boundary l _ x && negb (degenerate item l _)) eqn:Eb;
        inversion E1; subst; cbn [concat app]; rewrite ?app_nil_r, <- ?app_assoc; reflexivity.
  Qed.

  Theorem chunk_level_concat : forall l xs, concat (chunk_level l xs) = xs.
  Proof.
    intros l xs. unfold Model.chunk_level, Model.chunk_from.
    destruct (feed l [] xs) as [cs r] eqn:E. apply feed_concat in E. cbn [app] in E.
    rewrite concat_app, <- E. f_equal. unfold Model.finish. destruct r; cbn; rewrite ?app_nil_r; reflexivity.
  Qed.

  (* ---------------- canonical chunk lists ---------------- *)
  Fixpoint canon (l : nat) (cs : list chunk) : Prop :=
    match cs with
    | [] => True
    | c :: rest =>
      match rest with
      | [] => chunk_from l [] c = finish c
      | _ => feed l [] c = ([c], []) /\ canon l rest
      end
    end.

  Hypothesis Hfits : no_overflow.

  Lemma append1_nf : forall l run x,
    append1 l run x =
    if boundary l run x && negb (degenerate item l (run ++ [x])) then ([run ++ [x]], []) else ([], run ++ [x]).
  Proof.
    intros. unfold Model.append1. rewrite Hfits. cbn [negb]. rewrite andb_false_r. reflexivity.
  Qed.

  Lemma feed_first_chunk : forall l xs run c cs r,
    feed l run xs = (c :: cs, r) ->
    exists p xs', xs = p ++ xs' /\ c = run ++ p /\ p <> [] /\ feed l run p = ([c], []) /\ feed l [] xs' = (cs, r).
  Proof.
    intros l xs; induction xs as [|x xs IH]; intros run c cs r H; cbn [feed] in H.
    - discriminate.
    - rewrite append1_nf in H.
      destruct (boundary l run x && negb (degenerate item l (run ++ [x]))) eqn:Eb.
      + destruct (feed l [] xs) as [cs' r'] eqn:E2. cbn [app] in H. inversion H; subst; clear H.
        exists [x], xs. split; [reflexivity|]. split; [reflexivity|]. split; [discriminate|]. split; [|exact E2].
        cbn [Model.feed]. rewrite append1_nf, Eb. reflexivity.
      + destruct (feed l (run ++ [x]) xs) as [cs' r'] eqn:E2. cbn [app] in H. inversion H; subst; clear H.
        destruct (IH _ _ _ _ E2) as (p & xs' & -> & -> & Hp & Hf & Hr).
        exists (x :: p), xs'. split; [reflexivity|]. split; [rewrite <- app_assoc; reflexivity|].
        split; [discriminate|]. split; [|exact Hr].
        cbn [Model.feed]. rewrite append1_nf, Eb, Hf. reflexivity.
  Qed.

  Lemma chunk_from_nil_single : forall l c, feed l [] c = ([c], []) -> chunk_from l [] c = [c].
  Proof. intros l c H. unfold Model.chunk_from. rewrite H. reflexivity. Qed.

  Lemma canon_feed : forall l cs xs r,
    feed l [] xs = (cs, r) -> canon l (cs ++ finish r).
  Proof.
    intros l cs; induction cs as [|c cs IH]; intros xs r H.
    - cbn [app]. pose proof (feed_concat _ _ _ _ _ H) as Hc. cbn in Hc. subst r.
      unfold Model.finish. destruct xs as [|x xs]; cbn [is_nil canon]; [exact Logic.I|].
      unfold Model.chunk_from. rewrite H. reflexivity.
    - destruct (feed_first_chunk _ _ _ _ _ _ H) as (p & xs' & -> & Hc & Hp & Hf & Hr).
      cbn [app] in Hc. subst c. specialize (IH _ _ Hr).
      cbn [app canon]. destruct (cs ++ finish r) eqn:E.
      + rewrite (chunk_from_nil_single _ _ Hf). unfold Model.finish. destruct p; [congruence|reflexivity].
      + split; assumption.
  Qed.

  Theorem chunk_level_canon : forall l xs, canon l (chunk_level l xs).
  Proof.
    intros l xs. unfold Model.chunk_level, Model.chunk_from.
    destruct (feed l [] xs) as [cs r] eqn:E. eapply canon_feed; eauto.
  Qed.

  (* ---------------- one level of the incremental path ---------------- *)
  Lemma all_keep_old_new : forall ops, all_keep item ops = true -> old_of item ops = new_of item ops.
  Proof.
    induction ops as [|o ops IH]; intro H; [reflexivity|].
    cbn [all_keep forallb] in H. apply andb_true_iff in H as [Ho H].
    destruct o; try discriminate. cbn [old_of new_of flat_map]. f_equal. apply IH, H.
  Qed.

  Lemma all_keep_nonempty : forall ops, all_keep item ops = true -> is_nil ops = false -> new_of item ops <> [].
  Proof.
    intros [|o ops] H Hn; [discriminate|]. cbn [all_keep forallb] in H.
    apply andb_true_iff in H as [Ho _]. destruct o; discriminate.
  Qed.

  Lemma is_nil_true : forall (A : Type) (l : list A), is_nil l = true -> l = [].
  Proof. intros A [|]; [reflexivity|discriminate]. Qed.

  Lemma canon_tail : forall l c rest, canon l (c :: rest) -> canon l rest.
  Proof. intros l c [|c' rest] H; [exact Logic.I|]. destruct H as [_ H]. exact H. Qed.

  (* For every old level that is canonical, every attribution of edits to old
     chunks, every state the chunker can be in: the chunks produced are the
     greedy chunking of the new item list from that state. *)
  Theorem rechunk_gen : forall l cops synced run,
    (synced = true -> run = []) ->
    canon l (map (old_of item) cops) ->
    fst (rechunk l synced run cops) = chunk_from l run (flat_map (new_of item) cops).
  Proof.
    intros l cops; induction cops as [|ops rest IH]; intros synced run Hs Hc.
    - cbn [rechunk fst flat_map]. unfold Model.chunk_from. reflexivity.
    - cbn [rechunk flat_map].
      destruct (synced && is_nil run && all_keep item ops && negb (is_nil ops)) eqn:Ec.
      + apply andb_true_iff in Ec as [Ec Hne]. apply andb_true_iff in Ec as [Ec Hk].
        apply andb_true_iff in Ec as [_ Hr]. apply is_nil_true in Hr. subst run.
        apply negb_true_iff in Hne.
        specialize (IH true [] (fun _ => eq_refl) (canon_tail _ _ _ Hc)).
        destruct (rechunk l true [] rest) as [cs ps] eqn:Er. cbn [fst] in *.
        rewrite <- (all_keep_old_new _ Hk).
        pose proof (all_keep_nonempty _ Hk Hne) as Hnn. rewrite <- (all_keep_old_new _ Hk) in Hnn.
        cbn [map canon] in Hc. destruct rest as [|ops' rest'].
        * cbn [map] in Hc. cbn [rechunk] in Er. inversion Er; subst. cbn [flat_map]. rewrite app_nil_r, Hc.
          unfold Model.finish. destruct (old_of item ops); [congruence|reflexivity].
        * cbn [map] in Hc. destruct Hc as [Hf _].
          rewrite (chunk_from_app l [] _ _ _ _ Hf). rewrite IH. reflexivity.
      + destruct (feed l run (new_of item ops)) as [emitted run'] eqn:Ef.
        assert (Hs' : last_is_keep item summ ops && is_nil run' = true -> run' = []).
        { intro H. apply andb_true_iff in H as [_ H]. apply is_nil_true, H. }
        specialize (IH _ run' Hs' (canon_tail _ _ _ Hc)).
        destruct (rechunk l (last_is_keep item summ ops && is_nil run') run' rest) as [cs ps] eqn:Er.
        cbn [fst] in *. rewrite (chunk_from_app l run _ _ _ _ Ef), IH. reflexivity.
  Qed.

  (* mutate_canonical for one level.
     FULL STATEMENT (all levels, in terms of trees): see [mutate_canonical] below /
     the report; this is the level-wise core: for every item list xs, every edit
     script over the chunks of [chunk_level l xs], incremental = from scratch. *)
  Theorem mutate_level : forall l xs cops,
    map (old_of item) cops = chunk_level l xs ->
    fst (rechunk l true [] cops) = chunk_level l (flat_map (new_of item) cops).
  Proof.
    intros l xs cops H. apply rechunk_gen; [reflexivity|]. rewrite H. apply chunk_level_canon.
  Qed.

  (* history independence of one level: two different old levels, two different
     edit scripts, same resulting items => same chunks *)
  Corollary level_history_independent : forall l xs1 xs2 cops1 cops2,
    map (old_of item) cops1 = chunk_level l xs1 ->
    map (old_of item) cops2 = chunk_level l xs2 ->
    flat_map (new_of item) cops1 = flat_map (new_of item) cops2 ->
    fst (rechunk l true [] cops1) = fst (rechunk l true [] cops2).
  Proof.
    intros l xs1 xs2 c1 c2 H1 H2 E. rewrite (mutate_level l xs1 c1 H1), (mutate_level l xs2 c2 H2), E. reflexivity.
  Qed.


  (* ======================================================================= *)
  (* All levels.                                                              *)
  Notation apply_levels := (apply_levels item boundary fits summ).
  Notation attach := (Model.attach item).
  Notation take_n := (Model.take_n item).
  Notation split_ops := (Model.split_ops item).
  Notation old_of := (Model.old_of item).
  Notation new_of := (Model.new_of item).

  Lemma new_of_app : forall a b, new_of (a ++ b) = new_of a ++ new_of b.
  Proof. intros. unfold Model.new_of. apply flat_map_app. Qed.
  Lemma old_of_app : forall a b, old_of (a ++ b) = old_of a ++ old_of b.
  Proof. intros. unfold Model.old_of. apply flat_map_app. Qed.

  Lemma attach_ins : forall (g : chunk -> item) xs E rest,
    attach E (map (fun c => PIns item (g c)) xs ++ rest) = map (fun c => I (g c)) xs ++ attach E rest.
  Proof. induction xs as [|x xs IH]; intros; cbn [map app Model.attach]; [reflexivity|]. rewrite IH. reflexivity. Qed.

  Lemma new_of_ins : forall (g : chunk -> item) xs, new_of (map (fun c => I (g c)) xs) = map g xs.
  Proof. induction xs as [|x xs IH]; [reflexivity|]. cbn [map]. change (new_of (I (g x) :: ?r)) with (g x :: new_of r). rewrite IH. reflexivity. Qed.
  Lemma old_of_ins : forall (g : chunk -> item) xs, old_of (map (fun c => I (g c)) xs) = [].
  Proof. induction xs as [|x xs IH]; [reflexivity|]. cbn [map]. change (old_of (I (g x) :: ?r)) with (old_of r). exact IH. Qed.

  (* the parent-script invariant: the script that [rechunk] hands to the next
     level rewrites the summaries of the old chunks into the summaries of the
     new chunks *)
  Lemma rechunk_script : forall l cops synced run cs ps,
    rechunk l synced run cops = (cs, ps) ->
    new_of (attach (map (summ l) (map old_of cops)) ps) = map (summ l) cs /\
    old_of (attach (map (summ l) (map old_of cops)) ps) = map (summ l) (map old_of cops).
  Proof.
    intros l cops; induction cops as [|ops rest IH]; intros synced run cs ps H; cbn [Model.rechunk] in H.
    - inversion H; subst; clear H. cbn [map].
      rewrite <- (app_nil_r (map _ (finish run))), attach_ins. cbn [Model.attach]. rewrite app_nil_r.
      rewrite new_of_ins, old_of_ins. split; reflexivity.
    - destruct (synced && is_nil run && all_keep item ops && negb (is_nil ops)).
      + destruct (rechunk l true [] rest) as [cs' ps'] eqn:Er. inversion H; subst; clear H.
        destruct (IH _ _ _ _ Er) as [Hn Ho]. cbn [map Model.attach].
        change (new_of (K ?x :: ?r)) with (x :: new_of r). change (old_of (K ?x :: ?r)) with (x :: old_of r).
        rewrite Hn, Ho. split; reflexivity.
      + destruct (feed l run (Model.new_of item ops)) as [emitted run'] eqn:Ef.
        destruct (rechunk l (last_is_keep item summ ops && is_nil run') run' rest) as [cs' ps'] eqn:Er.
        inversion H; subst; clear H. destruct (IH _ _ _ _ Er) as [Hn Ho].
        cbn [map]. rewrite attach_ins. cbn [Model.attach].
        rewrite new_of_app, old_of_app, new_of_ins, old_of_ins.
        change (new_of (D ?x :: ?r)) with (new_of r). change (old_of (D ?x :: ?r)) with (x :: old_of r).
        rewrite Hn, Ho, map_app. split; reflexivity.
  Qed.

  Lemma take_n_app : forall os n a b, take_n n os = (a, b) -> os = a ++ b.
  Proof.
    induction os as [|o os IH]; intros n a b H; cbn [Model.take_n] in H.
    - inversion H; reflexivity.
    - destruct n as [|n']; [inversion H; reflexivity|].
      destruct (take_n (match o with I _ => S n' | _ => n' end) os) as [a' b'] eqn:E.
      inversion H; subst. cbn [app]. f_equal. eapply IH; eauto.
  Qed.

  Lemma take_n_old : forall os n a b c rest,
    take_n n os = (a, b) -> old_of os = c ++ rest -> length c = n ->
    old_of a = c /\ old_of b = rest.
  Proof.
    induction os as [|o os IH]; intros n a b c rest H Ho Hl; cbn [Model.take_n] in H.
    - inversion H; subst. cbn in Ho. symmetry in Ho. apply app_eq_nil in Ho as [-> ->]. split; reflexivity.
    - destruct n as [|n'].
      + inversion H; subst. destruct c; [|discriminate]. split; [reflexivity|exact Ho].
      + destruct (take_n (match o with I _ => S n' | _ => n' end) os) as [a' b'] eqn:E.
        inversion H; subst; clear H. destruct o as [x|x|y].
        * change (old_of (K x :: os)) with (x :: old_of os) in Ho.
          destruct c as [|x0 c']; [discriminate|]. cbn [app] in Ho. inversion Ho; subst.
          cbn [length] in Hl. inversion Hl.
          destruct (IH _ _ _ c' rest E H1 H0) as [Ha Hb].
          change (old_of (K x0 :: a')) with (x0 :: old_of a'). rewrite Ha. split; [reflexivity|exact Hb].
        * change (old_of (D x :: os)) with (x :: old_of os) in Ho.
          destruct c as [|x0 c']; [discriminate|]. cbn [app] in Ho. inversion Ho; subst.
          cbn [length] in Hl. inversion Hl.
          destruct (IH _ _ _ c' rest E H1 H0) as [Ha Hb].
          change (old_of (D x0 :: a')) with (x0 :: old_of a'). rewrite Ha. split; [reflexivity|exact Hb].
        * change (old_of (I y :: os)) with (old_of os) in Ho.
          destruct (IH _ _ _ c rest E Ho Hl) as [Ha Hb].
          change (old_of (I y :: a')) with (old_of a'). split; assumption.
  Qed.

  Lemma split_new : forall U os, flat_map new_of (split_ops U os) = new_of os.
  Proof.
    induction U as [|c U IH]; intro os; cbn [Model.split_ops].
    - destruct os; [reflexivity|]. cbn [flat_map]. rewrite app_nil_r. reflexivity.
    - destruct U as [|c' U'].
      + cbn [flat_map]. rewrite app_nil_r. reflexivity.
      + destruct (take_n (length c) os) as [a b] eqn:E. cbn [flat_map]. rewrite IH.
        rewrite (take_n_app _ _ _ _ E) at 1. rewrite new_of_app. reflexivity.
  Qed.

  Lemma split_old : forall U os, U <> [] -> old_of os = concat U -> map old_of (split_ops U os) = U.
  Proof.
    induction U as [|c U IH]; intros os Hne Ho; [congruence|]. cbn [Model.split_ops].
    destruct U as [|c' U'].
    - cbn [concat] in Ho. rewrite app_nil_r in Ho. cbn [map]. rewrite Ho. reflexivity.
    - destruct (take_n (length c) os) as [a b] eqn:E. cbn [concat] in Ho.
      destruct (take_n_old _ _ _ _ c _ E Ho eq_refl) as [Ha Hb].
      cbn [map]. rewrite Ha. f_equal. apply IH; [discriminate|exact Hb].
  Qed.

  Lemma split_len_top : forall os, (length (split_ops [] os) <= 1)%nat.
  Proof. intros [|o os]; cbn; lia. Qed.

  (* well-formed old levels (from level l upwards): every level is a canonical
     chunking, a level has a parent exactly when it has at least two chunks, and
     the parent's items are the summaries of its chunks *)
  Fixpoint wf (l : nat) (old : list (list chunk)) : Prop :=
    match old with
    | [] => True
    | L :: up =>
      canon l L /\
      match up with
      | [] => (length L <= 1)%nat
      | U :: _ => (2 <= length L)%nat /\ concat U = map (summ l) L /\ wf (S l) up
      end
    end.

  Lemma canon_single_internal : forall l E, (length E <= 1)%nat -> canon (S l) [E].
  Proof.
    intros l [|x [|y E]] H; cbn [canon].
    - reflexivity.
    - unfold Model.chunk_from. cbn [Model.feed]. rewrite append1_nf. cbn [app degenerate negb].
      rewrite andb_false_r. reflexivity.
    - cbn in H. lia.
  Qed.

  (* mutate_canonical over all levels, in terms of edit scripts: the incremental
     path produces, level by level, exactly what building from scratch produces *)
  Theorem apply_levels_spec : forall f l old cops,
    wf l (map old_of cops :: tl old) ->
    apply_levels f l old cops = build_levels f l (flat_map new_of cops).
  Proof.
    induction f as [|f IH]; intros l old cops Hwf.
    - cbn [Model.apply_levels Model.build_levels].
      destruct (rechunk l true [] cops) as [cs ps] eqn:Er.
      pose proof (rechunk_gen l cops true [] (fun _ => eq_refl) (proj1 Hwf)) as Hg. rewrite Er in Hg. cbn [fst] in Hg.
      fold (chunk_level l (flat_map new_of cops)) in Hg. rewrite <- Hg.
      destruct cs as [|c [|c' cs']]; reflexivity.
    - cbn [Model.apply_levels Model.build_levels].
      destruct (rechunk l true [] cops) as [cs ps] eqn:Er.
      pose proof (rechunk_gen l cops true [] (fun _ => eq_refl) (proj1 Hwf)) as Hg. rewrite Er in Hg. cbn [fst] in Hg.
      fold (chunk_level l (flat_map new_of cops)) in Hg. rewrite <- Hg.
      destruct cs as [|c [|c' cs']]; try reflexivity.
      f_equal.
      destruct (rechunk_script _ _ _ _ _ _ Er) as [Hn Ho].
      set (os := attach (map (summ l) (map old_of cops)) ps) in *.
      rewrite IH; [rewrite split_new, Hn; reflexivity|].
      destruct Hwf as [Hc Hup]. destruct (tl old) as [|U up] eqn:Et.
      + (* no old parent level: at most one old chunk here *)
        cbn [hd tl]. destruct os as [|o os'] eqn:Eos.
        * cbn [Model.split_ops map wf canon]. split; [exact Logic.I|cbn; lia].
        * cbn [Model.split_ops map wf]. split; [|cbn; lia].
          rewrite Ho. apply canon_single_internal. rewrite !map_length in *. exact Hup.
      + destruct Hup as [H2 [Hcat Hw]]. cbn [hd tl].
        assert (HU : U <> []).
        { intro; subst U. cbn in Hcat. symmetry in Hcat. apply map_eq_nil in Hcat. rewrite Hcat in H2. cbn in H2. lia. }
        rewrite split_old; [exact Hw|exact HU|]. rewrite Ho, Hcat. reflexivity.
  Qed.

  Lemma build_levels_hd : forall f l xs, exists up, build_levels f l xs = chunk_level l xs :: up.
  Proof.
    intros [|f] l xs; cbn [Model.build_levels]; destruct (chunk_level l xs) as [|c [|c' cs']]; eexists; reflexivity.
  Qed.

  Lemma build_wf : forall f l xs,
    is_tree item (build_levels f l xs) = true -> wf l (build_levels f l xs).
  Proof.
    induction f as [|f IH]; intros l xs Ht; cbn [Model.build_levels] in *;
      pose proof (chunk_level_canon l xs) as Hc;
      destruct (chunk_level l xs) as [|c [|c' cs']] eqn:E; cbn [wf].
    - split; [exact Logic.I|cbn; lia].
    - split; [exact Hc|cbn; lia].
    - cbn in Ht. discriminate.
    - split; [exact Logic.I|cbn; lia].
    - split; [exact Hc|cbn; lia].
    - destruct (build_levels_hd f (S l) (map (summ l) (c :: c' :: cs'))) as [up Hup].
      assert (Ht' : is_tree item (build_levels f (S l) (map (summ l) (c :: c' :: cs'))) = true).
      { rewrite Hup in *. exact Ht. }
      specialize (IH _ _ Ht'). rewrite Hup in *.
      split; [exact Hc|]. split; [cbn; lia|]. split; [apply chunk_level_concat|exact IH].
  Qed.

  (* ---------------- leaf level: sorted key edits ---------------- *)
  Variable key_of : item -> N.
  Variable item_eqb : item -> item -> bool.
  Notation merge_ops := (Model.merge_ops item key_of item_eqb).
  Notation cops_of_edits := (Model.cops_of_edits item key_of item_eqb).
  Notation span_le := (Model.span_le item key_of).
  Notation last_key := (Model.last_key item key_of).
  Notation ekey := (Model.ekey item key_of).
  Notation apply_edits := (Model.apply_edits item key_of item_eqb).
  Notation apply_mutations := (Model.apply_mutations item boundary fits summ key_of item_eqb).
  Notation edit := (Model.edit item).

  Definition ins (e : edit) : list (op item) := match e with Put y => [I y] | Del _ => [] end.
  Definition hit (e : edit) (x : item) : list (op item) :=
    match e with Put y => if item_eqb x y then [K x] else [D x; I y] | Del _ => [D x] end.

  Lemma merge_ops_nil : forall xs, merge_ops [] xs = map K xs.
  Proof. intros [|x xs]; reflexivity. Qed.
  Lemma merge_ops_e_nil : forall e es, merge_ops (e :: es) [] = ins e ++ merge_ops es [].
  Proof. reflexivity. Qed.
  Lemma merge_ops_cons : forall e es x xs,
    merge_ops (e :: es) (x :: xs) =
    if (key_of x <? ekey e)%N then K x :: merge_ops (e :: es) xs
    else if (key_of x =? ekey e)%N then hit e x ++ merge_ops es xs
    else ins e ++ merge_ops es (x :: xs).
  Proof. reflexivity. Qed.

  Lemma old_of_mapK : forall xs : list item, old_of (map K xs) = xs.
  Proof. induction xs as [|x xs IH]; [reflexivity|]. cbn [map]. change (old_of (K x :: ?r)) with (x :: old_of r). rewrite IH. reflexivity. Qed.
  Lemma new_of_mapK : forall xs : list item, new_of (map K xs) = xs.
  Proof. induction xs as [|x xs IH]; [reflexivity|]. cbn [map]. change (new_of (K x :: ?r)) with (x :: new_of r). rewrite IH. reflexivity. Qed.
  Lemma old_of_insE : forall e, old_of (ins e) = [].
  Proof. intros [y|k]; reflexivity. Qed.
  Lemma old_of_hit : forall e x, old_of (hit e x) = [x].
  Proof. intros [y|k] x; cbn [hit]; [destruct (item_eqb x y)|]; reflexivity. Qed.

  Lemma merge_ops_old : forall es xs, old_of (merge_ops es xs) = xs.
  Proof.
    induction es as [|e es IHe]; intro xs.
    - rewrite merge_ops_nil. apply old_of_mapK.
    - induction xs as [|x xs IHx].
      + rewrite merge_ops_e_nil, old_of_app, old_of_insE, IHe. reflexivity.
      + rewrite merge_ops_cons. destruct (key_of x <? ekey e)%N; [|destruct (key_of x =? ekey e)%N].
        * change (old_of (K x :: ?r)) with (x :: old_of r). rewrite IHx. reflexivity.
        * rewrite old_of_app, old_of_hit, IHe. reflexivity.
        * rewrite old_of_app, old_of_insE, IHe. reflexivity.
  Qed.

  Lemma cops_old : forall cs es, cs <> [] -> map old_of (cops_of_edits cs es) = cs.
  Proof.
    induction cs as [|c cs IH]; intros es Hne; [congruence|]. cbn [Model.cops_of_edits].
    destruct cs as [|c' cs'].
    - cbn [map]. rewrite merge_ops_old. reflexivity.
    - destruct (span_le (last_key c) es) as [e1 e2]. cbn [map]. rewrite merge_ops_old. f_equal.
      apply IH. discriminate.
  Qed.

  (* strictly increasing keys *)
  Fixpoint inc (ks : list N) : Prop :=
    match ks with
    | [] => True
    | k :: ks' => Forall (N.lt k) ks' /\ inc ks'
    end.

  Lemma merge_split : forall k e2 rest e1 c,
    Forall (fun e => (ekey e <= k)%N) e1 -> Forall (fun x => (key_of x <= k)%N) c ->
    Forall (fun e => (k < ekey e)%N) e2 -> Forall (fun x => (k < key_of x)%N) rest ->
    merge_ops (e1 ++ e2) (c ++ rest) = merge_ops e1 c ++ merge_ops e2 rest.
  Proof.
    intros k e2 rest. induction e1 as [|e e1 IHe]; intro c; induction c as [|x c IHc]; intros H1 Hc H2 Hr.
    - cbn [app]. rewrite merge_ops_nil. reflexivity.
    - cbn [app]. inversion Hc as [|? ? Hx Hc']; subst. rewrite merge_ops_nil. cbn [map app].
      destruct e2 as [|e e2'].
      + rewrite !merge_ops_nil. cbn [map]. rewrite map_app. reflexivity.
      + inversion H2 as [|? ? He H2']; subst. rewrite merge_ops_cons.
        rewrite (proj2 (N.ltb_lt _ _)) by lia.
        specialize (IHc H1 Hc' H2 Hr). cbn [app] in IHc. rewrite IHc, merge_ops_nil. reflexivity.
    - cbn [app]. inversion H1 as [|? ? He H1']; subst. rewrite merge_ops_e_nil.
      destruct rest as [|y rest'].
      + rewrite merge_ops_e_nil. specialize (IHe [] H1' Hc H2 Hr). cbn [app] in IHe. rewrite IHe.
        rewrite app_assoc. reflexivity.
      + inversion Hr as [|? ? Hy Hr']; subst. rewrite merge_ops_cons.
        rewrite (proj2 (N.ltb_ge _ _)) by lia. rewrite (proj2 (N.eqb_neq _ _)) by lia.
        specialize (IHe [] H1' Hc H2 Hr). cbn [app] in IHe. rewrite IHe, app_assoc. reflexivity.
    - inversion H1 as [|? ? He H1']; inversion Hc as [|? ? Hx Hc']; subst.
      change ((e :: e1) ++ e2) with (e :: (e1 ++ e2)). change ((x :: c) ++ rest) with (x :: (c ++ rest)).
      rewrite !merge_ops_cons.
      destruct (key_of x <? ekey e)%N; [|destruct (key_of x =? ekey e)%N].
      + specialize (IHc H1 Hc' H2 Hr). change ((e :: e1) ++ e2) with (e :: (e1 ++ e2)) in IHc. rewrite IHc. reflexivity.
      + rewrite (IHe c H1' Hc' H2 Hr), app_assoc. reflexivity.
      + specialize (IHe (x :: c) H1' Hc H2 Hr). change ((x :: c) ++ rest) with (x :: (c ++ rest)) in IHe.
        rewrite IHe, app_assoc. reflexivity.
  Qed.

  Lemma span_le_spec : forall k es e1 e2,
    span_le k es = (e1, e2) -> inc (map ekey es) ->
    es = e1 ++ e2 /\ Forall (fun e => (ekey e <= k)%N) e1 /\ Forall (fun e => (k < ekey e)%N) e2 /\ inc (map ekey e2).
  Proof.
    intros k es; induction es as [|e es IH]; intros e1 e2 H Hi; cbn [Model.span_le] in H.
    - inversion H; subst. repeat split; constructor.
    - destruct (ekey e <=? k)%N eqn:E.
      + destruct (span_le k es) as [a b] eqn:Es. inversion H; subst; clear H.
        destruct Hi as [_ Hi]. destruct (IH _ _ eq_refl Hi) as (-> & Ha & Hb & Hib).
        apply N.leb_le in E. repeat split; auto.
      + inversion H; subst; clear H. apply N.leb_gt in E. destruct Hi as [Hf Hi].
        split; [reflexivity|]. split; [constructor|]. split; [|split; assumption].
        constructor; [exact E|]. cbn [map] in *. rewrite Forall_map in Hf.
        eapply Forall_impl; [|exact Hf]. intros a Ha. cbn in Ha. lia.
  Qed.

  Lemma last_key_cons : forall x y c, last_key (x :: y :: c) = last_key (y :: c).
  Proof.
    intros x y c. unfold Model.last_key. cbn [rev]. destruct (rev c ++ [y]) eqn:E.
    - destruct (rev c); discriminate.
    - reflexivity.
  Qed.

  Lemma chunk_key_bounds : forall c rest, c <> [] -> inc (map key_of (c ++ rest)) ->
    Forall (fun x => (key_of x <= last_key c)%N) c /\
    Forall (fun x => (last_key c < key_of x)%N) rest /\ inc (map key_of rest).
  Proof.
    induction c as [|x c IH]; intros rest Hne Hi; [congruence|].
    destruct c as [|y c'].
    - cbn [app map inc] in Hi. destruct Hi as [Hf Hi]. unfold Model.last_key. cbn [rev app].
      split; [constructor; [lia|constructor]|]. split; [|exact Hi]. rewrite Forall_map in Hf. exact Hf.
    - rewrite last_key_cons. cbn [app map inc] in Hi. destruct Hi as [Hf Hi].
      destruct (IH rest ltac:(discriminate) Hi) as (Hc & Hr & Hir).
      split; [|split; assumption]. constructor; [|exact Hc].
      inversion Hf as [|? ? Hxy _]; subst. inversion Hc as [|? ? Hy _]; subst. lia.
  Qed.

  (* the per-chunk attribution of the edits is the sorted-dictionary update *)
  Lemma cops_new : forall cs es,
    Forall (fun c => c <> []) cs -> inc (map key_of (concat cs)) -> inc (map ekey es) ->
    flat_map new_of (cops_of_edits cs es) = apply_edits es (concat cs).
  Proof.
    unfold Model.apply_edits.
    induction cs as [|c cs IH]; intros es Hne Hi He; cbn [Model.cops_of_edits].
    - destruct es; [reflexivity|]. cbn [flat_map concat]. rewrite app_nil_r. reflexivity.
    - destruct cs as [|c' cs'].
      + cbn [flat_map concat]. rewrite !app_nil_r. reflexivity.
      + destruct (span_le (last_key c) es) as [e1 e2] eqn:Es.
        destruct (span_le_spec _ _ _ _ Es He) as (-> & H1 & H2 & Hi2).
        inversion Hne as [|? ? Hc Hne']; subst.
        change (concat (c :: c' :: cs')) with (c ++ concat (c' :: cs')) in *.
        destruct (chunk_key_bounds _ _ Hc Hi) as (Hcb & Hrb & Hir).
        cbn [flat_map]. rewrite (IH e2 Hne' Hir Hi2).
        rewrite (merge_split _ _ _ _ _ H1 Hcb H2 Hrb), new_of_app. reflexivity.
  Qed.

  Lemma feed_nonempty : forall l xs run cs r, feed l run xs = (cs, r) -> Forall (fun c => c <> []) cs.
  Proof.
    intros l xs; induction xs as [|x xs IH]; intros run cs r H; cbn [Model.feed] in H.
    - inversion H; constructor.
    - rewrite append1_nf in H.
      destruct (boundary l run x && negb (degenerate item l (run ++ [x]))).
      + destruct (feed l [] xs) as [cs' r'] eqn:E. inversion H; subst. cbn [app]. constructor; [|eapply IH; eauto].
        destruct run; discriminate.
      + destruct (feed l (run ++ [x]) xs) as [cs' r'] eqn:E. inversion H; subst. cbn [app]. eapply IH; eauto.
  Qed.

  Lemma chunk_level_nonempty : forall l xs, Forall (fun c => c <> []) (chunk_level l xs).
  Proof.
    intros l xs. unfold Model.chunk_level, Model.chunk_from. destruct (feed l [] xs) as [cs r] eqn:E.
    apply Forall_app. split; [eapply feed_nonempty; eauto|].
    unfold Model.finish. destruct r; cbn [is_nil]; constructor; [discriminate|constructor].
  Qed.

  (* mutate_canonical, script form: no sortedness needed *)
  Theorem mutate_canonical_script : forall xs es,
    is_tree item (build xs) = true ->
    apply_mutations (build xs) es =
    build (flat_map new_of (cops_of_edits (chunk_level 0 xs) es)).
  Proof.
    intros xs es Ht. unfold Model.apply_mutations.
    destruct (build_levels_hd (length xs) 0 xs) as [up Hup].
    assert (Hb : build xs = chunk_level 0 xs :: up) by exact Hup.
    cbv zeta. rewrite Hb at 1 2 3. cbn [hd].
    rewrite apply_levels_spec; [reflexivity|]. cbn [tl].
    destruct (chunk_level 0 xs) as [|c cs] eqn:E.
    - assert (up = []).
      { unfold Model.build in Hb. destruct (length xs); cbn [Model.build_levels] in Hb; rewrite E in Hb; inversion Hb; reflexivity. }
      subst up. cbn [Model.cops_of_edits]. destruct es as [|e es].
      + cbn [map wf canon]. split; [exact Logic.I|cbn; lia].
      + cbn [map wf]. rewrite merge_ops_old. split; [reflexivity|cbn; lia].
    - rewrite cops_old by discriminate. rewrite <- Hb. apply build_wf. exact Ht.
  Qed.


  (* ---------------- the fuel of [build] is always enough ---------------- *)
  Lemma len_concat_ge : forall (cs : list chunk) n,
    Forall (fun c => (n <= length c)%nat) cs -> (n * length cs <= length (concat cs))%nat.
  Proof.
    induction cs as [|c cs IH]; intros n H; cbn [concat length]; [lia|].
    inversion H; subst. rewrite app_length. specialize (IH n H3). lia.
  Qed.

  Lemma feed_min2 : forall l xs run cs r,
    feed (S l) run xs = (cs, r) -> Forall (fun c => (2 <= length c)%nat) cs.
  Proof.
    intros l xs; induction xs as [|x xs IH]; intros run cs r H; cbn [Model.feed] in H.
    - inversion H; constructor.
    - rewrite append1_nf in H.
      destruct (boundary (S l) run x && negb (degenerate item (S l) (run ++ [x]))) eqn:Eb.
      + destruct (feed (S l) [] xs) as [cs' r'] eqn:E. inversion H; subst. cbn [app]. constructor; [|eapply IH; eauto].
        apply andb_true_iff in Eb as [_ Eb]. apply negb_true_iff in Eb.
        destruct run as [|a [|b run']]; cbn in *; try discriminate; rewrite ?app_length; cbn; lia.
      + destruct (feed (S l) (run ++ [x]) xs) as [cs' r'] eqn:E. inversion H; subst. cbn [app]. eapply IH; eauto.
  Qed.

  Lemma chunk_level_len : forall l xs, (length (chunk_level l xs) <= length xs)%nat.
  Proof.
    intros l xs. unfold Model.chunk_level, Model.chunk_from. destruct (feed l [] xs) as [cs r] eqn:E.
    pose proof (feed_concat _ _ _ _ _ E) as Hc. cbn [app] in Hc.
    pose proof (feed_nonempty _ _ _ _ _ E) as Hn.
    assert (Hn1 : Forall (fun c : chunk => (1 <= length c)%nat) cs).
    { eapply Forall_impl; [|exact Hn]. intros [|a c] Ha; [congruence|cbn; lia]. }
    pose proof (len_concat_ge _ _ Hn1) as Hl.
    rewrite <- Hc, !app_length. unfold Model.finish. unfold Model.chunk in *. destruct r; cbn [is_nil length]; lia.
  Qed.

  Lemma chunk_level_shrinks : forall l xs, (2 <= length xs)%nat ->
    (length (chunk_level (S l) xs) < length xs)%nat.
  Proof.
    intros l xs H2. unfold Model.chunk_level, Model.chunk_from. destruct (feed (S l) [] xs) as [cs r] eqn:E.
    pose proof (feed_concat _ _ _ _ _ E) as Hc. cbn [app] in Hc.
    pose proof (len_concat_ge _ _ (feed_min2 _ _ _ _ _ E)) as Hl.
    rewrite <- Hc in *. rewrite !app_length in *. unfold Model.finish. unfold Model.chunk in *. destruct r; cbn [is_nil length] in *; lia.
  Qed.

  Lemma build_levels_is_tree : forall f l xs,
    (match l with O => length xs <= f | S _ => length xs <= S f end)%nat ->
    is_tree item (build_levels f l xs) = true.
  Proof.
    induction f as [|f IH]; intros l xs Hf; cbn [Model.build_levels];
      pose proof (chunk_level_len l xs) as Hlen;
      destruct (chunk_level l xs) as [|c [|c' cs']] eqn:E; try reflexivity.
    - cbn [length] in Hlen. destruct l; lia.
    - destruct (build_levels_hd f (S l) (map (summ l) (c :: c' :: cs'))) as [up Hup].
      assert (Hi : is_tree item (build_levels f (S l) (map (summ l) (c :: c' :: cs'))) = true).
      { apply IH. rewrite map_length. unfold Model.chunk in *. cbn [length] in *. destruct l as [|l'].
        - lia.
        - pose proof (chunk_level_shrinks l' xs) as Hs. rewrite E in Hs. unfold Model.chunk in *. cbn [length] in *. lia. }
      rewrite Hup in *. exact Hi.
  Qed.

  Theorem build_is_tree : forall xs, is_tree item (build xs) = true.
  Proof. intro xs. unfold Model.build. apply build_levels_is_tree. lia. Qed.

  (* mutate_canonical (DESIGN Appendix A), full strength over all levels: for every
     sorted item list and every sorted edit list, applying the edits incrementally
     to the tree of xs = building the tree of the edited list — every chunk of
     every level, hence the root. *)
  Theorem mutate_canonical : forall xs es,
    inc (map key_of xs) -> inc (map ekey es) ->
    apply_mutations (build xs) es = build (apply_edits es xs).
  Proof.
    intros xs es Hx He. rewrite mutate_canonical_script by apply build_is_tree.
    rewrite cops_new; [rewrite chunk_level_concat; reflexivity|apply chunk_level_nonempty| |exact He].
    rewrite chunk_level_concat. exact Hx.
  Qed.

  (* history independence, pairwise: different starting contents, different edit
     batches, same resulting content => the same tree *)
  Corollary history_independent : forall xs1 xs2 es1 es2,
    inc (map key_of xs1) -> inc (map key_of xs2) -> inc (map ekey es1) -> inc (map ekey es2) ->
    apply_edits es1 xs1 = apply_edits es2 xs2 ->
    apply_mutations (build xs1) es1 = apply_mutations (build xs2) es2.
  Proof. intros. rewrite !mutate_canonical by assumption. congruence. Qed.

  (* equal trees have equal roots and equal chunk sets: with the chunk address a
     function of the chunk (summ), nothing more is needed for "same root hash" *)
  Corollary same_tree_same_root : forall t1 t2 : list (list chunk),
    t1 = t2 -> root_item item summ t1 = root_item item summ t2 /\ all_chunks item t1 = all_chunks item t2.
  Proof. intros; subst; split; reflexivity. Qed.

  (* ---------------- the edited list stays sorted ---------------- *)
  Notation keys := (map key_of).

  Lemma new_of_hit_keys : forall e x, (key_of x = ekey e) ->
    Forall (fun k => k = ekey e) (keys (new_of (hit e x))).
  Proof.
    intros [y|k] x H; cbn [hit].
    - destruct (item_eqb x y); cbn; repeat constructor; auto.
    - cbn. constructor.
  Qed.
  Lemma new_of_ins_keys : forall e, Forall (fun k => k = ekey e) (keys (new_of (ins e))).
  Proof. intros [y|k]; cbn; repeat constructor. Qed.

  Lemma lt_trans_all : forall k k' ks, (k <= k')%N -> Forall (N.lt k') ks -> Forall (N.lt k) ks.
  Proof. intros k k' ks H Hf. eapply Forall_impl; [|exact Hf]. intros a Ha. cbn in *. lia. Qed.

  Lemma merge_lb : forall k es xs,
    Forall (N.lt k) (keys xs) -> Forall (N.lt k) (map ekey es) ->
    Forall (N.lt k) (keys (new_of (merge_ops es xs))).
  Proof.
    intros k es; induction es as [|e es IHe]; intro xs.
    - intros Hx _. rewrite merge_ops_nil, new_of_mapK. exact Hx.
    - induction xs as [|x xs IHx]; intros Hx He; inversion He as [|? ? Hk He']; subst.
      + rewrite merge_ops_e_nil, new_of_app, map_app. apply Forall_app. split; [|apply IHe; [constructor|exact He']].
        eapply Forall_impl; [|apply new_of_ins_keys]. intros a ->. exact Hk.
      + inversion Hx as [|? ? Hkx Hx']; subst. rewrite merge_ops_cons.
        destruct (key_of x <? ekey e)%N; [|destruct (key_of x =? ekey e)%N eqn:Eq].
        * change (new_of (K x :: ?r)) with (x :: new_of r). cbn [map]. constructor; [exact Hkx|]. apply IHx; assumption.
        * rewrite new_of_app, map_app. apply Forall_app. split; [|apply IHe; assumption].
          apply N.eqb_eq in Eq. eapply Forall_impl; [|apply (new_of_hit_keys e x Eq)]. intros a ->. exact Hk.
        * rewrite new_of_app, map_app. apply Forall_app. split; [|apply IHe; assumption].
          eapply Forall_impl; [|apply new_of_ins_keys]. intros a ->. exact Hk.
  Qed.

  Lemma inc_single_prefix : forall k pre rest,
    Forall (fun a => a = k) pre -> (length pre <= 1)%nat -> Forall (N.lt k) rest -> inc rest -> inc (pre ++ rest).
  Proof.
    intros k [|a [|b pre]] rest Hp Hl Hr Hi; cbn [app inc]; [exact Hi| |cbn in Hl; lia].
    inversion Hp; subst. split; assumption.
  Qed.

  Lemma new_of_hit_len : forall e x, (length (new_of (hit e x)) <= 1)%nat.
  Proof. intros [y|k] x; cbn [hit]; [destruct (item_eqb x y)|]; cbn; lia. Qed.
  Lemma new_of_ins_len : forall e, (length (new_of (ins e)) <= 1)%nat.
  Proof. intros [y|k]; cbn; lia. Qed.

  Lemma merge_inc : forall es xs, inc (map ekey es) -> inc (keys xs) -> inc (keys (apply_edits es xs)).
  Proof.
    unfold Model.apply_edits.
    induction es as [|e es IHe]; intro xs.
    - intros _ Hx. rewrite merge_ops_nil, new_of_mapK. exact Hx.
    - induction xs as [|x xs IHx]; intros He Hx; destruct He as [Hef Hei].
      + rewrite merge_ops_e_nil, new_of_app, map_app.
        apply (inc_single_prefix (ekey e)); [apply new_of_ins_keys|rewrite map_length; apply new_of_ins_len| |apply IHe; [exact Hei|exact Logic.I]].
        apply merge_lb; [constructor|exact Hef].
      + destruct Hx as [Hxf Hxi]. rewrite merge_ops_cons.
        destruct (key_of x <? ekey e)%N eqn:E1; [|destruct (key_of x =? ekey e)%N eqn:E2].
        * apply N.ltb_lt in E1. change (new_of (K x :: ?r)) with (x :: new_of r). cbn [map inc]. split.
          -- apply merge_lb; [exact Hxf|]. cbn [map]. constructor; [exact E1|]. eapply lt_trans_all; [|exact Hef]. lia.
          -- apply IHx; [split; assumption|exact Hxi].
        * apply N.eqb_eq in E2. rewrite new_of_app, map_app.
          apply (inc_single_prefix (ekey e)); [apply new_of_hit_keys; exact E2|rewrite map_length; apply new_of_hit_len| |apply IHe; assumption].
          apply merge_lb; [rewrite <- E2; exact Hxf|exact Hef].
        * apply N.ltb_ge in E1. apply N.eqb_neq in E2. rewrite new_of_app, map_app.
          apply (inc_single_prefix (ekey e)); [apply new_of_ins_keys|rewrite map_length; apply new_of_ins_len| |apply IHe; [exact Hei|split; assumption]].
          apply merge_lb; [|exact Hef]. cbn [map]. constructor; [lia|]. eapply lt_trans_all; [|exact Hxf]. lia.
  Qed.

  (* whole histories: any sequence of sorted edit batches, from any sorted start *)
  Theorem history_canonical : forall (h : list (list edit)) xs,
    Forall (fun es => inc (map ekey es)) h -> inc (keys xs) ->
    fold_left apply_mutations h (build xs) = build (fold_left (fun ys es => apply_edits es ys) h xs).
  Proof.
    induction h as [|es h IH]; intros xs Hh Hx; [reflexivity|].
    inversion Hh; subst. cbn [fold_left].
    rewrite mutate_canonical; [|exact Hx|assumption].
    apply IH; [assumption|apply merge_inc; assumption].
  Qed.

  (* history_independent as in the design: two histories from the empty tree that
     end in the same content give the same tree (all chunks of all levels, root) *)
  Corollary history_independent_fold : forall h1 h2 : list (list edit),
    Forall (fun es => inc (map ekey es)) h1 -> Forall (fun es => inc (map ekey es)) h2 ->
    fold_left (fun ys es => apply_edits es ys) h1 [] = fold_left (fun ys es => apply_edits es ys) h2 [] ->
    fold_left apply_mutations h1 (build []) = fold_left apply_mutations h2 (build []).
  Proof.
    intros h1 h2 H1 H2 E. rewrite !history_canonical by (assumption || exact Logic.I). rewrite E. reflexivity.
  Qed.

End Proofs.

(* Without [no_overflow] the statement is false: a boundary forced *before* an
   item (hasCapacity) depends on the item that follows the chunk, which the
   re-chunking never looks at when that item is the first of its own chunk.
   Witness: items are numbers, the splitter never fires, items >= 100 never fit
   into a non-empty run.  Old level [1;2;100;3] = chunks [[1;2];[100;3]];
   deleting 100 re-feeds only the second chunk: [[1;2];[3]], but the content
   [1;2;3] chunks as [[1;2;3]].  The real code behaves the same way (C12 report:
   delete of a row whose value is ~65 KB). *)
Theorem mutate_canonical_refuted :
  exists (boundary fits : nat -> list N -> N -> bool) (summ : nat -> list N -> N)
         (xs : list N) (cops : list (list (op N))),
    map (old_of N) cops = chunk_level N boundary fits 0 xs /\
    fst (rechunk N boundary fits summ 0 true [] cops)
      <> chunk_level N boundary fits 0 (flat_map (new_of N) cops).
Proof.
  exists (fun _ _ _ => false), (fun _ _ x => N.ltb x 100), (fun _ _ => 0%N),
         [1; 2; 100; 3]%N, [[K 1; K 2]; [D 100; K 3]]%N.
  split; [vm_compute; reflexivity | vm_compute; discriminate].
Qed.
