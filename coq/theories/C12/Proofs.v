(* C12 — proofs.  Everything is for EVERY boundary function, summary function,
   item list and edit script; the only hypothesis is [no_overflow] (stated where
   used): nodeBuilder.hasCapacity never fails, i.e. no forced size boundary
   *before* an item.  Without it the statement is false in the model
   ([mutate_level_refuted]) and in the real code (see the C12 report). *)
From Coq Require Import NArith List Bool Lia.
From Dolt Require Import C12.Model.
Import ListNotations.

Section Proofs.
  Variable item : Type.
  Variable boundary : nat -> list item -> item -> bool.
  Variable fits : nat -> list item -> item -> bool.
  Variable summ : nat -> list item -> item.

  Notation feed := (feed item boundary fits).
  Notation append1 := (append1 item boundary fits).
  Notation chunk_from := (chunk_from item boundary fits).
  Notation chunk_level := (chunk_level item boundary fits).
  Notation rechunk := (rechunk item boundary fits summ).
  Notation build_levels := (build_levels item boundary fits summ).
  Notation build := (build item boundary fits summ).
  Notation chunk := (list item).
  Notation finish := (Model.finish item).

  Definition no_overflow : Prop := forall l r x, fits l r x = true.

  (* ---------------- the splitter state is the run: streams compose ---------------- *)
  Lemma feed_app : forall l xs ys run,
    feed l run (xs ++ ys) =
    let '(cs, r) := feed l run xs in
    let '(cs', r') := feed l r ys in (cs ++ cs', r').
  Proof.
    intros l xs; induction xs as [|x xs IH]; intros ys run; cbn [feed app].
    - destruct (feed l run ys) as [cs' r']; reflexivity.
    - destruct (append1 l run x) as [c1 r1].
      rewrite IH. destruct (feed l r1 xs) as [cs r].
      destruct (feed l r ys) as [cs' r']. rewrite app_assoc. reflexivity.
  Qed.

  Lemma chunk_from_app : forall l run xs ys cs r,
    feed l run xs = (cs, r) ->
    chunk_from l run (xs ++ ys) = cs ++ chunk_from l r ys.
  Proof.
    intros l run xs ys cs r H. unfold Model.chunk_from. rewrite feed_app, H.
    destruct (feed l r ys) as [cs' r']. rewrite app_assoc. reflexivity.
  Qed.

  (* chunk_resync, first half: chunking [a ++ b] when [a] ends on a boundary is the
     chunks of [a] followed by the chunks of [b] *)
  Theorem chunk_resync : forall l a b cs,
    feed l [] a = (cs, []) ->
    chunk_level l (a ++ b) = chunk_level l a ++ chunk_level l b.
  Proof.
    intros l a b cs H. unfold Model.chunk_level.
    rewrite (chunk_from_app l [] a b cs [] H).
    unfold Model.chunk_from at 2. rewrite H. cbn [Model.finish is_nil]. rewrite app_nil_r. reflexivity.
  Qed.

  (* chunk_resync, second half: once a re-chunking (of a different prefix a') closes
     a chunk where the old chunking (of a) had a boundary, the remainder t is chunked
     identically: the old chunks after that point can be reused unchanged *)
  Theorem chunk_resync_tail : forall l a a' t ca ca',
    feed l [] a = (ca, []) ->
    feed l [] a' = (ca', []) ->
    chunk_level l (a ++ t) = ca ++ chunk_level l t /\
    chunk_level l (a' ++ t) = ca' ++ chunk_level l t.
  Proof.
    intros l a a' t ca ca' H H'. unfold Model.chunk_level.
    rewrite (chunk_from_app l [] a t ca [] H), (chunk_from_app l [] a' t ca' [] H'). auto.
  Qed.

  (* and from the middle of a chunk: the continuation depends on the run only *)
  Theorem chunk_resync_run : forall l a a' t ca ca' r,
    feed l [] a = (ca, r) ->
    feed l [] a' = (ca', r) ->
    exists T, chunk_level l (a ++ t) = ca ++ T /\ chunk_level l (a' ++ t) = ca' ++ T.
  Proof.
    intros l a a' t ca ca' r H H'. exists (chunk_from l r t). unfold Model.chunk_level.
    rewrite (chunk_from_app l [] a t ca r H), (chunk_from_app l [] a' t ca' r H'). auto.
  Qed.

  (* nothing is lost or reordered *)
  Lemma feed_concat : forall l xs run cs r,
    feed l run xs = (cs, r) -> concat cs ++ r = run ++ xs.
  Proof.
    intros l xs; induction xs as [|x xs IH]; intros run cs r H; cbn [feed] in H.
    - inversion H; subst. cbn. rewrite app_nil_r. reflexivity.
    - destruct (append1 l run x) as [c1 r1] eqn:E1.
      destruct (feed l r1 xs) as [cs' r'] eqn:E2. inversion H; subst; clear H.
      apply IH in E2. rewrite concat_app, <- app_assoc, E2.
      unfold Model.append1 in E1.
      destruct (negb (is_nil run) && negb (fits l run x)) eqn:Eo;
        destruct (boundary l _ x && negb (degenerate item l _)) eqn:Eb;
        inversion E1; subst; cbn [concat app]; rewrite ?app_nil_r, <- ?app_assoc; reflexivity.
  Qed.

  Theorem chunk_level_concat : forall l xs, concat (chunk_level l xs) = xs.
  Proof.
    intros l xs. unfold Model.chunk_level, Model.chunk_from.
    destruct (feed l [] xs) as [cs r] eqn:E. apply feed_concat in E. cbn [app] in E.
    rewrite concat_app, <- E. f_equal. unfold Model.finish. destruct r; cbn; rewrite ?app_nil_r; reflexivity.
  Qed.

  (* ---------------- canonical chunk lists ---------------- *)
  Fixpoint canon (l : nat) (cs : list chunk) : Prop :=
    match cs with
    | [] => True
    | c :: rest =>
      match rest with
      | [] => chunk_from l [] c = finish c
      | _ => feed l [] c = ([c], []) /\ canon l rest
      end
    end.

  Hypothesis Hfits : no_overflow.

  Lemma append1_nf : forall l run x,
    append1 l run x =
    if boundary l run x && negb (degenerate item l (run ++ [x])) then ([run ++ [x]], []) else ([], run ++ [x]).
  Proof.
    intros. unfold Model.append1. rewrite Hfits. cbn [negb]. rewrite andb_false_r. reflexivity.
  Qed.

  Lemma feed_first_chunk : forall l xs run c cs r,
    feed l run xs = (c :: cs, r) ->
    exists p xs', xs = p ++ xs' /\ c = run ++ p /\ p <> [] /\ feed l run p = ([c], []) /\ feed l [] xs' = (cs, r).
  Proof.
    intros l xs; induction xs as [|x xs IH]; intros run c cs r H; cbn [feed] in H.
    - discriminate.
    - rewrite append1_nf in H.
      destruct (boundary l run x && negb (degenerate item l (run ++ [x]))) eqn:Eb.
      + destruct (feed l [] xs) as [cs' r'] eqn:E2. cbn [app] in H. inversion H; subst; clear H.
        exists [x], xs. split; [reflexivity|]. split; [reflexivity|]. split; [discriminate|]. split; [|exact E2].
        cbn [Model.feed]. rewrite append1_nf, Eb. reflexivity.
      + destruct (feed l (run ++ [x]) xs) as [cs' r'] eqn:E2. cbn [app] in H. inversion H; subst; clear H.
        destruct (IH _ _ _ _ E2) as (p & xs' & -> & -> & Hp & Hf & Hr).
        exists (x :: p), xs'. split; [reflexivity|]. split; [rewrite <- app_assoc; reflexivity|].
        split; [discriminate|]. split; [|exact Hr].
        cbn [Model.feed]. rewrite append1_nf, Eb, Hf. reflexivity.
  Qed.

  Lemma chunk_from_nil_single : forall l c, feed l [] c = ([c], []) -> chunk_from l [] c = [c].
  Proof. intros l c H. unfold Model.chunk_from. rewrite H. reflexivity. Qed.

  Lemma canon_feed : forall l cs xs r,
    feed l [] xs = (cs, r) -> canon l (cs ++ finish r).
  Proof.
    intros l cs; induction cs as [|c cs IH]; intros xs r H.
    - cbn [app]. pose proof (feed_concat _ _ _ _ _ H) as Hc. cbn in Hc. subst r.
      unfold Model.finish. destruct xs as [|x xs]; cbn [is_nil canon]; [exact Logic.I|].
      unfold Model.chunk_from. rewrite H. reflexivity.
    - destruct (feed_first_chunk _ _ _ _ _ _ H) as (p & xs' & -> & Hc & Hp & Hf & Hr).
      cbn [app] in Hc. subst c. specialize (IH _ _ Hr).
      cbn [app canon]. destruct (cs ++ finish r) eqn:E.
      + rewrite (chunk_from_nil_single _ _ Hf). unfold Model.finish. destruct p; [congruence|reflexivity].
      + split; assumption.
  Qed.

  Theorem chunk_level_canon : forall l xs, canon l (chunk_level l xs).
  Proof.
    intros l xs. unfold Model.chunk_level, Model.chunk_from.
    destruct (feed l [] xs) as [cs r] eqn:E. eapply canon_feed; eauto.
  Qed.

  (* ---------------- one level of the incremental path ---------------- *)
  Lemma all_keep_old_new : forall ops, all_keep item ops = true -> old_of item ops = new_of item ops.
  Proof.
    induction ops as [|o ops IH]; intro H; [reflexivity|].
    cbn [all_keep forallb] in H. apply andb_true_iff in H as [Ho H].
    destruct o; try discriminate. cbn [old_of new_of flat_map]. f_equal. apply IH, H.
  Qed.

  Lemma all_keep_nonempty : forall ops, all_keep item ops = true -> is_nil ops = false -> new_of item ops <> [].
  Proof.
    intros [|o ops] H Hn; [discriminate|]. cbn [all_keep forallb] in H.
    apply andb_true_iff in H as [Ho _]. destruct o; discriminate.
  Qed.

  Lemma is_nil_true : forall (A : Type) (l : list A), is_nil l = true -> l = [].
  Proof. intros A [|]; [reflexivity|discriminate]. Qed.

  Lemma canon_tail : forall l c rest, canon l (c :: rest) -> canon l rest.
  Proof. intros l c [|c' rest] H; [exact Logic.I|]. destruct H as [_ H]. exact H. Qed.

  (* For every old level that is canonical, every attribution of edits to old
     chunks, every state the chunker can be in: the chunks produced are the
     greedy chunking of the new item list from that state. *)
  Theorem rechunk_gen : forall l cops synced run,
    (synced = true -> run = []) ->
    canon l (map (old_of item) cops) ->
    fst (rechunk l synced run cops) = chunk_from l run (flat_map (new_of item) cops).
  Proof.
    intros l cops; induction cops as [|ops rest IH]; intros synced run Hs Hc.
    - cbn [rechunk fst flat_map]. unfold Model.chunk_from. reflexivity.
    - cbn [rechunk flat_map].
      destruct (synced && is_nil run && all_keep item ops && negb (is_nil ops)) eqn:Ec.
      + apply andb_true_iff in Ec as [Ec Hne]. apply andb_true_iff in Ec as [Ec Hk].
        apply andb_true_iff in Ec as [_ Hr]. apply is_nil_true in Hr. subst run.
        apply negb_true_iff in Hne.
        specialize (IH true [] (fun _ => eq_refl) (canon_tail _ _ _ Hc)).
        destruct (rechunk l true [] rest) as [cs ps] eqn:Er. cbn [fst] in *.
        rewrite <- (all_keep_old_new _ Hk).
        pose proof (all_keep_nonempty _ Hk Hne) as Hnn. rewrite <- (all_keep_old_new _ Hk) in Hnn.
        cbn [map canon] in Hc. destruct rest as [|ops' rest'].
        * cbn [map] in Hc. cbn [rechunk] in Er. inversion Er; subst. cbn [flat_map]. rewrite app_nil_r, Hc.
          unfold Model.finish. destruct (old_of item ops); [congruence|reflexivity].
        * cbn [map] in Hc. destruct Hc as [Hf _].
          rewrite (chunk_from_app l [] _ _ _ _ Hf). rewrite IH. reflexivity.
      + destruct (feed l run (new_of item ops)) as [emitted run'] eqn:Ef.
        assert (Hs' : last_is_keep item summ ops && is_nil run' = true -> run' = []).
        { intro H. apply andb_true_iff in H as [_ H]. apply is_nil_true, H. }
        specialize (IH _ run' Hs' (canon_tail _ _ _ Hc)).
        destruct (rechunk l (last_is_keep item summ ops && is_nil run') run' rest) as [cs ps] eqn:Er.
        cbn [fst] in *. rewrite (chunk_from_app l run _ _ _ _ Ef), IH. reflexivity.
  Qed.

  (* mutate_canonical for one level.
     FULL STATEMENT (all levels, in terms of trees): see [mutate_canonical] below /
     the report; this is the level-wise core: for every item list xs, every edit
     script over the chunks of [chunk_level l xs], incremental = from scratch. *)
  Theorem mutate_level : forall l xs cops,
    map (old_of item) cops = chunk_level l xs ->
    fst (rechunk l true [] cops) = chunk_level l (flat_map (new_of item) cops).
  Proof.
    intros l xs cops H. apply rechunk_gen; [reflexivity|]. rewrite H. apply chunk_level_canon.
  Qed.

  (* history independence of one level: two different old levels, two different
     edit scripts, same resulting items => same chunks *)
  Corollary level_history_independent : forall l xs1 xs2 cops1 cops2,
    map (old_of item) cops1 = chunk_level l xs1 ->
    map (old_of item) cops2 = chunk_level l xs2 ->
    flat_map (new_of item) cops1 = flat_map (new_of item) cops2 ->
    fst (rechunk l true [] cops1) = fst (rechunk l true [] cops2).
  Proof.
    intros l xs1 xs2 c1 c2 H1 H2 E. rewrite (mutate_level l xs1 c1 H1), (mutate_level l xs2 c2 H2), E. reflexivity.
  Qed.

End Proofs.

(* Without [no_overflow] the statement is false: a boundary forced *before* an
   item (hasCapacity) depends on the item that follows the chunk, which the
   re-chunking never looks at when that item is the first of its own chunk.
   Witness: items are numbers, the splitter never fires, items >= 100 never fit
   into a non-empty run.  Old level [1;2;100;3] = chunks [[1;2];[100;3]];
   deleting 100 re-feeds only the second chunk: [[1;2];[3]], but the content
   [1;2;3] chunks as [[1;2;3]].  The real code behaves the same way (C12 report:
   delete of a row whose value is ~65 KB). *)
Theorem mutate_canonical_refuted :
  exists (boundary fits : nat -> list N -> N -> bool) (summ : nat -> list N -> N)
         (xs : list N) (cops : list (list (op N))),
    map (old_of N) cops = chunk_level N boundary fits 0 xs /\
    fst (rechunk N boundary fits summ 0 true [] cops)
      <> chunk_level N boundary fits 0 (flat_map (new_of N) cops).
Proof.
  exists (fun _ _ _ => false), (fun _ _ x => N.ltb x 100), (fun _ _ => 0%N),
         [1; 2; 100; 3]%N, [[K 1; K 2]; [D 100; K 3]]%N.
  split; [vm_compute; reflexivity | vm_compute; discriminate].
Qed.
