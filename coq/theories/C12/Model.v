(* C12 — Tree shape depends only on content.  Model (no proofs in this file).

   A tree level is a list of items; a chunk is a list of items; a tree is the
   list of its levels, bottom-up, each level being the list of its chunks.
   The item of level l+1 that stands for a chunk c of level l is [summ l c]
   (= (last key, address of c) in dolt: chunker.handleChunkBoundary ->
   writeNewNode -> appendToParent(novel.lastKey, novel.addr)).

   The splitter is a Section variable

       boundary : level -> run before the item -> item -> bool

   "after appending the item to the run, does the splitter report
   CrossedBoundary()?".  Its *type* is the one property the real splitters
   have (go/store/prolly/tree/node_splitter.go): keySplitter keeps
   (size, crossedBoundary) and rollingHashSplitter keeps (bz window, offset,
   crossedBoundary); both are cleared by Reset(), which chunker.handleChunkBoundary
   calls at every boundary, so the answer is a function of the items appended
   since the last boundary (and of the level, through the salt) and nothing
   else.  [fits] is nodeBuilder.hasCapacity (the run plus the item stays
   <= MaxVectorOffset bytes). *)
From Coq Require Import NArith List Bool.
Import ListNotations.

Section Chunker.
  Variable item : Type.
  Variable boundary : nat -> list item -> item -> bool.
  Variable fits : nat -> list item -> item -> bool.
  Variable summ : nat -> list item -> item.

  Definition chunk := list item.

  Definition is_nil {A : Type} (l : list A) : bool :=
    match l with [] => true | _ => false end.

  (* chunker.append, constraint (3): an internal node with a single entry never closes *)
  Definition degenerate (l : nat) (run : chunk) : bool :=
    match l, run with
    | S _, [_] => true
    | _, _ => false
    end.

  (* chunker.append (chunker.go:318).  Result: chunks closed by this call, new run.
     overflow: the item does not fit -> close the run *before* the item
     (handleChunkBoundary + splitter.Reset), then add the item; then ask the
     splitter; a boundary *after* the item unless degenerate.
     Rejected by the real code: overflow on a degenerate run (panic "impossible
     node") and overflow on an empty builder (assertion); the model is totalised
     by closing the run / ignoring the overflow there (an internal item is a key
     plus a 20-byte address; a leaf item above 65535 bytes cannot be written). *)
  Definition append1 (l : nat) (run : chunk) (x : item) : list chunk * chunk :=
    let overflow := negb (is_nil run) && negb (fits l run x) in
    let pre := if overflow then [run] else [] in
    let run0 := if overflow then [] else run in
    let run1 := run0 ++ [x] in
    if boundary l run0 x && negb (degenerate l run1)
    then (pre ++ [run1], [])
    else (pre, run1).

  (* a stream of appends *)
  Fixpoint feed (l : nat) (run : chunk) (xs : list item) : list chunk * chunk :=
    match xs with
    | [] => ([], run)
    | x :: xs' =>
      let '(c1, r1) := append1 l run x in
      let '(cs, r) := feed l r1 xs' in
      (c1 ++ cs, r)
    end.

  (* chunker.Done: the pending run becomes the last chunk of the level *)
  Definition finish (run : chunk) : list chunk := if is_nil run then [] else [run].

  Definition chunk_from (l : nat) (run : chunk) (xs : list item) : list chunk :=
    let '(cs, r) := feed l run xs in cs ++ finish r.

  (* greedy left-to-right chunking of one level *)
  Definition chunk_level (l : nat) (xs : list item) : list chunk := chunk_from l [] xs.

  (* A tree = its levels bottom-up; the last level has at most one chunk (the
     canonical root: chunker.Done writes the root when the level has no parent
     with pending items; getCanonicalRoot skips single-entry internal roots —
     here a level with one chunk is never given a parent).  Fuel: the number of
     leaf items is enough (each internal level is strictly shorter than the one
     below it once it has >= 2 items); exhaustion leaves a last level with more
     than one chunk, which [is_tree] rejects. *)
  Fixpoint build_levels (fuel : nat) (l : nat) (xs : list item) : list (list chunk) :=
    let cs := chunk_level l xs in
    match cs with
    | [] | [_] => [cs]
    | _ =>
      match fuel with
      | O => [cs]
      | S f => cs :: build_levels f (S l) (map (summ l) cs)
      end
    end.

  Definition build (xs : list item) : list (list chunk) := build_levels (length xs) 0 xs.

  Definition is_tree (t : list (list chunk)) : bool :=
    match last t [] with [] | [_] => true | _ => false end.

  (* the root node and its address item *)
  Definition root_chunk (t : list (list chunk)) : chunk :=
    match last t [] with [c] => c | _ => [] end.
  Definition root_item (t : list (list chunk)) : item := summ (length t - 1) (root_chunk t).
  Definition all_chunks (t : list (list chunk)) : list chunk := concat t.

  (* ---------------------------------------------------------------------- *)
  (* The incremental path (mutator.go ApplyMutations / tree_patcher.go
     ApplyPatches driving chunker.advanceTo, skip, append, Done).

     The edit of one level is given per old chunk (the cursor is always inside
     one old chunk; a key that falls between two chunks belongs to the chunk the
     seek lands in — the next one, or the last chunk when past the end):
       K x  old item x is kept     (advanceTo / processPrefix / finalizeCursor append it)
       D x  old item x is dropped  (chunker.skip: DeletePair, first half of UpdatePair,
                                    or — one level up — the entry of a re-written chunk)
       I y  new item y is appended (AddPair, second half of UpdatePair, or — one
                                    level up — appendToParent of a new chunk) *)
  Inductive op := K (x : item) | D (x : item) | I (y : item).

  Definition old_of (ops : list op) : chunk :=
    flat_map (fun o => match o with K x | D x => [x] | I _ => [] end) ops.
  Definition new_of (ops : list op) : list item :=
    flat_map (fun o => match o with K x | I x => [x] | D _ => [] end) ops.
  Definition all_keep (ops : list op) : bool :=
    forallb (fun o => match o with K _ => true | _ => false end) ops.
  Definition last_is_keep (ops : list op) : bool :=
    match last ops (D (summ 0 [])) with K _ => true | _ => false end.

  (* what happens to the entries of the next level: the entry of a skipped old
     chunk is kept, the entry of a re-fed old chunk is dropped, every chunk the
     new chunker closes is inserted (as its [summ]) *)
  Inductive pop := PKeep | PDrop | PIns (y : item).

  (* One level.  [synced] = the new chunker has just closed a chunk exactly at
     the end of an old chunk ("split && cur.atNodeEnd()", advanceTo step (2) and
     finalizeCursor), or nothing was touched yet: old chunks that contain no
     edit are then skipped — their entries are copied one level up (advanceTo
     steps (3)/(4): parent.advanceTo; at the start: the parent's processPrefix;
     at the end: the parent's finalizeCursor).  The chunk that contains the next
     edit is re-fed from its first item (processPrefix), and feeding goes on
     across old chunk ends until the next resynchronisation. *)
  Fixpoint rechunk (l : nat) (synced : bool) (run : chunk) (cops : list (list op))
    : list chunk * list pop :=
    match cops with
    | [] => (finish run, map (fun c => PIns (summ l c)) (finish run))
    | ops :: rest =>
      if synced && is_nil run && all_keep ops && negb (is_nil ops) then
        let '(cs, ps) := rechunk l true [] rest in
        (old_of ops :: cs, PKeep :: ps)
      else
        let '(emitted, run') := feed l run (new_of ops) in
        let '(cs, ps) := rechunk l (last_is_keep ops && is_nil run') run' rest in
        (emitted ++ cs, map (fun c => PIns (summ l c)) emitted ++ PDrop :: ps)
    end.

  (* attach the old entries of the next level to the flat script *)
  Fixpoint attach (old : list item) (ps : list pop) : list op :=
    match ps with
    | [] => []
    | PIns y :: ps' => I y :: attach old ps'
    | PKeep :: ps' => match old with x :: old' => K x :: attach old' ps' | [] => attach [] ps' end
    | PDrop :: ps' => match old with x :: old' => D x :: attach old' ps' | [] => attach [] ps' end
    end.

  (* ops up to and including the one that consumes the n-th old entry *)
  Fixpoint take_n (n : nat) (os : list op) : list op * list op :=
    match os with
    | [] => ([], [])
    | o :: os' =>
      match n with
      | O => ([], os)
      | S n' =>
        let n2 := match o with I _ => n | _ => n' end in
        let '(a, b) := take_n n2 os' in (o :: a, b)
      end
    end.

  (* distribute the flat script over the old chunks of the next level: an old
     chunk takes the ops up to the one consuming its last entry; the last old
     chunk takes everything that is left; with no old level at all (the tree
     grows) the insertions form one pseudo-chunk.  (Where an insertion between two
     chunks is attributed only decides which chunks are re-fed, never the
     result — Proofs.rechunk_spec holds for every attribution.) *)
  Fixpoint split_ops (cs : list chunk) (os : list op) : list (list op) :=
    match cs with
    | [] => match os with [] => [] | _ => [os] end
    | c :: cs' =>
      match cs' with
      | [] => [os]
      | _ => let '(a, b) := take_n (length c) os in a :: split_ops cs' b
      end
    end.

  (* all levels: [old] = the old levels from level l upwards.  The old entries of
     level l+1 are the summaries of the old chunks of level l (what a well-formed
     tree stores there: chunker.handleChunkBoundary appended exactly those); the
     chunks of level l+1 — [hd (tl old)] — say how these entries were grouped. *)
  Fixpoint apply_levels (fuel l : nat) (old : list (list chunk)) (cops : list (list op))
    : list (list chunk) :=
    let '(cs, ps) := rechunk l true [] cops in
    match cs with
    | [] | [_] => [cs]
    | _ =>
      match fuel with
      | O => [cs]
      | S f =>
        let old_up := hd [] (tl old) in
        let entries := map (summ l) (map old_of cops) in
        cs :: apply_levels f (S l) (tl old) (split_ops old_up (attach entries ps))
      end
    end.

  (* ---------------------------------------------------------------------- *)
  (* Leaf level: sorted key edits (mutator.go ApplyMutations loop). *)
  Variable key_of : item -> N.
  Variable item_eqb : item -> item -> bool.

  Inductive edit := Put (y : item) | Del (k : N).
  Definition ekey (e : edit) : N := match e with Put y => key_of y | Del k => k end.

  (* merge sorted edits into the sorted items of a chunk.  No-op mutations
     (equal value, delete of an absent key) are skipped as in ApplyMutations. *)
  Fixpoint merge_ops (es : list edit) : list item -> list op :=
    fix go (xs : list item) : list op :=
      match es with
      | [] => map K xs
      | e :: es' =>
        match xs with
        | [] => (match e with Put y => [I y] | Del _ => [] end) ++ merge_ops es' []
        | x :: xs' =>
          if (key_of x <? ekey e)%N then K x :: go xs'
          else if (key_of x =? ekey e)%N then
            (match e with
             | Put y => if item_eqb x y then [K x] else [D x; I y]
             | Del _ => [D x]
             end) ++ merge_ops es' xs'
          else (match e with Put y => [I y] | Del _ => [] end) ++ merge_ops es' xs
        end
      end.

  Definition last_key (c : chunk) : N := match rev c with x :: _ => key_of x | [] => 0%N end.

  Fixpoint span_le (k : N) (es : list edit) : list edit * list edit :=
    match es with
    | [] => ([], [])
    | e :: es' => if (ekey e <=? k)%N then let '(a, b) := span_le k es' in (e :: a, b) else ([], es)
    end.

  (* the seek: an edit belongs to the first chunk whose last key is >= its key,
     or to the last chunk *)
  Fixpoint cops_of_edits (cs : list chunk) (es : list edit) : list (list op) :=
    match cs with
    | [] => match es with [] => [] | _ => [merge_ops es []] end
    | c :: cs' =>
      match cs' with
      | [] => [merge_ops es c]
      | _ => let '(e1, e2) := span_le (last_key c) es in merge_ops e1 c :: cops_of_edits cs' e2
      end
    end.

  (* the dictionary update on sorted item lists (the specification side of the
     leaf edits): delete / replace / insert by key, everything else kept *)
  Definition apply_edits (es : list edit) (xs : list item) : list item := new_of (merge_ops es xs).

  Definition apply_mutations (old : list (list chunk)) (es : list edit) : list (list chunk) :=
    let cops := cops_of_edits (hd [] old) es in
    apply_levels (length (flat_map new_of cops)) 0 old cops.

End Chunker.

Arguments K {item}.
Arguments D {item}.
Arguments I {item}.
Arguments Put {item}.
Arguments Del {item}.
