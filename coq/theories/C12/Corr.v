(* C12 — correspondence.  Input: the number of leaf entries and, per level, the
   ids of the items after which the REAL splitter (asked directly, run by run,
   through tree.VerifSplitDecisions — not read off the tree) reports a boundary.
   An item's id is the ordinal of the last leaf entry below it, so the summary of
   a chunk is the id of its last item.  The model chunks level by level with
   these decisions; the observation is the list of chunk lengths per level. *)
From Coq Require Import NArith List Bool.
From Dolt Require Import C12.Model C12.Spec.
Import ListNotations.
Local Open Scope N_scope.

Record input := {
  i_kind : N;                 (* 0: chunker-built tree (row map, address map); 1: blob *)
  i_n : N;                    (* leaf entries / blob bytes *)
  i_dec : list (list N);      (* per level: ids with CrossedBoundary() = true *)
  i_chunk : N                 (* blob chunk size *)
}.

Record obs := {
  o_shape : list (list N);    (* chunk lengths per level of route 0 *)
  o_routes : list route       (* every construction route: root hash, chunk lengths per level *)
}.

Definition case := (input * obs)%type.

Definition nseq (n : N) : list N := rev (N.recursion [] (fun k acc => k :: acc) n).

Definition memN (x : N) (l : list N) : bool := existsb (N.eqb x) l.

Definition bnd (decs : list (list N)) (l : nat) (_ : list N) (x : N) : bool := memN x (nth l decs []).
Definition fits_all (_ : nat) (_ : list N) (_ : N) : bool := true.
Definition summ_id (_ : nat) (c : list N) : N := last c 0.

Definition shape_of (t : list (list (list N))) : list (list N) :=
  map (map (fun c => N.of_nat (length c))) t.

(* blobs (blob_builder.go): fixed fan-out; leaves hold [chunk] bytes, internal
   nodes hold chunk/20 addresses; the number of internal levels is computed in
   BlobBuilder.Init from the sizes alone. *)
Definition group (m fan : N) : list N :=
  if fan =? 0 then [] else
  N.recursion [] (fun _ acc => fan :: acc) (m / fan) ++ (if m mod fan =? 0 then [] else [m mod fan]).

Fixpoint blob_top (fuel : nat) (d fan : N) : nat :=
  match fuel with
  | O => O
  | S f => if d =? 0 then O else S (blob_top f (d / fan) fan)
  end.

Fixpoint blob_up (levels : nat) (m fan : N) : list (list N) :=
  match levels with
  | O => []
  | S k => let g := group m fan in g :: blob_up k (N.of_nat (length g)) fan
  end.

Definition blob_shape (n c : N) : list (list N) :=
  if n =? 0 then []
  else if n <=? c then [[n]]
  else let fan := c / 20 in
       let leaves := group n c in
       leaves :: blob_up (blob_top 64 (n / c) fan) (N.of_nat (length leaves)) fan.

Definition model_shape (i : input) : list (list N) :=
  if i_kind i =? 1 then blob_shape (i_n i) (i_chunk i)
  else shape_of (build N (bnd (i_dec i)) fits_all summ_id (nseq (i_n i))).

Definition model_obs (i : input) : obs := {| o_shape := model_shape i; o_routes := [] |}.

(* the model only predicts the shape *)
Definition obs_eqb (m o : obs) : bool := eqb_shape (o_shape m) (o_shape o).

(* the property: all routes to this content gave one root hash and one set of boundaries *)
Definition oracle (_ : input) (o : obs) : bool := routes_agree (o_routes o).

Definition check_case (c : case) : N :=
  (if obs_eqb (model_obs (fst c)) (snd c) then 0 else 1)
  + (if oracle (fst c) (snd c) then 0 else 2).
