(* C18 — correspondence: the harness builds the history through
   datas.Database.Commit on an in-memory store and reads back, for every
   commit, Height, the parent list and the stored closure (in the order
   CommitClosure.IterAllReverse yields it), and re-reads every commit after all
   later commits were written ([o_stable]).  Ids are creation indices; the byte
   order of the addresses comes with the case ([snd input]: rank per commit). *)
From Coq Require Import NArith List Arith Bool.
From Dolt Require Import Graph.CommitDag C18.Model C18.Spec.
Import ListNotations.

(* ((parent lists, rank per commit), commits whose stored closure is reported) *)
Definition input := ((list (list N) * list N) * list N)%type.

Record obs := {
  o_heights  : list N;
  o_parents  : list (list N);
  o_closures : list (list (N * N));     (* per selected commit: (height, commit), descending key order *)
  o_stable   : bool                     (* every commit re-read at the end: same address, same bytes *)
}.

Definition case := (input * obs)%type.

Definition hist_of (i : input) : hist := map (map N.to_nat) (fst (fst i)).
Definition ranks_of (i : input) : list nat := map N.to_nat (snd (fst i)).
Definition sel_of (i : input) : list nat := map N.to_nat (snd i).

(* rank per commit from the exported permutation; made injective outside the
   table so that the model's hypothesis is a checkable property of the table *)
Definition rank_of (rk : list nat) (c : nat) : nat :=
  if c <? length rk then nth c rk 0 else length rk + c.

Definition rank_okb (n : nat) (rk : list nat) : bool :=
  (length rk =? n) && forallb (fun r => r <? n) rk
  && (length (dedup rk) =? length rk).

Definition key_to_N (k : nat * nat) : N * N := (N.of_nat (fst k), N.of_nat (snd k)).
Definition key_of_N (k : N * N) : nat * nat := (N.to_nat (fst k), N.to_nat (snd k)).

Definition model_obs (i : input) : obs :=
  let h := hist_of i in
  let s := store_of (rank_of (ranks_of i)) h in
  {| o_heights := map (fun c => N.of_nat (c_height c)) s;
     o_parents := map (fun c => map N.of_nat (c_parents c)) s;
     o_closures := map (fun c => map key_to_N (rev (c_closure (get s c)))) (sel_of i);
     o_stable := true |}.

Fixpoint list_eqb {A : Type} (eqb : A -> A -> bool) (a b : list A) : bool :=
  match a, b with
  | [], [] => true
  | x :: a', y :: b' => eqb x y && list_eqb eqb a' b'
  | _, _ => false
  end.

Definition keyN_eqb (a b : N * N) : bool := N.eqb (fst a) (fst b) && N.eqb (snd a) (snd b).

Definition obs_eqb (a b : obs) : bool :=
  list_eqb N.eqb (o_heights a) (o_heights b)
  && list_eqb (list_eqb N.eqb) (o_parents a) (o_parents b)
  && list_eqb (list_eqb keyN_eqb) (o_closures a) (o_closures b)
  && Bool.eqb (o_stable a) (o_stable b).

(* The property on what the implementation returned:
   heights obey "one more than the highest parent, one for a root"; every stored
   closure is exactly the set of proper ancestors (computed by brute force from
   the parent lists) each with its observed height; nothing was rewritten.
   (The parent lists read back are compared with the model in [obs_eqb].) *)
Definition oracle (i : input) (o : obs) : bool :=
  let h := hist_of i in
  let oh := map N.to_nat (o_heights o) in
  heights_okb h oh
  && closures_okb h oh (sel_of i) (map (map key_of_N) (o_closures o))
  && o_stable o.

Definition check_case (c : case) : N :=
  ((if obs_eqb (model_obs (fst c)) (snd c) then 0 else 1)
   + (if oracle (fst c) (snd c) then 0 else 2))%N.
