(* C18 — proofs: for every well-formed history (every DAG, any arity, duplicate
   parents, criss-cross merges) the stored height is the length of the longest
   parent path, the stored closure is exactly the set of proper ancestors with
   their heights, and a stored commit never changes when the history grows. *)
From Coq Require Import List Arith Bool Lia NArith Sorted FinFun.
From Dolt Require Import Graph.CommitDag Graph.CommitDagFacts C18.Model C18.Spec C18.Corr.
Import ListNotations.

Section WithRank.
  Variable rank : nat -> nat.
  (* distinct commits have distinct addresses (addr_inj of DESIGN §2) *)
  Hypothesis rank_inj : forall a b, rank a = rank b -> a = b.

  Notation key_cmp := (key_cmp rank).
  Notation cl_insert := (cl_insert rank).
  Notation cl_mem := (cl_mem rank).
  Notation cl_added := (cl_added rank).
  Notation merge_closures := (merge_closures rank).
  Notation new_commit := (new_commit rank).
  Notation store_of := (store_of rank).
  Notation height := (height rank).
  Notation closure_of := (closure_of rank).

  Definition key_lt (k1 k2 : key) : Prop := key_cmp k1 k2 = Lt.

  Lemma key_cmp_lt_iff k1 k2 :
    key_cmp k1 k2 = Lt <-> fst k1 < fst k2 \/ (fst k1 = fst k2 /\ rank (snd k1) < rank (snd k2)).
  Proof.
    unfold Model.key_cmp.
    destruct (Nat.compare_spec (fst k1) (fst k2)) as [E|L|G];
      destruct (Nat.compare_spec (rank (snd k1)) (rank (snd k2))) as [E'|L'|G'];
      split; intros H; try discriminate; try reflexivity; try lia.
  Qed.

  Lemma key_cmp_gt_iff k1 k2 : key_cmp k1 k2 = Gt <-> key_cmp k2 k1 = Lt.
  Proof.
    rewrite key_cmp_lt_iff. unfold Model.key_cmp.
    destruct (Nat.compare_spec (fst k1) (fst k2)) as [E|L|G];
      destruct (Nat.compare_spec (rank (snd k1)) (rank (snd k2))) as [E'|L'|G'];
      split; intros H; try discriminate; try reflexivity; try lia.
  Qed.

  Lemma key_cmp_eq_iff k1 k2 : key_cmp k1 k2 = Eq <-> k1 = k2.
  Proof.
    unfold Model.key_cmp. destruct k1 as [h1 a1], k2 as [h2 a2]. cbn [fst snd].
    destruct (Nat.compare_spec h1 h2) as [E|L|G];
      destruct (Nat.compare_spec (rank a1) (rank a2)) as [E'|L'|G'];
      split; intros H; try discriminate; try reflexivity;
      try (inversion H; subst; lia).
    apply rank_inj in E'. subst. reflexivity.
  Qed.

  Lemma key_lt_trans k1 k2 k3 : key_lt k1 k2 -> key_lt k2 k3 -> key_lt k1 k3.
  Proof. unfold key_lt. rewrite !key_cmp_lt_iff. lia. Qed.

  Lemma key_lt_irrefl k : ~ key_lt k k.
  Proof. unfold key_lt. rewrite key_cmp_lt_iff. lia. Qed.

  Lemma key_lt_total k1 k2 : key_lt k1 k2 \/ k1 = k2 \/ key_lt k2 k1.
  Proof.
    unfold key_lt. destruct (key_cmp k1 k2) eqn:E.
    - right. left. apply key_cmp_eq_iff. exact E.
    - left. reflexivity.
    - right. right. apply key_cmp_gt_iff. exact E.
  Qed.

  (* ---- sorted insertion ---- *)
  Lemma cl_insert_In k l x : In x (cl_insert k l) <-> x = k \/ In x l.
  Proof.
    induction l as [|y r IH]; cbn [Model.cl_insert In]; [intuition congruence|].
    destruct (key_cmp k y) eqn:E; cbn [In].
    - apply key_cmp_eq_iff in E. subst y. intuition congruence.
    - intuition congruence.
    - rewrite IH. intuition congruence.
  Qed.

  Lemma cl_insert_sorted k l : StronglySorted key_lt l -> StronglySorted key_lt (cl_insert k l).
  Proof.
    induction l as [|y r IH]; intros Hs; cbn [Model.cl_insert].
    - constructor; constructor.
    - inversion Hs as [|y' r' Hr Hall]; subst.
      destruct (key_cmp k y) eqn:E.
      + exact Hs.
      + constructor; [exact Hs|]. constructor; [exact E|].
        rewrite Forall_forall in *. intros z Hz. eapply key_lt_trans; [exact E | apply Hall; exact Hz].
      + constructor; [apply IH; exact Hr|].
        rewrite Forall_forall in *. intros z Hz. apply cl_insert_In in Hz. destruct Hz as [->|Hz].
        * apply key_cmp_gt_iff. exact E.
        * apply Hall. exact Hz.
  Qed.

  Lemma sorted_NoDup l : StronglySorted key_lt l -> NoDup l.
  Proof.
    induction 1 as [|y r Hr IH Hall]; constructor; [|exact IH].
    intros Hin. rewrite Forall_forall in Hall. apply (key_lt_irrefl y). apply Hall. exact Hin.
  Qed.

  Lemma fold_insert_In ks l x :
    In x (fold_left (fun acc k => cl_insert k acc) ks l) <-> In x ks \/ In x l.
  Proof.
    revert l. induction ks as [|k r IH]; intros l; cbn [fold_left In]; [tauto|].
    rewrite IH, cl_insert_In. intuition congruence.
  Qed.

  Lemma fold_insert_sorted ks l :
    StronglySorted key_lt l -> StronglySorted key_lt (fold_left (fun acc k => cl_insert k acc) ks l).
  Proof.
    revert l. induction ks as [|k r IH]; intros l Hs; cbn [fold_left]; [exact Hs|].
    apply IH. apply cl_insert_sorted. exact Hs.
  Qed.

  Lemma cl_mem_In k l : cl_mem k l = true <-> In k l.
  Proof.
    unfold Model.cl_mem. rewrite existsb_exists. split.
    - intros [x [Hx He]]. destruct (key_cmp k x) eqn:E; try discriminate.
      apply key_cmp_eq_iff in E. subst. exact Hx.
    - intros Hin. exists k. split; [exact Hin|].
      assert (E : key_cmp k k = Eq) by (apply key_cmp_eq_iff; reflexivity). rewrite E. reflexivity.
  Qed.

  Lemma cl_added_In c0 ci x : In x c0 \/ In x (cl_added c0 ci) <-> In x c0 \/ In x ci.
  Proof.
    unfold Model.cl_added. rewrite filter_In. destruct (cl_mem x c0) eqn:E.
    - apply cl_mem_In in E. tauto.
    - cbn [negb]. tauto.
  Qed.

  Lemma merge_closures_In cls pkeys x :
    cls <> [] ->
    (In x (merge_closures cls pkeys) <-> (exists ci, In ci cls /\ In x ci) \/ In x pkeys).
  Proof.
    destruct cls as [|c0 rest]; [congruence|]. intros _. cbn [Model.merge_closures].
    rewrite fold_insert_In, in_app_iff, in_flat_map. split.
    - intros [[[ci [Hci Hx]]|Hp]|H0].
      + left. assert (H : In x c0 \/ In x ci) by (apply (cl_added_In c0 ci x); right; exact Hx).
        destruct H as [H|H]; [exists c0 | exists ci]; split; try exact H; [left; reflexivity | right; exact Hci].
      + right. exact Hp.
      + left. exists c0. split; [left; reflexivity | exact H0].
    - intros [[ci [[<-|Hci] Hx]]|Hp].
      + right. exact Hx.
      + assert (H : In x c0 \/ In x (cl_added c0 ci)) by (apply cl_added_In; right; exact Hx).
        destruct H as [H|H]; [right; exact H | left; left; exists ci; split; assumption].
      + left. right. exact Hp.
  Qed.

  Lemma merge_closures_sorted cls pkeys :
    (forall ci, In ci cls -> StronglySorted key_lt ci) -> StronglySorted key_lt (merge_closures cls pkeys).
  Proof.
    destruct cls as [|c0 rest]; intros H; cbn [Model.merge_closures]; [constructor|].
    apply fold_insert_sorted. apply H. left. reflexivity.
  Qed.

  Lemma combine_map_In (f : nat -> nat) ps k :
    In k (combine (map f ps) ps) <-> exists p, In p ps /\ k = (f p, p).
  Proof.
    induction ps as [|q r IH]; cbn [map combine In].
    - split; [intros [] | intros [p [[] _]]].
    - rewrite IH. split.
      + intros [<-|[p [Hp ->]]]; [exists q | exists p]; split; auto.
      + intros [p [[->|Hp] ->]]; [left; reflexivity | right; exists p; split; auto].
  Qed.

  (* ---- unfolding the store ---- *)
  Lemma new_commit_local s s' ps :
    (forall p, In p ps -> nth p s no_commit = nth p s' no_commit) -> new_commit s ps = new_commit s' ps.
  Proof.
    intros H. unfold Model.new_commit.
    assert (E : map (get s) ps = map (get s') ps) by (apply map_ext_in; exact H).
    rewrite E. reflexivity.
  Qed.

  Lemma get_unfold h c :
    wf_hist h -> c < length h -> get (store_of h) c = new_commit (store_of h) (parents h c).
  Proof.
    intros Hwf Hc. unfold get, Model.store_of.
    apply (build_unfold new_commit no_commit new_commit_local h c Hwf Hc).
  Qed.

  Lemma get_out h c : length h <= c -> get (store_of h) c = no_commit.
  Proof.
    intros H. unfold get. apply nth_overflow. unfold Model.store_of. rewrite build_length. exact H.
  Qed.

  Lemma height_unfold h c :
    wf_hist h -> c < length h -> height h c = S (max_of (map (height h) (parents h c))).
  Proof.
    intros Hwf Hc. unfold Model.height at 1. rewrite get_unfold by assumption.
    unfold Model.new_commit. cbn [c_height]. rewrite map_map. reflexivity.
  Qed.

  Lemma closure_unfold h c :
    wf_hist h -> c < length h ->
    closure_of h c = merge_closures (map (closure_of h) (parents h c))
                                    (combine (map (height h) (parents h c)) (parents h c)).
  Proof.
    intros Hwf Hc. unfold Model.closure_of at 1. rewrite get_unfold by assumption.
    unfold Model.new_commit. cbn [c_closure]. rewrite !map_map. reflexivity.
  Qed.

  Lemma stored_parents h c : wf_hist h -> c_parents (get (store_of h) c) = parents h c.
  Proof.
    intros Hwf. destruct (Nat.lt_ge_cases c (length h)) as [Hc|Hc].
    - rewrite get_unfold by assumption. reflexivity.
    - rewrite get_out by exact Hc. rewrite parents_out by exact Hc. reflexivity.
  Qed.

  Lemma height_out h c : length h <= c -> height h c = 0.
  Proof. intros H. unfold Model.height. rewrite get_out by exact H. reflexivity. Qed.

  Lemma closure_out h c : length h <= c -> closure_of h c = [].
  Proof. intros H. unfold Model.closure_of. rewrite get_out by exact H. reflexivity. Qed.

  (* ---- heights ---- *)
  Theorem height_recurrence_holds h c :
    wf_hist h -> c < length h -> height_recurrence h (height h) c.
  Proof. intros Hwf Hc. unfold height_recurrence. apply height_unfold; assumption. Qed.

  Lemma height_pos h c : wf_hist h -> c < length h -> 1 <= height h c.
  Proof. intros Hwf Hc. rewrite height_unfold by assumption. lia. Qed.

  Lemma height_root h c : wf_hist h -> c < length h -> parents h c = [] -> height h c = 1.
  Proof. intros Hwf Hc Hp. rewrite height_unfold by assumption. rewrite Hp. reflexivity. Qed.

  Lemma parent_lower h c p : wf_hist h -> In p (parents h c) -> height h p < height h c.
  Proof.
    intros Hwf Hp. assert (Hc : c < length h) by (eapply wf_parent_in_range; exact Hp).
    rewrite (height_unfold h c) by assumption.
    assert (height h p <= max_of (map (height h) (parents h c))).
    { apply max_of_ge. apply in_map. exact Hp. }
    lia.
  Qed.

  (* a proper ancestor is strictly lower *)
  Theorem ancestor_lower h a c : wf_hist h -> anc h a c -> height h a < height h c.
  Proof.
    intros Hwf H. induction H as [a c Hp | a p c Hp _ IH].
    - apply parent_lower; assumption.
    - pose proof (parent_lower h c p Hwf Hp). lia.
  Qed.

  Lemma ancs_height_le h a c : wf_hist h -> ancs h a c -> height h a <= height h c.
  Proof. intros Hwf [->|H]; [lia | apply ancestor_lower in H; [lia | exact Hwf]]. Qed.

  Lemma ancs_same_height h a c : wf_hist h -> ancs h a c -> height h a = height h c -> a = c.
  Proof.
    intros Hwf [->|H] E; [reflexivity|]. apply ancestor_lower in H; [lia | exact Hwf].
  Qed.

  Lemma chain_upper h c n : wf_hist h -> chain h c n -> c < length h -> n <= height h c.
  Proof.
    intros Hwf H. induction H as [c | c p n Hp _ IH]; intros Hc.
    - apply height_pos; assumption.
    - assert (Hpc : p < c) by (apply Hwf; exact Hp).
      pose proof (parent_lower h c p Hwf Hp). specialize (IH ltac:(lia)). lia.
  Qed.

  Lemma chain_exists h c : wf_hist h -> c < length h -> chain h c (height h c).
  Proof.
    intros Hwf. induction c as [c IH] using lt_wf_ind. intros Hc.
    rewrite height_unfold by assumption.
    destruct (parents h c) as [|p0 r] eqn:Ep.
    - cbn [map]. rewrite max_of_nil. constructor.
    - assert (Hne : map (height h) (p0 :: r) <> []) by (cbn [map]; congruence).
      apply max_of_in in Hne. apply in_map_iff in Hne. destruct Hne as [p [Hhp Hp]].
      rewrite <- Hhp. rewrite <- Ep in Hp.
      assert (Hpc : p < c) by (apply Hwf; exact Hp).
      apply chain_cons with (p := p); [exact Hp|]. apply IH; [exact Hpc | lia].
  Qed.

  (* height = number of commits on the longest parent path = 1 + highest parent *)
  Theorem height_spec h c :
    wf_hist h -> c < length h ->
    longest_chain h c (height h c) /\ height_recurrence h (height h) c.
  Proof.
    intros Hwf Hc. split; [split|].
    - apply chain_exists; assumption.
    - intros m Hm. apply chain_upper; assumption.
    - apply height_recurrence_holds; assumption.
  Qed.

  (* ---- closures ---- *)
  Lemma closure_inv h : wf_hist h -> forall c,
    StronglySorted key_lt (closure_of h c) /\
    forall k, In k (closure_of h c) <-> exists a, anc h a c /\ k = (height h a, a).
  Proof.
    intros Hwf c. induction c as [c IH] using lt_wf_ind.
    destruct (Nat.lt_ge_cases c (length h)) as [Hc|Hc].
    - rewrite closure_unfold by assumption. split.
      + apply merge_closures_sorted. intros ci Hci. apply in_map_iff in Hci.
        destruct Hci as [p [<- Hp]]. apply (IH p (Hwf c p Hp)).
      + intros k. destruct (parents h c) as [|p0 r] eqn:Ep.
        * cbn [map Model.merge_closures]. split; [intros []|].
          intros [a [Ha _]]. apply anc_inv in Ha. destruct Ha as [p [Hp _]]. rewrite Ep in Hp. destruct Hp.
        * rewrite <- Ep. rewrite merge_closures_In by (rewrite Ep; cbn [map]; congruence).
          rewrite combine_map_In. split.
          -- intros [[ci [Hci Hk]]|[p [Hp ->]]].
             ++ apply in_map_iff in Hci. destruct Hci as [p [<- Hp]].
                apply (IH p (Hwf c p Hp)) in Hk. destruct Hk as [a [Ha ->]].
                exists a. split; [eapply anc_step; eassumption | reflexivity].
             ++ exists p. split; [apply anc_parent; exact Hp | reflexivity].
          -- intros [a [Ha ->]]. apply anc_inv in Ha. destruct Ha as [p [Hp [->|Ha]]].
             ++ right. exists p. split; [exact Hp | reflexivity].
             ++ left. exists (closure_of h p). split; [apply in_map; exact Hp|].
                apply (IH p (Hwf c p Hp)). exists a. split; [exact Ha | reflexivity].
    - rewrite closure_out by exact Hc. split; [constructor|].
      intros k. split; [intros []|]. intros [a [Ha _]]. apply anc_in_range in Ha. lia.
  Qed.

  (* the stored closure lists exactly the proper ancestors, each once, with their heights *)
  Theorem closure_spec h c :
    wf_hist h -> closure_exact h (height h) c (closure_of h c).
  Proof.
    intros Hwf. destruct (closure_inv h Hwf c) as [Hs Hin]. split; [|exact Hin].
    apply sorted_NoDup. exact Hs.
  Qed.

  Theorem closure_sorted h c : wf_hist h -> StronglySorted key_lt (closure_of h c).
  Proof. intros Hwf. apply (closure_inv h Hwf c). Qed.

  Lemma closure_empty_iff h c : wf_hist h -> (closure_of h c = [] <-> parents h c = []).
  Proof.
    intros Hwf. destruct (closure_spec h c Hwf) as [_ Hin]. split; intros H.
    - destruct (parents h c) as [|p r] eqn:Ep; [reflexivity|]. exfalso.
      assert (Hk : In (height h p, p) (closure_of h c)).
      { apply Hin. exists p. split; [apply anc_parent; rewrite Ep; left; reflexivity | reflexivity]. }
      rewrite H in Hk. destruct Hk.
    - destruct (closure_of h c) as [|k r] eqn:Ek; [reflexivity|]. exfalso.
      assert (Hk : In k (k :: r)) by (left; reflexivity). apply Hin in Hk.
      destruct Hk as [a [Ha _]]. apply anc_inv in Ha. destruct Ha as [p [Hp _]]. rewrite H in Hp. destruct Hp.
  Qed.

  (* ---- immutability: the record stored for a commit (parents, height, closure,
          i.e. everything its address is computed from) is the same in every
          extension of the history ---- *)
  Theorem addr_stable h ext c :
    c < length h -> nth_error (store_of (h ++ ext)) c = nth_error (store_of h) c.
  Proof. intros Hc. unfold Model.store_of. apply build_prefix_stable. exact Hc. Qed.

  Corollary get_stable h ext c : c < length h -> get (store_of (h ++ ext)) c = get (store_of h) c.
  Proof.
    intros Hc. unfold get, Model.store_of. apply build_prefix_nth. exact Hc.
  Qed.

  (* and it is a function of the commit's own parent list and its parents' records *)
  Theorem commit_is_function_of_parents h c :
    wf_hist h -> c < length h -> get (store_of h) c = new_commit (store_of h) (parents h c).
  Proof. apply get_unfold. Qed.
End WithRank.

(* ---- the correspondence oracle accepts the model's own observation ---- *)
Lemma dedup_length_le l : length (dedup l) <= length l.
Proof.
  induction l as [|x r IH]; cbn [dedup length]; [lia|].
  destruct (memb x r); cbn [length]; lia.
Qed.

Lemma dedup_full_NoDup l : length (dedup l) = length l -> NoDup l.
Proof.
  induction l as [|x r IH]; cbn [dedup length]; intros H; [constructor|].
  destruct (memb x r) eqn:E.
  - pose proof (dedup_length_le r). lia.
  - cbn [length] in H. constructor; [apply memb_false; exact E | apply IH; lia].
Qed.

Lemma rank_of_inj n rk : rank_okb n rk = true -> forall a b, rank_of rk a = rank_of rk b -> a = b.
Proof.
  unfold rank_okb. rewrite !andb_true_iff, !Nat.eqb_eq, forallb_forall.
  intros [[Hlen Hlt] Hnd] a b. apply dedup_full_NoDup in Hnd. unfold rank_of.
  destruct (Nat.ltb_spec a (length rk)) as [Ea|Ea], (Nat.ltb_spec b (length rk)) as [Eb|Eb]; intros H.
  - apply (proj1 (NoDup_nth rk 0) Hnd); assumption.
  - assert (nth a rk 0 < n) by (apply Nat.ltb_lt, Hlt, nth_In; exact Ea). lia.
  - assert (nth b rk 0 < n) by (apply Nat.ltb_lt, Hlt, nth_In; exact Eb). lia.
  - lia.
Qed.

Lemma key_of_to_N k : key_of_N (key_to_N k) = k.
Proof. destruct k. unfold key_of_N, key_to_N. cbn [fst snd]. rewrite !Nat2N.id. reflexivity. Qed.

Lemma forallb_seq_intro (P : nat -> bool) n :
  (forall c, c < n -> P c = true) -> forallb P (seq 0 n) = true.
Proof. intros H. apply forallb_forall. intros c Hc. apply in_seq in Hc. apply H. lia. Qed.

Lemma closure_okb_model rank h c :
  (forall a b, rank a = rank b -> a = b) -> wf_hist h ->
  closure_okb (ancestors h c) (map c_height (store_of rank h)) (rev (closure_of rank h c)) = true.
Proof.
  intros Hinj Hwf.
  assert (Hoh : forall a, obs_height (map c_height (store_of rank h)) a = height rank h a).
  { intros a. unfold obs_height, height, get. apply (map_nth c_height (store_of rank h) no_commit a). }
  destruct (closure_spec rank Hinj h c Hwf) as [Hnd Hin].
  unfold closure_okb. rewrite !andb_true_iff. split; [split|].
  - apply Nat.eqb_eq. rewrite rev_length.
    set (img := map (fun a => (height rank h a, a)) (ancestors h c)).
    assert (Himg : NoDup img).
    { unfold img. apply FinFun.Injective_map_NoDup; [|apply ancestors_NoDup; exact Hwf].
      intros x y Hxy. inversion Hxy. reflexivity. }
    assert (L1 : length (closure_of rank h c) <= length img).
    { apply NoDup_incl_length; [exact Hnd|]. intros k Hk. apply Hin in Hk. destruct Hk as [a [Ha ->]].
      unfold img. apply in_map_iff. exists a. split; [reflexivity | apply ancestors_spec; assumption]. }
    assert (L2 : length img <= length (closure_of rank h c)).
    { apply NoDup_incl_length; [exact Himg|]. intros k Hk. unfold img in Hk. apply in_map_iff in Hk.
      destruct Hk as [a [<- Ha]]. apply Hin. exists a. split; [apply ancestors_spec; assumption | reflexivity]. }
    unfold img in L1, L2. rewrite map_length in L1, L2. lia.
  - apply forallb_forall. intros a Ha. apply existsb_exists. exists (height rank h a, a). split.
    + apply in_rev. rewrite rev_involutive. apply Hin. exists a. split; [apply ancestors_spec; assumption | reflexivity].
    + rewrite Hoh. unfold key_eqb. cbn [fst snd]. rewrite !Nat.eqb_refl. reflexivity.
  - apply forallb_forall. intros k Hk. apply in_rev in Hk. apply Hin in Hk. destruct Hk as [a [Ha ->]].
    cbn [fst snd]. rewrite Hoh, Nat.eqb_refl, andb_true_r. apply memb_In. apply ancestors_spec; assumption.
Qed.

Lemma combine_map_elt {A B} (g : A -> B) l pr :
  In pr (combine l (map g l)) -> In (fst pr) l /\ snd pr = g (fst pr).
Proof.
  induction l as [|a r IH]; cbn [map combine In]; [intros []|].
  intros [<-|Hin]; [split; [left; reflexivity | reflexivity]|].
  destruct (IH Hin) as [H1 H2]. split; [right; exact H1 | exact H2].
Qed.

Theorem oracle_accepts_model i :
  wf_histb (hist_of i) = true ->
  rank_okb (length (hist_of i)) (ranks_of i) = true ->
  oracle i (model_obs i) = true.
Proof.
  intros Hwf Hrk. apply wf_histb_spec in Hwf.
  pose proof (rank_of_inj _ _ Hrk) as Hinj.
  set (rank := rank_of (ranks_of i)) in *.
  set (h := hist_of i) in *.
  unfold oracle, model_obs. cbn [o_heights o_closures o_stable].
  fold h. fold rank.
  assert (Eh : map N.to_nat (map (fun c => N.of_nat (c_height c)) (store_of rank h)) = map c_height (store_of rank h)).
  { rewrite map_map. apply map_ext. intros c. apply Nat2N.id. }
  assert (Ec : map (map key_of_N) (map (fun c => map key_to_N (rev (c_closure (get (store_of rank h) c)))) (sel_of i))
               = map (fun c => rev (closure_of rank h c)) (sel_of i)).
  { rewrite map_map. apply map_ext. intros c. rewrite map_map. unfold closure_of.
    rewrite <- (map_id (rev (c_closure (get (store_of rank h) c)))) at 2.
    apply map_ext. intros k. apply key_of_to_N. }
  rewrite Eh, Ec.
  assert (Hlen : length (store_of rank h) = length h) by (unfold store_of; apply build_length).
  assert (Hoh : forall a, obs_height (map c_height (store_of rank h)) a = height rank h a).
  { intros a. unfold obs_height, height, get. apply (map_nth c_height (store_of rank h) no_commit a). }
  rewrite !andb_true_iff. split; [split|reflexivity].
  - unfold heights_okb. rewrite andb_true_iff. split.
    + apply Nat.eqb_eq. rewrite map_length. exact Hlen.
    + apply forallb_seq_intro. intros c Hc. apply Nat.eqb_eq. rewrite Hoh.
      rewrite (height_unfold rank h c Hwf Hc). f_equal. f_equal. apply map_ext. intros p. symmetry. apply Hoh.
  - unfold closures_okb. rewrite andb_true_iff. split.
    + apply Nat.eqb_eq. apply map_length.
    + apply forallb_forall. intros sc Hsc. cbv beta.
      apply (combine_map_elt (fun c => rev (closure_of rank h c))) in Hsc. destruct Hsc as [_ Es].
      destruct sc as [c cl]. cbn [fst snd] in *. subst cl.
      change (nth c (anc_table h) []) with (ancestors h c).
      apply closure_okb_model; assumption.
Qed.

(* non-vacuity: a criss-cross history with a 3-parent merge and a duplicate parent *)
Example example_history_wf :
  wf_histb [[]; [0]; [0]; [1; 2]; [2; 1]; [3; 4; 4]; []; [5; 6; 0]] = true.
Proof. reflexivity. Qed.

Example example_heights :
  map (height (fun c => 7 - c) [[]; [0]; [0]; [1; 2]; [2; 1]; [3; 4; 4]; []; [5; 6; 0]]) (seq 0 8)
  = [1; 2; 2; 3; 3; 4; 1; 5].
Proof. vm_compute. reflexivity. Qed.
