(* C18 — commit creation.  Executable model of
     go/store/datas/commit.go          newCommitForValue, commit_flatbuffer (height)
     go/store/datas/commit_closure.go  writeFbCommitParentClosure
     go/store/prolly/commit_closure.go commitClosureKeyOrdering.Compare, Editor.Add,
                                       DiffCommitClosures, ContainsKey
   The store is append-only: creating a commit reads the stored records of its
   parents and appends one new record.  The id of a commit is its position
   (it stands for the address; see [rank] for the byte order of addresses).
   No proofs here. *)
From Coq Require Import List Arith Bool.
From Dolt Require Import Graph.CommitDag.
Import ListNotations.

(* A closure key is (height, commit); prolly/commit_closure.go NewCommitClosureKey. *)
Definition key := (nat * nat)%type.
Definition closure := list key.          (* kept in ascending key order, like the prolly map *)

Record commit := mkCommit {
  c_parents : list nat;                  (* ParentAddrs, in order, duplicates kept *)
  c_height  : nat;                       (* Height *)
  c_closure : closure                    (* the map stored at ParentClosure *)
}.

Definition no_commit : commit := mkCommit [] 0 [].
Definition store := list commit.
Definition get (s : store) (c : nat) : commit := nth c s no_commit.

Section WithRank.
  (* [rank c] is the position of commit c's 20-byte address in the byte-wise
     order of all addresses (bytes.Compare).  Incidental (a hash value): fed
     from the implementation in the correspondence run; theorems assume only
     that it is injective. *)
  Variable rank : nat -> nat.

  (* commitClosureKeyOrdering.Compare: height first, then address bytes *)
  Definition key_cmp (k1 k2 : key) : comparison :=
    match Nat.compare (fst k1) (fst k2) with
    | Eq => Nat.compare (rank (snd k1)) (rank (snd k2))
    | o => o
    end.

  (* CommitClosureEditor.Add = MutableMap.Put of a constant value: set insertion *)
  Fixpoint cl_insert (k : key) (l : closure) : closure :=
    match l with
    | [] => [k]
    | x :: r => match key_cmp k x with
                | Lt => k :: l
                | Eq => l
                | Gt => x :: cl_insert k r
                end
    end.

  Definition cl_mem (k : key) (l : closure) : bool :=
    existsb (fun x => match key_cmp k x with Eq => true | _ => false end) l.

  (* DiffCommitClosures(closures[0], closures[i]) restricted to AddedDiff:
     the keys of closures[i] that closures[0] does not have *)
  Definition cl_added (c0 ci : closure) : closure :=
    filter (fun k => negb (cl_mem k c0)) ci.

  (* writeFbCommitParentClosure: empty for a parent-less commit; otherwise an
     editor on the first parent's closure receives the keys the other parents'
     closures add (each diffed against the *first* closure), then one key per
     parent (its stored height, its address). *)
  Definition merge_closures (cls : list closure) (pkeys : list key) : closure :=
    match cls with
    | [] => []
    | c0 :: rest =>
      fold_left (fun acc k => cl_insert k acc)
                (flat_map (cl_added c0) rest ++ pkeys) c0
    end.

  (* newCommitForValue + commit_flatbuffer: heights[i] = parents[i].Height(),
     maxheight loop from 0, Height = maxheight + 1 *)
  Definition new_commit (s : store) (ps : list nat) : commit :=
    let pcs := map (get s) ps in
    let heights := map c_height pcs in
    mkCommit ps (S (max_of heights)) (merge_closures (map c_closure pcs) (combine heights ps)).

  (* the store after creating the commits of a history, in order *)
  Definition store_of (h : hist) : store := build new_commit h.

  Definition height (h : hist) (c : nat) : nat := c_height (get (store_of h) c).
  Definition closure_of (h : hist) (c : nat) : closure := c_closure (get (store_of h) c).
End WithRank.
