(* C18 — what commit metadata must say about the commit graph, stated on the
   graph alone (no reference to how heights / closures are computed), plus
   boolean forms used as the oracle on implementation observations. *)
From Coq Require Import List Arith Bool.
From Dolt Require Import Graph.CommitDag.
Import ListNotations.

(* n is the number of commits on the longest parent path starting at c
   (such a path necessarily ends in a root) *)
Definition longest_chain (h : hist) (c n : nat) : Prop :=
  chain h c n /\ forall m, chain h c m -> m <= n.

(* the recurrence of the property text: one more than the highest parent, one for a root *)
Definition height_recurrence (h : hist) (hgt : nat -> nat) (c : nat) : Prop :=
  hgt c = S (max_of (map hgt (parents h c))).

(* a stored closure lists exactly the proper ancestors of c, each once, each
   with its height *)
Definition closure_exact (h : hist) (hgt : nat -> nat) (c : nat) (cl : list (nat * nat)) : Prop :=
  NoDup cl /\ forall k, In k cl <-> exists a, anc h a c /\ k = (hgt a, a).

(* ---- boolean forms (oh = observed heights, by commit) ---- *)
Definition obs_height (oh : list nat) (c : nat) : nat := nth c oh 0.

Definition heights_okb (h : hist) (oh : list nat) : bool :=
  (length oh =? length h) &&
  forallb (fun c => obs_height oh c =? S (max_of (map (obs_height oh) (parents h c))))
          (seq 0 (length h)).

Definition key_eqb (k1 k2 : nat * nat) : bool := (fst k1 =? fst k2) && (snd k1 =? snd k2).

Definition closure_okb (ancs : list nat) (oh : list nat) (cl : list (nat * nat)) : bool :=
  (length cl =? length ancs)
  && forallb (fun a => existsb (key_eqb (obs_height oh a, a)) cl) ancs
  && forallb (fun k => memb (snd k) ancs && (fst k =? obs_height oh (snd k))) cl.

(* sel = the commits whose stored closure was read (all of them for small graphs);
   the brute-force ancestor table is computed once *)
Definition closures_okb (h : hist) (oh : list nat) (sel : list nat) (cls : list (list (nat * nat))) : bool :=
  let tbl := anc_table h in
  (length cls =? length sel) &&
  forallb (fun sc => closure_okb (nth (fst sc) tbl []) oh (snd sc)) (combine sel cls).
