(* C40 — correspondence: bytes + metadata the model says dolt emits, compared with what the real
   serializers emitted, and the property evaluated on the real bytes. *)
From Coq Require Import NArith ZArith List Bool.
From Dolt Require Import Base.Str C40.Model C40.Spec.
Import ListNotations.
Local Open Scope N_scope.

Definition model_enc (v : value) : option bytes :=
  match v with
  | VInt w _ z => Some (enc_int w z)
  | VYear y => Some (enc_year y)
  | VDate y m d => Some (enc_date y m d)
  | VDatetime fsp y mo d h mi s us => Some (enc_datetime2 fsp y mo d h mi s us)
  | VTimestamp fsp secs us => Some (enc_timestamp2 fsp secs us)
  | VTime neg h mi s us => Some (enc_time2 neg h mi s us)
  | VDecimal prec scale neg ip fp => enc_decimal prec scale neg ip fp
  | VString _ maxlen s => Some (enc_string maxlen s)
  | VBlob pack s => Some (enc_blob pack s)
  | VEnum members v => Some (enc_enum members v)
  | VSet members v => Some (enc_set members v)
  | VBit bits v => Some (enc_bit bits v)
  | VFloat bits => Some (enc_float bits)
  | VDouble bits => Some (enc_double bits)
  | VJson doc => enc_json_doc doc
  | VRow members v z => Some (enc_enum members v ++ enc_int 4 z)
  end.

(* (binlog type id, metadata) of the TABLE_MAP event *)
Definition model_meta (v : value) : N * N :=
  match v with
  | VInt w _ _ => ((if (w =? 1)%nat then 1 else if (w =? 2)%nat then 2 else if (w =? 3)%nat then 9 else if (w =? 4)%nat then 3 else 8), 0)
  | VYear _ => (13, 0)
  | VDate _ _ _ => (10, 0)
  | VDatetime fsp _ _ _ _ _ _ _ => (18, fsp)
  | VTimestamp fsp _ _ => (17, fsp)
  | VTime _ _ _ _ _ => (19, 6)
  | VDecimal prec scale _ _ _ => (246, prec * 256 + scale)
  | VString false maxlen _ => (15, maxlen)
  | VString true maxlen _ => (254, char_meta maxlen)
  | VBlob pack _ => (252, N.of_nat pack)
  | VEnum members _ => (254, 247 * 256 + N.of_nat (enum_width members))
  | VSet members _ => (254, 248 * 256 + N.of_nat (set_width members))
  | VBit bits _ => (16, (bits / 8) * 256 + bits mod 8)
  | VFloat _ => (4, 4)
  | VDouble _ => (5, 8)
  | VJson _ => (245, 4)
  | VRow members _ _ => (254, 247 * 256 + N.of_nat (enum_width members))     (* of the ENUM column *)
  end.

Record obs := { o_data : option bytes;   (* None: the serializer returned an error *)
                o_typ : N; o_meta : N;
                o_agree : bool }.        (* the vendored vitess decoder read the stored value back and consumed exactly the bytes *)

Definition case := (value * obs)%type.

Definition model_obs (v : value) : obs :=
  match model_enc v with
  | None => {| o_data := None; o_typ := 0; o_meta := 0; o_agree := false |}
  | Some b => {| o_data := Some b; o_typ := fst (model_meta v); o_meta := snd (model_meta v); o_agree := decodes_to v b |}
  end.

Definition obs_eqb (a b : obs) : bool :=
  match o_data a, o_data b with
  | None, None => true
  | Some x, Some y => beq_bytes x y && (o_typ a =? o_typ b) && (o_meta a =? o_meta b) && Bool.eqb (o_agree a) (o_agree b)
  | _, _ => false
  end.

(* the metadata tells the decoder the right size / shape for this column *)
Definition meta_ok (v : value) (typ meta : N) : bool :=
  match v with
  | VString true maxlen _ => (typ =? 254) && (char_meta_len meta =? maxlen)
  | VString false maxlen _ => (typ =? 15) && (meta =? maxlen)
  | VBit bits _ => (typ =? 16) && ((meta / 256) + (if 0 <? meta mod 256 then 1 else 0) =? N.of_nat (set_width bits))
  | VDecimal prec scale _ _ _ => (typ =? 246) && (meta / 256 =? prec) && (meta mod 256 =? scale)
  | VDatetime fsp _ _ _ _ _ _ _ => (typ =? 18) && (meta =? fsp)
  | VTimestamp fsp _ _ => (typ =? 17) && (meta =? fsp)
  | VTime _ _ _ _ _ => (typ =? 19) && (meta =? 6)
  | VBlob pack _ => (typ =? 252) && (meta =? N.of_nat pack)
  | VEnum members _ => (typ =? 254) && (meta / 256 =? 247) && (meta mod 256 =? N.of_nat (enum_width members))
  | VSet members _ => (typ =? 254) && (meta / 256 =? 248) && (meta mod 256 =? N.of_nat (set_width members))
  | _ => typ =? fst (model_meta v)
  end.

(* The property on what the implementation emitted for a value of the column's domain: it emitted bytes,
   a MySQL decoder (the model of the MySQL rules AND the vendored vitess decoder) reads the stored value
   back from them, and the metadata describes the column. *)
Definition oracle (v : value) (o : obs) : bool :=
  if negb (in_domain v) then true else
  match o_data o with
  | None => false
  | Some b => decodes_to v b && meta_ok v (o_typ o) (o_meta o) && o_agree o
  end.

Definition check_case (c : case) : N :=
  (if obs_eqb (model_obs (fst c)) (snd c) then 0 else 1)
  + (if oracle (fst c) (snd c) then 0 else 2).
