(* C40 — the property, independently of the encoders: the typed values a column can hold (domains), and
   "a standard MySQL decoder applied to the emitted bytes with the emitted metadata yields the stored value". *)
From Coq Require Import NArith ZArith List Bool.
From Dolt Require Import Base.Str C40.Model.
Import ListNotations.
Local Open Scope N_scope.

Inductive value :=
| VInt (w : nat) (signed : bool) (z : Z)
| VYear (y : Z)
| VDate (y m d : N)
| VDatetime (fsp y mo d h mi s us : N)
| VTimestamp (fsp secs us : N)
| VTime (neg : bool) (h mi s us : N)
| VDecimal (prec scale : N) (neg : bool) (ip fp : N)
| VString (fixed : bool) (maxlen : N) (s : bytes)         (* VARCHAR/VARBINARY (false) or CHAR/BINARY (true) *)
| VBlob (pack : nat) (s : bytes)                          (* TINY/-/MEDIUM/LONG BLOB or TEXT *)
| VEnum (members v : N)
| VSet (members v : N)
| VBit (bits v : N)
| VFloat (bits : N)                                       (* FLOAT, as its IEEE-754 single bit pattern *)
| VDouble (bits : N)
| VJson (doc : jv)
| VRow (members v : N) (z : Z).                           (* a row: an ENUM column followed by an INT column *)

(* JSON documents dolt can hold: byte strings below MySQL's 2^21-1 string limit, object keys (unique, in byte
   order) below 2^16 bytes, float64 numbers, nesting depth at most 60 *)
Fixpoint blt (a b : bytes) : bool :=
  match a, b with
  | _, [] => false
  | [], _ :: _ => true
  | x :: a', y :: b' => (x <? y) || ((x =? y) && blt a' b')
  end.
Fixpoint keys_sorted (ks : list bytes) : bool :=
  match ks with
  | a :: ((b :: _) as r) => blt a b && keys_sorted r
  | _ => true
  end.
Definition str_ok (s : bytes) (lim : N) : bool := (N.of_nat (length s) <? lim) && forallb (fun c => c <? 256) s.
Fixpoint jv_ok (depth : nat) (v : jv) : bool :=
  match depth with
  | O => false
  | S d =>
    match v with
    | JNull | JTrue | JFalse => true
    | JNum bits => bits <? 18446744073709551616
    | JStr s => str_ok s 2097152
    | JArr l => forallb (jv_ok d) l
    | JObj l => forallb (fun kv => str_ok (fst kv) 65536 && jv_ok d (snd kv)) l && keys_sorted (map fst l)
    end
  end.

Fixpoint jv_eqb (a b : jv) : bool :=
  match a, b with
  | JNull, JNull | JTrue, JTrue | JFalse, JFalse => true
  | JNum x, JNum y => x =? y
  | JStr x, JStr y => beq_bytes x y
  | JArr l, JArr m =>
    (fix go (l m : list jv) : bool :=
       match l, m with [], [] => true | x :: l', y :: m' => jv_eqb x y && go l' m' | _, _ => false end) l m
  | JObj l, JObj m =>
    (fix go (l m : list (bytes * jv)) : bool :=
       match l, m with
       | [], [] => true
       | (k, x) :: l', (k', y) :: m' => beq_bytes k k' && jv_eqb x y && go l' m'
       | _, _ => false end) l m
  | _, _ => false
  end.

Definition frac_aligned (fsp us : N) : bool :=
  (us <? 1000000) &&
  (if fsp =? 0 then us =? 0 else if fsp <=? 2 then us mod 10000 =? 0 else if fsp <=? 4 then us mod 100 =? 0 else true).

(* the values of each column type (what MySQL can store in such a column) *)
Definition in_domain (v : value) : bool :=
  match v with
  | VInt w signed z =>
    ((w =? 1) || (w =? 2) || (w =? 3) || (w =? 4) || (w =? 8))%nat &&
    (if signed then (- Z.of_N (pow256 w / 2) <=? z)%Z && (z <? Z.of_N (pow256 w / 2))%Z
     else (0 <=? z)%Z && (z <? Z.of_N (pow256 w))%Z)
  | VYear y => (y =? 0)%Z || ((1901 <=? y)%Z && (y <=? 2155)%Z)
  | VDate y m d => (y <=? 9999) && (m <=? 12) && (d <=? 31)
  | VDatetime fsp y mo d h mi s us =>
    (fsp <=? 6) && (y <=? 9999) && (mo <=? 12) && (d <=? 31) && (h <=? 23) && (mi <=? 59) && (s <=? 59) && frac_aligned fsp us
  | VTimestamp fsp secs us => (fsp <=? 6) && (secs <? 4294967296) && frac_aligned fsp us
  | VTime neg h mi s us => (h <=? 838) && (mi <=? 59) && (s <=? 59) && (us <? 1000000)
  | VDecimal prec scale neg ip fp =>
    (1 <=? prec) && (prec <=? 65) && (scale <=? 30) && (scale <=? prec)
    && (ip <? pow10 (prec - scale)) && (fp <? pow10 scale) && negb (neg && (ip =? 0) && (fp =? 0))
  | VString fixed maxlen s => (N.of_nat (length s) <=? maxlen) && (maxlen <? (if fixed then 1024 else 65536)) && forallb (fun c => c <? 256) s
  | VBlob pack s => ((1 <=? pack) && (pack <=? 4))%nat && (N.of_nat (length s) <? pow256 pack) && forallb (fun c => c <? 256) s
  | VEnum members v => (1 <=? members) && (members <=? 65535) && (v <=? members)
  | VSet members v => (1 <=? members) && (members <=? 64) && (v <? 2 ^ members)
  | VBit bits v => (1 <=? bits) && (bits <=? 64) && (v <? 2 ^ bits)
  | VFloat bits => bits <? 4294967296
  | VDouble bits => bits <? 18446744073709551616
  | VJson doc => jv_ok 60 doc
  | VRow members v z => (1 <=? members) && (members <=? 65535) && (v <=? members)
                        && (- 2147483648 <=? z)%Z && (z <? 2147483648)%Z
  end.

Definition opt_eqb {A} (eq : A -> A -> bool) (a : option A) (b : A) : bool :=
  match a with Some x => eq x b | None => false end.

(* a MySQL decoder, given the column's metadata, reads exactly these bytes back as the stored value *)
Definition decodes_to (v : value) (b : bytes) : bool :=
  match v with
  | VInt w signed z => opt_eqb Z.eqb (if signed then dec_sint w b else dec_uint w b) z
  | VYear y => opt_eqb Z.eqb (dec_year b) y
  | VDate y m d => match dec_date b with Some (y', m', d') => (y' =? y) && (m' =? m) && (d' =? d) | None => false end
  | VDatetime fsp y mo d h mi s us =>
    match dec_datetime2 fsp b with
    | Some (y', mo', d', h', mi', s', us') => (y' =? y) && (mo' =? mo) && (d' =? d) && (h' =? h) && (mi' =? mi) && (s' =? s) && (us' =? us)
    | None => false end
  | VTimestamp fsp secs us => match dec_timestamp2 fsp b with Some (a, c) => (a =? secs) && (c =? us) | None => false end
  | VTime neg h mi s us =>
    match dec_time2 b with
    | Some (n', h', mi', s', us') => Bool.eqb n' (neg && (0 <? h + mi + s + us)) && (h' =? h) && (mi' =? mi) && (s' =? s) && (us' =? us)
    | None => false end
  | VDecimal prec scale neg ip fp =>
    match dec_decimal prec scale b with Some (n', ip', fp') => Bool.eqb n' neg && (ip' =? ip) && (fp' =? fp) | None => false end
  | VString fixed maxlen s => opt_eqb beq_bytes (dec_string maxlen b) s
  | VBlob pack s => opt_eqb beq_bytes (dec_blob pack b) s
  | VEnum members v => opt_eqb N.eqb (dec_enum members b) v
  | VSet members v => opt_eqb N.eqb (dec_set members b) v
  | VBit bits v => opt_eqb N.eqb (dec_bit bits b) v
  | VFloat bits => opt_eqb N.eqb (dec_float b) bits
  | VDouble bits => opt_eqb N.eqb (dec_double b) bits
  | VJson doc => opt_eqb jv_eqb (dec_json_doc 64 b) doc
  | VRow members v z =>
    (* the decoder takes the width of the ENUM cell from the column metadata and reads the INT after it *)
    let w := enum_width members in
    opt_eqb N.eqb (dec_enum members (firstn w b)) v && opt_eqb Z.eqb (dec_sint 4 (skipn w b)) z
  end.
