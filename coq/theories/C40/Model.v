(* C40 — binlog row-event field encodings.  Executable model of what dolt emits
     go/libraries/doltcore/sqle/binlogreplication/binlog_type_serialization.go
       integerSerializer, yearSerializer, dateSerializer, datetimeSerializer, timestampSerializer,
       timeSerializer, decimalSerializer (+ encodePartialDecimalBits / encodeDecimalBits),
       stringSerializer / encodeBytes, blobSerializer / textSerializer / encodeBlobBytes,
       enumSerializer, setSerializer, bitSerializer          (serialize + metadata)
   and of the MySQL-side decoder of the same row-event formats (log_event.cc / my_time.cc / decimal.c
   rules: little-endian integers, YEAR, 3-byte DATE, TIME2 / DATETIME2 / TIMESTAMP2 packed big-endian
   with fractional bytes by fsp, NEWDECIMAL base-10^9 groups, length prefixes by metadata).
   Values are numbers (N / Z) and byte strings; no proofs here. *)
From Coq Require Import NArith ZArith List Bool.
From Dolt Require Import Base.Str.
Import ListNotations.
Local Open Scope N_scope.

(* ---- fixed-base positional notation, most significant digit first ---- *)
Fixpoint to_base (B : N) (k : nat) (n : N) : list N :=
  match k with
  | O => []
  | S k' => to_base B k' (n / B) ++ [n mod B]
  end.
Definition of_base (B : N) (l : list N) : N := fold_left (fun acc d => acc * B + d) l 0.

Definition be_bytes (k : nat) (n : N) : bytes := to_base 256 k n.      (* binary.BigEndian.PutUintXX, low k bytes *)
Definition be_val (b : bytes) : N := of_base 256 b.
Definition le_bytes (k : nat) (n : N) : bytes := rev (to_base 256 k n). (* binary.LittleEndian.PutUintXX, low k bytes *)
Definition le_val (b : bytes) : N := of_base 256 (rev b).

(* ---- integers: TINY/SHORT/INT24/LONG/LONGLONG, width in bytes ---- *)
Definition pow256 (w : nat) : N := 256 ^ N.of_nat w.
(* uintN(value) of a signed value, little endian, low w bytes *)
Definition enc_int (w : nat) (z : Z) : bytes := le_bytes w (Z.to_N (z mod Z.of_N (pow256 w))).
Definition dec_uint (w : nat) (b : bytes) : option Z :=
  if (length b =? w)%nat then Some (Z.of_N (le_val b)) else None.
Definition dec_sint (w : nat) (b : bytes) : option Z :=
  if (length b =? w)%nat then
    let n := le_val b in
    Some (if n <? pow256 w / 2 then Z.of_N n else (Z.of_N n - Z.of_N (pow256 w))%Z)
  else None.

(* ---- YEAR: 0000 -> 0, else byte(intValue - 1900) ; MySQL: 0 -> 0000, b -> 1900 + b ---- *)
Definition enc_year (y : Z) : bytes := if (y =? 0)%Z then [0] else [Z.to_N ((y - 1900) mod 256)].
Definition dec_year (b : bytes) : option Z :=
  match b with [v] => Some (if v =? 0 then 0%Z else (1900 + Z.of_N v)%Z) | _ => None end.

(* ---- DATE (3 bytes little endian): year<<9 | month<<5 | day ---- *)
Definition enc_date (y m d : N) : bytes := le_bytes 3 ((y * 512 + m * 32 + d) mod 16777216).
Definition dec_date (b : bytes) : option (N * N * N) :=
  if (length b =? 3)%nat then
    let v := le_val b in Some (v / 512, (v / 32) mod 16, v mod 32)
  else None.

(* ---- fractional seconds by fsp ---- *)
Definition frac_len (fsp : N) : nat :=
  if fsp =? 0 then 0%nat else if fsp <=? 2 then 1%nat else if fsp <=? 4 then 2%nat else 3%nat.
Definition enc_frac (fsp us : N) : bytes :=
  if fsp =? 0 then []
  else if fsp <=? 2 then [(us / 10000) mod 256]
  else if fsp <=? 4 then be_bytes 2 (us / 100)
  else be_bytes 3 us.
Definition dec_frac (fsp : N) (b : bytes) : N :=
  if fsp =? 0 then 0
  else if fsp <=? 2 then be_val b * 10000
  else if fsp <=? 4 then be_val b * 100
  else be_val b.

(* ---- DATETIME2: 5 bytes big endian, ((year*13+month)<<5 | day)<<17 | hour<<12 | minute<<6 | second, + 0x8000000000 ---- *)
Definition dt_ofs : N := 549755813888.      (* 0x8000000000 *)
Definition enc_datetime2 (fsp y mo d h mi s us : N) : bytes :=
  let ymd := (y * 13 + mo) * 32 + d in
  let hms := h * 4096 + mi * 64 + s in
  be_bytes 5 (ymd * 131072 + hms + dt_ofs) ++ enc_frac fsp us.
Definition dec_datetime2 (fsp : N) (b : bytes) : option (N * N * N * N * N * N * N) :=
  if (length b =? 5 + frac_len fsp)%nat then
    let v := be_val (firstn 5 b) - dt_ofs in
    let ymd := v / 131072 in let hms := v mod 131072 in
    let ym := ymd / 32 in
    Some (ym / 13, ym mod 13, ymd mod 32, hms / 4096, (hms / 64) mod 64, hms mod 64, dec_frac fsp (skipn 5 b))
  else None.

(* ---- TIMESTAMP2: 4 bytes big endian seconds since the epoch + fraction ---- *)
Definition enc_timestamp2 (fsp secs us : N) : bytes := be_bytes 4 secs ++ enc_frac fsp us.
Definition dec_timestamp2 (fsp : N) (b : bytes) : option (N * N) :=
  if (length b =? 4 + frac_len fsp)%nat then Some (be_val (firstn 4 b), dec_frac fsp (skipn 4 b)) else None.

(* ---- TIME2 with fsp 6 (dolt always uses 6): timeSerializer.serialize, as written ---- *)
Definition t_ofs : N := 8388608.            (* 0x800000 *)
Definition enc_time2 (neg : bool) (h mi s us : N) : bytes :=
  if neg && (0 <? us) then
    (* seconds++ with carry into minutes and hours; microseconds = 0x1000000 - microseconds *)
    let s1 := s + 1 in
    let '(s2, mi1) := if s1 =? 60 then (0, mi + 1) else (s1, mi) in
    let '(mi2, h2) := if mi1 =? 60 then (0, h + 1) else (mi1, h) in
    let hms := (h2 * 4096 + mi2 * 64 + s2 + t_ofs) mod 4294967296 in
    be_bytes 3 ((4294967296 - hms) mod 16777216) ++ be_bytes 3 (16777216 - us)
  else
    let hms := (h * 4096 + mi * 64 + s + t_ofs) mod 4294967296 in
    be_bytes 3 ((if neg then 4294967296 - hms else hms) mod 16777216) ++ be_bytes 3 us.
(* MySQL: the 6 bytes are one big-endian number minus 0x800000000000; its sign is the sign of the
   value, its absolute value is hms<<24 | microseconds *)
Definition t_ofs6 : N := 140737488355328.   (* 0x800000000000 *)
Definition dec_time2 (b : bytes) : option (bool * N * N * N * N) :=
  if (length b =? 6)%nat then
    let v := be_val b in
    let neg := v <? t_ofs6 in
    let a := if neg then t_ofs6 - v else v - t_ofs6 in
    let hms := a / 16777216 in
    Some (neg && (0 <? a), hms / 4096, (hms / 64) mod 64, hms mod 64, a mod 16777216)
  else None.

(* ---- NEWDECIMAL(precision, scale) ---- *)
Definition dig2bytes (d : N) : nat :=
  if d =? 0 then 0%nat else if d <=? 2 then 1%nat else if d <=? 4 then 2%nat else if d <=? 6 then 3%nat else 4%nat.
Definition pow10 (k : N) : N := 10 ^ k.
Definition B9 : N := 1000000000.

(* value = (-1)^neg * (ip + fp / 10^scale), ip < 10^(precision-scale), fp < 10^scale.
   The digit groups before the sign handling: leftover integer digits, full 9-digit integer groups,
   full 9-digit fractional groups, leftover fractional digits. *)
Definition enc_decimal_raw (prec scale ip fp : N) : bytes :=
  let intg := prec - scale in
  let intg0 := intg / 9 in let frac0 := scale / 9 in
  let intg0x := intg - intg0 * 9 in let frac0x := scale - frac0 * 9 in
  be_bytes (dig2bytes intg0x) (ip / pow10 (9 * intg0))
  ++ flat_map (be_bytes 4) (to_base B9 (N.to_nat intg0) (ip mod pow10 (9 * intg0)))
  ++ flat_map (be_bytes 4) (to_base B9 (N.to_nat frac0) (fp / pow10 frac0x))
  ++ be_bytes (dig2bytes frac0x) (fp mod pow10 frac0x).

(* (DECIMAL(M,M): the integer string "0" is dropped since c26eb40 — no integer bytes; the sign bit then sits in the first
   fractional byte, as in MySQL's decimal2bin) *)
Definition enc_decimal (prec scale : N) (neg : bool) (ip fp : N) : option bytes :=
  match enc_decimal_raw prec scale ip fp with
  | [] => Some []
  | b0 :: r =>
    let pos := N.lxor b0 128 :: r in
    Some (if neg then map (fun x => N.lxor x 255) pos else pos)
  end.

Fixpoint chunks4 (k : nat) (b : bytes) : list N :=
  match k with O => [] | S k' => be_val (firstn 4 b) :: chunks4 k' (skipn 4 b) end.

Definition dec_decimal_raw (prec scale : N) (raw : bytes) : N * N :=
  let intg := prec - scale in
  let intg0 := intg / 9 in let frac0 := scale / 9 in
  let intg0x := intg - intg0 * 9 in let frac0x := scale - frac0 * 9 in
  let l1 := dig2bytes intg0x in let l2 := (4 * N.to_nat intg0)%nat in
  let l3 := (4 * N.to_nat frac0)%nat in
  let c1 := firstn l1 raw in let r1 := skipn l1 raw in
  let c2 := firstn l2 r1 in let r2 := skipn l2 r1 in
  let c3 := firstn l3 r2 in let c4 := skipn l3 r2 in
  (be_val c1 * pow10 (9 * intg0) + of_base B9 (chunks4 (N.to_nat intg0) c2),
   of_base B9 (chunks4 (N.to_nat frac0) c3) * pow10 frac0x + be_val c4).

Definition decimal_len (prec scale : N) : nat :=
  let intg := prec - scale in
  let intg0 := intg / 9 in let frac0 := scale / 9 in
  (dig2bytes (intg - intg0 * 9) + 4 * N.to_nat intg0 + 4 * N.to_nat frac0 + dig2bytes (scale - frac0 * 9))%nat.

(* MySQL bin2decimal *)
Definition dec_decimal (prec scale : N) (b : bytes) : option (bool * N * N) :=
  if negb (length b =? decimal_len prec scale)%nat then None else
  match b with
  | [] => Some (false, 0, 0)
  | b0 :: r =>
    let neg := negb (N.testbit b0 7) in
    let pos := if neg then map (fun x => N.lxor x 255) b else b in
    match pos with
    | [] => None
    | p0 :: pr => let '(ip, fp) := dec_decimal_raw prec scale (N.lxor p0 128 :: pr) in Some (neg, ip, fp)
    end
  end.

(* ---- length-prefixed byte strings ---- *)
(* VARCHAR/VARBINARY/CHAR/BINARY (encodeBytes): 1 length byte when the declared maximum byte length
   is <= 255, else 2 (little endian) *)
Definition enc_string (maxlen : N) (s : bytes) : bytes :=
  if 255 <? maxlen then le_bytes 2 (N.of_nat (length s)) ++ s else [N.of_nat (length s) mod 256] ++ s.
Definition dec_string (maxlen : N) (b : bytes) : option bytes :=
  let k := if 255 <? maxlen then 2%nat else 1%nat in
  let l := le_val (firstn k b) in
  if (length b =? k + N.to_nat l)%nat then Some (skipn k b) else None.
(* CHAR metadata: ((0xFE << 8) ^ ((len >> 8) << 12)) | (len & 0xFF); the decoder recovers the length as
   (((m >> 4) & 0x300) ^ 0x300) + (m & 0xFF) *)
Definition char_meta (len : N) : N := N.lor (N.lxor 65024 ((len / 256) * 4096)) (len mod 256).
Definition char_meta_len (m : N) : N := N.lxor (N.land (m / 16) 768) 768 + N.land m 255.

(* BLOB/TEXT/JSON/GEOMETRY (encodeBlobBytes): pack length 1..4 from the metadata *)
Definition enc_blob (pack : nat) (s : bytes) : bytes := le_bytes pack (N.of_nat (length s)) ++ s.
Definition dec_blob (pack : nat) (b : bytes) : option bytes :=
  let l := le_val (firstn pack b) in
  if (length b =? pack + N.to_nat l)%nat then Some (skipn pack b) else None.

(* ---- ENUM (1 or 2 bytes LE by member count), SET ((n+7)/8 bytes LE), BIT ((bits+7)/8 bytes BE) ---- *)
Definition enum_width (members : N) : nat := if members <=? 255 then 1%nat else 2%nat.
Definition enc_enum (members v : N) : bytes := le_bytes (enum_width members) v.
Definition dec_enum (members : N) (b : bytes) : option N :=
  if (length b =? enum_width members)%nat then Some (le_val b) else None.
Definition set_width (members : N) : nat := N.to_nat ((members + 7) / 8).
Definition enc_set (members v : N) : bytes := le_bytes (set_width members) v.
Definition dec_set (members : N) (b : bytes) : option N :=
  if (length b =? set_width members)%nat then Some (le_val b) else None.
Definition enc_bit (bits v : N) : bytes := be_bytes (set_width bits) v.
Definition dec_bit (bits : N) (b : bytes) : option N :=
  if (length b =? set_width bits)%nat then Some (be_val b) else None.
(* metadata of BIT: bytes<<8 | bits%8 ; the decoder reads bytes + (bits%8 > 0) bytes *)
Definition bit_meta_len (bits : N) : N := bits / 8 + (if 0 <? bits mod 8 then 1 else 0).

(* ---- FLOAT / DOUBLE: math.Float32bits / Float64bits, little endian.  Values are their IEEE bit patterns. ---- *)
Definition enc_float (bits : N) : bytes := le_bytes 4 bits.
Definition dec_float (b : bytes) : option N := if (length b =? 4)%nat then Some (le_val b) else None.
Definition enc_double (bits : N) : bytes := le_bytes 8 bits.
Definition dec_double (b : bytes) : option N := if (length b =? 8)%nat then Some (le_val b) else None.

(* ---- JSON binary format (binlog_json_serialization.go): the subset dolt emits — literals, doubles (every
   number is a float64), strings, arrays, objects, small and large formats ---- *)
Inductive jv :=
| JNull | JTrue | JFalse
| JNum (bits : N)                    (* float64 bit pattern *)
| JStr (s : bytes)
| JArr (l : list jv)
| JObj (l : list (bytes * jv)).      (* keys in sort.Strings order *)

Definition u32 : N := 4294967296.
Definition u32sub (a b : N) : N := (a + u32 - b mod u32) mod u32.     (* uint32 subtraction *)

(* appendStringLength *)
Definition json_str_len (n : N) : option bytes :=
  (* byte(length&0x7F|0x80) = length mod 128 + 128, byte(length>>7|0x80) = (length/128) mod 128 + 128, byte(length>>14) *)
  if 2097151 <? n then None
  else if 16383 <? n then Some [n mod 128 + 128; (n / 128) mod 128 + 128; (n / 16384) mod 256]
  else if 127 <? n then Some [n mod 128 + 128; (n / 128) mod 256]
  else Some [n].

(* appendForEncoding: byte(value), byte(value>>8) [, byte(value>>16), byte(value>>24)] *)
Definition json_word (large : bool) (v : N) : bytes := if large then le_bytes 4 (v mod u32) else le_bytes 2 (v mod 65536).
Definition json_w (large : bool) : N := if large then 4 else 2.

(* value entries + values, starting at offset off; None = "offset too large for small ... encoding"
   (an entry longer than 65535 bytes, or an offset that would pass 65535) *)
Fixpoint json_values (large : bool) (es : list (N * bytes)) (off : N) : option (bytes * bytes * N) :=
  match es with
  | [] => Some ([], [], off)
  | (t, e) :: r =>
    if t =? 4 then
      match json_values large r off with
      | Some (ents, vals, off') => Some (4 :: json_word large (hd 0 e) ++ ents, vals, off')
      | None => None
      end
    else if negb large && ((65535 <? N.of_nat (length e) mod u32) || (u32sub 65535 (N.of_nat (length e)) <? off)) then None
    else match json_values large r ((off + N.of_nat (length e)) mod u32) with
         | Some (ents, vals, off') => Some (t :: json_word large off ++ ents, e ++ vals, off')
         | None => None
         end
  end.

Definition json_array_layout (large : bool) (es : list (N * bytes)) : option bytes :=
  let n := N.of_nat (length es) in
  if negb large && (65535 <? n) then None else
  let off0 := if large then 8 + n * 5 else 4 + n * 3 in
  match json_values large es (off0 mod u32) with
  | None => None
  | Some (ents, vals, off) => Some (json_word large n ++ json_word large off ++ ents ++ vals)
  end.

(* key entries: offset word + byte(len), byte(len>>8) *)
Fixpoint json_keys (large : bool) (ks : list bytes) (off : N) : option (bytes * bytes * N) :=
  match ks with
  | [] => Some ([], [], off)
  | k :: r =>
    if negb large && ((65535 <? N.of_nat (length k) mod u32) || (u32sub 65535 (N.of_nat (length k)) <? off)) then None
    else match json_keys large r ((off + N.of_nat (length k)) mod u32) with
         | Some (ents, keys, off') => Some (json_word large off ++ [N.of_nat (length k) mod 256; (N.of_nat (length k) / 256) mod 256] ++ ents, k ++ keys, off')
         | None => None
         end
  end.

Definition json_object_layout (large : bool) (ks : list bytes) (es : list (N * bytes)) : option bytes :=
  let n := N.of_nat (length ks) in
  let off0 := if large then 8 + n * 6 + n * 5 else 4 + n * 4 + n * 3 in
  match json_keys large ks (off0 mod u32) with
  | None => None
  | Some (kents, keys, koff) =>
    match json_values large es koff with
    | None => None
    | Some (ents, vals, off) => Some (json_word large n ++ json_word large off ++ kents ++ ents ++ keys ++ vals)
    end
  end.

Fixpoint opt_all {A} (l : list (option A)) : option (list A) :=
  match l with
  | [] => Some []
  | Some x :: r => match opt_all r with Some xs => Some (x :: xs) | None => None end
  | None :: _ => None
  end.

(* encodeJsonValue: (type id, bytes) *)
Fixpoint enc_json (v : jv) : option (N * bytes) :=
  match v with
  | JNull => Some (4, [0]) | JTrue => Some (4, [1]) | JFalse => Some (4, [2])
  | JNum bits => Some (11, le_bytes 8 bits)
  | JStr s => match json_str_len (N.of_nat (length s)) with Some lb => Some (12, lb ++ s) | None => None end
  | JArr l =>
    match opt_all (map enc_json l) with
    | None => None
    | Some es =>
      match json_array_layout false es with
      | Some b => Some (2, b)
      | None => match json_array_layout true es with Some b => Some (3, b) | None => None end
      end
    end
  | JObj l =>
    match opt_all (map (fun kv => enc_json (snd kv)) l) with
    | None => None
    | Some es =>
      match json_object_layout false (map fst l) es with
      | Some b => Some (0, b)
      | None => match json_object_layout true (map fst l) es with Some b => Some (1, b) | None => None end
      end
    end
  end.

(* jsonSerializer.serialize: 4-byte little-endian length, type id, value *)
Definition enc_json_doc (v : jv) : option bytes :=
  match enc_json v with
  | Some (t, b) => Some (le_bytes 4 (N.of_nat (S (length b)) mod u32) ++ t :: b)
  | None => None
  end.

(* MySQL json_binary.cc parse rules *)
Definition sub (d : bytes) (off len : N) : bytes := firstn (N.to_nat len) (skipn (N.to_nat off) d).

(* read_variable_length: 7 bits per byte, high bit = continue, at most 5 bytes *)
Fixpoint json_read_len (k : nat) (d : bytes) (shift acc : N) : option (N * N) :=   (* (length, bytes used) *)
  match k, d with
  | S k', b :: r =>
    let acc' := acc + (b mod 128) * shift in
    if 128 <=? b then match json_read_len k' r (shift * 128) acc' with Some (l, n) => Some (l, n + 1) | None => None end
    else Some (acc', 1)
  | _, _ => None
  end.

Fixpoint dec_json (fuel : nat) (t : N) (d : bytes) : option jv :=
  match fuel with
  | O => None
  | S f =>
    if t =? 4 then
      match d with
      | b :: _ => if b =? 0 then Some JNull else if b =? 1 then Some JTrue else if b =? 2 then Some JFalse else None
      | [] => None
      end
    else if t =? 11 then (if (8 <=? length d)%nat then Some (JNum (le_val (firstn 8 d))) else None)
    else if t =? 12 then
      match json_read_len 5 d 1 0 with
      | Some (l, n) => if (N.to_nat (n + l) <=? length d)%nat then Some (JStr (sub d n l)) else None
      | None => None
      end
    else if (t =? 2) || (t =? 3) || (t =? 0) || (t =? 1) then
      let large := (t =? 3) || (t =? 1) in
      let isobj := (t =? 0) || (t =? 1) in
      let w := json_w large in
      if (length d <? N.to_nat (2 * w))%nat then None else
      let count := le_val (sub d 0 w) in
      let size := le_val (sub d w w) in
      if (length d <? N.to_nat size)%nat then None else
      let kent := if isobj then w + 2 else 0 in
      let hdr := 2 * w + count * kent + count * (1 + w) in
      if size <? hdr then None else
      let body := firstn (N.to_nat size) d in
      let value i :=
        let eoff := 2 * w + count * kent + i * (1 + w) in
        let et := nth (N.to_nat eoff) body 255 in
        if et =? 4 then dec_json f 4 (sub body (eoff + 1) 1)
        else let off := le_val (sub body (eoff + 1) w) in
             if (off <? hdr) || (size <=? off) then None else dec_json f et (sub body off (size - off)) in
      let idx := map N.of_nat (seq 0 (N.to_nat count)) in
      if isobj then
        let key i :=
          let koff := le_val (sub body (2 * w + i * kent) w) in
          let klen := le_val (sub body (2 * w + i * kent + w) 2) in
          if (koff <? hdr) || (size <? koff + klen) then None else Some (sub body koff klen) in
        match opt_all (map key idx), opt_all (map value idx) with
        | Some ks, Some vs => Some (JObj (combine ks vs))
        | _, _ => None
        end
      else match opt_all (map value idx) with Some vs => Some (JArr vs) | None => None end
    else None
  end.

Definition dec_json_doc (fuel : nat) (b : bytes) : option jv :=
  if (length b <? 5)%nat then None else
  let l := le_val (firstn 4 b) in
  if negb (length b =? 4 + N.to_nat l)%nat then None else
  match skipn 4 b with
  | t :: d => dec_json fuel t d
  | [] => None
  end.
