(* C40 — proofs: decode (encode v) = v for every value of each column type's domain. *)
From Coq Require Import NArith ZArith List Bool Lia.
From Dolt Require Import Base.Str C40.Model C40.Spec C40.Corr.
Import ListNotations.
Local Open Scope N_scope.

Ltac Zify.zify_post_hook ::= Z.to_euclidean_division_equations.

(* ---- positional notation ---- *)
Lemma of_base_snoc B l d : of_base B (l ++ [d]) = of_base B l * B + d.
Proof. unfold of_base. rewrite fold_left_app. reflexivity. Qed.

Lemma to_base_length B k n : length (to_base B k n) = k.
Proof. revert n. induction k as [|k IH]; intros n; [reflexivity|]. cbn [to_base]. rewrite app_length, IH. cbn. lia. Qed.

Lemma of_to_base B k n : 0 < B -> n < B ^ N.of_nat k -> of_base B (to_base B k n) = n.
Proof.
  intros HB. revert n. induction k as [|k IH]; intros n Hn.
  - cbn in Hn. cbn. lia.
  - cbn [to_base]. rewrite of_base_snoc. rewrite IH.
    + pose proof (N.div_mod n B ltac:(lia)). lia.
    + rewrite Nat2N.inj_succ, N.pow_succ_r' in Hn. apply N.div_lt_upper_bound; lia.
Qed.

Lemma of_base_app B a b : of_base B (a ++ b) = of_base B a * B ^ N.of_nat (length b) + of_base B b.
Proof.
  revert a. induction b as [|d b IH] using rev_ind; intros a.
  - rewrite app_nil_r. cbn. lia.
  - rewrite app_assoc, !of_base_snoc, IH, app_length. cbn [length]. rewrite Nat.add_1_r, Nat2N.inj_succ, N.pow_succ_r'. lia.
Qed.

Lemma be_roundtrip k n : n < pow256 k -> be_val (be_bytes k n) = n.
Proof. intros H. apply of_to_base; [lia|exact H]. Qed.
Lemma le_roundtrip k n : n < pow256 k -> le_val (le_bytes k n) = n.
Proof. intros H. unfold le_val, le_bytes. rewrite rev_involutive. apply of_to_base; [lia|exact H]. Qed.
Lemma be_length k n : length (be_bytes k n) = k.
Proof. apply to_base_length. Qed.
Lemma le_length k n : length (le_bytes k n) = k.
Proof. unfold le_bytes. rewrite rev_length. apply to_base_length. Qed.

Lemma firstn_app_exact {A} (a b : list A) k : length a = k -> firstn k (a ++ b) = a.
Proof. intros <-. rewrite firstn_app, Nat.sub_diag, firstn_all, firstn_O, app_nil_r. reflexivity. Qed.
Lemma skipn_app_exact {A} (a b : list A) k : length a = k -> skipn k (a ++ b) = b.
Proof. intros <-. rewrite skipn_app, Nat.sub_diag, skipn_all. reflexivity. Qed.

Lemma pow256_pos w : 0 < pow256 w.
Proof. unfold pow256. apply N.neq_0_lt_0. apply N.pow_nonzero. lia. Qed.

Lemma pow256_half w : (0 < w)%nat -> pow256 w = 2 * (pow256 w / 2) /\ 0 < pow256 w / 2.
Proof.
  intros Hw. destruct w as [|w]; [lia|]. unfold pow256. rewrite Nat2N.inj_succ, N.pow_succ_r'.
  replace (256 * 256 ^ N.of_nat w) with ((128 * 256 ^ N.of_nat w) * 2) by lia.
  rewrite N.div_mul by lia. pose proof (pow256_pos w) as H. unfold pow256 in H. lia.
Qed.

(* ---- integers ---- *)
Theorem int_roundtrip w signed z :
  in_domain (VInt w signed z) = true -> decodes_to (VInt w signed z) (enc_int w z) = true.
Proof.
  cbn [in_domain decodes_to]. intros H. apply andb_true_iff in H as [Hw Hr].
  assert (Hw0 : (0 < w)%nat) by (destruct w; [discriminate Hw | lia]).
  destruct (pow256_half w Hw0) as [He Hh]. set (M := pow256 w) in *. set (h := M / 2) in *.
  unfold enc_int. fold M.
  assert (Hlt : Z.to_N (z mod Z.of_N M) < M) by (pose proof (Z.mod_pos_bound z (Z.of_N M) ltac:(lia)); lia).
  unfold dec_sint, dec_uint. rewrite le_length, Nat.eqb_refl. rewrite (le_roundtrip w _ Hlt). fold M. fold h.
  destruct signed; unfold opt_eqb; apply Z.eqb_eq.
  - apply andb_true_iff in Hr as [H1 H2]. apply Z.leb_le in H1. apply Z.ltb_lt in H2.
    fold h in H1, H2.
    assert (Hmod : (z mod Z.of_N M = if (z <? 0)%Z then z + Z.of_N M else z)%Z).
    { destruct (z <? 0)%Z eqn:Ez; [apply Z.ltb_lt in Ez | apply Z.ltb_ge in Ez].
      - rewrite <- (Z_mod_plus_full z 1 (Z.of_N M)), Z.mul_1_l. apply Z.mod_small. lia.
      - apply Z.mod_small. lia. }
    rewrite Hmod.
    destruct (z <? 0)%Z eqn:Ez; [apply Z.ltb_lt in Ez | apply Z.ltb_ge in Ez];
      (destruct (_ <? h) eqn:E; [apply N.ltb_lt in E | apply N.ltb_ge in E]); lia.
  - apply andb_true_iff in Hr as [H1 H2]. apply Z.leb_le in H1. apply Z.ltb_lt in H2.
    fold M in H2. rewrite Z.mod_small by lia. lia.
Qed.

(* ---- YEAR ---- *)
Theorem year_roundtrip y :
  (1901 <= y <= 2155)%Z -> decodes_to (VYear y) (enc_year y) = true.
Proof.
  intros Hy. cbn [decodes_to]. unfold enc_year, dec_year, opt_eqb.
  destruct (Z.to_N ((y - 1900) mod 256) =? 0) eqn:E; [apply N.eqb_eq in E | apply N.eqb_neq in E]; apply Z.eqb_eq; lia.
Qed.

(* the zero year 0000 is a YEAR value; dolt emits byte(0 - 1900) = 148, which a replica reads as 2048 *)
Theorem year_zero_refuted :
  exists y, in_domain (VYear y) = true /\ decodes_to (VYear y) (enc_year y) = false /\ dec_year (enc_year y) = Some 2048%Z.
Proof. exists 0%Z. repeat split; vm_compute; reflexivity. Qed.

(* ---- DATE ---- *)
Theorem date_roundtrip y m d :
  in_domain (VDate y m d) = true -> decodes_to (VDate y m d) (enc_date y m d) = true.
Proof.
  cbn [in_domain decodes_to]. intros H. repeat (apply andb_true_iff in H as [H ?]).
  repeat match goal with X : (_ <=? _) = true |- _ => apply N.leb_le in X end.
  unfold enc_date, dec_date. rewrite le_length. cbn [Nat.eqb].
  assert (Hv : (y * 512 + m * 32 + d) mod 16777216 = y * 512 + m * 32 + d) by (apply N.mod_small; lia).
  rewrite Hv, le_roundtrip by (unfold pow256; cbn; lia).
  repeat (apply andb_true_iff; split); apply N.eqb_eq; lia.
Qed.

(* ---- fractional seconds ---- *)
Lemma frac_roundtrip fsp us :
  fsp <= 6 -> frac_aligned fsp us = true ->
  dec_frac fsp (enc_frac fsp us) = us /\ length (enc_frac fsp us) = frac_len fsp.
Proof.
  intros Hf H. unfold frac_aligned in H. apply andb_true_iff in H as [Hus Ha]. apply N.ltb_lt in Hus.
  unfold dec_frac, enc_frac, frac_len.
  destruct (fsp =? 0) eqn:E0.
  - apply N.eqb_eq in Ha. split; [lia|reflexivity].
  - destruct (fsp <=? 2) eqn:E2.
    + apply N.eqb_eq in Ha. split; [|reflexivity]. unfold be_val, of_base. cbn [fold_left]. lia.
    + destruct (fsp <=? 4) eqn:E4.
      * apply N.eqb_eq in Ha. split; [|apply be_length]. rewrite be_roundtrip by (unfold pow256; cbn; lia). lia.
      * split; [|apply be_length]. apply be_roundtrip. unfold pow256; cbn; lia.
Qed.

(* ---- DATETIME2, every fsp ---- *)
Theorem datetime2_roundtrip fsp y mo d h mi s us :
  in_domain (VDatetime fsp y mo d h mi s us) = true ->
  decodes_to (VDatetime fsp y mo d h mi s us) (enc_datetime2 fsp y mo d h mi s us) = true.
Proof.
  cbn [in_domain decodes_to]. intros H. repeat (apply andb_true_iff in H as [H ?]).
  repeat match goal with X : (_ <=? _) = true |- _ => apply N.leb_le in X end.
  destruct (frac_roundtrip fsp us) as [Hfr Hfl]; [lia|assumption|].
  unfold enc_datetime2, dec_datetime2. rewrite app_length, be_length, Hfl, Nat.eqb_refl.
  rewrite (firstn_app_exact _ _ 5 (be_length 5 _)), (skipn_app_exact _ _ 5 (be_length 5 _)), Hfr.
  rewrite be_roundtrip by (unfold pow256, dt_ofs; cbn; lia).
  unfold dt_ofs.
  repeat (apply andb_true_iff; split); apply N.eqb_eq; lia.
Qed.

(* ---- TIMESTAMP2, every fsp ---- *)
Theorem timestamp2_roundtrip fsp secs us :
  in_domain (VTimestamp fsp secs us) = true ->
  decodes_to (VTimestamp fsp secs us) (enc_timestamp2 fsp secs us) = true.
Proof.
  cbn [in_domain decodes_to]. intros H. repeat (apply andb_true_iff in H as [H ?]).
  apply N.leb_le in H. match goal with X : (secs <? _) = true |- _ => apply N.ltb_lt in X end.
  destruct (frac_roundtrip fsp us) as [Hfr Hfl]; [lia|assumption|].
  unfold enc_timestamp2, dec_timestamp2. rewrite app_length, be_length, Hfl, Nat.eqb_refl.
  rewrite (firstn_app_exact _ _ 4 (be_length 4 _)), (skipn_app_exact _ _ 4 (be_length 4 _)), Hfr.
  rewrite be_roundtrip by (unfold pow256; cbn; lia).
  rewrite !N.eqb_refl. reflexivity.
Qed.

(* ---- TIME2 ---- *)
Lemma be_val_6 a b : length b = 3%nat -> be_val (a ++ b) = be_val a * 16777216 + be_val b.
Proof. intros H. unfold be_val. rewrite of_base_app, H. reflexivity. Qed.

(* full statement (false, see time2_neg59_refuted): for every TIME value in range.
   Proved: every value except negative ones with 59 seconds and a non-zero fraction. *)
Theorem time2_roundtrip neg h mi s us :
  in_domain (VTime neg h mi s us) = true ->
  (neg = true -> 0 < us -> s < 59) ->
  decodes_to (VTime neg h mi s us) (enc_time2 neg h mi s us) = true.
Proof.
  cbn [in_domain decodes_to]. intros H Hx. repeat (apply andb_true_iff in H as [H ?]).
  repeat match goal with X : (_ <=? _) = true |- _ => apply N.leb_le in X end.
  match goal with X : (us <? _) = true |- _ => apply N.ltb_lt in X end.
  unfold enc_time2, dec_time2.
  destruct (neg && (0 <? us)) eqn:Eb.
  - apply andb_true_iff in Eb as [-> Hus]. apply N.ltb_lt in Hus. specialize (Hx eq_refl Hus).
    assert (E60 : (s + 1 =? 60) = false) by (apply N.eqb_neq; lia). rewrite E60. cbv beta iota zeta.
    assert (Em : (mi =? 60) = false) by (apply N.eqb_neq; lia). rewrite Em. cbv beta iota zeta.
    rewrite app_length, !be_length. cbn [Nat.add Nat.eqb].
    rewrite be_val_6 by apply be_length.
    rewrite !be_roundtrip by (unfold pow256, t_ofs; cbn; lia).
    unfold t_ofs, t_ofs6.
    set (X := h * 4096 + mi * 64 + (s + 1)).
    assert (HX : X < 4194304) by (unfold X; lia).
    assert (E1 : (X + 8388608) mod 4294967296 = X + 8388608) by (apply N.mod_small; lia).
    rewrite E1.
    assert (E2 : (4294967296 - (X + 8388608)) mod 16777216 = 8388608 - X).
    { replace (4294967296 - (X + 8388608)) with ((8388608 - X) + 255 * 16777216) by lia.
      rewrite N.mod_add by lia. apply N.mod_small. lia. }
    rewrite E2.
    assert (P3 : pow256 3 = 16777216) by reflexivity.
    rewrite ?(be_roundtrip 3 (16777216 - us)) by (rewrite P3; lia).
    rewrite ?(be_roundtrip 3 (8388608 - X)) by (rewrite P3; lia).
    assert (Hlt : ((8388608 - X) * 16777216 + (16777216 - us) <? 140737488355328) = true) by (apply N.ltb_lt; lia).
    rewrite Hlt. cbn [andb].
    replace (140737488355328 - ((8388608 - X) * 16777216 + (16777216 - us))) with ((X - 1) * 16777216 + us) by lia.
    assert (Hd : ((X - 1) * 16777216 + us) / 16777216 = X - 1) by (rewrite N.div_add_l by lia; rewrite N.div_small by lia; lia).
    assert (Hm : ((X - 1) * 16777216 + us) mod 16777216 = us) by (rewrite N.add_comm, N.mod_add by lia; apply N.mod_small; lia).
    rewrite Hd, Hm. unfold X.
    assert (Hp : (0 <? (h * 4096 + mi * 64 + (s + 1) - 1) * 16777216 + us) = true) by (apply N.ltb_lt; lia).
    assert (Hq : (0 <? h + mi + s + us) = true) by (apply N.ltb_lt; lia).
    rewrite Hp, Hq. cbn [Bool.eqb andb].
    repeat (apply andb_true_iff; split); apply N.eqb_eq; lia.
  - rewrite app_length, !be_length. cbn [Nat.add Nat.eqb].
    rewrite be_val_6 by apply be_length.
    set (X := h * 4096 + mi * 64 + s).
    assert (HX : X < 4194304) by (unfold X; lia).
    unfold t_ofs, t_ofs6. fold X.
    assert (E1 : (X + 8388608) mod 4294967296 = X + 8388608) by (apply N.mod_small; lia).
    rewrite E1.
    destruct neg.
    + cbn [andb] in Eb. apply N.ltb_ge in Eb. assert (us = 0) by lia. subst us.
      assert (E2 : (4294967296 - (X + 8388608)) mod 16777216 = 8388608 - X).
      { replace (4294967296 - (X + 8388608)) with ((8388608 - X) + 255 * 16777216) by lia.
        rewrite N.mod_add by lia. apply N.mod_small. lia. }
      assert (P3 : pow256 3 = 16777216) by reflexivity.
      rewrite E2. rewrite (be_roundtrip 3 (8388608 - X)) by (rewrite P3; lia).
      rewrite (be_roundtrip 3 0) by (rewrite P3; lia).
      rewrite N.add_0_r.
      destruct (N.eq_dec X 0) as [HX0|HX0].
      * rewrite HX0. cbn. assert (h = 0 /\ mi = 0 /\ s = 0) as [-> [-> ->]] by (unfold X in HX0; lia). reflexivity.
      * assert (Hlt : ((8388608 - X) * 16777216 <? 140737488355328) = true) by (apply N.ltb_lt; lia).
        rewrite Hlt. cbn [andb].
        replace (140737488355328 - (8388608 - X) * 16777216) with (X * 16777216) by lia.
        rewrite N.div_mul by lia. rewrite N.mod_mul by lia.
        assert (Hp : (0 <? X * 16777216) = true) by (apply N.ltb_lt; lia).
        assert (Hq : (0 <? h + mi + s + 0) = true) by (apply N.ltb_lt; unfold X in HX0; lia).
        rewrite Hp, Hq. cbn [Bool.eqb andb]. unfold X.
        repeat (apply andb_true_iff; split); apply N.eqb_eq; lia.
    + assert (E2 : (X + 8388608) mod 16777216 = X + 8388608) by (apply N.mod_small; lia).
      assert (P3 : pow256 3 = 16777216) by reflexivity.
      rewrite E2. rewrite (be_roundtrip 3 (X + 8388608)) by (rewrite P3; lia).
      rewrite (be_roundtrip 3 us) by (rewrite P3; lia).
      assert (Hlt : ((X + 8388608) * 16777216 + us <? 140737488355328) = false) by (apply N.ltb_ge; lia).
      rewrite Hlt. cbn [andb Bool.eqb].
      replace ((X + 8388608) * 16777216 + us - 140737488355328) with (X * 16777216 + us) by lia.
      assert (Hd : (X * 16777216 + us) / 16777216 = X) by (rewrite N.div_add_l by lia; rewrite N.div_small by lia; lia).
      assert (Hm : (X * 16777216 + us) mod 16777216 = us) by (rewrite N.add_comm, N.mod_add by lia; apply N.mod_small; lia).
      rewrite Hd, Hm. unfold X.
      repeat (apply andb_true_iff; split); apply N.eqb_eq; lia.
Qed.

(* -00:00:59.500000 : dolt carries the "+1 second" of the two's-complement borrow into the minutes
   (00:01:00), a replica reads -00:00:63.500000 *)
Theorem time2_neg59_refuted :
  exists h mi s us, in_domain (VTime true h mi s us) = true
    /\ decodes_to (VTime true h mi s us) (enc_time2 true h mi s us) = false
    /\ dec_time2 (enc_time2 true h mi s us) = Some (true, 0, 0, 63, 500000).
Proof. exists 0, 0, 59, 500000. repeat split; vm_compute; reflexivity. Qed.

(* ---- DECIMAL(M,M): the serializer returns an error for every value ---- *)
Theorem decimal_pp_refuted :
  exists prec scale neg ip fp, in_domain (VDecimal prec scale neg ip fp) = true /\ model_enc (VDecimal prec scale neg ip fp) = None.
Proof. exists 5, 5, false, 0, 12345. split; vm_compute; reflexivity. Qed.

(* NEWDECIMAL round trip on the boundary shapes (executed; the general theorem is not proved) *)
Example decimal_examples :
  forallb (fun v => match model_enc v with Some b => decodes_to v b | None => false end)
    [VDecimal 10 2 true 12345678 90; VDecimal 65 30 false (10 ^ 35 - 1) (10 ^ 30 - 1); VDecimal 65 30 true 1 1;
     VDecimal 18 9 false 999999999 999999999; VDecimal 19 9 true 1000000000 0; VDecimal 1 0 false 9 0; VDecimal 38 0 true (10 ^ 38 - 1) 0] = true.
Proof. vm_compute. reflexivity. Qed.

(* ---- length-prefixed strings ---- *)
Lemma beq_bytes_true s : beq_bytes s s = true.
Proof. apply beq_bytes_refl. Qed.

Theorem string_roundtrip fixed maxlen s :
  in_domain (VString fixed maxlen s) = true ->
  decodes_to (VString fixed maxlen s) (enc_string maxlen s) = true.
Proof.
  cbn [in_domain decodes_to]. intros H. repeat (apply andb_true_iff in H as [H ?]).
  apply N.leb_le in H.
  assert (Hm : maxlen < 65536) by (destruct fixed; match goal with X : (maxlen <? _) = true |- _ => apply N.ltb_lt in X end; lia).
  unfold enc_string, dec_string. destruct (255 <? maxlen) eqn:E.
  - rewrite (firstn_app_exact _ _ 2 (le_length 2 _)), (skipn_app_exact _ _ 2 (le_length 2 _)).
    rewrite le_roundtrip by (unfold pow256; cbn; lia).
    rewrite app_length, le_length, Nat2N.id, Nat.eqb_refl. apply beq_bytes_refl.
  - apply N.ltb_ge in E. cbn [app firstn skipn length].
    unfold le_val, of_base. cbn [rev app fold_left].
    rewrite N.mod_small by lia. cbn [N.mul N.add]. rewrite Nat2N.id, Nat.eqb_refl. apply beq_bytes_refl.
Qed.

Theorem blob_roundtrip pack s :
  in_domain (VBlob pack s) = true -> decodes_to (VBlob pack s) (enc_blob pack s) = true.
Proof.
  cbn [in_domain decodes_to]. intros H. repeat (apply andb_true_iff in H as [H ?]).
  match goal with X : (_ <? pow256 pack) = true |- _ => apply N.ltb_lt in X end.
  unfold enc_blob, dec_blob.
  rewrite (firstn_app_exact _ _ pack (le_length pack _)), (skipn_app_exact _ _ pack (le_length pack _)).
  rewrite le_roundtrip by assumption.
  rewrite app_length, le_length, Nat2N.id, Nat.eqb_refl. apply beq_bytes_refl.
Qed.

(* ---- ENUM / SET / BIT ---- *)
Theorem enum_roundtrip members v :
  in_domain (VEnum members v) = true -> decodes_to (VEnum members v) (enc_enum members v) = true.
Proof.
  cbn [in_domain decodes_to]. intros H. repeat (apply andb_true_iff in H as [H ?]).
  repeat match goal with X : (_ <=? _) = true |- _ => apply N.leb_le in X end.
  unfold enc_enum, dec_enum. rewrite le_length, Nat.eqb_refl. unfold opt_eqb. apply N.eqb_eq.
  apply le_roundtrip. unfold enum_width. destruct (members <=? 255) eqn:E; [apply N.leb_le in E|]; unfold pow256; cbn; lia.
Qed.

Lemma set_width_bound m v : m <= 64 -> v < 2 ^ m -> v < pow256 (set_width m).
Proof.
  intros Hm Hv. unfold pow256, set_width. rewrite N2Nat.id.
  replace 256 with (2 ^ 8) by reflexivity. rewrite <- N.pow_mul_r.
  eapply N.lt_le_trans; [exact Hv|]. apply N.pow_le_mono_r; lia.
Qed.

Theorem set_roundtrip members v :
  in_domain (VSet members v) = true -> decodes_to (VSet members v) (enc_set members v) = true.
Proof.
  cbn [in_domain decodes_to]. intros H. repeat (apply andb_true_iff in H as [H ?]).
  repeat match goal with X : (_ <=? _) = true |- _ => apply N.leb_le in X end.
  match goal with X : (v <? _) = true |- _ => apply N.ltb_lt in X end.
  unfold enc_set, dec_set. rewrite le_length, Nat.eqb_refl. unfold opt_eqb. apply N.eqb_eq.
  apply le_roundtrip. apply set_width_bound; assumption.
Qed.

Theorem bit_roundtrip bits v :
  in_domain (VBit bits v) = true -> decodes_to (VBit bits v) (enc_bit bits v) = true.
Proof.
  cbn [in_domain decodes_to]. intros H. repeat (apply andb_true_iff in H as [H ?]).
  repeat match goal with X : (_ <=? _) = true |- _ => apply N.leb_le in X end.
  match goal with X : (v <? _) = true |- _ => apply N.ltb_lt in X end.
  unfold enc_bit, dec_bit. rewrite be_length, Nat.eqb_refl. unfold opt_eqb. apply N.eqb_eq.
  apply be_roundtrip. apply set_width_bound; assumption.
Qed.

(* ---- metadata ---- *)
Lemma char_meta_sweep : forallb (fun n => char_meta_len (char_meta (N.of_nat n)) =? N.of_nat n) (seq 0 1024) = true.
Proof. vm_compute. reflexivity. Qed.
Theorem char_meta_roundtrip len : len < 1024 -> char_meta_len (char_meta len) = len.
Proof.
  intros H. pose proof char_meta_sweep as S. rewrite forallb_forall in S.
  specialize (S (N.to_nat len)). rewrite N2Nat.id in S. apply N.eqb_eq. apply S. apply in_seq. lia.
Qed.

Lemma bit_meta_sweep : forallb (fun n => bit_meta_len (N.of_nat n) =? N.of_nat (set_width (N.of_nat n))) (seq 0 65) = true.
Proof. vm_compute. reflexivity. Qed.
Theorem bit_meta_len_ok bits : bits <= 64 -> bit_meta_len bits = N.of_nat (set_width bits).
Proof.
  intros H. pose proof bit_meta_sweep as S. rewrite forallb_forall in S.
  specialize (S (N.to_nat bits)). rewrite N2Nat.id in S. apply N.eqb_eq. apply S. apply in_seq. lia.
Qed.

(* the oracle holds on the model for in-domain values of the proved types (instance) *)
Example oracle_on_model_int : oracle (VInt 3 true (-8388608)) (model_obs (VInt 3 true (-8388608))) = true.
Proof. vm_compute. reflexivity. Qed.
