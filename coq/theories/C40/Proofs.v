(* C40 — proofs: decode (encode v) = v for every value of each column type's domain. *)
From Coq Require Import NArith ZArith List Bool Lia.
From Dolt Require Import Base.Str C40.Model C40.Spec C40.Corr.
Import ListNotations.
Local Open Scope N_scope.

Ltac Zify.zify_post_hook ::= Z.to_euclidean_division_equations.

(* ---- positional notation ---- *)
Lemma of_base_snoc B l d : of_base B (l ++ [d]) = of_base B l * B + d.
Proof. unfold of_base. rewrite fold_left_app. reflexivity. Qed.

Lemma to_base_length B k n : length (to_base B k n) = k.
Proof. revert n. induction k as [|k IH]; intros n; [reflexivity|]. cbn [to_base]. rewrite app_length, IH. cbn. lia. Qed.

Lemma of_to_base B k n : 0 < B -> n < B ^ N.of_nat k -> of_base B (to_base B k n) = n.
Proof.
  intros HB. revert n. induction k as [|k IH]; intros n Hn.
  - cbn in Hn. cbn. lia.
  - cbn [to_base]. rewrite of_base_snoc. rewrite IH.
    + pose proof (N.div_mod n B ltac:(lia)). lia.
    + rewrite Nat2N.inj_succ, N.pow_succ_r' in Hn. apply N.div_lt_upper_bound; lia.
Qed.

Lemma of_base_app B a b : of_base B (a ++ b) = of_base B a * B ^ N.of_nat (length b) + of_base B b.
Proof.
  revert a. induction b as [|d b IH] using rev_ind; intros a.
  - rewrite app_nil_r. cbn. lia.
  - rewrite app_assoc, !of_base_snoc, IH, app_length. cbn [length]. rewrite Nat.add_1_r, Nat2N.inj_succ, N.pow_succ_r'. lia.
Qed.

Lemma be_roundtrip k n : n < pow256 k -> be_val (be_bytes k n) = n.
Proof. intros H. apply of_to_base; [lia|exact H]. Qed.
Lemma le_roundtrip k n : n < pow256 k -> le_val (le_bytes k n) = n.
Proof. intros H. unfold le_val, le_bytes. rewrite rev_involutive. apply of_to_base; [lia|exact H]. Qed.
Lemma be_length k n : length (be_bytes k n) = k.
Proof. apply to_base_length. Qed.
Lemma le_length k n : length (le_bytes k n) = k.
Proof. unfold le_bytes. rewrite rev_length. apply to_base_length. Qed.

Lemma firstn_app_exact {A} (a b : list A) k : length a = k -> firstn k (a ++ b) = a.
Proof. intros <-. rewrite firstn_app, Nat.sub_diag, firstn_all, firstn_O, app_nil_r. reflexivity. Qed.
Lemma skipn_app_exact {A} (a b : list A) k : length a = k -> skipn k (a ++ b) = b.
Proof. intros <-. rewrite skipn_app, Nat.sub_diag, skipn_all. reflexivity. Qed.

Lemma pow256_pos w : 0 < pow256 w.
Proof. unfold pow256. apply N.neq_0_lt_0. apply N.pow_nonzero. lia. Qed.

Lemma pow256_half w : (0 < w)%nat -> pow256 w = 2 * (pow256 w / 2) /\ 0 < pow256 w / 2.
Proof.
  intros Hw. destruct w as [|w]; [lia|]. unfold pow256. rewrite Nat2N.inj_succ, N.pow_succ_r'.
  replace (256 * 256 ^ N.of_nat w) with ((128 * 256 ^ N.of_nat w) * 2) by lia.
  rewrite N.div_mul by lia. pose proof (pow256_pos w) as H. unfold pow256 in H. lia.
Qed.

(* ---- integers ---- *)
Theorem int_roundtrip w signed z :
  in_domain (VInt w signed z) = true -> decodes_to (VInt w signed z) (enc_int w z) = true.
Proof.
  cbn [in_domain decodes_to]. intros H. apply andb_true_iff in H as [Hw Hr].
  assert (Hw0 : (0 < w)%nat) by (destruct w; [discriminate Hw | lia]).
  destruct (pow256_half w Hw0) as [He Hh]. set (M := pow256 w) in *. set (h := M / 2) in *.
  unfold enc_int. fold M.
  assert (Hlt : Z.to_N (z mod Z.of_N M) < M) by (pose proof (Z.mod_pos_bound z (Z.of_N M) ltac:(lia)); lia).
  unfold dec_sint, dec_uint. rewrite le_length, Nat.eqb_refl. rewrite (le_roundtrip w _ Hlt). fold M. fold h.
  destruct signed; unfold opt_eqb; apply Z.eqb_eq.
  - apply andb_true_iff in Hr as [H1 H2]. apply Z.leb_le in H1. apply Z.ltb_lt in H2.
    fold h in H1, H2.
    assert (Hmod : (z mod Z.of_N M = if (z <? 0)%Z then z + Z.of_N M else z)%Z).
    { destruct (z <? 0)%Z eqn:Ez; [apply Z.ltb_lt in Ez | apply Z.ltb_ge in Ez].
      - rewrite <- (Z_mod_plus_full z 1 (Z.of_N M)), Z.mul_1_l. apply Z.mod_small. lia.
      - apply Z.mod_small. lia. }
    rewrite Hmod.
    destruct (z <? 0)%Z eqn:Ez; [apply Z.ltb_lt in Ez | apply Z.ltb_ge in Ez];
      (destruct (_ <? h) eqn:E; [apply N.ltb_lt in E | apply N.ltb_ge in E]); lia.
  - apply andb_true_iff in Hr as [H1 H2]. apply Z.leb_le in H1. apply Z.ltb_lt in H2.
    fold M in H2. rewrite Z.mod_small by lia. lia.
Qed.

(* ---- YEAR: every YEAR value, the zero year 0000 included ---- *)
Theorem year_roundtrip y :
  in_domain (VYear y) = true -> decodes_to (VYear y) (enc_year y) = true.
Proof.
  cbn [in_domain decodes_to]. intros H. unfold enc_year, dec_year, opt_eqb.
  destruct (y =? 0)%Z eqn:E0.
  - apply Z.eqb_eq in E0. subst y. reflexivity.
  - cbn [orb] in H. apply andb_true_iff in H as [H1 H2]. apply Z.leb_le in H1, H2.
    destruct (Z.to_N ((y - 1900) mod 256) =? 0) eqn:E; [apply N.eqb_eq in E | apply N.eqb_neq in E]; apply Z.eqb_eq; lia.
Qed.

(* regression (was year_zero_refuted before f00b2b9): YEAR 0000 is emitted as 0 and read back as 0000 *)
Example year_zero_regression : enc_year 0 = [0] /\ dec_year (enc_year 0) = Some 0%Z.
Proof. split; reflexivity. Qed.

(* ---- DATE ---- *)
Theorem date_roundtrip y m d :
  in_domain (VDate y m d) = true -> decodes_to (VDate y m d) (enc_date y m d) = true.
Proof.
  cbn [in_domain decodes_to]. intros H. repeat (apply andb_true_iff in H as [H ?]).
  repeat match goal with X : (_ <=? _) = true |- _ => apply N.leb_le in X end.
  unfold enc_date, dec_date. rewrite le_length. cbn [Nat.eqb].
  assert (Hv : (y * 512 + m * 32 + d) mod 16777216 = y * 512 + m * 32 + d) by (apply N.mod_small; lia).
  rewrite Hv, le_roundtrip by (unfold pow256; cbn; lia).
  repeat (apply andb_true_iff; split); apply N.eqb_eq; lia.
Qed.

(* ---- fractional seconds ---- *)
Lemma frac_roundtrip fsp us :
  fsp <= 6 -> frac_aligned fsp us = true ->
  dec_frac fsp (enc_frac fsp us) = us /\ length (enc_frac fsp us) = frac_len fsp.
Proof.
  intros Hf H. unfold frac_aligned in H. apply andb_true_iff in H as [Hus Ha]. apply N.ltb_lt in Hus.
  unfold dec_frac, enc_frac, frac_len.
  destruct (fsp =? 0) eqn:E0.
  - apply N.eqb_eq in Ha. split; [lia|reflexivity].
  - destruct (fsp <=? 2) eqn:E2.
    + apply N.eqb_eq in Ha. split; [|reflexivity]. unfold be_val, of_base. cbn [fold_left]. lia.
    + destruct (fsp <=? 4) eqn:E4.
      * apply N.eqb_eq in Ha. split; [|apply be_length]. rewrite be_roundtrip by (unfold pow256; cbn; lia). lia.
      * split; [|apply be_length]. apply be_roundtrip. unfold pow256; cbn; lia.
Qed.

(* ---- DATETIME2, every fsp ---- *)
Theorem datetime2_roundtrip fsp y mo d h mi s us :
  in_domain (VDatetime fsp y mo d h mi s us) = true ->
  decodes_to (VDatetime fsp y mo d h mi s us) (enc_datetime2 fsp y mo d h mi s us) = true.
Proof.
  cbn [in_domain decodes_to]. intros H. repeat (apply andb_true_iff in H as [H ?]).
  repeat match goal with X : (_ <=? _) = true |- _ => apply N.leb_le in X end.
  destruct (frac_roundtrip fsp us) as [Hfr Hfl]; [lia|assumption|].
  unfold enc_datetime2, dec_datetime2. rewrite app_length, be_length, Hfl, Nat.eqb_refl.
  rewrite (firstn_app_exact _ _ 5 (be_length 5 _)), (skipn_app_exact _ _ 5 (be_length 5 _)), Hfr.
  rewrite be_roundtrip by (unfold pow256, dt_ofs; cbn; lia).
  unfold dt_ofs.
  repeat (apply andb_true_iff; split); apply N.eqb_eq; lia.
Qed.

(* ---- TIMESTAMP2, every fsp ---- *)
Theorem timestamp2_roundtrip fsp secs us :
  in_domain (VTimestamp fsp secs us) = true ->
  decodes_to (VTimestamp fsp secs us) (enc_timestamp2 fsp secs us) = true.
Proof.
  cbn [in_domain decodes_to]. intros H. repeat (apply andb_true_iff in H as [H ?]).
  apply N.leb_le in H. match goal with X : (secs <? _) = true |- _ => apply N.ltb_lt in X end.
  destruct (frac_roundtrip fsp us) as [Hfr Hfl]; [lia|assumption|].
  unfold enc_timestamp2, dec_timestamp2. rewrite app_length, be_length, Hfl, Nat.eqb_refl.
  rewrite (firstn_app_exact _ _ 4 (be_length 4 _)), (skipn_app_exact _ _ 4 (be_length 4 _)), Hfr.
  rewrite be_roundtrip by (unfold pow256; cbn; lia).
  rewrite !N.eqb_refl. reflexivity.
Qed.

(* ---- TIME2 ---- *)
Lemma be_val_6 a b : length b = 3%nat -> be_val (a ++ b) = be_val a * 16777216 + be_val b.
Proof. intros H. unfold be_val. rewrite of_base_app, H. reflexivity. Qed.

(* full statement (false, see time2_neg59_refuted): for every TIME value in range.
   Proved: every value except negative ones with 59 seconds and a non-zero fraction. *)
Theorem time2_roundtrip neg h mi s us :
  in_domain (VTime neg h mi s us) = true ->
  (neg = true -> 0 < us -> s < 59) ->
  decodes_to (VTime neg h mi s us) (enc_time2 neg h mi s us) = true.
Proof.
  cbn [in_domain decodes_to]. intros H Hx. repeat (apply andb_true_iff in H as [H ?]).
  repeat match goal with X : (_ <=? _) = true |- _ => apply N.leb_le in X end.
  match goal with X : (us <? _) = true |- _ => apply N.ltb_lt in X end.
  unfold enc_time2, dec_time2.
  destruct (neg && (0 <? us)) eqn:Eb.
  - apply andb_true_iff in Eb as [-> Hus]. apply N.ltb_lt in Hus. specialize (Hx eq_refl Hus).
    assert (E60 : (s + 1 =? 60) = false) by (apply N.eqb_neq; lia). rewrite E60. cbv beta iota zeta.
    assert (Em : (mi =? 60) = false) by (apply N.eqb_neq; lia). rewrite Em. cbv beta iota zeta.
    rewrite app_length, !be_length. cbn [Nat.add Nat.eqb].
    rewrite be_val_6 by apply be_length.
    rewrite !be_roundtrip by (unfold pow256, t_ofs; cbn; lia).
    unfold t_ofs, t_ofs6.
    set (X := h * 4096 + mi * 64 + (s + 1)).
    assert (HX : X < 4194304) by (unfold X; lia).
    assert (E1 : (X + 8388608) mod 4294967296 = X + 8388608) by (apply N.mod_small; lia).
    rewrite E1.
    assert (E2 : (4294967296 - (X + 8388608)) mod 16777216 = 8388608 - X).
    { replace (4294967296 - (X + 8388608)) with ((8388608 - X) + 255 * 16777216) by lia.
      rewrite N.mod_add by lia. apply N.mod_small. lia. }
    rewrite E2.
    assert (P3 : pow256 3 = 16777216) by reflexivity.
    rewrite ?(be_roundtrip 3 (16777216 - us)) by (rewrite P3; lia).
    rewrite ?(be_roundtrip 3 (8388608 - X)) by (rewrite P3; lia).
    assert (Hlt : ((8388608 - X) * 16777216 + (16777216 - us) <? 140737488355328) = true) by (apply N.ltb_lt; lia).
    rewrite Hlt. cbn [andb].
    replace (140737488355328 - ((8388608 - X) * 16777216 + (16777216 - us))) with ((X - 1) * 16777216 + us) by lia.
    assert (Hd : ((X - 1) * 16777216 + us) / 16777216 = X - 1) by (rewrite N.div_add_l by lia; rewrite N.div_small by lia; lia).
    assert (Hm : ((X - 1) * 16777216 + us) mod 16777216 = us) by (rewrite N.add_comm, N.mod_add by lia; apply N.mod_small; lia).
    rewrite Hd, Hm. unfold X.
    assert (Hp : (0 <? (h * 4096 + mi * 64 + (s + 1) - 1) * 16777216 + us) = true) by (apply N.ltb_lt; lia).
    assert (Hq : (0 <? h + mi + s + us) = true) by (apply N.ltb_lt; lia).
    rewrite Hp, Hq. cbn [Bool.eqb andb].
    repeat (apply andb_true_iff; split); apply N.eqb_eq; lia.
  - rewrite app_length, !be_length. cbn [Nat.add Nat.eqb].
    rewrite be_val_6 by apply be_length.
    set (X := h * 4096 + mi * 64 + s).
    assert (HX : X < 4194304) by (unfold X; lia).
    unfold t_ofs, t_ofs6. fold X.
    assert (E1 : (X + 8388608) mod 4294967296 = X + 8388608) by (apply N.mod_small; lia).
    rewrite E1.
    destruct neg.
    + cbn [andb] in Eb. apply N.ltb_ge in Eb. assert (us = 0) by lia. subst us.
      assert (E2 : (4294967296 - (X + 8388608)) mod 16777216 = 8388608 - X).
      { replace (4294967296 - (X + 8388608)) with ((8388608 - X) + 255 * 16777216) by lia.
        rewrite N.mod_add by lia. apply N.mod_small. lia. }
      assert (P3 : pow256 3 = 16777216) by reflexivity.
      rewrite E2. rewrite (be_roundtrip 3 (8388608 - X)) by (rewrite P3; lia).
      rewrite (be_roundtrip 3 0) by (rewrite P3; lia).
      rewrite N.add_0_r.
      destruct (N.eq_dec X 0) as [HX0|HX0].
      * rewrite HX0. cbn. assert (h = 0 /\ mi = 0 /\ s = 0) as [-> [-> ->]] by (unfold X in HX0; lia). reflexivity.
      * assert (Hlt : ((8388608 - X) * 16777216 <? 140737488355328) = true) by (apply N.ltb_lt; lia).
        rewrite Hlt. cbn [andb].
        replace (140737488355328 - (8388608 - X) * 16777216) with (X * 16777216) by lia.
        rewrite N.div_mul by lia. rewrite N.mod_mul by lia.
        assert (Hp : (0 <? X * 16777216) = true) by (apply N.ltb_lt; lia).
        assert (Hq : (0 <? h + mi + s + 0) = true) by (apply N.ltb_lt; unfold X in HX0; lia).
        rewrite Hp, Hq. cbn [Bool.eqb andb]. unfold X.
        repeat (apply andb_true_iff; split); apply N.eqb_eq; lia.
    + assert (E2 : (X + 8388608) mod 16777216 = X + 8388608) by (apply N.mod_small; lia).
      assert (P3 : pow256 3 = 16777216) by reflexivity.
      rewrite E2. rewrite (be_roundtrip 3 (X + 8388608)) by (rewrite P3; lia).
      rewrite (be_roundtrip 3 us) by (rewrite P3; lia).
      assert (Hlt : ((X + 8388608) * 16777216 + us <? 140737488355328) = false) by (apply N.ltb_ge; lia).
      rewrite Hlt. cbn [andb Bool.eqb].
      replace ((X + 8388608) * 16777216 + us - 140737488355328) with (X * 16777216 + us) by lia.
      assert (Hd : (X * 16777216 + us) / 16777216 = X) by (rewrite N.div_add_l by lia; rewrite N.div_small by lia; lia).
      assert (Hm : (X * 16777216 + us) mod 16777216 = us) by (rewrite N.add_comm, N.mod_add by lia; apply N.mod_small; lia).
      rewrite Hd, Hm. unfold X.
      repeat (apply andb_true_iff; split); apply N.eqb_eq; lia.
Qed.

(* -00:00:59.500000 : dolt carries the "+1 second" of the two's-complement borrow into the minutes
   (00:01:00), a replica reads -00:00:63.500000 *)
Theorem time2_neg59_refuted :
  exists h mi s us, in_domain (VTime true h mi s us) = true
    /\ decodes_to (VTime true h mi s us) (enc_time2 true h mi s us) = false
    /\ dec_time2 (enc_time2 true h mi s us) = Some (true, 0, 0, 63, 500000).
Proof. exists 0, 0, 59, 500000. repeat split; vm_compute; reflexivity. Qed.

(* regression (was decimal_pp_refuted before c26eb40): DECIMAL(5,5) values are emitted and read back *)
Example decimal_pp_regression :
  forallb (fun v => match model_enc v with Some b => decodes_to v b | None => false end)
    [VDecimal 5 5 false 0 12345; VDecimal 5 5 true 0 12345; VDecimal 9 9 false 0 999999999; VDecimal 10 10 true 0 1; VDecimal 1 1 false 0 0;
     VDecimal 30 30 true 0 (10 ^ 30 - 1)] = true.
Proof. vm_compute. reflexivity. Qed.

(* ---- NEWDECIMAL: decode (encode v) = v for every precision, scale and value ---- *)
Lemma to_base_bound B k n : 0 < B -> Forall (fun d => d < B) (to_base B k n).
Proof.
  intros HB. revert n. induction k as [|k IH]; intros n; [constructor|].
  cbn [to_base]. apply Forall_app. split; [apply IH|]. constructor; [|constructor]. apply N.mod_lt. lia.
Qed.

Lemma to_base_head B k n : 0 < B -> exists t, to_base B (S k) n = ((n / B ^ N.of_nat k) mod B) :: t.
Proof.
  intros HB. revert n. induction k as [|k IH]; intros n.
  - exists []. cbn. rewrite N.div_1_r. reflexivity.
  - destruct (IH (n / B)) as [t Ht]. exists (t ++ [n mod B]).
    change (to_base B (S (S k)) n) with (to_base B (S k) (n / B) ++ [n mod B]). rewrite Ht. cbn [app].
    rewrite N.div_div by (try apply N.pow_nonzero; lia).
    rewrite Nat2N.inj_succ, N.pow_succ_r'. reflexivity.
Qed.

Lemma be_head_small k n : n * 2 < pow256 (S k) -> exists b t, be_bytes (S k) n = b :: t /\ b < 128.
Proof.
  intros H. destruct (to_base_head 256 k n ltac:(lia)) as [t Ht]. unfold be_bytes. rewrite Ht.
  eexists; eexists; split; [reflexivity|].
  unfold pow256 in H. rewrite Nat2N.inj_succ, N.pow_succ_r' in H.
  assert (Hp : 0 < 256 ^ N.of_nat k) by (apply N.neq_0_lt_0; apply N.pow_nonzero; lia).
  assert (Hd : n / 256 ^ N.of_nat k < 128) by (apply N.div_lt_upper_bound; lia).
  rewrite N.mod_small by lia. exact Hd.
Qed.

Lemma flat_be4_length l : length (flat_map (be_bytes 4) l) = (4 * length l)%nat.
Proof. induction l as [|g l IH]; [reflexivity|]. cbn [flat_map]. rewrite app_length, be_length, IH. cbn [length]. lia. Qed.

Lemma chunks4_flat gs : Forall (fun g => g < pow256 4) gs -> chunks4 (length gs) (flat_map (be_bytes 4) gs) = gs.
Proof.
  induction gs as [|g gs IH]; intros H; [reflexivity|]. inversion H as [|? ? Hg Hgs]; subst.
  cbn [length chunks4 flat_map].
  rewrite (firstn_app_exact _ _ 4 (be_length 4 g)), (skipn_app_exact _ _ 4 (be_length 4 g)).
  rewrite be_roundtrip by exact Hg. rewrite IH by exact Hgs. reflexivity.
Qed.

Lemma B9_lt_pow256_4 : B9 < pow256 4.
Proof. reflexivity. Qed.

Lemma groups_roundtrip k m : m < B9 ^ N.of_nat k ->
  of_base B9 (chunks4 k (flat_map (be_bytes 4) (to_base B9 k m))) = m.
Proof.
  intros H. pose proof (to_base_bound B9 k m ltac:(reflexivity)) as Hb.
  pose proof (to_base_length B9 k m) as Hl.
  rewrite <- Hl at 1. rewrite chunks4_flat.
  - apply of_to_base; [reflexivity|exact H].
  - eapply Forall_impl; [|exact Hb]. intros g Hg. cbv beta in Hg. pose proof B9_lt_pow256_4. lia.
Qed.

Lemma pow10_9 k : pow10 (9 * k) = B9 ^ k.
Proof. unfold pow10. rewrite N.pow_mul_r. reflexivity. Qed.

Lemma pow10_add a b : pow10 (a + b) = pow10 a * pow10 b.
Proof. unfold pow10. apply N.pow_add_r. Qed.

Lemma pow10_pos k : 0 < pow10 k.
Proof. unfold pow10. apply N.neq_0_lt_0. apply N.pow_nonzero. lia. Qed.

(* the leftover group (0..8 digits) fits its dig2bytes bytes with the top bit clear *)
Lemma dig_sweep :
  forallb (fun n => let d := N.of_nat n in
                    (pow10 d <=? pow256 (dig2bytes d))
                    && ((d =? 0) || ((pow10 d * 2 <=? pow256 (dig2bytes d)) && (1 <=? dig2bytes d)%nat))) (seq 0 9) = true.
Proof. vm_compute. reflexivity. Qed.

Lemma dig_facts d : d < 9 ->
  pow10 d <= pow256 (dig2bytes d) /\ (0 < d -> pow10 d * 2 <= pow256 (dig2bytes d) /\ exists k, dig2bytes d = S k).
Proof.
  intros Hd. pose proof dig_sweep as S. rewrite forallb_forall in S.
  specialize (S (N.to_nat d)). cbv zeta in S. rewrite N2Nat.id in S.
  assert (Hin : In (N.to_nat d) (seq 0 9)) by (apply in_seq; lia).
  specialize (S Hin). apply andb_true_iff in S as [S1 S2]. apply N.leb_le in S1. split; [exact S1|].
  intros Hpos. apply orb_true_iff in S2 as [S2|S2]; [apply N.eqb_eq in S2; lia|].
  apply andb_true_iff in S2 as [S2 S3]. apply N.leb_le in S2. apply Nat.leb_le in S3. split; [exact S2|].
  destruct (dig2bytes d); [lia|eexists; reflexivity].
Qed.

Section DecimalShape.
  Variables prec scale : N.
  Let intg := prec - scale.
  Let intg0 := intg / 9.
  Let frac0 := scale / 9.
  Let intg0x := intg - intg0 * 9.
  Let frac0x := scale - frac0 * 9.

  Lemma shape_facts : scale <= prec ->
    intg0x < 9 /\ frac0x < 9 /\ intg = 9 * intg0 + intg0x /\ scale = 9 * frac0 + frac0x.
  Proof. intros H. unfold intg0x, frac0x, intg0, frac0. pose proof (N.div_mod intg 9 ltac:(lia)). pose proof (N.div_mod scale 9 ltac:(lia)).
         pose proof (N.mod_lt intg 9 ltac:(lia)). pose proof (N.mod_lt scale 9 ltac:(lia)). lia. Qed.

  Lemma raw_length ip fp : length (enc_decimal_raw prec scale ip fp) = decimal_len prec scale.
  Proof.
    unfold enc_decimal_raw, decimal_len. rewrite !app_length, !be_length, !flat_be4_length, !to_base_length. lia.
  Qed.

  Lemma raw_roundtrip ip fp :
    scale <= prec -> ip < pow10 (prec - scale) -> fp < pow10 scale ->
    dec_decimal_raw prec scale (enc_decimal_raw prec scale ip fp) = (ip, fp).
  Proof.
    intros Hs Hip Hfp. destruct (shape_facts Hs) as [Hx [Hy [Ei Ef]]].
    unfold dec_decimal_raw, enc_decimal_raw. fold intg intg0 frac0 intg0x frac0x.
    set (c1 := be_bytes (dig2bytes intg0x) (ip / pow10 (9 * intg0))).
    set (g2 := to_base B9 (N.to_nat intg0) (ip mod pow10 (9 * intg0))).
    set (g3 := to_base B9 (N.to_nat frac0) (fp / pow10 frac0x)).
    set (c4 := be_bytes (dig2bytes frac0x) (fp mod pow10 frac0x)).
    assert (L1 : length c1 = dig2bytes intg0x) by apply be_length.
    assert (L2 : length (flat_map (be_bytes 4) g2) = (4 * N.to_nat intg0)%nat)
      by (rewrite flat_be4_length; unfold g2; rewrite to_base_length; reflexivity).
    assert (L3 : length (flat_map (be_bytes 4) g3) = (4 * N.to_nat frac0)%nat)
      by (rewrite flat_be4_length; unfold g3; rewrite to_base_length; reflexivity).
    rewrite (firstn_app_exact _ _ _ L1), (skipn_app_exact _ _ _ L1).
    rewrite (firstn_app_exact _ _ _ L2), (skipn_app_exact _ _ _ L2).
    rewrite (firstn_app_exact _ _ _ L3), (skipn_app_exact _ _ _ L3).
    pose proof (pow10_pos (9 * intg0)) as P1. pose proof (pow10_pos frac0x) as P2.
    (* integer part *)
    assert (Hip' : ip < pow10 (9 * intg0) * pow10 intg0x).
    { rewrite <- pow10_add. fold intg in Hip. rewrite Ei in Hip. exact Hip. }
    assert (H1 : be_val c1 = ip / pow10 (9 * intg0)).
    { unfold c1. apply be_roundtrip. destruct (dig_facts intg0x Hx) as [D _].
      eapply N.lt_le_trans; [|exact D]. apply N.div_lt_upper_bound; lia. }
    assert (H2 : of_base B9 (chunks4 (N.to_nat intg0) (flat_map (be_bytes 4) g2)) = ip mod pow10 (9 * intg0)).
    { unfold g2. apply groups_roundtrip. rewrite N2Nat.id, <- pow10_9. apply N.mod_lt. lia. }
    (* fractional part *)
    assert (Hfp' : fp < pow10 frac0x * pow10 (9 * frac0)).
    { rewrite <- pow10_add. rewrite Ef in Hfp. rewrite N.add_comm. exact Hfp. }
    assert (H3 : of_base B9 (chunks4 (N.to_nat frac0) (flat_map (be_bytes 4) g3)) = fp / pow10 frac0x).
    { unfold g3. apply groups_roundtrip. rewrite N2Nat.id, <- pow10_9. apply N.div_lt_upper_bound; lia. }
    assert (H4 : be_val c4 = fp mod pow10 frac0x).
    { unfold c4. apply be_roundtrip. destruct (dig_facts frac0x Hy) as [D _].
      eapply N.lt_le_trans; [|exact D]. apply N.mod_lt. lia. }
    rewrite H1, H2, H3, H4.
    pose proof (N.div_mod ip (pow10 (9 * intg0)) ltac:(lia)) as Q1.
    pose proof (N.div_mod fp (pow10 frac0x) ltac:(lia)) as Q2.
    f_equal; lia.
  Qed.

  (* the first emitted byte has its top bit clear (the sign lives there) — also when there are no integer digits *)
  Lemma raw_head ip fp :
    scale <= prec -> 1 <= prec -> ip < pow10 (prec - scale) -> fp < pow10 scale ->
    exists b0 r, enc_decimal_raw prec scale ip fp = b0 :: r /\ b0 < 128.
  Proof.
    intros Hs Hne Hip Hfp. destruct (shape_facts Hs) as [Hx [Hy [Ei Ef]]].
    unfold enc_decimal_raw. fold intg intg0 frac0 intg0x frac0x.
    pose proof (pow10_pos (9 * intg0)) as P1. pose proof (pow10_pos frac0x) as P2.
    assert (Hip' : ip < pow10 (9 * intg0) * pow10 intg0x).
    { rewrite <- pow10_add. fold intg in Hip. rewrite Ei in Hip. exact Hip. }
    assert (Hfp' : fp < pow10 frac0x * pow10 (9 * frac0)).
    { rewrite <- pow10_add. rewrite Ef in Hfp. rewrite N.add_comm. exact Hfp. }
    (* head of a non-empty run of 9-digit groups *)
    assert (Hgroups : forall k m rest, exists b t, flat_map (be_bytes 4) (to_base B9 (S k) m) ++ rest = b :: t /\ b < 128).
    { intros k m rest. destruct (to_base_head B9 k m ltac:(reflexivity)) as [t Ht]. rewrite Ht. cbn [flat_map].
      set (g := (m / B9 ^ N.of_nat k) mod B9).
      assert (Hg : g < B9) by (apply N.mod_lt; discriminate).
      destruct (be_head_small 3 g) as [b [t' [Eb Hb]]]; [change (pow256 4) with 4294967296; unfold B9 in Hg; lia|].
      rewrite Eb. cbn [app]. eexists; eexists; split; [reflexivity|exact Hb]. }
    destruct (N.eq_dec intg0x 0) as [Hz|Hz].
    - rewrite Hz. change (be_bytes (dig2bytes 0) (ip / pow10 (9 * intg0))) with (@nil N). cbn [app].
      destruct (N.to_nat intg0) as [|k] eqn:Ek.
      + (* no integer digits at all: DECIMAL(M,M) *)
        assert (Hi0 : intg0 = 0) by lia. cbn [to_base flat_map app].
        destruct (N.to_nat frac0) as [|k'] eqn:Ek'.
        * assert (Hf0 : frac0 = 0) by lia. cbn [to_base flat_map app].
          assert (Hfx : 0 < frac0x) by (unfold intg in *; lia).
          destruct (dig_facts frac0x Hy) as [_ D]. destruct (D Hfx) as [D2 [j Ej]]. rewrite Ej.
          destruct (be_head_small j (fp mod pow10 frac0x)) as [b [t' [Eb Hb]]].
          { rewrite <- Ej. eapply N.lt_le_trans; [|exact D2].
            assert (fp mod pow10 frac0x < pow10 frac0x) by (apply N.mod_lt; lia). lia. }
          rewrite Eb. eexists; eexists; split; [reflexivity|exact Hb].
        * apply Hgroups.
      + apply Hgroups.
    - destruct (dig_facts intg0x Hx) as [_ D]. destruct (D ltac:(lia)) as [D2 [k Ek]].
      rewrite Ek.
      destruct (be_head_small k (ip / pow10 (9 * intg0))) as [b [t' [Eb Hb]]].
      + rewrite <- Ek. eapply N.lt_le_trans; [|exact D2].
        assert (ip / pow10 (9 * intg0) < pow10 intg0x) by (apply N.div_lt_upper_bound; lia). lia.
      + rewrite Eb. cbn [app]. eexists; eexists; split; [reflexivity|exact Hb].
  Qed.
End DecimalShape.

Lemma lxor255_invol x : N.lxor (N.lxor x 255) 255 = x.
Proof. rewrite N.lxor_assoc, N.lxor_nilpotent, N.lxor_0_r. reflexivity. Qed.
Lemma lxor128_invol x : N.lxor (N.lxor x 128) 128 = x.
Proof. rewrite N.lxor_assoc, N.lxor_nilpotent, N.lxor_0_r. reflexivity. Qed.
Lemma map_lxor255_invol l : map (fun x => N.lxor x 255) (map (fun x => N.lxor x 255) l) = l.
Proof. induction l as [|x l IH]; [reflexivity|]. cbn [map]. rewrite lxor255_invol, IH. reflexivity. Qed.

Lemma testbit7_small b : b < 128 -> N.testbit b 7 = false.
Proof.
  intros H. destruct (N.eq_dec b 0) as [->|Hz]; [reflexivity|].
  apply N.bits_above_log2. apply N.log2_lt_pow2; [lia|]. exact H.
Qed.

(* full statement: for every DECIMAL(precision, scale) — precision = scale included since c26eb40 — and every value *)
Theorem decimal_roundtrip prec scale neg ip fp :
  in_domain (VDecimal prec scale neg ip fp) = true ->
  exists b, enc_decimal prec scale neg ip fp = Some b /\ decodes_to (VDecimal prec scale neg ip fp) b = true.
Proof.
  cbn [in_domain decodes_to]. intros H. repeat (apply andb_true_iff in H as [H ?]).
  repeat match goal with X : (_ <=? _) = true |- _ => apply N.leb_le in X end.
  repeat match goal with X : (_ <? _) = true |- _ => apply N.ltb_lt in X end.
  assert (Hs : scale <= prec) by assumption.
  destruct (raw_head prec scale ip fp Hs ltac:(assumption) ltac:(assumption) ltac:(assumption)) as [b0 [r [Eraw Hb0]]].
  pose proof (raw_length prec scale ip fp) as Hlen.
  pose proof (raw_roundtrip prec scale ip fp Hs ltac:(assumption) ltac:(assumption)) as Hrt.
  unfold enc_decimal. rewrite Eraw.
  rewrite Eraw in Hlen, Hrt.
  assert (T0 : N.testbit b0 7 = false) by (apply testbit7_small; exact Hb0).
  assert (T1 : N.testbit (N.lxor b0 128) 7 = true) by (rewrite N.lxor_spec, T0; reflexivity).
  assert (T2 : N.testbit (N.lxor (N.lxor b0 128) 255) 7 = false) by (rewrite N.lxor_spec, T1; reflexivity).
  destruct neg.
  - eexists. split; [reflexivity|]. unfold dec_decimal. cbn [map length] in *. rewrite map_length, Hlen, Nat.eqb_refl. cbn [negb].
    rewrite T2. cbn [negb map]. rewrite lxor255_invol, map_lxor255_invol, lxor128_invol, Hrt.
    rewrite !N.eqb_refl. reflexivity.
  - eexists. split; [reflexivity|]. unfold dec_decimal. cbn [length] in *. rewrite Hlen, Nat.eqb_refl. cbn [negb].
    rewrite T1. cbn [negb]. rewrite lxor128_invol, Hrt. rewrite !N.eqb_refl. reflexivity.
Qed.

(* ---- length-prefixed strings ---- *)
Lemma beq_bytes_true s : beq_bytes s s = true.
Proof. apply beq_bytes_refl. Qed.

Theorem string_roundtrip fixed maxlen s :
  in_domain (VString fixed maxlen s) = true ->
  decodes_to (VString fixed maxlen s) (enc_string maxlen s) = true.
Proof.
  cbn [in_domain decodes_to]. intros H. repeat (apply andb_true_iff in H as [H ?]).
  apply N.leb_le in H.
  assert (Hm : maxlen < 65536) by (destruct fixed; match goal with X : (maxlen <? _) = true |- _ => apply N.ltb_lt in X end; lia).
  unfold enc_string, dec_string. destruct (255 <? maxlen) eqn:E.
  - rewrite (firstn_app_exact _ _ 2 (le_length 2 _)), (skipn_app_exact _ _ 2 (le_length 2 _)).
    rewrite le_roundtrip by (unfold pow256; cbn; lia).
    rewrite app_length, le_length, Nat2N.id, Nat.eqb_refl. apply beq_bytes_refl.
  - apply N.ltb_ge in E. cbn [app firstn skipn length].
    unfold le_val, of_base. cbn [rev app fold_left].
    rewrite N.mod_small by lia. cbn [N.mul N.add]. rewrite Nat2N.id, Nat.eqb_refl. apply beq_bytes_refl.
Qed.

Theorem blob_roundtrip pack s :
  in_domain (VBlob pack s) = true -> decodes_to (VBlob pack s) (enc_blob pack s) = true.
Proof.
  cbn [in_domain decodes_to]. intros H. repeat (apply andb_true_iff in H as [H ?]).
  match goal with X : (_ <? pow256 pack) = true |- _ => apply N.ltb_lt in X end.
  unfold enc_blob, dec_blob.
  rewrite (firstn_app_exact _ _ pack (le_length pack _)), (skipn_app_exact _ _ pack (le_length pack _)).
  rewrite le_roundtrip by assumption.
  rewrite app_length, le_length, Nat2N.id, Nat.eqb_refl. apply beq_bytes_refl.
Qed.

(* ---- ENUM / SET / BIT ---- *)
Theorem enum_roundtrip members v :
  in_domain (VEnum members v) = true -> decodes_to (VEnum members v) (enc_enum members v) = true.
Proof.
  cbn [in_domain decodes_to]. intros H. repeat (apply andb_true_iff in H as [H ?]).
  repeat match goal with X : (_ <=? _) = true |- _ => apply N.leb_le in X end.
  unfold enc_enum, dec_enum. rewrite le_length, Nat.eqb_refl. unfold opt_eqb. apply N.eqb_eq.
  apply le_roundtrip. unfold enum_width. destruct (members <=? 255) eqn:E; [apply N.leb_le in E|]; unfold pow256; cbn; lia.
Qed.

Lemma set_width_bound m v : m <= 64 -> v < 2 ^ m -> v < pow256 (set_width m).
Proof.
  intros Hm Hv. unfold pow256, set_width. rewrite N2Nat.id.
  replace 256 with (2 ^ 8) by reflexivity. rewrite <- N.pow_mul_r.
  eapply N.lt_le_trans; [exact Hv|]. apply N.pow_le_mono_r; lia.
Qed.

Theorem set_roundtrip members v :
  in_domain (VSet members v) = true -> decodes_to (VSet members v) (enc_set members v) = true.
Proof.
  cbn [in_domain decodes_to]. intros H. repeat (apply andb_true_iff in H as [H ?]).
  repeat match goal with X : (_ <=? _) = true |- _ => apply N.leb_le in X end.
  match goal with X : (v <? _) = true |- _ => apply N.ltb_lt in X end.
  unfold enc_set, dec_set. rewrite le_length, Nat.eqb_refl. unfold opt_eqb. apply N.eqb_eq.
  apply le_roundtrip. apply set_width_bound; assumption.
Qed.

Theorem bit_roundtrip bits v :
  in_domain (VBit bits v) = true -> decodes_to (VBit bits v) (enc_bit bits v) = true.
Proof.
  cbn [in_domain decodes_to]. intros H. repeat (apply andb_true_iff in H as [H ?]).
  repeat match goal with X : (_ <=? _) = true |- _ => apply N.leb_le in X end.
  match goal with X : (v <? _) = true |- _ => apply N.ltb_lt in X end.
  unfold enc_bit, dec_bit. rewrite be_length, Nat.eqb_refl. unfold opt_eqb. apply N.eqb_eq.
  apply be_roundtrip. apply set_width_bound; assumption.
Qed.

(* ---- metadata ---- *)
Lemma char_meta_sweep : forallb (fun n => char_meta_len (char_meta (N.of_nat n)) =? N.of_nat n) (seq 0 1024) = true.
Proof. vm_compute. reflexivity. Qed.
Theorem char_meta_roundtrip len : len < 1024 -> char_meta_len (char_meta len) = len.
Proof.
  intros H. pose proof char_meta_sweep as S. rewrite forallb_forall in S.
  specialize (S (N.to_nat len)). rewrite N2Nat.id in S. apply N.eqb_eq. apply S. apply in_seq. lia.
Qed.

Lemma bit_meta_sweep : forallb (fun n => bit_meta_len (N.of_nat n) =? N.of_nat (set_width (N.of_nat n))) (seq 0 65) = true.
Proof. vm_compute. reflexivity. Qed.
Theorem bit_meta_len_ok bits : bits <= 64 -> bit_meta_len bits = N.of_nat (set_width bits).
Proof.
  intros H. pose proof bit_meta_sweep as S. rewrite forallb_forall in S.
  specialize (S (N.to_nat bits)). rewrite N2Nat.id in S. apply N.eqb_eq. apply S. apply in_seq. lia.
Qed.

(* the oracle holds on the model for in-domain values of the proved types (instance) *)
Example oracle_on_model_int : oracle (VInt 3 true (-8388608)) (model_obs (VInt 3 true (-8388608))) = true.
Proof. vm_compute. reflexivity. Qed.

(* ---- FLOAT / DOUBLE ---- *)
Theorem float_roundtrip bits : in_domain (VFloat bits) = true -> decodes_to (VFloat bits) (enc_float bits) = true.
Proof.
  cbn [in_domain decodes_to]. intros H. apply N.ltb_lt in H. unfold enc_float, dec_float.
  rewrite le_length, Nat.eqb_refl. unfold opt_eqb. apply N.eqb_eq. apply le_roundtrip. exact H.
Qed.
Theorem double_roundtrip bits : in_domain (VDouble bits) = true -> decodes_to (VDouble bits) (enc_double bits) = true.
Proof.
  cbn [in_domain decodes_to]. intros H. apply N.ltb_lt in H. unfold enc_double, dec_double.
  rewrite le_length, Nat.eqb_refl. unfold opt_eqb. apply N.eqb_eq. apply le_roundtrip. exact H.
Qed.

(* ---- JSON binary format ---- *)
(* the variable-length string length *)
Lemma json_len_roundtrip n rest :
  n < 2097152 ->
  exists lb, json_str_len n = Some lb /\ json_read_len 5 (lb ++ rest) 1 0 = Some (n, N.of_nat (length lb)) /\ (length lb <= 3)%nat.
Proof.
  intros Hn. unfold json_str_len.
  assert (E0 : (2097151 <? n) = false) by (apply N.ltb_ge; lia). rewrite E0.
  destruct (16383 <? n) eqn:E1; [apply N.ltb_lt in E1 | apply N.ltb_ge in E1].
  - eexists. split; [reflexivity|]. split; [|cbn; lia]. cbn [app json_read_len length].
    assert (A : (128 <=? n mod 128 + 128) = true) by (apply N.leb_le; lia). rewrite A.
    assert (B : (128 <=? n / 128 mod 128 + 128) = true) by (apply N.leb_le; lia). rewrite B.
    assert (C : (128 <=? n / 16384 mod 256) = false) by (apply N.leb_gt; lia). rewrite C.
    f_equal. f_equal; lia.
  - destruct (127 <? n) eqn:E2; [apply N.ltb_lt in E2 | apply N.ltb_ge in E2].
    + eexists. split; [reflexivity|]. split; [|cbn; lia]. cbn [app json_read_len length].
      assert (A : (128 <=? n mod 128 + 128) = true) by (apply N.leb_le; lia). rewrite A.
      assert (C : (128 <=? n / 128 mod 256) = false) by (apply N.leb_gt; lia). rewrite C.
      f_equal. f_equal; lia.
    + eexists. split; [reflexivity|]. split; [|cbn; lia]. cbn [app json_read_len length].
      assert (C : (128 <=? n) = false) by (apply N.leb_gt; lia). rewrite C.
      f_equal. f_equal; lia.
Qed.

Lemma dec_json_num f d :
  dec_json (S f) 11 d = if (8 <=? length d)%nat then Some (JNum (le_val (firstn 8 d))) else None.
Proof. reflexivity. Qed.
Lemma dec_json_str f d :
  dec_json (S f) 12 d = match json_read_len 5 d 1 0 with
                        | Some (l, n) => if (N.to_nat (n + l) <=? length d)%nat then Some (JStr (sub d n l)) else None
                        | None => None end.
Proof. reflexivity. Qed.

Definition jv_scalar (v : jv) : bool :=
  match v with JArr _ | JObj _ => false | _ => true end.

Lemma doc_frame t body fuel :
  N.of_nat (S (length body)) < u32 ->
  dec_json_doc fuel (le_bytes 4 (N.of_nat (S (length body)) mod u32) ++ t :: body) = dec_json fuel t body.
Proof.
  intros H. unfold dec_json_doc. rewrite app_length, le_length. cbn [length].
  assert (L : (4 + S (length body) <? 5)%nat = false) by (apply Nat.ltb_ge; lia). rewrite L.
  rewrite (firstn_app_exact _ _ 4 (le_length 4 _)), (skipn_app_exact _ _ 4 (le_length 4 _)).
  rewrite N.mod_small by exact H. rewrite le_roundtrip by (unfold pow256; cbn; unfold u32 in H; lia).
  rewrite Nat2N.id, Nat.eqb_refl. reflexivity.
Qed.

(* full statement: for every document of the domain (jv_ok 60), decode (encode doc) = doc.
   Proved here: every scalar document (null / true / false / every float64 / every string below 2^21 bytes).
   Missing: the general theorem for arrays and objects (nested offsets) — they are
   covered by execution (json_examples, json_key256_regression, json_oversize_regression) and by the correspondence run with both decoders. *)
Theorem json_scalar_roundtrip_partial v :
  in_domain (VJson v) = true -> jv_scalar v = true ->
  exists b, enc_json_doc v = Some b /\ decodes_to (VJson v) b = true.
Proof.
  cbn [in_domain decodes_to]. intros H Hs. unfold enc_json_doc.
  destruct v as [| | |bits|s|l|l]; try discriminate Hs; cbn [jv_ok] in H.
  - eexists. split; [reflexivity|]. vm_compute. reflexivity.
  - eexists. split; [reflexivity|]. vm_compute. reflexivity.
  - eexists. split; [reflexivity|]. vm_compute. reflexivity.
  - apply N.ltb_lt in H. cbn [enc_json]. eexists. split; [reflexivity|].
    rewrite doc_frame by (rewrite le_length; reflexivity).
    change 64%nat with (S 63). rewrite dec_json_num. rewrite le_length. cbn [Nat.leb].
    rewrite firstn_all2 by (rewrite le_length; lia).
    rewrite le_roundtrip by (unfold pow256; cbn; lia). unfold opt_eqb. cbn [jv_eqb]. apply N.eqb_refl.
  - unfold str_ok in H. apply andb_true_iff in H as [Hl _]. apply N.ltb_lt in Hl. cbn [enc_json].
    destruct (json_len_roundtrip (N.of_nat (length s)) s Hl) as [lb [E1 [E2 E3]]]. rewrite E1.
    eexists. split; [reflexivity|].
    rewrite doc_frame by (rewrite app_length; unfold u32; lia).
    change 64%nat with (S 63). rewrite dec_json_str. rewrite E2.
    assert (Hle : (N.to_nat (N.of_nat (length lb) + N.of_nat (length s)) <=? length (lb ++ s))%nat = true)
      by (apply Nat.leb_le; rewrite app_length; lia).
    rewrite Hle. unfold sub. rewrite !Nat2N.id, (skipn_app_exact _ _ _ eq_refl), firstn_all.
    unfold opt_eqb. cbn [jv_eqb]. apply beq_bytes_refl.
Qed.

(* the 2-byte key length of an object key entry reads back, for every key below 2^16 bytes *)
Lemma json_key_len_roundtrip n : n < 65536 -> le_val [n mod 256; (n / 256) mod 256] = n.
Proof. intros H. unfold le_val, of_base. cbn [rev app fold_left]. lia. Qed.

(* regressions (were json_key256_refuted / json_underflow_refuted before 68f42a2): object keys of 256, 300 and 65535 bytes
   round-trip; an element longer than 65535 bytes as the last one sends the array / object to the large format and round-trips *)
Example json_key256_regression :
  forallb (fun v => match enc_json_doc v with Some b => decodes_to (VJson v) b | None => false end)
    [JObj [(repeat 107 256, JNull)]; JObj [(repeat 107 300, JArr [JNum 0])]; JObj [(repeat 107 65535, JTrue)];
     JObj [(repeat 97 255, JNum 1); (repeat 98 256, JStr [120]); (repeat 99 257, JObj [(repeat 100 256, JNull)])]] = true.
Proof. vm_compute. reflexivity. Qed.

Example json_oversize_regression :
  forallb (fun v => match enc_json_doc v with
                    | Some b => decodes_to (VJson v) b && (nth 4 b 0 =? (match v with JObj _ => 1 | _ => 3 end))   (* large format *)
                    | None => false end)
    [JArr [JStr [120]; JStr (repeat 97 70000)]; JObj [([97], JStr (repeat 97 70000))]; JArr [JStr (repeat 97 70000)];
     JArr [JStr (repeat 112 65533)]] = true.
Proof. vm_compute. reflexivity. Qed.

(* arrays / objects, small and large formats, inlined literals, nested offsets: executed *)
Example json_examples :
  forallb (fun v => match enc_json_doc v with Some b => decodes_to (VJson v) b | None => false end)
    [JArr []; JObj []; JArr [JNull; JTrue; JFalse]; JArr [JNum 4607182418800017408; JStr [120]; JArr [JNum 0; JArr [JStr [121]; JObj []]]; JObj [([107], JArr [])]];
     JObj [([97], JNum 1); ([98], JArr [JTrue; JNull; JStr [120]]); ([99], JObj [([100], JNum 2)])];
     JObj [(repeat 107 255, JNum 1)];
     JArr (repeat (JStr (repeat 115 400)) 170);                        (* large format: offsets beyond 65535 *)
     JArr [JStr (repeat 97 70000); JStr [120]];                        (* large format after the small one overflows *)
     JArr (repeat JNull 300)] = true.
Proof. vm_compute. reflexivity. Qed.

(* ---- a row: the INT column after an ENUM column is read at the right offset, for every member count ---- *)
Theorem row_roundtrip members v z :
  in_domain (VRow members v z) = true -> decodes_to (VRow members v z) (enc_enum members v ++ enc_int 4 z) = true.
Proof.
  intros H. cbn [in_domain] in H. repeat (apply andb_true_iff in H as [H ?]).
  cbn [decodes_to].
  assert (L : length (enc_enum members v) = enum_width members) by (unfold enc_enum; apply le_length).
  rewrite (firstn_app_exact _ _ _ L), (skipn_app_exact _ _ _ L).
  apply andb_true_iff. split.
  - apply (enum_roundtrip members v). cbn [in_domain]. repeat (apply andb_true_iff; split); assumption.
  - apply (int_roundtrip 4 true z). cbn [in_domain]. apply andb_true_iff. split; [reflexivity|].
    change (pow256 4 / 2) with 2147483648. apply andb_true_iff. split; assumption.
Qed.

(* ---- the oracle holds on the model: for every in-domain value outside the still-open refuted class (negative TIME xx:xx:59.f) (and, for JSON,
   inside the proved scalar class) the model's bytes + metadata satisfy the executable property ---- *)
Definition proved_class (v : value) : Prop :=
  match v with
  | VTime neg _ _ s us => neg = true -> 0 < us -> s < 59
  | VJson d => jv_scalar d = true
  | _ => True
  end.

Lemma meta_ok_model v : in_domain v = true -> meta_ok v (fst (model_meta v)) (snd (model_meta v)) = true.
Proof.
  destruct v; cbn [in_domain model_meta meta_ok fst snd]; intros H; try (apply N.eqb_refl);
    try (rewrite ?N.eqb_refl; reflexivity).
  - (* decimal *) repeat (apply andb_true_iff in H as [H ?]).
    repeat match goal with X : (_ <=? _) = true |- _ => apply N.leb_le in X end.
    repeat (apply andb_true_iff; split); apply N.eqb_eq; lia.
  - (* string *) destruct fixed; cbn [fst snd]; [|rewrite !N.eqb_refl; reflexivity].
    repeat (apply andb_true_iff in H as [H ?]).
    match goal with X : (maxlen <? _) = true |- _ => apply N.ltb_lt in X; rewrite (char_meta_roundtrip _ X) end.
    rewrite !N.eqb_refl. reflexivity.
  - (* enum *) repeat (apply andb_true_iff; split); apply N.eqb_eq; unfold enum_width; destruct (members <=? 255); cbn; lia.
  - (* set *) repeat (apply andb_true_iff in H as [H ?]).
    repeat match goal with X : (_ <=? _) = true |- _ => apply N.leb_le in X end.
    assert (W : N.of_nat (set_width members) <= 8) by (unfold set_width; rewrite N2Nat.id; lia).
    repeat (apply andb_true_iff; split); apply N.eqb_eq; lia.
  - (* bit *) repeat (apply andb_true_iff in H as [H ?]).
    repeat match goal with X : (_ <=? _) = true |- _ => apply N.leb_le in X end.
    rewrite N.eqb_refl. cbn [andb].
    assert (E1 : (bits / 8 * 256 + bits mod 8) / 256 = bits / 8) by lia.
    assert (E2 : (bits / 8 * 256 + bits mod 8) mod 256 = bits mod 8) by lia.
    rewrite E1, E2. apply N.eqb_eq. rewrite <- bit_meta_len_ok by lia. reflexivity.
Qed.

Theorem oracle_on_model v : in_domain v = true -> proved_class v -> oracle v (model_obs v) = true.
Proof.
  intros Hd Hp. unfold oracle. rewrite Hd. cbn [negb].
  assert (E : exists b, model_enc v = Some b /\ decodes_to v b = true).
  { destruct v; cbn [model_enc proved_class] in *;
      try (eexists; split; [reflexivity|]).
    - apply int_roundtrip; exact Hd.
    - apply year_roundtrip; exact Hd.
    - apply date_roundtrip; exact Hd.
    - apply datetime2_roundtrip; exact Hd.
    - apply timestamp2_roundtrip; exact Hd.
    - apply time2_roundtrip; assumption.
    - apply decimal_roundtrip; exact Hd.
    - apply string_roundtrip; exact Hd.
    - apply blob_roundtrip; exact Hd.
    - apply enum_roundtrip; exact Hd.
    - apply set_roundtrip; exact Hd.
    - apply bit_roundtrip; exact Hd.
    - apply float_roundtrip; exact Hd.
    - apply double_roundtrip; exact Hd.
    - apply json_scalar_roundtrip_partial; assumption.
    - apply row_roundtrip; exact Hd. }
  destruct E as [b [Eb Db]]. unfold model_obs. rewrite Eb. cbn [o_data o_typ o_meta o_agree].
  rewrite Db, (meta_ok_model v Hd). reflexivity.
Qed.
