(* C04 — the property, declaratively: what a client can see of a journal-backed store is the error
   class of the open, the root hash, and for every address whether the store has it, where, and what
   reading it returns.  The index file is transparent when this view is the same with the index file
   (whatever its bytes) and without it; and a read-only open modifies neither file. *)
From Coq Require Import NArith List Bool.
From Dolt Require Import Base.Str C03.Model C03.Spec C03.Corr C04.Model.
Import ListNotations.
Local Open Scope N_scope.

(* (error class, root, per known address: found, offset, length, read status, checksum of the bytes read) *)
Definition view := (N * bytes * list look)%type.

Definition view_of_boot (crc : bytes -> N) (known : list bytes) (b : boot) : view :=
  if b_err b =? 0 then (0, b_root b, map (look_of crc b) known)
  else (b_err b, zero_hash, []).

(* the same projection of an observation of the implementation *)
Definition view_of_res (r : res) : view := (r_err r, r_root r, r_looks r).

Definition view_eqb (a b : view) : bool :=
  let '(ea, ra, la) := a in
  let '(eb, rb, lb) := b in
  (ea =? eb) && beq_bytes ra rb && list_eqb look_eqb la lb.

(* index_transparent, for one journal and one candidate index image *)
Definition transparent_on (crc : bytes -> N) (bufsz : N) (can_write : bool) (max_novel : N) (known : list bytes) (idx : option bytes) (journal : bytes) : bool :=
  view_eqb (view_of_boot crc known (bootstrap_opt_index crc bufsz can_write max_novel idx journal))
           (view_of_boot crc known (bootstrap_no_index crc bufsz can_write max_novel journal)).

(* ---- vocabulary of the validated-index theorem ---- *)

(* the chunk addresses an index-free scan of the journal finds *)
Definition journal_chunk_addrs (crc : bytes -> N) (bufsz : N) (j : bytes) : list bytes :=
  match process crc bufsz kind_ok 0 j with
  | POk _ items => map (fun it : N * prec => p_addr (snd it)) (filter (fun it : N * prec => p_kind (snd it) =? kind_chunk) items)
  | _ => []
  end.

(* h is told apart from every chunk address of the journal by its 16-byte prefix (the code's own assumption:
   "a 16-byte prefix of their addr which is assumed to be globally unique") *)
Definition a16_distinct (crc : bytes -> N) (bufsz : N) (j h : bytes) : Prop :=
  forall k, In k (journal_chunk_addrs crc bufsz j) -> addr16 k = addr16 h -> k = h.
