(* C04 — correspondence: the journal and the genuine index are the bytes the real writer produced
   (reported by the harness); every variant (journal damage, index variant, read-only?) is opened by
   the implementation with and without the index; the model predicts both observations and the index
   file left behind; the oracle is the property on the implementation's observations. *)
From Coq Require Import NArith List Bool.
From Dolt Require Import Base.Str C03.Model C03.Spec C03.Corr C04.Model C04.Spec.
Import ListNotations.
Local Open Scope N_scope.

Inductive ivar :=
| IMissing                                        (* no index file *)
| IBytes (bs : bytes)                             (* explicit image *)
| IEdit (keep : N) (patches : list (N * bytes)).  (* first keep bytes of the genuine index, overwritten at the given positions
                                                     (genuine, truncations, stale prefixes, xor, swapped / overwritten range fields) *)

Record variant := { v_jmut : mut; v_idx : ivar; v_ro : bool }.

Record vobs := {
  vo_idxlen : N; vo_idxsum : N;       (* the index image handed to the implementation (length, crc): checks the variant resolution *)
  vo_with : res; vo_without : res;
  vo_idx_exists : bool; vo_idx_after : bytes; vo_idx_same : bool
}.

Record obs := {
  o_lookup_sz : N; o_meta_sz : N;
  o_fn_off : N; o_fn_err : bool; o_fn_batches : list N; o_fn_crcok : bool;   (* processIndexRecords over the genuine index *)
  o_vars : list vobs
}.

Record input := {
  i_poly : N; i_bufsz : N; i_maxnovel : N;
  i_journal : bytes; i_index : bytes;
  i_known : list bytes;
  i_vars : list variant
}.
Definition case := (input * obs)%type.

Fixpoint overwrite (p : N) (bs : bytes) (l : bytes) : bytes :=
  match l with
  | [] => []
  | x :: l' =>
    if p =? 0 then match bs with
                   | [] => l
                   | b :: bs' => b :: overwrite 0 bs' l'
                   end
    else x :: overwrite (N.pred p) bs l'
  end.

Definition apply_ivar (genuine : bytes) (v : ivar) : option bytes :=
  match v with
  | IMissing => None
  | IBytes bs => Some bs
  | IEdit keep ps => Some (fold_left (fun l pb => overwrite (fst pb) (snd pb) l) ps (firstn (N.to_nat keep) genuine))
  end.

Definition vobs_of (crc : bytes -> N) (i : input) (v : variant) : vobs :=
  let bufsz := i_bufsz i in
  let j := apply_mut (fun _ => []) (i_journal i) (v_jmut v) in
  let idx := apply_ivar (i_index i) (v_idx v) in
  let cw := negb (v_ro v) in
  let after := index_after crc bufsz cw (i_maxnovel i) idx j in
  {| vo_idxlen := match idx with Some b => lenN b | None => 0 end;
     vo_idxsum := match idx with Some b => crc b | None => 0 end;
     vo_with := res_of_boot crc (i_known i) j (v_ro v) (bootstrap_opt_index crc bufsz cw (i_maxnovel i) idx j);
     vo_without := res_of_boot crc (i_known i) j (v_ro v) (bootstrap_no_index crc bufsz cw (i_maxnovel i) j);
     vo_idx_exists := match after with Some _ => true | None => false end;
     vo_idx_after := match after with Some b => b | None => [] end;
     vo_idx_same := match idx, after with
                    | Some a, Some b => beq_bytes a b
                    | None, None => true
                    | _, _ => false
                    end |}.

Definition model_obs (i : input) : obs :=
  let crc := crc32_tbl (crc_table (i_poly i)) in
  let '(bts, mal) := parse_index (i_index i) in
  {| o_lookup_sz := lookup_len; o_meta_sz := meta_len;
     o_fn_off := safe_offset bts; o_fn_err := mal;
     o_fn_batches := map (fun b => N.of_nat (length (bt_lookups b))) bts;
     o_fn_crcok := forallb (fun b => m_sum (bt_meta b) =? batch_crc crc (bt_lookups b)) bts;
     o_vars := map (vobs_of crc i) (i_vars i) |}.

(* ---- comparison.  r_count (rangeIndex.count = journalChunkSource.count = what Count and iterateAllChunks
   see) is reproduced by the model and is part of the property (see vobs_ok).  r_idx of the C03 record is the existence of
   an index file after the open: with an index image present it exists also after read-only opens,
   so it is compared through vo_idx_exists for the with-index open. ---- *)
Definition res_eqb' (a b : res) : bool :=
  (r_err a =? r_err b) && beq_bytes (r_root a) (r_root b) && (r_off a =? r_off b) && (r_count a =? r_count b)
  && list_eqb look_eqb (r_looks a) (r_looks b) && (r_size a =? r_size b)
  && Bool.eqb (r_unchanged a) (r_unchanged b).
Definition vobs_eqb (a b : vobs) : bool :=
  (vo_idxlen a =? vo_idxlen b) && (vo_idxsum a =? vo_idxsum b)
  && res_eqb' (vo_with a) (vo_with b) && res_eqb (vo_without a) (vo_without b)
  && Bool.eqb (vo_idx_exists a) (vo_idx_exists b) && beq_bytes (vo_idx_after a) (vo_idx_after b)
  && Bool.eqb (vo_idx_same a) (vo_idx_same b).
Definition obs_eqb (a b : obs) : bool :=
  (o_lookup_sz a =? o_lookup_sz b) && (o_meta_sz a =? o_meta_sz b) && (o_fn_off a =? o_fn_off b)
  && Bool.eqb (o_fn_err a) (o_fn_err b) && list_eqb N.eqb (o_fn_batches a) (o_fn_batches b)
  && Bool.eqb (o_fn_crcok a) (o_fn_crcok b) && list_eqb vobs_eqb (o_vars a) (o_vars b).

(* ---- the property on what the implementation returned: for every variant, the view with the
   index equals the view without it, and a read-only open modifies neither the journal nor the
   index file (and does not create one). ---- *)
(* Count / the number of chunks iterateAllChunks visits (novel + cached entries) is observable through the store:
   it must be the same with and without the index whenever both opens succeed.  (Histories with the same
   address written on both sides of the indexed offset are outside the generator: there the real code counts
   the address twice with a genuine index.) *)
Definition vobs_ok (v : variant) (o : vobs) : bool :=
  view_eqb (view_of_res (vo_with o)) (view_of_res (vo_without o))
  && (if (r_err (vo_with o) =? 0) && (r_err (vo_without o) =? 0) then r_count (vo_with o) =? r_count (vo_without o) else true)
  && (if v_ro v
      then r_unchanged (vo_with o) && r_unchanged (vo_without o) && vo_idx_same o && negb (r_idx (vo_without o))
      else true).

Definition oracle (i : input) (o : obs) : bool := all2 vobs_ok (i_vars i) (o_vars o).

Definition check_case (c : case) : N :=
  (if obs_eqb (model_obs (fst c)) (snd c) then 0 else 1)
  + (if oracle (fst c) (snd c) then 0 else 2).
